(** C23 — model of crates/erg_compiler/ownercheck.rs (OwnershipChecker) and of the part of
    crates/erg_compiler/ty/mod.rs it relies on (SubrType::args_ownership, Type::ownership).
    Definitions only.

    The mini-HIR keeps exactly what the checker looks at:
      * an identifier: its name, its location and `acc.ref_t().is_mut_type()`;
      * a call: the callee / receiver, the shape of the callee's signature type (per parameter: its name and which
        arm of `args_ownership` its type takes), `is_method_call()`, positional / `*` / keyword / `**` arguments;
      * collection literals (all of List::Normal, List::WithLength, Tuple, Set::Normal, Set::WithLength,
        Dict::Normal, Record are walked the same way: every element in source order with the ownership of the
        literal; a dictionary is the sequence k1 v1 k2 v2 ..., a record the chunks of its attribute bodies);
      * definitions and lambdas: the names registered by `define_params` (parameters whose pattern is a plain
        name), the default values, the body block;
      * everything the checker does not look into (`_ => {}`: Literal, ReDef, Code, Compound, Import, Dummy).
    `Option`s of the HIR are lists of length <= 1.

    State: `path_stack` (here: innermost component first), the path-keyed dictionary `dict` (key = `full_path()`,
    the concatenation of "::name" / ".name"), the error list. `unwrap()`, `todo!()`, `panic!` and the `usize`
    subtraction are explicit [Panic] outcomes. *)
From Coq Require Import ZArith List Bool.
Import ListNotations.
Open Scope Z_scope.

Definition str := list Z.
Definition loc := Z.

Fixpoint str_eqb (a b : str) : bool :=
  match a, b with
  | [], [] => true
  | x :: a', y :: b' => (x =? y) && str_eqb a' b'
  | _, _ => false
  end.

(** ty/mod.rs Ownership *)
Inductive own := Owned | Ref | RefMut.
Definition is_owned (o : own) : bool := match o with Owned => true | _ => false end.

(** which arm of the `match nd_param.typ()` in args_ownership a parameter type takes:
    `Type::Ref(_)`, `Type::RefMut{..}`, `other` with `other.is_mut_type()`, `other` without *)
Inductive pkind := KRef | KRefMut | KMut | KImm.

Record param := MkParam { p_name : option str; p_kind : pkind }.

(** the callee's signature type as far as `args_ownership` reads it *)
Record subr_sig := MkSig {
  sg_method : bool;                (* `implicit_self`: hir::Call::is_method_call() (the first non-default parameter is
                                      `self`) && !call.obj.ref_t().is_singleton_refinement_type() (not called through the class) *)
  sg_nd : list param;              (* non_default_params *)
  sg_var : list param;             (* var_params (Option) *)
  sg_d : list param;               (* default_params *)
  sg_kwvar : list param            (* kw_var_params (Option) *)
}.

Inductive call_sig :=
| SigNone                          (* signature_t() is None or !is_subr(): the checker returns *)
| SigTodo                          (* Type::args_ownership: `other => todo!()` *)
| SigSubr (g : subr_sig).

Inductive ckind := CList | CListLen | CTuple | CSet | CSetLen | CDict | CRecord (single : bool).
Inductive dkind := DVar | DSubr | DGlob.

Inductive expr :=
| ELit
| EVar (l : loc) (x : str) (m : bool)          (* Accessor::Ident; m = ref_t().is_mut_type() *)
| EAttr (obj : expr)                           (* Accessor::Attr *)
| ECall (callee : expr) (sg : call_sig) (pos : list expr) (star : list expr)
        (kwn : list str) (kws : list expr) (kwstar : list expr)
| EBinOp (l r : expr)
| EUnary (e : expr)
| EColl (k : ckind) (es : list expr)
| ECollTodo                                    (* List::Comprehension / Dict::Comprehension: todo!() *)
| ELambda (name : str) (names : list str) (defaults : list expr) (body : list expr)   (* name = "<lambda_{id}>" *)
| EDef (k : dkind) (pub : bool) (name : str) (names : list str) (defaults : list expr) (body : list expr)
| EClassDef (heads : list expr) (methods : list expr)   (* ClassDef: heads = require_or_sup; PatchDef: heads = [base] *)
| ETypeAsc (e : expr)
| EOther (subs : list expr).

(** ------------------------------------------------------------------ outcomes *)
Inductive res (A : Type) := Ok (a : A) | Panic (site : Z).
Arguments Ok {A} _.
Arguments Panic {A} _.

Definition bind {A B} (r : res A) (f : A -> res B) : res B :=
  match r with Ok a => f a | Panic s => Panic s end.

(** panic sites *)
Definition P_scope_unwrap : Z := 1.   (* current_scope / nth_outer_scope: dict.get_mut(..).unwrap() *)
Definition P_not_found : Z := 2.      (* drop: panic!("variable not found") *)
Definition P_todo_sig : Z := 3.       (* Type::args_ownership: todo!() *)
Definition P_todo_kw : Z := 4.        (* check_expr, keyword argument matching no parameter: todo!() *)
Definition P_todo_coll : Z := 5.      (* List::Comprehension, Dict other than Normal: todo!() *)
Definition P_usize_sub : Z := 6.      (* args_owns.non_defaults.len() - 1 on an empty list (debug build) *)
Definition P_dname_unwrap : Z := 7.   (* args_ownership: d_param.name().unwrap() *)

(** ------------------------------------------------------------------ state *)
(** LocalVars: alive_vars : Set<Str>, dropped_vars : Dict<Str, Location> (duplicate-free lists) *)
Record lv := MkLv { alive : list str; dropped : list (str * loc) }.
Definition lv_default : lv := MkLv [] [].

Definition comp := (bool * str)%type.            (* Visibility: is_public, def_namespace *)

Record err := MkErr { e_name : str; e_loc : loc; e_moved : loc; e_by : str }.

Record st := MkSt { stk : list comp; dict : list (str * lv); errs : list err }.

Definition colon : Z := 58.
Definition dot : Z := 46.

(** full_path: fold over path_stack of  acc + ("." | "::") + def_namespace ; [stk] has the innermost component first *)
Fixpoint path_of (p : list comp) : str :=
  match p with
  | [] => []
  | (pub, n) :: outer => path_of outer ++ (if pub then [dot] else [colon; colon]) ++ n
  end.

Fixpoint set_mem (x : str) (s : list str) : bool :=
  match s with [] => false | y :: t => str_eqb x y || set_mem x t end.
Definition set_insert (x : str) (s : list str) : list str := if set_mem x s then s else x :: s.
Fixpoint set_remove (x : str) (s : list str) : list str :=
  match s with [] => [] | y :: t => if str_eqb x y then set_remove x t else y :: set_remove x t end.

Section Dict.
  Context {V : Type}.
  Fixpoint dict_get (k : str) (d : list (str * V)) : option V :=
    match d with [] => None | (k', v) :: t => if str_eqb k k' then Some v else dict_get k t end.
  Fixpoint dict_remove (k : str) (d : list (str * V)) : list (str * V) :=
    match d with [] => [] | (k', v) :: t => if str_eqb k k' then dict_remove k t else (k', v) :: dict_remove k t end.
  Definition dict_insert (k : str) (v : V) (d : list (str * V)) : list (str * V) := (k, v) :: dict_remove k d.
End Dict.

(** nth_outer_scope(n): the entry keyed by the path of all but the n innermost components *)
Definition nth_outer_scope (n : nat) (s : st) : res lv :=
  match dict_get (path_of (skipn n (stk s))) (dict s) with
  | Some v => Ok v
  | None => Panic P_scope_unwrap
  end.

Definition set_nth_outer_scope (n : nat) (v : lv) (s : st) : st :=
  MkSt (stk s) (dict_insert (path_of (skipn n (stk s))) v (dict s)) (errs s).

(** push a component and `self.dict.insert(full_path, LocalVars::default())` *)
Definition push_scope (c : comp) (s : st) : st :=
  MkSt (c :: stk s) (dict_insert (path_of (c :: stk s)) lv_default (dict s)) (errs s).

Definition pop_scope (s : st) : st := MkSt (tl (stk s)) (dict s) (errs s).

(** define_name: current_scope(); dropped_vars.remove(name); alive_vars.insert(name) *)
Definition define_name (x : str) (s : st) : res st :=
  bind (nth_outer_scope 0 s) (fun v =>
  Ok (set_nth_outer_scope 0 (MkLv (set_insert x (alive v)) (dict_remove x (dropped v))) s)).

Fixpoint define_names (xs : list str) (s : st) : res st :=
  match xs with
  | [] => Ok s
  | x :: t => bind (define_name x s) (define_names t)
  end.

(** define(def) *)
Definition define (k : dkind) (name : str) (s : st) : res st :=
  match k with DGlob => Ok s | _ => define_name name s end.

(** check_if_dropped: for n in 0..path_stack.len() — alive in that scope: Ok; dropped there: the error *)
Fixpoint check_if_dropped_from (fuel : nat) (n : nat) (x : str) (s : st) : res (option loc) :=
  match fuel with
  | O => Ok None
  | S fuel' =>
    bind (nth_outer_scope n s) (fun v =>
    if set_mem x (alive v) then Ok None
    else match dict_get x (dropped v) with
         | Some ml => Ok (Some ml)
         | None => check_if_dropped_from fuel' (S n) x s
         end)
  end.
Definition check_if_dropped (x : str) (s : st) : res (option loc) :=
  check_if_dropped_from (length (stk s)) 0 x s.

(** drop: the innermost scope in which the name is alive; panic!("variable not found") otherwise *)
Fixpoint drop_from (fuel : nat) (n : nat) (x : str) (l : loc) (s : st) : res st :=
  match fuel with
  | O => Panic P_not_found
  | S fuel' =>
    bind (nth_outer_scope n s) (fun v =>
    if set_mem x (alive v)
    then Ok (set_nth_outer_scope n (MkLv (set_remove x (alive v)) (dict_insert x l (dropped v))) s)
    else drop_from fuel' (S n) x l s)
  end.
Definition drop (x : str) (l : loc) (s : st) : res st := drop_from (length (stk s)) 0 x l s.

Definition push_err (e : err) (s : st) : st := MkSt (stk s) (dict s) (errs s ++ [e]).

(** check_acc, Accessor::Ident arm *)
Definition check_ident (l : loc) (x : str) (m : bool) (o : own) (chunk : bool) (s : st) : res st :=
  bind (check_if_dropped x s) (fun r =>
  match r with
  | Some ml => Ok (push_err (MkErr x l ml (path_of (stk s))) s)
  | None => if m && is_owned o && negb chunk then drop x l s else Ok s
  end).

(** ------------------------------------------------------------------ ty/mod.rs: args_ownership *)
(** non-default and default parameters: Ref(_) => Ref, RefMut{..} => RefMut, is_mut_type() => Owned, else Ref *)
Definition own_of_kind (k : pkind) : own :=
  match k with KRef => Ref | KRefMut => RefMut | KMut => Owned | KImm => Ref end.
(** var_params / kw_var_params: the same match (before the fix of this property: Type::ownership, `_ => Owned`) *)
Definition own_of_var_kind (k : pkind) : own := own_of_kind k.

Record args_own := MkAO {
  ao_nd : list (option str * own);
  ao_var : list own;                 (* Option *)
  ao_d : list (str * own);
  ao_kwvar : list own                (* Option *)
}.

Fixpoint d_owns (ps : list param) : res (list (str * own)) :=
  match ps with
  | [] => Ok []
  | p :: t => match p_name p with
              | None => Panic P_dname_unwrap
              | Some n => bind (d_owns t) (fun r => Ok ((n, own_of_kind (p_kind p)) :: r))
              end
  end.

Definition args_ownership (g : subr_sig) : res args_own :=
  bind (d_owns (sg_d g)) (fun d =>
  Ok (MkAO (map (fun p => (p_name p, own_of_kind (p_kind p))) (sg_nd g))
           (map (fun p => own_of_var_kind (p_kind p)) (sg_var g))
           d
           (map (fun p => own_of_var_kind (p_kind p)) (sg_kwvar g)))).

(** ------------------------------------------------------------------ list walkers (the `for` loops of check_expr) *)
Section Walk.
  Variable f : expr -> own -> bool -> st -> res st.

  (** for a in elems: check_expr(a, o, false) *)
  Fixpoint iter (o : own) (l : list expr) (s : st) : res st :=
    match l with
    | [] => Ok s
    | a :: t => bind (f a o false s) (iter o t)
    end.

  (** for def in methods: check_expr(def, Owned, true) *)
  Fixpoint iter_chunks (l : list expr) (s : st) : res st :=
    match l with
    | [] => Ok s
    | a :: t => bind (f a Owned true s) (iter_chunks t)
    end.

  (** check_block(block, bound): for (i, chunk) in block.enumerate(): check_expr(chunk, Owned, !(bound && i == last))
      bound = the block initialises a variable *)
  Fixpoint iter_block (l : list expr) (s : st) : res st :=
    match l with
    | [] => Ok s
    | [a] => f a Owned false s
    | a :: t => bind (f a Owned true s) (iter_block t)
    end.
  Definition check_block (bound : bool) (l : list expr) (s : st) : res st :=
    if bound then iter_block l s else iter_chunks l s.

  (** the positional arguments: the first min(non_defaults_len, len) are zipped with the non-default ownerships
      (after `self`), the rest goes to var_params if there is one, else is zipped with the defaults *)
  Fixpoint walk_pos (var : list own) (l : list expr) (nds : list own) (ds : list own) (s : st) : res st :=
    match l with
    | [] => Ok s
    | a :: t =>
      match nds with
      | o :: nds' => bind (f a o false s) (walk_pos var t nds' ds)
      | [] =>
        match var with
        | o :: _ => bind (f a o false s) (walk_pos var t [] ds)
        | [] =>
          match ds with
          | o :: ds' => bind (f a o false s) (walk_pos var t [] ds')
          | [] => Ok s                       (* zip ends: surplus arguments are not visited *)
          end
        end
      end
    end.

  (** for kw_arg in kw_args: defaults by name, then non_defaults by name, then kw_var_params, else todo!() *)
  Definition kw_own (ao : args_own) (k : str) : res own :=
    match find (fun p => str_eqb (fst p) k) (ao_d ao) with
    | Some (_, o) => Ok o
    | None =>
      match find (fun p => match fst p with Some n => str_eqb n k | None => false end) (ao_nd ao) with
      | Some (_, o) => Ok o
      | None => match ao_kwvar ao with o :: _ => Ok o | [] => Panic P_todo_kw end
      end
    end.

  Fixpoint walk_kw (ao : args_own) (l : list expr) (ks : list str) (s : st) : res st :=
    match l with
    | [] => Ok s
    | a :: t =>
      match ks with
      | [] => Ok s
      | k :: ks' => bind (kw_own ao k) (fun o => bind (f a o false s) (walk_kw ao t ks'))
      end
    end.
End Walk.

Definition dkind_is_subr (k : dkind) : bool := match k with DSubr => true | _ => false end.

(** ------------------------------------------------------------------ check_expr *)
Fixpoint check_expr (e : expr) (o : own) (chunk : bool) (s : st) {struct e} : res st :=
  match e with
  | ELit => Ok s
  (* Expr::Accessor(acc) => self.check_acc(acc, ownership, chunk) *)
  | EVar l x m => check_ident l x m o chunk s
  | EAttr obj => check_expr obj o false s
  | ECall callee sg pos star kwn kws kwstar =>
    bind (check_expr callee Ref false s) (fun s =>
    match sg with
    | SigNone => Ok s
    | SigTodo => Panic P_todo_sig
    | SigSubr g =>
      bind (args_ownership g) (fun ao =>
      bind (if sg_method g
            then match ao_nd ao with [] => Panic P_usize_sub | _ :: _ => Ok (Nat.pred (length (ao_nd ao))) end
            else Ok (length (ao_nd ao))) (fun non_defaults_len =>
      let skip_self := (length (ao_nd ao) - non_defaults_len)%nat in
      bind (walk_pos check_expr (ao_var ao) pos (map snd (skipn skip_self (ao_nd ao))) (map snd (ao_d ao)) s) (fun s =>
      bind (iter check_expr Ref star s) (fun s =>
      bind (walk_kw check_expr ao kws kwn s) (fun s =>
      iter check_expr Ref kwstar s)))))
    end)
  | EBinOp l r => bind (check_expr l Ref false s) (check_expr r Ref false)
  | EUnary a => check_expr a Ref false s
  | EColl k es =>
    match k with
    | CList => iter check_expr o es s
    | CListLen => iter check_expr o es s
    | CTuple => iter check_expr o es s
    | CSet => iter check_expr o es s
    | CSetLen => iter check_expr o es s
    | CDict => iter check_expr o es s
    | CRecord _ => iter check_expr o es s
    end
  | ECollTodo => Panic P_todo_coll
  | ELambda name names defaults body =>
    bind (iter check_expr Ref defaults s) (fun s =>
    let s := push_scope (false, name) s in
    bind (define_names names s) (fun s =>
    bind (check_block check_expr false body s) (fun s =>
    Ok (pop_scope s))))
  | EDef k pub name names defaults body =>
    bind (if dkind_is_subr k then define k name s else Ok s) (fun s =>
    bind (if dkind_is_subr k then iter check_expr Ref defaults s else Ok s) (fun s =>
    let s := push_scope (pub, match k with DGlob => [42] | _ => name end) s in
    bind (if dkind_is_subr k then define_names names s else Ok s) (fun s =>
    bind (check_block check_expr (negb (dkind_is_subr k)) body s) (fun s =>
    let s := pop_scope s in
    if dkind_is_subr k then Ok s else define k name s))))
  | EClassDef heads methods =>
    bind (iter check_expr Owned heads s) (iter_chunks check_expr methods)
  | ETypeAsc a => check_expr a o chunk s
  | EOther _ => Ok s
  end.

(** OwnershipChecker::check on a fresh checker: path_stack is empty, so full_path() = "" differs from "::name":
    push the module component, insert its entry, then every chunk with (Owned, true) *)
Definition init_st : st := MkSt [] [] [].

Definition check (name : str) (module : list expr) : res (list err) :=
  let s := push_scope (false, name) init_st in
  bind (iter_chunks check_expr module s) (fun s => Ok (errs s)).
