(** extraction entry point for the C23 correspondence check and judge.
    Build dependencies: ErgV.Common.Sx ErgV.Owner.Model ErgV.Owner.Spec
    Wire encoding of the mini-HIR (produced by harness/owner from the real HIR, and by checks/c23.py from the
    generated tree); strings are lists of code points, booleans 0/1, options lists of length <= 1:
      (0) Literal | (1 loc name is_mut) Ident | (2 loc obj name) Attr
      (3 loc callee attr? sig pos star kw kwstar) Call, kw = ((name expr) ...),
          sig = () | (0) | (1 (is_method_call obj_is_class) nd var d kwvar) (or (1 implicit_self ...)), param = ((name)? kind), kind 0 Ref 1 RefMut 2 mutable 3 other
      (4 l r) BinOp | (5 e) UnaryOp | (6 es) List | (7 e len?) ListWithLength | (8 ..) List comprehension
      (9 es) Tuple | (10 es) Set | (11 e len) SetWithLength | (12 ((k v) ...)) Dict | (13) other Dict
      (14 (block ...)) Record (attribute bodies) | (15 name params body) Lambda | (16 def) Def
      (17 req? methods) ClassDef | (18 base methods) PatchDef | (19 e) TypeAsc
      (20 kind subs subs') ReDef / Code / Compound / Import / Dummy
      def    = (loc kind pub name params body)   kind 0 Var 1 Subr 2 Glob
      params = (names_registered names_bound defaults)
    modes:
      (0 name hir)          -> (0 ((name loc moved by) ...)) | (-1 site)       the model of OwnershipChecker::check
      (1 hir reported gen)  -> (verdict wf well_scoped ((name loc moved) ...) known)  Spec.judge; reported = ((name loc) ...);
                               gen = names of the subroutines declared generic, known = Spec.Known_C23 gen hir *)
From Coq Require Import ZArith List Bool.
From ErgV Require Import Common.Sx Owner.Model Owner.Spec.
Import ListNotations.
Open Scope Z_scope.

Definition zb (x : sx) : bool := negb (sx_z x =? 0).
Definition dec_str (x : sx) : str := sx_zs x.

Definition dec_kind (x : sx) : pkind :=
  match sx_z x with 0 => KRef | 1 => KRefMut | 2 => KMut | _ => KImm end.

Definition dec_param (x : sx) : param :=
  MkParam (match sx_l (sx_nth x 0) with n :: _ => Some (dec_str n) | [] => None end) (dec_kind (sx_nth x 1)).

Definition dec_sig (x : sx) : call_sig :=
  match x with
  | SL [] => SigNone
  | SL [SZ _] => SigTodo
  | SL [SZ _; m; nd; var; d; kwvar] =>
    SigSubr (MkSig (match m with SL [a; b] => zb a && negb (zb b) | _ => zb m end) (map dec_param (sx_l nd)) (map dec_param (sx_l var)) (map dec_param (sx_l d))
                   (map dec_param (sx_l kwvar)))
  | _ => SigTodo
  end.

Definition all_single (l : list sx) : bool :=
  forallb (fun b => match sx_l b with [_] => true | _ => false end) l.

Fixpoint dec (x : sx) : expr :=
  let dlist := fun (y : sx) => match y with SL l => map dec l | SZ _ => [] end in
  match x with
  | SZ _ => ELit
  | SL (SZ tag :: args) =>
    match tag, args with
    | 1, [loc; name; m] => EVar (sx_z loc) (dec_str name) (zb m)
    | 2, [loc; obj; name] => EAttr (dec obj)
    | 3, [loc; callee; attr; sg; pos; star; SL kw; kwstar] =>
      ECall (dec callee) (dec_sig sg) (dlist pos) (dlist star)
            (map (fun p => dec_str (sx_nth p 0)) kw)
            (map (fun p => match p with SL [_; e] => dec e | _ => ELit end) kw)
            (dlist kwstar)
    | 4, [l; r] => EBinOp (dec l) (dec r)
    | 5, [e] => EUnary (dec e)
    | 6, [es] => EColl CList (dlist es)
    | 7, [e; len] => EColl CListLen (dec e :: dlist len)
    | 8, _ => ECollTodo
    | 9, [es] => EColl CTuple (dlist es)
    | 10, [es] => EColl CSet (dlist es)
    | 11, [e; len] => EColl CSetLen [dec e; dec len]
    | 12, [SL kvs] =>
      EColl CDict (flat_map (fun kv => match kv with SL [k; v] => [dec k; dec v] | _ => [] end) kvs)
    | 13, _ => ECollTodo
    | 14, [SL blocks] =>
      EColl (CRecord (all_single blocks)) (flat_map (fun b => match b with SL l => map dec l | SZ _ => [] end) blocks)
    | 15, [name; SL [names; bound; ds]; body] =>
      ELambda (dec_str name) (map dec_str (sx_l names)) (dlist ds) (dlist body)
    | 16, [SL [loc; kind; pub; name; SL [names; bound; ds]; body]] =>
      EDef (match sx_z kind with 0 => DVar | 1 => DSubr | _ => DGlob end) (zb pub) (dec_str name)
           (map dec_str (sx_l names)) (dlist ds) (dlist body)
    | 17, [req; ms] => EClassDef (dlist req) (dlist ms)
    | 18, [b; ms] => EClassDef [dec b] (dlist ms)
    | 19, [e] => ETypeAsc (dec e)
    | 20, [kind; a; b] => EOther (dlist a ++ dlist b)
    | _, _ => ELit
    end
  | SL _ => ELit
  end.

Definition dec_module (x : sx) : list expr := map dec (sx_l x).

Definition enc_err (e : err) : sx :=
  SL [sx_of_zs (e_name e); SZ (e_loc e); SZ (e_moved e); sx_of_zs (e_by e)].

Definition enc_uam (u : uam) : sx :=
  SL [sx_of_zs (fst (fst u)); SZ (snd (fst u)); SZ (snd u)].

Definition run (x : sx) : sx :=
  match x with
  | SL (SZ 0 :: name :: hir :: _) =>
    match check (dec_str name) (dec_module hir) with
    | Ok es => SL [SZ 0; SL (map enc_err es)]
    | Panic site => SL [SZ (-1); SZ site]
    end
  | SL (SZ 1 :: hir :: reported :: _) =>
    let m := dec_module hir in
    let rep := map (fun r => (dec_str (sx_nth r 0), sx_z (sx_nth r 1))) (sx_l reported) in
    let gen := match x with SL (_ :: _ :: _ :: g :: _) => map dec_str (sx_l g) | _ => [] end in
    SL [SZ (judge m rep); sx_bool (wf_module m); sx_bool (well_scoped m); SL (map enc_uam (uams m));
        sx_bool (Known_C23 gen m)]
  | _ => SL [SZ (-2)]
  end.

Require Extraction.
Require Import ExtrOcamlBasic.
Extraction Language OCaml.
Extraction "model.ml" run.
