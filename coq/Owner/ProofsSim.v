(** C23 proofs, part 2: on a well-formed tree the checker of Model.v computes exactly the uses-after-move of the
    Spec ([sim_expr], [check_refines_spec]). *)
From Coq Require Import ZArith List Bool Lia.
From ErgV Require Import Owner.Model Owner.Spec Owner.ProofsState.
Import ListNotations.
Open Scope Z_scope.

(** ------------------------------------------------------------------ induction over the nested-list tree *)
Section ExprInd.
  Variable P : expr -> Prop.
  Hypothesis HLit : P ELit.
  Hypothesis HVar : forall l x m, P (EVar l x m).
  Hypothesis HAttr : forall o, P o -> P (EAttr o).
  Hypothesis HCall : forall c sg pos star kwn kws kwstar,
      P c -> Forall P pos -> Forall P star -> Forall P kws -> Forall P kwstar -> P (ECall c sg pos star kwn kws kwstar).
  Hypothesis HBin : forall l r, P l -> P r -> P (EBinOp l r).
  Hypothesis HUn : forall a, P a -> P (EUnary a).
  Hypothesis HColl : forall k es, Forall P es -> P (EColl k es).
  Hypothesis HCollTodo : P ECollTodo.
  Hypothesis HLam : forall n names ds body, Forall P ds -> Forall P body -> P (ELambda n names ds body).
  Hypothesis HDef : forall k pub n names ds body, Forall P ds -> Forall P body -> P (EDef k pub n names ds body).
  Hypothesis HClass : forall hs ms, Forall P hs -> Forall P ms -> P (EClassDef hs ms).
  Hypothesis HAsc : forall a, P a -> P (ETypeAsc a).
  Hypothesis HOther : forall subs, P (EOther subs).

  Fixpoint expr_ind' (e : expr) : P e :=
    let go := fix go (l : list expr) : Forall P l :=
                match l with [] => Forall_nil P | a :: t => Forall_cons a (expr_ind' a) (go t) end in
    match e with
    | ELit => HLit
    | EVar l x m => HVar l x m
    | EAttr o => HAttr o (expr_ind' o)
    | ECall c sg pos star kwn kws kwstar =>
      HCall c sg pos star kwn kws kwstar (expr_ind' c) (go pos) (go star) (go kws) (go kwstar)
    | EBinOp l r => HBin l r (expr_ind' l) (expr_ind' r)
    | EUnary a => HUn a (expr_ind' a)
    | EColl k es => HColl k es (go es)
    | ECollTodo => HCollTodo
    | ELambda n names ds body => HLam n names ds body (go ds) (go body)
    | EDef k pub n names ds body => HDef k pub n names ds body (go ds) (go body)
    | EClassDef hs ms => HClass hs ms (go hs) (go ms)
    | ETypeAsc a => HAsc a (expr_ind' a)
    | EOther subs => HOther subs
    end.
End ExprInd.

(** ------------------------------------------------------------------ running event sequences *)
Lemma run_app : forall a b en,
    run_events en (a ++ b) =
    let '(en1, u1, b1) := run_events en a in
    let '(en2, u2, b2) := run_events en1 b in
    (en2, u1 ++ u2, b1 && b2).
Proof.
  induction a as [|e a IH]; intros b en; cbn [app run_events].
  - destruct (run_events en b) as [[en2 u2] b2]. reflexivity.
  - destruct (step en e) as [[en1 u1] b1]. rewrite IH.
    destruct (run_events en1 a) as [[en2 u2] b2]. destruct (run_events en2 b) as [[en3 u3] b3].
    rewrite app_assoc, andb_assoc. reflexivity.
Qed.

Lemma run_app_inv : forall a b en en' us,
    run_events en (a ++ b) = (en', us, true) ->
    exists en1 u1 u2, run_events en a = (en1, u1, true) /\ run_events en1 b = (en', u2, true) /\ us = u1 ++ u2.
Proof.
  intros a b en en' us H. rewrite run_app in H.
  destruct (run_events en a) as [[en1 u1] b1]. destruct (run_events en1 b) as [[en2 u2] b2] eqn:Eb.
  injection H as H1 H2 H3. apply andb_true_iff in H3. destruct H3 as [H3 H4]. subst.
  exists en1, u1, u2. split; [reflexivity|]. split; [exact Eb|reflexivity].
Qed.

Lemma run_nil_inv : forall en en' us, run_events en [] = (en', us, true) -> en' = en /\ us = [].
Proof. intros en en' us H. cbn in H. inversion H. split; reflexivity. Qed.

Lemma run_binds : forall xs f en,
    run_events (f :: en) (map EvBind xs) = ((rev (map (fun x => (x, @None loc)) xs) ++ f) :: en, [], true).
Proof.
  induction xs as [|x xs IH]; intros f en; cbn [map run_events step rev app]; [reflexivity|].
  rewrite IH. rewrite <- app_assoc. reflexivity.
Qed.

(** ------------------------------------------------------------------ the simulation statement *)
Definition strip (e : err) : uam := (e_name e, e_loc e, e_moved e).

Definition pos_of (o : own) (chunk : bool) : pos :=
  match o with Owned => if chunk then PStmt else POwn | _ => PBorrow end.

Definition Sim (s s' : st) (en' : env) (us : list uam) : Prop :=
  stk s' = stk s /\ Rl (stk s') (dict s') en' /\ exists es, errs s' = errs s ++ es /\ map strip es = us.

Lemma Sim_refl : forall s en, Rl (stk s) (dict s) en -> Sim s s en [].
Proof. intros s en H. split; [reflexivity|]. split; [exact H|]. exists []. rewrite app_nil_r. split; reflexivity. Qed.

Lemma Sim_trans : forall s s1 s2 en1 en2 u1 u2,
    Sim s s1 en1 u1 -> Sim s1 s2 en2 u2 -> Sim s s2 en2 (u1 ++ u2).
Proof.
  intros s s1 s2 en1 en2 u1 u2 [Ha [Hb [e1 [Hc Hd]]]] [Ha' [Hb' [e2 [Hc' Hd']]]].
  split; [congruence|]. split; [exact Hb'|]. exists (e1 ++ e2).
  split; [rewrite Hc', Hc, app_assoc; reflexivity|]. rewrite map_app. congruence.
Qed.

Definition SimE (e : expr) : Prop :=
  forall o chunk s en en' us,
    stk s <> [] -> Rl (stk s) (dict s) en ->
    run_events en (events e (pos_of o chunk)) = (en', us, true) ->
    exists s', check_expr e o chunk s = Ok s' /\ Sim s s' en' us.

Lemma sub_pos_of : forall o chunk, sub (pos_of o chunk) = pos_of o false.
Proof. intros [| |] [|]; reflexivity. Qed.

Lemma is_own_pos_of : forall o chunk, is_own (pos_of o chunk) = is_owned o && negb chunk.
Proof. intros [| |] [|]; reflexivity. Qed.

(** ------------------------------------------------------------------ an identifier *)
Lemma sim_ident : forall l x m, SimE (EVar l x m).
Proof.
  intros l x m o chunk s en en' us Hne HR Hrun.
  cbn [events run_events step] in Hrun. cbn [check_expr]. unfold check_ident.
  rewrite check_if_dropped_rec, (cid_rec_lookup _ _ en x HR). cbn [bind].
  rewrite is_own_pos_of in Hrun.
  destruct (lookup x en) as [[ml|]|] eqn:Hl.
  - inversion Hrun; subst. eexists. split; [reflexivity|].
    split; [reflexivity|]. split; [exact HR|]. eexists. split; [reflexivity|]. reflexivity.
  - rewrite andb_assoc in Hrun. destruct (m && is_owned o && negb chunk) eqn:Hmv.
    + inversion Hrun; subst. unfold drop. rewrite (drop_from_rec _ 0); [|reflexivity]. cbn [skipn].
      destruct (drop_rec_sim _ _ _ x l HR Hl) as [d' [Hd' [HR' _]]]. rewrite Hd'. cbn [bind].
      eexists. split; [reflexivity|]. split; [reflexivity|]. split; [exact HR'|].
      exists []. rewrite app_nil_r. split; reflexivity.
    + inversion Hrun; subst. exists s. split; [reflexivity|]. apply Sim_refl. exact HR.
  - rewrite andb_assoc in Hrun. destruct (m && is_owned o && negb chunk) eqn:Hmv.
    + cbn in Hrun. inversion Hrun.
    + inversion Hrun; subst. exists s. split; [reflexivity|]. apply Sim_refl. exact HR.
Qed.

(** ------------------------------------------------------------------ the list walkers *)
Lemma sim_iter : forall l, Forall SimE l -> forall o s en en' us,
    stk s <> [] -> Rl (stk s) (dict s) en ->
    run_events en (ev_all events (pos_of o false) l) = (en', us, true) ->
    exists s', iter check_expr o l s = Ok s' /\ Sim s s' en' us.
Proof.
  induction 1 as [|a l Ha Hl IH]; intros o s en en' us Hne HR Hrun; cbn [ev_all iter] in *.
  - apply run_nil_inv in Hrun. destruct Hrun; subst. exists s. split; [reflexivity|]. apply Sim_refl. exact HR.
  - apply run_app_inv in Hrun. destruct Hrun as [en1 [u1 [u2 [H1 [H2 Hu]]]]]. subst us.
    destruct (Ha o false s en en1 u1 Hne HR H1) as [s1 [Hc1 S1]]. rewrite Hc1. cbn [bind].
    pose proof S1 as [Hs1 [HR1 _]].
    destruct (IH o s1 en1 en' u2) as [s2 [Hc2 S2]]; [congruence|exact HR1|exact H2|].
    exists s2. split; [exact Hc2|]. exact (Sim_trans _ _ _ _ _ _ _ S1 S2).
Qed.

Lemma sim_iter_chunks : forall l, Forall SimE l -> forall s en en' us,
    stk s <> [] -> Rl (stk s) (dict s) en ->
    run_events en (ev_all events PStmt l) = (en', us, true) ->
    exists s', iter_chunks check_expr l s = Ok s' /\ Sim s s' en' us.
Proof.
  induction 1 as [|a l Ha Hl IH]; intros s en en' us Hne HR Hrun; cbn [ev_all iter_chunks] in *.
  - apply run_nil_inv in Hrun. destruct Hrun; subst. exists s. split; [reflexivity|]. apply Sim_refl. exact HR.
  - apply run_app_inv in Hrun. destruct Hrun as [en1 [u1 [u2 [H1 [H2 Hu]]]]]. subst us.
    destruct (Ha Owned true s en en1 u1 Hne HR H1) as [s1 [Hc1 S1]]. rewrite Hc1. cbn [bind].
    pose proof S1 as [Hs1 [HR1 _]].
    destruct (IH s1 en1 en' u2) as [s2 [Hc2 S2]]; [congruence|exact HR1|exact H2|].
    exists s2. split; [exact Hc2|]. exact (Sim_trans _ _ _ _ _ _ _ S1 S2).
Qed.

Lemma sim_iter_block : forall l, Forall SimE l -> forall s en en' us,
    stk s <> [] -> Rl (stk s) (dict s) en ->
    run_events en (ev_block events l) = (en', us, true) ->
    exists s', iter_block check_expr l s = Ok s' /\ Sim s s' en' us.
Proof.
  induction 1 as [|a l Ha Hl IH]; intros s en en' us Hne HR Hrun.
  - cbn [ev_block iter_block] in *.
    apply run_nil_inv in Hrun. destruct Hrun; subst. exists s. split; [reflexivity|]. apply Sim_refl. exact HR.
  - destruct l as [|b l].
    + cbn [ev_block iter_block] in *. exact (Ha Owned false s en en' us Hne HR Hrun).
    + change (ev_block events (a :: b :: l)) with (events a PStmt ++ ev_block events (b :: l)) in Hrun.
      change (iter_block check_expr (a :: b :: l) s)
        with (bind (check_expr a Owned true s) (iter_block check_expr (b :: l))).
      apply run_app_inv in Hrun. destruct Hrun as [en1 [u1 [u2 [H1 [H2 Hu]]]]]. subst us.
      destruct (Ha Owned true s en en1 u1 Hne HR H1) as [s1 [Hc1 S1]]. rewrite Hc1. cbn [bind].
      pose proof S1 as [Hs1 [HR1 _]].
      destruct (IH s1 en1 en' u2) as [s2 [Hc2 S2]]; [congruence|exact HR1|exact H2|].
      exists s2. split; [exact Hc2|]. exact (Sim_trans _ _ _ _ _ _ _ S1 S2).
Qed.

(** the positions of the positional arguments, following the loop structure of the checker *)
Fixpoint pos_list (var nds ds : list own) (n : nat) : list pos :=
  match n with
  | O => []
  | S n' =>
    match nds with
    | o :: nds' => pos_of o false :: pos_list var nds' ds n'
    | [] =>
      match var with
      | o :: _ => pos_of o false :: pos_list var [] ds n'
      | [] =>
        match ds with
        | o :: ds' => pos_of o false :: pos_list var [] ds' n'
        | [] => PBorrow :: pos_list var [] [] n'
        end
      end
    end
  end.

Lemma sim_walk_pos : forall l, Forall SimE l -> forall var nds ds s en en' us,
    stk s <> [] -> Rl (stk s) (dict s) en ->
    (var <> [] \/ (length l <= length nds + length ds)%nat) ->
    run_events en (ev_zip events l (pos_list var nds ds (length l))) = (en', us, true) ->
    exists s', walk_pos check_expr var l nds ds s = Ok s' /\ Sim s s' en' us.
Proof.
  induction 1 as [|a l Ha Hl IH]; intros var nds ds s en en' us Hne HR Hfit Hrun.
  - cbn [ev_zip walk_pos] in *.
    apply run_nil_inv in Hrun. destruct Hrun; subst. exists s. split; [reflexivity|]. apply Sim_refl. exact HR.
  - cbn [length pos_list] in Hrun. cbn [walk_pos].
    assert (Step : forall o var' nds' ds',
               (var' <> [] \/ (length l <= length nds' + length ds')%nat) ->
               run_events en (events a (pos_of o false) ++ ev_zip events l (pos_list var' nds' ds' (length l))) = (en', us, true) ->
               exists s', bind (check_expr a o false s) (walk_pos check_expr var' l nds' ds') = Ok s' /\ Sim s s' en' us).
    { intros o var' nds' ds' Hfit' Hr.
      apply run_app_inv in Hr. destruct Hr as [en1 [u1 [u2 [H1 [H2 Hu]]]]]. subst us.
      destruct (Ha o false s en en1 u1 Hne HR H1) as [s1 [Hc1 S1]]. rewrite Hc1. cbn [bind].
      pose proof S1 as [Hs1 [HR1 _]].
      destruct (IH var' nds' ds' s1 en1 en' u2) as [s2 [Hc2 S2]]; [congruence|exact HR1|exact Hfit'|exact H2|].
      exists s2. split; [exact Hc2|]. exact (Sim_trans _ _ _ _ _ _ _ S1 S2). }
    destruct nds as [|o nds'].
    + destruct var as [|o var'].
      * destruct ds as [|o ds'].
        -- exfalso. destruct Hfit as [Hf|Hf]; [congruence|]. cbn [length] in Hf. lia.
        -- cbn [ev_zip] in Hrun. apply (Step o [] [] ds'); [|exact Hrun].
           right. destruct Hfit as [Hf|Hf]; [congruence|]. cbn [length] in *. lia.
      * cbn [ev_zip] in Hrun. apply (Step o (o :: var') [] ds); [|exact Hrun]. left. discriminate.
    + cbn [ev_zip] in Hrun. apply (Step o var nds' ds); [|exact Hrun].
      destruct Hfit as [Hf|Hf]; [left; exact Hf|right; cbn [length] in *; lia].
Qed.

Lemma sim_walk_kw : forall l, Forall SimE l -> forall ao ks ps s en en' us,
    stk s <> [] -> Rl (stk s) (dict s) en ->
    length ks = length l ->
    Forall2 (fun k p => exists o, kw_own ao k = Ok o /\ pos_of o false = p) ks ps ->
    run_events en (ev_zip events l ps) = (en', us, true) ->
    exists s', walk_kw check_expr ao l ks s = Ok s' /\ Sim s s' en' us.
Proof.
  induction 1 as [|a l Ha Hl IH]; intros ao ks ps s en en' us Hne HR Hlen HF Hrun.
  - cbn [ev_zip walk_kw] in *.
    apply run_nil_inv in Hrun. destruct Hrun; subst. exists s. split; [reflexivity|]. apply Sim_refl. exact HR.
  - destruct ks as [|k ks]; [discriminate|]. inversion HF as [|k' p ks' ps' [o [Hko Hpo]] HF']; subst.
    cbn [ev_zip] in Hrun. cbn [walk_kw]. rewrite Hko. cbn [bind].
    apply run_app_inv in Hrun. destruct Hrun as [en1 [u1 [u2 [H1 [H2 Hu]]]]]. subst us.
    destruct (Ha o false s en en1 u1 Hne HR H1) as [s1 [Hc1 S1]]. rewrite Hc1. cbn [bind].
    pose proof S1 as [Hs1 [HR1 _]].
    destruct (IH ao ks ps' s1 en1 en' u2) as [s2 [Hc2 S2]];
      [congruence|exact HR1|cbn [length] in Hlen; lia|exact HF'|exact H2|].
    exists s2. split; [exact Hc2|]. exact (Sim_trans _ _ _ _ _ _ _ S1 S2).
Qed.

(** ------------------------------------------------------------------ args_ownership vs the declared positions *)
Lemma pos_of_kind : forall p, pos_of (own_of_kind (p_kind p)) false = decl_pos p.
Proof. intros [n [| | |]]; reflexivity. Qed.

Definition named (p : param) : bool := match p_name p with Some _ => true | None => false end.

Lemma d_owns_ok : forall ps, forallb named ps = true ->
    exists r, d_owns ps = Ok r /\ map snd r = map (fun p => own_of_kind (p_kind p)) ps /\
              forall k, option_map snd (find (fun q => str_eqb (fst q) k) r) =
                        option_map (fun p => own_of_kind (p_kind p)) (find (has_name k) ps).
Proof.
  induction ps as [|p ps IH]; intro H; cbn [forallb] in H.
  - exists []. repeat split.
  - apply andb_true_iff in H. destruct H as [Hn H]. destruct (IH H) as [r [Hr [Hm Hf]]].
    unfold named in Hn. cbn [d_owns]. destruct (p_name p) as [n|] eqn:En; [|discriminate].
    rewrite Hr. cbn [bind]. eexists. split; [reflexivity|]. split.
    + cbn [map snd]. rewrite Hm. reflexivity.
    + intro k. cbn [find fst]. unfold has_name at 1. rewrite En.
      destruct (str_eqb n k); [reflexivity|]. apply Hf.
Qed.

Lemma find_nd : forall k nd,
    option_map snd (find (fun p : option str * own => match fst p with Some n => str_eqb n k | None => false end)
                         (map (fun p => (p_name p, own_of_kind (p_kind p))) nd)) =
    option_map (fun p => own_of_kind (p_kind p)) (find (has_name k) nd).
Proof.
  intros k nd. induction nd as [|p nd IH]; cbn [map find fst]; [reflexivity|].
  unfold has_name at 1. destruct (p_name p) as [n|]; [destruct (str_eqb n k)|]; try reflexivity; exact IH.
Qed.

Lemma positional_pos_list : forall n m nd var d,
    (n <= m)%nat ->
    firstn n (map decl_pos nd ++
              match var with
              | v :: _ => repeat (decl_pos v) m
              | [] => map decl_pos d ++ repeat PBorrow m
              end) =
    pos_list (map (fun p => own_of_kind (p_kind p)) var) (map (fun p => own_of_kind (p_kind p)) nd)
             (map (fun p => own_of_kind (p_kind p)) d) n.
Proof.
  induction n as [|n IH]; intros m nd var d Hle; [reflexivity|].
  destruct m as [|m]; [lia|]. cbn [pos_list].
  destruct nd as [|p nd]; cbn [map app].
  - destruct var as [|v var]; cbn [map].
    + destruct d as [|p d]; cbn [map app repeat firstn].
      * f_equal. specialize (IH m [] [] [] ltac:(lia)). cbn [map app] in IH. exact IH.
      * rewrite pos_of_kind. f_equal.
        specialize (IH (S m) [] [] d ltac:(lia)). cbn [map app] in IH. exact IH.
    + cbn [repeat firstn]. rewrite pos_of_kind. f_equal.
      specialize (IH m [] (v :: var) d ltac:(lia)). cbn [map app] in IH. exact IH.
  - cbn [firstn]. rewrite pos_of_kind. f_equal.
    specialize (IH (S m) nd var d ltac:(lia)). exact IH.
Qed.

(** ------------------------------------------------------------------ keyword arguments *)
Lemma find_none_existsb : forall {A} (f : A -> bool) l, find f l = None -> existsb f l = false.
Proof.
  intros A f l. induction l as [|a l IH]; cbn [find existsb]; [reflexivity|].
  destruct (f a); [discriminate|]. exact IH.
Qed.

Definition ao_of (g : subr_sig) (r : list (str * own)) : args_own :=
  MkAO (map (fun p => (p_name p, own_of_kind (p_kind p))) (sg_nd g))
       (map (fun p => own_of_var_kind (p_kind p)) (sg_var g))
       r
       (map (fun p => own_of_var_kind (p_kind p)) (sg_kwvar g)).

Lemma kw_own_keyword : forall g r k,
    (forall k, option_map snd (find (fun q : str * own => str_eqb (fst q) k) r) =
               option_map (fun p => own_of_kind (p_kind p)) (find (has_name k) (sg_d g))) ->
    existsb (has_name k) (sg_d g) || existsb (has_name k) (sg_nd g) ||
      match sg_kwvar g with [] => false | _ => true end = true ->
    exists o, kw_own (ao_of g r) k = Ok o /\ pos_of o false = keyword g k.
Proof.
  intros g r k Hf Hres. unfold kw_own, keyword, ao_of. cbn [ao_d ao_nd ao_kwvar].
  specialize (Hf k).
  destruct (find (fun q : str * own => str_eqb (fst q) k) r) as [[n o]|] eqn:Er.
  - destruct (find (has_name k) (sg_d g)) as [p|]; cbn [option_map snd] in Hf; [|discriminate].
    inversion Hf; subst. exists (own_of_kind (p_kind p)). split; [reflexivity|]. apply pos_of_kind.
  - destruct (find (has_name k) (sg_d g)) as [p|] eqn:Ed; cbn [option_map] in Hf; [discriminate|].
    pose proof (find_nd k (sg_nd g)) as Hn.
    destruct (find _ (map _ (sg_nd g))) as [[n o]|] eqn:En.
    + destruct (find (has_name k) (sg_nd g)) as [p|]; cbn [option_map snd] in Hn; [|discriminate].
      inversion Hn; subst. exists (own_of_kind (p_kind p)). split; [reflexivity|]. apply pos_of_kind.
    + destruct (find (has_name k) (sg_nd g)) as [p|] eqn:End; cbn [option_map] in Hn; [discriminate|].
      destruct (sg_kwvar g) as [|v vs]; cbn [map].
      * apply find_none_existsb in Ed. apply find_none_existsb in End. rewrite Ed, End in Hres. discriminate.
      * exists (own_of_kind (p_kind v)). split; [reflexivity|]. apply pos_of_kind.
Qed.

Lemma Forall_wf : forall l, Forall (fun a => wf a = true -> SimE a) l -> forallb wf l = true -> Forall SimE l.
Proof.
  induction 1 as [|a l Ha Hl IH]; intro H; cbn [forallb] in H; [constructor|].
  apply andb_true_iff in H. destruct H as [H1 H2]. constructor; [exact (Ha H1)|exact (IH H2)].
Qed.

Lemma is_nil_true : forall {A} (l : list A), is_nil l = true -> l = [].
Proof. intros A [|a l] H; [reflexivity|discriminate]. Qed.


Lemma bind_assoc : forall {A B C} (r : res A) (f : A -> res B) (g : B -> res C),
    bind (bind r f) g = bind r (fun a => bind (f a) g).
Proof. intros A B C [a|z] f g; reflexivity. Qed.

(** a scope: push the component, register the parameters, check the body block, pop *)
Lemma sim_check_block : forall l, Forall SimE l -> forall bound s en en' us,
    stk s <> [] -> Rl (stk s) (dict s) en ->
    run_events en (ev_body events bound l) = (en', us, true) ->
    exists s', check_block check_expr bound l s = Ok s' /\ Sim s s' en' us.
Proof.
  intros l Fl [|] s en en' us Hne HR Hrun; cbn [ev_body check_block] in *.
  - exact (sim_iter_block l Fl s en en' us Hne HR Hrun).
  - exact (sim_iter_chunks l Fl s en en' us Hne HR Hrun).
Qed.

Lemma sim_scope : forall body, Forall SimE body -> forall bound c names X s en en' us,
    Rl (stk s) (dict s) en ->
    run_events en ([EvEnter] ++ map EvBind names ++ ev_body events bound body ++ [EvExit] ++ X) = (en', us, true) ->
    exists s3 en3 u3 uX,
      bind (define_names names (push_scope c s)) (check_block check_expr bound body) = Ok s3 /\
      Sim s (pop_scope s3) en3 u3 /\ run_events en3 X = (en', uX, true) /\ us = u3 ++ uX.
Proof.
  intros body Fbody bound c names X s en en' us HR H2.
  cbn [app run_events step] in H2. rewrite run_app in H2. rewrite run_binds in H2.
  remember (push_scope c s) as s2 eqn:Es2.
  assert (HR2 : Rl (stk s2) (dict s2) ([] :: en)).
  { subst s2. unfold push_scope. cbn [stk dict]. apply Rl_push. exact HR. }
  destruct (define_names_sim names s2 [] en HR2) as [s3 [Hc3 [Hs3 [He3 HR3]]]]. rewrite Hc3. cbn [bind].
  rewrite app_nil_r in HR3. rewrite app_nil_r in H2.
  rewrite run_app in H2.
  destruct (run_events ((rev (map (fun x => (x, None)) names)) :: en) (ev_body events bound body)) as [[en4 u4] b4] eqn:Eb.
  assert (Hs3ne : stk s3 <> []). { rewrite Hs3. subst s2. discriminate. }
  cbn [run_events step] in H2.
  destruct (run_events (tl en4) X) as [[en5 u5] b5] eqn:EX.
  destruct b4; [|cbn in H2; inversion H2].
  destruct (sim_check_block body Fbody bound s3 _ en4 u4 Hs3ne HR3 Eb) as [s4 [Hc4 S4]].
  cbn [app andb] in H2. inversion H2; subst en' us b5. clear H2.
  exists s4, (tl en4), u4, u5. split; [exact Hc4|]. split; [|split; [exact EX|reflexivity]].
  destruct S4 as [Hs4 [HR4 [es4 [He4 Hm4]]]].
  assert (Hstk4 : stk s4 = c :: stk s). { rewrite Hs4, Hs3, Es2. reflexivity. }
  split; [unfold pop_scope; cbn [stk]; rewrite Hstk4; reflexivity|].
  split.
  - unfold pop_scope. cbn [stk dict]. rewrite Hstk4 in *. cbn [tl].
    destruct en4 as [|f4 en4]; cbn [Rl] in HR4; [contradiction|]. destruct HR4 as [_ HR4]. exact HR4.
  - exists es4. unfold pop_scope. cbn [errs]. split; [|exact Hm4].
    rewrite He4, He3, Es2. reflexivity.
Qed.

(** ------------------------------------------------------------------ the simulation *)
Theorem sim_expr : forall e, wf e = true -> SimE e.
Proof.
  induction e using expr_ind'; intro Hwf; cbn [wf] in Hwf.
  - (* ELit *)
    intros o chunk s en en' us Hne HR Hrun. cbn [events] in Hrun. apply run_nil_inv in Hrun. destruct Hrun; subst.
    exists s. split; [reflexivity|]. apply Sim_refl. exact HR.
  - apply sim_ident.
  - (* EAttr *)
    intros o chunk s en en' us Hne HR Hrun. cbn [events] in Hrun. rewrite sub_pos_of in Hrun. cbn [check_expr].
    exact (IHe Hwf o false s en en' us Hne HR Hrun).
  - (* ECall *)
    rename H into Hpos, H0 into Hstar, H1 into Hkws, H2 into Hkwstar.
    repeat (apply andb_true_iff in Hwf; let W := fresh "W" in destruct Hwf as [Hwf W]).
    (* W: sg ; W0: length ; W1: kwstar ; W2: kws ; W3: star ; W4: pos ; Hwf: callee *)
    apply Nat.eqb_eq in W0.
    pose proof (Forall_wf _ Hpos W4) as Fpos. pose proof (Forall_wf _ Hstar W3) as Fstar.
    pose proof (Forall_wf _ Hkws W2) as Fkws. pose proof (Forall_wf _ Hkwstar W1) as Fkwstar.
    intros o chunk s en en' us Hne HR Hrun. cbn [events] in Hrun. cbn [check_expr].
    apply run_app_inv in Hrun. destruct Hrun as [en1 [u1 [u2 [H1 [H2 Hu]]]]]. subst us.
    destruct (IHe Hwf Ref false s en en1 u1 Hne HR H1) as [s1 [Hc1 S1]]. rewrite Hc1. cbn [bind].
    pose proof S1 as [Hs1 [HR1 _]]. assert (Hne1 : stk s1 <> []) by congruence.
    destruct sg as [| |g]; [|discriminate|].
    + (* SigNone *)
      repeat (apply andb_true_iff in W; let V := fresh "V" in destruct W as [W V]).
      apply is_nil_true in W. apply is_nil_true in V. apply is_nil_true in V0. apply is_nil_true in V1. subst.
      cbn [ev_all app] in H2. apply run_nil_inv in H2. destruct H2; subst. rewrite app_nil_r.
      exists s1. split; [reflexivity|exact S1].
    + (* SigSubr *)
      unfold wf_sig in W.
      repeat (apply andb_true_iff in W; let V := fresh "V" in destruct W as [W V]).
      (* W: method->nd ; V1: named d ; V0: fit ; V: kw resolvable *)
      destruct (d_owns_ok (sg_d g) V1) as [r [Hr [Hmap Hfind]]].
      unfold args_ownership. rewrite Hr. cbn [bind]. fold (ao_of g r).
      apply run_app_inv in H2. destruct H2 as [en2 [u2a [u2' [Hp [H2 Hu]]]]]. subst u2.
      apply run_app_inv in H2. destruct H2 as [en3 [u2b [u2'' [Hst [H2 Hu]]]]]. subst u2'.
      apply run_app_inv in H2. destruct H2 as [en4 [u2c [u2d [Hk [Hks Hu]]]]]. subst u2''.
      (* positional arguments *)
      assert (Hposw : exists s2, walk_pos check_expr (ao_var (ao_of g r)) pos
                         (map snd (skipn (length (ao_nd (ao_of g r)) -
                              (if sg_method g then Nat.pred (length (ao_nd (ao_of g r))) else length (ao_nd (ao_of g r))))
                              (ao_nd (ao_of g r)))) (map snd (ao_d (ao_of g r))) s1 = Ok s2 /\ Sim s1 s2 en2 u2a).
      { unfold positional in Hp. rewrite positional_pos_list in Hp by lia.
        cbn [ao_of ao_var ao_nd ao_d]. rewrite Hmap.
        destruct (sg_method g) eqn:Hm.
        - destruct (sg_nd g) as [|p0 nd'] eqn:End; [discriminate|]. cbn [map length Nat.pred tl] in *.
          replace (S (length (map (fun p => (p_name p, own_of_kind (p_kind p))) nd')) -
                   length (map (fun p => (p_name p, own_of_kind (p_kind p))) nd'))%nat with 1%nat by lia.
          cbn [skipn]. rewrite map_map. cbn [snd].
          eapply (sim_walk_pos pos Fpos _ _ _ s1 en1 en2 u2a Hne1 HR1); [|exact Hp].
          destruct (sg_var g); [right|left; discriminate]. apply Nat.leb_le in V0. rewrite !map_length. exact V0.
        - rewrite Nat.sub_diag. cbn [skipn]. rewrite map_map. cbn [snd].
          eapply (sim_walk_pos pos Fpos _ _ _ s1 en1 en2 u2a Hne1 HR1); [|exact Hp].
          destruct (sg_var g); [right|left; discriminate]. apply Nat.leb_le in V0. rewrite !map_length. exact V0. }
      destruct Hposw as [s2 [Hc2 S2]].
      assert (Hndl : (if sg_method g
                      then match ao_nd (ao_of g r) with
                           | [] => Panic P_usize_sub
                           | _ :: _ => Ok (Nat.pred (length (ao_nd (ao_of g r))))
                           end
                      else Ok (length (ao_nd (ao_of g r)))) =
                     Ok (if sg_method g then Nat.pred (length (ao_nd (ao_of g r))) else length (ao_nd (ao_of g r)))).
      { destruct (sg_method g); [|reflexivity]. cbn [ao_of ao_nd].
        destruct (sg_nd g); [discriminate|reflexivity]. }
      rewrite Hndl. cbn [bind]. rewrite Hc2. cbn [bind].
      pose proof S2 as [Hs2 [HR2 _]]. assert (Hne2 : stk s2 <> []) by congruence.
      (* *args *)
      destruct (sim_iter star Fstar Ref s2 en2 en3 u2b Hne2 HR2 Hst) as [s3 [Hc3 S3]]. rewrite Hc3. cbn [bind].
      pose proof S3 as [Hs3 [HR3 _]]. assert (Hne3 : stk s3 <> []) by congruence.
      (* keyword arguments *)
      assert (HF2 : Forall2 (fun k p => exists o, kw_own (ao_of g r) k = Ok o /\ pos_of o false = p)
                            kwn (map (keyword g) kwn)).
      { clear - V Hfind. induction kwn as [|k kwn IH]; cbn [map forallb] in *; [constructor|].
        apply andb_true_iff in V. destruct V as [Vk V]. constructor; [|exact (IH V)].
        apply kw_own_keyword; assumption. }
      destruct (sim_walk_kw kws Fkws (ao_of g r) kwn _ s3 en3 en4 u2c Hne3 HR3 W0 HF2 Hk) as [s4 [Hc4 S4]].
      rewrite Hc4. cbn [bind].
      pose proof S4 as [Hs4 [HR4 _]]. assert (Hne4 : stk s4 <> []) by congruence.
      destruct (sim_iter kwstar Fkwstar Ref s4 en4 en' u2d Hne4 HR4 Hks) as [s5 [Hc5 S5]].
      exists s5. split; [exact Hc5|].
      exact (Sim_trans _ _ _ _ _ _ _ S1 (Sim_trans _ _ _ _ _ _ _ S2 (Sim_trans _ _ _ _ _ _ _ S3
               (Sim_trans _ _ _ _ _ _ _ S4 S5)))).
  - (* EBinOp *)
    apply andb_true_iff in Hwf. destruct Hwf as [W1 W2].
    intros o chunk s en en' us Hne HR Hrun. cbn [events] in Hrun. cbn [check_expr].
    apply run_app_inv in Hrun. destruct Hrun as [en1 [u1 [u2 [H1 [H2 Hu]]]]]. subst us.
    destruct (IHe1 W1 Ref false s en en1 u1 Hne HR H1) as [s1 [Hc1 S1]]. rewrite Hc1. cbn [bind].
    pose proof S1 as [Hs1 [HR1 _]].
    destruct (IHe2 W2 Ref false s1 en1 en' u2) as [s2 [Hc2 S2]]; [congruence|exact HR1|exact H2|].
    exists s2. split; [exact Hc2|]. exact (Sim_trans _ _ _ _ _ _ _ S1 S2).
  - (* EUnary *)
    intros o chunk s en en' us Hne HR Hrun. cbn [events] in Hrun. cbn [check_expr].
    exact (IHe Hwf Ref false s en en' us Hne HR Hrun).
  - (* EColl *)
    apply andb_true_iff in Hwf. destruct Hwf as [W1 W2]. pose proof (Forall_wf _ H W1) as Fes.
    intros o chunk s en en' us Hne HR Hrun. cbn [events] in Hrun. rewrite sub_pos_of in Hrun. cbn [check_expr].
    destruct k; exact (sim_iter es Fes o s en en' us Hne HR Hrun).
  - discriminate.
  - (* ELambda *)
    rename H into Hds, H0 into Hbody.
    apply andb_true_iff in Hwf. destruct Hwf as [W1 W2].
    pose proof (Forall_wf _ Hds W1) as Fds. pose proof (Forall_wf _ Hbody W2) as Fbody.
    intros o chunk s en en' us Hne HR Hrun. cbn [events] in Hrun. cbn [check_expr].
    apply run_app_inv in Hrun. destruct Hrun as [en1 [u1 [u2 [H1 [H2 Hu]]]]]. subst us.
    destruct (sim_iter ds Fds Ref s en en1 u1 Hne HR H1) as [s1 [Hc1 S1]]. rewrite Hc1. cbn [bind].
    pose proof S1 as [Hs1 [HR1 _]].
    destruct (sim_scope body Fbody false (false, n) names [] s1 en1 en' u2 HR1 H2)
      as [s3 [en3 [u3 [uX [Hc3 [S3 [HX Hu]]]]]]].
    rewrite <- bind_assoc. rewrite Hc3. cbn [bind].
    cbn [run_events] in HX. inversion HX; subst en3 uX. clear HX. subst u2. rewrite app_nil_r.
    eexists. split; [reflexivity|]. exact (Sim_trans _ _ _ _ _ _ _ S1 S3).
  - (* EDef *)
    rename H into Hds, H0 into Hbody.
    apply andb_true_iff in Hwf. destruct Hwf as [Hwf W3]. apply andb_true_iff in Hwf. destruct Hwf as [W1 W2].
    pose proof (Forall_wf _ Hds W1) as Fds. pose proof (Forall_wf _ Hbody W2) as Fbody.
    intros o chunk s en en' us Hne HR Hrun. cbn [events] in Hrun. cbn [check_expr].
    destruct en as [|f0 en0]; [apply Rl_length in HR; destruct (stk s); [contradiction|discriminate]|].
    destruct k; cbn [dkind_is_subr define negb].
    + (* DVar *)
      apply andb_true_iff in W3. destruct W3 as [N1 N2]. apply is_nil_true in N1. apply is_nil_true in N2. subst names ds.
      cbn [bind ev_all app] in *.
      destruct (sim_scope body Fbody true (pub, n) [] [EvBind n] s _ en' us HR Hrun)
        as [s3 [en3 [u3 [uX [Hc3 [S3 [HX Hu]]]]]]].
      cbn [define_names bind] in Hc3. rewrite Hc3. cbn [bind].
      pose proof S3 as [Hs3 [HR3 _]].
      destruct en3 as [|f3 en3]; [apply Rl_length in HR3; rewrite Hs3 in HR3; destruct (stk s); [contradiction|discriminate]|].
      destruct (define_name_sim (pop_scope s3) f3 en3 n HR3) as [s4 [Hc4 [Hs4 [He4 HR4]]]].
      cbn [run_events step app andb] in HX. inversion HX; subst en' uX. clear HX.
      exists s4. split; [exact Hc4|]. subst us. rewrite app_nil_r.
      destruct S3 as [_ [_ [es3 [He3 Hm3]]]].
      split; [congruence|]. split; [exact HR4|]. exists es3. split; [congruence|exact Hm3].
    + (* DSubr *)
      clear W3.
      apply run_app_inv in Hrun. destruct Hrun as [en1 [u1 [u2 [H1 [H2 Hu]]]]]. subst us.
      cbn [run_events step app andb] in H1. inversion H1; subst en1 u1. clear H1.
      destruct (define_name_sim s f0 en0 n HR) as [s1 [Hc1 [Hs1 [He1 HR1]]]]. rewrite Hc1. cbn [bind].
      apply run_app_inv in H2. destruct H2 as [en2 [u2a [u2b [H2a [H2b Hu]]]]]. subst u2.
      assert (Hne1 : stk s1 <> []) by congruence.
      destruct (sim_iter ds Fds Ref s1 _ en2 u2a Hne1 HR1 H2a) as [s2 [Hc2 S2]]. rewrite Hc2. cbn [bind].
      pose proof S2 as [Hs2 [HR2 _]].
      destruct (sim_scope body Fbody false (pub, n) names [] s2 _ en' u2b HR2 H2b)
        as [s3 [en3 [u3 [uX [Hc3 [S3 [HX Hu]]]]]]].
      rewrite <- bind_assoc. rewrite Hc3. cbn [bind].
      cbn [run_events] in HX. inversion HX; subst en3 uX. clear HX. subst u2b. rewrite app_nil_r. cbn [app].
      eexists. split; [reflexivity|].
      assert (S1 : Sim s s1 (((n, None) :: f0) :: en0) []).
      { split; [exact Hs1|]. split; [exact HR1|]. exists []. rewrite app_nil_r. split; [exact He1|reflexivity]. }
      exact (Sim_trans _ _ _ _ _ _ _ S1 (Sim_trans _ _ _ _ _ _ _ S2 S3)).
    + (* DGlob *)
      apply andb_true_iff in W3. destruct W3 as [N1 N2]. apply is_nil_true in N1. apply is_nil_true in N2. subst names ds.
      cbn [bind ev_all app] in *.
      destruct (sim_scope body Fbody true (pub, [42]) [] [] s _ en' us HR Hrun)
        as [s3 [en3 [u3 [uX [Hc3 [S3 [HX Hu]]]]]]].
      cbn [define_names bind] in Hc3.
      match goal with |- context [bind ?x _] => replace x with (Ok s3) by (symmetry; exact Hc3) end. cbn [bind].
      cbn [run_events] in HX. inversion HX; subst en3 uX. clear HX. subst us. rewrite app_nil_r.
      eexists. split; [reflexivity|exact S3].
  - (* EClassDef *)
    rename H into Hhs, H0 into Hms.
    apply andb_true_iff in Hwf. destruct Hwf as [W1 W2].
    pose proof (Forall_wf _ Hhs W1) as Fhs. pose proof (Forall_wf _ Hms W2) as Fms.
    intros o chunk s en en' us Hne HR Hrun. cbn [events] in Hrun. cbn [check_expr].
    apply run_app_inv in Hrun. destruct Hrun as [en1 [u1 [u2 [H1 [H2 Hu]]]]]. subst us.
    destruct (sim_iter hs Fhs Owned s en en1 u1 Hne HR H1) as [s1 [Hc1 S1]]. rewrite Hc1. cbn [bind].
    pose proof S1 as [Hs1 [HR1 _]].
    destruct (sim_iter_chunks ms Fms s1 en1 en' u2) as [s2 [Hc2 S2]]; [congruence|exact HR1|exact H2|].
    exists s2. split; [exact Hc2|]. exact (Sim_trans _ _ _ _ _ _ _ S1 S2).
  - (* ETypeAsc *)
    intros o chunk s en en' us Hne HR Hrun. cbn [events] in Hrun. cbn [check_expr].
    exact (IHe Hwf o chunk s en en' us Hne HR Hrun).
  - (* EOther *)
    apply is_nil_true in Hwf. subst subs.
    intros o chunk s en en' us Hne HR Hrun. cbn [events ev_all] in Hrun. apply run_nil_inv in Hrun. destruct Hrun; subst.
    exists s. split; [reflexivity|]. apply Sim_refl. exact HR.
Qed.
