(** C23 proofs, part 3: the checker against the Spec for whole modules, and the facts about moves. *)
From Coq Require Import ZArith List Bool Lia.
From ErgV Require Import Owner.Model Owner.Spec Owner.ProofsState Owner.ProofsSim.
Import ListNotations.
Open Scope Z_scope.

Lemma Forall_sim : forall l, forallb wf l = true -> Forall SimE l.
Proof.
  induction l as [|a l IH]; intro H; cbn [forallb] in H; [constructor|].
  apply andb_true_iff in H. destruct H as [H1 H2]. constructor; [exact (sim_expr a H1)|exact (IH H2)].
Qed.

(** on a well-formed, well-scoped module the checker does not panic and reports exactly the uses-after-move of the
    Spec, in source order *)
Theorem check_refines_spec : forall name chunks,
    wf_module chunks = true -> well_scoped chunks = true ->
    exists es, check name chunks = Ok es /\ map strip es = uams chunks.
Proof.
  intros name chunks Hwf Hws. unfold check, uams, well_scoped, events_module in *.
  cbn [run_events step] in *.
  match goal with |- context [run_events ?a ?b] => remember (run_events a b) as r eqn:Er in * end.
  destruct r as [[en' us] b]. symmetry in Er. cbn [fst snd app andb] in *. subst b.
  set (s0 := push_scope (false, name) init_st).
  assert (HR0 : Rl (stk s0) (dict s0) [[]]).
  { unfold s0, push_scope, init_st. cbn [stk dict]. apply (Rl_push [] [] [] (false, name)). exact I. }
  assert (Hne0 : stk s0 <> []) by (unfold s0, push_scope; cbn [stk]; discriminate).
  destruct (sim_iter_chunks chunks (Forall_sim chunks Hwf) s0 [[]] en' us Hne0 HR0 Er) as [s1 [Hc1 S1]].
  rewrite Hc1. cbn [bind]. exists (errs s1). split; [reflexivity|].
  destruct S1 as [_ [_ [es [He Hm]]]]. rewrite He. unfold s0, push_scope, init_st. cbn [errs app]. exact Hm.
Qed.

Lemma use_after_move_rejected_lemma : forall name chunks,
    wf_module chunks = true -> well_scoped chunks = true ->
    forall x l ml, In (x, l, ml) (uams chunks) ->
    exists es by_, check name chunks = Ok es /\ In (MkErr x l ml by_) es.
Proof.
  intros name chunks Hwf Hws x l ml Hin.
  destruct (check_refines_spec name chunks Hwf Hws) as [es [Hc Hm]].
  rewrite <- Hm in Hin. apply in_map_iff in Hin. destruct Hin as [[n l' ml' by_] [He Hi]].
  unfold strip in He. cbn [e_name e_loc e_moved] in He. inversion He; subst.
  exists es, by_. split; [exact Hc|exact Hi].
Qed.

Lemma no_move_no_error_lemma : forall name chunks,
    wf_module chunks = true -> well_scoped chunks = true ->
    uams chunks = [] -> check name chunks = Ok [].
Proof.
  intros name chunks Hwf Hws Hu.
  destruct (check_refines_spec name chunks Hwf Hws) as [es [Hc Hm]].
  rewrite Hu in Hm. destruct es; [exact Hc|discriminate].
Qed.

(** every reported error is a use-after-move of the Spec (no innocent occurrence is reported) *)
Lemma only_uams_reported_lemma : forall name chunks,
    wf_module chunks = true -> well_scoped chunks = true ->
    forall es e, check name chunks = Ok es -> In e es -> In (e_name e, e_loc e, e_moved e) (uams chunks).
Proof.
  intros name chunks Hwf Hws es e Hc Hin.
  destruct (check_refines_spec name chunks Hwf Hws) as [es' [Hc' Hm]].
  rewrite Hc in Hc'. inversion Hc'; subst es'. rewrite <- Hm. apply in_map_iff. exists e. split; [reflexivity|exact Hin].
Qed.

Lemma no_panic_lemma : forall name chunks,
    wf_module chunks = true -> well_scoped chunks = true -> forall z, check name chunks <> Panic z.
Proof.
  intros name chunks Hwf Hws z. destruct (check_refines_spec name chunks Hwf Hws) as [es [Hc _]]. congruence.
Qed.

(** ------------------------------------------------------------------ what does not move *)
(** the checker: an identifier that is not mutable-typed, or is looked at with Ref / RefMut, or is a bare chunk,
    leaves the scope dictionary as it is (whatever the state) *)
Lemma ident_not_moved_lemma : forall l x m o chunk s s',
    m = false \/ o <> Owned \/ chunk = true ->
    check_expr (EVar l x m) o chunk s = Ok s' ->
    dict s' = dict s /\ stk s' = stk s.
Proof.
  intros l x m o chunk s s' Hc H. cbn [check_expr] in H. unfold check_ident in H.
  destruct (check_if_dropped x s) as [[ml|]|z]; cbn [bind] in H; try discriminate.
  - inversion H; subst. split; reflexivity.
  - assert (Hf : m && is_owned o && negb chunk = false).
    { destruct Hc as [Hc|[Hc|Hc]]; subst.
      - reflexivity.
      - destruct o; try contradiction; destruct m; reflexivity.
      - destruct m, (is_owned o); reflexivity. }
    rewrite Hf in H. inversion H; subst. split; reflexivity.
Qed.

(** args_ownership: only a parameter whose declared type is a mutable type is Owned *)
Lemma own_of_kind_owned : forall k, is_owned (own_of_kind k) = true <-> k = KMut.
Proof. intros [| | |]; cbn; split; intro H; try discriminate; reflexivity. Qed.

Lemma args_ownership_kinds_lemma : forall g ao,
    args_ownership g = Ok ao ->
    map (fun q => is_owned (snd q)) (ao_nd ao) = map (fun p => match p_kind p with KMut => true | _ => false end) (sg_nd g) /\
    map (fun q => is_owned (snd q)) (ao_d ao) = map (fun p => match p_kind p with KMut => true | _ => false end) (sg_d g) /\
    map is_owned (ao_var ao) = map (fun p => match p_kind p with KMut => true | _ => false end) (sg_var g) /\
    map is_owned (ao_kwvar ao) = map (fun p => match p_kind p with KMut => true | _ => false end) (sg_kwvar g).
Proof.
  intros g ao H. unfold args_ownership in H.
  assert (Hd : forall ps r, d_owns ps = Ok r ->
               map (fun q : str * own => is_owned (snd q)) r =
               map (fun p => match p_kind p with KMut => true | _ => false end) ps).
  { induction ps as [|p ps IH]; intros r Hr; cbn [d_owns] in Hr.
    - inversion Hr. reflexivity.
    - destruct (p_name p); [|discriminate]. destruct (d_owns ps) as [r'|]; cbn [bind] in Hr; [|discriminate].
      inversion Hr; subst. cbn [map snd]. rewrite (IH r' eq_refl). destruct (p_kind p); reflexivity. }
  destruct (d_owns (sg_d g)) as [r|] eqn:Er; cbn [bind] in H; [|discriminate].
  inversion H; subst. cbn [ao_nd ao_d ao_var ao_kwvar]. rewrite !map_map. cbn [snd].
  split; [|split; [exact (Hd _ _ Er)|split]]; apply map_ext; intros [n [| | |]]; reflexivity.
Qed.

(** the Spec: an occurrence that is not a move leaves the environment as it is; positions of declared parameters *)
Lemma spec_non_move_keeps_env : forall en l x, fst (fst (step en (EvVar l x false))) = en.
Proof. intros en l x. cbn [step]. destruct (lookup x en) as [[ml|]|]; reflexivity. Qed.

Lemma decl_pos_own : forall p, decl_pos p = POwn <-> p_kind p = KMut.
Proof. intros [n [| | |]]; cbn; split; intro H; try discriminate; reflexivity. Qed.

Lemma var_event_moves : forall l x m p, events (EVar l x m) p = [EvVar l x true] <-> (m = true /\ p = POwn).
Proof.
  intros l x m p. cbn [events]. split.
  - intro H. injection H as H1. apply andb_true_iff in H1. destruct H1 as [H1 H2]. split; [exact H1|].
    destruct p; try discriminate; reflexivity.
  - intros [H1 H2]. subst. reflexivity.
Qed.

(** ------------------------------------------------------------------ the moved set of the Spec *)
(** a moved binding stays moved (and every further occurrence is a use-after-move) until its scope is left or the
    name is bound again: one step of the semantics *)
Lemma moved_occurrence_is_uam : forall en l x mv ml,
    lookup x en = Some (Some ml) -> step en (EvVar l x mv) = (en, [(x, l, ml)], true).
Proof. intros en l x mv ml H. cbn [step]. rewrite H. reflexivity. Qed.

Lemma lookup_mark_frame : forall x l f, lookup_frame x f <> None -> lookup_frame x (mark_frame x l f) = Some (Some l).
Proof.
  intros x l f. induction f as [|[y v] f IH]; cbn [lookup_frame mark_frame]; [congruence|].
  destruct (str_eqb x y) eqn:E; cbn [lookup_frame]; rewrite E; [reflexivity|exact IH].
Qed.

Lemma lookup_mark : forall x l en, lookup x en <> None -> lookup x (mark x l en) = Some (Some l).
Proof.
  intros x l en. induction en as [|f en IH]; cbn [lookup mark]; [congruence|].
  destruct (lookup_frame x f) as [v|] eqn:E; cbn [lookup].
  - intros _. rewrite lookup_mark_frame; [reflexivity|congruence].
  - rewrite E. exact IH.
Qed.

Lemma move_marks : forall en l x,
    lookup x en = Some None ->
    lookup x (fst (fst (step en (EvVar l x true)))) = Some (Some l).
Proof. intros en l x H. cbn [step]. rewrite H. cbn [fst]. apply lookup_mark. congruence. Qed.

Lemma other_occurrence_keeps : forall en l y mv x,
    str_eqb x y = false -> lookup x (fst (fst (step en (EvVar l y mv)))) = lookup x en.
Proof.
  intros en l y mv x Hxy. cbn [step]. destruct (lookup y en) as [[ml|]|]; cbn [fst]; try reflexivity.
  destruct mv; [|reflexivity].
  induction en as [|f en IH]; cbn [mark lookup]; [reflexivity|].
  destruct (lookup_frame y f) eqn:Ey; cbn [lookup].
  - assert (Hf : lookup_frame x (mark_frame y l f) = lookup_frame x f).
    { clear Ey. induction f as [|[z w] f IHf]; cbn [mark_frame lookup_frame]; [reflexivity|].
      destruct (str_eqb y z) eqn:Eyz; cbn [lookup_frame].
      - apply ProofsState.str_eqb_eq in Eyz. subst z. rewrite Hxy. reflexivity.
      - destruct (str_eqb x z); [reflexivity|exact IHf]. }
    rewrite Hf. reflexivity.
  - rewrite IH. reflexivity.
Qed.
