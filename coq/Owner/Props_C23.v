(** C23 — "A moved mutable value cannot be used again".

    Model: Owner/Model.v (crates/erg_compiler/ownercheck.rs and SubrType::args_ownership, arm by arm, after the
    repairs listed in /verif/known/C23.json). Spec: Owner/Spec.v (events in source order + moved-set semantics).
    Every theorem is for arbitrary modules: any sequence of chunks, any nesting of definitions, lambdas, blocks,
    calls and containers. Hypotheses:
      [wf_module]   the lowered tree has none of the shapes the earlier stages exclude (Spec.v, [wf]; evaluated by
                    the check on every dumped tree);
      [well_scoped] every variable that is moved is bound by an enclosing definition or parameter (the checker
                    panics with "variable not found" otherwise; that is part of C07, not of this property). *)
From Coq Require Import ZArith List Bool.
From ErgV Require Import Owner.Model Owner.Spec Owner.ProofsState Owner.ProofsSim Owner.Proofs.
Import ListNotations.
Open Scope Z_scope.

(** any use, at any depth, of a variable after a moving statement yields a MoveError at that use, naming the place
    of the move *)
Theorem use_after_move_rejected : forall name chunks,
    wf_module chunks = true -> well_scoped chunks = true ->
    forall x l ml, In (x, l, ml) (uams chunks) ->
    exists es by_, check name chunks = Ok es /\ In (MkErr x l ml by_) es.
Proof. exact use_after_move_rejected_lemma. Qed.

(** programs that never use a moved variable get no ownership error *)
Theorem no_move_no_error : forall name chunks,
    wf_module chunks = true -> well_scoped chunks = true ->
    uams chunks = [] -> check name chunks = Ok [].
Proof. exact no_move_no_error_lemma. Qed.

(** more precisely: every reported error is a use-after-move of the Spec; the checker and the Spec agree exactly *)
Theorem only_uses_after_move_reported : forall name chunks,
    wf_module chunks = true -> well_scoped chunks = true ->
    forall es e, check name chunks = Ok es -> In e es -> In (e_name e, e_loc e, e_moved e) (uams chunks).
Proof. exact only_uams_reported_lemma. Qed.

Theorem checker_agrees_with_spec : forall name chunks,
    wf_module chunks = true -> well_scoped chunks = true ->
    exists es, check name chunks = Ok es /\ map strip es = uams chunks.
Proof. exact check_refines_spec. Qed.

Theorem checker_does_not_panic : forall name chunks,
    wf_module chunks = true -> well_scoped chunks = true -> forall z, check name chunks <> Panic z.
Proof. exact no_panic_lemma. Qed.

(** passing a variable where a reference or an immutable type is expected does not move it:
    (1) in whatever state, the checker leaves its scope dictionary unchanged at an identifier that is not
        mutable-typed, or is judged with Ref / RefMut, or is a bare chunk;
    (2) args_ownership makes a parameter Owned exactly when its declared type is a mutable type (never for
        `Ref(..)`, `RefMut(..)` or an immutable type; non-default, default, `*` and `**` parameters alike);
    (3) in the Spec an argument position is owning exactly for such a parameter, only a mutable-typed variable
        in an owning position is a moving occurrence, and a non-moving occurrence leaves the moved set unchanged *)
Theorem ref_or_immutable_does_not_move :
    (forall l x m o chunk s s',
        m = false \/ o <> Owned \/ chunk = true ->
        check_expr (EVar l x m) o chunk s = Ok s' -> dict s' = dict s /\ stk s' = stk s) /\
    (forall g ao, args_ownership g = Ok ao ->
        map (fun q => is_owned (snd q)) (ao_nd ao) = map (fun p => match p_kind p with KMut => true | _ => false end) (sg_nd g) /\
        map (fun q => is_owned (snd q)) (ao_d ao) = map (fun p => match p_kind p with KMut => true | _ => false end) (sg_d g) /\
        map is_owned (ao_var ao) = map (fun p => match p_kind p with KMut => true | _ => false end) (sg_var g) /\
        map is_owned (ao_kwvar ao) = map (fun p => match p_kind p with KMut => true | _ => false end) (sg_kwvar g)) /\
    (forall p, decl_pos p = POwn <-> p_kind p = KMut) /\
    (forall l x m p, events (EVar l x m) p = [EvVar l x true] <-> (m = true /\ p = POwn)) /\
    (forall en l x, fst (fst (step en (EvVar l x false))) = en).
Proof.
  split; [exact ident_not_moved_lemma|]. split; [exact args_ownership_kinds_lemma|].
  split; [exact decl_pos_own|]. split; [exact var_event_moves|exact spec_non_move_keeps_env].
Qed.

(** the moved set of the Spec: a moving occurrence of an alive binding marks it moved; every occurrence of a moved
    binding is a use-after-move; occurrences of other names do not change its status *)
Theorem moved_stays_moved :
    (forall en l x, lookup x en = Some None -> lookup x (fst (fst (step en (EvVar l x true)))) = Some (Some l)) /\
    (forall en l x mv ml, lookup x en = Some (Some ml) -> step en (EvVar l x mv) = (en, [(x, l, ml)], true)) /\
    (forall en l y mv x, str_eqb x y = false -> lookup x (fst (fst (step en (EvVar l y mv)))) = lookup x en).
Proof. split; [exact move_marks|]. split; [exact moved_occurrence_is_uam|exact other_occurrence_keeps]. Qed.

(** ------------------------------------------------------------------ the hypotheses are needed *)
Definition v : str := [118].
Definition w : str := [119].
Definition x_ : str := [120].
Definition f_ : str := [102].
Definition c_ : str := [99].
Definition pr : str := [112; 114; 105; 110; 116; 33].
Definition md : str := [109].
Definition mut_list : expr := EUnary (EColl CList [ELit]).                        (* ![1] *)
Definition print_sig : call_sig := SigSubr (MkSig false [] [MkParam (Some [111]) KRef] [] []).
Definition print_ l e : expr := ECall (EVar l pr false) print_sig [e] [] [] [] [].

(** a node the checker skips (`_ => {}`: ReDef, Code, Compound, Dummy) with a use inside: the Spec sees the
    use-after-move, the checker does not — [wf_module] excludes such trees *)
Lemma skipped_nodes_refuted :
    exists chunks, wf_module chunks = false /\ well_scoped chunks = true /\
                   uams chunks <> [] /\ check md chunks = Ok [].
Proof.
  exists [EDef DVar false v [] [] [mut_list]; EDef DVar false w [] [] [EVar 21 v true]; EOther [print_ 30 (EVar 31 v true)]].
  vm_compute. repeat split; discriminate.
Qed.

(** moving a variable that nothing binds makes the checker panic — [well_scoped] excludes it *)
Lemma unbound_move_refuted :
    exists chunks, wf_module chunks = true /\ well_scoped chunks = false /\ check md chunks = Panic P_not_found.
Proof.
  exists [EDef DVar false w [] [] [EVar 21 v true]]. vm_compute. repeat split.
Qed.

(** ------------------------------------------------------------------ non-vacuity and regression examples
    (the programs with which the defects repaired for this property were found; see /verif/known/C23.json) *)
Definition prog_rebind := [EDef DVar false v [] [] [mut_list]; EDef DVar false w [] [] [EVar 21 v true]; print_ 30 (EVar 31 v true)].
Example ex_rebind : wf_module prog_rebind = true /\ well_scoped prog_rebind = true /\
                    uams prog_rebind = [(v, 31, 21)] /\
                    check md prog_rebind = Ok [MkErr v 31 21 [58; 58; 109]].
Proof. vm_compute. repeat split. Qed.

(** v.push! 1 after the move: the receiver is a use *)
Definition push_sig : call_sig := SigSubr (MkSig true [MkParam (Some [115]) KMut; MkParam (Some [101]) KImm] [] [] []).
Definition prog_receiver := [EDef DVar false v [] [] [mut_list]; EDef DVar false w [] [] [EVar 21 v true];
                             ECall (EVar 31 v true) push_sig [ELit] [] [] [] []].
Example ex_receiver : check md prog_receiver = Ok [MkErr v 31 21 [58; 58; 109]] /\ uams prog_receiver = [(v, 31, 21)].
Proof. vm_compute. split; reflexivity. Qed.

(** c.take! u, v  with take!(ref self, a: Ref(..), b: List!(..)): v is moved, u is not *)
Definition take_sig : call_sig :=
  SigSubr (MkSig true [MkParam (Some [115]) KRef; MkParam (Some [97]) KRef; MkParam (Some [98]) KMut] [] [] []).
Definition prog_method := [EDef DVar false v [] [] [mut_list]; EDef DVar false x_ [] [] [mut_list];
                           ECall (EVar 30 c_ false) take_sig [EVar 31 x_ true; EVar 32 v true] [] [] [] [];
                           print_ 40 (EVar 41 x_ true); print_ 50 (EVar 51 v true)].
Example ex_method_args : check md prog_method = Ok [MkErr v 51 32 [58; 58; 109]] /\ uams prog_method = [(v, 51, 32)].
Proof. vm_compute. split; reflexivity. Qed.

(** f!(x := v) for a non-default parameter x: List!(..) moves v *)
Definition f_sig : call_sig := SigSubr (MkSig false [MkParam (Some x_) KMut] [] [] []).
Definition prog_kw := [EDef DVar false v [] [] [mut_list];
                       ECall (EVar 30 f_ false) f_sig [] [] [x_] [EVar 31 v true] []; print_ 40 (EVar 41 v true)].
Example ex_keyword : check md prog_kw = Ok [MkErr v 41 31 [58; 58; 109]] /\ uams prog_kw = [(v, 41, 31)].
Proof. vm_compute. split; reflexivity. Qed.

(** a passes to Ref / RefMut / immutable / generic parameters: nothing moves *)
Definition g_sig k : call_sig := SigSubr (MkSig false [MkParam (Some x_) k] [] [] []).
Definition prog_borrow := [EDef DVar false v [] [] [mut_list];
                           ECall (EVar 30 f_ false) (g_sig KRef) [EVar 31 v true] [] [] [] [];
                           ECall (EVar 40 f_ false) (g_sig KRefMut) [EVar 41 v true] [] [] [] [];
                           ECall (EVar 50 f_ false) (g_sig KImm) [EVar 51 v true] [] [] [] [];
                           ECall (EVar 60 f_ false) (SigSubr (MkSig false [] [MkParam (Some x_) KImm] [] [])) [EVar 61 v true] [] [] [] [];
                           print_ 70 (EVar 71 v true)].
Example ex_borrow : wf_module prog_borrow = true /\ well_scoped prog_borrow = true /\
                    uams prog_borrow = [] /\ check md prog_borrow = Ok [].
Proof. vm_compute. repeat split. Qed.

(** known finding "generic-instantiated" (known/C23.json): the tree the checker sees carries the callee's type as
    instantiated at the call site. The same source program — gen! |T| x: T; for! .., x => (gen! x; c.mo! v, x) —
    with the declared kind of the generic parameter (not a mutable type: the Spec finds no use after a move) and with
    the kind the type checker left at that call site (T linked to List!(Int, _): the checker, faithfully to
    args_ownership, moves x and rejects its next use). The theorems above are about the tree as dumped; the class
    [Known_C23] guards the judge of the check, which works with the declared types. *)
Definition gen_ : str := [103].
Definition prog_generic (k : pkind) :=
  [ECall (EVar 10 f_ false) (g_sig KImm)
     [ELambda [60; 108; 62] [x_] []
        [ECall (EVar 20 gen_ false) (g_sig k) [EVar 21 x_ true] [] [] [] []; print_ 30 (EVar 31 x_ true)]] [] [] [] []].
Lemma generic_instantiation_refuted :
    Known_C23 [gen_] (prog_generic KImm) = true /\
    wf_module (prog_generic KImm) = true /\ well_scoped (prog_generic KImm) = true /\
    uams (prog_generic KImm) = [] /\
    check md (prog_generic KMut) = Ok [MkErr x_ 31 21 [58; 58; 109; 58; 58; 60; 108; 62]].
Proof. vm_compute. repeat split. Qed.

(** an inner variable shadows a moved outer one; a redefinition is a fresh variable *)
Definition prog_shadow := [EDef DVar false v [] [] [mut_list]; EDef DVar false w [] [] [EVar 21 v true];
                           EDef DSubr false f_ [] [] [EDef DVar false v [] [] [mut_list]; print_ 40 (EVar 41 v true)];
                           EDef DVar false v [] [] [mut_list]; print_ 60 (EVar 61 v true)].
Example ex_shadow : uams prog_shadow = [] /\ check md prog_shadow = Ok [].
Proof. vm_compute. split; reflexivity. Qed.

(** p!() = (v = [v]; print! v): the initialiser moves the outer v, the inner v is fresh *)
Definition prog_init := [EDef DVar false v [] [] [mut_list];
                         EDef DSubr false f_ [] [] [EDef DVar false v [] [] [EColl CList [EVar 31 v true]]; print_ 40 (EVar 41 v false)];
                         print_ 50 (EVar 51 v true)].
Example ex_initialiser : uams prog_init = [(v, 51, 31)] /\ check md prog_init = Ok [MkErr v 51 31 [58; 58; 109]].
Proof. vm_compute. split; reflexivity. Qed.

(** for! [..], x => (y = x): the lambda parameter is registered, no panic *)
Definition prog_lambda := [ECall (EVar 10 f_ false) (g_sig KImm)
                             [ELambda [60; 108; 62] [x_] [] [EDef DVar false w [] [] [EVar 21 x_ true]; print_ 30 (EVar 31 w true)]] [] [] [] []].
Example ex_lambda_param : wf_module prog_lambda = true /\ well_scoped prog_lambda = true /\ check md prog_lambda = Ok [].
Proof. vm_compute. repeat split. Qed.

(** while! do! v, do!: print! v   and   f() = v; print! v : what a lambda or subroutine body returns is not moved *)
Definition prog_returned := [EDef DVar false v [] [] [mut_list];
                             ECall (EVar 20 f_ false) (SigSubr (MkSig false [MkParam (Some x_) KImm; MkParam (Some w) KImm] [] [] []))
                                   [ELambda [60; 108; 62] [] [] [EVar 21 v true];
                                    ELambda [60; 109; 62] [] [] [print_ 30 (EVar 31 v true)]] [] [] [] [];
                             EDef DSubr false c_ [] [] [EVar 41 v true];
                             print_ 50 (EVar 51 v true)].
Example ex_returned_value : wf_module prog_returned = true /\ well_scoped prog_returned = true /\
                            uams prog_returned = [] /\ check md prog_returned = Ok [].
Proof. vm_compute. repeat split. Qed.

(** w = (x = 1; v): the value of the block that initialises a variable is moved *)
Definition prog_block := [EDef DVar false v [] [] [mut_list];
                          EDef DVar false w [] [] [EDef DVar false x_ [] [] [ELit]; EVar 22 v true]; print_ 30 (EVar 31 v true)].
Example ex_block_value : uams prog_block = [(v, 31, 22)] /\ check md prog_block = Ok [MkErr v 31 22 [58; 58; 109]].
Proof. vm_compute. split; reflexivity. Qed.

(** a use inside a nested function, lambda and container, after a move inside a block: every depth *)
Definition prog_deep := [EDef DVar false v [] [] [mut_list];
                         EDef DSubr false f_ [x_] [] [EDef DVar false w [] [] [EColl CDict [ELit; EColl CTuple [EVar 21 v true]]]; ELit];
                         EDef DSubr true c_ [] [EVar 30 v true]
                              [ELambda [60; 108; 62] [] [] [EBinOp (EAttr (EVar 41 v true)) ELit]]].
Example ex_deep : wf_module prog_deep = true /\ well_scoped prog_deep = true /\
                  uams prog_deep = [(v, 30, 21); (v, 41, 21)] /\
                  check md prog_deep = Ok [MkErr v 30 21 [58; 58; 109]; MkErr v 41 21 [58; 58; 109; 46; 99; 58; 58; 60; 108; 62]].
Proof. vm_compute. repeat split. Qed.
