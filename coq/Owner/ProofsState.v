(** C23 proofs, part 1: the path-keyed scope dictionary of the checker refines the frame stack of the Spec.
    [Rl p d en]: for every suffix of the path stack [p] the dictionary [d] has an entry under the key of that
    suffix, and that entry describes the corresponding frame of [en]. Keys of different suffixes differ (their
    lengths differ), so an insertion for one scope leaves the others alone. *)
From Coq Require Import ZArith List Bool Lia.
From ErgV Require Import Owner.Model Owner.Spec.
Import ListNotations.
Open Scope Z_scope.

(** ------------------------------------------------------------------ strings, sets, dictionaries *)
Lemma str_eqb_refl : forall a, str_eqb a a = true.
Proof. induction a as [|x a IH]; cbn [str_eqb]; [reflexivity|]. rewrite Z.eqb_refl, IH. reflexivity. Qed.

Lemma str_eqb_eq : forall a b, str_eqb a b = true <-> a = b.
Proof.
  induction a as [|x a IH]; intros [|y b]; cbn [str_eqb]; split; intro H; try reflexivity; try discriminate.
  - apply andb_true_iff in H. destruct H as [H1 H2]. apply Z.eqb_eq in H1. apply IH in H2. subst. reflexivity.
  - inversion H; subst. rewrite Z.eqb_refl, str_eqb_refl. reflexivity.
Qed.

Lemma str_eqb_neq : forall a b, str_eqb a b = false <-> a <> b.
Proof.
  intros a b. split; intro H.
  - intro E. apply str_eqb_eq in E. congruence.
  - destruct (str_eqb a b) eqn:E; [|reflexivity]. apply str_eqb_eq in E. contradiction.
Qed.

Lemma str_eqb_sym : forall a b, str_eqb a b = str_eqb b a.
Proof.
  intros a b. destruct (str_eqb a b) eqn:E.
  - apply str_eqb_eq in E. subst. symmetry. apply str_eqb_refl.
  - symmetry. apply str_eqb_neq. apply str_eqb_neq in E. congruence.
Qed.

Lemma set_mem_insert : forall x y s, set_mem x (set_insert y s) = str_eqb x y || set_mem x s.
Proof.
  intros x y s. unfold set_insert. destruct (set_mem y s) eqn:E; cbn [set_mem]; [|reflexivity].
  destruct (str_eqb x y) eqn:Exy; [|reflexivity]. apply str_eqb_eq in Exy. subst. cbn. exact E.
Qed.

Lemma set_mem_remove : forall x y s, set_mem x (set_remove y s) = negb (str_eqb x y) && set_mem x s.
Proof.
  intros x y s. induction s as [|z s IH]; cbn [set_remove set_mem].
  - rewrite andb_false_r. reflexivity.
  - destruct (str_eqb y z) eqn:Eyz.
    + apply str_eqb_eq in Eyz. subst z. rewrite IH. destruct (str_eqb x y); reflexivity.
    + cbn [set_mem]. rewrite IH. destruct (str_eqb x z) eqn:Exz; [|reflexivity].
      apply str_eqb_eq in Exz. subst z. rewrite (str_eqb_sym x y), Eyz. reflexivity.
Qed.

Section DictLemmas.
  Context {V : Type}.
  Lemma dict_get_remove : forall k k' (d : list (str * V)),
      dict_get k (dict_remove k' d) = if str_eqb k k' then None else dict_get k d.
  Proof.
    intros k k' d. induction d as [|[k2 v] d IH]; cbn [dict_remove dict_get].
    - destruct (str_eqb k k'); reflexivity.
    - destruct (str_eqb k' k2) eqn:E2.
      + apply str_eqb_eq in E2. subst k2. rewrite IH. destruct (str_eqb k k'); reflexivity.
      + cbn [dict_get]. rewrite IH. destruct (str_eqb k k2) eqn:E; [|reflexivity].
        apply str_eqb_eq in E. subst k2. rewrite (str_eqb_sym k k'), E2. reflexivity.
  Qed.

  Lemma dict_get_insert : forall k k' v (d : list (str * V)),
      dict_get k (dict_insert k' v d) = if str_eqb k k' then Some v else dict_get k d.
  Proof.
    intros k k' v d. unfold dict_insert. cbn [dict_get]. rewrite dict_get_remove.
    destruct (str_eqb k k'); reflexivity.
  Qed.
End DictLemmas.

(** ------------------------------------------------------------------ keys of nested scopes differ *)
Lemma path_of_longer : forall c p, (length (path_of p) < length (path_of (c :: p)))%nat.
Proof.
  intros [pub n] p. cbn [path_of]. rewrite !app_length. destruct pub; cbn [length]; lia.
Qed.

(** a key is "above" a path stack when it is longer than the key of the stack (hence of all its suffixes) *)
Lemma path_of_suffix_le : forall p k, (length (path_of (skipn k p)) <= length (path_of p))%nat.
Proof.
  induction p as [|c p IH]; intros [|k]; cbn [skipn]; try lia.
  specialize (IH k). pose proof (path_of_longer c p). lia.
Qed.

Lemma key_neq_by_length : forall a b : str, length a <> length b -> str_eqb a b = false.
Proof. intros a b H. apply str_eqb_neq. intro E. subst. contradiction. Qed.

(** ------------------------------------------------------------------ frames *)
Definition status (x : str) (v : lv) : option (option loc) :=
  if set_mem x (alive v) then Some None
  else match dict_get x (dropped v) with Some l => Some (Some l) | None => None end.

Definition frame_rel (v : lv) (f : frame) : Prop := forall x, lookup_frame x f = status x v.

Lemma frame_rel_default : frame_rel lv_default [].
Proof. intro x. reflexivity. Qed.

Lemma frame_rel_define : forall v f x,
    frame_rel v f -> frame_rel (MkLv (set_insert x (alive v)) (dict_remove x (dropped v))) ((x, None) :: f).
Proof.
  intros v f x H y. cbn [lookup_frame]. unfold status. cbn [alive dropped].
  rewrite set_mem_insert, dict_get_remove. destruct (str_eqb y x) eqn:E; cbn [orb]; [reflexivity|].
  rewrite H. reflexivity.
Qed.

Lemma frame_rel_mark : forall v f x l,
    frame_rel v f -> set_mem x (alive v) = true ->
    frame_rel (MkLv (set_remove x (alive v)) (dict_insert x l (dropped v))) (mark_frame x l f).
Proof.
  intros v f x l H Hal y. unfold status. cbn [alive dropped]. rewrite set_mem_remove, dict_get_insert.
  specialize (H y). unfold status in H.
  destruct (str_eqb y x) eqn:E; cbn [negb andb].
  - apply str_eqb_eq in E. subst y. rewrite Hal in H. clear Hal.
    induction f as [|[z w] f IH]; cbn [lookup_frame mark_frame] in *; [discriminate|].
    destruct (str_eqb x z) eqn:Ez; cbn [lookup_frame]; rewrite Ez; [reflexivity|]. apply IH. exact H.
  - rewrite <- H. clear H Hal.
    induction f as [|[z w] f IH]; cbn [lookup_frame mark_frame]; [reflexivity|].
    destruct (str_eqb x z) eqn:Ez; cbn [lookup_frame].
    + apply str_eqb_eq in Ez. subst z. rewrite E. reflexivity.
    + destruct (str_eqb y z); [reflexivity|]. exact IH.
Qed.

(** ------------------------------------------------------------------ the refinement relation *)
Fixpoint Rl (p : list comp) (d : list (str * lv)) (en : env) : Prop :=
  match p, en with
  | [], [] => True
  | c :: outer, f :: en' =>
    (exists v, dict_get (path_of p) d = Some v /\ frame_rel v f) /\ Rl outer d en'
  | _, _ => False
  end.

Lemma Rl_length : forall p d en, Rl p d en -> length p = length en.
Proof.
  induction p as [|c p IH]; intros d [|f en] H; cbn [Rl] in H; try contradiction; [reflexivity|].
  destruct H as [_ H]. cbn [length]. f_equal. eapply IH. exact H.
Qed.

(** two dictionaries that agree on all keys no longer than the key of [p] are the same for [p] *)
Lemma Rl_agree : forall p d d' en,
    (forall k, (length k <= length (path_of p))%nat -> dict_get k d' = dict_get k d) ->
    Rl p d en -> Rl p d' en.
Proof.
  induction p as [|c p IH]; intros d d' [|f en] Hag H; cbn [Rl] in *; try contradiction; [exact I|].
  destruct H as [[v [Hv Hf]] H]. split.
  - exists v. split; [|exact Hf]. rewrite Hag; [exact Hv|lia].
  - eapply IH; [|exact H]. intros k Hk. apply Hag. pose proof (path_of_longer c p). lia.
Qed.

Lemma Rl_push : forall p d en c,
    Rl p d en -> Rl (c :: p) (dict_insert (path_of (c :: p)) lv_default d) ([] :: en).
Proof.
  intros p d en c H. cbn [Rl]. split.
  - exists lv_default. split; [|exact frame_rel_default]. rewrite dict_get_insert, str_eqb_refl. reflexivity.
  - eapply Rl_agree; [|exact H]. intros k Hk. rewrite dict_get_insert.
    rewrite key_neq_by_length; [reflexivity|]. pose proof (path_of_longer c p). lia.
Qed.

(** ------------------------------------------------------------------ the loops over enclosing scopes *)
(** check_if_dropped as a recursion over the path stack *)
Fixpoint cid_rec (p : list comp) (d : list (str * lv)) (x : str) : res (option loc) :=
  match p with
  | [] => Ok None
  | c :: outer =>
    match dict_get (path_of p) d with
    | None => Panic P_scope_unwrap
    | Some v =>
      if set_mem x (alive v) then Ok None
      else match dict_get x (dropped v) with
           | Some ml => Ok (Some ml)
           | None => cid_rec outer d x
           end
    end
  end.

Lemma skipn_S_tl : forall {A} n (l : list A), skipn (S n) l = tl (skipn n l).
Proof.
  intros A n. induction n as [|n IH]; intros l.
  - destruct l; reflexivity.
  - destruct l as [|a l]; [reflexivity|]. change (skipn (S n) l = tl (skipn n l)). apply IH.
Qed.

Lemma cid_from_rec : forall fuel n x s,
    fuel = length (skipn n (stk s)) ->
    check_if_dropped_from fuel n x s = cid_rec (skipn n (stk s)) (dict s) x.
Proof.
  induction fuel as [|fuel IH]; intros n x s Hf.
  - destruct (skipn n (stk s)); [reflexivity|discriminate].
  - cbn [check_if_dropped_from]. unfold nth_outer_scope.
    destruct (skipn n (stk s)) as [|c outer] eqn:E; [discriminate|].
    cbn [cid_rec]. destruct (dict_get (path_of (c :: outer)) (dict s)) as [v|]; cbn [bind]; [|reflexivity].
    destruct (set_mem x (alive v)); [reflexivity|].
    destruct (dict_get x (dropped v)); [reflexivity|].
    rewrite IH.
    + rewrite skipn_S_tl, E. reflexivity.
    + rewrite skipn_S_tl, E. cbn [tl]. cbn [length] in Hf. lia.
Qed.

Lemma check_if_dropped_rec : forall x s, check_if_dropped x s = cid_rec (stk s) (dict s) x.
Proof. intros. unfold check_if_dropped. rewrite (cid_from_rec _ 0); reflexivity. Qed.

Lemma cid_rec_lookup : forall p d en x,
    Rl p d en ->
    cid_rec p d x = Ok (match lookup x en with Some (Some l) => Some l | _ => None end).
Proof.
  induction p as [|c p IH]; intros d [|f en] x H; cbn [Rl] in H; try contradiction; [reflexivity|].
  destruct H as [[v [Hv Hf]] H]. cbn [cid_rec lookup]. rewrite Hv. rewrite (Hf x). unfold status.
  destruct (set_mem x (alive v)); [reflexivity|].
  destruct (dict_get x (dropped v)); [reflexivity|]. apply IH. exact H.
Qed.

(** drop as a recursion over the path stack, returning the new dictionary *)
Fixpoint drop_rec (p : list comp) (d : list (str * lv)) (x : str) (l : loc) : res (list (str * lv)) :=
  match p with
  | [] => Panic P_not_found
  | c :: outer =>
    match dict_get (path_of p) d with
    | None => Panic P_scope_unwrap
    | Some v =>
      if set_mem x (alive v)
      then Ok (dict_insert (path_of p) (MkLv (set_remove x (alive v)) (dict_insert x l (dropped v))) d)
      else drop_rec outer d x l
    end
  end.

Lemma drop_from_rec : forall fuel n x l s,
    fuel = length (skipn n (stk s)) ->
    drop_from fuel n x l s =
    bind (drop_rec (skipn n (stk s)) (dict s) x l) (fun d' => Ok (MkSt (stk s) d' (errs s))).
Proof.
  induction fuel as [|fuel IH]; intros n x l s Hf.
  - destruct (skipn n (stk s)); [reflexivity|discriminate].
  - cbn [drop_from]. unfold nth_outer_scope.
    destruct (skipn n (stk s)) as [|c outer] eqn:E; [discriminate|].
    cbn [drop_rec]. destruct (dict_get (path_of (c :: outer)) (dict s)) as [v|]; cbn [bind]; [|reflexivity].
    destruct (set_mem x (alive v)).
    + unfold set_nth_outer_scope. rewrite E. reflexivity.
    + rewrite IH.
      * rewrite skipn_S_tl, E. reflexivity.
      * rewrite skipn_S_tl, E. cbn [tl]. cbn [length] in Hf. lia.
Qed.

Lemma drop_rec_sim : forall p d en x l,
    Rl p d en -> lookup x en = Some None ->
    exists d', drop_rec p d x l = Ok d' /\ Rl p d' (mark x l en) /\
               (forall k, (length (path_of p) < length k)%nat -> dict_get k d' = dict_get k d).
Proof.
  induction p as [|c p IH]; intros d [|f en] x l H Hl; cbn [Rl] in H; try contradiction; [discriminate|].
  destruct H as [[v [Hv Hf]] H]. cbn [drop_rec lookup mark] in *. rewrite Hv.
  pose proof (Hf x) as Hx. unfold status in Hx.
  destruct (set_mem x (alive v)) eqn:Hal.
  - rewrite Hx. eexists. split; [reflexivity|]. split.
    + cbn [Rl]. split.
      * eexists. split; [rewrite dict_get_insert, str_eqb_refl; reflexivity|].
        apply frame_rel_mark; assumption.
      * eapply Rl_agree; [|exact H]. intros k Hk. rewrite dict_get_insert.
        rewrite key_neq_by_length; [reflexivity|]. pose proof (path_of_longer c p). cbn [path_of] in *. lia.
    + intros k Hk. rewrite dict_get_insert. rewrite key_neq_by_length; [reflexivity|]. cbn [path_of] in *. lia.
  - destruct (dict_get x (dropped v)) eqn:Hd.
    + rewrite Hx in Hl. discriminate.
    + rewrite Hx in *. destruct (IH d en x l H Hl) as [d' [Hd' [HR Hag]]].
      exists d'. split; [exact Hd'|]. split.
      * cbn [Rl]. split; [|exact HR]. exists v. split; [|exact Hf].
        rewrite Hag; [exact Hv|]. apply (path_of_longer c p).
      * intros k Hk. apply Hag. pose proof (path_of_longer c p). cbn [path_of] in *. lia.
Qed.

(** define_name in the current scope *)
Lemma define_name_sim : forall s f en x,
    Rl (stk s) (dict s) (f :: en) ->
    exists s', define_name x s = Ok s' /\ stk s' = stk s /\ errs s' = errs s /\
               Rl (stk s') (dict s') (((x, None) :: f) :: en).
Proof.
  intros [p d es] f en x H. cbn [stk dict errs] in *.
  destruct p as [|c p]; cbn [Rl] in H; [contradiction|].
  destruct H as [[v [Hv Hf]] H].
  unfold define_name, nth_outer_scope, set_nth_outer_scope. cbn [stk dict errs skipn]. rewrite Hv. cbn [bind].
  eexists. split; [reflexivity|]. cbn [stk dict errs]. split; [reflexivity|]. split; [reflexivity|].
  cbn [Rl]. split.
  - eexists. split; [rewrite dict_get_insert, str_eqb_refl; reflexivity|]. apply frame_rel_define. exact Hf.
  - eapply Rl_agree; [|exact H]. intros k Hk. rewrite dict_get_insert.
    rewrite key_neq_by_length; [reflexivity|]. pose proof (path_of_longer c p). cbn [path_of] in *. lia.
Qed.

Lemma define_names_sim : forall xs s f en,
    Rl (stk s) (dict s) (f :: en) ->
    exists s', define_names xs s = Ok s' /\ stk s' = stk s /\ errs s' = errs s /\
               Rl (stk s') (dict s') ((rev (map (fun x => (x, None)) xs) ++ f) :: en).
Proof.
  induction xs as [|x xs IH]; intros s f en H; cbn [define_names map rev app].
  - exists s. repeat split; try reflexivity. exact H.
  - destruct (define_name_sim s f en x H) as [s1 [H1 [Hs1 [He1 HR1]]]]. rewrite H1. cbn [bind].
    destruct (IH s1 _ en HR1) as [s2 [H2 [Hs2 [He2 HR2]]]]. exists s2. split; [exact H2|].
    split; [congruence|]. split; [congruence|]. rewrite <- app_assoc. exact HR2.
Qed.
