(** C23 — the property as a reference semantics, independent of the checker's mechanism.

    A program (the mini-HIR of Model.v) is flattened, in source order, into a sequence of events
       enter a scope | leave it | bind a name | an occurrence of a variable (does this occurrence move it?)
    ([events]: which occurrences there are and which of them are moves is decided by the *position* of the
    occurrence), and the event sequence is run by a small-step "moved set" semantics over a stack of frames
    ([step], [run_events]): a frame lists the bindings of one scope, newest first, each alive or moved (with the place of
    the move). An occurrence of a name refers to its innermost, newest binding (lexical scoping, shadowing, and
    redefinition in the same scope are all just new bindings). An occurrence of a moved binding is a
    use-after-move ([uam]); a moving occurrence of an alive binding marks it moved.

    Positions. [PStmt]: a chunk (an expression statement). [POwn]: the value is kept by someone (bound to a
    variable — also as the value of the block that initialises it —, stored in a container that is itself kept,
    passed for a parameter whose declared type is a mutable type). [PBorrow]: the value is only looked at (operand, callee / receiver,
    argument for a `Ref`/`RefMut`/immutable-typed parameter, default value, unpacked container).
    Only an occurrence of a *mutable-typed* variable in a [POwn] position moves.

    The order of analysis is the textual order, each subroutine body once at its definition (as in the
    property text: "every later use"); there is no flow sensitivity.

    [judge] is the executable statement of the property for one program and the move errors a checker reported. *)
From Coq Require Import ZArith List Bool.
From ErgV Require Import Owner.Model.
Import ListNotations.
Open Scope Z_scope.

Inductive pos := PStmt | POwn | PBorrow.

(** a sub-expression of a statement is not a statement any more *)
Definition sub (p : pos) : pos := match p with PStmt => POwn | _ => p end.
Definition is_own (p : pos) : bool := match p with POwn => true | _ => false end.

Inductive event :=
| EvEnter
| EvExit
| EvBind (x : str)
| EvVar (l : loc) (x : str) (moves : bool).

(** the position a declared parameter gives to its argument:
    "passed for a parameter whose declared type is a mutable type" moves;
    "where a reference or an immutable type is expected" does not *)
Definition decl_pos (p : param) : pos := match p_kind p with KMut => POwn | _ => PBorrow end.

(** the parameters that take the positional arguments, in order: the non-default ones (without `self`), then
    either the variadic one for all the rest or the default ones; a surplus argument is only looked at *)
Definition positional (g : subr_sig) (n : nat) : list pos :=
  let nd := if sg_method g then tl (sg_nd g) else sg_nd g in
  firstn n (map decl_pos nd ++
            match sg_var g with
            | v :: _ => repeat (decl_pos v) n
            | [] => map decl_pos (sg_d g) ++ repeat PBorrow n
            end).

Definition has_name (k : str) (p : param) : bool :=
  match p_name p with Some n => str_eqb n k | None => false end.

(** the parameter a keyword argument is for: a default or non-default parameter of that name, else `**kwargs` *)
Definition keyword (g : subr_sig) (k : str) : pos :=
  match find (has_name k) (sg_d g) with
  | Some p => decl_pos p
  | None => match find (has_name k) (sg_nd g) with
            | Some p => decl_pos p
            | None => match sg_kwvar g with v :: _ => decl_pos v | [] => PBorrow end
            end
  end.

Section Ev.
  Variable ev : expr -> pos -> list event.
  Fixpoint ev_all (p : pos) (l : list expr) : list event :=
    match l with [] => [] | a :: t => ev a p ++ ev_all p t end.
  (** the i-th expression at the i-th position; [PBorrow] when the positions run out *)
  Fixpoint ev_zip (l : list expr) (ps : list pos) : list event :=
    match l with
    | [] => []
    | a :: t => match ps with
                | p :: ps' => ev a p ++ ev_zip t ps'
                | [] => ev a PBorrow ++ ev_zip t []
                end
    end.
  (** the block that initialises a variable: its last expression is the value bound to the variable, the others
      are statements *)
  Fixpoint ev_block (l : list expr) : list event :=
    match l with
    | [] => []
    | [a] => ev a POwn
    | a :: t => ev a PStmt ++ ev_block t
    end.
  (** the body of a subroutine or lambda: what it evaluates to is returned to the caller — not one of the moves the
      property lists (bound to another variable, placed in a container, passed for a mutable-typed parameter);
      `while! do! flg, do!: ...` does not move `flg` (tests/should_ok/mangling.er) *)
  Definition ev_body (bound : bool) (l : list expr) : list event :=
    if bound then ev_block l else ev_all PStmt l.
End Ev.

Fixpoint events (e : expr) (p : pos) {struct e} : list event :=
  match e with
  | ELit => []
  | EVar l x m => [EvVar l x (m && is_own p)]
  (* taking an attribute of an object consumes the object unless it is only borrowed
     (tests/should_err/move.er: "for safety reasons this is assumed to be an error") *)
  | EAttr obj => events obj (sub p)
  | ECall callee sg pos star kwn kws kwstar =>
    events callee PBorrow ++
    match sg with
    | SigSubr g =>
      ev_zip events pos (positional g (length pos)) ++ ev_all events PBorrow star ++
      ev_zip events kws (map (keyword g) kwn) ++ ev_all events PBorrow kwstar
    | _ =>
      ev_all events PBorrow pos ++ ev_all events PBorrow star ++ ev_all events PBorrow kws ++ ev_all events PBorrow kwstar
    end
  | EBinOp l r => events l PBorrow ++ events r PBorrow
  | EUnary a => events a PBorrow
  (* a container literal keeps its elements iff it is kept itself *)
  | EColl _ es => ev_all events (sub p) es
  | ECollTodo => []
  (* default values are evaluated where the subroutine is defined and are only looked at *)
  | ELambda _ names defaults body =>
    ev_all events PBorrow defaults ++ [EvEnter] ++ map EvBind names ++ ev_body events false body ++ [EvExit]
  (* a subroutine is visible in its own body, a variable only after its initialiser *)
  | EDef k _ name names defaults body =>
    (match k with DSubr => [EvBind name] | _ => [] end) ++
    ev_all events PBorrow defaults ++ [EvEnter] ++ map EvBind names ++
    ev_body events (match k with DSubr => false | _ => true end) body ++ [EvExit] ++
    (match k with DVar => [EvBind name] | _ => [] end)
  | EClassDef heads methods => ev_all events POwn heads ++ ev_all events PStmt methods
  | ETypeAsc a => events a p
  | EOther subs => ev_all events PStmt subs
  end.

Definition events_module (chunks : list expr) : list event := EvEnter :: ev_all events PStmt chunks.

(** ------------------------------------------------------------------ moved-set semantics *)
Definition frame := list (str * option loc).     (* newest binding first; Some l = moved at l *)
Definition env := list frame.                     (* innermost scope first *)

Fixpoint lookup_frame (x : str) (f : frame) : option (option loc) :=
  match f with
  | [] => None
  | (y, v) :: t => if str_eqb x y then Some v else lookup_frame x t
  end.

Fixpoint lookup (x : str) (en : env) : option (option loc) :=
  match en with
  | [] => None
  | f :: outer => match lookup_frame x f with Some v => Some v | None => lookup x outer end
  end.

Fixpoint mark_frame (x : str) (l : loc) (f : frame) : frame :=
  match f with
  | [] => []
  | (y, v) :: t => if str_eqb x y then (y, Some l) :: t else (y, v) :: mark_frame x l t
  end.

Fixpoint mark (x : str) (l : loc) (en : env) : env :=
  match en with
  | [] => []
  | f :: outer => match lookup_frame x f with
                  | Some _ => mark_frame x l f :: outer
                  | None => f :: mark x l outer
                  end
  end.

(** use-after-move: the name, the place of the use, the place of the move *)
Definition uam := (str * loc * loc)%type.

(** one step: new environment, the use-after-move found (if any), and whether the step was a move of a name
    that no enclosing scope binds (such a variable is outside what the semantics tracks) *)
Definition step (en : env) (e : event) : env * list uam * bool :=
  match e with
  | EvEnter => ([] :: en, [], true)
  | EvExit => (tl en, [], true)
  | EvBind x => (match en with f :: outer => ((x, None) :: f) :: outer | [] => [] end, [], true)
  | EvVar l x moves =>
    match lookup x en with
    | Some (Some ml) => (en, [(x, l, ml)], true)
    | Some None => (if moves then mark x l en else en, [], true)
    | None => (en, [], negb moves)
    end
  end.

Fixpoint run_events (en : env) (evs : list event) : env * list uam * bool :=
  match evs with
  | [] => (en, [], true)
  | e :: t =>
    let '(en1, u1, b1) := step en e in
    let '(en2, u2, b2) := run_events en1 t in
    (en2, u1 ++ u2, b1 && b2)
  end.

(** the uses-after-move of a module, in source order *)
Definition uams (chunks : list expr) : list uam := snd (fst (run_events [] (events_module chunks))).
(** every moved variable is bound by an enclosing definition or parameter *)
Definition well_scoped (chunks : list expr) : bool := snd (run_events [] (events_module chunks)).

(** ------------------------------------------------------------------ judge *)
(** reported: (name, place) of every move error the checker under test produced.
    0: the property holds on this program;
    1: a use after a move was accepted (an occurrence in [uams] that was not reported);
    2: a program / occurrence that is no use after a move was rejected with a move error *)
Definition same_occ (a b : str * loc) : bool := str_eqb (fst a) (fst b) && (snd a =? snd b).
Definition occ_in (a : str * loc) (l : list (str * loc)) : bool := existsb (same_occ a) l.

Definition judge (chunks : list expr) (reported : list (str * loc)) : Z :=
  let want := map (fun u : uam => (fst (fst u), snd (fst u))) (uams chunks) in
  if negb (forallb (fun w => occ_in w reported) want) then 1
  else if negb (forallb (fun r => occ_in r want) reported) then 2
  else 0.

(** ------------------------------------------------------------------ known finding (known/C23.json, "generic-instantiated")
    The checker reads the callee's type *at the call site*. For a subroutine declared with a generic parameter
    (`gen! |T| x: T`) that type may already be instantiated (`T` linked to `List!(Int, _)` by later uses of the
    argument), and then the argument is moved although the declared type `T` is not a mutable type; at other call
    sites of the same subroutine it is not. The class: programs that pass a mutable-typed variable directly to a
    subroutine declared generic ([gen]: the names of those subroutines, known to whoever wrote the program). *)
Section Known.
  Variable gen : list str.
  Definition is_gen_callee (e : expr) : bool :=
    match e with EVar _ x _ => existsb (str_eqb x) gen | _ => false end.
  Definition is_mut_var (e : expr) : bool :=
    match e with EVar _ _ m => m | _ => false end.
  Fixpoint known_in (e : expr) : bool :=
    match e with
    | ELit | EVar _ _ _ | ECollTodo => false
    | EAttr o => known_in o
    | ECall callee _ pos star _ kws kwstar =>
      (is_gen_callee callee && (existsb is_mut_var pos || existsb is_mut_var kws)) ||
      known_in callee || existsb known_in pos || existsb known_in star || existsb known_in kws || existsb known_in kwstar
    | EBinOp l r => known_in l || known_in r
    | EUnary a => known_in a
    | EColl _ es => existsb known_in es
    | ELambda _ _ ds body => existsb known_in ds || existsb known_in body
    | EDef _ _ _ _ ds body => existsb known_in ds || existsb known_in body
    | EClassDef hs ms => existsb known_in hs || existsb known_in ms
    | ETypeAsc a => known_in a
    | EOther subs => existsb known_in subs
    end.
End Known.
Definition Known_C23 (gen : list str) (chunks : list expr) : bool := existsb (known_in gen) chunks.

(** ------------------------------------------------------------------ what the theorems assume about a lowered tree
    (each clause is something the earlier compiler stages guarantee; the check evaluates [wf] on every dumped tree)
      * no node the checker cannot handle (`todo!()`): comprehension literals, a callee type outside
        Subr / Quantified / Refinement / linked FreeVar;
      * the nodes the checker skips (ReDef, Code, Compound, Dummy, Import) have no sub-expressions
        (lowering of Erg source does not produce them with content);
      * a call whose callee is not of a subroutine type has no arguments;
      * a method signature has its `self`, default parameters have names, keyword arguments name a parameter (or
        there is a `**` parameter), there are not more positional arguments than parameters (the type checker
        rejects the call otherwise);
      * every attribute body of a record literal is a single expression;
      * only subroutine definitions have parameters. *)
Definition wf_sig (g : subr_sig) (npos : nat) (kwn : list str) : bool :=
  (if sg_method g then match sg_nd g with [] => false | _ => true end else true) &&
  forallb (fun p => match p_name p with Some _ => true | None => false end) (sg_d g) &&
  (match sg_var g with
   | _ :: _ => true
   | [] => Nat.leb npos (length (if sg_method g then tl (sg_nd g) else sg_nd g) + length (sg_d g))
   end) &&
  forallb (fun k => existsb (has_name k) (sg_d g) || existsb (has_name k) (sg_nd g) ||
                    match sg_kwvar g with [] => false | _ => true end) kwn.

Definition is_nil {A} (l : list A) : bool := match l with [] => true | _ => false end.

Fixpoint wf (e : expr) : bool :=
  match e with
  | ELit => true
  | EVar _ _ _ => true
  | EAttr obj => wf obj
  | ECall callee sg pos star kwn kws kwstar =>
    wf callee && forallb wf pos && forallb wf star && forallb wf kws && forallb wf kwstar &&
    Nat.eqb (length kwn) (length kws) &&
    match sg with
    | SigNone => is_nil pos && is_nil star && is_nil kws && is_nil kwstar
    | SigTodo => false
    | SigSubr g => wf_sig g (length pos) kwn
    end
  | EBinOp l r => wf l && wf r
  | EUnary a => wf a
  | EColl k es => forallb wf es && match k with CRecord single => single | _ => true end
  | ECollTodo => false
  | ELambda _ _ defaults body => forallb wf defaults && forallb wf body
  | EDef k _ _ names defaults body =>
    forallb wf defaults && forallb wf body &&
    match k with DSubr => true | _ => is_nil names && is_nil defaults end
  | EClassDef heads methods => forallb wf heads && forallb wf methods
  | ETypeAsc a => wf a
  | EOther subs => is_nil subs
  end.

Definition wf_module (chunks : list expr) : bool := forallb wf chunks.
