(** C05 — definite static errors are always rejected: property theorems (statements only; proofs in ProofsInject.v).

    Model: the reference checker [typecheck] of Typing/Check.v over the fragment (expressions, definitions, functions
    and lambdas with defaults and local definitions, if!/for! blocks, builtin methods); [inject p pos m] (Typing/Inject.v)
    replaces the node at path [pos] by one of the five definite-error shapes [m], and is defined only when the new
    node is ill-typed in the environment the checker has at that position.  [strict] selects the operator table
    (false: the compiler's declared table gen/Sigs.v as it is; true: `**` restricted, see Props_C02) — the theorems
    hold for both.
    PARTIAL with respect to the real compiler: the theorems are about the reference checker; erg itself is tied
    program by program (checks/c05.py: every mutant produced by the extracted [inject] is given to `erg check` and
    `erg run`). *)
From Coq Require Import ZArith List Bool.
From ErgV Require Import CoreErg.Syntax CoreErg.Sem Typing.Types Typing.Check Typing.Eval Typing.Inject Typing.Spec
     Typing.ProofsBasic Typing.ProofsInject.
Import ListNotations.
Open Scope Z_scope.

(** 1. one injected definite error, at any position and nesting depth, makes the program ill-typed *)
Theorem mutation_ill_typed : forall strict p pos m p',
  typecheck strict p = true -> inject strict p pos m = Some p' -> typecheck strict p' = false.
Proof. intros strict p pos m p' _ H. unfold typecheck. rewrite (inject_ill strict p pos m p' H). reflexivity. Qed.

(* non-vacuity: an undefined name injected into the body of a lambda defined inside a for! block inside an if! block *)
Definition ex_prog : prog :=
  [TDef 1 None (XLit (LNat 3));
   TIf (XCmp CLt (XVar 1) (XLit (LNat 5)))
       [TFor 2 (XList [XLit (LNat 1); XLit (LNat 2)])
             [TFun 3 true [(4, T_Nat, None)] None [] (XBin OAdd (XVar 4) (XBin OMul (XVar 2) (XVar 1)));
              TPrint [XCall 3 [XVar 2]]]]
       []].
Example mutation_nonvacuous :
  typecheck false ex_prog = true /\
  exists p', inject false ex_prog [1; 1; 0; 1; 0; 2; 1; 1]%nat MUndef = Some p' /\ typecheck false p' = false.
Proof. split; [vm_compute; reflexivity|]. eexists. split; vm_compute; reflexivity. Qed.

(** 2. a rejected program is not executed *)
Theorem rejected_not_executed : forall strict fuel p, typecheck strict p = false -> run_prog strict fuel p = ([], Rejected).
Proof. intros strict fuel p H. unfold run_prog. rewrite H. reflexivity. Qed.

(** 3. each of the five shapes is a definite error under its syntactic side condition, in every environment *)
Theorem undefined_variable_ill_typed : forall strict FS G, infer strict FS G (XVar (fresh_id FS G)) = None.
Proof. exact undef_var_ill. Qed.
Theorem undefined_function_ill_typed : forall strict FS G args, infer strict FS G (XCall (fresh_id FS G) args) = None.
Proof. exact undef_call_ill. Qed.
Theorem none_operand_ill_typed : forall strict FS G op a,
  infer strict FS G (XBin op (XLit LNone) a) = None /\ infer strict FS G (XBin op a (XLit LNone)) = None.
Proof. exact none_operand_ill. Qed.
Theorem too_many_arguments_ill_typed : forall strict FS G f args ps ret,
  @lookup_t fsig f FS = Some (ps, ret) -> (length ps < length args)%nat -> infer strict FS G (XCall f args) = None.
Proof. exact arity_add_ill. Qed.
Theorem missing_argument_ill_typed : forall strict FS G f args ps ret p,
  @lookup_t fsig f FS = Some (ps, ret) -> nth_error ps (length args) = Some (p, false) ->
  infer strict FS G (XCall f args) = None.
Proof. exact arity_drop_ill. Qed.
Theorem argument_type_ill_typed : forall strict FS G f args ps ret ts k p d t,
  @lookup_t fsig f FS = Some (ps, ret) -> infers strict FS G args = Some ts ->
  nth_error ps k = Some (p, d) -> nth_error ts k = Some t -> sub t p = false ->
  infer strict FS G (XCall f args) = None.
Proof. exact arg_type_ill. Qed.
Theorem unknown_attribute_ill_typed : forall strict FS G m r args, meth_kind m = None -> infer strict FS G (XMeth m r args) = None.
Proof. exact attr_ill. Qed.
Theorem attribute_of_other_class_ill_typed : forall strict FS G m r args tr c k,
  infer strict FS G r = Some tr -> class_of tr = Some c -> int_like c = false ->
  meth_kind m = Some k -> (k = KSucc \/ k = KPred \/ k = KBitCount \/ k = KAbs \/ k = KAbsF) ->
  infer strict FS G (XMeth m r args) = None.
Proof. exact attr_class_ill. Qed.
Example attribute_nonvacuous : infer false [] [] (XMeth M_succ (XLit (LStr [97])) []) = None.
Proof. reflexivity. Qed.
