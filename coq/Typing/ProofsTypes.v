(** * Typing.ProofsTypes — the denotation respects value equality, subtyping, widening and joins. *)
From Coq Require Import ZArith List Bool Lia.
From ErgV Require Import CoreErg.Syntax CoreErg.Sem Typing.Types.
Import ListNotations.
Open Scope Z_scope.

(** ** induction on values (lists nested) *)
Section ValueInd.
  Variable P : value -> Prop.
  Hypothesis HInt : forall z, P (VInt z).
  Hypothesis HBool : forall b, P (VBool b).
  Hypothesis HFloat : forall b, P (VFloat b).
  Hypothesis HStr : forall s, P (VStr s).
  Hypothesis HNone : P VNone.
  Hypothesis HList : forall vs, Forall P vs -> P (VList vs).
  Hypothesis HTuple : forall vs, P (VTuple vs).
  Hypothesis HClos : forall a b c d, P (VClos a b c d).

  Fixpoint value_ind' (v : value) : P v :=
    match v with
    | VInt z => HInt z
    | VBool b => HBool b
    | VFloat b => HFloat b
    | VStr s => HStr s
    | VNone => HNone
    | VList vs =>
      HList vs ((fix go (l : list value) : Forall P l :=
                   match l with [] => Forall_nil _ | x :: r => Forall_cons _ (value_ind' x) (go r) end) vs)
    | VTuple vs => HTuple vs
    | VClos a b c d => HClos a b c d
    end.
End ValueInd.

Lemma zs_eqb_eq : forall a b, zs_eqb a b = true -> a = b.
Proof.
  induction a as [|x r IH]; destruct b as [|y s]; cbn [zs_eqb]; intros H; try discriminate; auto.
  apply andb_true_iff in H. destruct H as [H1 H2]. apply Z.eqb_eq in H1. subst. f_equal. auto.
Qed.

Lemma zs_eqb_refl : forall a, zs_eqb a a = true.
Proof. induction a as [|x r IH]; cbn [zs_eqb]; auto. rewrite Z.eqb_refl, IH. reflexivity. Qed.

Lemma veqb_list : forall xs ys, veqb (VList xs) (VList ys) = veqbs xs ys.
Proof.
  induction xs as [|x r IH]; destruct ys as [|y s]; reflexivity.
Qed.

Lemma veqb_eq : forall a b, veqb a b = true -> a = b.
Proof.
  induction a using value_ind'; intros b0 Hb; destruct b0; try (cbn in Hb; discriminate).
  - cbn in Hb. apply Z.eqb_eq in Hb. subst. reflexivity.
  - cbn in Hb. apply eqb_prop in Hb. subst. reflexivity.
  - cbn in Hb. apply Z.eqb_eq in Hb. subst. reflexivity.
  - cbn in Hb. apply zs_eqb_eq in Hb. subst. reflexivity.
  - reflexivity.
  - rewrite veqb_list in Hb. f_equal. revert vs0 Hb.
    induction H as [|x r Hx Hr IH]; intros ys Hb; destruct ys as [|y s]; cbn [veqbs] in Hb; try discriminate; auto.
    apply andb_true_iff in Hb. destruct Hb as [H1 H2]. f_equal; auto.
Qed.

(* reflexivity for the values a literal denotes and, more generally, closure- and tuple-free values *)
Fixpoint plain (v : value) : bool :=
  match v with
  | VList vs => forallb plain vs
  | VTuple _ | VClos _ _ _ _ => false
  | _ => true
  end.

Lemma veqb_refl : forall v, plain v = true -> veqb v v = true.
Proof.
  induction v using value_ind'; intros Hp; try (cbn in Hp; discriminate); cbn.
  - apply Z.eqb_refl.
  - apply eqb_reflx.
  - apply Z.eqb_refl.
  - apply zs_eqb_refl.
  - reflexivity.
  - change (veqb (VList vs) (VList vs) = true). rewrite veqb_list.
    cbn [plain] in Hp. induction H as [|x r Hx Hr IH]; cbn [veqbs]; auto.
    cbn [forallb] in Hp. apply andb_true_iff in Hp. destruct Hp as [H1 H2]. rewrite Hx, IH; auto.
Qed.

Lemma lit_plain : forall l, plain (lit_value l) = true.
Proof. destruct l; reflexivity. Qed.

Lemma has_ty_lit : forall l, has_ty (lit_value l) (T_Enum [lit_value l]) = true.
Proof. intros l. cbn [has_ty existsb]. rewrite veqb_refl by apply lit_plain. reflexivity. Qed.

(** ** the enum denotation *)
Lemma has_enum_in : forall v vs, has_ty v (T_Enum vs) = true -> In v vs.
Proof.
  intros v vs H. cbn [has_ty] in H. apply existsb_exists in H. destruct H as [x [Hin He]].
  apply veqb_eq in He. subst. exact Hin.
Qed.

(** ** subtyping is sound *)
Lemma base_sub_sound : forall a b v, base_sub a b = true -> has_ty v a = true -> has_ty v b = true.
Proof.
  intros a b v Hs Hv.
  destruct a; cbn in Hs; try discriminate; destruct b; cbn in Hs; try discriminate; auto;
    destruct v; cbn in Hv |- *; try discriminate; auto.
Qed.

Lemma len_sub_sound : forall {A} n m (l : list A), len_sub n m = true -> len_ok n l = true -> len_ok m l = true.
Proof.
  intros A n m l Hs Hl. destruct m as [k|]; cbn in *; auto.
  destruct n as [j|]; try discriminate. cbn in Hl. apply Z.eqb_eq in Hs. subst. exact Hl.
Qed.

Lemma sub_sound : forall a b v, sub a b = true -> has_ty v a = true -> has_ty v b = true.
Proof.
  induction a as [| | | | | |vs|lo hi|ta IH n]; intros b v Hs Hv;
    try (apply (base_sub_sound _ _ _ Hs Hv)).
  - (* enum *)
    cbn [sub] in Hs. apply has_enum_in in Hv. rewrite forallb_forall in Hs. auto.
  - (* interval *)
    cbn [sub] in Hs. cbn [has_ty] in Hv. destruct v; try discriminate.
    apply andb_true_iff in Hv. destruct Hv as [H1 H2]. apply Z.leb_le in H1. apply Z.leb_le in H2.
    destruct b; try discriminate; cbn [has_ty]; auto.
    + apply Z.leb_le in Hs. apply Z.leb_le. lia.
    + apply andb_true_iff in Hs. destruct Hs as [H3 H4]. apply Z.leb_le in H3. apply Z.leb_le in H4.
      apply andb_true_iff. split; apply Z.leb_le; lia.
  - (* list *)
    cbn [sub] in Hs. destruct b; try discriminate.
    apply andb_true_iff in Hs. destruct Hs as [H1 H2].
    cbn [has_ty] in Hv |- *. destruct v; try discriminate.
    apply andb_true_iff in Hv. destruct Hv as [H3 H4].
    apply andb_true_iff. split.
    + rewrite forallb_forall in H3 |- *. intros x Hx. apply IH; auto.
    + eapply len_sub_sound; eauto.
Qed.

Lemma sub_refl_base : forall t, base_sub t t = true \/ (match t with T_Enum _ | T_Ival _ _ | T_List _ _ => True | _ => False end).
Proof. destruct t; cbn; auto. Qed.

(** ** classes *)
Definition has_cls (v : value) (c : cls) : bool :=
  match c with
  | CNat => has_ty v T_Nat | CInt => has_ty v T_Int | CBool => has_ty v T_Bool | CFloat => has_ty v T_Float
  | CStr => has_ty v T_Str | CNone => has_ty v T_None
  | CList => match v with VList _ => true | _ => false end
  end.

Lemma cls_ty_has : forall c t v, cls_ty c = Some t -> has_ty v t = has_cls v c.
Proof. destruct c; cbn; intros t v H; inversion H; reflexivity. Qed.

Lemma vclass_has : forall v c, vclass v = Some c -> has_cls v c = true.
Proof.
  destruct v; cbn; intros c H; inversion H; subst; cbn; auto.
  destruct (0 <=? z) eqn:E; cbn; auto.
Qed.

Lemma cjoin_mono_l : forall a b c v, cjoin a b = Some c -> has_cls v a = true -> has_cls v c = true.
Proof.
  intros a b c v H Hv. unfold cjoin in H.
  destruct (cls_eqb a b) eqn:E.
  - inversion H; subst; auto.
  - destruct a, b; cbn in H; try discriminate; inversion H; subst; cbn in *; auto; destruct v; cbn in *; auto; discriminate.
Qed.

Lemma cjoin_mono_r : forall a b c v, cjoin a b = Some c -> has_cls v b = true -> has_cls v c = true.
Proof.
  intros a b c v H Hv. unfold cjoin in H.
  destruct (cls_eqb a b) eqn:E.
  - inversion H; subst. destruct c, b; cbn in E; try discriminate; auto.
  - destruct a, b; cbn in H; try discriminate; inversion H; subst; cbn in *; auto; destruct v; cbn in *; auto; discriminate.
Qed.

Lemma enum_class_sound : forall vs c v, enum_class vs = Some c -> In v vs -> has_cls v c = true.
Proof.
  induction vs as [|x r IH]; intros c v H Hin; [destruct Hin|].
  destruct r as [|y r'].
  - cbn in H. destruct Hin as [->|[]]. apply vclass_has; auto.
  - change (enum_class (x :: y :: r')) with
        (match vclass x, enum_class (y :: r') with Some a, Some b => cjoin a b | _, _ => None end) in H.
    destruct (vclass x) as [a|] eqn:Ex; try discriminate.
    destruct (enum_class (y :: r')) as [b|] eqn:Er; try discriminate.
    destruct Hin as [->|Hin].
    + eapply cjoin_mono_l; eauto. apply vclass_has; auto.
    + eapply cjoin_mono_r; eauto.
Qed.

Lemma class_sound : forall t c v, class_of t = Some c -> has_ty v t = true -> has_cls v c = true.
Proof.
  destruct t; cbn [class_of]; intros c v H Hv; try (inversion H; subst; exact Hv).
  - eapply enum_class_sound; eauto. apply has_enum_in; auto.
  - inversion H; subst. cbn [has_ty] in Hv. destruct v; try discriminate.
    apply andb_true_iff in Hv. destruct Hv as [H1 H2]. apply Z.leb_le in H1.
    destruct (0 <=? lo) eqn:E; cbn; auto. apply Z.leb_le in E. apply Z.leb_le. lia.
  - inversion H; subst. cbn [has_ty] in Hv. destruct v; try discriminate. reflexivity.
Qed.

(** ** joins *)
Lemma join_sound_l : forall a b t v, join_ty a b = Some t -> has_ty v a = true -> has_ty v t = true.
Proof.
  intros a b t v H Hv. unfold join_ty in H.
  destruct (sub a b) eqn:E1; [inversion H; subst; eapply sub_sound; eauto|].
  destruct (sub b a) eqn:E2; [inversion H; subst; auto|].
  assert (Hc : match class_of a, class_of b with
               | Some ca, Some cb => match cjoin ca cb with Some c => cls_ty c | None => None end
               | _, _ => None end = Some t -> has_ty v t = true).
  { intros Hj. destruct (class_of a) as [ca|] eqn:Ea; try discriminate.
    destruct (class_of b) as [cb|] eqn:Eb; try discriminate.
    destruct (cjoin ca cb) as [c|] eqn:Ej; try discriminate.
    rewrite (cls_ty_has _ _ v Hj). eapply cjoin_mono_l; eauto. eapply class_sound; eauto. }
  destruct a; auto. destruct b; auto.
  inversion H; subst. cbn [has_ty] in *. rewrite existsb_app, Hv. reflexivity.
Qed.

Lemma join_sound_r : forall a b t v, join_ty a b = Some t -> has_ty v b = true -> has_ty v t = true.
Proof.
  intros a b t v H Hv. unfold join_ty in H.
  destruct (sub a b) eqn:E1; [inversion H; subst; auto|].
  destruct (sub b a) eqn:E2; [inversion H; subst; eapply sub_sound; eauto|].
  assert (Hc : match class_of a, class_of b with
               | Some ca, Some cb => match cjoin ca cb with Some c => cls_ty c | None => None end
               | _, _ => None end = Some t -> has_ty v t = true).
  { intros Hj. destruct (class_of a) as [ca|] eqn:Ea; try discriminate.
    destruct (class_of b) as [cb|] eqn:Eb; try discriminate.
    destruct (cjoin ca cb) as [c|] eqn:Ej; try discriminate.
    rewrite (cls_ty_has _ _ v Hj). eapply cjoin_mono_r; eauto. eapply class_sound; eauto. }
  destruct a; auto. destruct b; auto.
  inversion H; subst. cbn [has_ty] in *. rewrite existsb_app, Hv. apply orb_true_r.
Qed.
