(** * Typing.Check — syntax of the checked fragment and the reference type checker.

    The fragment: literals, variables, unary/binary operators, comparisons, and/or, list literals, literal index,
    if-expressions, calls of user functions (positional arguments, trailing defaults), calls of builtin methods /
    builtin functions (succ pred bit_count abs push sum len);  statements: definitions with optional annotation,
    print!, assert, named functions and lambdas with annotated parameters (local definitions + result expression),
    if! and for! blocks.

    The checker reflects erg's rules for this fragment (probed on the pinned tree, see checks/c05.py):
      - a literal has its singleton type {v}; a variable has the type of its definition (an annotation is only
        checked: `v: Int = 3` keeps {3});
      - an operator is resolved on the *classes* of its operands (enum and interval types are widened to their
        class); the result class comes from the table dumped from the live compiler, gen/Sigs.v
        (Nat - Nat : Int, / : Float, Int ** Int : Nat ...).  With [strict = true] the rows of `**` are restricted to
        non-negative operands (class Nat or Bool): the other rows are the known finding K_pow (Known_C02);
      - a list literal has type List(join of the element types, length); push: length + 1; `+`: sum of the lengths;
        an index must be a Nat literal and, when the length is known, below it;
      - an argument must be a subtype of the annotated parameter; a missing argument needs a default; no extra ones;
      - names: variables and functions live in two environments; an unbound name has no type.
    [infer] evaluates *every* sub-expression before combining (so an error anywhere makes the whole ill-typed:
    ProofsInject.v).  No proofs here. *)
From Coq Require Import ZArith List Bool.
From ErgV Require Import gen.Sigs CoreErg.Syntax CoreErg.Sem Typing.Types.
Import ListNotations.
Open Scope Z_scope.

Inductive tm : Type :=
| XLit (l : lit)
| XVar (x : Z)
| XUn (op : unop) (a : tm)
| XBin (op : arith) (a b : tm)
| XCmp (op : cmpop) (a b : tm)
| XLogic (is_or : bool) (a b : tm)
| XList (es : list tm)
| XIndex (a i : tm)
| XIf (c a b : tm)
| XCall (f : Z) (args : list tm)
| XMeth (m : Z) (r : tm) (args : list tm).

Inductive st : Type :=
| TDef (x : Z) (ann : option ety) (e : tm)
| TPrint (es : list tm)
| TAssert (e : tm)
| TFun (f : Z) (lam : bool) (ps : list (Z * ety * option tm)) (ret : option ety) (locals : list (Z * tm)) (res : tm)
| TIf (c : tm) (th el : list st)
| TFor (x : Z) (it : tm) (body : list st).

Definition prog := list st.

(** method / builtin-function codes (0 1 2 8 10 30 are the ids of gen/Sigs.v sig_method) *)
Definition M_succ := 0.
Definition M_pred := 1.
Definition M_bit_count := 2.
Definition M_push := 8.
Definition M_sum := 10.
Definition M_abs := 30.      (* x.abs() *)
Definition M_len := 40.      (* len(x) *)
Definition M_absf := 41.     (* abs(x) *)

(** ** environments *)
Definition tenv := list (Z * ety).
Definition fsig := (list (ety * bool) * ety)%type.      (* parameter types with has-default flag, result type *)
Definition fenv_t := list (Z * fsig).
Definition cenv := (fenv_t * tenv)%type.

Fixpoint lookup_t {A} (x : Z) (g : list (Z * A)) : option A :=
  match g with
  | [] => None
  | (y, t) :: r => if x =? y then Some t else lookup_t x r
  end.

Definition is_some {A} (o : option A) : bool := match o with Some _ => true | None => false end.

(** ** operator tables (gen/Sigs.v) *)
Definition arith_code (op : arith) : Z :=
  match op with OAdd => 0 | OSub => 1 | OMul => 2 | ODiv => 3 | OFloorDiv => 4 | OMod => 5 | OPow => 6 end.
Definition cmp_code (op : cmpop) : Z :=
  match op with CEq => 7 | CNe => 8 | CLt => 9 | CLe => 10 | CGt => 11 | CGe => 12 end.

Fixpoint lookup4 (tbl : list (Z * Z * Z * Z)) (o a b : Z) : option Z :=
  match tbl with
  | [] => None
  | (o', a', b', r) :: rest => if (o =? o') && (a =? a') && (b =? b') then Some r else lookup4 rest o a b
  end.
Fixpoint lookup3 (tbl : list (Z * Z * Z)) (o a : Z) : option Z :=
  match tbl with
  | [] => None
  | (o', a', r) :: rest => if (o =? o') && (a =? a') then Some r else lookup3 rest o a
  end.

Definition nat_like (c : cls) : bool := match c with CNat | CBool => true | _ => false end.

(* K_pow: `**` is declared Nat for every integer operand pair; only non-negative operands make that true *)
Definition pow_ok (strict : bool) (o : Z) (a b : cls) : bool :=
  negb strict || negb (o =? 6) || (nat_like a && nat_like b).

Definition tag_ty (r : Z) : option ety := match tag_cls r with Some c => cls_ty c | None => None end.

Definition is_scalar (c : cls) : bool := match c with CList => false | _ => true end.

Definition binop_res (strict : bool) (o : Z) (a b : cls) : option ety :=
  if is_scalar a && is_scalar b && pow_ok strict o a b then
    match lookup4 sig_binop o (cls_tag a) (cls_tag b) with Some r => tag_ty r | None => None end
  else None.

Definition bin_ty (strict : bool) (op : arith) (ta tb : ety) : option ety :=
  match ta, tb with
  | T_List a n, T_List b m =>
    match op with
    | OAdd => if is_some (lookup4 sig_binop 0 9 9) then
                match join_ty a b with Some t => Some (T_List t (len_add n m)) | None => None end
              else None
    | _ => None
    end
  | _, _ =>
    match class_of ta, class_of tb with
    | Some ca, Some cb => binop_res strict (arith_code op) ca cb
    | _, _ => None
    end
  end.

Definition cmp_ty (op : cmpop) (ta tb : ety) : option ety :=
  match class_of ta, class_of tb with
  | Some ca, Some cb =>
    if is_scalar ca && is_scalar cb then
      match lookup4 sig_binop (cmp_code op) (cls_tag ca) (cls_tag cb) with Some r => tag_ty r | None => None end
    else None
  | _, _ => None
  end.

Definition int_like (c : cls) : bool := match c with CNat | CInt | CBool => true | _ => false end.

Definition un_ty (op : unop) (ta : ety) : option ety :=
  match op with
  | UNot => if sub ta T_Bool then Some T_Bool else None
  | UInv => match class_of ta with Some c => if int_like c then Some T_Int else None | None => None end
  | UNeg => match class_of ta with
            | Some c => if is_scalar c then match lookup3 sig_unop 0 (cls_tag c) with Some r => tag_ty r | None => None end else None
            | None => None end
  | UPos => match class_of ta with
            | Some c => if is_scalar c then match lookup3 sig_unop 1 (cls_tag c) with Some r => tag_ty r | None => None end else None
            | None => None end
  end.

Definition idx_ok (n : option Z) (k : Z) : bool :=
  (0 <=? k) && match n with Some N => k <? N | None => true end.

Definition index_ty (ta : ety) (i : tm) : option ety :=
  match i with
  | XLit (LNat k) =>
    match ta with
    | T_List t n => if idx_ok n k then Some t else None
    | _ => if (0 <=? k) && sub ta T_Str then Some T_Str else None
    end
  | _ => None
  end.

Inductive mkind := KSucc | KPred | KBitCount | KAbs | KAbsF | KLen | KPush | KSum.

Definition meth_kind (m : Z) : option mkind :=
  if m =? M_succ then Some KSucc else if m =? M_pred then Some KPred else if m =? M_bit_count then Some KBitCount
  else if m =? M_abs then Some KAbs else if m =? M_absf then Some KAbsF else if m =? M_len then Some KLen
  else if m =? M_push then Some KPush else if m =? M_sum then Some KSum else None.

(* row of gen/Sigs.v sig_method that declares the result class *)
Definition kind_sig_id (k : mkind) : Z :=
  match k with KSucc => M_succ | KPred => M_pred | KBitCount => M_bit_count | KAbs | KAbsF => M_abs
             | KLen => M_len | KPush => M_push | KSum => M_sum end.

Definition meth_ty (m : Z) (tr : ety) (ts : list ety) : option ety :=
  match meth_kind m with
  | None => None
  | Some k =>
    match k with
    | KSucc | KPred | KBitCount | KAbs | KAbsF =>
      match ts, class_of tr with
      | [], Some c =>
        if int_like c then
          match lookup3 sig_method (kind_sig_id k) (cls_tag c) with Some r => tag_ty r | None => None end
        else None
      | _, _ => None
      end
    | KLen =>
      match ts with
      | [] => match tr with T_List _ _ => Some T_Nat | _ => if sub tr T_Str then Some T_Nat else None end
      | _ => None
      end
    | KPush =>
      match ts, tr with
      | [te], T_List t n =>
        if is_some (lookup3 sig_method M_push 9) then
          match join_ty t te with Some t' => Some (T_List t' (len_add n (Some 1))) | None => None end
        else None
      | _, _ => None
      end
    | KSum =>
      match ts, tr with
      | [], T_List t n =>
        if is_some (lookup3 sig_method M_sum 9) then
          match class_of t with
          | Some c => if nat_like c then Some T_Nat else if int_like c then Some T_Int else None
          | None => None
          end
        else None
      | _, _ => None
      end
    end
  end.

Fixpoint check_args (ps : list (ety * bool)) (ts : list ety) : bool :=
  match ps, ts with
  | [], [] => true
  | (p, _) :: pr, t :: tr => sub t p && check_args pr tr
  | (_, dflt) :: pr, [] => dflt && check_args pr []
  | [], _ :: _ => false
  end.

Fixpoint join_all (t : ety) (ts : list ety) : option ety :=
  match ts with
  | [] => Some t
  | x :: r => match join_ty t x with Some t' => join_all t' r | None => None end
  end.

Section Checker.
  Variable strict : bool.

  Fixpoint infer (FS : fenv_t) (G : tenv) (e : tm) {struct e} : option ety :=
    let infers := fix infers (es : list tm) : option (list ety) :=
      match es with
      | [] => Some []
      | x :: r => match infer FS G x, infers r with Some t, Some ts => Some (t :: ts) | _, _ => None end
      end in
    match e with
    | XLit l => Some (T_Enum [lit_value l])
    | XVar x => lookup_t x G
    | XUn op a => match infer FS G a with Some ta => un_ty op ta | None => None end
    | XBin op a b => match infer FS G a, infer FS G b with Some ta, Some tb => bin_ty strict op ta tb | _, _ => None end
    | XCmp op a b => match infer FS G a, infer FS G b with Some ta, Some tb => cmp_ty op ta tb | _, _ => None end
    | XLogic _ a b =>
      match infer FS G a, infer FS G b with
      | Some ta, Some tb => if sub ta T_Bool && sub tb T_Bool then Some T_Bool else None
      | _, _ => None
      end
    | XList es =>
      match infers es with
      | Some (t :: ts) => match join_all t ts with Some tj => Some (T_List tj (Some (Z.of_nat (length es)))) | None => None end
      | _ => None
      end
    | XIndex a i => match infer FS G a, infer FS G i with Some ta, Some _ => index_ty ta i | _, _ => None end
    | XIf c a b =>
      match infer FS G c, infer FS G a, infer FS G b with
      | Some tc, Some ta, Some tb => if sub tc T_Bool then join_ty ta tb else None
      | _, _, _ => None
      end
    | XCall f args =>
      match infers args with
      | Some ts => match lookup_t f FS with
                   | Some (ps, ret) => if check_args ps ts then Some ret else None
                   | None => None
                   end
      | None => None
      end
    | XMeth m r args =>
      match infer FS G r, infers args with
      | Some tr, Some ts => meth_ty m tr ts
      | _, _ => None
      end
    end.

  Fixpoint infers (FS : fenv_t) (G : tenv) (es : list tm) : option (list ety) :=
    match es with
    | [] => Some []
    | x :: r => match infer FS G x, infers FS G r with Some t, Some ts => Some (t :: ts) | _, _ => None end
    end.

  (** ** statements *)
  Definition param_tys (ps : list (Z * ety * option tm)) : tenv := map (fun p => (fst (fst p), snd (fst p))) ps.
  Definition param_sig (ps : list (Z * ety * option tm)) : list (ety * bool) :=
    map (fun p => (snd (fst p), is_some (snd p))) ps.

  Fixpoint check_defaults (FS : fenv_t) (G : tenv) (ps : list (Z * ety * option tm)) : bool :=
    match ps with
    | [] => true
    | (_, t, None) :: r => check_defaults FS G r
    | (_, t, Some d) :: r =>
      match infer FS G d with Some td => sub td t && check_defaults FS G r | None => false end
    end.

  Fixpoint check_locals (FS : fenv_t) (G : tenv) (ls : list (Z * tm)) : option tenv :=
    match ls with
    | [] => Some G
    | (x, e) :: r => match infer FS G e with Some t => check_locals FS ((x, t) :: G) r | None => None end
    end.

  (* result type of a function definition; None = the definition is ill-typed *)
  Definition fun_ret (FS : fenv_t) (G : tenv) (ps : list (Z * ety * option tm)) (ret : option ety)
             (locals : list (Z * tm)) (res : tm) : option ety :=
    if check_defaults FS G ps then
      match check_locals FS (param_tys ps ++ G) locals with
      | Some Gb =>
        match infer FS Gb res with
        | Some tr => match ret with Some r => if sub tr r then Some r else None | None => Some tr end
        | None => None
        end
      | None => None
      end
    else None.

  Fixpoint check_st (c : cenv) (s : st) {struct s} : option cenv :=
    let blk := fix blk (c : cenv) (ss : list st) : bool :=
      match ss with
      | [] => true
      | x :: r => match check_st c x with Some c' => blk c' r | None => false end
      end in
    let FS := fst c in
    let G := snd c in
    match s with
    | TDef x ann e =>
      match infer FS G e with
      | Some t => if match ann with Some a => sub t a | None => true end then Some (FS, (x, t) :: G) else None
      | None => None
      end
    | TPrint es => match infers FS G es with Some _ => Some c | None => None end
    | TAssert e => match infer FS G e with Some t => if sub t T_Bool then Some c else None | None => None end
    | TFun f _ ps ret locals res =>
      match fun_ret FS G ps ret locals res with
      | Some r => Some ((f, (param_sig ps, r)) :: FS, G)
      | None => None
      end
    | TIf cnd th el =>
      match infer FS G cnd with
      | Some tc => if sub tc T_Bool && blk c th && blk c el then Some c else None
      | None => None
      end
    | TFor x it body =>
      match infer FS G it with
      | Some (T_List t n) => if blk (FS, (x, t) :: G) body then Some c else None
      | _ => None
      end
    end.

  Fixpoint check_block (c : cenv) (ss : list st) : option cenv :=
    match ss with
    | [] => Some c
    | x :: r => match check_st c x with Some c' => check_block c' r | None => None end
    end.

  Definition check_prog (p : prog) : option cenv := check_block ([], []) p.
  Definition typecheck (p : prog) : bool := is_some (check_prog p).
End Checker.
