(** extraction entry point for the Typing theme (properties C05, C02, C34) on the sx wire format.
    Depends on: ErgV.Common.Sx ErgV.CoreErg.Syntax ErgV.CoreErg.Sem ErgV.Typing.Types ErgV.Typing.Check
    ErgV.Typing.Eval ErgV.Typing.Inject ErgV.Typing.Spec

    wire format (python side: pylib/typing_gen.py)
      lit    (kind payload) as CoreErg: 0 Nat n | 1 negative Int z | 2 Float bits | 3 Str (cp..) | 4 Bool 0/1 | 5 None 0
      expr   (0 kind payload) | (1 id) | (2 op e) | (3 op a b) | (4 op a b) | (5 k a b) | (6 (e..)) | (7 a i) | (8 c a b)
             | (9 f (arg..)) | (10 m recv (arg..))
      type   (0) NoneType (1) Bool (2) Nat (3) Int (4) Float (5) Str (6 (value..)) enum (7 lo hi) interval
             (8 t) List(t) (9 t n) List(t, n)
      value  (0 z) (1 b) (2 bits) (3 (cp..)) (4) None (5 (value..)) list
      stmt   (0 x ann e) ann = 0 | type   (1 (e..)) print   (2 e) assert
             (3 f lam ((id type (default)?)..) ret ((x e)..) res) ret = 0 | type   (4 c (s..) (s..)) if!   (5 x it (s..)) for!
      mutation (0) undefined name | (1 right lit) operand | (2) drop argument | (3 lit) add argument | (4 k lit) argument type
             | (5 m) attribute
    modes   (0 strict prog)                 -> (ok ((id type)..) ((f ((type dflt)..) type)..))      typecheck + bindings
            (1 strict fuel prog)            -> (status (line..) ((id value type)..))                  run
            (2 strict prog (pos..) mutation)-> (base_ok injected mutant_ok mutant_prog)               inject
            (3 value type)                  -> (has_ty)                                               C34 judge
            (4 typeA typeB)                 -> (A<:B B<:A)
            (5 prog)                        -> (lax_ok strict_ok known_pow known_ifarith)
            (6 prog x)                      -> (class)  known_c34 of top-level binding x
            (7 accepted executed)           -> (judge_c05)
            (8 class)                       -> (judge_c02)  class: 0 none 4 TypeError 5 wrapper ValueError 7 NameError
                                                            8 AttributeError, other codes = legitimate errors (err_code) *)
From Coq Require Import ZArith List Bool.
From ErgV Require Import Common.Sx CoreErg.Syntax CoreErg.Sem Typing.Types Typing.Check Typing.Eval Typing.Inject Typing.Spec.
Import ListNotations.
Open Scope Z_scope.

(** ** decoders (None = malformed, never a default) *)
Fixpoint dec_value (fuel : nat) (x : sx) : option value :=
  match fuel with
  | O => None
  | S f =>
    match x with
    | SL [SZ 0; SZ z] => Some (VInt z)
    | SL [SZ 1; SZ b] => Some (VBool (negb (b =? 0)))
    | SL [SZ 2; SZ b] => Some (VFloat b)
    | SL [SZ 3; SL cps] => option_map VStr (dec_zs cps)
    | SL [SZ 4] => Some VNone
    | SL [SZ 5; SL vs] => option_map VList (all_some (map (dec_value f) vs))
    | _ => None
    end
  end.

Fixpoint dec_ety (fuel : nat) (x : sx) : option ety :=
  match fuel with
  | O => None
  | S f =>
    match x with
    | SL [SZ 0] => Some T_None | SL [SZ 1] => Some T_Bool | SL [SZ 2] => Some T_Nat | SL [SZ 3] => Some T_Int
    | SL [SZ 4] => Some T_Float | SL [SZ 5] => Some T_Str
    | SL [SZ 6; SL vs] => option_map T_Enum (all_some (map (dec_value f) vs))
    | SL [SZ 7; SZ lo; SZ hi] => Some (T_Ival lo hi)
    | SL [SZ 8; t] => option_map (fun t' => T_List t' None) (dec_ety f t)
    | SL [SZ 9; t; SZ n] => option_map (fun t' => T_List t' (Some n)) (dec_ety f t)
    | _ => None
    end
  end.

Definition dec_ann (fuel : nat) (x : sx) : option (option ety) :=
  match x with
  | SZ 0 => Some None
  | _ => option_map Some (dec_ety fuel x)
  end.

Fixpoint dec_tm (fuel : nat) (x : sx) : option tm :=
  match fuel with
  | O => None
  | S f =>
    match x with
    | SL [SZ 0; SZ k; p] => option_map XLit (dec_lit k p)
    | SL [SZ 1; SZ id] => Some (XVar id)
    | SL [SZ 2; SZ op; e] => do* o <- dec_unop op; do* e' <- dec_tm f e; Some (XUn o e')
    | SL [SZ 3; SZ op; a; b] => do* o <- dec_arith op; do* a' <- dec_tm f a; do* b' <- dec_tm f b; Some (XBin o a' b')
    | SL [SZ 4; SZ op; a; b] => do* o <- dec_cmp op; do* a' <- dec_tm f a; do* b' <- dec_tm f b; Some (XCmp o a' b')
    | SL [SZ 5; SZ k; a; b] => do* a' <- dec_tm f a; do* b' <- dec_tm f b; Some (XLogic (negb (k =? 0)) a' b')
    | SL [SZ 6; SL es] => option_map XList (all_some (map (dec_tm f) es))
    | SL [SZ 7; a; i] => do* a' <- dec_tm f a; do* i' <- dec_tm f i; Some (XIndex a' i')
    | SL [SZ 8; c; a; b] => do* c' <- dec_tm f c; do* a' <- dec_tm f a; do* b' <- dec_tm f b; Some (XIf c' a' b')
    | SL [SZ 9; SZ fid; SL args] => option_map (XCall fid) (all_some (map (dec_tm f) args))
    | SL [SZ 10; SZ m; r; SL args] => do* r' <- dec_tm f r; option_map (XMeth m r') (all_some (map (dec_tm f) args))
    | _ => None
    end
  end.

Definition dec_param (f : nat) (p : sx) : option (Z * ety * option tm) :=
  match p with
  | SL [SZ id; t; SL []] => do* t' <- dec_ety f t; Some (id, t', None)
  | SL [SZ id; t; SL [d]] => do* t' <- dec_ety f t; do* d' <- dec_tm f d; Some (id, t', Some d')
  | _ => None
  end.

Definition dec_local (f : nat) (p : sx) : option (Z * tm) :=
  match p with
  | SL [SZ id; e] => option_map (fun e' => (id, e')) (dec_tm f e)
  | _ => None
  end.

Fixpoint dec_st (fuel : nat) (x : sx) : option st :=
  match fuel with
  | O => None
  | S f =>
    let blk := fun ss => all_some (map (dec_st f) ss) in
    match x with
    | SL [SZ 0; SZ id; ann; e] => do* a <- dec_ann f ann; option_map (TDef id a) (dec_tm f e)
    | SL [SZ 1; SL es] => option_map TPrint (all_some (map (dec_tm f) es))
    | SL [SZ 2; e] => option_map TAssert (dec_tm f e)
    | SL [SZ 3; SZ id; SZ lam; SL ps; ret; SL locals; res] =>
      do* ps' <- all_some (map (dec_param f) ps); do* r <- dec_ann f ret;
      do* ls <- all_some (map (dec_local f) locals); do* res' <- dec_tm f res;
      Some (TFun id (negb (lam =? 0)) ps' r ls res')
    | SL [SZ 4; c; SL th; SL el] => do* c' <- dec_tm f c; do* th' <- blk th; do* el' <- blk el; Some (TIf c' th' el')
    | SL [SZ 5; SZ id; it; SL body] => do* it' <- dec_tm f it; do* b' <- blk body; Some (TFor id it' b')
    | _ => None
    end
  end.

Definition dec_prog (x : sx) : option prog :=
  match x with
  | SL ss => all_some (map (dec_st (sx_size x)) ss)
  | SZ _ => None
  end.

Definition dec_mutation (x : sx) : option mutation :=
  match x with
  | SL [SZ 0] => Some MUndef
  | SL [SZ 1; SZ r; SL [SZ k; p]] => option_map (MOperand (negb (r =? 0))) (dec_lit k p)
  | SL [SZ 2] => Some MArityDrop
  | SL [SZ 3; SL [SZ k; p]] => option_map MArityAdd (dec_lit k p)
  | SL [SZ 4; SZ i; SL [SZ k; p]] => option_map (MArgType (Z.to_nat i)) (dec_lit k p)
  | SL [SZ 5; SZ m] => Some (MAttr m)
  | _ => None
  end.

(** ** encoders *)
Fixpoint enc_value (v : value) : sx :=
  match v with
  | VInt z => SL [SZ 0; SZ z]
  | VBool b => SL [SZ 1; sx_bool b]
  | VFloat b => SL [SZ 2; SZ b]
  | VStr s => SL [SZ 3; sx_of_zs s]
  | VNone => SL [SZ 4]
  | VList vs => SL [SZ 5; SL (map enc_value vs)]
  | VTuple vs => SL [SZ 6; SL (map enc_value vs)]
  | VClos _ _ _ _ => SL [SZ 7]
  end.

Fixpoint enc_ety (t : ety) : sx :=
  match t with
  | T_None => SL [SZ 0] | T_Bool => SL [SZ 1] | T_Nat => SL [SZ 2] | T_Int => SL [SZ 3] | T_Float => SL [SZ 4]
  | T_Str => SL [SZ 5]
  | T_Enum vs => SL [SZ 6; SL (map enc_value vs)]
  | T_Ival lo hi => SL [SZ 7; SZ lo; SZ hi]
  | T_List t' None => SL [SZ 8; enc_ety t']
  | T_List t' (Some n) => SL [SZ 9; enc_ety t'; SZ n]
  end.

Definition enc_lit (l : lit) : sx :=
  match l with
  | LNat n => SL [SZ 0; SZ n]
  | LNeg z => SL [SZ 1; SZ z]
  | LFloat b => SL [SZ 2; SZ b]
  | LStr s => SL [SZ 3; sx_of_zs s]
  | LBool b => SL [SZ 4; sx_bool b]
  | LNone => SL [SZ 5; SZ 0]
  end.

Definition unop_code (o : unop) : Z := match o with UNeg => 0 | UPos => 1 | UNot => 2 | UInv => 3 end.
Definition cmpop_code (o : cmpop) : Z := match o with CLt => 0 | CLe => 1 | CEq => 2 | CNe => 3 | CGt => 4 | CGe => 5 end.

Fixpoint enc_tm (e : tm) : sx :=
  match e with
  | XLit l => match enc_lit l with SL r => SL (SZ 0 :: r) | x => x end
  | XVar x => SL [SZ 1; SZ x]
  | XUn op a => SL [SZ 2; SZ (unop_code op); enc_tm a]
  | XBin op a b => SL [SZ 3; SZ (arith_code op); enc_tm a; enc_tm b]
  | XCmp op a b => SL [SZ 4; SZ (cmpop_code op); enc_tm a; enc_tm b]
  | XLogic k a b => SL [SZ 5; sx_bool k; enc_tm a; enc_tm b]
  | XList es => SL [SZ 6; SL (map enc_tm es)]
  | XIndex a i => SL [SZ 7; enc_tm a; enc_tm i]
  | XIf c a b => SL [SZ 8; enc_tm c; enc_tm a; enc_tm b]
  | XCall f args => SL [SZ 9; SZ f; SL (map enc_tm args)]
  | XMeth m r args => SL [SZ 10; SZ m; enc_tm r; SL (map enc_tm args)]
  end.

Definition enc_ann (a : option ety) : sx := match a with Some t => enc_ety t | None => SZ 0 end.

Fixpoint enc_st (s : st) : sx :=
  match s with
  | TDef x ann e => SL [SZ 0; SZ x; enc_ann ann; enc_tm e]
  | TPrint es => SL [SZ 1; SL (map enc_tm es)]
  | TAssert e => SL [SZ 2; enc_tm e]
  | TFun f lam ps ret locals res =>
    SL [SZ 3; SZ f; sx_bool lam;
        SL (map (fun p => SL [SZ (fst (fst p)); enc_ety (snd (fst p));
                              SL (match snd p with Some d => [enc_tm d] | None => [] end)]) ps);
        enc_ann ret; SL (map (fun l => SL [SZ (fst l); enc_tm (snd l)]) locals); enc_tm res]
  | TIf c th el => SL [SZ 4; enc_tm c; SL (map enc_st th); SL (map enc_st el)]
  | TFor x it body => SL [SZ 5; SZ x; enc_tm it; SL (map enc_st body)]
  end.

Definition enc_status (s : status) : sx :=
  match s with
  | Exit0 => SZ 0
  | Uncaught e => SZ (err_code e)
  | FuelOut => SZ (-998)
  | Rejected => SZ (-996)
  end.

Definition enc_tenv (G : tenv) : sx := SL (map (fun b => SL [SZ (fst b); enc_ety (snd b)]) (rev G)).
Definition enc_fenv (FS : fenv_t) : sx :=
  SL (map (fun b => SL [SZ (fst b); SL (map (fun p => SL [enc_ety (fst p); sx_bool (snd p)]) (fst (snd b))); enc_ety (snd (snd b))]) (rev FS)).

Definition bindings (s : state) : sx :=
  SL (map (fun b => match lookup (fst b) (s_en s) with
                    | Some v => SL [SZ (fst b); enc_value v; enc_ety (snd b)]
                    | None => SL [SZ (fst b)]
                    end) (rev (s_G s))).

Definition bad : sx := SL [SZ (-997)].

Definition run (x : sx) : sx :=
  match x with
  | SL [SZ 0; SZ strict; p] =>
    match dec_prog p with
    | Some pr =>
      match check_prog (negb (strict =? 0)) pr with
      | Some (FS, G) => SL [SZ 1; enc_tenv G; enc_fenv FS]
      | None => SL [SZ 0; SL []; SL []]
      end
    | None => bad
    end
  | SL [SZ 1; SZ strict; SZ fuel; p] =>
    match dec_prog p with
    | Some pr =>
      let sb := negb (strict =? 0) in
      let o := run_prog sb (Z.to_nat fuel) pr in
      SL [enc_status (snd o); SL (map sx_of_zs (fst o));
          match run_state sb (Z.to_nat fuel) pr with Some s => bindings s | None => SL [] end]
    | None => bad
    end
  | SL [SZ 2; SZ strict; p; SL pos; m] =>
    match dec_prog p, dec_mutation m with
    | Some pr, Some mu =>
      let sb := negb (strict =? 0) in
      match inject sb pr (map (fun z => Z.to_nat (sx_z z)) pos) mu with
      | Some pr' => SL [sx_bool (typecheck sb pr); SZ 1; sx_bool (typecheck sb pr'); SL (map enc_st pr')]
      | None => SL [sx_bool (typecheck sb pr); SZ 0; SZ 0; SL []]
      end
    | _, _ => bad
    end
  | SL [SZ 3; v; t] =>
    match dec_value (sx_size v) v, dec_ety (sx_size t) t with
    | Some v', Some t' => SL [sx_bool (judge_c34 v' t')]
    | _, _ => bad
    end
  | SL [SZ 4; a; b] =>
    match dec_ety (sx_size a) a, dec_ety (sx_size b) b with
    | Some a', Some b' => SL [sx_bool (sub a' b'); sx_bool (sub b' a')]
    | _, _ => bad
    end
  | SL [SZ 5; p] =>
    match dec_prog p with
    | Some pr => SL [sx_bool (typecheck false pr); sx_bool (typecheck true pr); sx_bool (known_pow pr); sx_bool (known_ifarith pr)]
    | None => bad
    end
  | SL [SZ 7; SZ a; SZ e] => SL [sx_bool (judge_c05 (negb (a =? 0)) (negb (e =? 0)))]
  | SL [SZ 8; SZ c] =>
    SL [sx_bool (judge_c02 (if c =? 0 then Exit0 else Uncaught (if c =? 4 then EType else if c =? 5 then EWrapValue
                             else if c =? 7 then EName else if c =? 8 then EAttr else if c =? 1 then EZeroDiv
                             else if c =? 2 then EAssert else if c =? 3 then EIndex else if c =? 6 then EOverflow
                             else EUnmodelled)))]
  | SL [SZ 6; p; SZ x] =>
    match dec_prog p with
    | Some pr => SL [SZ (known_c34 pr x)]
    | None => bad
    end
  | _ => bad
  end.

Require Extraction.
Require Import ExtrOcamlBasic.
Extraction Language OCaml.
Extraction "model.ml" run.
