(** * Typing.Inject — injection of one definite static error at an arbitrary position (property C05).

    A position is a path: at block level the index of the statement, then inside the statement
      TDef/TAssert: the path inside the expression;  TPrint: argument index, then the expression path;
      TFun: 0 :: j :: path (default of parameter j) | 1 :: j :: path (local definition j) | 2 :: path (result);
      TIf: 0 :: path (condition) | 1 :: block path (then) | 2 :: block path (else);
      TFor: 0 :: path (iterable) | 1 :: block path (body);
    inside an expression the index of the operand / element / argument (XMeth: 0 receiver, 1 + k argument k).
    The five mutation kinds of the property: undefined name, operator applied to an operand of an unsupported type,
    wrong number of arguments (one dropped / one added), argument of an incompatible type, attribute the receiver's
    type does not have.  [mut] builds the mutated node and keeps it only if it is *locally* ill-typed in the
    environment of the position (the environment the checker itself computes on the way down), so every injection is a
    definite error by construction; Props_C05 shows that such a node makes the whole program ill-typed wherever it
    sits, and that each of the five shapes is locally ill-typed under its syntactic side condition.  No proofs here. *)
From Coq Require Import ZArith List Bool.
From ErgV Require Import CoreErg.Syntax CoreErg.Sem Typing.Types Typing.Check.
Import ListNotations.
Open Scope Z_scope.

Inductive mutation :=
| MUndef                                  (* variable / callee replaced by an unbound name *)
| MOperand (rt : bool) (l : lit)       (* an operand replaced by a literal of an unsupported type *)
| MArityDrop                              (* last argument dropped *)
| MArityAdd (l : lit)                     (* one more argument *)
| MArgType (k : nat) (l : lit)            (* argument k replaced by a literal of an incompatible type *)
| MAttr (m : Z).                          (* method replaced by one the receiver does not have *)

Definition max_key {A} (g : list (Z * A)) : Z := fold_right (fun p m => Z.max (fst p) m) 0 g.
Definition fresh_id (FS : fenv_t) (G : tenv) : Z := 1 + Z.max (max_key FS) (max_key G).

Fixpoint set_nth {A} (k : nat) (y : A) (l : list A) : option (list A) :=
  match l, k with
  | [], _ => None
  | _ :: r, O => Some (y :: r)
  | x :: r, S k' => option_map (cons x) (set_nth k' y r)
  end.

Definition candidate (FS : fenv_t) (G : tenv) (m : mutation) (e : tm) : option tm :=
  match m, e with
  | MUndef, XVar _ => Some (XVar (fresh_id FS G))
  | MUndef, XCall _ args => Some (XCall (fresh_id FS G) args)
  | MOperand _ l, XUn op _ => Some (XUn op (XLit l))
  | MOperand rt l, XBin op a b => Some (if rt then XBin op a (XLit l) else XBin op (XLit l) b)
  | MOperand rt l, XCmp op a b => Some (if rt then XCmp op a (XLit l) else XCmp op (XLit l) b)
  | MOperand true l, XIndex a _ => Some (XIndex a (XLit l))
  | MArityDrop, XCall f (_ :: _ as args) => Some (XCall f (removelast args))
  | MArityDrop, XMeth k r (_ :: _ as args) => Some (XMeth k r (removelast args))
  | MArityAdd l, XCall f args => Some (XCall f (args ++ [XLit l]))
  | MArityAdd l, XMeth k r args => Some (XMeth k r (args ++ [XLit l]))
  | MArgType k l, XCall f args => option_map (XCall f) (set_nth k (XLit l) args)
  | MArgType k l, XMeth j r args => option_map (XMeth j r) (set_nth k (XLit l) args)
  | MAttr m', XMeth _ r args => Some (XMeth m' r args)
  | _, _ => None
  end.

Section Inject.
  Variable strict : bool.

  Definition mut (FS : fenv_t) (G : tenv) (m : mutation) (e : tm) : option tm :=
    match candidate FS G m e with
    | Some e' => if is_some (infer strict FS G e') then None else Some e'
    | None => None
    end.

  Fixpoint inj_nth {A} (k : nat) (f : A -> option A) (l : list A) : option (list A) :=
    match l, k with
    | [], _ => None
    | x :: r, O => option_map (fun y => y :: r) (f x)
    | x :: r, S k' => option_map (cons x) (inj_nth k' f r)
    end.

  Fixpoint inj_tm (FS : fenv_t) (G : tenv) (m : mutation) (pos : list nat) (e : tm) {struct pos} : option tm :=
    match pos with
    | [] => mut FS G m e
    | k :: r =>
      let rec := inj_tm FS G m r in
      match e with
      | XUn op a => match k with O => option_map (XUn op) (rec a) | _ => None end
      | XBin op a b =>
        match k with
        | O => option_map (fun a' => XBin op a' b) (rec a)
        | S O => option_map (XBin op a) (rec b)
        | _ => None
        end
      | XCmp op a b =>
        match k with
        | O => option_map (fun a' => XCmp op a' b) (rec a)
        | S O => option_map (XCmp op a) (rec b)
        | _ => None
        end
      | XLogic o a b =>
        match k with
        | O => option_map (fun a' => XLogic o a' b) (rec a)
        | S O => option_map (XLogic o a) (rec b)
        | _ => None
        end
      | XList es => option_map XList (inj_nth k rec es)
      | XIndex a i => match k with O => option_map (fun a' => XIndex a' i) (rec a) | _ => None end
      | XIf c a b =>
        match k with
        | O => option_map (fun c' => XIf c' a b) (rec c)
        | S O => option_map (fun a' => XIf c a' b) (rec a)
        | S (S O) => option_map (XIf c a) (rec b)
        | _ => None
        end
      | XCall f args => option_map (XCall f) (inj_nth k rec args)
      | XMeth j rcv args =>
        match k with
        | O => option_map (fun r' => XMeth j r' args) (rec rcv)
        | S k' => option_map (XMeth j rcv) (inj_nth k' rec args)
        end
      | _ => None
      end
    end.

  (* parameter defaults *)
  Fixpoint inj_default (j : nat) (f : tm -> option tm) (ps : list (Z * ety * option tm)) : option (list (Z * ety * option tm)) :=
    match ps, j with
    | [], _ => None
    | (x, t, Some d) :: r, O => option_map (fun d' => (x, t, Some d') :: r) (f d)
    | (_, _, None) :: _, O => None
    | p :: r, S j' => option_map (cons p) (inj_default j' f r)
    end.

  (* local definitions: the environment grows as the checker's does *)
  Fixpoint inj_local (FS : fenv_t) (j : nat) (f : tenv -> tm -> option tm) (G : tenv) (ls : list (Z * tm)) : option (list (Z * tm)) :=
    match ls, j with
    | [], _ => None
    | (x, e) :: r, O => option_map (fun e' => (x, e') :: r) (f G e)
    | (x, e) :: r, S j' =>
      match infer strict FS G e with
      | Some t => option_map (cons (x, e)) (inj_local FS j' f ((x, t) :: G) r)
      | None => None
      end
    end.

  (* statement k of a block, in the environment the checker reaches there *)
  Fixpoint inj_at (k : nat) (f : cenv -> st -> option st) (c : cenv) (ss : list st) : option (list st) :=
    match ss, k with
    | [], _ => None
    | s :: r, O => option_map (fun s' => s' :: r) (f c s)
    | s :: r, S k' =>
      match check_st strict c s with
      | Some c' => option_map (cons s) (inj_at k' f c' r)
      | None => None
      end
    end.

  Fixpoint inj_st (m : mutation) (pos : list nat) (c : cenv) (s : st) {struct pos} : option st :=
    let FS := fst c in
    let G := snd c in
    match s with
    | TDef x ann e => option_map (TDef x ann) (inj_tm FS G m pos e)
    | TAssert e => option_map TAssert (inj_tm FS G m pos e)
    | TPrint es =>
      match pos with
      | k :: r => option_map TPrint (inj_nth k (inj_tm FS G m r) es)
      | [] => None
      end
    | TFun f lam ps ret locals res =>
      match pos with
      | O :: j :: r => option_map (fun ps' => TFun f lam ps' ret locals res) (inj_default j (inj_tm FS G m r) ps)
      | S O :: j :: r =>
        option_map (fun ls' => TFun f lam ps ret ls' res)
                   (inj_local FS j (fun G' => inj_tm FS G' m r) (param_tys ps ++ G) locals)
      | S (S O) :: r =>
        match check_locals strict FS (param_tys ps ++ G) locals with
        | Some Gb => option_map (TFun f lam ps ret locals) (inj_tm FS Gb m r res)
        | None => None
        end
      | _ => None
      end
    | TIf cnd th el =>
      match pos with
      | O :: r => option_map (fun c' => TIf c' th el) (inj_tm FS G m r cnd)
      | S O :: k :: r => option_map (fun th' => TIf cnd th' el) (inj_at k (inj_st m r) c th)
      | S (S O) :: k :: r => option_map (TIf cnd th) (inj_at k (inj_st m r) c el)
      | _ => None
      end
    | TFor x it body =>
      match pos with
      | O :: r => option_map (fun it' => TFor x it' body) (inj_tm FS G m r it)
      | S O :: k :: r =>
        match infer strict FS G it with
        | Some (T_List t _) => option_map (TFor x it) (inj_at k (inj_st m r) (FS, (x, t) :: G) body)
        | _ => None
        end
      | _ => None
      end
    end.

  Definition inject (p : prog) (pos : list nat) (m : mutation) : option prog :=
    match pos with
    | k :: r => inj_at k (inj_st m r) ([], []) p
    | [] => None
    end.
End Inject.
