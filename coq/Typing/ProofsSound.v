(** * Typing.ProofsSound — big-step type soundness of the checked fragment (properties C02 and C34).

    [eval_sound]: a well-typed expression evaluated in an environment that respects its typing either yields a value
    of its static type or raises a legitimate error (never TypeError / AttributeError / NameError / the Nat wrapper's
    ValueError), whatever the fuel.  [callf_ok_n]: the same for calls of user functions; [exec_sound] for statements;
    [run_sound] for programs. *)
From Coq Require Import ZArith List Bool Lia.
From ErgV Require Import gen.Sigs CoreErg.Syntax CoreErg.Sem Typing.Types Typing.Check Typing.Eval Typing.ProofsTypes
     Typing.ProofsOps Typing.ProofsBasic.
Import ListNotations.
Open Scope Z_scope.

(** ** the restricted table only removes typings: what is typed with [strict = true] has the same type without *)
Lemma binop_res_lax : forall o a b t, binop_res true o a b = Some t -> binop_res false o a b = Some t.
Proof.
  intros o a b t H. unfold binop_res in *.
  destruct (is_scalar a && is_scalar b && pow_ok true o a b) eqn:E; try discriminate.
  apply andb_true_iff in E. destruct E as [E _]. rewrite E. exact H.
Qed.

Lemma bin_ty_lax : forall op ta tb t, bin_ty true op ta tb = Some t -> bin_ty false op ta tb = Some t.
Proof.
  intros op ta tb t H. unfold bin_ty in *.
  assert (Hg : match class_of ta, class_of tb with
               | Some ca, Some cb => binop_res true (arith_code op) ca cb | _, _ => None end = Some t ->
               match class_of ta, class_of tb with
               | Some ca, Some cb => binop_res false (arith_code op) ca cb | _, _ => None end = Some t).
  { destruct (class_of ta); auto. destruct (class_of tb); auto. apply binop_res_lax. }
  destruct ta; auto; destruct tb; auto.
Qed.

Lemma infer_lax : forall FS G e t, infer true FS G e = Some t -> infer false FS G e = Some t.
Proof.
  intros FS G. induction e using tm_ind'; intros t Hi.
  - exact Hi.
  - exact Hi.
  - cbn [infer] in *. destruct (infer true FS G e) as [ta|] eqn:Ea; try discriminate. rewrite (IHe _ eq_refl). exact Hi.
  - cbn [infer] in *. destruct (infer true FS G e1) as [ta|] eqn:Ea; try discriminate.
    destruct (infer true FS G e2) as [tb|] eqn:Eb; try discriminate.
    rewrite (IHe1 _ eq_refl), (IHe2 _ eq_refl). apply bin_ty_lax. exact Hi.
  - cbn [infer] in *. destruct (infer true FS G e1) as [ta|] eqn:Ea; try discriminate.
    destruct (infer true FS G e2) as [tb|] eqn:Eb; try discriminate.
    rewrite (IHe1 _ eq_refl), (IHe2 _ eq_refl). exact Hi.
  - cbn [infer] in *. destruct (infer true FS G e1) as [ta|] eqn:Ea; try discriminate.
    destruct (infer true FS G e2) as [tb|] eqn:Eb; try discriminate.
    rewrite (IHe1 _ eq_refl), (IHe2 _ eq_refl). exact Hi.
  - rewrite infer_XList in *.
    assert (Hl : forall ts, infers true FS G es = Some ts -> infers false FS G es = Some ts).
    { clear Hi. induction H as [|x r Hx Hr IH]; intros ts Hs; cbn [infers] in *; auto.
      destruct (infer true FS G x) as [tx|] eqn:Ex; try discriminate.
      destruct (infers true FS G r) as [tr|] eqn:Er; try discriminate.
      rewrite (Hx _ eq_refl), (IH _ eq_refl). exact Hs. }
    destruct (infers true FS G es) as [ts|] eqn:Es; try discriminate. rewrite (Hl _ eq_refl). exact Hi.
  - cbn [infer] in *. destruct (infer true FS G e1) as [ta|] eqn:Ea; try discriminate.
    destruct (infer true FS G e2) as [tb|] eqn:Eb; try discriminate.
    rewrite (IHe1 _ eq_refl), (IHe2 _ eq_refl). exact Hi.
  - cbn [infer] in *. destruct (infer true FS G e1) as [tc|] eqn:Ec; try discriminate.
    destruct (infer true FS G e2) as [ta|] eqn:Ea; try discriminate.
    destruct (infer true FS G e3) as [tb|] eqn:Eb; try discriminate.
    rewrite (IHe1 _ eq_refl), (IHe2 _ eq_refl), (IHe3 _ eq_refl). exact Hi.
  - rewrite infer_XCall in *.
    assert (Hl : forall ts, infers true FS G args = Some ts -> infers false FS G args = Some ts).
    { clear Hi. induction H as [|x r Hx Hr IH]; intros ts Hs; cbn [infers] in *; auto.
      destruct (infer true FS G x) as [tx|] eqn:Ex; try discriminate.
      destruct (infers true FS G r) as [tr|] eqn:Er; try discriminate.
      rewrite (Hx _ eq_refl), (IH _ eq_refl). exact Hs. }
    destruct (infers true FS G args) as [ts|] eqn:Es; try discriminate. rewrite (Hl _ eq_refl). exact Hi.
  - rewrite infer_XMeth in *.
    assert (Hl : forall ts, infers true FS G args = Some ts -> infers false FS G args = Some ts).
    { clear Hi. induction H as [|x r Hx Hr IH]; intros ts Hs; cbn [infers] in *; auto.
      destruct (infer true FS G x) as [tx|] eqn:Ex; try discriminate.
      destruct (infers true FS G r) as [tr|] eqn:Er; try discriminate.
      rewrite (Hx _ eq_refl), (IH _ eq_refl). exact Hs. }
    destruct (infer true FS G e) as [tr|] eqn:Er; try discriminate.
    destruct (infers true FS G args) as [ts|] eqn:Es; try discriminate.
    rewrite (IHe _ eq_refl), (Hl _ eq_refl). exact Hi.
Qed.

Lemma check_defaults_lax : forall FS G ps, check_defaults true FS G ps = true -> check_defaults false FS G ps = true.
Proof.
  induction ps as [|[[x t] [d|]] r IH]; intros H; cbn [check_defaults] in *; auto.
  destruct (infer true FS G d) as [td|] eqn:E; try discriminate. rewrite (infer_lax _ _ _ _ E).
  apply andb_true_iff in H. destruct H as [H1 H2]. rewrite H1, (IH H2). reflexivity.
Qed.

Lemma check_locals_lax : forall FS ls G Gb, check_locals true FS G ls = Some Gb -> check_locals false FS G ls = Some Gb.
Proof.
  induction ls as [|[x e] r IH]; intros G Gb H; cbn [check_locals] in *; auto.
  destruct (infer true FS G e) as [t|] eqn:E; try discriminate. rewrite (infer_lax _ _ _ _ E). auto.
Qed.

Lemma fun_ret_lax : forall FS G ps ret locals res r,
  fun_ret true FS G ps ret locals res = Some r -> fun_ret false FS G ps ret locals res = Some r.
Proof.
  intros FS G ps ret locals res r H. unfold fun_ret in *.
  destruct (check_defaults true FS G ps) eqn:Ed; try discriminate. rewrite (check_defaults_lax _ _ _ Ed).
  destruct (check_locals true FS (param_tys ps ++ G) locals) as [Gb|] eqn:El; try discriminate.
  rewrite (check_locals_lax _ _ _ _ El).
  destruct (infer true FS Gb res) as [tr|] eqn:Er; try discriminate. rewrite (infer_lax _ _ _ _ Er). exact H.
Qed.

(** ** environments *)
Definition env_ok (G : tenv) (en : env) : Prop :=
  forall x t, lookup_t x G = Some t -> exists v, lookup x en = Some v /\ has_ty v t = true.

Lemma env_ok_nil : env_ok [] [].
Proof. intros x t H. discriminate. Qed.

Lemma env_ok_cons : forall G en x t v, env_ok G en -> has_ty v t = true -> env_ok ((x, t) :: G) ((x, v) :: en).
Proof.
  intros G en x t v H Hv y ty Hy. cbn [lookup_t lookup] in *.
  destruct (y =? x); [inversion Hy; subst; eauto|auto].
Qed.

(* lists aligned key by key *)
Inductive aligned : tenv -> env -> Prop :=
| al_nil : aligned [] []
| al_cons : forall x t v G en, has_ty v t = true -> aligned G en -> aligned ((x, t) :: G) ((x, v) :: en).

Lemma env_ok_app : forall G1 e1 G2 e2, aligned G1 e1 -> env_ok G2 e2 -> env_ok (G1 ++ G2) (e1 ++ e2).
Proof.
  intros G1 e1 G2 e2 Ha H2. induction Ha as [|x t v G en Hv Ha IH]; [exact H2|].
  cbn [app]. apply env_ok_cons; auto.
Qed.

(** ** results *)
Lemma res_ok_sub : forall r a b, res_ok r a -> sub a b = true -> res_ok r b.
Proof. intros [v|e|] a b H Hs; cbn in *; auto. eapply sub_sound; eauto. Qed.

Definition vals_ok (r : rs (list value)) (ts : list ety) : Prop :=
  match r with
  | R_ok vs => Forall2 (fun v t => has_ty v t = true) vs ts
  | R_err e => type_error e = false /\ e <> EStatic
  | R_fuel => True
  end.

(* a result followed by the wrapper of its own static type *)
Lemma wrap_res : forall (r : rs value) t, res_ok r t -> res_ok (rbind r (wrapv (Some t))) t.
Proof. intros [v|e|] t H; cbn [rbind]; auto. cbn in H. rewrite wrap_ok; auto. Qed.

Definition callf_ok (FS : fenv_t) (callf : Z -> list value -> rs value) : Prop :=
  forall f ps ret vs ts, lookup_t f FS = Some (ps, ret) -> check_args ps ts = true ->
    Forall2 (fun v t => has_ty v t = true) vs ts -> res_ok (callf f vs) ret.

Lemma join_all_sound : forall ts t tj v, join_all t ts = Some tj ->
  (has_ty v t = true \/ exists t', In t' ts /\ has_ty v t' = true) -> has_ty v tj = true.
Proof.
  induction ts as [|x r IH]; intros t tj v H Hv; cbn [join_all] in H.
  - inversion H; subst. destruct Hv as [Hv|[t' [[] _]]]. exact Hv.
  - destruct (join_ty t x) as [t1|] eqn:J; try discriminate.
    apply (IH _ _ _ H). destruct Hv as [Hv|[t' [[->|Hin] Hv]]].
    + left. eapply join_sound_l; eauto.
    + left. eapply join_sound_r; eauto.
    + right. eauto.
Qed.

Section EvalSound.
  Variable callf : Z -> list value -> rs value.
  Variable FS : fenv_t.
  Hypothesis Hcall : callf_ok FS callf.

  Definition tm_sound (e : tm) : Prop :=
    forall G en t, env_ok G en -> infer true FS G e = Some t -> res_ok (eval callf FS G en e) t.

  Lemma evals_sound : forall es, Forall tm_sound es ->
    forall G en ts, env_ok G en -> infers true FS G es = Some ts -> vals_ok (evals callf FS G en es) ts.
  Proof.
    induction 1 as [|x r Hx Hr IH]; intros G en ts He Hi; cbn [infers] in Hi.
    - inversion Hi; subst. cbn. constructor.
    - destruct (infer true FS G x) as [t|] eqn:Ex; try discriminate.
      destruct (infers true FS G r) as [tr|] eqn:Er; try discriminate. inversion Hi; subst.
      cbn [evals]. pose proof (Hx G en t He Ex) as H1.
      destruct (eval callf FS G en x) as [v|e|]; cbn [rbind vals_ok]; auto.
      pose proof (IH G en tr He Er) as H2.
      destruct (evals callf FS G en r) as [vs|e|]; cbn [rbind vals_ok]; auto.
  Qed.

  Lemma evals_length : forall G en es vs, evals callf FS G en es = R_ok vs -> length vs = length es.
  Proof.
    induction es as [|x r IH]; intros vs H; cbn [evals] in H.
    - inversion H; reflexivity.
    - destruct (eval callf FS G en x); cbn [rbind] in H; try discriminate.
      destruct (evals callf FS G en r) as [vr| |]; cbn [rbind] in H; try discriminate.
      inversion H; subst. cbn. f_equal. auto.
  Qed.

  Lemma eval_sound : forall e, tm_sound e.
  Proof.
    induction e using tm_ind'; intros G en t He Hi.
    - (* literal *) cbn in Hi. inversion Hi; subst. cbn [eval res_ok]. apply has_ty_lit.
    - (* variable *) cbn [infer] in Hi. destruct (He _ _ Hi) as [v [Hl Hv]]. cbn [eval]. rewrite Hl. exact Hv.
    - (* unary *)
      cbn [eval]. rewrite (infer_lax _ _ _ _ Hi). cbn [infer] in Hi.
      destruct (infer true FS G e) as [ta|] eqn:Ea; try discriminate.
      pose proof (IHe G en ta He Ea) as H1.
      destruct (eval callf FS G en e) as [va|er|]; cbn [rbind res_ok]; auto.
      apply wrap_res. eapply un_sound; eauto.
    - (* binary *)
      cbn [eval]. rewrite (infer_lax _ _ _ _ Hi). cbn [infer] in Hi.
      destruct (infer true FS G e1) as [ta|] eqn:Ea; try discriminate.
      destruct (infer true FS G e2) as [tb|] eqn:Eb; try discriminate.
      pose proof (IHe1 G en ta He Ea) as H1.
      destruct (eval callf FS G en e1) as [va|er|]; cbn [rbind res_ok]; auto.
      pose proof (IHe2 G en tb He Eb) as H2.
      destruct (eval callf FS G en e2) as [vb|er|]; cbn [rbind res_ok]; auto.
      apply wrap_res. eapply bin_sound; eauto.
    - (* comparison *)
      cbn [eval]. cbn [infer] in Hi.
      destruct (infer true FS G e1) as [ta|] eqn:Ea; try discriminate.
      destruct (infer true FS G e2) as [tb|] eqn:Eb; try discriminate.
      pose proof (IHe1 G en ta He Ea) as H1.
      destruct (eval callf FS G en e1) as [va|er|]; cbn [rbind res_ok]; auto.
      pose proof (IHe2 G en tb He Eb) as H2.
      destruct (eval callf FS G en e2) as [vb|er|]; cbn [rbind res_ok]; auto.
      eapply cmp_sound; eauto.
    - (* and / or *)
      cbn [eval]. cbn [infer] in Hi.
      destruct (infer true FS G e1) as [ta|] eqn:Ea; try discriminate.
      destruct (infer true FS G e2) as [tb|] eqn:Eb; try discriminate.
      destruct (sub ta T_Bool && sub tb T_Bool) eqn:Es; try discriminate. inversion Hi; subst.
      apply andb_true_iff in Es. destruct Es as [S1 S2].
      pose proof (res_ok_sub _ _ _ (IHe1 G en ta He Ea) S1) as H1.
      pose proof (res_ok_sub _ _ _ (IHe2 G en tb He Eb) S2) as H2.
      destruct (eval callf FS G en e1) as [va|er|]; cbn [rbind]; auto.
      destruct k; destruct (truthy va); auto.
    - (* list literal *)
      rewrite eval_XList. rewrite infer_XList in Hi.
      destruct (infers true FS G es) as [ts|] eqn:Ei; try discriminate.
      destruct ts as [|t0 ts]; try discriminate.
      destruct (join_all t0 ts) as [tj|] eqn:J; try discriminate. inversion Hi; subst.
      pose proof (evals_sound es H G en _ He Ei) as Hv.
      destruct (evals callf FS G en es) as [vs|er|] eqn:Ev; cbn [rbind res_ok vals_ok] in *; auto.
      cbn [has_ty]. apply andb_true_iff. split.
      + apply forallb_forall. intros v Hin.
        assert (Hx : exists t', In t' (t0 :: ts) /\ has_ty v t' = true).
        { clear - Hv Hin. induction Hv as [|v' t' vs' ts' Hvt Hrest IH]; [destruct Hin|].
          destruct Hin as [->|Hin]; [exists t'; split; [left; auto|auto]|].
          destruct (IH Hin) as [t'' [Hi' Hv']]. exists t''. split; [right; auto|auto]. }
        destruct Hx as [t' [[->|Hin'] Hv']]; eapply join_all_sound; eauto.
      + cbn [len_ok]. apply Z.eqb_eq. rewrite (evals_length _ _ _ _ Ev). reflexivity.
    - (* index *)
      cbn [eval]. cbn [infer] in Hi.
      destruct (infer true FS G e1) as [ta|] eqn:Ea; try discriminate.
      destruct (infer true FS G e2) as [ti|] eqn:Eb; try discriminate.
      pose proof (IHe1 G en ta He Ea) as H1.
      destruct (eval callf FS G en e1) as [va|er|]; cbn [rbind res_ok]; auto.
      assert (Hk : exists k, e2 = XLit (LNat k)).
      { unfold index_ty in Hi. destruct e2; try discriminate. destruct l; try discriminate. eauto. }
      destruct Hk as [k ->]. cbn [eval rbind lit_value].
      eapply index_sound; eauto.
    - (* if *)
      cbn [eval]. cbn [infer] in Hi.
      destruct (infer true FS G e1) as [tc|] eqn:Ec; try discriminate.
      destruct (infer true FS G e2) as [ta|] eqn:Ea; try discriminate.
      destruct (infer true FS G e3) as [tb|] eqn:Eb; try discriminate.
      destruct (sub tc T_Bool); try discriminate.
      pose proof (IHe1 G en tc He Ec) as H1.
      destruct (eval callf FS G en e1) as [vc|er|]; cbn [rbind res_ok]; auto.
      destruct (truthy vc).
      + pose proof (IHe2 G en ta He Ea) as H2.
        destruct (eval callf FS G en e2) as [v|er|]; cbn [res_ok] in *; auto. eapply join_sound_l; eauto.
      + pose proof (IHe3 G en tb He Eb) as H3.
        destruct (eval callf FS G en e3) as [v|er|]; cbn [res_ok] in *; auto. eapply join_sound_r; eauto.
    - (* call *)
      rewrite eval_XCall. rewrite (infer_lax _ _ _ _ Hi). rewrite infer_XCall in Hi.
      destruct (infers true FS G args) as [ts|] eqn:Ei; try discriminate.
      destruct (lookup_t f FS) as [[ps ret]|] eqn:Ef; try discriminate.
      destruct (check_args ps ts) eqn:Ec; try discriminate. inversion Hi; subst.
      pose proof (evals_sound args H G en _ He Ei) as Hv.
      destruct (evals callf FS G en args) as [vs|er|]; cbn [rbind res_ok vals_ok] in *; auto.
      apply wrap_res. eapply Hcall; eauto.
    - (* method *)
      rewrite eval_XMeth. rewrite (infer_lax _ _ _ _ Hi). rewrite infer_XMeth in Hi.
      destruct (infer true FS G e) as [tr|] eqn:Er; try discriminate.
      destruct (infers true FS G args) as [ts|] eqn:Ei; try discriminate.
      pose proof (IHe G en tr He Er) as H1.
      destruct (eval callf FS G en e) as [vr|er|]; cbn [rbind res_ok]; auto.
      pose proof (evals_sound args H G en _ He Ei) as Hv.
      destruct (evals callf FS G en args) as [vs|er|]; cbn [rbind res_ok vals_ok] in *; auto.
      apply wrap_res. eapply meth_sound; eauto.
  Qed.

  Lemma locals_sound : forall ls G en Gb, env_ok G en -> check_locals true FS G ls = Some Gb ->
    match run_locals callf FS G en ls with
    | R_ok (G', en') => G' = Gb /\ env_ok Gb en'
    | R_err e => type_error e = false /\ e <> EStatic
    | R_fuel => True
    end.
  Proof.
    induction ls as [|[x e] r IH]; intros G en Gb He Hc; cbn [check_locals run_locals] in *.
    - inversion Hc; subst. auto.
    - destruct (infer true FS G e) as [t|] eqn:Ei; try discriminate. rewrite (infer_lax _ _ _ _ Ei).
      pose proof (eval_sound e G en t He Ei) as H1.
      destruct (eval callf FS G en e) as [v|er|]; cbn [rbind res_ok] in *; auto.
      apply IH; auto. apply env_ok_cons; auto.
  Qed.
End EvalSound.

(** ** user functions *)
Definition fdef_ok (FS : fenv_t) (d : fdef) : Prop :=
  env_ok (fd_tenv d) (fd_env d) /\
  (forall x t v, In (x, t, Some v) (fd_ps d) -> has_ty v t = true) /\
  exists Gb tr, check_locals true FS (vparam_tys (fd_ps d) ++ fd_tenv d) (fd_locals d) = Some Gb /\
                infer true FS Gb (fd_res d) = Some tr /\ (tr = fd_ret d \/ sub tr (fd_ret d) = true).

Fixpoint F_ok (F : fenv) : Prop :=
  match F with
  | [] => True
  | (f, d) :: r => fdef_ok (sigs r) d /\ F_ok r
  end.

Lemma lookup_split_sigs : forall F f sg, lookup_t f (sigs F) = Some sg -> F_ok F ->
  exists d Fr, lookup_split f F = Some (d, Fr) /\ sg = sig_of d /\ fdef_ok (sigs Fr) d /\ F_ok Fr.
Proof.
  induction F as [|[g d] r IH]; intros f sg Hl HF; cbn [sigs map lookup_t lookup_split fst snd] in *; try discriminate.
  destruct HF as [Hd Hr].
  destruct (f =? g).
  - inversion Hl; subst. exists d, r. auto.
  - apply IH; auto.
Qed.

Lemma bind_args_ok : forall ps vs ts,
  check_args (map (fun p : Z * ety * option value => (snd (fst p), is_some (snd p))) ps) ts = true ->
  Forall2 (fun v t => has_ty v t = true) vs ts ->
  (forall x t v, In (x, t, Some v) ps -> has_ty v t = true) ->
  exists penv, bind_args ps vs = Some penv /\ aligned (vparam_tys ps) penv.
Proof.
  induction ps as [|[[x t] dv] pr IH]; intros vs ts Hc Hv Hd.
  - cbn in Hc. destruct ts; try discriminate. inversion Hv; subst. exists []. split; [reflexivity|constructor].
  - cbn [map check_args fst snd] in Hc. destruct ts as [|t0 tr].
    + inversion Hv; subst. apply andb_true_iff in Hc. destruct Hc as [Hs Hc].
      destruct dv as [d|]; try discriminate.
      destruct (IH [] [] Hc (Forall2_nil _)) as [penv [Hb Ha]]; [intros; eapply Hd; right; eauto|].
      exists ((x, d) :: penv). cbn [bind_args]. rewrite Hb. split; [reflexivity|].
      cbn [vparam_tys map fst snd]. constructor; auto. eapply Hd. left. reflexivity.
    + inversion Hv as [|v ? vr ? Hvt Hrest]; subst. apply andb_true_iff in Hc. destruct Hc as [Hs Hc].
      destruct (IH vr tr Hc Hrest) as [penv [Hb Ha]]; [intros; eapply Hd; right; eauto|].
      exists ((x, v) :: penv). cbn [bind_args]. rewrite Hb. split; [destruct dv; reflexivity|].
      cbn [vparam_tys map fst snd]. constructor; auto. eapply sub_sound; eauto.
Qed.

Lemma callf_ok_n : forall n F, F_ok F -> callf_ok (sigs F) (callf_n n F).
Proof.
  induction n as [|n IH]; intros F HF f ps ret vs ts Hl Hc Hv; [exact I|].
  cbn [callf_n].
  destruct (lookup_split_sigs F f _ Hl HF) as [d [Fr [Hs [Hsig [Hd HFr]]]]]. rewrite Hs.
  unfold sig_of in Hsig. inversion Hsig; subst ps ret. clear Hsig.
  destruct Hd as [Henv [Hdef [Gb [tr [Hloc [Hres Hret]]]]]].
  destruct (bind_args_ok _ _ _ Hc Hv Hdef) as [penv [Hb Ha]]. rewrite Hb.
  pose proof (IH Fr HFr) as Hcall.
  pose proof (locals_sound _ _ Hcall (fd_locals d) _ (penv ++ fd_env d) Gb (env_ok_app _ _ _ _ Ha Henv) Hloc) as HL.
  destruct (run_locals (callf_n n Fr) (sigs Fr) (vparam_tys (fd_ps d) ++ fd_tenv d) (penv ++ fd_env d) (fd_locals d))
    as [[G' en']|er|]; cbn [rbind res_ok fst snd]; auto.
  destruct HL as [-> He'].
  pose proof (eval_sound _ _ Hcall (fd_res d) Gb en' tr He' Hres) as HR.
  destruct Hret as [<-|Hsub]; auto. eapply res_ok_sub; eauto.
Qed.

(** ** statements *)
Definition st_ok (s : state) : Prop := F_ok (s_F s) /\ env_ok (s_G s) (s_en s).

Definition sres_ok (c' : cenv) (r : sres) : Prop :=
  match r with
  | S_ok s' => st_ok s' /\ (sigs (s_F s'), s_G s') = c'
  | S_err e _ => type_error e = false /\ e <> EStatic
  | S_fuel _ => True
  end.

Section ExecSound.
  Variable fuel : nat.

  Lemma ev_sound : forall s e t, st_ok s -> infer true (sigs (s_F s)) (s_G s) e = Some t -> res_ok (ev fuel s e) t.
  Proof.
    intros s e t [HF He] Hi. unfold ev. eapply eval_sound; eauto. apply callf_ok_n; auto.
  Qed.

  Lemma evs_sound : forall s es ts, st_ok s -> infers true (sigs (s_F s)) (s_G s) es = Some ts -> vals_ok (evs fuel s es) ts.
  Proof.
    intros s es ts [HF He] Hi. unfold evs.
    apply (evals_sound (callf_n fuel (s_F s)) (sigs (s_F s)) es); auto.
    apply Forall_forall. intros x _. apply eval_sound. apply callf_ok_n; auto.
  Qed.

  Lemma defaults_sound : forall s ps, st_ok s -> check_defaults true (sigs (s_F s)) (s_G s) ps = true ->
    match eval_defaults fuel s ps with
    | R_ok ds => vparam_tys ds = param_tys ps /\
                 map (fun p : Z * ety * option value => (snd (fst p), is_some (snd p))) ds = param_sig ps /\
                 (forall x t v, In (x, t, Some v) ds -> has_ty v t = true)
    | R_err e => type_error e = false /\ e <> EStatic
    | R_fuel => True
    end.
  Proof.
    intros s ps Hs. induction ps as [|[[x t] [d|]] r IH]; intros Hc; cbn [check_defaults eval_defaults] in *.
    - repeat split. intros ? ? ? [].
    - destruct (infer true (sigs (s_F s)) (s_G s) d) as [td|] eqn:Ed; try discriminate.
      apply andb_true_iff in Hc. destruct Hc as [Hsub Hc].
      pose proof (ev_sound s d td Hs Ed) as H1.
      destruct (ev fuel s d) as [v|e|]; cbn [rbind res_ok] in *; auto.
      specialize (IH Hc). destruct (eval_defaults fuel s r) as [ds|e|]; cbn [rbind]; auto.
      destruct IH as [I1 [I2 I3]]. repeat split.
      + cbn [vparam_tys param_tys map fst snd]. f_equal. exact I1.
      + cbn [param_sig map fst snd is_some]. f_equal. exact I2.
      + intros y ty w [Heq|Hin]; [inversion Heq; subst; eapply sub_sound; eauto|eauto].
    - specialize (IH Hc). destruct (eval_defaults fuel s r) as [ds|e|]; cbn [rbind]; auto.
      destruct IH as [I1 [I2 I3]]. repeat split.
      + cbn [vparam_tys param_tys map fst snd]. f_equal. exact I1.
      + cbn [param_sig map fst snd is_some]. f_equal. exact I2.
      + intros y ty w [Heq|Hin]; [inversion Heq|eauto].
  Qed.

  Definition st_sound (x : st) : Prop :=
    forall s c', st_ok s -> check_st true (sigs (s_F s), s_G s) x = Some c' -> sres_ok c' (exec fuel x s).

  (* a block: the final environment is the checker's *)
  Lemma block_sound : forall ss, Forall st_sound ss ->
    forall s c', st_ok s -> check_block true (sigs (s_F s), s_G s) ss = Some c' -> sres_ok c' (exec_block fuel ss s).
  Proof.
    induction 1 as [|x r Hx Hr IH]; intros s c' Hs Hc; cbn [check_block exec_block] in *.
    - inversion Hc; subst. split; auto.
    - destruct (check_st true (sigs (s_F s), s_G s) x) as [c1|] eqn:E1; try discriminate.
      pose proof (Hx s c1 Hs E1) as H1.
      destruct (exec fuel x s) as [s1|e o|o]; cbn [sres_ok] in *; auto.
      destruct H1 as [Hs1 Hc1]. subst c1. apply IH; auto.
  Qed.

  (* a block in a scope of its own *)
  Lemma scoped_block_sound : forall ss s0 s, Forall st_sound ss -> st_ok s0 -> st_ok s ->
    is_some (check_block true (sigs (s_F s), s_G s) ss) = true ->
    match exec_block fuel ss s with
    | S_ok s' => st_ok (restore s0 s')
    | S_err e _ => type_error e = false /\ e <> EStatic
    | S_fuel _ => True
    end.
  Proof.
    intros ss s0 s Hss H0 Hs Hc.
    destruct (check_block true (sigs (s_F s), s_G s) ss) as [c1|] eqn:E; try discriminate.
    pose proof (block_sound ss Hss s c1 Hs E) as H1.
    destruct (exec_block fuel ss s) as [s1|e o|o]; cbn [sres_ok] in *; auto.
  Qed.

  Lemma exec_sound : forall x, st_sound x.
  Proof.
    induction x using st_ind'; intros s c' Hs Hc.
    - (* definition *)
      cbn [check_st fst snd] in Hc. cbn [exec].
      destruct (infer true (sigs (s_F s)) (s_G s) e) as [t|] eqn:Ei; try discriminate. rewrite (infer_lax _ _ _ _ Ei).
      destruct (match ann with Some a => sub t a | None => true end); try discriminate. inversion Hc; subst.
      pose proof (ev_sound s e t Hs Ei) as H1.
      destruct (ev fuel s e) as [v|er|]; cbn [with_val sres_ok res_ok] in *; auto.
      destruct Hs as [HF He]. split; [split|]; cbn; auto. apply env_ok_cons; auto.
    - (* print *)
      cbn [check_st fst snd] in Hc. cbn [exec].
      destruct (infers true (sigs (s_F s)) (s_G s) es) as [ts|] eqn:Ei; try discriminate. inversion Hc; subst.
      pose proof (evs_sound s es ts Hs Ei) as H1.
      destruct (evs fuel s es) as [vs|er|]; cbn [sres_ok vals_ok] in *; auto.
    - (* assert *)
      cbn [check_st fst snd] in Hc. cbn [exec].
      destruct (infer true (sigs (s_F s)) (s_G s) e) as [t|] eqn:Ei; try discriminate.
      destruct (sub t T_Bool); try discriminate. inversion Hc; subst.
      pose proof (ev_sound s e t Hs Ei) as H1.
      destruct (ev fuel s e) as [v|er|]; cbn [with_val sres_ok res_ok] in *; auto.
      destruct (truthy v); cbn; auto. split; auto; discriminate.
    - (* function definition *)
      cbn [check_st fst snd] in Hc. cbn [exec].
      destruct (fun_ret true (sigs (s_F s)) (s_G s) ps ret locals res) as [r|] eqn:Er; try discriminate.
      rewrite (fun_ret_lax _ _ _ _ _ _ _ Er). inversion Hc; subst. clear Hc.
      unfold fun_ret in Er.
      destruct (check_defaults true (sigs (s_F s)) (s_G s) ps) eqn:Ed; try discriminate.
      destruct (check_locals true (sigs (s_F s)) (param_tys ps ++ s_G s) locals) as [Gb|] eqn:El; try discriminate.
      destruct (infer true (sigs (s_F s)) Gb res) as [tr|] eqn:Et; try discriminate.
      pose proof (defaults_sound s ps Hs Ed) as HD.
      destruct (eval_defaults fuel s ps) as [ds|er|]; cbn [sres_ok]; auto.
      destruct HD as [D1 [D2 D3]]. destruct Hs as [HF He].
      split; [split|].
      + cbn [s_F F_ok]. split; auto. split; [exact He|]. split; [exact D3|].
        exists Gb, tr. cbn [fd_ps fd_tenv fd_locals fd_res fd_ret]. rewrite D1. split; auto. split; auto.
        destruct ret as [r0|]; [destruct (sub tr r0) eqn:Es; try discriminate; inversion Er; subst; auto|inversion Er; auto].
      + exact He.
      + cbn [s_F s_G]. change (sigs ((f, mkF ds r locals res (s_en s) (s_G s)) :: s_F s))
          with ((f, sig_of (mkF ds r locals res (s_en s) (s_G s))) :: sigs (s_F s)).
        unfold sig_of. cbn [fd_ps fd_ret]. rewrite D2. reflexivity.
    - (* if! *)
      rewrite check_st_TIf in Hc. cbn [fst snd] in Hc. rewrite exec_TIf.
      destruct (infer true (sigs (s_F s)) (s_G s) c) as [tc|] eqn:Ei; try discriminate.
      destruct (sub tc T_Bool && is_some (check_block true (sigs (s_F s), s_G s) th)
                && is_some (check_block true (sigs (s_F s), s_G s) el)) eqn:Eb; try discriminate.
      inversion Hc; subst. apply andb_true_iff in Eb. destruct Eb as [Eb B2]. apply andb_true_iff in Eb. destruct Eb as [_ B1].
      pose proof (ev_sound s c tc Hs Ei) as H1.
      destruct (ev fuel s c) as [v|er|]; cbn [with_val sres_ok res_ok] in *; auto.
      destruct (truthy v).
      + pose proof (scoped_block_sound th s s H Hs Hs B1) as HB.
        destruct (exec_block fuel th s); cbn [sres_ok]; auto.
      + pose proof (scoped_block_sound el s s H0 Hs Hs B2) as HB.
        destruct (exec_block fuel el s); cbn [sres_ok]; auto.
    - (* for! *)
      rewrite check_st_TFor in Hc. cbn [fst snd] in Hc. rewrite exec_TFor.
      destruct (infer true (sigs (s_F s)) (s_G s) it) as [ti|] eqn:Ei; try discriminate.
      destruct ti as [| | | | | | | |t n]; try discriminate. rewrite (infer_lax _ _ _ _ Ei).
      destruct (is_some (check_block true (sigs (s_F s), (x, t) :: s_G s) body)) eqn:Eb; try discriminate.
      inversion Hc; subst. clear Hc.
      pose proof (ev_sound s it _ Hs Ei) as H1.
      destruct (ev fuel s it) as [v|er|]; cbn [with_val sres_ok res_ok] in *; auto.
      cbn [has_ty] in H1. destruct v as [z|b0|fb|s0| |items|tl|c1 c2 c3 c4]; try discriminate.
      apply andb_true_iff in H1. destruct H1 as [Hall _]. rewrite forallb_forall in Hall.
      (* the loop keeps the state shape: generalise over the current state *)
      assert (Hloop : forall items s1, (forall i, In i items -> has_ty i t = true) -> st_ok s1 ->
                sigs (s_F s1) = sigs (s_F s) -> s_G s1 = s_G s ->
                sres_ok (sigs (s_F s), s_G s) (for_loop (exec_block fuel body) x t items s1)).
      { clear Hall items. induction items as [|i r IH]; intros s1 Hi Hs1 EF EG; cbn [for_loop].
        - split; auto. rewrite EF, EG. reflexivity.
        - set (s2 := mkSt (s_F s1) ((x, t) :: s_G s1) ((x, i) :: s_en s1) (s_out s1)).
          assert (Hs2 : st_ok s2).
          { destruct Hs1 as [HF1 He1]. split; cbn; auto. apply env_ok_cons; auto. apply Hi. left. reflexivity. }
          assert (Hc2 : is_some (check_block true (sigs (s_F s2), s_G s2) body) = true).
          { cbn [s2 s_F s_G]. rewrite EF, EG. exact Eb. }
          pose proof (scoped_block_sound body s1 s2 H Hs1 Hs2 Hc2) as HB.
          destruct (exec_block fuel body s2) as [s3|e o|o]; cbn [sres_ok]; auto.
          apply IH; auto. intros j Hj. apply Hi. right. auto. }
      apply Hloop; auto.
  Qed.

  Lemma exec_block_sound : forall ss s c', st_ok s -> check_block true (sigs (s_F s), s_G s) ss = Some c' ->
    sres_ok c' (exec_block fuel ss s).
  Proof. intros ss. apply block_sound. apply Forall_forall. intros x _. apply exec_sound. Qed.
End ExecSound.

Lemma init_ok : st_ok init_state.
Proof. split; cbn; auto. apply env_ok_nil. Qed.

(** ** programs *)
Lemma run_sound : forall fuel p,
  match snd (run_prog true fuel p) with
  | Uncaught e => type_error e = false /\ e <> EStatic
  | _ => True
  end.
Proof.
  intros fuel p. unfold run_prog, typecheck, check_prog.
  destruct (check_block true ([], []) p) as [c'|] eqn:Ec; cbn [is_some]; [|exact I].
  pose proof (exec_block_sound fuel p init_state c' init_ok Ec) as H.
  destruct (exec_block fuel p init_state); cbn [snd sres_ok] in *; auto.
Qed.

(* the final bindings have the types the checker assigned *)
Lemma run_state_sound : forall fuel p s FS G,
  check_prog true p = Some (FS, G) -> run_state true fuel p = Some s ->
  s_G s = G /\ sigs (s_F s) = FS /\ env_ok G (s_en s).
Proof.
  intros fuel p s FS G Hc Hr. unfold run_state, typecheck in Hr. rewrite Hc in Hr. cbn [is_some] in Hr.
  unfold check_prog in Hc.
  pose proof (exec_block_sound fuel p init_state _ init_ok Hc) as H.
  destruct (exec_block fuel p init_state) as [s'| |]; try discriminate. inversion Hr; subst.
  cbn [sres_ok] in H. destruct H as [[HF He] Heq]. inversion Heq; subst. auto.
Qed.

(* the two acceptance gates run the same program the same way *)
Lemma run_prog_gate : forall fuel p, typecheck false p = true -> typecheck true p = true ->
  run_prog false fuel p = run_prog true fuel p.
Proof. intros fuel p H1 H2. unfold run_prog. rewrite H1, H2. reflexivity. Qed.
