(** * Typing.Eval — run-time semantics of the checked fragment.

    Values and the behaviour of every operator are those of CoreErg/Sem.v ([value], [un_op], [bin_op], [cmp_op],
    [index_op], [len_op], [abs_op], [truthy], [print_line]: the Python-semantics reading validated against erg and
    CPython by property C01).  On top of it this file models what erg adds at run time:
      - the *wrapper*: codegen.rs (emit_expr / should_wrap) calls the class of the static type on the result of every
        operator, method and call expression; of those classes only Nat can fail: `Nat(v)` raises
        "ValueError: Nat can't be negative" ([EWrapValue]).  The static type is the checker's ([infer] with the
        operator table as declared, strict = false), looked up at the node, exactly as the real code generator
        consumes the real checker's annotation; [strict] only decides which programs are accepted ([run_prog]);
      - builtin methods on plain values (a missing method is AttributeError);
      - user functions: a definition captures the environment of its definition point; defaults are evaluated at
        definition time; a call binds positional arguments then defaults (arity mismatch: TypeError);
        the function table is a list, a function sees the functions defined before it ([lookup_split]), so the
        fuel (call depth) needed is at most the number of functions.
    A program the checker rejects is not executed ([Rejected]).
    No proofs here. *)
From Coq Require Import ZArith List Bool.
From ErgV Require Import CoreErg.Syntax CoreErg.Sem Typing.Types Typing.Check.
Import ListNotations.
Open Scope Z_scope.

Inductive err := EZeroDiv | EAssert | EIndex | EType | EAttr | EName | EWrapValue | EOverflow | EUnmodelled | EStatic.

(* the four classes property C02 excludes *)
Definition type_error (e : err) : bool :=
  match e with EType | EAttr | EName | EWrapValue => true | _ => false end.

Definition of_exn (e : exn) : err :=
  match e with
  | ZeroDivisionError => EZeroDiv | AssertionError => EAssert | IndexError => EIndex | TypeError => EType
  | ValueError => EWrapValue | OverflowError => EOverflow | NameError => EName | Unmodelled => EUnmodelled
  end.

Inductive rs (A : Type) : Type :=
| R_ok (a : A)
| R_err (e : err)
| R_fuel.
Arguments R_ok {A} a.
Arguments R_err {A} e.
Arguments R_fuel {A}.

Definition lift {A} (r : res A) : rs A :=
  match r with Ok a => R_ok a | Raise e => R_err (of_exn e) | OutOfFuel => R_fuel end.

Definition rbind {A B} (r : rs A) (f : A -> rs B) : rs B :=
  match r with R_ok a => f a | R_err e => R_err e | R_fuel => R_fuel end.

(** ** wrapper *)
Definition wrapv (t : option ety) (v : value) : rs value :=
  match t with
  | Some t' =>
    match class_of t' with
    | Some CNat => if has_ty v T_Nat then R_ok v else R_err EWrapValue
    | _ => R_ok v
    end
  | None => R_ok v
  end.

(** ** builtin methods *)
Fixpoint popc (p : positive) : Z :=
  match p with xH => 1 | xO q => popc q | xI q => 1 + popc q end.
Definition popcount (z : Z) : Z := match z with Z0 => 0 | Zpos p | Zneg p => popc p end.

Fixpoint sum_ints (l : list value) : option Z :=
  match l with
  | [] => Some 0
  | v :: r => match as_int v, sum_ints r with Some a, Some b => Some (a + b) | _, _ => None end
  end.

Definition int_method (vr : value) (args : list value) (f : Z -> Z) : rs value :=
  match as_int vr with
  | Some z => match args with [] => R_ok (VInt (f z)) | _ => R_err EType end
  | None => R_err EAttr
  end.

Definition meth_op (m : Z) (vr : value) (args : list value) : rs value :=
  match meth_kind m with
  | None => R_err EAttr
  | Some k =>
    match k with
    | KSucc => int_method vr args (fun z => z + 1)
    | KPred => int_method vr args (fun z => z - 1)
    | KBitCount => int_method vr args popcount
    | KAbs => int_method vr args Z.abs
    | KAbsF => match args with [] => lift (abs_op vr) | _ => R_err EType end
    | KLen => match args with [] => lift (len_op vr) | _ => R_err EType end
    | KPush =>
      match vr with
      | VList l => match args with [x] => R_ok (VList (l ++ [x])) | _ => R_err EType end
      | _ => R_err EAttr
      end
    | KSum =>
      match vr with
      | VList l => match args with
                   | [] => match sum_ints l with Some z => R_ok (VInt z) | None => R_err EType end
                   | _ => R_err EType
                   end
      | _ => R_err EAttr
      end
    end
  end.

(** ** functions *)
Record fdef := mkF {
  fd_ps : list (Z * ety * option value);     (* parameters: id, annotated type, default value *)
  fd_ret : ety;                              (* result type (annotated, else inferred) *)
  fd_locals : list (Z * tm);
  fd_res : tm;
  fd_env : env;                              (* captured values *)
  fd_tenv : tenv                             (* their static types (consumed by the wrapper) *)
}.
Definition fenv := list (Z * fdef).

Definition sig_of (d : fdef) : fsig :=
  (map (fun p => (snd (fst p), is_some (snd p))) (fd_ps d), fd_ret d).
Definition sigs (F : fenv) : fenv_t := map (fun fd => (fst fd, sig_of (snd fd))) F.

Fixpoint lookup_split (f : Z) (F : fenv) : option (fdef * fenv) :=
  match F with
  | [] => None
  | (g, d) :: r => if f =? g then Some (d, r) else lookup_split f r
  end.

Fixpoint bind_args (ps : list (Z * ety * option value)) (args : list value) : option env :=
  match ps, args with
  | [], [] => Some []
  | (x, _, _) :: pr, a :: ar => option_map (cons (x, a)) (bind_args pr ar)
  | (x, _, Some d) :: pr, [] => option_map (cons (x, d)) (bind_args pr [])
  | (_, _, None) :: _, [] => None
  | [], _ :: _ => None
  end.

Definition vparam_tys (ps : list (Z * ety * option value)) : tenv := map (fun p => (fst (fst p), snd (fst p))) ps.

Section Level.
  Variable callf : Z -> list value -> rs value.

  Fixpoint eval (FS : fenv_t) (G : tenv) (en : env) (e : tm) {struct e} : rs value :=
    let evals := fix evals (es : list tm) : rs (list value) :=
      match es with
      | [] => R_ok []
      | x :: r => rbind (eval FS G en x) (fun v => rbind (evals r) (fun vs => R_ok (v :: vs)))
      end in
    let w := wrapv (infer false FS G e) in
    match e with
    | XLit l => R_ok (lit_value l)
    | XVar x => match lookup x en with Some v => R_ok v | None => R_err EName end
    | XUn op a => rbind (eval FS G en a) (fun va => rbind (lift (un_op op va)) w)
    | XBin op a b =>
      rbind (eval FS G en a) (fun va => rbind (eval FS G en b) (fun vb => rbind (lift (bin_op op va vb)) w))
    | XCmp op a b =>
      rbind (eval FS G en a) (fun va => rbind (eval FS G en b) (fun vb => lift (cmp_op op va vb)))
    | XLogic is_or a b =>
      rbind (eval FS G en a) (fun va =>
        if is_or then (if truthy va then R_ok va else eval FS G en b)
        else (if truthy va then eval FS G en b else R_ok va))
    | XList es => rbind (evals es) (fun vs => R_ok (VList vs))
    | XIndex a i => rbind (eval FS G en a) (fun va => rbind (eval FS G en i) (fun vi => lift (index_op va vi)))
    | XIf c a b => rbind (eval FS G en c) (fun vc => if truthy vc then eval FS G en a else eval FS G en b)
    | XCall f args => rbind (evals args) (fun vs => rbind (callf f vs) w)
    | XMeth m r args =>
      rbind (eval FS G en r) (fun vr => rbind (evals args) (fun vs => rbind (meth_op m vr vs) w))
    end.

  Fixpoint evals (FS : fenv_t) (G : tenv) (en : env) (es : list tm) : rs (list value) :=
    match es with
    | [] => R_ok []
    | x :: r => rbind (eval FS G en x) (fun v => rbind (evals FS G en r) (fun vs => R_ok (v :: vs)))
    end.

  Fixpoint run_locals (FS : fenv_t) (G : tenv) (en : env) (ls : list (Z * tm)) : rs (tenv * env) :=
    match ls with
    | [] => R_ok (G, en)
    | (x, e) :: r =>
      match infer false FS G e with
      | None => R_err EStatic
      | Some t => rbind (eval FS G en e) (fun v => run_locals FS ((x, t) :: G) ((x, v) :: en) r)
      end
    end.
End Level.

(** calls: one fuel unit per nested call; the callee runs with the functions defined before it *)
Fixpoint callf_n (n : nat) (F : fenv) (f : Z) (args : list value) : rs value :=
  match n with
  | O => R_fuel
  | S n' =>
    match lookup_split f F with
    | None => R_err EName
    | Some (d, Frest) =>
      match bind_args (fd_ps d) args with
      | None => R_err EType
      | Some penv =>
        let FS := sigs Frest in
        let call := callf_n n' Frest in
        rbind (run_locals call FS (vparam_tys (fd_ps d) ++ fd_tenv d) (penv ++ fd_env d) (fd_locals d))
              (fun ge => eval call FS (fst ge) (snd ge) (fd_res d))
      end
    end
  end.

(** ** statements *)
Record state := mkSt { s_F : fenv; s_G : tenv; s_en : env; s_out : list (list Z) (* newest first *) }.

Inductive sres :=
| S_ok (s : state)
| S_err (e : err) (out : list (list Z))
| S_fuel (out : list (list Z)).

Definition with_val (s : state) (r : rs value) (k : value -> sres) : sres :=
  match r with R_ok v => k v | R_err e => S_err e (s_out s) | R_fuel => S_fuel (s_out s) end.

Definition restore (s s' : state) : state := mkSt (s_F s) (s_G s) (s_en s) (s_out s').

(* for!: the body runs in a scope of its own (bindings are dropped, output kept) *)
Fixpoint for_loop (run_body : state -> sres) (v : Z) (t : ety) (items : list value) (s : state) : sres :=
  match items with
  | [] => S_ok s
  | i :: r =>
    match run_body (mkSt (s_F s) ((v, t) :: s_G s) ((v, i) :: s_en s) (s_out s)) with
    | S_ok s' => for_loop run_body v t r (restore s s')
    | bad => bad
    end
  end.

Section Exec.
  Variable fuel : nat.

  Definition ev (s : state) (e : tm) : rs value :=
    eval (callf_n fuel (s_F s)) (sigs (s_F s)) (s_G s) (s_en s) e.
  Definition evs (s : state) (es : list tm) : rs (list value) :=
    evals (callf_n fuel (s_F s)) (sigs (s_F s)) (s_G s) (s_en s) es.

  Fixpoint eval_defaults (s : state) (ps : list (Z * ety * option tm)) : rs (list (Z * ety * option value)) :=
    match ps with
    | [] => R_ok []
    | (x, t, None) :: r => rbind (eval_defaults s r) (fun ds => R_ok ((x, t, None) :: ds))
    | (x, t, Some d) :: r => rbind (ev s d) (fun v => rbind (eval_defaults s r) (fun ds => R_ok ((x, t, Some v) :: ds)))
    end.

  Fixpoint exec (x : st) (s : state) {struct x} : sres :=
    let block := fix block (ss : list st) (s : state) : sres :=
      match ss with
      | [] => S_ok s
      | y :: r => match exec y s with S_ok s' => block r s' | bad => bad end
      end in
    match x with
    | TDef v _ e =>
      match infer false (sigs (s_F s)) (s_G s) e with
      | None => S_err EStatic (s_out s)
      | Some t => with_val s (ev s e) (fun val => S_ok (mkSt (s_F s) ((v, t) :: s_G s) ((v, val) :: s_en s) (s_out s)))
      end
    | TPrint es =>
      match evs s es with
      | R_ok vs => S_ok (mkSt (s_F s) (s_G s) (s_en s) (print_line vs :: s_out s))
      | R_err e => S_err e (s_out s)
      | R_fuel => S_fuel (s_out s)
      end
    | TAssert e => with_val s (ev s e) (fun v => if truthy v then S_ok s else S_err EAssert (s_out s))
    | TFun f _ ps ret locals res =>
      match fun_ret false (sigs (s_F s)) (s_G s) ps ret locals res with
      | None => S_err EStatic (s_out s)
      | Some r =>
        match eval_defaults s ps with
        | R_ok ds => S_ok (mkSt ((f, mkF ds r locals res (s_en s) (s_G s)) :: s_F s) (s_G s) (s_en s) (s_out s))
        | R_err e => S_err e (s_out s)
        | R_fuel => S_fuel (s_out s)
        end
      end
    | TIf c th el =>
      with_val s (ev s c) (fun v =>
        match (if truthy v then block th s else block el s) with
        | S_ok s' => S_ok (restore s s')
        | bad => bad
        end)
    | TFor v it body =>
      match infer false (sigs (s_F s)) (s_G s) it with
      | Some (T_List t _) =>
        with_val s (ev s it) (fun vit =>
          match vit with
          | VList items => for_loop (block body) v t items s
          | _ => S_err EType (s_out s)
          end)
      | _ => S_err EStatic (s_out s)
      end
    end.

  Fixpoint exec_block (ss : list st) (s : state) : sres :=
    match ss with
    | [] => S_ok s
    | y :: r => match exec y s with S_ok s' => exec_block r s' | bad => bad end
    end.
End Exec.

Inductive status := Exit0 | Uncaught (e : err) | FuelOut | Rejected.
Definition outcome := (list (list Z) * status)%type.

Definition init_state : state := mkSt [] [] [] [].

Definition run_prog (strict : bool) (fuel : nat) (p : prog) : outcome :=
  if typecheck strict p then
    match exec_block fuel p init_state with
    | S_ok s => (rev (s_out s), Exit0)
    | S_err e out => (rev out, Uncaught e)
    | S_fuel out => (rev out, FuelOut)
    end
  else ([], Rejected).

(* the final state (bindings), for property C34 *)
Definition run_state (strict : bool) (fuel : nat) (p : prog) : option state :=
  if typecheck strict p then
    match exec_block fuel p init_state with S_ok s => Some s | _ => None end
  else None.

Definition err_code (e : err) : Z :=
  match e with
  | EZeroDiv => 1 | EAssert => 2 | EIndex => 3 | EType => 4 | EWrapValue => 5 | EOverflow => 6 | EName => 7 | EAttr => 8
  | EUnmodelled => 99 | EStatic => 98
  end.
