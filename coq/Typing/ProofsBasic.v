(** * Typing.ProofsBasic — induction principles for the nested syntax and the unfolding equations of the nested
    fixpoints of Check.v / Eval.v (no dependency on the operator tables). *)
From Coq Require Import ZArith List Bool Lia.
From ErgV Require Import CoreErg.Syntax CoreErg.Sem Typing.Types Typing.Check Typing.Eval.
Import ListNotations.
Open Scope Z_scope.

(** ** induction principles (nested lists) *)
Section TmInd.
  Variable P : tm -> Prop.
  Hypothesis HLit : forall l, P (XLit l).
  Hypothesis HVar : forall x, P (XVar x).
  Hypothesis HUn : forall op a, P a -> P (XUn op a).
  Hypothesis HBin : forall op a b, P a -> P b -> P (XBin op a b).
  Hypothesis HCmp : forall op a b, P a -> P b -> P (XCmp op a b).
  Hypothesis HLogic : forall k a b, P a -> P b -> P (XLogic k a b).
  Hypothesis HList : forall es, Forall P es -> P (XList es).
  Hypothesis HIndex : forall a i, P a -> P i -> P (XIndex a i).
  Hypothesis HIf : forall c a b, P c -> P a -> P b -> P (XIf c a b).
  Hypothesis HCall : forall f args, Forall P args -> P (XCall f args).
  Hypothesis HMeth : forall m r args, P r -> Forall P args -> P (XMeth m r args).

  Fixpoint tm_ind' (e : tm) : P e :=
    let fix go (es : list tm) : Forall P es :=
      match es with [] => Forall_nil _ | x :: r => Forall_cons _ (tm_ind' x) (go r) end in
    match e with
    | XLit l => HLit l
    | XVar x => HVar x
    | XUn op a => HUn op a (tm_ind' a)
    | XBin op a b => HBin op a b (tm_ind' a) (tm_ind' b)
    | XCmp op a b => HCmp op a b (tm_ind' a) (tm_ind' b)
    | XLogic k a b => HLogic k a b (tm_ind' a) (tm_ind' b)
    | XList es => HList es (go es)
    | XIndex a i => HIndex a i (tm_ind' a) (tm_ind' i)
    | XIf c a b => HIf c a b (tm_ind' c) (tm_ind' a) (tm_ind' b)
    | XCall f args => HCall f args (go args)
    | XMeth m r args => HMeth m r args (tm_ind' r) (go args)
    end.
End TmInd.

Section StInd.
  Variable P : st -> Prop.
  Hypothesis HDef : forall x ann e, P (TDef x ann e).
  Hypothesis HPrint : forall es, P (TPrint es).
  Hypothesis HAssert : forall e, P (TAssert e).
  Hypothesis HFun : forall f lam ps ret locals res, P (TFun f lam ps ret locals res).
  Hypothesis HIf : forall c th el, Forall P th -> Forall P el -> P (TIf c th el).
  Hypothesis HFor : forall x it body, Forall P body -> P (TFor x it body).

  Fixpoint st_ind' (s : st) : P s :=
    let fix go (ss : list st) : Forall P ss :=
      match ss with [] => Forall_nil _ | x :: r => Forall_cons _ (st_ind' x) (go r) end in
    match s with
    | TDef x ann e => HDef x ann e
    | TPrint es => HPrint es
    | TAssert e => HAssert e
    | TFun f lam ps ret locals res => HFun f lam ps ret locals res
    | TIf c th el => HIf c th el (go th) (go el)
    | TFor x it body => HFor x it body (go body)
    end.
End StInd.

(** ** unfolding the nested fixpoints *)
Lemma infers_inner : forall strict FS G es,
  (fix infers (es : list tm) : option (list ety) :=
     match es with
     | [] => Some []
     | x :: r => match infer strict FS G x, infers r with Some t, Some ts => Some (t :: ts) | _, _ => None end
     end) es = infers strict FS G es.
Proof. induction es as [|x r IH]; [reflexivity|]. cbn [infers]. rewrite <- IH. reflexivity. Qed.

Lemma infer_XList : forall strict FS G es,
  infer strict FS G (XList es) =
  match infers strict FS G es with
  | Some (t :: ts) => match join_all t ts with Some tj => Some (T_List tj (Some (Z.of_nat (length es)))) | None => None end
  | _ => None
  end.
Proof. intros. cbn [infer]. rewrite infers_inner. reflexivity. Qed.

Lemma infer_XCall : forall strict FS G f args,
  infer strict FS G (XCall f args) =
  match infers strict FS G args with
  | Some ts => match lookup_t f FS with
               | Some (ps, ret) => if check_args ps ts then Some ret else None
               | None => None
               end
  | None => None
  end.
Proof. intros. cbn [infer]. rewrite infers_inner. reflexivity. Qed.

Lemma infer_XMeth : forall strict FS G m r args,
  infer strict FS G (XMeth m r args) =
  match infer strict FS G r, infers strict FS G args with
  | Some tr, Some ts => meth_ty m tr ts
  | _, _ => None
  end.
Proof. intros. cbn [infer]. rewrite infers_inner. reflexivity. Qed.

Lemma evals_inner : forall callf FS G en es,
  (fix evals (es : list tm) : rs (list value) :=
     match es with
     | [] => R_ok []
     | x :: r => rbind (eval callf FS G en x) (fun v => rbind (evals r) (fun vs => R_ok (v :: vs)))
     end) es = evals callf FS G en es.
Proof. induction es as [|x r IH]; [reflexivity|]. cbn [evals]. rewrite <- IH. reflexivity. Qed.

Lemma eval_XList : forall callf FS G en es,
  eval callf FS G en (XList es) = rbind (evals callf FS G en es) (fun vs => R_ok (VList vs)).
Proof. intros. cbn [eval]. rewrite evals_inner. reflexivity. Qed.

Lemma eval_XCall : forall callf FS G en f args,
  eval callf FS G en (XCall f args) =
  rbind (evals callf FS G en args) (fun vs => rbind (callf f vs) (wrapv (infer false FS G (XCall f args)))).
Proof. intros. cbn [eval]. rewrite evals_inner. reflexivity. Qed.

Lemma eval_XMeth : forall callf FS G en m r args,
  eval callf FS G en (XMeth m r args) =
  rbind (eval callf FS G en r) (fun vr =>
    rbind (evals callf FS G en args) (fun vs =>
      rbind (meth_op m vr vs) (wrapv (infer false FS G (XMeth m r args))))).
Proof. intros. cbn [eval]. rewrite evals_inner. reflexivity. Qed.

(** ** statements *)
Lemma blk_inner : forall strict ss c,
  (fix blk (c : cenv) (ss : list st) : bool :=
     match ss with
     | [] => true
     | x :: r => match check_st strict c x with Some c' => blk c' r | None => false end
     end) c ss = is_some (check_block strict c ss).
Proof.
  induction ss as [|x r IH]; intros c; [reflexivity|]. cbn [check_block].
  destruct (check_st strict c x) as [c'|]; [apply IH|reflexivity].
Qed.

Lemma check_st_TIf : forall strict c cnd th el,
  check_st strict c (TIf cnd th el) =
  match infer strict (fst c) (snd c) cnd with
  | Some tc => if sub tc T_Bool && is_some (check_block strict c th) && is_some (check_block strict c el) then Some c else None
  | None => None
  end.
Proof. intros. cbn [check_st]. rewrite !blk_inner. reflexivity. Qed.

Lemma check_st_TFor : forall strict c x it body,
  check_st strict c (TFor x it body) =
  match infer strict (fst c) (snd c) it with
  | Some (T_List t n) => if is_some (check_block strict (fst c, (x, t) :: snd c) body) then Some c else None
  | _ => None
  end.
Proof.
  intros. cbn [check_st]. destruct (infer strict (fst c) (snd c) it) as [t|]; auto.
  destruct t; auto. rewrite blk_inner. reflexivity.
Qed.

Lemma block_inner : forall fuel ss s,
  (fix block (ss : list st) (s : state) : sres :=
     match ss with
     | [] => S_ok s
     | y :: r => match exec fuel y s with S_ok s' => block r s' | bad => bad end
     end) ss s = exec_block fuel ss s.
Proof.
  induction ss as [|y r IH]; intros s; [reflexivity|]. cbn [exec_block].
  destruct (exec fuel y s); auto.
Qed.

Lemma for_loop_ext : forall f g v t items s, (forall s, f s = g s) -> for_loop f v t items s = for_loop g v t items s.
Proof.
  induction items as [|i r IH]; intros s H; [reflexivity|]. cbn [for_loop]. rewrite H.
  destruct (g _); auto.
Qed.

Lemma exec_TIf : forall fuel c th el s,
  exec fuel (TIf c th el) s =
  with_val s (ev fuel s c) (fun v =>
    match (if truthy v then exec_block fuel th s else exec_block fuel el s) with
    | S_ok s' => S_ok (restore s s')
    | bad => bad
    end).
Proof. intros. cbn [exec]. rewrite !block_inner. reflexivity. Qed.

Lemma exec_TFor : forall fuel v it body s,
  exec fuel (TFor v it body) s =
  match infer false (sigs (s_F s)) (s_G s) it with
  | Some (T_List t _) =>
    with_val s (ev fuel s it) (fun vit =>
      match vit with
      | VList items => for_loop (exec_block fuel body) v t items s
      | _ => S_err EType (s_out s)
      end)
  | _ => S_err EStatic (s_out s)
  end.
Proof.
  intros. cbn [exec]. destruct (infer false (sigs (s_F s)) (s_G s) it) as [t|]; auto.
Qed.
