(** * Typing.ProofsInject — an ill-typed node makes the whole program ill-typed, wherever it sits (property C05). *)
From Coq Require Import ZArith List Bool Lia.
From ErgV Require Import gen.Sigs CoreErg.Syntax CoreErg.Sem Typing.Types Typing.Check Typing.Inject Typing.ProofsBasic.
Import ListNotations.
Open Scope Z_scope.

Section Inj.
  Variable strict : bool.

  Lemma mut_ill : forall FS G m e e', mut strict FS G m e = Some e' -> infer strict FS G e' = None.
  Proof.
    intros FS G m e e' H. unfold mut in H. destruct (candidate FS G m e) as [c|]; try discriminate.
    destruct (infer strict FS G c) eqn:E; cbn [is_some] in H; try discriminate. inversion H; subst. exact E.
  Qed.

  Lemma inj_nth_ill : forall FS G (f : tm -> option tm) k es es',
    (forall e e', f e = Some e' -> infer strict FS G e' = None) ->
    inj_nth k f es = Some es' -> infers strict FS G es' = None.
  Proof.
    intros FS G f k es. revert k. induction es as [|x r IH]; intros k es' Hf H; destruct k as [|k']; cbn [inj_nth] in H; try discriminate.
    - destruct (f x) as [y|] eqn:E; try discriminate. inversion H; subst. cbn [infers]. rewrite (Hf _ _ E). reflexivity.
    - destruct (inj_nth k' f r) as [r'|] eqn:E; try discriminate. inversion H; subst. cbn [infers].
      rewrite (IH _ _ Hf E). destruct (infer strict FS G x); reflexivity.
  Qed.

  Lemma inj_tm_ill : forall FS G m pos e e', inj_tm strict FS G m pos e = Some e' -> infer strict FS G e' = None.
  Proof.
    intros FS G m. induction pos as [|k r IH]; intros e e' H; cbn [inj_tm] in H.
    - eapply mut_ill; eauto.
    - destruct e; try discriminate.
      + destruct k; try discriminate.
        destruct (inj_tm strict FS G m r e) as [a'|] eqn:E; try discriminate. inversion H; subst.
        cbn [infer]. rewrite (IH _ _ E). reflexivity.
      + destruct k as [|[|?]]; try discriminate.
        * destruct (inj_tm strict FS G m r e1) as [a'|] eqn:E; try discriminate. inversion H; subst.
          cbn [infer]. rewrite (IH _ _ E). reflexivity.
        * destruct (inj_tm strict FS G m r e2) as [a'|] eqn:E; try discriminate. inversion H; subst.
          cbn [infer]. rewrite (IH _ _ E). destruct (infer strict FS G e1); reflexivity.
      + destruct k as [|[|?]]; try discriminate.
        * destruct (inj_tm strict FS G m r e1) as [a'|] eqn:E; try discriminate. inversion H; subst.
          cbn [infer]. rewrite (IH _ _ E). reflexivity.
        * destruct (inj_tm strict FS G m r e2) as [a'|] eqn:E; try discriminate. inversion H; subst.
          cbn [infer]. rewrite (IH _ _ E). destruct (infer strict FS G e1); reflexivity.
      + destruct k as [|[|?]]; try discriminate.
        * destruct (inj_tm strict FS G m r e1) as [a'|] eqn:E; try discriminate. inversion H; subst.
          cbn [infer]. rewrite (IH _ _ E). reflexivity.
        * destruct (inj_tm strict FS G m r e2) as [a'|] eqn:E; try discriminate. inversion H; subst.
          cbn [infer]. rewrite (IH _ _ E). destruct (infer strict FS G e1); reflexivity.
      + destruct (inj_nth k (inj_tm strict FS G m r) es) as [es'|] eqn:E; try discriminate. inversion H; subst.
        rewrite infer_XList. rewrite (inj_nth_ill FS G _ _ _ _ IH E). reflexivity.
      + destruct k; try discriminate.
        destruct (inj_tm strict FS G m r e1) as [a'|] eqn:E; try discriminate. inversion H; subst.
        cbn [infer]. rewrite (IH _ _ E). reflexivity.
      + destruct k as [|[|[|?]]]; try discriminate.
        * destruct (inj_tm strict FS G m r e1) as [a'|] eqn:E; try discriminate. inversion H; subst.
          cbn [infer]. rewrite (IH _ _ E). reflexivity.
        * destruct (inj_tm strict FS G m r e2) as [a'|] eqn:E; try discriminate. inversion H; subst.
          cbn [infer]. rewrite (IH _ _ E). destruct (infer strict FS G e1); reflexivity.
        * destruct (inj_tm strict FS G m r e3) as [a'|] eqn:E; try discriminate. inversion H; subst.
          cbn [infer]. rewrite (IH _ _ E). destruct (infer strict FS G e1); [destruct (infer strict FS G e2)|]; reflexivity.
      + destruct (inj_nth k (inj_tm strict FS G m r) args) as [es'|] eqn:E; try discriminate. inversion H; subst.
        rewrite infer_XCall. rewrite (inj_nth_ill FS G _ _ _ _ IH E). reflexivity.
      + destruct k as [|k'].
        * destruct (inj_tm strict FS G m r e) as [a'|] eqn:E; try discriminate. inversion H; subst.
          rewrite infer_XMeth. rewrite (IH _ _ E). reflexivity.
        * destruct (inj_nth k' (inj_tm strict FS G m r) args) as [es'|] eqn:E; try discriminate. inversion H; subst.
          rewrite infer_XMeth. rewrite (inj_nth_ill FS G _ _ _ _ IH E). destruct (infer strict FS G e); reflexivity.
  Qed.

  Lemma inj_default_ill : forall FS G (f : tm -> option tm) j ps ps',
    (forall e e', f e = Some e' -> infer strict FS G e' = None) ->
    inj_default j f ps = Some ps' -> check_defaults strict FS G ps' = false.
  Proof.
    intros FS G f j ps. revert j. induction ps as [|[[x t] d] r IH]; intros j ps' Hf H; destruct j as [|j']; cbn [inj_default] in H; try discriminate.
    - destruct d as [d|]; try discriminate. destruct (f d) as [d'|] eqn:E; try discriminate. inversion H; subst.
      cbn [check_defaults]. rewrite (Hf _ _ E). reflexivity.
    - destruct (inj_default j' f r) as [r'|] eqn:E; [|destruct d; discriminate].
      assert (H' : ps' = (x, t, d) :: r') by (destruct d; inversion H; reflexivity). subst ps'.
      cbn [check_defaults]. rewrite (IH _ _ Hf E). destruct d as [d|]; auto.
      destruct (infer strict FS G d); auto. apply andb_false_r.
  Qed.

  Lemma inj_local_ill : forall FS (f : tenv -> tm -> option tm) ls j G ls',
    (forall G e e', f G e = Some e' -> infer strict FS G e' = None) ->
    inj_local strict FS j f G ls = Some ls' -> check_locals strict FS G ls' = None.
  Proof.
    intros FS f. induction ls as [|[x e] r IH]; intros j G ls' Hf H; destruct j as [|j']; cbn [inj_local] in H; try discriminate.
    - destruct (f G e) as [e'|] eqn:E; try discriminate. inversion H; subst.
      cbn [check_locals]. rewrite (Hf _ _ _ E). reflexivity.
    - destruct (infer strict FS G e) as [t|] eqn:Ei; try discriminate.
      destruct (inj_local strict FS j' f ((x, t) :: G) r) as [r'|] eqn:E; try discriminate. inversion H; subst.
      cbn [check_locals]. rewrite Ei. eapply IH; eauto.
  Qed.

  Lemma inj_at_ill : forall (f : cenv -> st -> option st) ss k c ss',
    (forall c s s', f c s = Some s' -> check_st strict c s' = None) ->
    inj_at strict k f c ss = Some ss' -> check_block strict c ss' = None.
  Proof.
    intros f. induction ss as [|s r IH]; intros k c ss' Hf H; destruct k as [|k']; cbn [inj_at] in H; try discriminate.
    - destruct (f c s) as [s'|] eqn:E; try discriminate. inversion H; subst.
      cbn [check_block]. rewrite (Hf _ _ _ E). reflexivity.
    - destruct (check_st strict c s) as [c'|] eqn:Ec; try discriminate.
      destruct (inj_at strict k' f c' r) as [r'|] eqn:E; try discriminate. inversion H; subst.
      cbn [check_block]. rewrite Ec. eapply IH; eauto.
  Qed.

  Lemma inj_st_ill : forall m pos c s s', inj_st strict m pos c s = Some s' -> check_st strict c s' = None.
  Proof.
    intros m. induction pos as [pos IH] using (well_founded_induction (Wf_nat.well_founded_ltof _ (@length nat))).
    assert (IHr : forall r, (length r < length pos)%nat ->
                  forall c s s', inj_st strict m r c s = Some s' -> check_st strict c s' = None).
    { intros r Hr. apply IH. exact Hr. }
    clear IH. intros c s s' H. destruct c as [FS G].
    destruct s as [x ann e|es|e|f lam ps ret locals res|cnd th el|x it body].
    - (* definition *)
      destruct pos; cbn [inj_st fst snd] in H;
        (destruct (inj_tm strict FS G m _ e) as [e'|] eqn:E; try discriminate; inversion H; subst;
         cbn [check_st fst snd]; rewrite (inj_tm_ill _ _ _ _ _ _ E); reflexivity).
    - (* print *)
      destruct pos as [|k r]; cbn [inj_st fst snd] in H; try discriminate.
      destruct (inj_nth k (inj_tm strict FS G m r) es) as [es'|] eqn:E; try discriminate. inversion H; subst.
      cbn [check_st fst snd]. rewrite (inj_nth_ill FS G _ _ _ _ (inj_tm_ill FS G m r) E). reflexivity.
    - (* assert *)
      destruct pos; cbn [inj_st fst snd] in H;
        (destruct (inj_tm strict FS G m _ e) as [e'|] eqn:E; try discriminate; inversion H; subst;
         cbn [check_st fst snd]; rewrite (inj_tm_ill _ _ _ _ _ _ E); reflexivity).
    - (* function *)
      destruct pos as [|[|[|[|?]]] r]; cbn [inj_st fst snd] in H; try discriminate.
      + destruct r as [|j r]; try discriminate.
        destruct (inj_default j (inj_tm strict FS G m r) ps) as [ps'|] eqn:E; try discriminate. inversion H; subst.
        cbn [check_st fst snd]. unfold fun_ret.
        rewrite (inj_default_ill FS G _ _ _ _ (inj_tm_ill FS G m r) E). reflexivity.
      + destruct r as [|j r]; try discriminate.
        destruct (inj_local strict FS j (fun G' => inj_tm strict FS G' m r) (param_tys ps ++ G) locals) as [ls'|] eqn:E;
          try discriminate. inversion H; subst.
        cbn [check_st fst snd]. unfold fun_ret.
        rewrite (inj_local_ill FS _ _ _ _ _ (fun G' => inj_tm_ill FS G' m r) E).
        destruct (check_defaults strict FS G ps); reflexivity.
      + destruct (check_locals strict FS (param_tys ps ++ G) locals) as [Gb|] eqn:El; try discriminate.
        destruct (inj_tm strict FS Gb m r res) as [res'|] eqn:E; try discriminate. inversion H; subst.
        cbn [check_st fst snd]. unfold fun_ret. rewrite El, (inj_tm_ill _ _ _ _ _ _ E).
        destruct (check_defaults strict FS G ps); reflexivity.
    - (* if! *)
      destruct pos as [|[|[|[|?]]] r]; cbn [inj_st fst snd] in H; try discriminate.
      + destruct (inj_tm strict FS G m r cnd) as [c'|] eqn:E; try discriminate. inversion H; subst.
        rewrite check_st_TIf. cbn [fst snd]. rewrite (inj_tm_ill _ _ _ _ _ _ E). reflexivity.
      + destruct r as [|k r]; try discriminate.
        destruct (inj_at strict k (inj_st strict m r) (FS, G) th) as [th'|] eqn:E; try discriminate. inversion H; subst.
        rewrite check_st_TIf. cbn [fst snd].
        rewrite (inj_at_ill _ _ _ _ _ (IHr r ltac:(cbn; unfold ltof; cbn; lia)) E).
        destruct (infer strict FS G cnd); auto. cbn [is_some]. rewrite andb_false_r. reflexivity.
      + destruct r as [|k r]; try discriminate.
        destruct (inj_at strict k (inj_st strict m r) (FS, G) el) as [el'|] eqn:E; try discriminate. inversion H; subst.
        rewrite check_st_TIf. cbn [fst snd].
        rewrite (inj_at_ill _ _ _ _ _ (IHr r ltac:(cbn; unfold ltof; cbn; lia)) E).
        destruct (infer strict FS G cnd); auto. cbn [is_some]. rewrite andb_false_r. reflexivity.
    - (* for! *)
      destruct pos as [|[|[|?]] r]; cbn [inj_st fst snd] in H; try discriminate.
      + destruct (inj_tm strict FS G m r it) as [it'|] eqn:E; try discriminate. inversion H; subst.
        rewrite check_st_TFor. cbn [fst snd]. rewrite (inj_tm_ill _ _ _ _ _ _ E). reflexivity.
      + destruct r as [|k r]; try discriminate.
        destruct (infer strict FS G it) as [ti|] eqn:Ei; try discriminate.
        destruct ti as [| | | | | | | |t n]; try discriminate.
        destruct (inj_at strict k (inj_st strict m r) (FS, (x, t) :: G) body) as [b'|] eqn:E; try discriminate.
        inversion H; subst. rewrite check_st_TFor. cbn [fst snd]. rewrite Ei.
        rewrite (inj_at_ill _ _ _ _ _ (IHr r ltac:(cbn; unfold ltof; cbn; lia)) E). reflexivity.
  Qed.

  Lemma inject_ill : forall p pos m p', inject strict p pos m = Some p' -> check_prog strict p' = None.
  Proof.
    intros p pos m p' H. unfold inject in H. destruct pos as [|k r]; try discriminate.
    unfold check_prog. eapply inj_at_ill; eauto. intros c s s'. apply inj_st_ill.
  Qed.
End Inj.

(** ** each of the five shapes is locally ill-typed under its syntactic side condition *)
Lemma lookup_above_max : forall {A} (g : list (Z * A)) x, max_key g < x -> lookup_t x g = None.
Proof.
  induction g as [|[y t] r IH]; intros x H; cbn [lookup_t]; auto.
  cbn [max_key fold_right fst] in H. fold (max_key r) in H.
  assert (E : (x =? y) = false) by (apply Z.eqb_neq; lia). rewrite E. apply IH. lia.
Qed.

Lemma fresh_var : forall FS G, lookup_t (fresh_id FS G) G = None.
Proof. intros. apply lookup_above_max. unfold fresh_id. lia. Qed.
Lemma fresh_fun : forall FS G, lookup_t (fresh_id FS G) FS = None.
Proof. intros. apply lookup_above_max. unfold fresh_id. lia. Qed.

Lemma undef_var_ill : forall strict FS G, infer strict FS G (XVar (fresh_id FS G)) = None.
Proof. intros. cbn [infer]. apply fresh_var. Qed.

Lemma undef_call_ill : forall strict FS G args, infer strict FS G (XCall (fresh_id FS G) args) = None.
Proof. intros. rewrite infer_XCall. rewrite fresh_fun. destruct (infers strict FS G args); reflexivity. Qed.

(* no arithmetic operator is declared on None, on either side *)
Lemma none_operand_ill : forall strict FS G op a,
  infer strict FS G (XBin op (XLit LNone) a) = None /\ infer strict FS G (XBin op a (XLit LNone)) = None.
Proof.
  intros strict FS G op a.
  assert (L : forall c, binop_res strict (arith_code op) CNone c = None /\ binop_res strict (arith_code op) c CNone = None).
  { intros c. unfold binop_res.
    destruct op, c; cbn [is_scalar andb arith_code cls_tag]; split;
      try reflexivity;
      match goal with |- (if pow_ok _ _ _ _ then ?x else None) = None =>
        replace x with (@None ety) by (vm_compute; reflexivity); destruct (pow_ok _ _ _ _); reflexivity end. }
  split; cbn [infer lit_value]; destruct (infer strict FS G a) as [ta|]; try reflexivity; unfold bin_ty.
  - destruct (class_of ta) as [c|] eqn:E; cbn [class_of enum_class vclass]; [apply L|reflexivity].
  - destruct ta; cbn [class_of enum_class vclass]; try apply L;
      try (destruct (enum_class vs); [apply L|reflexivity]).
Qed.

Lemma check_args_too_many : forall ps ts, (length ps < length ts)%nat -> check_args ps ts = false.
Proof.
  induction ps as [|[p d] r IH]; intros ts H; destruct ts as [|t tr]; cbn in *; try lia; auto.
  rewrite IH by lia. apply andb_false_r.
Qed.

Lemma infers_length : forall strict FS G args ts, infers strict FS G args = Some ts -> length ts = length args.
Proof.
  induction args as [|x r IH]; intros ts E; cbn [infers] in E; [inversion E; reflexivity|].
  destruct (infer strict FS G x); try discriminate. destruct (infers strict FS G r); try discriminate.
  inversion E; subst. cbn. f_equal. apply IH; reflexivity.
Qed.

Lemma arity_add_ill : forall strict FS G f args ps ret,
  @lookup_t fsig f FS = Some (ps, ret) -> (length ps < length args)%nat -> infer strict FS G (XCall f args) = None.
Proof.
  intros strict FS G f args ps ret Hl Hn. rewrite infer_XCall.
  destruct (infers strict FS G args) as [ts|] eqn:E; auto. rewrite Hl.
  pose proof (infers_length _ _ _ _ _ E) as Hlen.
  rewrite check_args_too_many by lia. reflexivity.
Qed.

(* a missing argument whose parameter has no default *)
Lemma check_args_too_few : forall ps ts p, nth_error ps (length ts) = Some (p, false) -> check_args ps ts = false.
Proof.
  induction ps as [|[q d] r IH]; intros ts p H; destruct ts as [|t tr]; cbn in *; try discriminate.
  - inversion H; subst. reflexivity.
  - rewrite (IH _ _ H). apply andb_false_r.
Qed.

Lemma arity_drop_ill : forall strict FS G f args ps ret p,
  @lookup_t fsig f FS = Some (ps, ret) -> nth_error ps (length args) = Some (p, false) -> infer strict FS G (XCall f args) = None.
Proof.
  intros strict FS G f args ps ret p Hl Hn. rewrite infer_XCall.
  destruct (infers strict FS G args) as [ts|] eqn:E; auto. rewrite Hl.
  rewrite (check_args_too_few ps ts p); auto. rewrite (infers_length _ _ _ _ _ E). exact Hn.
Qed.

(* an argument that is not a subtype of its parameter *)
Lemma check_args_mismatch : forall ps ts k p d t, nth_error ps k = Some (p, d) -> nth_error ts k = Some t -> sub t p = false ->
  check_args ps ts = false.
Proof.
  induction ps as [|[q dq] r IH]; intros ts k p d t Hp Ht Hs; destruct k; cbn in Hp; try discriminate;
    destruct ts as [|t0 tr]; cbn in Ht; try discriminate; cbn [check_args].
  - inversion Hp; inversion Ht; subst. rewrite Hs. reflexivity.
  - rewrite (IH _ _ _ _ _ Hp Ht Hs). apply andb_false_r.
Qed.

Lemma arg_type_ill : forall strict FS G f args ps ret ts k p d t,
  @lookup_t fsig f FS = Some (ps, ret) -> infers strict FS G args = Some ts ->
  nth_error ps k = Some (p, d) -> nth_error ts k = Some t -> sub t p = false ->
  infer strict FS G (XCall f args) = None.
Proof.
  intros. rewrite infer_XCall, H0, H. rewrite (check_args_mismatch ps ts k p d t); auto.
Qed.

(* an attribute no builtin class of the fragment has *)
Lemma attr_ill : forall strict FS G m r args, meth_kind m = None -> infer strict FS G (XMeth m r args) = None.
Proof.
  intros. rewrite infer_XMeth. destruct (infer strict FS G r); auto. destruct (infers strict FS G args); auto.
  unfold meth_ty. rewrite H. reflexivity.
Qed.

(* a scalar method on a receiver that is not an integer (Str, Float, None, List) *)
Lemma attr_class_ill : forall strict FS G m r args tr c k,
  infer strict FS G r = Some tr -> class_of tr = Some c -> int_like c = false ->
  meth_kind m = Some k -> (k = KSucc \/ k = KPred \/ k = KBitCount \/ k = KAbs \/ k = KAbsF) ->
  infer strict FS G (XMeth m r args) = None.
Proof.
  intros strict FS G m r args tr c k Hr Hc Hi Hk Hkind. rewrite infer_XMeth, Hr.
  destruct (infers strict FS G args) as [ts|]; auto. unfold meth_ty. rewrite Hk.
  destruct Hkind as [Hq|[Hq|[Hq|[Hq|Hq]]]]; subst k; destruct ts; auto; rewrite Hc, Hi; reflexivity.
Qed.
