(** * Typing.ProofsOps — the declared result classes (gen/Sigs.v) are sound for the run-time operators.

    Every row of the tables the checker consults is validated *by computation* against a sufficient condition
    ([bin_row_ok], [un_row_ok], [meth_row_ok]); the conditions are proved to imply that the operator of CoreErg/Sem.v,
    applied to operands of the row's classes, returns a member of the row's result class or raises one of the
    legitimate errors.  A declaration that promises too much (e.g. Nat - Nat : Nat) makes [bin_table_ok] fail. *)
From Coq Require Import ZArith List Bool Lia SpecFloat.
From ErgV Require Import gen.Sigs CoreErg.Syntax CoreErg.Sem Typing.Types Typing.Check Typing.Eval Typing.ProofsTypes.
Import ListNotations.
Open Scope Z_scope.

Definition res_ok (r : rs value) (t : ety) : Prop :=
  match r with
  | R_ok v => has_ty v t = true
  | R_err e => type_error e = false /\ e <> EStatic
  | R_fuel => True
  end.

Definition num_cls (c : cls) : bool := match c with CNat | CInt | CBool | CFloat => true | _ => false end.

(** ** sufficient conditions, per row *)
Definition arith_cond (o : Z) (a b : cls) (r : Z) : bool :=
  if int_like a && int_like b then
    (r =? 5) || ((r =? 1) && negb (o =? 3))
    || ((r =? 0) && nat_like a && nat_like b && negb (o =? 1) && negb (o =? 3))
  else if num_cls a && num_cls b then r =? 5
  else match a, b with
       | CStr, CStr => (o =? 0) && (r =? 7)
       | CStr, _ => (o =? 2) && int_like b && (r =? 7)
       | _, CStr => (o =? 2) && int_like a && (r =? 7)
       | _, _ => false
       end.

Definition cmp_cond (o : Z) (a b : cls) (r : Z) : bool :=
  (r =? 2) && ((num_cls a && num_cls b) || (match a, b with CStr, CStr => true | _, _ => false end) || (o =? 7) || (o =? 8)).

Definition bin_row_ok (row : Z * Z * Z * Z) : bool :=
  match row with
  | (o, a, b, r) =>
    match tag_cls a, tag_cls b with
    | Some ca, Some cb =>
      if is_scalar ca && is_scalar cb && pow_ok true o ca cb then
        if (0 <=? o) && (o <=? 6) then arith_cond o ca cb r
        else if (7 <=? o) && (o <=? 12) then cmp_cond o ca cb r
        else true
      else true
    | _, _ => true
    end
  end.

Definition un_row_ok (row : Z * Z * Z) : bool :=
  match row with
  | (o, a, r) =>
    match tag_cls a with
    | Some ca =>
      if is_scalar ca then
        if int_like ca then (r =? 1) || (r =? 5)
        else match ca with CFloat => r =? 5 | _ => false end
      else true
    | None => true
    end
  end.

Definition meth_row_ok (row : Z * Z * Z) : bool :=
  match row with
  | (m, a, r) =>
    match tag_cls a with
    | Some ca =>
      if int_like ca then
        if (m =? M_succ) || (m =? M_pred) then (r =? 1) || (r =? 5)
        else if (m =? M_bit_count) || (m =? M_abs) then (r =? 0) || (r =? 1) || (r =? 5)
        else true
      else true
    | None => true
    end
  end.

(** the tables of the working tree satisfy them (this is where a changed declaration is noticed) *)
Lemma bin_table_ok : forallb bin_row_ok sig_binop = true.
Proof. vm_compute. reflexivity. Qed.
Lemma un_table_ok : forallb un_row_ok sig_unop = true.
Proof. vm_compute. reflexivity. Qed.
Lemma meth_table_ok : forallb meth_row_ok sig_method = true.
Proof. vm_compute. reflexivity. Qed.

Lemma lookup4_in : forall tbl o a b r, lookup4 tbl o a b = Some r -> In (o, a, b, r) tbl.
Proof.
  induction tbl as [|[[[o' a'] b'] r'] rest IH]; intros o a b r H; cbn [lookup4] in H; try discriminate.
  destruct ((o =? o') && (a =? a') && (b =? b')) eqn:E.
  - inversion H; subst. apply andb_true_iff in E. destruct E as [E E3]. apply andb_true_iff in E. destruct E as [E1 E2].
    apply Z.eqb_eq in E1. apply Z.eqb_eq in E2. apply Z.eqb_eq in E3. subst. left. reflexivity.
  - right. auto.
Qed.

Lemma lookup3_in : forall tbl o a r, lookup3 tbl o a = Some r -> In (o, a, r) tbl.
Proof.
  induction tbl as [|[[o' a'] r'] rest IH]; intros o a r H; cbn [lookup3] in H; try discriminate.
  destruct ((o =? o') && (a =? a')) eqn:E.
  - inversion H; subst. apply andb_true_iff in E. destruct E as [E1 E2].
    apply Z.eqb_eq in E1. apply Z.eqb_eq in E2. subst. left. reflexivity.
  - right. auto.
Qed.

Lemma tag_cls_tag : forall c, tag_cls (cls_tag c) = Some c.
Proof. destruct c; reflexivity. Qed.

(** ** values by class *)
Lemma cls_int : forall c v, int_like c = true -> has_cls v c = true ->
  exists z, as_num v = Some (NInt z) /\ as_int v = Some z /\ (nat_like c = true -> 0 <= z).
Proof.
  intros c v Hc Hv. destruct c; try discriminate; destruct v; cbn in Hv; try discriminate.
  - exists z. cbn. repeat split; auto. intros _. apply Z.leb_le; auto.
  - exists (if b then 1 else 0). cbn. repeat split; auto. intros _. destruct b; lia.
  - exists z. cbn. repeat split; auto. discriminate.
  - exists (if b then 1 else 0). cbn. repeat split; auto. discriminate.
  - exists (if b then 1 else 0). cbn. repeat split; auto. intros _. destruct b; lia.
Qed.

Lemma cls_num : forall c v, num_cls c = true -> has_cls v c = true ->
  (exists z, as_num v = Some (NInt z)) \/ (exists b, as_num v = Some (NFloat b)).
Proof.
  intros c v Hc Hv. destruct c; try discriminate; destruct v; cbn in Hv; try discriminate; cbn; eauto.
Qed.

Lemma cls_float_only : forall c, num_cls c = true -> int_like c = false -> c = CFloat.
Proof. destruct c; cbn; intros; try discriminate; reflexivity. Qed.

(** ** arithmetic *)
Definition legit (e : exn) : Prop := e = ZeroDivisionError \/ e = OverflowError \/ e = Unmodelled.

Lemma legit_ok : forall e, legit e -> type_error (of_exn e) = false /\ of_exn e <> EStatic.
Proof. intros e [H|[H|H]]; subst e; cbn; split; auto; discriminate. Qed.

Lemma int_true_div_res : forall a b, match int_true_div a b with Ok _ => True | Raise e => legit e | OutOfFuel => False end.
Proof.
  intros a b. unfold int_true_div.
  destruct a as [|pa|pa], b as [|pb|pb]; try exact I; try (left; reflexivity);
    cbv zeta; cbn [Z.abs];
    set (q := SFdiv _ _ _ _); clearbody q; destruct q; try exact I; right; left; reflexivity.
Qed.

Lemma int_op_res : forall op a b,
  match int_op op a b with
  | Ok v => (op = ODiv /\ exists f, v = VFloat f) \/
            (op <> ODiv /\ exists z, v = VInt z /\ (0 <= a -> 0 <= b -> op <> OSub -> 0 <= z))
  | Raise e => legit e
  | OutOfFuel => False
  end.
Proof.
  intros op a b. destruct op; cbn [int_op].
  - right. split; [discriminate|]. eexists; split; eauto. lia.
  - right. split; [discriminate|]. eexists; split; eauto. intros _ _ H. congruence.
  - right. split; [discriminate|]. eexists; split; eauto. intros. apply Z.mul_nonneg_nonneg; auto.
  - pose proof (int_true_div_res a b) as H. destruct (int_true_div a b); cbn; auto.
    left. split; auto. eexists; eauto.
  - destruct (b =? 0) eqn:E; [left; reflexivity|]. apply Z.eqb_neq in E.
    right. split; [discriminate|]. eexists; split; eauto. intros. apply Z.div_pos; lia.
  - destruct (b =? 0) eqn:E; [left; reflexivity|]. apply Z.eqb_neq in E.
    right. split; [discriminate|]. eexists; split; eauto. intros. apply Z.mod_pos_bound. lia.
  - destruct (b <? 0) eqn:E.
    + destruct (a =? 0); [left; reflexivity|right; right; reflexivity].
    + right. split; [discriminate|]. eexists; split; eauto. intros. apply Z.pow_nonneg; auto.
Qed.

Lemma float_op_res : forall op a b,
  match float_op op a b with Ok v => exists f, v = VFloat f | Raise e => legit e | OutOfFuel => False end.
Proof.
  intros op a b. destruct op; cbn [float_op]; eauto;
    try (destruct (f_is_zero b); [left; reflexivity|]); eauto; right; right; reflexivity.
Qed.

Lemma int_to_float_res : forall z, match int_to_float z with Ok _ => True | Raise e => legit e | OutOfFuel => False end.
Proof.
  intros z. unfold int_to_float. destruct (binary_normalize prec emax z 0 false); auto. right; left; reflexivity.
Qed.

Lemma bin_int_int : forall op x y a b, as_num x = Some (NInt a) -> as_num y = Some (NInt b) -> bin_op op x y = int_op op a b.
Proof. intros. unfold bin_op. rewrite H, H0. reflexivity. Qed.

(* numeric operands: the result is in Float (an int is a Float) *)
Lemma bin_num_res : forall op x y,
  ((exists a, as_num x = Some (NInt a)) \/ (exists a, as_num x = Some (NFloat a))) ->
  ((exists a, as_num y = Some (NInt a)) \/ (exists a, as_num y = Some (NFloat a))) ->
  match bin_op op x y with Ok v => has_ty v T_Float = true | Raise e => legit e | OutOfFuel => False end.
Proof.
  intros op x y Hx Hy. unfold bin_op.
  destruct Hx as [[a Ha]|[a Ha]], Hy as [[b Hb]|[b Hb]]; rewrite Ha, Hb.
  - pose proof (int_op_res op a b) as H. destruct (int_op op a b); auto.
    destruct H as [[_ [f ->]]|[_ [z [-> _]]]]; reflexivity.
  - pose proof (int_to_float_res a) as H. destruct (int_to_float a); cbn [bind]; auto.
    pose proof (float_op_res op a0 b) as H'. destruct (float_op op a0 b); auto. destruct H' as [f ->]. reflexivity.
  - pose proof (int_to_float_res b) as H. destruct (int_to_float b); cbn [bind]; auto.
    pose proof (float_op_res op a a0) as H'. destruct (float_op op a a0); auto. destruct H' as [f ->]. reflexivity.
  - pose proof (float_op_res op a b) as H'. destruct (float_op op a b); auto. destruct H' as [f ->]. reflexivity.
Qed.

Lemma arith_cond_sound : forall op a b r t v1 v2,
  arith_cond (arith_code op) a b r = true -> tag_ty r = Some t ->
  has_cls v1 a = true -> has_cls v2 b = true ->
  res_ok (lift (bin_op op v1 v2)) t.
Proof.
  intros op a b r t v1 v2 Hc Ht H1 H2. unfold arith_cond in Hc.
  destruct (int_like a && int_like b) eqn:Ei.
  - apply andb_true_iff in Ei. destruct Ei as [Ea Eb].
    destruct (cls_int _ _ Ea H1) as [z1 [N1 [_ P1]]]. destruct (cls_int _ _ Eb H2) as [z2 [N2 [_ P2]]].
    rewrite (bin_int_int op _ _ _ _ N1 N2).
    pose proof (int_op_res op z1 z2) as Hr.
    destruct (int_op op z1 z2) as [v|e|]; cbn [lift res_ok]; [|apply legit_ok; auto|auto].
    apply orb_true_iff in Hc. destruct Hc as [Hc|Hc]; [apply orb_true_iff in Hc; destruct Hc as [Hc|Hc]|].
    + apply Z.eqb_eq in Hc. subst r. inversion Ht; subst.
      destruct Hr as [[_ [f ->]]|[_ [z [-> _]]]]; reflexivity.
    + apply andb_true_iff in Hc. destruct Hc as [Hr1 Ho]. apply Z.eqb_eq in Hr1. subst r. inversion Ht; subst.
      destruct Hr as [[-> _]|[_ [z [-> _]]]]; [cbn in Ho; discriminate|reflexivity].
    + repeat (apply andb_true_iff in Hc; destruct Hc as [Hc ?]).
      apply Z.eqb_eq in Hc. subst r. inversion Ht; subst.
      destruct Hr as [[-> _]|[_ [z [-> Hz]]]]; [cbn in *; discriminate|].
      cbn. apply Z.leb_le. apply Hz; auto. intros ->. cbn in *. discriminate.
  - destruct (num_cls a && num_cls b) eqn:En.
    + apply Z.eqb_eq in Hc. subst r. inversion Ht; subst.
      apply andb_true_iff in En. destruct En as [Ea Eb].
      pose proof (bin_num_res op v1 v2 (cls_num _ _ Ea H1) (cls_num _ _ Eb H2)) as Hr.
      destruct (bin_op op v1 v2); cbn [lift res_ok]; auto. apply legit_ok; auto.
    + destruct a, b; try discriminate; cbn in H1, H2; destruct v1, v2; try discriminate.
      all: repeat (apply andb_true_iff in Hc; destruct Hc as [Hc ?]).
      all: try (apply Z.eqb_eq in Hc); destruct op; try discriminate.
      all: match goal with H : (_ =? 7) = true |- _ => apply Z.eqb_eq in H; subst r; inversion Ht; subst end.
      all: cbn; auto.
Qed.

(** ** comparisons *)
Lemma cmp_num_res : forall op x y,
  ((exists a, as_num x = Some (NInt a)) \/ (exists a, as_num x = Some (NFloat a))) ->
  ((exists a, as_num y = Some (NInt a)) \/ (exists a, as_num y = Some (NFloat a))) ->
  exists b, cmp_op op x y = Ok (VBool b).
Proof.
  intros op x y Hx Hy. unfold cmp_op.
  destruct Hx as [[a Ha]|[a Ha]], Hy as [[b Hb]|[b Hb]]; rewrite Ha, Hb; eauto.
Qed.

Lemma cmp_cond_sound : forall op a b r t v1 v2,
  is_scalar a = true -> is_scalar b = true ->
  cmp_cond (cmp_code op) a b r = true -> tag_ty r = Some t ->
  has_cls v1 a = true -> has_cls v2 b = true ->
  res_ok (lift (cmp_op op v1 v2)) t.
Proof.
  intros op a b r t v1 v2 Sa Sb Hc Ht H1 H2. unfold cmp_cond in Hc.
  apply andb_true_iff in Hc. destruct Hc as [Hr Hc]. apply Z.eqb_eq in Hr. subst r. inversion Ht; subst. clear Ht.
  destruct (num_cls a && num_cls b) eqn:En.
  - apply andb_true_iff in En. destruct En as [Ea Eb].
    destruct (cmp_num_res op v1 v2 (cls_num _ _ Ea H1) (cls_num _ _ Eb H2)) as [bb ->]. reflexivity.
  - cbn [orb] in Hc.
    destruct a, b; try discriminate; cbn in H1, H2; destruct v1, v2; try discriminate; destruct op; try discriminate; cbn; auto.
Qed.

(** ** the checker's operator typing is sound *)
Lemma binop_res_sound : forall op ca cb t v1 v2,
  binop_res true (arith_code op) ca cb = Some t ->
  has_cls v1 ca = true -> has_cls v2 cb = true ->
  res_ok (lift (bin_op op v1 v2)) t.
Proof.
  intros op ca cb t v1 v2 H H1 H2. unfold binop_res in H.
  destruct (is_scalar ca && is_scalar cb && pow_ok true (arith_code op) ca cb) eqn:E; try discriminate.
  destruct (lookup4 sig_binop (arith_code op) (cls_tag ca) (cls_tag cb)) as [r|] eqn:L; try discriminate.
  apply lookup4_in in L.
  pose proof bin_table_ok as T. rewrite forallb_forall in T. specialize (T _ L).
  unfold bin_row_ok in T. rewrite !tag_cls_tag, E in T.
  assert (Ho : (0 <=? arith_code op) && (arith_code op <=? 6) = true) by (destruct op; reflexivity).
  rewrite Ho in T. eapply arith_cond_sound; eauto.
Qed.

Lemma forallb_app_true : forall {A} (f : A -> bool) l1 l2, forallb f l1 = true -> forallb f l2 = true -> forallb f (l1 ++ l2) = true.
Proof. intros. rewrite forallb_app, H, H0. reflexivity. Qed.

Lemma len_add_ok : forall {A} n m (l1 l2 : list A), len_ok n l1 = true -> len_ok m l2 = true -> len_ok (len_add n m) (l1 ++ l2) = true.
Proof.
  intros A n m l1 l2 H1 H2. destruct n as [a|], m as [b|]; cbn in *; auto.
  apply Z.eqb_eq in H1. apply Z.eqb_eq in H2. apply Z.eqb_eq. rewrite app_length, Nat2Z.inj_add. lia.
Qed.

Lemma bin_sound : forall op ta tb t v1 v2,
  bin_ty true op ta tb = Some t -> has_ty v1 ta = true -> has_ty v2 tb = true ->
  res_ok (lift (bin_op op v1 v2)) t.
Proof.
  intros op ta tb t v1 v2 H H1 H2. unfold bin_ty in H.
  assert (Hgen : match class_of ta, class_of tb with
                 | Some ca, Some cb => binop_res true (arith_code op) ca cb
                 | _, _ => None end = Some t -> res_ok (lift (bin_op op v1 v2)) t).
  { intros Hc. destruct (class_of ta) as [ca|] eqn:Ea; try discriminate.
    destruct (class_of tb) as [cb|] eqn:Eb; try discriminate.
    eapply binop_res_sound; eauto; eapply class_sound; eauto. }
  destruct ta; auto. destruct tb; auto.
  destruct op; try discriminate.
  destruct (is_some (lookup4 sig_binop 0 9 9)); try discriminate.
  destruct (join_ty ta tb) as [tj|] eqn:J; try discriminate. inversion H; subst. clear H Hgen.
  cbn [has_ty] in H1, H2. destruct v1; try discriminate. destruct v2; try discriminate.
  apply andb_true_iff in H1. destruct H1 as [F1 L1]. apply andb_true_iff in H2. destruct H2 as [F2 L2].
  cbn. apply andb_true_iff. split.
  - apply forallb_app_true.
    + rewrite forallb_forall in F1 |- *. intros x Hx. eapply join_sound_l; eauto.
    + rewrite forallb_forall in F2 |- *. intros x Hx. eapply join_sound_r; eauto.
  - apply len_add_ok; auto.
Qed.

Lemma cmp_sound : forall op ta tb t v1 v2,
  cmp_ty op ta tb = Some t -> has_ty v1 ta = true -> has_ty v2 tb = true ->
  res_ok (lift (cmp_op op v1 v2)) t.
Proof.
  intros op ta tb t v1 v2 H H1 H2. unfold cmp_ty in H.
  destruct (class_of ta) as [ca|] eqn:Ea; try discriminate.
  destruct (class_of tb) as [cb|] eqn:Eb; try discriminate.
  destruct (is_scalar ca && is_scalar cb) eqn:E; try discriminate.
  destruct (lookup4 sig_binop (cmp_code op) (cls_tag ca) (cls_tag cb)) as [r|] eqn:L; try discriminate.
  apply lookup4_in in L.
  pose proof bin_table_ok as T. rewrite forallb_forall in T. specialize (T _ L).
  unfold bin_row_ok in T. rewrite !tag_cls_tag in T.
  assert (Hp : pow_ok true (cmp_code op) ca cb = true) by (destruct op; reflexivity).
  rewrite E, Hp in T. cbn [andb] in T.
  assert (Ho : (0 <=? cmp_code op) && (cmp_code op <=? 6) = false) by (destruct op; reflexivity).
  assert (Ho' : (7 <=? cmp_code op) && (cmp_code op <=? 12) = true) by (destruct op; reflexivity).
  rewrite Ho, Ho' in T.
  apply andb_true_iff in E. destruct E as [Sa Sb].
  apply (cmp_cond_sound op ca cb r t v1 v2 Sa Sb T H); eapply class_sound; eauto.
Qed.

Lemma un_sound : forall op ta t v,
  un_ty op ta = Some t -> has_ty v ta = true -> res_ok (lift (un_op op v)) t.
Proof.
  intros op ta t v H Hv. destruct op; cbn [un_ty] in H.
  - (* neg *)
    destruct (class_of ta) as [c|] eqn:Ec; try discriminate.
    destruct (is_scalar c) eqn:Sc; try discriminate.
    destruct (lookup3 sig_unop 0 (cls_tag c)) as [r|] eqn:L; try discriminate.
    apply lookup3_in in L. pose proof un_table_ok as T. rewrite forallb_forall in T. specialize (T _ L).
    unfold un_row_ok in T. rewrite tag_cls_tag, Sc in T.
    pose proof (class_sound _ _ _ Ec Hv) as Hc.
    destruct (int_like c) eqn:Ei.
    + destruct (cls_int _ _ Ei Hc) as [z [N [_ _]]]. cbn [un_op]. rewrite N. cbn.
      apply orb_true_iff in T. destruct T as [T|T]; apply Z.eqb_eq in T; subst r; inversion H; reflexivity.
    + destruct c; try discriminate. apply Z.eqb_eq in T. subst r. inversion H; subst.
      cbn in Hc. destruct v; try discriminate; cbn; auto.
  - (* pos *)
    destruct (class_of ta) as [c|] eqn:Ec; try discriminate.
    destruct (is_scalar c) eqn:Sc; try discriminate.
    destruct (lookup3 sig_unop 1 (cls_tag c)) as [r|] eqn:L; try discriminate.
    apply lookup3_in in L. pose proof un_table_ok as T. rewrite forallb_forall in T. specialize (T _ L).
    unfold un_row_ok in T. rewrite tag_cls_tag, Sc in T.
    pose proof (class_sound _ _ _ Ec Hv) as Hc.
    destruct (int_like c) eqn:Ei.
    + destruct (cls_int _ _ Ei Hc) as [z [N [_ _]]]. cbn [un_op]. rewrite N. cbn.
      apply orb_true_iff in T. destruct T as [T|T]; apply Z.eqb_eq in T; subst r; inversion H; reflexivity.
    + destruct c; try discriminate. apply Z.eqb_eq in T. subst r. inversion H; subst.
      cbn in Hc. destruct v; try discriminate; cbn; auto.
  - (* not *)
    destruct (sub ta T_Bool); try discriminate. inversion H; subst. reflexivity.
  - (* invert *)
    destruct (class_of ta) as [c|] eqn:Ec; try discriminate.
    destruct (int_like c) eqn:Ei; try discriminate. inversion H; subst.
    pose proof (class_sound _ _ _ Ec Hv) as Hc.
    destruct (cls_int _ _ Ei Hc) as [z [_ [N _]]]. cbn [un_op]. rewrite N. reflexivity.
Qed.

(** ** index *)
Lemma get_item_in : forall {A} (l : list A) z x, get_item l z = Ok x -> In x l.
Proof.
  intros A l z x H. unfold get_item in H.
  destruct ((_ <? 0) || (_ <=? _)); try discriminate.
  destruct (nth_error l _) eqn:E; try discriminate. inversion H; subst. eapply nth_error_In; eauto.
Qed.

Lemma get_item_err : forall {A} (l : list A) z e, get_item l z = Raise e -> e = IndexError.
Proof.
  intros A l z e H. unfold get_item in H.
  destruct ((_ <? 0) || (_ <=? _)); [inversion H; auto|].
  destruct (nth_error l _); inversion H; auto.
Qed.

Lemma get_item_fuel : forall {A} (l : list A) z, get_item l z <> OutOfFuel.
Proof.
  intros A l z H. unfold get_item in H.
  destruct ((_ <? 0) || (_ <=? _)); [discriminate|]. destruct (nth_error l _); discriminate.
Qed.

(* an index the checker accepts for a list of known length is in range *)
Lemma get_item_in_range : forall {A} (l : list A) k, 0 <= k < Z.of_nat (length l) -> exists x, get_item l k = Ok x.
Proof.
  intros A l k [H0 H1]. unfold get_item.
  assert (E1 : (k <? 0) = false) by (apply Z.ltb_ge; lia). rewrite E1.
  assert (E2 : (Z.of_nat (length l) <=? k) = false) by (apply Z.leb_gt; lia). rewrite E1, E2. cbn [orb].
  destruct (nth_error l (Z.to_nat k)) eqn:E; eauto.
  apply nth_error_None in E. lia.
Qed.

Lemma index_sound : forall ta i t va k,
  i = XLit (LNat k) -> index_ty ta i = Some t -> has_ty va ta = true ->
  res_ok (lift (index_op va (VInt k))) t.
Proof.
  intros ta i t va k -> H Hv. cbn [index_ty] in H. unfold index_op. cbn [as_int].
  assert (Hstr : (if (0 <=? k) && sub ta T_Str then Some T_Str else None) = Some t ->
                 res_ok (lift (match va with
                               | VList l | VTuple l => get_item l k
                               | VStr s => bind (get_item s k) (fun c => Ok (VStr [c]))
                               | _ => Raise TypeError end)) t).
  { intros Hs. destruct ((0 <=? k) && sub ta T_Str) eqn:E; try discriminate. inversion Hs; subst.
    apply andb_true_iff in E. destruct E as [_ E]. pose proof (sub_sound _ _ _ E Hv) as Hs'.
    cbn in Hs'. destruct va; try discriminate.
    destruct (get_item s k) eqn:G; cbn; auto.
    apply get_item_err in G. subst. cbn. split; auto; discriminate. }
  destruct ta; auto.
  destruct (idx_ok n k) eqn:E; try discriminate. inversion H; subst.
  cbn [has_ty] in Hv. destruct va; try discriminate.
  apply andb_true_iff in Hv. destruct Hv as [F _].
  destruct (get_item vs k) eqn:G; cbn; auto.
  - rewrite forallb_forall in F. apply F. eapply get_item_in; eauto.
  - apply get_item_err in G. subst. cbn. split; auto; discriminate.
Qed.

(** ** methods *)
Lemma popc_pos : forall p, 0 < popc p.
Proof. induction p; cbn [popc]; lia. Qed.
Lemma popcount_nonneg : forall z, 0 <= popcount z.
Proof. destruct z; cbn; try lia; pose proof (popc_pos p); lia. Qed.

Lemma sum_ints_nonneg : forall l, (forall x, In x l -> has_ty x T_Nat = true) -> exists z, sum_ints l = Some z /\ 0 <= z.
Proof.
  induction l as [|x r IH]; intros H; cbn [sum_ints]; [exists 0; split; auto; lia|].
  destruct IH as [z [Hz Pz]]; [intros y Hy; apply H; right; auto|].
  assert (Hx : has_cls x CNat = true) by (apply H; left; auto).
  destruct (cls_int CNat x eq_refl Hx) as [a [_ [N P]]]. rewrite N, Hz. eexists; split; eauto.
  specialize (P eq_refl). lia.
Qed.

Lemma sum_ints_int : forall l, (forall x, In x l -> has_ty x T_Int = true) -> exists z, sum_ints l = Some z.
Proof.
  induction l as [|x r IH]; intros H; cbn [sum_ints]; eauto.
  destruct IH as [z Hz]; [intros y Hy; apply H; right; auto|].
  assert (Hx : has_cls x CInt = true) by (apply H; left; auto).
  destruct (cls_int CInt x eq_refl Hx) as [a [_ [N _]]]. rewrite N, Hz. eauto.
Qed.

Lemma int_like_sub : forall c v, int_like c = true -> has_cls v c = true -> has_ty v T_Int = true.
Proof. intros c v H Hv. destruct c; try discriminate; destruct v; cbn in *; auto; discriminate. Qed.
Lemma nat_like_sub : forall c v, nat_like c = true -> has_cls v c = true -> has_ty v T_Nat = true.
Proof. intros c v H Hv. destruct c; try discriminate; destruct v; cbn in *; auto; discriminate. Qed.

Lemma meth_sound : forall m tr ts t vr vs,
  meth_ty m tr ts = Some t -> has_ty vr tr = true -> Forall2 (fun v t => has_ty v t = true) vs ts ->
  res_ok (meth_op m vr vs) t.
Proof.
  intros m tr ts t vr vs H Hr Ha. unfold meth_ty in H. unfold meth_op.
  destruct (meth_kind m) as [k|]; try discriminate.
  assert (Hscal : forall f : Z -> Z,
            (forall z, 0 <= f z \/ (k = KSucc \/ k = KPred)) ->
            (k = KSucc \/ k = KPred \/ k = KBitCount \/ k = KAbs) ->
            match ts, class_of tr with
            | [], Some c => if int_like c then match lookup3 sig_method (kind_sig_id k) (cls_tag c) with Some r => tag_ty r | None => None end else None
            | _, _ => None end = Some t ->
            res_ok (int_method vr vs f) t).
  { intros f Hf Hk Hs. destruct ts; try discriminate. inversion Ha; subst.
    destruct (class_of tr) as [c|] eqn:Ec; try discriminate.
    destruct (int_like c) eqn:Ei; try discriminate.
    destruct (lookup3 sig_method (kind_sig_id k) (cls_tag c)) as [r|] eqn:L; try discriminate.
    apply lookup3_in in L. pose proof meth_table_ok as T. rewrite forallb_forall in T. specialize (T _ L).
    unfold meth_row_ok in T. rewrite tag_cls_tag, Ei in T.
    pose proof (class_sound _ _ _ Ec Hr) as Hc. destruct (cls_int _ _ Ei Hc) as [z [_ [N _]]].
    unfold int_method. rewrite N. cbn [res_ok].
    destruct Hk as [Hk|[Hk|[Hk|Hk]]]; subst k; cbn in T;
      repeat (apply orb_true_iff in T; destruct T as [T|T]); apply Z.eqb_eq in T; subst r; inversion Hs; subst; cbn; auto;
      apply Z.leb_le; destruct (Hf z) as [?|[?|?]]; auto; discriminate. }
  destruct k.
  - apply Hscal; auto.
  - apply Hscal; auto.
  - apply Hscal; auto. intros z. left. apply popcount_nonneg.
  - apply Hscal; auto. intros z. left. apply Z.abs_nonneg.
  - (* abs(x) *)
    destruct ts; try discriminate. inversion Ha; subst.
    destruct (class_of tr) as [c|] eqn:Ec; try discriminate.
    destruct (int_like c) eqn:Ei; try discriminate.
    destruct (lookup3 sig_method (kind_sig_id KAbsF) (cls_tag c)) as [r|] eqn:L; try discriminate.
    apply lookup3_in in L. pose proof meth_table_ok as T. rewrite forallb_forall in T. specialize (T _ L).
    unfold meth_row_ok in T. rewrite tag_cls_tag, Ei in T.
    pose proof (class_sound _ _ _ Ec Hr) as Hc. destruct (cls_int _ _ Ei Hc) as [z [N _]].
    unfold abs_op. rewrite N. cbn in T |- *.
    repeat (apply orb_true_iff in T; destruct T as [T|T]); apply Z.eqb_eq in T; subst r; inversion H; subst; cbn; auto.
    apply Z.leb_le. apply Z.abs_nonneg.
  - (* len *)
    destruct ts; try discriminate. inversion Ha; subst.
    assert (Hs : (if sub tr T_Str then Some T_Nat else None) = Some t -> res_ok (lift (len_op vr)) t).
    { intros Hs. destruct (sub tr T_Str) eqn:E; try discriminate. inversion Hs; subst.
      pose proof (sub_sound _ _ _ E Hr) as Hv. cbn in Hv. destruct vr; try discriminate. cbn. apply Z.leb_le. lia. }
    destruct tr; auto. inversion H; subst. cbn in Hr. destruct vr; try discriminate. cbn. apply Z.leb_le. lia.
  - (* push *)
    destruct ts as [|te [|? ?]]; try discriminate. destruct tr; try discriminate.
    destruct (is_some (lookup3 sig_method M_push 9)); try discriminate.
    destruct (join_ty tr te) as [tj|] eqn:J; try discriminate. inversion H; subst.
    inversion Ha as [|v ? vr' ? Hv Hrest]; subst. inversion Hrest; subst.
    cbn [has_ty] in Hr. destruct vr as [z|b0|fb|s0| |lr|tl|c1 c2 c3 c4]; try discriminate.
    apply andb_true_iff in Hr. destruct Hr as [F L]. cbn [res_ok has_ty].
    apply andb_true_iff. split.
    + apply forallb_app_true.
      * rewrite forallb_forall in F |- *. intros x Hx. eapply join_sound_l; eauto.
      * cbn. rewrite (join_sound_r _ _ _ _ J Hv). reflexivity.
    + apply (len_add_ok n (Some 1) lr [v]); auto.
  - (* sum *)
    destruct ts; try discriminate. destruct tr; try discriminate.
    destruct (is_some (lookup3 sig_method M_sum 9)); try discriminate.
    destruct (class_of tr) as [c|] eqn:Ec; try discriminate.
    inversion Ha; subst. cbn [has_ty] in Hr. destruct vr as [z|b0|fb|s0| |lr|tl|c1 c2 c3 c4]; try discriminate.
    apply andb_true_iff in Hr. destruct Hr as [F _]. rewrite forallb_forall in F.
    destruct (nat_like c) eqn:En.
    + inversion H; subst.
      destruct (sum_ints_nonneg lr) as [z [-> P]].
      { intros x Hx. eapply nat_like_sub; eauto. eapply class_sound; eauto. }
      cbn. apply Z.leb_le. auto.
    + destruct (int_like c) eqn:Ei; try discriminate. inversion H; subst.
      destruct (sum_ints_int lr) as [z ->].
      { intros x Hx. eapply int_like_sub; eauto. eapply class_sound; eauto. }
      reflexivity.
Qed.

(** ** the wrapper never fires on a value of the static type *)
Lemma wrap_ok : forall t v, has_ty v t = true -> wrapv (Some t) v = R_ok v.
Proof.
  intros t v H. unfold wrapv. destruct (class_of t) as [c|] eqn:E; auto.
  destruct c; auto. pose proof (class_sound _ _ _ E H) as Hc. change (has_ty v T_Nat = true) in Hc. rewrite Hc. reflexivity.
Qed.
