(** * Typing.Types — the types of the checked fragment, their denotation over run-time values, subtyping.

    Shared by C05 (definite static errors), C02 (type soundness), C34 (inferred types describe values).
    Values are the plain Python values of CoreErg/Sem.v ([value]; closures never have a type here).

    [ety]   Nat Int Float Str Bool NoneType, enum/singleton {v, ...} (a finite set of constant values, as erg prints
            `{3}`, `{1, 2}`, `{"a"}`, `{[1, 2, 3]}`), closed integer interval lo..hi, List(T) / List(T, N).
    [has_ty v t]   the denotation: membership of a run-time value in a type (executable: this is the judge of C34).
            Erg's numeric tower Bool <: Nat <: Int <: Float (property C06, theorem tower) is read set-theoretically:
            a bool is a Nat, a non-negative int is a Nat, an int is a Float.
    [sub a b]      subtyping used by the checker, sound for the denotation (ProofsTypes.sub_sound).
    [class_of t]   the builtin class an operator is resolved on (the widening erg performs before looking up
            `Nat.__add__` ...): the class of an enum is the join of the classes of its members.
    No proofs here. *)
From Coq Require Import ZArith List Bool.
From ErgV Require Import CoreErg.Syntax CoreErg.Sem.
Import ListNotations.
Open Scope Z_scope.

Inductive ety : Type :=
| T_None | T_Bool | T_Nat | T_Int | T_Float | T_Str
| T_Enum (vs : list value)
| T_Ival (lo hi : Z)
| T_List (t : ety) (n : option Z).

(** ** structural equality of constant values (closures are never equal to anything) *)
Fixpoint zs_eqb (a b : list Z) : bool :=
  match a, b with
  | [], [] => true
  | x :: r, y :: s => (x =? y) && zs_eqb r s
  | _, _ => false
  end.

Fixpoint veqb (a b : value) {struct a} : bool :=
  match a, b with
  | VInt x, VInt y => x =? y
  | VBool x, VBool y => Bool.eqb x y
  | VFloat x, VFloat y => x =? y
  | VStr x, VStr y => zs_eqb x y
  | VNone, VNone => true
  | VList xs, VList ys =>
    (fix go (xs ys : list value) : bool :=
       match xs, ys with
       | [], [] => true
       | x :: xr, y :: yr => veqb x y && go xr yr
       | _, _ => false
       end) xs ys
  | _, _ => false
  end.

Fixpoint veqbs (xs ys : list value) : bool :=
  match xs, ys with
  | [], [] => true
  | x :: xr, y :: yr => veqb x y && veqbs xr yr
  | _, _ => false
  end.

(** ** denotation *)
Definition len_ok {A} (n : option Z) (l : list A) : bool :=
  match n with None => true | Some k => Z.of_nat (length l) =? k end.

Fixpoint has_ty (v : value) (t : ety) {struct t} : bool :=
  match t with
  | T_None => match v with VNone => true | _ => false end
  | T_Bool => match v with VBool _ => true | _ => false end
  | T_Nat => match v with VBool _ => true | VInt z => 0 <=? z | _ => false end
  | T_Int => match v with VBool _ | VInt _ => true | _ => false end
  | T_Float => match v with VBool _ | VInt _ | VFloat _ => true | _ => false end
  | T_Str => match v with VStr _ => true | _ => false end
  | T_Enum vs => existsb (veqb v) vs
  | T_Ival lo hi => match v with VInt z => (lo <=? z) && (z <=? hi) | _ => false end
  | T_List t' n => match v with VList l => forallb (fun x => has_ty x t') l && len_ok n l | _ => false end
  end.

(** ** classes *)
Inductive cls := CNat | CInt | CBool | CFloat | CStr | CNone | CList.

(* the tags of coq/gen/Sigs.v *)
Definition cls_tag (c : cls) : Z :=
  match c with CNat => 0 | CInt => 1 | CBool => 2 | CFloat => 5 | CStr => 7 | CList => 9 | CNone => 16 end.

Definition tag_cls (z : Z) : option cls :=
  match z with 0 => Some CNat | 1 => Some CInt | 2 => Some CBool | 5 => Some CFloat | 7 => Some CStr | 9 => Some CList
             | 16 => Some CNone | _ => None end.

(* the type of a scalar class; List has no class-level type (element type and length are tracked apart) *)
Definition cls_ty (c : cls) : option ety :=
  match c with
  | CNat => Some T_Nat | CInt => Some T_Int | CBool => Some T_Bool | CFloat => Some T_Float | CStr => Some T_Str
  | CNone => Some T_None | CList => None
  end.

Definition cls_eqb (a b : cls) : bool := cls_tag a =? cls_tag b.

(* rank in the tower Bool < Nat < Int < Float *)
Definition num_rank (c : cls) : option Z :=
  match c with CBool => Some 0 | CNat => Some 1 | CInt => Some 2 | CFloat => Some 3 | _ => None end.

Definition cjoin (a b : cls) : option cls :=
  if cls_eqb a b then Some a
  else match num_rank a, num_rank b with
       | Some x, Some y => Some (if x <=? y then b else a)
       | _, _ => None
       end.

Definition vclass (v : value) : option cls :=
  match v with
  | VBool _ => Some CBool
  | VInt z => Some (if 0 <=? z then CNat else CInt)
  | VFloat _ => Some CFloat
  | VStr _ => Some CStr
  | VNone => Some CNone
  | VList _ => Some CList
  | _ => None
  end.

Fixpoint enum_class (vs : list value) : option cls :=
  match vs with
  | [] => None
  | [v] => vclass v
  | v :: r => match vclass v, enum_class r with Some a, Some b => cjoin a b | _, _ => None end
  end.

Definition class_of (t : ety) : option cls :=
  match t with
  | T_None => Some CNone | T_Bool => Some CBool | T_Nat => Some CNat | T_Int => Some CInt | T_Float => Some CFloat
  | T_Str => Some CStr
  | T_Enum vs => enum_class vs
  | T_Ival lo hi => Some (if 0 <=? lo then CNat else CInt)
  | T_List _ _ => Some CList
  end.

(* widening to the class-level type (identity on lists) *)
Definition widen (t : ety) : option ety :=
  match t with
  | T_List _ _ => Some t
  | _ => match class_of t with Some c => cls_ty c | None => None end
  end.

(** ** subtyping *)
Definition base_sub (a b : ety) : bool :=
  match a, b with
  | T_None, T_None | T_Str, T_Str => true
  | T_Bool, (T_Bool | T_Nat | T_Int | T_Float) => true
  | T_Nat, (T_Nat | T_Int | T_Float) => true
  | T_Int, (T_Int | T_Float) => true
  | T_Float, T_Float => true
  | _, _ => false
  end.

Definition len_sub (n m : option Z) : bool :=
  match m with
  | None => true
  | Some k => match n with Some j => j =? k | None => false end
  end.

Fixpoint sub (a b : ety) {struct a} : bool :=
  match a with
  | T_Enum vs => forallb (fun v => has_ty v b) vs
  | T_Ival lo hi =>
    match b with
    | T_Ival l h => (l <=? lo) && (hi <=? h)
    | T_Nat => 0 <=? lo
    | T_Int | T_Float => true
    | _ => false
    end
  | T_List ta n =>
    match b with
    | T_List tb m => sub ta tb && len_sub n m
    | _ => false
    end
  | _ => base_sub a b
  end.

(** least upper bound used for the arms of an if-expression, the elements of a list literal, push and `+` on lists:
    one side if it is above the other, the union of two enums, otherwise the join of the classes *)
Definition join_ty (a b : ety) : option ety :=
  if sub a b then Some b
  else if sub b a then Some a
  else match a, b with
       | T_Enum x, T_Enum y => Some (T_Enum (x ++ y))
       | _, _ =>
         match class_of a, class_of b with
         | Some ca, Some cb => match cjoin ca cb with Some c => cls_ty c | None => None end
         | _, _ => None
         end
       end.

Definition len_add (n m : option Z) : option Z :=
  match n, m with Some a, Some b => Some (a + b) | _, _ => None end.
