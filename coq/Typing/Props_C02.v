(** C02 — type-checked programs do not fail with run-time type errors: property theorems (proofs in ProofsSound.v).

    Model: checker Typing/Check.v, run-time semantics Typing/Eval.v (operators of CoreErg/Sem.v + the Nat wrapper that
    codegen.rs puts around every typed operator/method/call result + user functions + builtin methods).  [run_prog
    false] is the model of erg as it is: acceptance and wrapper annotations with the operator table as declared.
    [type_error e]: e is TypeError, AttributeError, NameError or the wrapper's ValueError ("Nat can't be negative").
    The legitimate errors (ZeroDivisionError, IndexError, AssertionError, OverflowError of int->float) stay possible;
    [EUnmodelled] marks the operations CoreErg/Sem.v does not model (float // % **, negative exponent).

    The declared operator table gen/Sigs.v is consulted as it is when [strict = false]; with it the statement is FALSE
    (theorem [pow_declared_nat_refuted]: the compiler declares Int ** Int : Nat) — finding K_pow of known/C26.json,
    recorded for this property in known/C02.json.  [Known_C02 p] (Typing/Spec.v) is that class ([known_pow]: p is
    accepted with the declared table and rejected once `**` is restricted to non-negative operands) together with
    [known_ifarith] (arithmetic whose left operand is if-valued: erg types `if(a > b, (do: a), (do: b)) - 300` as Nat;
    a deviation of erg's inference from the rules modelled here, so it has no witness inside the model: its witness is
    replayed against erg by checks/c02.py).
    PARTIAL: fragment of Typing/Check.v (no classes, traits, generics, mutable objects, while!, keyword arguments,
    pattern definitions, procedures); erg is tied program by program (checks/c02.py). *)
From Coq Require Import ZArith List Bool.
From ErgV Require Import CoreErg.Syntax CoreErg.Sem Typing.Types Typing.Check Typing.Eval Typing.Spec Typing.ProofsTypes
     Typing.ProofsOps Typing.ProofsBasic Typing.ProofsSound.
Import ListNotations.
Open Scope Z_scope.

(** 1. soundness, for every fuel: an accepted program outside the known class never ends in one of the four classes *)
Theorem type_soundness : forall p fuel,
  typecheck false p = true -> Known_C02 p = false ->
  match snd (run_prog false fuel p) with
  | Uncaught e => type_error e = false /\ e <> EStatic
  | _ => True
  end.
Proof.
  intros p fuel H K. unfold Known_C02 in K. apply orb_false_iff in K. destruct K as [K _].
  unfold known_pow in K. rewrite H in K. cbn in K. apply negb_false_iff in K.
  rewrite (run_prog_gate fuel p H K). apply run_sound.
Qed.

(* under the hypotheses the program is indeed run (the guard only removes the K_pow class) *)
Theorem accepted_is_run : forall p fuel,
  typecheck false p = true -> Known_C02 p = false -> snd (run_prog false fuel p) <> Rejected.
Proof.
  intros p fuel H K. unfold run_prog. rewrite H. destruct (exec_block fuel p init_state); cbn; discriminate.
Qed.

Definition ex_ok : prog :=
  [TFun 1 false [(2, T_Nat, None); (3, T_Int, Some (XLit (LNeg (-7))))] None [(4, XBin OSub (XVar 2) (XVar 3))]
        (XBin OMul (XVar 4) (XMeth M_absf (XVar 3) []));
   TDef 5 None (XCall 1 [XLit (LNat 2)]);
   TPrint [XVar 5; XBin ODiv (XVar 5) (XLit (LNat 0))]].
Example type_soundness_nonvacuous :
  typecheck false ex_ok = true /\ Known_C02 ex_ok = false /\ snd (run_prog false 5 ex_ok) = Uncaught EZeroDiv.
Proof. repeat split; vm_compute; reflexivity. Qed.

(** 2. preservation, the lemma behind it: every evaluated expression yields a value of its static type *)
Theorem preservation : forall callf FS G en e t,
  callf_ok FS callf -> env_ok G en -> infer true FS G e = Some t ->
  match eval callf FS G en e with
  | R_ok v => has_ty v t = true
  | R_err er => type_error er = false /\ er <> EStatic
  | R_fuel => True
  end.
Proof. intros callf FS G en e t Hc He Hi. exact (eval_sound callf FS Hc e G en t He Hi). Qed.

(** 3. the declared result classes of the operator table are sound for the run-time operators (all rows used) *)
Theorem operator_table_sound : forall op ta tb t v1 v2,
  bin_ty true op ta tb = Some t -> has_ty v1 ta = true -> has_ty v2 tb = true ->
  match bin_op op v1 v2 with
  | Ok v => has_ty v t = true
  | Raise e => type_error (of_exn e) = false
  | OutOfFuel => True
  end.
Proof.
  intros op ta tb t v1 v2 H H1 H2. pose proof (bin_sound op ta tb t v1 v2 H H1 H2) as R.
  destruct (bin_op op v1 v2); cbn in R; auto. destruct R; auto.
Qed.

(** 4. with the table as declared the statement is false: x = -2; y = x ** 3 is accepted and the wrapper raises *)
Definition ex_pow : prog := [TDef 1 None (XLit (LNeg (-2))); TDef 2 None (XBin OPow (XVar 1) (XLit (LNat 3))); TPrint [XVar 2]].
Theorem pow_declared_nat_refuted :
  exists p, typecheck false p = true /\ known_pow p = true /\ snd (run_prog false 1 p) = Uncaught EWrapValue.
Proof. exists ex_pow. repeat split; vm_compute; reflexivity. Qed.
