(** * Typing.Spec — the executable parts of the three property statements (judges and known-finding classes).

    C05  [judge_c05 accepted executed]: a program with an injected definite error must be rejected and must not run.
    C02  [judge_c02 status]: the observed run-time outcome of an accepted program is not one of the four
         type-error classes.  [Known_C02 p]: p is accepted with the declared operator table (gen/Sigs.v as it is) but
         not once `**` is restricted to non-negative operands — the class K_pow (known/C26.json, same site):
         `Int ** Int`, `Nat ** Int`, `Int ** Nat` are declared Nat, `Float ** x` Float.
    C34  [judge_c34 v t]: the run-time value belongs to the reported type ([has_ty], ProofsTypes / Props_C34).
         [known_c34 p x]: class of the defining expression of binding x for which erg reports an unsound type
         (findings, see below). *)
From Coq Require Import ZArith List Bool.
From ErgV Require Import CoreErg.Syntax CoreErg.Sem Typing.Types Typing.Check Typing.Eval.
Import ListNotations.
Open Scope Z_scope.

(** K_pow: accepted with the declared table, rejected once `**` is restricted to non-negative operands *)
Definition known_pow (p : prog) : bool := typecheck false p && negb (typecheck true p).

(** K_ifarith (known_enum_arith of known/C01.json; a deviation of erg's inference from the reference rules, so it is
    described on the syntax): an arithmetic operator whose left (or only) operand is *if-valued* — an if-expression, a
    variable bound to one, a call of a function whose result expression is one, or an element taken from a list literal
    that contains one.  erg then types the operation by the operand's type (`if(a > b, (do: a), (do: b)) - 300 : Nat`). *)
Fixpoint mem_z (x : Z) (l : list Z) : bool :=
  match l with [] => false | y :: r => (x =? y) || mem_z x r end.

Definition ifv0 (S : list Z) (e : tm) : bool :=
  match e with
  | XIf _ _ _ => true
  | XVar x => mem_z x S
  | XCall f _ => mem_z f S
  | _ => false
  end.

Definition ifv (S : list Z) (e : tm) : bool :=
  match e with
  | XIndex (XList es) _ => existsb (ifv0 S) es
  | _ => ifv0 S e
  end.

Fixpoint ifarith_tm (S : list Z) (e : tm) {struct e} : bool :=
  let any := fix any (es : list tm) : bool :=
    match es with [] => false | x :: r => ifarith_tm S x || any r end in
  match e with
  | XLit _ | XVar _ => false
  | XUn op a => (match op with UNot => false | _ => ifv S a end) || ifarith_tm S a
  | XBin _ a b => ifv S a || ifarith_tm S a || ifarith_tm S b
  | XCmp _ a b | XLogic _ a b => ifarith_tm S a || ifarith_tm S b
  | XList es => any es
  | XIndex a i => ifarith_tm S a || ifarith_tm S i
  | XIf c a b => ifarith_tm S c || ifarith_tm S a || ifarith_tm S b
  | XCall _ args => any args
  | XMeth _ r args => ifarith_tm S r || any args
  end.

Fixpoint ifarith_locals (S : list Z) (ls : list (Z * tm)) : bool * list Z :=
  match ls with
  | [] => (false, S)
  | (x, e) :: r =>
    let S' := if ifv S e then x :: S else S in
    let res := ifarith_locals S' r in
    (ifarith_tm S e || fst res, snd res)
  end.

Fixpoint ifarith_st (S : list Z) (s : st) {struct s} : bool * list Z :=
  let blk := fix blk (S : list Z) (ss : list st) : bool :=
    match ss with
    | [] => false
    | x :: r => let res := ifarith_st S x in fst res || blk (snd res) r
    end in
  match s with
  | TDef x _ e => (ifarith_tm S e, if ifv S e then x :: S else S)
  | TPrint es => (existsb (ifarith_tm S) es, S)
  | TAssert e => (ifarith_tm S e, S)
  | TFun f _ ps _ locals res =>
    let d := existsb (fun p => match snd p with Some e => ifarith_tm S e | None => false end) ps in
    let l := ifarith_locals S locals in
    (d || fst l || ifarith_tm (snd l) res, if ifv (snd l) res then f :: S else S)
  | TIf c th el => (ifarith_tm S c || blk S th || blk S el, S)
  | TFor _ it body => (ifarith_tm S it || blk S body, S)
  end.

Fixpoint ifarith_block (S : list Z) (ss : list st) : bool :=
  match ss with
  | [] => false
  | x :: r => let res := ifarith_st S x in fst res || ifarith_block (snd res) r
  end.

Definition known_ifarith (p : prog) : bool := ifarith_block [] p.

Definition Known_C02 (p : prog) : bool := known_pow p || known_ifarith p.

Definition judge_c05 (accepted executed : bool) : bool := negb accepted && negb executed.

Definition judge_c02 (s : status) : bool :=
  match s with Uncaught e => negb (type_error e) | _ => true end.

Definition judge_c34 (v : value) (t : ety) : bool := has_ty v t.

(** known classes of C34 (findings, known/C34.json), decided on the defining expression of a top-level binding:
    1  a `not e` inside: erg reports the operand's type for the negation ({True} for `not True`);
    2  a `.sum()` inside: erg reports the element type ({1, 2, 3} for [1, 2, 3].sum());
    3  a list `+` with an operand built by push / insert / remove_at / repeat or by another `+` (not a plain list literal): erg reports the length
       2 * N and the element type of one operand only (the DESIGN.md example l.push(4) + [5] : List(.., 8));
    a binding defined from a binding (or by a call of a function) of a class inherits the class.  The classes are
    syntactic over-approximations: they are consulted only for a binding whose membership test failed. *)
Section TmExists.
  Variable P : tm -> bool.
  Fixpoint tm_exists (e : tm) {struct e} : bool :=
    let any := fix any (es : list tm) : bool := match es with [] => false | x :: r => tm_exists x || any r end in
    P e ||
    match e with
    | XLit _ | XVar _ => false
    | XUn _ a => tm_exists a
    | XBin _ a b | XCmp _ a b | XLogic _ a b | XIndex a b => tm_exists a || tm_exists b
    | XList es => any es
    | XIf c a b => tm_exists c || tm_exists a || tm_exists b
    | XCall _ args => any args
    | XMeth _ r args => tm_exists r || any args
    end.
End TmExists.

(* push and the other length-changing List methods the check generates (insert 50, remove_at 51, repeat 52: not in
   the model's checker, only printed and judged) *)
Definition list_method (m : Z) : bool := (m =? M_push) || (m =? 50) || (m =? 51) || (m =? 52).

(* list-valued by its shape; derived = built by a list method or + (not a plain list literal) *)
Fixpoint listish (Lv : list Z) (e : tm) : bool :=
  match e with
  | XList _ => true
  | XMeth m _ _ => list_method m
  | XVar x => mem_z x Lv
  | XBin OAdd a b => listish Lv a || listish Lv b
  | _ => false
  end.

Definition derived (Lv Dv : list Z) (e : tm) : bool :=
  match e with
  | XMeth m _ _ => list_method m
  | XVar x => mem_z x Dv
  | XBin OAdd a b => listish Lv a || listish Lv b
  | _ => false
  end.

Fixpoint class_of_var (x : Z) (K : list (Z * Z)) : Z :=
  match K with [] => 0 | (y, c) :: r => if x =? y then c else class_of_var x r end.

Definition k34_tm (Lv Dv : list Z) (K : list (Z * Z)) (e : tm) : Z :=
  if tm_exists (fun x => match x with
                         | XBin OAdd a b => (listish Lv a || listish Lv b) && (derived Lv Dv a || derived Lv Dv b)
                         | _ => false end) e then 3
  else if tm_exists (fun x => match x with XMeth m _ _ => m =? M_sum | _ => false end) e then 2
  else if tm_exists (fun x => match x with XUn UNot _ => true | _ => false end) e then 1
  else fold_right Z.max 0 (map (fun kc => if tm_exists (fun x => match x with
                                                                 | XVar y => y =? fst kc
                                                                 | XCall f _ => f =? fst kc
                                                                 | _ => false end) e
                                          then snd kc else 0) K).

Fixpoint k34_walk (Lv Dv : list Z) (K : list (Z * Z)) (p : prog) : list (Z * Z) :=
  match p with
  | [] => K
  | TDef x _ e :: r =>
    k34_walk (if listish Lv e then x :: Lv else Lv) (if derived Lv Dv e then x :: Dv else Dv)
             ((x, k34_tm Lv Dv K e) :: K) r
  | TFun f _ _ _ locals res :: r =>
    k34_walk Lv Dv ((f, fold_right Z.max (k34_tm Lv Dv K res) (map (fun l => k34_tm Lv Dv K (snd l)) locals)) :: K) r
  | _ :: r => k34_walk Lv Dv K r
  end.

Definition known_c34 (p : prog) (x : Z) : Z := class_of_var x (k34_walk [] [] [] p).
