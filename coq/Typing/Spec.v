(** * Typing.Spec — the executable parts of the three property statements (judges and known-finding classes).

    C05  [judge_c05 accepted executed]: a program with an injected definite error must be rejected and must not run.
    C02  [judge_c02 status]: the observed run-time outcome of an accepted program is not one of the four
         type-error classes.  [Known_C02 p]: p is accepted with the declared operator table (gen/Sigs.v as it is) but
         not once `**` is restricted to non-negative operands — the class K_pow (known/C26.json, same site):
         `Int ** Int`, `Nat ** Int`, `Int ** Nat` are declared Nat, `Float ** x` Float.
    C34  [judge_c34 v t]: the run-time value belongs to the reported type ([has_ty], ProofsTypes / Props_C34).
         [known_c34 e]: syntactic classes of defining expressions for which erg reports an unsound type (findings):
         1 `not e` (the operand's type is reported for the negation), 2 `l.sum()` (the element type is reported),
         3 `a + b` on lists where an operand is not a list literal (length / element type of the left operand reused). *)
From Coq Require Import ZArith List Bool.
From ErgV Require Import CoreErg.Syntax CoreErg.Sem Typing.Types Typing.Check Typing.Eval.
Import ListNotations.
Open Scope Z_scope.

Definition Known_C02 (p : prog) : bool := typecheck false p && negb (typecheck true p).

Definition judge_c05 (accepted executed : bool) : bool := negb accepted && negb executed.

Definition judge_c02 (s : status) : bool :=
  match s with Uncaught e => negb (type_error e) | _ => true end.

Definition judge_c34 (v : value) (t : ety) : bool := has_ty v t.

Definition is_list_lit (e : tm) : bool := match e with XList _ => true | _ => false end.

Definition known_c34 (e : tm) : Z :=
  match e with
  | XUn UNot _ => 1
  | XMeth m _ _ => if m =? M_sum then 2 else 0
  | XBin OAdd a b => if is_list_lit a && is_list_lit b then 0 else 3
  | _ => 0
  end.
