(** C34 — inferred types describe the values bindings hold at run time: property theorems (proofs in Proofs*.v).

    [has_ty v t] (Typing/Types.v) is the membership test that checks/c34.py applies, extracted, to the type erg reports
    for every top-level binding and the value printed at run time.  The theorems say that the *reference* inference of
    Typing/Check.v is sound for it: singleton types of literals, enum types of if-expressions and list elements,
    class-level types of operators (declared table gen/Sigs.v, `**` restricted: see Props_C02), List(T, N) with
    push : N + 1 and + : N + M, and that an index accepted for a list of known length is in range.
    PARTIAL: the reference inference is not erg's (erg is tied binding by binding by the check); not modelled:
    interval arithmetic (erg does not infer interval types for the fragment: probed), map, refinement predicates. *)
From Coq Require Import ZArith List Bool Lia.
From ErgV Require Import CoreErg.Syntax CoreErg.Sem Typing.Types Typing.Check Typing.Eval Typing.Spec Typing.ProofsTypes
     Typing.ProofsOps Typing.ProofsBasic Typing.ProofsSound.
Import ListNotations.
Open Scope Z_scope.

(** 1. the value of a well-typed expression belongs to its inferred type *)
Theorem typing_value_sound : forall callf FS G en e t v,
  callf_ok FS callf -> env_ok G en -> infer true FS G e = Some t ->
  eval callf FS G en e = R_ok v -> has_ty v t = true.
Proof.
  intros callf FS G en e t v Hc He Hi Hv. pose proof (eval_sound callf FS Hc e G en t He Hi) as R.
  rewrite Hv in R. exact R.
Qed.

(** 2. every binding of an accepted program holds, at the end of the run, a value of the type inferred for it *)
Theorem bindings_sound : forall fuel p s FS G x t,
  check_prog true p = Some (FS, G) -> run_state true fuel p = Some s -> lookup_t x G = Some t ->
  exists v, lookup x (s_en s) = Some v /\ has_ty v t = true.
Proof.
  intros fuel p s FS G x t Hc Hr Hl. destruct (run_state_sound fuel p s FS G Hc Hr) as [_ [_ He]]. exact (He x t Hl).
Qed.

Definition ex_bind : prog :=
  [TDef 1 None (XList [XLit (LNat 1); XLit (LNat 2); XLit (LNat 3)]);
   TDef 2 None (XMeth M_push (XVar 1) [XLit (LNat 4)]);
   TDef 3 None (XBin OAdd (XVar 2) (XList [XLit (LNat 5)]));
   TDef 4 None (XIndex (XVar 3) (XLit (LNat 4)));
   TDef 5 None (XIf (XCmp CLt (XVar 4) (XLit (LNat 3))) (XLit (LStr [97])) (XLit (LStr [98])))].
Example bindings_nonvacuous :
  exists FS G s, check_prog true ex_bind = Some (FS, G) /\ run_state true 1 ex_bind = Some s /\
    lookup_t 3 G = Some (T_List (T_Enum [VInt 1; VInt 2; VInt 3; VInt 4; VInt 5]) (Some 5)) /\
    lookup 3 (s_en s) = Some (VList [VInt 1; VInt 2; VInt 3; VInt 4; VInt 5]) /\
    lookup_t 5 G = Some (T_Enum [VStr [97]; VStr [98]]) /\ lookup 5 (s_en s) = Some (VStr [98]).
Proof. do 3 eexists. repeat split; vm_compute; reflexivity. Qed.

(** 3. singleton: a literal has the type {v} and only v belongs to it *)
Theorem singleton_literal : forall strict FS G l v,
  infer strict FS G (XLit l) = Some (T_Enum [lit_value l]) /\ (has_ty v (T_Enum [lit_value l]) = true -> v = lit_value l).
Proof.
  intros. split; [reflexivity|]. intros H. apply has_enum_in in H. destruct H as [H|[]]. auto.
Qed.

(** 4. length-indexed lists: push adds one, + adds the lengths; the run-time lists have those lengths *)
Theorem push_length : forall strict FS G r a tr n t,
  infer strict FS G r = Some (T_List tr (Some n)) -> infer strict FS G (XMeth M_push r [a]) = Some t ->
  exists t', t = T_List t' (Some (n + 1)).
Proof.
  intros strict FS G r a tr n t Hr H. rewrite infer_XMeth, Hr in H. cbn [infers] in H.
  destruct (infer strict FS G a) as [ta|]; try discriminate.
  unfold meth_ty in H. cbn in H.
  destruct (join_ty tr ta); try discriminate. inversion H. eauto.
Qed.

Theorem concat_length : forall strict FS G a b ta n tb m t,
  infer strict FS G a = Some (T_List ta (Some n)) -> infer strict FS G b = Some (T_List tb (Some m)) ->
  infer strict FS G (XBin OAdd a b) = Some t -> exists t', t = T_List t' (Some (n + m)).
Proof.
  intros strict FS G a b ta n tb m t Ha Hb H. cbn [infer] in H. rewrite Ha, Hb in H. cbn [bin_ty] in H.
  destruct (is_some _); try discriminate. destruct (join_ty ta tb); try discriminate. inversion H. eauto.
Qed.

Theorem list_length_sound : forall v t n, has_ty v (T_List t (Some n)) = true -> exists l, v = VList l /\ Z.of_nat (length l) = n.
Proof.
  intros v t n H. cbn [has_ty] in H. destruct v; try discriminate. apply andb_true_iff in H. destruct H as [_ H].
  cbn in H. apply Z.eqb_eq in H. eauto.
Qed.

(** 5. an index the checker accepts for a list of known length is in range at run time: once the list is evaluated the
       element access succeeds (no IndexError) *)
Theorem accepted_index_in_range : forall callf FS G en a k ta n t va,
  callf_ok FS callf -> env_ok G en ->
  infer true FS G a = Some (T_List ta (Some n)) -> infer true FS G (XIndex a (XLit (LNat k))) = Some t ->
  eval callf FS G en a = R_ok va ->
  exists x, eval callf FS G en (XIndex a (XLit (LNat k))) = R_ok x.
Proof.
  intros callf FS G en a k ta n t va Hc He Ha Hi Hv. cbn [infer] in Hi. rewrite Ha in Hi. cbn [index_ty] in Hi.
  destruct (idx_ok (Some n) k) eqn:Ek; try discriminate. unfold idx_ok in Ek.
  apply andb_true_iff in Ek. destruct Ek as [K0 K1]. apply Z.leb_le in K0. apply Z.ltb_lt in K1.
  cbn [eval]. pose proof (eval_sound callf FS Hc a G en _ He Ha) as R. rewrite Hv in R |- *. cbn [rbind res_ok] in *.
  destruct (list_length_sound _ _ _ R) as [l [-> Hl]].
  cbn [eval rbind lit_value index_op as_int]. destruct (get_item_in_range l k) as [x ->]; [lia|]. cbn. eauto.
Qed.
