(** C16 — proofs.  Every finite fact is first established for the whole generated table by [vm_compute]
    (the [*_all] lemmas), then unpacked with [forallb_forall] and the soundness lemmas of the judges. *)
From Coq Require Import String NArith List Bool Lia.
From ErgV Require Import gen.Opcodes gen.Magic gen.CPython Tables.Model Tables.Spec.
Import ListNotations.
Open Scope N_scope.

(* ------------------------------------------------------------------ Prop-level statements *)
Definition row_prop (minor e : N) (name : string) (n : N) : Prop :=
  match cpy_lookup minor name with
  | Some m => m = n
  | None => erg_specific name = true
            \/ (exists c, In (name, c) aliases /\ cpy_lookup minor c = Some n)
            \/ ~ In (minor, e, name) erg_emitted
  end.

Definition site_prop (minor e : N) (name : string) : Prop :=
  name = "NOT_IMPLEMENTED"%string \/
  exists n c, erg_num e name = Some n /\ (c = name \/ In (name, c) aliases) /\ cpy_lookup minor c = Some n.

(* ------------------------------------------------------------------ small reflection lemmas *)
Lemma opt_is_true : forall o n, opt_is o n = true -> o = Some n.
Proof.
  intros [m|] n H; cbn in H; [|discriminate].
  apply N.eqb_eq in H. now subst.
Qed.

Lemma existsb_Neqb_In : forall n l, existsb (N.eqb n) l = true <-> In n l.
Proof.
  intros n l. rewrite existsb_exists. split.
  - intros [x [Hin He]]. apply N.eqb_eq in He. now subst.
  - intros H. exists n. split; [assumption|apply N.eqb_refl].
Qed.

Lemma alias_targets_In : forall name c, In c (alias_targets name) -> In (name, c) aliases.
Proof.
  intros name c H. unfold alias_targets in H.
  apply in_map_iff in H. destruct H as [[a b] [Hs Hin]].
  apply filter_In in Hin. destruct Hin as [Hin He]. cbn in Hs, He.
  apply String.eqb_eq in He. now subst.
Qed.

Lemma triple_eqb_refl : forall t, triple_eqb t t = true.
Proof.
  intros [[a b] c]. cbn. rewrite !N.eqb_refl, String.eqb_refl. reflexivity.
Qed.

Lemma is_emitted_false : forall minor e name, is_emitted minor e name = false -> ~ In (minor, e, name) erg_emitted.
Proof.
  intros minor e name H Hin. unfold is_emitted in H.
  assert (existsb (triple_eqb (minor, e, name)) erg_emitted = true) as Ht.
  { apply existsb_exists. exists (minor, e, name). split; [assumption|apply triple_eqb_refl]. }
  rewrite Ht in H. discriminate.
Qed.

Lemma row_ok_sound : forall minor e name n, row_ok minor e (name, n) = true -> row_prop minor e name n.
Proof.
  intros minor e name n H. unfold row_ok in H. unfold row_prop.
  destruct (cpy_lookup minor name) as [m|] eqn:Hl.
  - now apply N.eqb_eq in H.
  - apply orb_true_iff in H. destruct H as [H|H].
    + apply orb_true_iff in H. destruct H as [H|H].
      * now left.
      * right; left. apply existsb_exists in H. destruct H as [c [Hin Hc]].
        exists c. split; [now apply alias_targets_In|now apply opt_is_true].
    + right; right. apply negb_true_iff in H. now apply is_emitted_false.
Qed.

Lemma site_ok_sound : forall minor e name, site_ok (minor, e, name) = true -> site_prop minor e name.
Proof.
  intros minor e name H. unfold site_ok in H. unfold site_prop.
  apply orb_true_iff in H. destruct H as [H|H].
  - left. unfold error_marker in H. now apply String.eqb_eq in H.
  - right. destruct (erg_num e name) as [n|] eqn:Hn; [|discriminate].
    apply existsb_exists in H. destruct H as [c [Hin Hc]].
    exists n, c. split; [reflexivity|]. split; [|now apply opt_is_true].
    destruct Hin as [Hin|Hin]; [now left|right; now apply alias_targets_In].
Qed.

Lemma jump_site_ok_sound : forall minor e name n,
  jump_site_ok (minor, e, name) = true -> erg_num e name = Some n ->
  (is_jump_op n = true <-> In n (cpy_jumps minor)).
Proof.
  intros minor e name n H Hn. unfold jump_site_ok in H. rewrite Hn in H.
  apply eqb_prop in H. rewrite H. apply existsb_Neqb_In.
Qed.

Lemma In_u8s : forall op, op < 256 -> In op u8s.
Proof.
  intros op H. unfold u8s. apply in_map_iff. exists (N.to_nat op). split.
  - apply N2Nat.id.
  - apply in_seq. lia.
Qed.

Lemma arm_ok_sound : forall minor op rel, arm_ok minor op = true -> jump_abs_kind minor op = Ok rel ->
  if rel then In op (cpy_rel minor) else In op (cpy_abs minor).
Proof.
  intros minor op rel H Hk. unfold arm_ok in H. rewrite Hk in H.
  destruct rel; now apply existsb_Neqb_In.
Qed.

Lemma list_eqb_eq : forall a b, list_eqb a b = true -> a = b.
Proof.
  induction a as [|x a IH]; intros [|y b] H; unfold list_eqb in H; cbn in H; try discriminate; [reflexivity|].
  apply andb_true_iff in H. destruct H as [Hlen H].
  apply andb_true_iff in H. destruct H as [Hxy H].
  apply N.eqb_eq in Hxy. subst y. f_equal. apply IH. unfold list_eqb.
  apply andb_true_iff. split; assumption.
Qed.

Lemma get_ver_try : forall m v, get_ver_from_magic_num m = Ok v -> try_get_ver_from_magic_num m = Some v.
Proof.
  intros m v H. unfold get_ver_from_magic_num in H.
  destruct (try_get_ver_from_magic_num m) as [w|]; [|discriminate].
  injection H as H. now subst.
Qed.

Lemma magic_ok_sound : forall minor b0 b1 b2 b3, magic_ok (minor, [b0; b1; b2; b3]) = true -> minor <= 12 ->
  get_ver_from_magic_num (get_magic_num_from_bytes b0 b1 b2 b3) = Ok (3, minor)
  /\ try_get_ver_from_magic_num (get_magic_num_from_bytes b0 b1 b2 b3) = Some (3, minor)
  /\ get_magic_num_bytes (get_magic_num_from_bytes b0 b1 b2 b3) = [b0; b1; b2; b3].
Proof.
  intros minor b0 b1 b2 b3 H Hle. unfold magic_ok in H.
  assert (12 <? minor = false) as Hlt by (apply N.ltb_ge; exact Hle).
  rewrite Hlt in H.
  destruct (get_ver_from_magic_num (get_magic_num_from_bytes b0 b1 b2 b3)) as [[major mi]|] eqn:Hv; [|discriminate].
  apply andb_true_iff in H. destruct H as [H Hb].
  apply andb_true_iff in H. destruct H as [Hma Hmi].
  apply N.eqb_eq in Hma. apply N.eqb_eq in Hmi. subst.
  split; [reflexivity|]. split; [now apply get_ver_try|now apply list_eqb_eq].
Qed.

(* ------------------------------------------------------------------ the computations over the generated tables *)
Lemma rows_all : forallb (fun x : N * N * (string * N) => let '(minor, e, r) := x in row_ok minor e r) all_rows = true.
Proof. vm_compute. reflexivity. Qed.

Lemma sites_all : forallb site_ok erg_emitted = true.
Proof. vm_compute. reflexivity. Qed.

Lemma jump_sites_all : forallb jump_site_ok erg_emitted = true.
Proof. vm_compute. reflexivity. Qed.

Lemma raw_all : forallb raw_ok erg_emitted_raw = true.
Proof. vm_compute. reflexivity. Qed.

Lemma arms_all : forallb (fun minor => forallb (arm_ok minor) u8s) erg_versions = true.
Proof. vm_compute. reflexivity. Qed.

Lemma magic_all : forallb magic_ok cpy_magic = true.
Proof. vm_compute. reflexivity. Qed.

Lemma aliases_all : forallb (fun minor => forallb (alias_ok minor) aliases) erg_versions = true.
Proof. vm_compute. reflexivity. Qed.

Lemma emitted_versions_all : forallb (fun s : N * N * string => let '(minor, e, name) := s in existsb (N.eqb minor) erg_versions) erg_emitted = true.
Proof. vm_compute. reflexivity. Qed.

(* ------------------------------------------------------------------ unpacked statements *)
Lemma In_all_rows : forall minor e t name n,
  In minor erg_versions -> In e (tables_for minor) -> table_of e = Some t -> In (name, n) t ->
  In (minor, e, (name, n)) all_rows.
Proof.
  intros minor e t name n Hv He Ht Hin. unfold all_rows.
  apply in_flat_map. exists minor. split; [assumption|].
  apply in_flat_map. exists e. split; [assumption|].
  rewrite Ht. apply in_map_iff. exists (name, n). split; [reflexivity|assumption].
Qed.

Lemma table_rows_agree : forall minor e t name n,
  In minor erg_versions -> In e (tables_for minor) -> table_of e = Some t -> In (name, n) t ->
  row_prop minor e name n.
Proof.
  intros minor e t name n Hv He Ht Hin.
  apply row_ok_sound.
  pose proof (proj1 (forallb_forall _ _) rows_all _ (In_all_rows _ _ _ _ _ Hv He Ht Hin)) as H.
  exact H.
Qed.

Lemma emitted_defined : forall minor e name, In (minor, e, name) erg_emitted -> site_prop minor e name.
Proof.
  intros minor e name Hin. apply site_ok_sound.
  exact (proj1 (forallb_forall _ _) sites_all _ Hin).
Qed.

Lemma emitted_supported : forall minor e name, In (minor, e, name) erg_emitted -> In minor erg_versions.
Proof.
  intros minor e name Hin.
  pose proof (proj1 (forallb_forall _ _) emitted_versions_all _ Hin) as H. cbn beta iota in H.
  now apply existsb_Neqb_In.
Qed.

Lemma jump_classification : forall minor e name n,
  In (minor, e, name) erg_emitted -> erg_num e name = Some n ->
  (is_jump_op n = true <-> In n (cpy_jumps minor)).
Proof.
  intros minor e name n Hin Hn. apply (jump_site_ok_sound minor e name n); [|assumption].
  exact (proj1 (forallb_forall _ _) jump_sites_all _ Hin).
Qed.

Lemma raw_cache : forall minor b, In (minor, b) erg_emitted_raw -> b = 0 /\ cpy_lookup minor "CACHE" = Some 0.
Proof.
  intros minor b Hin.
  pose proof (proj1 (forallb_forall _ _) raw_all _ Hin) as H. unfold raw_ok in H.
  apply andb_true_iff in H. destruct H as [Hb Hc].
  apply N.eqb_eq in Hb. split; [assumption|now apply opt_is_true].
Qed.

Lemma jump_abs_arms : forall minor op rel,
  In minor erg_versions -> op < 256 -> jump_abs_kind minor op = Ok rel ->
  if rel then In op (cpy_rel minor) else In op (cpy_abs minor).
Proof.
  intros minor op rel Hv Hop Hk. apply arm_ok_sound; [|assumption].
  pose proof (proj1 (forallb_forall _ _) arms_all _ Hv) as H. cbn beta in H.
  exact (proj1 (forallb_forall _ _) H _ (In_u8s _ Hop)).
Qed.

Lemma magic_versions : forall minor b0 b1 b2 b3,
  In (minor, [b0; b1; b2; b3]) cpy_magic -> minor <= 12 ->
  get_ver_from_magic_num (get_magic_num_from_bytes b0 b1 b2 b3) = Ok (3, minor)
  /\ try_get_ver_from_magic_num (get_magic_num_from_bytes b0 b1 b2 b3) = Some (3, minor)
  /\ get_magic_num_bytes (get_magic_num_from_bytes b0 b1 b2 b3) = [b0; b1; b2; b3].
Proof.
  intros minor b0 b1 b2 b3 Hin Hle. apply magic_ok_sound; [|assumption].
  exact (proj1 (forallb_forall _ _) magic_all _ Hin).
Qed.

Lemma aliases_unambiguous : forall minor a c,
  In minor erg_versions -> In (a, c) aliases -> cpy_lookup minor a = None \/ cpy_lookup minor c = None.
Proof.
  intros minor a c Hv Hin.
  pose proof (proj1 (forallb_forall _ _) aliases_all _ Hv) as H. cbn beta in H.
  pose proof (proj1 (forallb_forall _ _) H _ Hin) as H2. unfold alias_ok in H2. cbn [fst snd] in H2.
  destruct (cpy_lookup minor a); [|now left].
  destruct (cpy_lookup minor c); [discriminate|now right].
Qed.
