(** C16 — what "the tables match CPython" means, as executable judges over the generated tables.

    CPython's side ([ErgV.gen.CPython]) is regenerated on every run from [dis.opmap], [dis.hasjrel], [dis.hasjabs] and
    [importlib.util.MAGIC_NUMBER] of every installed interpreter. *)
From Coq Require Import String NArith List Bool.
From ErgV Require Import gen.Opcodes gen.Magic gen.CPython Tables.Model.
Import ListNotations.
Open Scope N_scope.

Definition cpy_lookup (minor : N) (name : string) : option N :=
  match assoc_n minor cpy_opmap with Some t => assoc_s name t | None => None end.
Definition cpy_rel (minor : N) : list N := match assoc_n minor cpy_hasjrel with Some l => l | None => [] end.
Definition cpy_abs (minor : N) : list N := match assoc_n minor cpy_hasjabs with Some l => l | None => [] end.
Definition cpy_jumps (minor : N) : list N := cpy_rel minor ++ cpy_abs minor.

(** names erg's tables spell differently from CPython, or borrow from the neighbouring version's table for the same
    instruction slot: (erg spelling, CPython spelling).  The list is itself checked ([alias_ok]): in no supported version
    does CPython define both spellings, so an alias can never hide a conflicting number. *)
Definition aliases : list (string * string) :=
  [ ("DUP_TOP2", "DUP_TOP_TWO");
    ("POP_JUMP_IF_FALSE", "POP_JUMP_FORWARD_IF_FALSE");  (* codegen.rs: "Opcode310::POP_JUMP_IF_FALSE == Opcode311::POP_JUMP_FORWARD_IF_FALSE" *)
    ("POP_JUMP_IF_TRUE", "POP_JUMP_FORWARD_IF_TRUE") ]%string.

Definition alias_targets (name : string) : list string :=
  map snd (filter (fun p => String.eqb (fst p) name) aliases).

(** opcodes that exist only in erg's own numbering space, never meant for CPython *)
Definition erg_specific (name : string) : bool :=
  String.prefix "ERG_" name || String.eqb name "NOT_IMPLEMENTED".

(** [NOT_IMPLEMENTED] is written only after a compile error has been reported (feature_error) *)
Definition error_marker (name : string) : bool := String.eqb name "NOT_IMPLEMENTED".

Definition opt_is (o : option N) (n : N) : bool := match o with Some m => N.eqb m n | None => false end.

Definition triple_eqb (a b : N * N * string) : bool :=
  let '(a1, a2, a3) := a in let '(b1, b2, b3) := b in (N.eqb a1 b1) && (N.eqb a2 b2) && (String.eqb a3 b3).
Definition is_emitted (minor e : N) (name : string) : bool := existsb (triple_eqb (minor, e, name)) erg_emitted.

(** a row [(name, n)] of table [e], read for version [minor] *)
Definition row_ok (minor e : N) (row : string * N) : bool :=
  let (name, n) := row in
  match cpy_lookup minor name with
  | Some m => N.eqb m n
  | None => erg_specific name
            || existsb (fun c => opt_is (cpy_lookup minor c) n) (alias_targets name)
            || negb (is_emitted minor e name)
  end.

(** an opcode mention reachable for [minor]: the byte it writes is the number CPython [minor] gives that instruction *)
Definition site_ok (s : N * N * string) : bool :=
  let '(minor, e, name) := s in
  error_marker name ||
  match erg_num e name with
  | None => false
  | Some n => existsb (fun c => opt_is (cpy_lookup minor c) n) (name :: alias_targets name)
  end.

Definition jump_site_ok (s : N * N * string) : bool :=
  let '(minor, e, name) := s in
  match erg_num e name with
  | None => true
  | Some n => Bool.eqb (is_jump_op n) (existsb (N.eqb n) (cpy_jumps minor))
  end.

Definition raw_ok (s : N * N) : bool :=
  let (minor, b) := s in (N.eqb b 0) && opt_is (cpy_lookup minor "CACHE") 0.

Definition u8s : list N := map N.of_nat (seq 0 256).

Definition arm_ok (minor op : N) : bool :=
  match jump_abs_kind minor op with
  | Ok true => existsb (N.eqb op) (cpy_rel minor)
  | Ok false => existsb (N.eqb op) (cpy_abs minor)
  | Panic => true
  end.

Definition alias_ok (minor : N) (p : string * string) : bool :=
  match cpy_lookup minor (fst p), cpy_lookup minor (snd p) with
  | Some _, Some _ => false
  | _, _ => true
  end.

Definition list_eqb (a b : list N) : bool :=
  (Nat.eqb (length a) (length b)) && forallb (fun p => N.eqb (fst p) (snd p)) (combine a b).

Definition magic_ok (m : N * list N) : bool :=
  let (minor, bs) := m in
  if 12 <? minor then true else
  match bs with
  | [b0; b1; b2; b3] =>
    let v := get_magic_num_from_bytes b0 b1 b2 b3 in
    match get_ver_from_magic_num v with
    | Ok (major, mi) => (N.eqb major 3) && (N.eqb mi minor) && list_eqb (get_magic_num_bytes v) bs
    | Panic => false
    end
  | _ => false
  end.

(** all rows to be judged, flattened: (minor, enum id, (name, number)) *)
Definition all_rows : list (N * N * (string * N)) :=
  flat_map (fun minor =>
    flat_map (fun e => match table_of e with Some t => map (fun r => (minor, e, r)) t | None => [] end) (tables_for minor))
  erg_versions.

(** the judges' negative lists: what the check prints when a theorem stops holding (each element is a failing input) *)
Definition bad_rows : list (N * N * string) :=
  map (fun x => let '(minor, e, r) := x in (minor, e, fst r)) (filter (fun x => let '(minor, e, r) := x in negb (row_ok minor e r)) all_rows).
Definition bad_sites : list (N * N * string) := filter (fun s => negb (site_ok s)) erg_emitted.
Definition bad_jump_sites : list (N * N * string) := filter (fun s => negb (jump_site_ok s)) erg_emitted.
Definition bad_raw : list (N * N) := filter (fun s => negb (raw_ok s)) erg_emitted_raw.
Definition bad_arms : list (N * N) :=
  flat_map (fun minor => map (fun op => (minor, op)) (filter (fun op => negb (arm_ok minor op)) u8s)) erg_versions.
Definition bad_magic : list (N * list N) := filter (fun m => negb (magic_ok m)) cpy_magic.
Definition bad_aliases : list (N * (string * string)) :=
  flat_map (fun minor => map (fun p => (minor, p)) (filter (fun p => negb (alias_ok minor p)) aliases)) erg_versions.
