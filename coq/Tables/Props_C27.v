(** C27 — stdlib declarations name attributes that really exist: the property theorem.

    Domain: [pystd_decls] (every public top-level declaration of every bundled pystd .d.er file, regenerated on every run by
    erg's own parser) against [py_attrs] (regenerated on every run from the installed interpreters 3.7-3.13 and the typeshed
    stubs on disk).  Proof by computation. *)
From Coq Require Import String NArith List Bool.
From ErgV Require Import gen.PyStd gen.PyAttrs Tables.Model27 Tables.Spec27 Tables.Proofs27.
Import ListNotations.
Open Scope N_scope.

(** Every attribute the bundled declarations of a Python standard-library module let a program access exists on that module,
    under the python name the declaration maps it to, in at least one source (an installed interpreter 3.7-3.13, or a
    platform branch of the typeshed stubs) — except the explicitly listed known findings. *)
Theorem C27_declared_attributes_exist : forall module ergname pyname,
  In (module, ergname, pyname) pystd_decls ->
  Known_C27 module pyname = false ->
  exists src, In src sources /\ has_attr src module pyname = true.
Proof. exact declared_attributes_exist. Qed.

(** Non-vacuity: there are many declarations, almost none in the known class, and the oracle is not trivially "yes":
    a name nobody defines is rejected. *)
Example decls_nonvacuous :
  (1000 <=? N.of_nat (length (filter (fun d : string * string * string => let '(m, e, p) := d in negb (Known_C27 m p)) pystd_decls))) = true.
Proof. vm_compute. reflexivity. Qed.

Example oracle_rejects_unknown_name : exists_somewhere "sys" "float_indo" = false /\ exists_somewhere "sys" "float_info" = true.
Proof. vm_compute. split; reflexivity. Qed.
