(** C27 — meaning of the generated declaration and attribute tables.

    [ErgV.gen.PyStd.pystd_decls]: every public top-level declaration of every bundled
    crates/erg_compiler/lib/pystd/**/*.d.er, as (python module, erg name, python name) — produced by erg's own parser.
    [ErgV.gen.PyAttrs.py_attrs]: per module, every attribute name seen in some source with the set of sources as a bit mask. *)
From Coq Require Import String NArith List Bool.
From ErgV Require Import gen.PyStd gen.PyAttrs.
Import ListNotations.
Open Scope N_scope.

Fixpoint assoc_str {A : Type} (k : string) (l : list (string * A)) : option A :=
  match l with
  | [] => None
  | (k', v) :: t => if String.eqb k k' then Some v else assoc_str k t
  end.

(** sources: 0..6 = dir(module) under CPython 3.7 .. 3.13; 7..13 = importable submodule of the package under 3.7 .. 3.13;
    14 = top-level name of the module's typeshed stub (any platform branch) *)
Definition sources : list N := [0; 1; 2; 3; 4; 5; 6; 7; 8; 9; 10; 11; 12; 13; 14].

Definition attr_mask (module name : string) : N :=
  match assoc_str module py_attrs with
  | None => 0
  | Some t => match assoc_str name t with Some m => m | None => 0 end
  end.

(** attribute [name] exists on [module] according to source [src] *)
Definition has_attr (src : N) (module name : string) : bool := N.testbit (attr_mask module name) src.
