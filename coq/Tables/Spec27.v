(** C27 — the judge: a declaration is fine when some source knows the python name on that module. *)
From Coq Require Import String NArith List Bool.
From ErgV Require Import gen.PyStd gen.PyAttrs Tables.Model27.
Import ListNotations.
Open Scope N_scope.

(** Known findings (also listed in /verif/known/C27.json): (module, python name) of declarations that name no existing
    attribute and are not repaired.  The theorem excludes exactly these pairs. *)
Definition known_c27 : list (string * string) :=
  [ ("collections.abc", "ContextManager");       (* lives in contextlib / typing, not in collections.abc *)
    ("collections.abc", "AsyncContextManager");
    ("hashlib", "HASH");                          (* the hash object type is _hashlib.HASH, not exported by hashlib *)
    ("hashlib", "HASHXOF");
    ("zlib", "Compress");                         (* types of compressobj()/decompressobj() are not module attributes *)
    ("zlib", "Decompress");
    ("os", "OSError") ]%string.                   (* `.OSError = OSError`: os exports the alias as os.error *)

Definition Known_C27 (module pyname : string) : bool :=
  existsb (fun k => String.eqb (fst k) module && String.eqb (snd k) pyname) known_c27.

Definition exists_somewhere (module pyname : string) : bool :=
  existsb (fun src => has_attr src module pyname) sources.

Definition decl_ok (d : string * string * string) : bool :=
  let '(module, ergname, pyname) := d in Known_C27 module pyname || exists_somewhere module pyname.

(** failing inputs; declarations in the known class that still fail *)
Definition bad_decls : list (string * string * string) := filter (fun d => negb (decl_ok d)) pystd_decls.
Definition known_decls : list (string * string * string) :=
  filter (fun d => let '(module, ergname, pyname) := d in Known_C27 module pyname && negb (exists_somewhere module pyname)) pystd_decls.
