(** C16 — model of the table-driven parts of erg's bytecode writer.

    The tables themselves are NOT written here: they are regenerated on every run from the Rust sources into
    [ErgV.gen.Opcodes] and [ErgV.gen.Magic] (translators in /verif/checks/c16.py).  This file only gives them their
    meaning: how a number is looked up, what [is_jump_op], [jump_abs_addr], [get_ver_from_magic_num],
    [get_magic_num_bytes] and [get_magic_num_from_bytes] compute from them.  Definitions only. *)
From Coq Require Import String NArith List Bool.
From ErgV Require Import gen.Opcodes gen.Magic.
Import ListNotations.
Open Scope N_scope.

(** association lists keyed by a name / by a number: first match, like a Rust [match] / enum lookup *)
Fixpoint assoc_s {A : Type} (k : string) (l : list (string * A)) : option A :=
  match l with
  | [] => None
  | (k', v) :: t => if String.eqb k k' then Some v else assoc_s k t
  end.

Fixpoint assoc_n {A : Type} (k : N) (l : list (N * A)) : option A :=
  match l with
  | [] => None
  | (k', v) :: t => if N.eqb k k' then Some v else assoc_n k t
  end.

(** first variant carrying number [n] (what [TryFrom<u8>] of the enum returns) *)
Fixpoint name_of_num (n : N) (l : list (string * N)) : option string :=
  match l with
  | [] => None
  | (k, v) :: t => if N.eqb n v then Some k else name_of_num n t
  end.

(** enum ids used by the translator: 0 = CommonOpcode, 8 = Opcode308, 9 = Opcode309, 10 = Opcode310, 11 = Opcode311 *)
Definition table_of (e : N) : option (list (string * N)) :=
  if e =? 0 then Some erg_common
  else if e =? 8 then Some erg_308
  else if e =? 9 then Some erg_309
  else if e =? 10 then Some erg_310
  else if e =? 11 then Some erg_311
  else None.

Definition all_tables : list N := [0; 8; 9; 10; 11].

(** [Enum::VARIANT as u8] *)
Definition erg_num (e : N) (name : string) : option N :=
  match table_of e with Some t => assoc_s name t | None => None end.

(** target versions the code generator supports (3.minor) and the enum written for each of them
    (opcode308.rs serves 3.7 and 3.8; CommonOpcode serves every version) *)
Definition erg_versions : list N := [7; 8; 9; 10; 11].
Definition tables_for (minor : N) : list N :=
  if (minor =? 7) || (minor =? 8) then [8; 0]
  else if minor =? 9 then [9; 0]
  else if minor =? 10 then [10; 0]
  else if minor =? 11 then [11; 0]
  else [].

(** opcode.rs [CommonOpcode::is_jump_op] *)
Definition is_jump_op (op : N) : bool := existsb (N.eqb op) erg_is_jump_list.

(** outcome of a function that may panic *)
Inductive res (A : Type) : Type :=
| Ok (a : A)
| Panic.
Arguments Ok {A} a.
Arguments Panic {A}.

(** ty/codeobj.rs [jump_abs_addr(minor_ver, op, idx, arg)]: which kind of address computation is applied.
    [Ok true]: the result depends on [idx] (relative jump); [Ok false]: it does not (absolute);
    [Panic]: [todo!] for an unsupported version, [try_from(op).unwrap()] on an unknown byte, or [unreachable!()]. *)
Fixpoint arm_lookup (e : N) (name : string) (l : list (N * string * bool)) : option bool :=
  match l with
  | [] => None
  | (e', n', r) :: t => if (N.eqb e e') && (String.eqb name n') then Some r else arm_lookup e name t
  end.

Definition jump_abs_kind (minor op : N) : res bool :=
  match assoc_n minor erg_jump_dispatch with
  | None => Panic
  | Some e =>
    match table_of e with
    | None => Panic
    | Some t =>
      match name_of_num op t with
      | None => Panic
      | Some name => match arm_lookup e name erg_jump_arms with Some r => Ok r | None => Panic end
      end
    end
  end.

(** serialize.rs [try_get_ver_from_magic_num]: the match arms in order; any other number is [None].
    [get_ver_from_magic_num] is the panicking wrapper ([None => panic!]).  (Before the split the single function had the
    same arms with [_ => panic!]; the wrapper below describes both shapes.) *)
Fixpoint ver_from_ranges (rs : list (N * N * N * N)) (m : N) : option (N * N) :=
  match rs with
  | [] => None
  | (lo, hi, major, minor) :: t => if (lo <=? m) && (m <=? hi) then Some (major, minor) else ver_from_ranges t m
  end.
Definition try_get_ver_from_magic_num (m : N) : option (N * N) := ver_from_ranges erg_magic_ranges m.
Definition get_ver_from_magic_num (m : N) : res (N * N) :=
  match try_get_ver_from_magic_num m with Some v => Ok v | None => Panic end.

(** serialize.rs [get_magic_num_from_bytes]: [u32::from_le_bytes([bytes[0], bytes[1], 0, 0])], bytes are u8 *)
Definition get_magic_num_from_bytes (b0 b1 b2 b3 : N) : N := b0 + 256 * b1.

(** serialize.rs [get_magic_num_bytes]: [(PREFIX | python_ver).to_le_bytes()] on u32 *)
Definition le_bytes32 (x : N) : list N :=
  [x mod 256; (x / 256) mod 256; (x / 65536) mod 256; (x / 16777216) mod 256].
Definition get_magic_num_bytes (python_ver : N) : list N := le_bytes32 (N.lor erg_magic_prefix python_ver).
