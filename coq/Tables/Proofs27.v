(** C27 — proof by computation over the generated tables. *)
From Coq Require Import String NArith List Bool.
From ErgV Require Import gen.PyStd gen.PyAttrs Tables.Model27 Tables.Spec27.
Import ListNotations.
Open Scope N_scope.

Lemma decls_all : forallb decl_ok pystd_decls = true.
Proof. vm_compute. reflexivity. Qed.

Lemma declared_attributes_exist : forall module ergname pyname,
  In (module, ergname, pyname) pystd_decls -> Known_C27 module pyname = false ->
  exists src, In src sources /\ has_attr src module pyname = true.
Proof.
  intros module ergname pyname Hin Hk.
  pose proof (proj1 (forallb_forall _ _) decls_all _ Hin) as H. unfold decl_ok in H.
  rewrite Hk in H. cbn [orb] in H. unfold exists_somewhere in H.
  apply existsb_exists in H. exact H.
Qed.
