(** C16 — opcode and magic-number tables match each CPython version: the property theorems.

    Domain: the tables of [ErgV.gen.Opcodes] / [ErgV.gen.Magic] (regenerated from crates/erg_common/opcode*.rs,
    serialize.rs, crates/erg_compiler/codegen.rs, ty/codeobj.rs on every run) against [ErgV.gen.CPython]
    (regenerated from dis / importlib.util of every installed interpreter on every run).  The bound of each statement is
    the generated table it quantifies over; proofs are by computation (Proofs.v).

    Versions are the minor numbers 7..11 (3.7 .. 3.11); enum ids: 0 CommonOpcode, 8/9/10/11 Opcode308..Opcode311. *)
From Coq Require Import String NArith List Bool.
From ErgV Require Import gen.Opcodes gen.Magic gen.CPython Tables.Model Tables.Spec Tables.Proofs.
Import ListNotations.
Open Scope N_scope.

(** 1. Every row [(name, n)] of the table erg keeps for version [minor]: if CPython [minor] defines [name], it defines it
    as [n].  Otherwise the name is erg's own ([ERG_*], [NOT_IMPLEMENTED]), or CPython spells the same slot differently and
    gives it the same number (explicit alias list), or the row is dead for that version: the code generator cannot emit it
    when targeting [minor]. *)
Theorem C16_table_rows_agree : forall minor e t name n,
  In minor erg_versions -> In e (tables_for minor) -> table_of e = Some t -> In (name, n) t ->
  match cpy_lookup minor name with
  | Some m => m = n
  | None => erg_specific name = true
            \/ (exists c, In (name, c) aliases /\ cpy_lookup minor c = Some n)
            \/ ~ In (minor, e, name) erg_emitted
  end.
Proof. exact table_rows_agree. Qed.

(** 2. Every opcode the code generator can emit when targeting [minor] (whatever enum it takes the number from) is written
    as the number CPython [minor] assigns to that instruction (under the same name or its alias); the only exception is
    the [NOT_IMPLEMENTED] marker written after a compile error has been reported. *)
Theorem C16_emitted_opcodes_defined : forall minor e name,
  In (minor, e, name) erg_emitted ->
  name = "NOT_IMPLEMENTED"%string \/
  exists n c, erg_num e name = Some n /\ (c = name \/ In (name, c) aliases) /\ cpy_lookup minor c = Some n.
Proof. exact emitted_defined. Qed.

Theorem C16_emitted_only_for_supported_versions : forall minor e name,
  In (minor, e, name) erg_emitted -> In minor erg_versions.
Proof. exact emitted_supported. Qed.

(** 3. Raw code units written with [write_bytes(&[0; N])] are CPython's [CACHE] entries. *)
Theorem C16_cache_bytes : forall minor b,
  In (minor, b) erg_emitted_raw -> b = 0 /\ cpy_lookup minor "CACHE" = Some 0.
Proof. exact raw_cache. Qed.

(** 4. Jump classification as the code generator uses it ([is_jump_op] is applied to the opcode byte just written):
    for every opcode that can be emitted for [minor], [is_jump_op] answers true exactly when CPython [minor] lists the
    opcode in [hasjrel] or [hasjabs]. *)
Theorem C16_jump_classification : forall minor e name n,
  In (minor, e, name) erg_emitted -> erg_num e name = Some n ->
  (is_jump_op n = true <-> In n (cpy_rel minor ++ cpy_abs minor)).
Proof. exact jump_classification. Qed.

(** 5. [jump_abs_addr minor op idx arg] (op : u8): whenever it does not panic, it computes the target relative to [idx]
    exactly for CPython [minor]'s relative jumps and independently of [idx] exactly for its absolute jumps. *)
Theorem C16_jump_abs_addr_arms : forall minor op rel,
  In minor erg_versions -> op < 256 -> jump_abs_kind minor op = Ok rel ->
  if rel then In op (cpy_rel minor) else In op (cpy_abs minor).
Proof. exact jump_abs_arms. Qed.

(** 6. Magic numbers: for every installed interpreter 3.7 .. 3.12 with [MAGIC_NUMBER = b0 b1 b2 b3], the number erg derives
    from the first two bytes maps back to exactly that version (through the panicking [get_ver_from_magic_num] and through
    [try_get_ver_from_magic_num], which the .pyc reader uses), and the header erg writes for it is [b0 b1 b2 b3]. *)
Theorem C16_magic_number_roundtrip : forall minor b0 b1 b2 b3,
  In (minor, [b0; b1; b2; b3]) cpy_magic -> minor <= 12 ->
  get_ver_from_magic_num (get_magic_num_from_bytes b0 b1 b2 b3) = Ok (3, minor)
  /\ try_get_ver_from_magic_num (get_magic_num_from_bytes b0 b1 b2 b3) = Some (3, minor)
  /\ get_magic_num_bytes (get_magic_num_from_bytes b0 b1 b2 b3) = [b0; b1; b2; b3].
Proof. exact magic_versions. Qed.

(** 7. The alias list is not assumed: in no supported version does CPython define both spellings of an alias pair, so the
    alias clause of theorems 1 and 2 can never excuse a number that conflicts with CPython's own entry for the name. *)
Theorem C16_aliases_unambiguous : forall minor a c,
  In minor erg_versions -> In (a, c) aliases -> cpy_lookup minor a = None \/ cpy_lookup minor c = None.
Proof. exact aliases_unambiguous. Qed.

(** Non-vacuity: the tables are populated and most comparisons are against a name CPython really defines. *)
Example rows_nonvacuous :
  (600 <=? N.of_nat (length (filter (fun x : N * N * (string * N) => let '(minor, e, r) := x in
                                      match cpy_lookup minor (fst r) with Some _ => true | None => false end) all_rows))) = true.
Proof. vm_compute. reflexivity. Qed.

Example emitted_nonvacuous :
  forallb (fun minor => 50 <=? N.of_nat (length (filter (fun s : N * N * string => N.eqb (fst (fst s)) minor) erg_emitted))) erg_versions = true.
Proof. vm_compute. reflexivity. Qed.

Example jumps_nonvacuous :
  forallb (fun minor => 4 <=? N.of_nat (length (filter (fun s : N * N * string =>
     N.eqb (fst (fst s)) minor && match erg_num (snd (fst s)) (snd s) with Some n => is_jump_op n | None => false end) erg_emitted))) erg_versions = true.
Proof. vm_compute. reflexivity. Qed.

Example arms_nonvacuous :
  forallb (fun minor => 4 <=? N.of_nat (length (filter (fun op => match jump_abs_kind minor op with Ok _ => true | Panic => false end) u8s))) erg_versions = true.
Proof. vm_compute. reflexivity. Qed.

Example magic_nonvacuous :
  (6 <=? N.of_nat (length (filter (fun m : N * list N => fst m <=? 12) cpy_magic))) = true.
Proof. vm_compute. reflexivity. Qed.
