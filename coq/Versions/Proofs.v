(** * Proofs for C13: for every target version the code generator model is correct w.r.t. that version's machine model
    and the evaluator Sem.v, on the expression/statement fragment.  Structure follows CoreErg/Proofs_C01.v (whose
    version-independent lemmas about pools, wrapping and the evaluator are reused); new here: the version branches and
    the position bookkeeping for absolute jump targets (3.7 - 3.10). *)
From Coq Require Import ZArith List Bool Lia.
From ErgV Require Import Common.Sx CoreErg.Syntax CoreErg.Sem CoreErg.Codegen CoreErg.VM CoreErg.Spec_C01 CoreErg.Proofs_C01.
From ErgV Require Import Versions.Model.
Import ListNotations.
Close Scope string_scope.
Close Scope N_scope.
Open Scope list_scope.
Open Scope Z_scope.

Local Arguments wrap_call : simpl never.
Local Arguments print_line : simpl never.

Lemma len_app : forall A (a b : list A), len (a ++ b) = len a + len b.
Proof. intros. unfold len. rewrite app_length. lia. Qed.
Lemma len_nonneg : forall A (a : list A), 0 <= len a.
Proof. intros. unfold len. lia. Qed.
Lemma len_cons : forall A (x : A) l, len (x :: l) = 1 + len l.
Proof. intros. unfold len. cbn [length]. lia. Qed.
Lemma len_nil : forall A, len (@nil A) = 0.
Proof. reflexivity. Qed.

(** ** the machines *)
Section Machine.
  Variable v : pyver.
  Variable cs : list constv.
  Variable ns : list name.

  Lemma run_v_app : forall l1 l2 pos k st,
    run_v v cs ns (l1 ++ l2) pos k st =
    match run_v v cs ns l1 pos k st with
    | Halted o => Halted o
    | Reached k' st' => run_v v cs ns l2 (pos + len l1) k' st'
    end.
  Proof.
    induction l1 as [|[op a] l1 IH]; intros l2 pos k st; cbn [app run_v].
    - rewrite len_nil, Z.add_0_r. reflexivity.
    - rewrite len_cons. replace (pos + (1 + len l1)) with (pos + 1 + len l1) by lia.
      destruct k as [|k]; [|apply IH].
      destruct (step_v v cs ns pos op (vext st * 256 + a) st); [apply IH|reflexivity].
  Qed.

  Lemma run_v_skip : forall l pos k st,
    run_v v cs ns l pos (length l + k) st = Reached k st.
  Proof.
    induction l as [|[op a] l IH]; intros pos k st; cbn [length run_v Nat.add]; [reflexivity|apply IH].
  Qed.

  Definition nonjump (op : vop) : bool :=
    match op with X_JUMP_IF_FALSE_OR_POP | X_JUMP_IF_TRUE_OR_POP => false | _ => true end.

  Lemma step_v_pos_irrel : forall op, nonjump op = true -> forall p1 p2 arg st,
    step_v v cs ns p1 op arg st = step_v v cs ns p2 op arg st.
  Proof. intros op H p1 p2 arg st. destruct op; try discriminate; reflexivity. Qed.

  Lemma step_v_ext_irrel : forall pos op arg s e o x y,
    step_v v cs ns pos op arg (mkVm s e o x) = step_v v cs ns pos op arg (mkVm s e o y).
  Proof. intros; unfold step_v. destruct (negb (has_op v op)); [reflexivity|]. destruct op; reflexivity. Qed.

  Definition run1_v (op : vop) (arg : Z) (st : vm) : pref_res :=
    match step_v v cs ns 0 op arg st with Next k st' => Reached k st' | Halt o => Halted o end.

  Lemma has_ext : has_op v X_EXTENDED_ARG = true.
  Proof. reflexivity. Qed.

  Lemma run_write_op_v : forall op arg c pos st,
    write_op_v op arg = COk c -> nonjump op = true -> 0 <= arg -> vext st = 0 ->
    run_v v cs ns c pos 0 st = run1_v op arg st.
  Proof.
    intros op arg c pos st H Hnj Hpos Hext. unfold write_op_v in H.
    destruct st as [s e o x]; cbn [vext] in Hext; subst x.
    destruct (arg <? 256) eqn:E1.
    { inversion H; subst c; clear H. unfold run1_v; cbn [run_v vext]. rewrite Z.mul_0_l, Z.add_0_l.
      rewrite (step_v_pos_irrel op Hnj pos 0).
      destruct (step_v v cs ns 0 op arg (mkVm s e o 0)); reflexivity. }
    destruct (arg <? 65536) eqn:E2.
    { inversion H; subst c; clear H. unfold run1_v; cbn [run_v vext].
      unfold step_v at 1. rewrite has_ext. cbn [negb stack venv vout vext].
      rewrite Z.mul_0_l, Z.add_0_l.
      replace (arg / 256 * 256 + arg mod 256) with arg by (rewrite (Z.div_mod arg 256) at 1; lia).
      rewrite (step_v_ext_irrel _ op arg s e o (arg / 256) 0).
      rewrite (step_v_pos_irrel op Hnj (pos + 1) 0).
      destruct (step_v v cs ns 0 op arg (mkVm s e o 0)); reflexivity. }
    destruct (arg <? 4294967296) eqn:E3; [|discriminate].
    inversion H; subst c; clear H. unfold run1_v; cbn [run_v vext].
    unfold step_v at 1. rewrite has_ext. cbn [negb stack venv vout vext].
    unfold step_v at 1. rewrite has_ext. cbn [negb stack venv vout vext].
    unfold step_v at 1. rewrite has_ext. cbn [negb stack venv vout vext].
    rewrite Z.mul_0_l, Z.add_0_l.
    replace (((arg / 16777216 * 256 + arg / 65536 mod 256) * 256 + arg / 256 mod 256) * 256 + arg mod 256) with arg.
    2:{ apply Z.ltb_ge in E1. apply Z.ltb_ge in E2. apply Z.ltb_lt in E3. Z.div_mod_to_equations. lia. }
    rewrite (step_v_ext_irrel _ op arg s e o _ 0).
    rewrite (step_v_pos_irrel op Hnj (pos + 1 + 1 + 1) 0).
    destruct (step_v v cs ns 0 op arg (mkVm s e o 0)); reflexivity.
  Qed.
End Machine.

Lemma write_op_v_len_pos : forall op arg c, write_op_v op arg = COk c -> 1 <= len c.
Proof.
  intros op arg c H. unfold write_op_v in H.
  destruct (arg <? 256); [inversion H; subst; cbv; discriminate|].
  destruct (arg <? 65536); [inversion H; subst; cbv; discriminate|].
  destruct (arg <? 4294967296); [inversion H; subst; cbv; discriminate|discriminate].
Qed.

(** ** loading constants and names: as for 3.11, for every version *)
Section Loads.
  Variable v : pyver.

  Lemma emit_load_const_v_correct : forall p c code p',
    emit_load_const_v p c = COk (code, p') ->
    extends p p' /\
    forall P, extends p' P -> forall pos st, vext st = 0 ->
      run_v v (p_consts P) (p_names P) code pos 0 st = Reached 0 (with_stack st (SV (cval c) :: stack st)).
  Proof.
    intros p c code p' H. unfold emit_load_const_v in H.
    destruct (register_const const_same p c) as [i p1] eqn:R.
    apply (register_const_spec const_same const_same_sound) in R. destruct R as [Hext [Hi [c' [Hn Hv]]]].
    destruct (write_op_v X_LOAD_CONST i) as [co|] eqn:W; cbn [cbind] in H; [|discriminate].
    inversion H; subst code p'; clear H. split; [exact Hext|].
    intros P HP pos st Hx. rewrite (run_write_op_v v _ _ _ _ _ pos _ W eq_refl Hi Hx). unfold run1_v, step_v.
    cbn [has_op negb]. rewrite (nth_error_extends_consts _ _ _ _ HP Hn). rewrite Hv. reflexivity.
  Qed.

  Lemma emit_load_name_v_run : forall p n code p',
    emit_load_name_v p n = COk (code, p') ->
    extends p p' /\ exists i, 0 <= i /\ nth_error (p_names p') (Z.to_nat i) = Some n /\
    forall P pos st, vext st = 0 ->
      run_v v (p_consts P) (p_names P) code pos 0 st = run1_v v (p_consts P) (p_names P) X_LOAD_NAME i st.
  Proof.
    intros p n code p' H. unfold emit_load_name_v in H.
    destruct (register_name p n) as [i p1] eqn:R.
    apply register_name_spec in R. destruct R as [Hext [Hi Hn]].
    destruct (write_op_v X_LOAD_NAME i) as [co|] eqn:W; cbn [cbind] in H; [|discriminate].
    inversion H; subst code p'; clear H. split; [exact Hext|]. exists i. split; [exact Hi|]. split; [exact Hn|].
    intros P pos st Hx. apply (run_write_op_v v _ _ _ _ _ pos _ W eq_refl Hi Hx).
  Qed.

  Lemma emit_store_name_v_run : forall p n code p',
    emit_store_name_v p n = COk (code, p') ->
    extends p p' /\ exists i, 0 <= i /\ nth_error (p_names p') (Z.to_nat i) = Some n /\
    forall P pos st, vext st = 0 ->
      run_v v (p_consts P) (p_names P) code pos 0 st = run1_v v (p_consts P) (p_names P) X_STORE_NAME i st.
  Proof.
    intros p n code p' H. unfold emit_store_name_v in H.
    destruct (register_name p n) as [i p1] eqn:R.
    apply register_name_spec in R. destruct R as [Hext [Hi Hn]].
    destruct (write_op_v X_STORE_NAME i) as [co|] eqn:W; cbn [cbind] in H; [|discriminate].
    inversion H; subst code p'; clear H. split; [exact Hext|]. exists i. split; [exact Hi|]. split; [exact Hn|].
    intros P pos st Hx. apply (run_write_op_v v _ _ _ _ _ pos _ W eq_refl Hi Hx).
  Qed.
End Loads.

(** ** expressions *)
Definition null_v (v : pyver) : list sval := if is311 v then [SNull] else [].

Definition computes_v (v : pyver) (P : pools) (c : list vunit) (base : Z) (en : env) (R : res value) : Prop :=
  forall st, vext st = 0 -> venv st = en ->
    match R with
    | Ok x => run_v v (p_consts P) (p_names P) c base 0 st = Reached 0 (with_stack st (SV x :: stack st))
    | Raise ex => run_v v (p_consts P) (p_names P) c base 0 st = Halted (rev (vout st), Some (Uncaught ex))
    | OutOfFuel => True
    end.

Lemma jump_skip_ok : forall v jpos n, 0 <= n ->
  jump_skip v (jpos + 1) (jump_arg_v v (2 * jpos) (2 * (jpos + 2 + n))) = Some (Z.to_nat n).
Proof.
  intros v jpos n Hn.
  assert (Hbytes : forall m, (if Z.even (2 * m) && (jpos + 1 <? 2 * m / 2) then Some (Z.to_nat (2 * m / 2 - (jpos + 1 + 1))) else None)
                             = if jpos + 1 <? m then Some (Z.to_nat (m - (jpos + 1 + 1))) else None).
  { intros m. rewrite Z.even_mul. cbn [Z.even orb andb]. rewrite (Z.mul_comm 2 m), Z.div_mul by lia. reflexivity. }
  assert (Hlt : (jpos + 1 <? jpos + 2 + n) = true) by (apply Z.ltb_lt; lia).
  destruct v.
  - change (jump_arg_v V307 (2 * jpos) (2 * (jpos + 2 + n))) with (2 * (jpos + 2 + n)). cbn [jump_skip].
    rewrite Hbytes, Hlt. f_equal. f_equal. lia.
  - change (jump_arg_v V308 (2 * jpos) (2 * (jpos + 2 + n))) with (2 * (jpos + 2 + n)). cbn [jump_skip].
    rewrite Hbytes, Hlt. f_equal. f_equal. lia.
  - change (jump_arg_v V309 (2 * jpos) (2 * (jpos + 2 + n))) with (2 * (jpos + 2 + n)). cbn [jump_skip].
    rewrite Hbytes, Hlt. f_equal. f_equal. lia.
  - change (jump_arg_v V310 (2 * jpos) (2 * (jpos + 2 + n))) with (2 * (jpos + 2 + n) / 2). cbn [jump_skip].
    rewrite (Z.mul_comm 2 (jpos + 2 + n)), Z.div_mul by lia. rewrite Hlt. f_equal. f_equal. lia.
  - change (jump_arg_v V311 (2 * jpos) (2 * (jpos + 2 + n))) with ((2 * (jpos + 2 + n) - 2 * jpos - 4) / 2). cbn [jump_skip].
    replace (2 * (jpos + 2 + n) - 2 * jpos - 4) with (n * 2) by lia. rewrite Z.div_mul by lia. reflexivity.
Qed.

Section ExprV.
  Variable v : pyver.

  Lemma run_call1_v : forall cs ns cc pos w x below en out,
    emit_call_v v 1 = COk cc ->
    run_v v cs ns cc pos 0 (mkVm (SV x :: SCallable (NCls w) :: null_v v ++ below) en out 0) =
    match wrap_call w x with
    | Ok x' => Reached 0 (mkVm (SV x' :: below) en out 0)
    | Raise ex => Halted (rev out, Some (Uncaught ex))
    | OutOfFuel => Halted (rev out, None)
    end.
  Proof.
    intros cs ns cc pos w x below en out H. unfold emit_call_v, null_v in *.
    destruct (is311 v) eqn:E.
    - cbn in H. inversion H; subst cc; clear H.
      cbn [run_v vext Z.mul Z.add]. unfold step_v at 1. cbn [has_op]. rewrite E. cbn [negb with_stack stack venv vout vext].
      cbn [run_v vext Z.mul Z.add]. unfold step_v at 1. cbn [has_op]. rewrite E. cbn [negb].
      unfold call_v. rewrite E. change (Z.to_nat 1) with 1%nat.
      cbn [with_stack stack venv vout app firstn length Nat.eqb negb rev all_values option_map skipn].
      unfold apply_callable. destruct (wrap_call w x); reflexivity.
    - cbn in H. inversion H; subst cc; clear H.
      cbn [run_v vext Z.mul Z.add]. unfold step_v at 1. cbn [has_op]. rewrite E. cbn [negb].
      unfold call_v. rewrite E. change (Z.to_nat 1) with 1%nat.
      cbn [with_stack stack venv vout app firstn length Nat.eqb negb rev all_values option_map skipn].
      unfold apply_callable. destruct (wrap_call w x); reflexivity.
  Qed.

  (* PUSH_NULL (3.11 only) followed by the LOAD_NAME of a callable *)
  Lemma run_push_load : forall P cl i f pos st,
    vext st = 0 ->
    (f = NPrint \/ exists w, f = NCls w) ->
    nth_error (p_names P) (Z.to_nat i) = Some f ->
    (forall pos' st', vext st' = 0 ->
       run_v v (p_consts P) (p_names P) cl pos' 0 st' = run1_v v (p_consts P) (p_names P) X_LOAD_NAME i st') ->
    run_v v (p_consts P) (p_names P) (emit_push_null_v v ++ cl) pos 0 st =
    Reached 0 (with_stack st (SCallable f :: null_v v ++ stack st)).
  Proof.
    intros P cl i f pos st Hx Hf Hn Hrun. unfold emit_push_null_v, null_v.
    destruct (is311 v) eqn:E.
    - cbn [app run_v]. rewrite Hx. unfold step_v at 1. cbn [has_op]. rewrite E. cbn [negb Z.mul Z.add].
      rewrite Hrun by reflexivity. unfold run1_v, step_v. cbn [has_op negb with_stack stack venv vout]. rewrite Hn.
      destruct Hf as [Hf|[w Hf]]; subst f; reflexivity.
    - cbn [app]. rewrite Hrun by exact Hx. unfold run1_v, step_v. cbn [has_op negb]. rewrite Hn.
      destruct Hf as [Hf|[w Hf]]; subst f; reflexivity.
  Qed.

  Lemma emit_wrapped_v_correct : forall w base p body c p',
    emit_wrapped_v v w base p body = COk (c, p') ->
    (forall b0 p0 c1 p1, body b0 p0 = COk (c1, p1) -> extends p0 p1) ->
    extends p p' /\
    forall P en R, extends p' P ->
      (forall b0 p0 c1 p1, body b0 p0 = COk (c1, p1) -> extends p1 P -> computes_v v P c1 b0 en R) ->
      (forall x, R = Ok x -> fits w x) ->
      computes_v v P c base en R.
  Proof.
    intros w base p body c p' H Hext. unfold emit_wrapped_v in H.
    destruct (is_wrapped w) eqn:Hw.
    2:{ split; [eapply Hext; exact H|]. intros P en R HP Hb _. eapply Hb; [exact H|exact HP]. }
    destruct (emit_load_name_v p (NCls w)) as [[cl pl]|] eqn:EL; cbn [cbind fst snd] in H; [|discriminate].
    destruct (body (base + len (emit_push_null_v v ++ cl)) pl) as [[cb pb]|] eqn:EB; cbn [cbind fst snd] in H; [|discriminate].
    destruct (emit_call_v v 1) as [cc|] eqn:EC; cbn [cbind] in H; [|discriminate].
    inversion H; subst c p'; clear H.
    apply emit_load_name_v_run with (v := v) in EL. destruct EL as [E1 [i [Hi [Hn Hrun]]]].
    pose proof (Hext _ _ _ _ EB) as E2.
    split; [eapply extends_trans; eassumption|].
    intros P en R HP Hb Hfit st Hx Hen.
    assert (HnP : nth_error (p_names P) (Z.to_nat i) = Some (NCls w)).
    { eapply nth_error_extends_names; [|exact Hn]. eapply extends_trans; eassumption. }
    specialize (Hb _ _ _ _ EB HP).
    set (pre := emit_push_null_v v ++ cl) in *.
    set (st1 := with_stack st (SCallable (NCls w) :: null_v v ++ stack st)).
    assert (Hpre : run_v v (p_consts P) (p_names P) pre base 0 st = Reached 0 st1).
    { unfold pre. apply run_push_load with (i := i); [exact Hx|right; eauto|exact HnP|]. intros pos' st' Hx'. apply Hrun; exact Hx'. }
    specialize (Hb st1 eq_refl Hen).
    destruct R as [x|ex|]; [| |exact I].
    - rewrite run_v_app, Hpre, run_v_app, Hb.
      destruct st as [s e o y]. cbn [vext] in Hx. subst y. subst st1.
      unfold with_stack. cbn [stack venv vout].
      rewrite (run_call1_v _ _ _ _ _ _ _ _ _ EC).
      rewrite (wrap_call_fits w x Hw (Hfit x eq_refl)). reflexivity.
    - rewrite run_v_app, Hpre, run_v_app, Hb. reflexivity.
  Qed.

  (** single instructions on explicit states *)
  Lemma arith_of_arith_opcode : forall op, arith_of_vop (arith_opcode op) = Some op.
  Proof. destruct op; reflexivity. Qed.
  Lemma has_arith_opcode : forall op, has_op v (arith_opcode op) = negb (is311 v).
  Proof. destruct op; reflexivity. Qed.

  Lemma run_arith_v : forall cs ns op va vb s en out co pos,
    emit_arith_v v op = COk co ->
    run_v v cs ns co pos 0 (mkVm (SV vb :: SV va :: s) en out 0) =
    match bin_op op va vb with
    | Ok x => Reached 0 (mkVm (SV x :: s) en out 0)
    | Raise ex => Halted (rev out, Some (Uncaught ex))
    | OutOfFuel => Halted (rev out, None)
    end.
  Proof.
    intros cs ns op va vb s en out co pos H. unfold emit_arith_v in H.
    destruct (is311 v) eqn:E.
    - destruct (write_op_v X_BINARY_OP (binop_arg op)) as [c0|] eqn:W; cbn [cbind] in H; [|discriminate].
      inversion H; subst co; clear H.
      rewrite run_v_app, (run_write_op_v v cs ns _ _ _ pos (mkVm (SV vb :: SV va :: s) en out 0) W eq_refl (binop_arg_nonneg op) eq_refl).
      unfold run1_v, step_v. cbn [has_op]. rewrite E. cbn [negb]. rewrite arith_of_binop_arg.
      unfold binary_v. cbn [stack]. destruct (bin_op op va vb); reflexivity.
    - inversion H; subst co; clear H. cbn [run_v vext Z.mul Z.add].
      unfold step_v. rewrite has_arith_opcode, E. cbn [negb].
      destruct op; cbn [arith_opcode arith_of_vop]; unfold binary_v; cbn [stack];
        match goal with |- context [bin_op ?o ?a ?b] => destruct (bin_op o a b) end; reflexivity.
  Qed.

  Lemma run_cmp_v : forall cs ns op va vb s en out co pos,
    emit_cmp_v v op = COk co ->
    run_v v cs ns co pos 0 (mkVm (SV vb :: SV va :: s) en out 0) =
    match cmp_op op va vb with
    | Ok x => Reached 0 (mkVm (SV x :: s) en out 0)
    | Raise ex => Halted (rev out, Some (Uncaught ex))
    | OutOfFuel => Halted (rev out, None)
    end.
  Proof.
    intros cs ns op va vb s en out co pos H. unfold emit_cmp_v in H.
    destruct (write_op_v X_COMPARE_OP (cmp_arg op)) as [c0|] eqn:W; cbn [cbind] in H; [|discriminate].
    inversion H; subst co; clear H.
    rewrite run_v_app, (run_write_op_v v cs ns _ _ _ pos (mkVm (SV vb :: SV va :: s) en out 0) W eq_refl (cmp_arg_nonneg op) eq_refl).
    unfold run1_v, step_v. cbn [has_op negb]. rewrite cmp_of_cmp_arg. cbn [stack].
    destruct (cmp_op op va vb); [|reflexivity|reflexivity].
    destruct (is311 v); reflexivity.
  Qed.

  Lemma run_unary_v : forall cs ns op va s en out pos,
    run_v v cs ns [(unary_vop op, 0)] pos 0 (mkVm (SV va :: s) en out 0) =
    match un_op op va with
    | Ok x => Reached 0 (mkVm (SV x :: s) en out 0)
    | Raise ex => Halted (rev out, Some (Uncaught ex))
    | OutOfFuel => Halted (rev out, None)
    end.
  Proof.
    intros cs ns op va s en out pos. cbn [run_v vext Z.mul Z.add].
    destruct op; cbn [unary_vop]; unfold step_v; cbn [has_op negb]; unfold unary; cbn [stack];
      match goal with |- context [un_op ?o ?x] => destruct (un_op o x) end; reflexivity.
  Qed.

  Definition expr_spec_v (e : expr) : Prop :=
    forall base p c p', emit_expr_v v base p e = COk (c, p') ->
      extends p p' /\ forall P en, extends p' P -> wraps_ok en e -> computes_v v P c base en (eval0 en e).

  Lemma emit_expr_v_correct : forall e, in_frag e = true -> expr_spec_v e.
  Proof.
    induction e using expr_ind'; intros Hfrag; cbn [in_frag] in Hfrag; try discriminate.
    - (* literal *)
      intros base p c p' H. cbn [emit_expr_v] in H.
      apply emit_wrapped_v_correct in H.
      2:{ intros b0 p0 c1 p1 Hb. apply (emit_load_const_v_correct v) in Hb. tauto. }
      destruct H as [E Hc]. split; [exact E|]. intros P en HP [Hfit _].
      apply Hc; [exact HP| |intros x Hv; apply Hfit; exact Hv].
      intros b0 p0 c1 p1 Hb HP1. apply (emit_load_const_v_correct v) in Hb. destruct Hb as [_ Hb].
      intros st Hx Hen. cbn [eval0 eval]. rewrite (Hb P HP1 b0 st Hx).
      destruct l; reflexivity.
    - (* variable *)
      intros base p c p' H. cbn [emit_expr_v] in H.
      apply emit_wrapped_v_correct in H.
      2:{ intros b0 p0 c1 p1 Hb. apply (emit_load_name_v_run v) in Hb. tauto. }
      destruct H as [E Hc]. split; [exact E|]. intros P en HP [Hfit _].
      apply Hc; [exact HP| |intros x0 Hv; apply Hfit; exact Hv].
      intros b0 p0 c1 p1 Hb HP1. apply (emit_load_name_v_run v) in Hb. destruct Hb as [_ [i [Hi [Hn Hrun]]]].
      intros st Hx Hen. rewrite (Hrun P b0 st Hx). unfold run1_v, step_v. cbn [has_op negb].
      rewrite (nth_error_extends_names _ _ _ _ HP1 Hn). cbn [eval0 eval]. rewrite Hen.
      destruct (lookup x en); reflexivity.
    - (* unary *)
      specialize (IHe Hfrag).
      intros base p c p' H. cbn [emit_expr_v] in H.
      apply emit_wrapped_v_correct in H.
      2:{ intros b0 p0 c1 p1 Hb. destruct (emit_expr_v v b0 p0 e) as [[ca pa]|] eqn:Ea; cbn [cbind fst snd] in Hb; [|discriminate].
          inversion Hb; subst. apply IHe in Ea. tauto. }
      destruct H as [E Hc]. split; [exact E|]. intros P en HP [Hfit Hwa].
      apply Hc; [exact HP| |intros x Hv; apply Hfit; exact Hv].
      intros b0 p0 c1 p1 Hb HP1.
      destruct (emit_expr_v v b0 p0 e) as [[ca pa]|] eqn:Ea; cbn [cbind fst snd] in Hb; [|discriminate].
      inversion Hb; subst c1 p1; clear Hb. apply IHe in Ea. destruct Ea as [_ Ha].
      specialize (Ha P en HP1 Hwa).
      intros [s e0 ot x] Hx Hen. cbn [vext venv] in Hx, Hen. subst x e0.
      rewrite eval0_un. specialize (Ha (mkVm s en ot 0) eq_refl eq_refl).
      destruct (eval0 en e) as [va|ex|]; cbn [bind]; [| |exact I].
      + destruct (un_op o va) as [x|ex|] eqn:U; [| |exact I];
          rewrite run_v_app, Ha; unfold with_stack; cbn [stack venv vout]; rewrite run_unary_v, U; reflexivity.
      + rewrite run_v_app, Ha. reflexivity.
    - (* arithmetic *)
      apply andb_true_iff in Hfrag. destruct Hfrag as [Fa Fb]. specialize (IHe1 Fa). specialize (IHe2 Fb).
      intros base p c p' H. cbn [emit_expr_v] in H.
      apply emit_wrapped_v_correct in H.
      2:{ intros b0 p0 c1 p1 Hb.
          destruct (emit_expr_v v b0 p0 e1) as [[ca pa]|] eqn:Ea; cbn [cbind fst snd] in Hb; [|discriminate].
          destruct (emit_expr_v v (b0 + len ca) pa e2) as [[cb pb]|] eqn:Eb; cbn [cbind fst snd] in Hb; [|discriminate].
          destruct (emit_arith_v v o) as [co|]; cbn [cbind] in Hb; [|discriminate].
          inversion Hb; subst. apply IHe1 in Ea. apply IHe2 in Eb. eapply extends_trans; [apply Ea|apply Eb]. }
      destruct H as [E Hc]. split; [exact E|]. intros P en HP [Hfit [Hwa Hwb]].
      apply Hc; [exact HP| |intros x Hv; apply Hfit; exact Hv].
      intros b0 p0 c1 p1 Hb HP1.
      destruct (emit_expr_v v b0 p0 e1) as [[ca pa]|] eqn:Ea; cbn [cbind fst snd] in Hb; [|discriminate].
      destruct (emit_expr_v v (b0 + len ca) pa e2) as [[cb pb]|] eqn:Eb; cbn [cbind fst snd] in Hb; [|discriminate].
      destruct (emit_arith_v v o) as [co|] eqn:W; cbn [cbind] in Hb; [|discriminate].
      inversion Hb; subst c1 p1; clear Hb.
      apply IHe1 in Ea. apply IHe2 in Eb. destruct Ea as [_ Ha]. destruct Eb as [Eb' Hb].
      specialize (Ha P en (extends_trans _ _ _ Eb' HP1) Hwa). specialize (Hb P en HP1 Hwb).
      intros [s e0 ot x] Hx Hen. cbn [vext venv] in Hx, Hen. subst x e0.
      rewrite eval0_bin. specialize (Ha (mkVm s en ot 0) eq_refl eq_refl).
      destruct (eval0 en e1) as [va|ex|]; cbn [bind]; [| |exact I].
      2:{ rewrite run_v_app, Ha. reflexivity. }
      specialize (Hb (mkVm (SV va :: s) en ot 0) eq_refl eq_refl).
      destruct (eval0 en e2) as [vb|ex|]; cbn [bind]; [| |exact I].
      2:{ unfold with_stack in *; cbn [stack venv vout] in *. rewrite run_v_app, Ha, run_v_app, Hb. reflexivity. }
      unfold with_stack in *; cbn [stack venv vout] in *.
      destruct (bin_op o va vb) as [x|ex|] eqn:U; [| |exact I];
        rewrite run_v_app, Ha, run_v_app, Hb, (run_arith_v _ _ _ _ _ _ _ _ _ _ W), U; reflexivity.
    - (* comparison *)
      apply andb_true_iff in Hfrag. destruct Hfrag as [Fa Fb]. specialize (IHe1 Fa). specialize (IHe2 Fb).
      intros base p c p' H. cbn [emit_expr_v] in H.
      apply emit_wrapped_v_correct in H.
      2:{ intros b0 p0 c1 p1 Hb.
          destruct (emit_expr_v v b0 p0 e1) as [[ca pa]|] eqn:Ea; cbn [cbind fst snd] in Hb; [|discriminate].
          destruct (emit_expr_v v (b0 + len ca) pa e2) as [[cb pb]|] eqn:Eb; cbn [cbind fst snd] in Hb; [|discriminate].
          destruct (emit_cmp_v v o) as [co|]; cbn [cbind] in Hb; [|discriminate].
          inversion Hb; subst. apply IHe1 in Ea. apply IHe2 in Eb. eapply extends_trans; [apply Ea|apply Eb]. }
      destruct H as [E Hc]. split; [exact E|]. intros P en HP [Hfit [Hwa Hwb]].
      apply Hc; [exact HP| |intros x Hv; apply Hfit; exact Hv].
      intros b0 p0 c1 p1 Hb HP1.
      destruct (emit_expr_v v b0 p0 e1) as [[ca pa]|] eqn:Ea; cbn [cbind fst snd] in Hb; [|discriminate].
      destruct (emit_expr_v v (b0 + len ca) pa e2) as [[cb pb]|] eqn:Eb; cbn [cbind fst snd] in Hb; [|discriminate].
      destruct (emit_cmp_v v o) as [co|] eqn:W; cbn [cbind] in Hb; [|discriminate].
      inversion Hb; subst c1 p1; clear Hb.
      apply IHe1 in Ea. apply IHe2 in Eb. destruct Ea as [_ Ha]. destruct Eb as [Eb' Hb].
      specialize (Ha P en (extends_trans _ _ _ Eb' HP1) Hwa). specialize (Hb P en HP1 Hwb).
      intros [s e0 ot x] Hx Hen. cbn [vext venv] in Hx, Hen. subst x e0.
      rewrite eval0_cmp. specialize (Ha (mkVm s en ot 0) eq_refl eq_refl).
      destruct (eval0 en e1) as [va|ex|]; cbn [bind]; [| |exact I].
      2:{ rewrite run_v_app, Ha. reflexivity. }
      specialize (Hb (mkVm (SV va :: s) en ot 0) eq_refl eq_refl).
      destruct (eval0 en e2) as [vb|ex|]; cbn [bind]; [| |exact I].
      2:{ unfold with_stack in *; cbn [stack venv vout] in *. rewrite run_v_app, Ha, run_v_app, Hb. reflexivity. }
      unfold with_stack in *; cbn [stack venv vout] in *.
      destruct (cmp_op o va vb) as [x|ex|] eqn:U; [| |exact I];
        rewrite run_v_app, Ha, run_v_app, Hb, (run_cmp_v _ _ _ _ _ _ _ _ _ _ W), U; reflexivity.
    - (* and / or *)
      apply andb_true_iff in Hfrag. destruct Hfrag as [Fa Fb]. specialize (IHe1 Fa). specialize (IHe2 Fb).
      intros base p c p' H. cbn [emit_expr_v] in H.
      apply emit_wrapped_v_correct in H.
      2:{ intros b0 p0 c1 p1 Hb.
          destruct (emit_expr_v v b0 p0 e1) as [[ca pa]|] eqn:Ea; cbn [cbind fst snd] in Hb; [|discriminate].
          destruct (emit_expr_v v (b0 + len ca + 2) pa e2) as [[cb pb]|] eqn:Eb; cbn [cbind fst snd] in Hb; [|discriminate].
          destruct (_ <? 65536); [|discriminate].
          inversion Hb; subst. apply IHe1 in Ea. apply IHe2 in Eb. eapply extends_trans; [apply Ea|apply Eb]. }
      destruct H as [E Hc]. split; [exact E|]. intros P en HP [Hfit [Hwa Hwb]].
      apply Hc; [exact HP| |intros x Hv; apply Hfit; exact Hv].
      intros b0 p0 c1 p1 Hb HP1.
      destruct (emit_expr_v v b0 p0 e1) as [[ca pa]|] eqn:Ea; cbn [cbind fst snd] in Hb; [|discriminate].
      destruct (emit_expr_v v (b0 + len ca + 2) pa e2) as [[cb pb]|] eqn:Eb; cbn [cbind fst snd] in Hb; [|discriminate].
      set (jpos := b0 + len ca) in *.
      set (arg := jump_arg_v v (2 * jpos) (2 * (jpos + 2 + len cb))) in *.
      destruct (arg <? 65536) eqn:Hlen; [|discriminate].
      inversion Hb; subst c1 p1; clear Hb.
      apply IHe1 in Ea. apply IHe2 in Eb. destruct Ea as [_ Ha]. destruct Eb as [Eb' Hb].
      specialize (Ha P en (extends_trans _ _ _ Eb' HP1) Hwa). specialize (Hb P en HP1 Hwb).
      intros [s e0 ot x] Hx Hen. cbn [vext venv] in Hx, Hen. subst x e0.
      rewrite eval0_logic. specialize (Ha (mkVm s en ot 0) eq_refl eq_refl).
      destruct (eval0 en e1) as [va|ex|]; cbn [bind]; [| |exact I].
      2:{ rewrite run_v_app, Ha. reflexivity. }
      rewrite run_v_app, Ha. unfold with_stack; cbn [stack venv vout]. fold jpos.
      assert (Hn : arg / 256 * 256 + arg mod 256 = arg) by (rewrite (Z.div_mod arg 256) at 3; lia).
      assert (Hskip : jump_skip v (jpos + 1) arg = Some (length cb)).
      { unfold arg. rewrite jump_skip_ok by apply len_nonneg. unfold len. rewrite Nat2Z.id. reflexivity. }
      cbn [app run_v vext Z.mul Z.add].
      unfold step_v at 1. cbn [has_op negb stack venv vout vext].
      specialize (Hb (mkVm s en ot 0) eq_refl eq_refl).
      destruct k; unfold step_v; cbn [has_op negb]; rewrite Hn; unfold jump_if_v, with_stack in *; cbn [stack venv vout] in *;
        destruct (truthy va) eqn:Tv; cbn [Bool.eqb]; rewrite ?Hskip.
      + (* or, lhs true: jump over rhs *)
        rewrite <- (Nat.add_0_r (length cb)). apply run_v_skip.
      + (* or, lhs false: pop, evaluate rhs *)
        replace (jpos + 1 + 1) with (jpos + 2) by lia.
        destruct (eval0 en e2); [exact Hb|exact Hb|exact I].
      + (* and, lhs true: pop, evaluate rhs *)
        replace (jpos + 1 + 1) with (jpos + 2) by lia.
        destruct (eval0 en e2); [exact Hb|exact Hb|exact I].
      + (* and, lhs false: jump over rhs *)
        rewrite <- (Nat.add_0_r (length cb)). apply run_v_skip.
  Qed.
End ExprV.

(** ** statements and modules *)
Section StmtV.
  Variable v : pyver.

  Lemma emit_args_v_correct : forall es, forallb in_frag es = true ->
    forall base p c p', emit_args_v v base p es = COk (c, p') ->
    extends p p' /\
    forall P en, extends p' P -> Forall (wraps_ok en) es ->
      forall st, vext st = 0 -> venv st = en ->
        match evals0 en es with
        | Ok vs => run_v v (p_consts P) (p_names P) c base 0 st = Reached 0 (with_stack st (rev (map SV vs) ++ stack st))
        | Raise ex => run_v v (p_consts P) (p_names P) c base 0 st = Halted (rev (vout st), Some (Uncaught ex))
        | OutOfFuel => True
        end.
  Proof.
    induction es as [|e es IH]; intros Hf base p c p' H.
    - cbn in H. inversion H; subst. split; [apply extends_refl|].
      intros P en _ _ [s e0 o x] Hx Hen. cbn in Hx; subst x. reflexivity.
    - cbn [forallb] in Hf. apply andb_true_iff in Hf; destruct Hf as [Fe Fr].
      cbn [emit_args_v] in H.
      destruct (emit_expr_v v base p e) as [[ce pe]|] eqn:Ee; cbn [cbind fst snd] in H; [|discriminate].
      destruct (emit_args_v v (base + len ce) pe es) as [[cr pr]|] eqn:Er; cbn [cbind fst snd] in H; [|discriminate].
      inversion H; subst c p'; clear H.
      apply (emit_expr_v_correct v e Fe) in Ee. destruct Ee as [E1 He].
      apply (IH Fr) in Er. destruct Er as [E2 Hr].
      split; [eapply extends_trans; eassumption|].
      intros P en HP Hw [s e0 o x] Hx Hen. cbn [vext venv] in Hx, Hen; subst x e0.
      inversion Hw as [|? ? Hwe Hwr]; subst.
      specialize (He P en (extends_trans _ _ _ E2 HP) Hwe (mkVm s en o 0) eq_refl eq_refl).
      unfold evals0. cbn [evals]. fold (eval0 en e). fold (evals0 en es).
      destruct (eval0 en e) as [x|ex|]; cbn [bind]; [| |exact I].
      2:{ rewrite run_v_app, He. reflexivity. }
      specialize (Hr P en HP Hwr (mkVm (SV x :: s) en o 0) eq_refl eq_refl).
      unfold with_stack in *; cbn [stack venv vout] in *.
      destruct (evals0 en es) as [vs|ex|]; cbn [bind]; [| |exact I].
      + rewrite run_v_app, He, Hr. cbn [map rev]. rewrite <- app_assoc. reflexivity.
      + rewrite run_v_app, He, Hr. reflexivity.
  Qed.

  Lemma run_call_print_v : forall cs ns vs s en out cc pos,
    emit_call_v v (len vs) = COk cc ->
    run_v v cs ns cc pos 0 (mkVm (rev (map SV vs) ++ SCallable NPrint :: null_v v ++ s) en out 0) =
    Reached 0 (mkVm (SV VNone :: s) en (print_line vs :: out) 0).
  Proof.
    intros cs ns vs s en out cc pos H. unfold emit_call_v in H. unfold null_v.
    assert (Hl : length (rev (map SV vs)) = length vs) by (rewrite rev_length, map_length; reflexivity).
    destruct (is311 v) eqn:E.
    - destruct (write_op_v X_PRECALL (len vs)) as [c1|] eqn:W1; cbn [cbind] in H; [|discriminate].
      destruct (write_op_v X_CALL (len vs)) as [c2|] eqn:W2; cbn [cbind] in H; [|discriminate].
      inversion H; subst cc; clear H.
      set (st := mkVm (rev (map SV vs) ++ SCallable NPrint :: [SNull] ++ s) en out 0).
      rewrite run_v_app, (run_write_op_v v cs ns _ _ _ pos st W1 eq_refl (len_nonneg _ _) eq_refl).
      unfold run1_v, step_v. cbn [has_op]. rewrite E. cbn [negb]. unfold with_stack.
      change (mkVm (stack st) (venv st) (vout st) 0) with st.
      cbn [app run_v].
      rewrite run_v_app, (run_write_op_v v cs ns _ _ _ _ st W2 eq_refl (len_nonneg _ _) eq_refl).
      unfold run1_v, step_v. cbn [has_op]. rewrite E. cbn [negb]. unfold call_v. rewrite E. unfold len. rewrite Nat2Z.id.
      unfold st; cbn [stack venv vout app].
      assert (Hf : firstn (length vs) (rev (map SV vs) ++ SCallable NPrint :: SNull :: s) = rev (map SV vs))
        by (rewrite <- Hl; apply firstn_length_app).
      assert (Hs : skipn (length vs) (rev (map SV vs) ++ SCallable NPrint :: SNull :: s) = SCallable NPrint :: SNull :: s)
        by (rewrite <- Hl; apply skipn_length_app).
      rewrite Hf, Hs, Hl, Nat.eqb_refl. cbn [negb].
      rewrite rev_involutive, all_values_map_SV. reflexivity.
    - set (st := mkVm (rev (map SV vs) ++ SCallable NPrint :: [] ++ s) en out 0).
      rewrite (run_write_op_v v cs ns _ _ _ pos st H eq_refl (len_nonneg _ _) eq_refl).
      unfold run1_v, step_v. cbn [has_op]. rewrite E. cbn [negb]. unfold call_v. rewrite E. unfold len. rewrite Nat2Z.id.
      unfold st; cbn [stack venv vout app].
      assert (Hf : firstn (length vs) (rev (map SV vs) ++ SCallable NPrint :: s) = rev (map SV vs))
        by (rewrite <- Hl; apply firstn_length_app).
      assert (Hs : skipn (length vs) (rev (map SV vs) ++ SCallable NPrint :: s) = SCallable NPrint :: s)
        by (rewrite <- Hl; apply skipn_length_app).
      rewrite Hf, Hs, Hl, Nat.eqb_refl. cbn [negb].
      rewrite rev_involutive, all_values_map_SV. reflexivity.
  Qed.

  Lemma write_op_v_last : forall op arg co, write_op_v op arg = COk co -> exists pre a, co = pre ++ [(op, a)].
  Proof.
    intros op arg co H. unfold write_op_v in H.
    destruct (arg <? 256); [inversion H; exists [], arg; reflexivity|].
    destruct (arg <? 65536); [inversion H; exists [(X_EXTENDED_ARG, arg / 256)], (arg mod 256); reflexivity|].
    destruct (arg <? 4294967296); [|discriminate].
    inversion H. eexists [_; _; _], _. reflexivity.
  Qed.

  Section Sem.
    Variable cf : value -> list value -> list (Z * value) -> res value.
    Variable cp : value -> list value -> list (list Z) -> pres.
    Variable lf : nat.

    Lemma chunk_v_correct : forall s, stmt_in_frag s = true ->
      forall base p c p', emit_chunk_v v base p s = COk (c, p') ->
      extends p p' /\
      forall P, extends p' P -> forall st, vext st = 0 -> stmt_wraps_ok (venv st) s -> forall r,
        match Sem.exec cf cp lf s (mkState (venv st) (vout st) r) with
        | SOk st' =>
          run_v v (p_consts P) (p_names P) c base 0 st =
            Reached 0 (mkVm ((if leaves_value s then [SV VNone] else []) ++ stack st) (s_env st') (s_out st') 0)
          /\ s_ret st' = r
          /\ match s with
             | SDef x _ e => exists x', eval0 (venv st) e = Ok x' /\ s_env st' = (x, x') :: venv st
             | _ => s_env st' = venv st
             end
        | SErr ex out => run_v v (p_consts P) (p_names P) c base 0 st = Halted (rev out, Some (Uncaught ex))
        | SFuel _ => True
        end.
    Proof.
      intros s Hf base p c p' H. destruct s; cbn [stmt_in_frag] in Hf; try discriminate.
      - (* print *)
        cbn [emit_chunk_v] in H.
        destruct (emit_load_name_v p NPrint) as [[cl pl]|] eqn:EL; cbn [cbind fst snd] in H; [|discriminate].
        destruct (emit_args_v v (base + len (emit_push_null_v v ++ cl)) pl es) as [[ca pa]|] eqn:EA; cbn [cbind fst snd] in H; [|discriminate].
        destruct (emit_call_v v (len es)) as [cc|] eqn:EC; cbn [cbind] in H; [|discriminate].
        inversion H; subst c p'; clear H.
        apply emit_load_name_v_run with (v := v) in EL. destruct EL as [E1 [i [Hi [Hn Hrun]]]].
        apply (emit_args_v_correct es Hf) in EA. destruct EA as [E2 Ha].
        split; [eapply extends_trans; eassumption|].
        intros P HP [sk en o x] Hx Hw r. cbn [vext venv vout] in *. subst x.
        cbn [Sem.exec s_env s_out s_ret]. rewrite (evals_frag_indep es Hf cf en).
        assert (HnP : nth_error (p_names P) (Z.to_nat i) = Some NPrint).
        { eapply nth_error_extends_names; [|exact Hn]. eapply extends_trans; eassumption. }
        set (pre := emit_push_null_v v ++ cl) in *.
        specialize (Ha P en HP Hw (mkVm (SCallable NPrint :: null_v v ++ sk) en o 0) eq_refl eq_refl).
        assert (Hpre : run_v v (p_consts P) (p_names P) pre base 0 (mkVm sk en o 0)
                       = Reached 0 (mkVm (SCallable NPrint :: null_v v ++ sk) en o 0)).
        { unfold pre. rewrite run_push_load with (i := i) (f := NPrint); [reflexivity|reflexivity|left; reflexivity|exact HnP|].
          intros pos' st' Hx'. apply Hrun; exact Hx'. }
        unfold with_stack in Ha; cbn [stack venv vout] in Ha.
        destruct (evals0 en es) as [vs|ex|] eqn:EV; [| |exact I].
        + split; [|split; reflexivity]. rewrite run_v_app, Hpre, run_v_app, Ha.
          cbn [leaves_value app s_env s_out stack].
          assert (Hlen : length es = length vs).
          { clear - EV. unfold evals0 in EV. revert vs EV. induction es as [|e es IH]; intros vs EV; cbn [evals] in EV.
            - inversion EV; reflexivity.
            - destruct (eval _ en e); cbn [bind] in EV; try discriminate.
              destruct (evals _ en es) as [vs'| |] eqn:E'; cbn [bind] in EV; try discriminate.
              inversion EV; subst. cbn [length]. f_equal. apply IH; reflexivity. }
          unfold len in EC. rewrite Hlen in EC. apply (run_call_print_v _ _ _ _ _ _ _ _ EC).
        + rewrite run_v_app, Hpre, run_v_app, Ha. reflexivity.
      - (* definition *)
        cbn [emit_chunk_v] in H.
        destruct (emit_expr_v v base p e) as [[ce pe]|] eqn:EE; cbn [cbind fst snd] in H; [|discriminate].
        destruct (emit_store_name_v pe (NVar x)) as [[cs ps]|] eqn:ES; cbn [cbind fst snd] in H; [|discriminate].
        inversion H; subst c p'; clear H.
        apply (emit_expr_v_correct v e Hf) in EE. destruct EE as [E1 He].
        apply emit_store_name_v_run with (v := v) in ES. destruct ES as [E2 [i [Hi [Hn Hrun]]]].
        split; [eapply extends_trans; eassumption|].
        intros P HP [sk en o y] Hx Hw r. cbn [vext venv vout] in *. subst y.
        cbn [Sem.exec s_env s_out s_ret]. rewrite (eval_frag_indep e Hf cf (fun _ _ _ => OutOfFuel)). fold (eval0 en e).
        specialize (He P en (extends_trans _ _ _ E2 HP) Hw (mkVm sk en o 0) eq_refl eq_refl).
        unfold with_stack in He; cbn [stack venv vout] in He.
        unfold with_val. cbn [s_out].
        destruct (eval0 en e) as [x'|ex|]; [| |exact I].
        + rewrite run_v_app, He, (Hrun P _ (mkVm (SV x' :: sk) en o 0) eq_refl). unfold run1_v, step_v.
          cbn [has_op negb stack venv vout].
          rewrite (nth_error_extends_names _ _ _ _ HP Hn). split; [reflexivity|]. split; [reflexivity|].
          exists x'. split; reflexivity.
        + rewrite run_v_app, He. reflexivity.
    Qed.

    Lemma stmts_v_correct : forall ss, forallb stmt_in_frag ss = true ->
      forall base p c p', emit_stmts_v v base p ss = COk (c, p') ->
      extends p p' /\
      forall P, extends p' P -> forall st, vext st = 0 -> prog_wraps_ok (venv st) ss -> forall r,
        match exec_block cf cp lf ss (mkState (venv st) (vout st) r) with
        | SOk st' =>
          run_v v (p_consts P) (p_names P) c base 0 st = Reached 0 (mkVm (stack st) (s_env st') (s_out st') 0)
          /\ s_ret st' = r
        | SErr ex out => run_v v (p_consts P) (p_names P) c base 0 st = Halted (rev out, Some (Uncaught ex))
        | SFuel _ => True
        end.
    Proof.
      induction ss as [|s ss IH]; intros Hf base p c p' H.
      - cbn in H. inversion H; subst. split; [apply extends_refl|].
        intros P _ [sk en o x] Hx _ r. cbn in Hx; subst x. cbn. split; reflexivity.
      - cbn [forallb] in Hf. apply andb_true_iff in Hf; destruct Hf as [Fs Fr].
        cbn [emit_stmts_v] in H.
        destruct (emit_chunk_v v base p s) as [[cs ps]|] eqn:ES; cbn [cbind fst snd] in H; [|discriminate].
        set (code := cs ++ (if leaves_value s then [(X_POP_TOP, 0)] else [])) in *.
        destruct (emit_stmts_v v (base + len code) ps ss) as [[cr pr]|] eqn:ER; cbn [cbind fst snd] in H; [|discriminate].
        inversion H; subst c p'; clear H.
        apply (chunk_v_correct s Fs) in ES. destruct ES as [E1 Hs].
        apply (IH Fr) in ER. destruct ER as [E2 Hr].
        split; [eapply extends_trans; eassumption|].
        intros P HP [sk en o x] Hx Hw r. cbn [vext venv vout stack] in *. subst x.
        destruct Hw as [Hws Hwr].
        specialize (Hs P (extends_trans _ _ _ E2 HP) (mkVm sk en o 0) eq_refl Hws r).
        cbn [venv vout stack] in Hs. cbn [exec_block].
        destruct (Sem.exec cf cp lf s (mkState en o r)) as [st'|ex out|out]; [| |exact I].
        2:{ unfold code. rewrite <- app_assoc, run_v_app, Hs. reflexivity. }
        destruct Hs as [Hrun [Hret Henv]].
        assert (Hwr' : prog_wraps_ok (s_env st') ss).
        { destruct s; try (rewrite Henv; exact Hwr).
          destruct Henv as [x' [Hv He]]. rewrite He. apply Hwr. exact Hv. }
        assert (Hpop : run_v v (p_consts P) (p_names P) code base 0 (mkVm sk en o 0)
                       = Reached 0 (mkVm sk (s_env st') (s_out st') 0)).
        { unfold code. rewrite run_v_app, Hrun. destruct (leaves_value s); [|reflexivity].
          cbn [run_v vext Z.mul Z.add app]. unfold step_v. cbn [has_op negb stack]. reflexivity. }
        specialize (Hr P HP (mkVm sk (s_env st') (s_out st') 0) eq_refl Hwr' r).
        cbn [venv vout stack] in Hr.
        destruct st' as [en' o' r']. cbn [s_env s_out s_ret] in *. subst r'.
        destruct (exec_block cf cp lf ss (mkState en' o' r)) as [st''|ex out|out]; [| |exact I].
        + destruct Hr as [Hr1 Hr2]. split; [|exact Hr2]. rewrite run_v_app, Hpop. exact Hr1.
        + rewrite run_v_app, Hpop. exact Hr.
    Qed.
  End Sem.

  Lemma emit_stmts_v_app : forall r t base p,
    emit_stmts_v v base p (r ++ t) =
    cbind (emit_stmts_v v base p r) (fun cr =>
    cbind (emit_stmts_v v (base + len (fst cr)) (snd cr) t) (fun ct => COk (fst cr ++ fst ct, snd ct))).
  Proof.
    induction r as [|s r IH]; intros t base p.
    - cbn [app emit_stmts_v cbind fst snd]. rewrite len_nil, Z.add_0_r. destruct (emit_stmts_v v base p t) as [[c q]|]; reflexivity.
    - cbn [app emit_stmts_v]. destruct (emit_chunk_v v base p s) as [[cs ps]|]; cbn [cbind fst snd]; [|reflexivity].
      set (code := cs ++ (if leaves_value s then [(X_POP_TOP, 0)] else [])).
      rewrite IH. destruct (emit_stmts_v v _ ps r) as [[cr pr]|]; cbn [cbind fst snd]; [|reflexivity].
      rewrite (len_app _ code cr), Z.add_assoc.
      destruct (emit_stmts_v v _ pr t) as [[ct pt]|]; cbn [cbind fst snd]; [|reflexivity].
      rewrite <- !app_assoc. reflexivity.
  Qed.

  Lemma ends_with_pop_v_last : forall l a, ends_with_pop_v (l ++ [(X_POP_TOP, a)]) = true.
  Proof. intros. unfold ends_with_pop_v. rewrite rev_app_distr. reflexivity. Qed.

  Lemma ends_with_pop_v_store : forall l a, ends_with_pop_v (l ++ [(X_STORE_NAME, a)]) = false.
  Proof. intros. unfold ends_with_pop_v. rewrite rev_app_distr. reflexivity. Qed.

  Theorem compile_v_module_correct : forall pre_len pre prog code P fuel,
    forallb stmt_in_frag prog = true ->
    compile_v v pre_len pre prog = COk (code, P) ->
    prog_wraps_ok [] prog ->
    snd (run_program fuel prog) <> FuelOut ->
    exec_v v (p_consts P) (p_names P) pre_len code = (fst (run_program fuel prog), Some (snd (run_program fuel prog))).
  Proof.
    intros pre_len pre prog code P fuel Hf H Hw Hfuel.
    unfold compile_v in H.
    destruct (emit_stmts_v v pre_len pre prog) as [[c0 p0]|] eqn:ES; cbn [cbind] in H; [|discriminate].
    unfold run_program in *. unfold exec_v.
    set (cf := callf_n fuel fuel) in *. set (cp := callp_n fuel fuel) in *.
    destruct (ends_with_pop_v c0) eqn:EP.
    - (* the last chunk left a value: its POP_TOP is cancelled *)
      inversion H; subst code P; clear H.
      destruct (last_case _ prog) as [Hnil|[r [s Hlast]]].
      { subst prog. cbn in ES. inversion ES; subst. cbn in EP. discriminate. }
      subst prog. rewrite emit_stmts_v_app in ES.
      destruct (emit_stmts_v v pre_len pre r) as [[cr pr]|] eqn:ER; cbn [cbind fst snd] in ES; [|discriminate].
      cbn [emit_stmts_v] in ES.
      destruct (emit_chunk_v v (pre_len + len cr) pr s) as [[cs ps]|] eqn:EC; cbn [cbind fst snd] in ES; [|discriminate].
      inversion ES; subst c0 p0; clear ES.
      rewrite forallb_app in Hf. apply andb_true_iff in Hf. destruct Hf as [Fr Fs].
      cbn [forallb] in Fs. rewrite andb_true_r in Fs.
      destruct s; cbn [stmt_in_frag] in Fs; try discriminate.
      2:{ (* a definition ends with STORE_NAME: no cancellation *)
          exfalso. cbn [emit_chunk_v] in EC.
          destruct (emit_expr_v v _ pr e) as [[ce pe]|]; cbn [cbind fst snd] in EC; [|discriminate].
          destruct (emit_store_name_v pe (NVar x)) as [[cst pst]|] eqn:EST; cbn [cbind fst snd] in EC; [|discriminate].
          inversion EC; subst cs ps; clear EC. unfold emit_store_name_v in EST.
          destruct (register_name pe (NVar x)) as [i pn]. destruct (write_op_v X_STORE_NAME i) as [co|] eqn:W; cbn [cbind] in EST; [|discriminate].
          inversion EST; subst cst pst. apply write_op_v_last in W. destruct W as [pre' [a Hco]]. subst co.
          cbn [leaves_value] in EP. rewrite !app_nil_r in EP. rewrite !app_assoc in EP.
          rewrite ends_with_pop_v_store in EP. discriminate. }
      cbn [leaves_value] in *. rewrite app_nil_r in *.
      replace (cr ++ cs ++ [(X_POP_TOP, 0)]) with ((cr ++ cs) ++ [(X_POP_TOP, 0)]) by (rewrite app_assoc; reflexivity).
      rewrite removelast_last.
      apply (stmts_v_correct cf cp fuel r Fr) in ER. destruct ER as [E1 Hr].
      apply (chunk_v_correct cf cp fuel (SPrint es) Fs) in EC. destruct EC as [E2 Hc].
      destruct (prog_wraps_ok_app cf cp fuel r [SPrint es] Fr [] [] None Hw) as [Hwr Hwt].
      specialize (Hr ps E2 init_vm eq_refl Hwr None). cbn [init_vm venv vout stack] in Hr.
      rewrite exec_block_app in *.
      destruct (exec_block cf cp fuel r (mkState [] [] None)) as [st1|ex out|out] eqn:X1.
      3:{ cbn in Hfuel. contradiction. }
      2:{ rewrite <- app_assoc, run_v_app. rw_conv Hr. reflexivity. }
      destruct Hr as [Hr1 Hr2]. destruct st1 as [en1 o1 r1]. cbn [s_env s_out s_ret] in *. subst r1.
      specialize (Hwt _ eq_refl). cbn [s_env] in Hwt. destruct Hwt as [Hws _].
      specialize (Hc ps (extends_refl _) (mkVm [] en1 o1 0) eq_refl Hws None). cbn [venv vout stack] in Hc.
      cbn [exec_block] in *.
      destruct (Sem.exec cf cp fuel (SPrint es) (mkState en1 o1 None)) as [st2|ex out|out] eqn:X2.
      3:{ cbn in Hfuel. contradiction. }
      2:{ rewrite <- app_assoc, run_v_app. rw_conv Hr1. rewrite run_v_app. rw_conv Hc. reflexivity. }
      destruct Hc as [Hc1 _].
      rewrite <- app_assoc, run_v_app. rw_conv Hr1. rewrite run_v_app. rw_conv Hc1.
      cbn [run_v vext Z.mul Z.add]. unfold step_v. cbn [has_op negb]. reflexivity.
    - (* nothing to cancel: LOAD_CONST None; RETURN_VALUE *)
      destruct (emit_load_const_v p0 CNone) as [[cn pn]|] eqn:EN; cbn [cbind fst snd] in H; [|discriminate].
      inversion H; subst code P; clear H.
      apply (stmts_v_correct cf cp fuel prog Hf) in ES. destruct ES as [E1 Hr].
      apply (emit_load_const_v_correct v) in EN. destruct EN as [E2 Hn].
      specialize (Hr pn E2 init_vm eq_refl Hw None). cbn [init_vm venv vout stack] in Hr.
      destruct (exec_block cf cp fuel prog (mkState [] [] None)) as [st1|ex out|out] eqn:X1.
      3:{ cbn in Hfuel. contradiction. }
      2:{ rewrite run_v_app. rw_conv Hr. reflexivity. }
      destruct Hr as [Hr1 _].
      rewrite run_v_app. rw_conv Hr1. rewrite run_v_app.
      rewrite (Hn pn (extends_refl _) _ (mkVm [] (s_env st1) (s_out st1) 0) eq_refl).
      cbn [run_v vext Z.mul Z.add with_stack stack venv vout]. unfold step_v. cbn [has_op negb]. reflexivity.
  Qed.
End StmtV.
