(** * Versions.Model — the version dimension of the code generator and of the machines that run its output.

    Extends the model of crates/erg_compiler/codegen.rs of CoreErg/Codegen.v (default target 3.11) to every supported
    target: [pyver] = Python 3.7, 3.8, 3.9, 3.10, 3.11.  Same fragment as CoreErg/Codegen.v: literals, variables,
    unary/binary arithmetic, comparisons, short-circuit and/or, not, definitions, print!.
    Reused unchanged from CoreErg (imported): syntax, values and evaluator (Sem.v), the constant pool / name table
    model (Codegen.v: constv, name, pools, register_const, register_name, cres), the machine state and the runtime
    classes (VM.v: sval, vm, wrap_call, fits).

    Version branches transcribed (codegen.rs unless said otherwise; `minor` = self.py_version.minor):
      emit_push_null           PUSH_NULL only when minor >= 11
      emit_call_instr          minor >= 11: emit_precall_and_call (PRECALL argc + 1 cache entry, CALL argc + 4 cache entries)
                               else Opcode310::CALL_FUNCTION argc
      emit_binop_instr         minor >= 11: emit_binop_instr_311 (BINARY_OP <BinOpCode> + 1 cache entry, COMPARE_OP + 2 cache entries)
                               minor >= 9 : emit_binop_instr_309 (Opcode309::BINARY_ADD ..., COMPARE_OP)
                               else       : emit_binop_instr_307 (Opcode308::BINARY_ADD ..., COMPARE_OP)
                               (the argument byte of the argument-less BINARY_x opcodes is `type_pair as usize`: ignored by the
                               interpreter, modelled as 0 and zeroed by the check before comparing)
      emit_binop and / or      EXTENDED_ARG 0; Opcode311::JUMP_IF_x_OR_POP 0; rhs;
                               arg = match minor { Some(11) => lasti - idx - 4, _ => lasti };  fill_jump(idx + 1, arg)
      fill_jump                arg' = if minor >= 10 { arg / 2 } else { arg };  u16::try_from(arg').unwrap()  ([CPanic 2])
                               so: 3.11 relative, in instructions; 3.10 absolute, in instructions; <= 3.9 absolute, in bytes
      emit (module)            RESUME 0 first when minor >= 11 (part of the prelude here: [pre_len] counts it)
    Positions: [base] is the number of code units already written to the code object when an emit function is entered
    (lasti / 2); absolute jump arguments are computed from it.  The prelude (load_prelude) is not modelled: its length
    in code units, its constant pool and its name table are inputs (read from the real .pyc by the check).

    Which erg table an emitted opcode number is taken from ([op_src]: CommonOpcode / Opcode308 / Opcode309 / Opcode310 /
    Opcode311 / raw zero bytes) is transcribed too; gen/Opcodes.v (regenerated from opcode*.rs and codegen.rs on every
    run) and gen/CPython.v (dis.opmap of the installed interpreters) turn it into numbers: [erg_num], [cpy_num].

    Machines: [step_v] is the evaluation loop of CPython 3.7 .. 3.11 for exactly these instructions: argument-less
    BINARY_x (<= 3.10) vs BINARY_OP (3.11), CALL_FUNCTION (<= 3.10: callable below the arguments) vs
    PUSH_NULL/PRECALL/CALL (3.11: NULL, callable, arguments; inline cache entries skipped), JUMP_IF_x_OR_POP:
    JUMPTO(oparg) bytes (<= 3.9), JUMPTO(oparg) instructions (3.10), JUMPBY(oparg) (3.11).  An opcode the version does
    not have ([has_op]) or a backward / misaligned jump stops the machine ([stuck]).  As in CoreErg/VM.v jumps are
    executed by a skip counter, so [run_v] is structurally recursive; it additionally carries the position of the
    current unit, which absolute jump targets are compared with.

    Interpreter selection (crates/erg_common/python_util.rs exec_pyc_code / exec_pyc, ty/codeobj.rs CodeObj::exec,
    config.rs --py-command): [compile_target] and [run_command]. *)
From Coq Require Import ZArith List Bool Lia String.
From ErgV Require Import Common.Sx CoreErg.Syntax CoreErg.Sem CoreErg.Codegen CoreErg.VM gen.Opcodes gen.CPython.
Import ListNotations.
Close Scope string_scope.   (* opened by gen/Opcodes.v *)
Close Scope N_scope.
Open Scope list_scope.
Open Scope Z_scope.

Inductive pyver := V307 | V308 | V309 | V310 | V311.

Definition minor (v : pyver) : Z := match v with V307 => 7 | V308 => 8 | V309 => 9 | V310 => 10 | V311 => 11 end.
Definition all_versions : list pyver := [V307; V308; V309; V310; V311].
Definition default_target : pyver := V311.

Definition pyver_eqb (a b : pyver) : bool := minor a =? minor b.

(** ** opcodes of the fragment, over all versions *)
Inductive vop :=
| X_CACHE | X_POP_TOP | X_PUSH_NULL | X_NOP | X_UNARY_POSITIVE | X_UNARY_NEGATIVE | X_UNARY_NOT | X_UNARY_INVERT
| X_BINARY_POWER | X_BINARY_MULTIPLY | X_BINARY_MODULO | X_BINARY_ADD | X_BINARY_SUBTRACT | X_BINARY_FLOOR_DIVIDE
| X_BINARY_TRUE_DIVIDE | X_RETURN_VALUE | X_STORE_NAME | X_LOAD_CONST | X_LOAD_NAME | X_COMPARE_OP
| X_JUMP_IF_FALSE_OR_POP | X_JUMP_IF_TRUE_OR_POP | X_BINARY_OP | X_CALL_FUNCTION | X_EXTENDED_ARG | X_RESUME | X_PRECALL
| X_CALL.

Definition all_vops : list vop :=
  [X_CACHE; X_POP_TOP; X_PUSH_NULL; X_NOP; X_UNARY_POSITIVE; X_UNARY_NEGATIVE; X_UNARY_NOT; X_UNARY_INVERT;
   X_BINARY_POWER; X_BINARY_MULTIPLY; X_BINARY_MODULO; X_BINARY_ADD; X_BINARY_SUBTRACT; X_BINARY_FLOOR_DIVIDE;
   X_BINARY_TRUE_DIVIDE; X_RETURN_VALUE; X_STORE_NAME; X_LOAD_CONST; X_LOAD_NAME; X_COMPARE_OP;
   X_JUMP_IF_FALSE_OR_POP; X_JUMP_IF_TRUE_OR_POP; X_BINARY_OP; X_CALL_FUNCTION; X_EXTENDED_ARG; X_RESUME; X_PRECALL;
   X_CALL].

Definition op_name (o : vop) : string :=
  (match o with
  | X_CACHE => "CACHE" | X_POP_TOP => "POP_TOP" | X_PUSH_NULL => "PUSH_NULL" | X_NOP => "NOP"
  | X_UNARY_POSITIVE => "UNARY_POSITIVE" | X_UNARY_NEGATIVE => "UNARY_NEGATIVE" | X_UNARY_NOT => "UNARY_NOT"
  | X_UNARY_INVERT => "UNARY_INVERT" | X_BINARY_POWER => "BINARY_POWER" | X_BINARY_MULTIPLY => "BINARY_MULTIPLY"
  | X_BINARY_MODULO => "BINARY_MODULO" | X_BINARY_ADD => "BINARY_ADD" | X_BINARY_SUBTRACT => "BINARY_SUBTRACT"
  | X_BINARY_FLOOR_DIVIDE => "BINARY_FLOOR_DIVIDE" | X_BINARY_TRUE_DIVIDE => "BINARY_TRUE_DIVIDE"
  | X_RETURN_VALUE => "RETURN_VALUE" | X_STORE_NAME => "STORE_NAME" | X_LOAD_CONST => "LOAD_CONST"
  | X_LOAD_NAME => "LOAD_NAME" | X_COMPARE_OP => "COMPARE_OP" | X_JUMP_IF_FALSE_OR_POP => "JUMP_IF_FALSE_OR_POP"
  | X_JUMP_IF_TRUE_OR_POP => "JUMP_IF_TRUE_OR_POP" | X_BINARY_OP => "BINARY_OP" | X_CALL_FUNCTION => "CALL_FUNCTION"
  | X_EXTENDED_ARG => "EXTENDED_ARG" | X_RESUME => "RESUME" | X_PRECALL => "PRECALL" | X_CALL => "CALL"
  end)%string.

Definition is311 (v : pyver) : bool := 11 <=? minor v.

(* does CPython version v have the instruction (with the meaning step_v gives it)? *)
Definition has_op (v : pyver) (o : vop) : bool :=
  match o with
  | X_CACHE | X_PUSH_NULL | X_BINARY_OP | X_RESUME | X_PRECALL | X_CALL => is311 v
  | X_BINARY_POWER | X_BINARY_MULTIPLY | X_BINARY_MODULO | X_BINARY_ADD | X_BINARY_SUBTRACT | X_BINARY_FLOOR_DIVIDE
  | X_BINARY_TRUE_DIVIDE | X_CALL_FUNCTION => negb (is311 v)
  | _ => true
  end.

(** the erg table the code generator takes the number of an emitted opcode from, per version branch *)
Inductive op_table := TCommon | T308 | T309 | T310 | T311 | TRawZero.

Definition table_id (t : op_table) : N :=
  match t with TCommon => 0 | T308 => 8 | T309 => 9 | T310 => 10 | T311 => 11 | TRawZero => 255 end%N.

Definition op_src (v : pyver) (o : vop) : op_table :=
  match o with
  | X_CACHE => TRawZero                                             (* write_bytes(&[0; n]) / write_arg(0) pairs *)
  | X_PUSH_NULL | X_BINARY_OP | X_RESUME | X_PRECALL | X_CALL => T311
  | X_JUMP_IF_FALSE_OR_POP | X_JUMP_IF_TRUE_OR_POP => T311            (* emit_binop: Opcode311::JUMP_IF_x_OR_POP for every target *)
  | X_CALL_FUNCTION => T310                                         (* emit_call_instr: Opcode310::CALL_FUNCTION *)
  | X_BINARY_POWER | X_BINARY_MULTIPLY | X_BINARY_MODULO | X_BINARY_ADD | X_BINARY_SUBTRACT | X_BINARY_FLOOR_DIVIDE
  | X_BINARY_TRUE_DIVIDE =>
    if 9 <=? minor v then T309 else T308                            (* emit_binop_instr_309 / emit_binop_instr_307 *)
  | X_COMPARE_OP => if is311 v then T311 else if 9 <=? minor v then T309 else T308
  | _ => TCommon                                                    (* use CommonOpcode::* *)
  end.

Fixpoint assoc_str (k : string) (l : list (string * N)) : option N :=
  match l with
  | [] => None
  | (k', n) :: r => if String.eqb k k' then Some n else assoc_str k r
  end.

Fixpoint assoc_N {A} (k : N) (l : list (N * A)) : option A :=
  match l with
  | [] => None
  | (k', a) :: r => if N.eqb k k' then Some a else assoc_N k r
  end.

Definition erg_table (t : op_table) : list (string * N) :=
  match t with
  | TCommon => erg_common | T308 => erg_308 | T309 => erg_309 | T310 => erg_310 | T311 => erg_311
  | TRawZero => [("CACHE"%string, 0%N)]
  end.

(* the byte erg writes for the opcode when compiling for v *)
Definition erg_num (v : pyver) (o : vop) : option Z :=
  option_map Z.of_N (assoc_str (op_name o) (erg_table (op_src v o))).

(* the number CPython v's dis.opmap gives the name *)
Definition cpy_num (v : pyver) (o : vop) : option Z :=
  match assoc_N (Z.to_N (minor v)) cpy_opmap with
  | Some tbl => option_map Z.of_N (assoc_str (op_name o) tbl)
  | None => None
  end.

Definition vunit := (vop * Z)%type.

Definition len {A} (l : list A) : Z := Z.of_nat (List.length l).

Definition arith_opcode (op : arith) : vop :=
  match op with
  | OAdd => X_BINARY_ADD | OSub => X_BINARY_SUBTRACT | OMul => X_BINARY_MULTIPLY | ODiv => X_BINARY_TRUE_DIVIDE
  | OFloorDiv => X_BINARY_FLOOR_DIVIDE | OMod => X_BINARY_MODULO | OPow => X_BINARY_POWER
  end.

Definition unary_vop (op : unop) : vop :=
  match op with UNeg => X_UNARY_NEGATIVE | UPos => X_UNARY_POSITIVE | UNot => X_UNARY_NOT | UInv => X_UNARY_INVERT end.

(** ** the code generator, per target version *)
Section CodegenV.
  Variable v : pyver.

  (* write_instr + write_arg (with extend_arg) for a non-jump instruction: the same for every target *)
  Definition write_op_v (op : vop) (arg : Z) : cres (list vunit) :=
    if arg <? 256 then COk [(op, arg)]
    else if arg <? 65536 then COk [(X_EXTENDED_ARG, arg / 256); (op, arg mod 256)]
    else if arg <? 4294967296 then
      COk [(X_EXTENDED_ARG, arg / 16777216); (X_EXTENDED_ARG, (arg / 65536) mod 256); (X_EXTENDED_ARG, (arg / 256) mod 256);
           (op, arg mod 256)]
    else CPanic 1.

  Definition emit_load_const_v (p : pools) (c : constv) : cres (list vunit * pools) :=
    let '(i, p') := register_const const_same p c in
    cbind (write_op_v X_LOAD_CONST i) (fun code => COk (code, p')).

  Definition emit_load_name_v (p : pools) (n : name) : cres (list vunit * pools) :=
    let '(i, p') := register_name p n in
    cbind (write_op_v X_LOAD_NAME i) (fun code => COk (code, p')).

  Definition emit_store_name_v (p : pools) (n : name) : cres (list vunit * pools) :=
    let '(i, p') := register_name p n in
    cbind (write_op_v X_STORE_NAME i) (fun code => COk (code, p')).

  (* emit_push_null *)
  Definition emit_push_null_v : list vunit := if is311 v then [(X_PUSH_NULL, 0)] else [].

  (* emit_call_instr(argc, Name) *)
  Definition emit_call_v (argc : Z) : cres (list vunit) :=
    if is311 v then
      cbind (write_op_v X_PRECALL argc) (fun c1 =>
      cbind (write_op_v X_CALL argc) (fun c2 =>
        COk (c1 ++ [(X_CACHE, 0)] ++ c2 ++ [(X_CACHE, 0); (X_CACHE, 0); (X_CACHE, 0); (X_CACHE, 0)])))
    else write_op_v X_CALL_FUNCTION argc.

  (* emit_binop_instr for an arithmetic operator *)
  Definition emit_arith_v (op : arith) : cres (list vunit) :=
    if is311 v then cbind (write_op_v X_BINARY_OP (binop_arg op)) (fun co => COk (co ++ [(X_CACHE, 0)]))
    else COk [(arith_opcode op, 0)].

  (* emit_binop_instr for a comparison: the argument is 0..5 for every target *)
  Definition emit_cmp_v (op : cmpop) : cres (list vunit) :=
    cbind (write_op_v X_COMPARE_OP (cmp_arg op)) (fun co =>
      COk (co ++ (if is311 v then [(X_CACHE, 0); (X_CACHE, 0)] else []))).

  (* emit_binop (and / or) + fill_jump, in the code's own terms: [idx] = lasti (bytes) where EXTENDED_ARG is written,
     [lasti] = lasti (bytes) after the right operand *)
  Definition jump_arg_v (idx lasti : Z) : Z :=
    let arg := if minor v =? 11 then lasti - idx - 4 else lasti in
    if 10 <=? minor v then arg / 2 else arg.

  Definition emit_wrapped_v (w : wrapc) (base : Z) (p : pools) (body : Z -> pools -> cres (list vunit * pools))
    : cres (list vunit * pools) :=
    if is_wrapped w then
      cbind (emit_load_name_v p (NCls w)) (fun cl =>
      let pre := emit_push_null_v ++ fst cl in
      cbind (body (base + len pre) (snd cl)) (fun cb =>
      cbind (emit_call_v 1) (fun cc => COk (pre ++ fst cb ++ cc, snd cb))))
    else body base p.

  (* emit_expr; [base] = code units already in the code object; outside the fragment: CPanic 0 *)
  Fixpoint emit_expr_v (base : Z) (p : pools) (e : expr) : cres (list vunit * pools) :=
    emit_wrapped_v (wrap_of e) base p (fun b0 p0 =>
      match e with
      | ELit _ l => emit_load_const_v p0 (const_of_lit l)
      | EVar _ x => emit_load_name_v p0 (NVar x)
      | EUn _ op a =>
        cbind (emit_expr_v b0 p0 a) (fun ca => COk (fst ca ++ [(unary_vop op, 0)], snd ca))
      | EBin _ op a b =>
        cbind (emit_expr_v b0 p0 a) (fun ca =>
        cbind (emit_expr_v (b0 + len (fst ca)) (snd ca) b) (fun cb =>
        cbind (emit_arith_v op) (fun co => COk (fst ca ++ fst cb ++ co, snd cb))))
      | ECmp _ op a b =>
        cbind (emit_expr_v b0 p0 a) (fun ca =>
        cbind (emit_expr_v (b0 + len (fst ca)) (snd ca) b) (fun cb =>
        cbind (emit_cmp_v op) (fun co => COk (fst ca ++ fst cb ++ co, snd cb))))
      | ELogic _ is_or a b =>
        cbind (emit_expr_v b0 p0 a) (fun ca =>
        let jpos := b0 + len (fst ca) in                    (* unit index of the EXTENDED_ARG placeholder *)
        cbind (emit_expr_v (jpos + 2) (snd ca) b) (fun cb =>
          let arg := jump_arg_v (2 * jpos) (2 * (jpos + 2 + len (fst cb))) in
          if arg <? 65536 then
            COk (fst ca ++ [(X_EXTENDED_ARG, arg / 256);
                            ((if is_or then X_JUMP_IF_TRUE_OR_POP else X_JUMP_IF_FALSE_OR_POP), arg mod 256)] ++ fst cb,
                 snd cb)
          else CPanic 2))
      | _ => CPanic 0
      end).

  Fixpoint emit_args_v (base : Z) (p : pools) (es : list expr) : cres (list vunit * pools) :=
    match es with
    | [] => COk ([], p)
    | e :: r =>
      cbind (emit_expr_v base p e) (fun ce =>
      cbind (emit_args_v (base + len (fst ce)) (snd ce) r) (fun cr => COk (fst ce ++ fst cr, snd cr)))
    end.

  (* emit_chunk for a definition (emit_var_def) / a print! call (emit_call_local: push_null; load name; emit_args_311) *)
  Definition emit_chunk_v (base : Z) (p : pools) (s : stmt) : cres (list vunit * pools) :=
    match s with
    | SDef x _ e =>
      cbind (emit_expr_v base p e) (fun ce =>
      cbind (emit_store_name_v (snd ce) (NVar x)) (fun cs => COk (fst ce ++ fst cs, snd cs)))
    | SPrint es =>
      cbind (emit_load_name_v p NPrint) (fun cp =>
      let pre := emit_push_null_v ++ fst cp in
      cbind (emit_args_v (base + len pre) (snd cp) es) (fun ca =>
      cbind (emit_call_v (len es)) (fun cc => COk (pre ++ fst ca ++ cc, snd ca))))
    | _ => CPanic 0
    end.

  Fixpoint emit_stmts_v (base : Z) (p : pools) (ss : list stmt) : cres (list vunit * pools) :=
    match ss with
    | [] => COk ([], p)
    | s :: r =>
      cbind (emit_chunk_v base p s) (fun cs =>
      let code := fst cs ++ (if leaves_value s then [(X_POP_TOP, 0)] else []) in
      cbind (emit_stmts_v (base + len code) (snd cs) r) (fun cr => COk (code ++ fst cr, snd cr)))
    end.

  Definition ends_with_pop_v (code : list vunit) : bool :=
    match rev code with
    | (X_POP_TOP, _) :: _ => true
    | _ => false
    end.

  (* PyCodeGenerator::emit after the prelude ([pre_len] code units, RESUME included for 3.11) *)
  Definition compile_v (pre_len : Z) (pre : pools) (prog : program) : cres (list vunit * pools) :=
    cbind (emit_stmts_v pre_len pre prog) (fun cs =>
      let '(code, p) := cs in
      if ends_with_pop_v code then
        COk (removelast code ++ [(X_RETURN_VALUE, 0)], p)
      else
        cbind (emit_load_const_v p CNone) (fun cn => COk (code ++ fst cn ++ [(X_RETURN_VALUE, 0)], snd cn))).
End CodegenV.

(** ** the machines *)
Definition arith_of_vop (o : vop) : option arith :=
  match o with
  | X_BINARY_ADD => Some OAdd | X_BINARY_SUBTRACT => Some OSub | X_BINARY_MULTIPLY => Some OMul
  | X_BINARY_TRUE_DIVIDE => Some ODiv | X_BINARY_FLOOR_DIVIDE => Some OFloorDiv | X_BINARY_MODULO => Some OMod
  | X_BINARY_POWER => Some OPow
  | _ => None
  end.

Section VMV.
  Variable v : pyver.
  Variable consts : list constv.
  Variable names : list name.

  Definition binary_v (st : vm) (op : arith) (caches : nat) : step_res :=
    match stack st with
    | SV r :: SV l :: s =>
      match bin_op op l r with
      | Ok x => Next caches (with_stack st (SV x :: s))
      | Raise e => raise st e
      | OutOfFuel => stuck st
      end
    | _ => stuck st
    end.

  (* JUMP_IF_TRUE_OR_POP / JUMP_IF_FALSE_OR_POP at unit [pos]:
     3.11  JUMPBY(oparg): relative to the next instruction, in instructions
     3.10  JUMPTO(oparg): absolute, in instructions           (ceval.c: #define JUMPTO(x) (next_instr = first_instr + (x)))
     <=3.9 JUMPTO(oparg): absolute, in bytes                  (first_instr + (x) / sizeof(_Py_CODEUNIT)); odd: not modelled
     only forward targets are modelled (the fragment has no loops) *)
  Definition jump_skip (pos arg : Z) : option nat :=
    match v with
    | V311 => Some (Z.to_nat arg)
    | V310 => if pos <? arg then Some (Z.to_nat (arg - (pos + 1))) else None
    | _ => if Z.even arg && (pos <? arg / 2) then Some (Z.to_nat (arg / 2 - (pos + 1))) else None
    end.

  Definition jump_if_v (st : vm) (on_true : bool) (pos arg : Z) : step_res :=
    match stack st with
    | SV x :: s =>
      if Bool.eqb (truthy x) on_true then
        match jump_skip pos arg with
        | Some k => Next k (with_stack st (SV x :: s))
        | None => stuck st
        end
      else Next 0 (with_stack st s)
    | _ => stuck st
    end.

  Definition apply_callable (st : vm) (f : name) (vs : list value) (below : list sval) (caches : nat) : step_res :=
    match f with
    | NPrint => Next caches (mkVm (SV VNone :: below) (venv st) (print_line vs :: vout st) 0)
    | NCls w =>
      match vs with
      | [x] => match wrap_call w x with
               | Ok x' => Next caches (with_stack st (SV x' :: below))
               | Raise e => raise st e
               | OutOfFuel => stuck st
               end
      | _ => stuck st
      end
    | _ => stuck st
    end.

  (* 3.11 CALL argc: ... NULL callable arg1..argn;   <= 3.10 CALL_FUNCTION argc: ... callable arg1..argn *)
  Definition call_v (st : vm) (argc : Z) : step_res :=
    let n := Z.to_nat argc in
    let args_rev := firstn n (stack st) in
    if negb (Nat.eqb (List.length args_rev) n) then stuck st else
    match all_values (rev args_rev) with
    | None => stuck st
    | Some vs =>
      if is311 v then
        match skipn n (stack st) with
        | SCallable f :: SNull :: below => apply_callable st f vs below 4
        | _ => stuck st
        end
      else
        match skipn n (stack st) with
        | SCallable f :: below => apply_callable st f vs below 0
        | _ => stuck st
        end
    end.

  (* one instruction at unit [pos] with its full argument (EXTENDED_ARG folded in) *)
  Definition step_v (pos : Z) (op : vop) (arg : Z) (st : vm) : step_res :=
    if negb (has_op v op) then stuck st else
    match op with
    | X_CACHE | X_NOP | X_RESUME => Next 0 (with_stack st (stack st))
    | X_EXTENDED_ARG => Next 0 (mkVm (stack st) (venv st) (vout st) arg)
    | X_PUSH_NULL => Next 0 (with_stack st (SNull :: stack st))
    | X_POP_TOP => match stack st with _ :: s => Next 0 (with_stack st s) | [] => stuck st end
    | X_LOAD_CONST =>
      match nth_error consts (Z.to_nat arg) with
      | Some c => Next 0 (with_stack st (SV (cval c) :: stack st))
      | None => stuck st
      end
    | X_LOAD_NAME =>
      match nth_error names (Z.to_nat arg) with
      | Some (NVar x) =>
        match lookup x (venv st) with
        | Some x' => Next 0 (with_stack st (SV x' :: stack st))
        | None => raise st NameError
        end
      | Some NPrint => Next 0 (with_stack st (SCallable NPrint :: stack st))
      | Some (NCls w) => Next 0 (with_stack st (SCallable (NCls w) :: stack st))
      | _ => stuck st
      end
    | X_STORE_NAME =>
      match nth_error names (Z.to_nat arg), stack st with
      | Some (NVar x), SV x' :: s => Next 0 (mkVm s ((x, x') :: venv st) (vout st) 0)
      | _, _ => stuck st
      end
    | X_UNARY_POSITIVE => unary st UPos
    | X_UNARY_NEGATIVE => unary st UNeg
    | X_UNARY_NOT => unary st UNot
    | X_UNARY_INVERT => unary st UInv
    | X_BINARY_POWER | X_BINARY_MULTIPLY | X_BINARY_MODULO | X_BINARY_ADD | X_BINARY_SUBTRACT | X_BINARY_FLOOR_DIVIDE
    | X_BINARY_TRUE_DIVIDE =>
      match arith_of_vop op with Some o => binary_v st o 0 | None => stuck st end
    | X_BINARY_OP =>
      match arith_of_arg arg with Some o => binary_v st o 1 | None => stuck st end
    | X_COMPARE_OP =>
      match cmp_of_arg arg, stack st with
      | Some o, SV r :: SV l :: s =>
        match cmp_op o l r with
        | Ok x => Next (if is311 v then 2 else 0) (with_stack st (SV x :: s))
        | Raise e => raise st e
        | OutOfFuel => stuck st
        end
      | _, _ => stuck st
      end
    | X_JUMP_IF_FALSE_OR_POP => jump_if_v st false pos arg
    | X_JUMP_IF_TRUE_OR_POP => jump_if_v st true pos arg
    | X_PRECALL => Next 1 (with_stack st (stack st))
    | X_CALL | X_CALL_FUNCTION => call_v st arg
    | X_RETURN_VALUE => Halt (rev (vout st), Some Exit0)
    end.

  Fixpoint run_v (code : list vunit) (pos : Z) (skip : nat) (st : vm) : pref_res :=
    match code with
    | [] => Reached skip st
    | (op, a) :: rest =>
      match skip with
      | S k => run_v rest (pos + 1) k st
      | O =>
        match step_v pos op (vext st * 256 + a) st with
        | Next k st' => run_v rest (pos + 1) k st'
        | Halt o => Halted o
        end
      end
    end.

  (* the module code = prelude (pre_len units, not modelled: executed before, leaves an empty stack) ++ code *)
  Definition exec_v (pre_len : Z) (code : list vunit) : vm_outcome :=
    match run_v code pre_len 0 init_vm with
    | Halted o => o
    | Reached _ st => (rev (vout st), None)
    end.
End VMV.

(** ** interpreter selection

    config.rs: `--py-command P` sets cfg.py_command = Some(P), cfg.py_magic_num = detect_magic_number(P),
    cfg.target_version = get_python_version(P); without the option all three are None and the code generator / the
    .pyc writer fall back to which_python() (env_python_version / env_magic_number).
    ty/codeobj.rs CodeObj::exec(cfg) -> python_util.rs exec_pyc_code(bytes, py_command, args, output)
      -> exec_pyc(tmp_file, py_command, cwd, ..) -> exec_pyc_in: command = py_command.map_or_else(which_python, to_string).
    Before the repair CodeObj::exec did not pass cfg.py_command and exec_pyc_code called exec_pyc(.., None, ..):
    [run_command_nofix]. *)
Definition command := list Z.        (* the command text, code points *)

Record ergcfg := mkCfg { py_command : option command }.

Section Select.
  Variable which_python : command.                 (* python_util.rs which_python(): the default interpreter *)
  Variable version_of : command -> option pyver.   (* the version of the interpreter a command starts *)

  Definition selected (cfg : ergcfg) : command :=
    match py_command cfg with Some c => c | None => which_python end.

  (* config.rs / codegen.rs: the version the bytecode is generated for *)
  Definition compile_target (cfg : ergcfg) : option pyver := version_of (selected cfg).

  (* exec_pyc_in / exec_pyc: command = py_command.map_or_else(|| which_python().to_string(), ToString::to_string) *)
  Definition exec_pyc_command (arg : option command) : command :=
    match arg with Some c => c | None => which_python end.

  (* CodeObj::exec -> exec_pyc_code -> exec_pyc *)
  Definition run_command (cfg : ergcfg) : command := exec_pyc_command (py_command cfg).
  Definition run_command_nofix (cfg : ergcfg) : command := exec_pyc_command None.
End Select.
