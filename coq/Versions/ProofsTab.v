(** * Proofs for C13, part 2: the opcodes the code generator model writes for a target exist in that target and carry
    CPython's numbers (finite tables, by computation over gen/Opcodes.v and gen/CPython.v); every target behaves like
    every other; interpreter selection. *)
From Coq Require Import ZArith NArith List Bool Lia String.
From ErgV Require Import Common.Sx CoreErg.Syntax CoreErg.Sem CoreErg.Codegen CoreErg.VM CoreErg.Spec_C01 CoreErg.Proofs_C01.
From ErgV Require Import gen.Opcodes gen.CPython Versions.Model Versions.Spec Versions.Proofs.
Import ListNotations.
Close Scope string_scope.
Close Scope N_scope.
Open Scope list_scope.
Open Scope Z_scope.

(** ** what compile_v writes is in [emits] *)
Section Emits.
  Variable v : pyver.
  Definition ok_unit (u : vunit) : Prop := emits v (fst u) = true.
  Definition ok_code (c : list vunit) : Prop := Forall ok_unit c.

  Lemma ok_app : forall a b, ok_code a -> ok_code b -> ok_code (a ++ b).
  Proof. intros. apply Forall_app; split; assumption. Qed.

  Lemma write_op_v_ok : forall op arg c, emits v op = true -> write_op_v op arg = COk c -> ok_code c.
  Proof.
    intros op arg c He H. unfold write_op_v in H.
    destruct (arg <? 256); [inversion H; repeat constructor; exact He|].
    destruct (arg <? 65536); [inversion H; repeat constructor; exact He|].
    destruct (arg <? 4294967296); [|discriminate].
    inversion H; repeat constructor; exact He.
  Qed.

  Lemma load_const_ok : forall p c code p', emit_load_const_v p c = COk (code, p') -> ok_code code.
  Proof.
    intros p c code p' H. unfold emit_load_const_v in H. destruct (register_const const_same p c) as [i q].
    destruct (write_op_v X_LOAD_CONST i) as [co|] eqn:W; cbn [cbind] in H; [|discriminate]. inversion H; subst.
    eapply write_op_v_ok; [|exact W]. reflexivity.
  Qed.
  Lemma load_name_ok : forall p n code p', emit_load_name_v p n = COk (code, p') -> ok_code code.
  Proof.
    intros p n code p' H. unfold emit_load_name_v in H. destruct (register_name p n) as [i q].
    destruct (write_op_v X_LOAD_NAME i) as [co|] eqn:W; cbn [cbind] in H; [|discriminate]. inversion H; subst.
    eapply write_op_v_ok; [|exact W]. reflexivity.
  Qed.
  Lemma store_name_ok : forall p n code p', emit_store_name_v p n = COk (code, p') -> ok_code code.
  Proof.
    intros p n code p' H. unfold emit_store_name_v in H. destruct (register_name p n) as [i q].
    destruct (write_op_v X_STORE_NAME i) as [co|] eqn:W; cbn [cbind] in H; [|discriminate]. inversion H; subst.
    eapply write_op_v_ok; [|exact W]. reflexivity.
  Qed.
  Lemma push_null_ok : ok_code (emit_push_null_v v).
  Proof. unfold emit_push_null_v. destruct (is311 v) eqn:E; [|constructor]. repeat constructor. unfold ok_unit; cbn. exact E. Qed.

  Lemma call_ok : forall argc cc, emit_call_v v argc = COk cc -> ok_code cc.
  Proof.
    intros argc cc H. unfold emit_call_v in H. destruct (is311 v) eqn:E.
    - destruct (write_op_v X_PRECALL argc) as [c1|] eqn:W1; cbn [cbind] in H; [|discriminate].
      destruct (write_op_v X_CALL argc) as [c2|] eqn:W2; cbn [cbind] in H; [|discriminate].
      inversion H; subst cc.
      assert (Hc : ok_unit (X_CACHE, 0)) by (unfold ok_unit; cbn; exact E).
      apply ok_app; [eapply write_op_v_ok; [|exact W1]; cbn; exact E|].
      cbn [app]. constructor; [exact Hc|].
      apply ok_app; [eapply write_op_v_ok; [|exact W2]; cbn; exact E|]. repeat constructor; exact Hc.
    - eapply write_op_v_ok; [|exact H]. cbn. rewrite E. reflexivity.
  Qed.

  Lemma arith_ok : forall op co, emit_arith_v v op = COk co -> ok_code co.
  Proof.
    intros op co H. unfold emit_arith_v in H. destruct (is311 v) eqn:E.
    - destruct (write_op_v X_BINARY_OP (binop_arg op)) as [c0|] eqn:W; cbn [cbind] in H; [|discriminate].
      inversion H; subst co. apply ok_app; [eapply write_op_v_ok; [|exact W]; cbn; exact E|].
      repeat constructor. unfold ok_unit; cbn; exact E.
    - inversion H; subst co. repeat constructor. unfold ok_unit. cbn [fst]. destruct op; cbn; rewrite E; reflexivity.
  Qed.

  Lemma cmp_ok : forall op co, emit_cmp_v v op = COk co -> ok_code co.
  Proof.
    intros op co H. unfold emit_cmp_v in H.
    destruct (write_op_v X_COMPARE_OP (cmp_arg op)) as [c0|] eqn:W; cbn [cbind] in H; [|discriminate].
    inversion H; subst co. apply ok_app; [eapply write_op_v_ok; [|exact W]; reflexivity|].
    destruct (is311 v) eqn:E; [|constructor]. repeat constructor; unfold ok_unit; cbn; exact E.
  Qed.

  Lemma wrapped_ok : forall w base p body c p',
    emit_wrapped_v v w base p body = COk (c, p') ->
    (forall b0 p0 c1 p1, body b0 p0 = COk (c1, p1) -> ok_code c1) -> ok_code c.
  Proof.
    intros w base p body c p' H Hb. unfold emit_wrapped_v in H. destruct (is_wrapped w); [|eapply Hb; exact H].
    destruct (emit_load_name_v p (NCls w)) as [[cl pl]|] eqn:EL; cbn [cbind fst snd] in H; [|discriminate].
    destruct (body _ pl) as [[cb pb]|] eqn:EB; cbn [cbind fst snd] in H; [|discriminate].
    destruct (emit_call_v v 1) as [cc|] eqn:EC; cbn [cbind] in H; [|discriminate].
    inversion H; subst c p'.
    apply ok_app; [apply ok_app; [apply push_null_ok|eapply load_name_ok; exact EL]|].
    apply ok_app; [eapply Hb; exact EB|eapply call_ok; exact EC].
  Qed.

  Lemma expr_ok : forall e base p c p', emit_expr_v v base p e = COk (c, p') -> ok_code c.
  Proof.
    induction e using expr_ind'; intros base p c p' Hc; cbn [emit_expr_v] in Hc;
      (eapply wrapped_ok; [exact Hc|]); intros b0 p0 c1 p1 Hb; cbv beta in Hb; try discriminate.
    - eapply load_const_ok; exact Hb.
    - eapply load_name_ok; exact Hb.
    - destruct (emit_expr_v v b0 p0 e) as [[ca pa]|] eqn:Ea; cbn [cbind fst snd] in Hb; [|discriminate].
      inversion Hb; subst. apply ok_app; [eapply IHe; exact Ea|]. repeat constructor. unfold ok_unit. destruct o; reflexivity.
    - destruct (emit_expr_v v b0 p0 e1) as [[ca pa]|] eqn:Ea; cbn [cbind fst snd] in Hb; [|discriminate].
      destruct (emit_expr_v v _ pa e2) as [[cb pb]|] eqn:Eb; cbn [cbind fst snd] in Hb; [|discriminate].
      destruct (emit_arith_v v o) as [co|] eqn:W; cbn [cbind] in Hb; [|discriminate].
      inversion Hb; subst. apply ok_app; [eapply IHe1; exact Ea|]. apply ok_app; [eapply IHe2; exact Eb|eapply arith_ok; exact W].
    - destruct (emit_expr_v v b0 p0 e1) as [[ca pa]|] eqn:Ea; cbn [cbind fst snd] in Hb; [|discriminate].
      destruct (emit_expr_v v _ pa e2) as [[cb pb]|] eqn:Eb; cbn [cbind fst snd] in Hb; [|discriminate].
      destruct (emit_cmp_v v o) as [co|] eqn:W; cbn [cbind] in Hb; [|discriminate].
      inversion Hb; subst. apply ok_app; [eapply IHe1; exact Ea|]. apply ok_app; [eapply IHe2; exact Eb|eapply cmp_ok; exact W].
    - destruct (emit_expr_v v b0 p0 e1) as [[ca pa]|] eqn:Ea; cbn [cbind fst snd] in Hb; [|discriminate].
      destruct (emit_expr_v v _ pa e2) as [[cb pb]|] eqn:Eb; cbn [cbind fst snd] in Hb; [|discriminate].
      destruct (_ <? 65536); [|discriminate].
      inversion Hb; subst. apply ok_app; [eapply IHe1; exact Ea|]. cbn [app].
      constructor; [reflexivity|]. constructor; [unfold ok_unit; destruct k; reflexivity|]. eapply IHe2; exact Eb.
  Qed.

  Lemma args_ok : forall es base p c p', emit_args_v v base p es = COk (c, p') -> ok_code c.
  Proof.
    induction es as [|e es IH]; intros base p c p' H; cbn [emit_args_v] in H.
    - inversion H; constructor.
    - destruct (emit_expr_v v base p e) as [[ce pe]|] eqn:Ee; cbn [cbind fst snd] in H; [|discriminate].
      destruct (emit_args_v v _ pe es) as [[cr pr]|] eqn:Er; cbn [cbind fst snd] in H; [|discriminate].
      inversion H; subst. apply ok_app; [eapply expr_ok; exact Ee|eapply IH; exact Er].
  Qed.

  Lemma chunk_ok : forall s base p c p', emit_chunk_v v base p s = COk (c, p') -> ok_code c.
  Proof.
    intros s base p c p' H. destruct s; cbn [emit_chunk_v] in H; try discriminate.
    - destruct (emit_load_name_v p NPrint) as [[cl pl]|] eqn:EL; cbn [cbind fst snd] in H; [|discriminate].
      destruct (emit_args_v v _ pl es) as [[ca pa]|] eqn:EA; cbn [cbind fst snd] in H; [|discriminate].
      destruct (emit_call_v v (len es)) as [cc|] eqn:EC; cbn [cbind] in H; [|discriminate].
      inversion H; subst.
      apply ok_app; [apply ok_app; [apply push_null_ok|eapply load_name_ok; exact EL]|].
      apply ok_app; [eapply args_ok; exact EA|eapply call_ok; exact EC].
    - destruct (emit_expr_v v base p e) as [[ce pe]|] eqn:EE; cbn [cbind fst snd] in H; [|discriminate].
      destruct (emit_store_name_v pe (NVar x)) as [[cs ps]|] eqn:ES; cbn [cbind fst snd] in H; [|discriminate].
      inversion H; subst. apply ok_app; [eapply expr_ok; exact EE|eapply store_name_ok; exact ES].
  Qed.

  Lemma stmts_ok : forall ss base p c p', emit_stmts_v v base p ss = COk (c, p') -> ok_code c.
  Proof.
    induction ss as [|s ss IH]; intros base p c p' H; cbn [emit_stmts_v] in H.
    - inversion H; constructor.
    - destruct (emit_chunk_v v base p s) as [[cs ps]|] eqn:ES; cbn [cbind fst snd] in H; [|discriminate].
      destruct (emit_stmts_v v _ ps ss) as [[cr pr]|] eqn:ER; cbn [cbind fst snd] in H; [|discriminate].
      inversion H; subst. apply ok_app; [|eapply IH; exact ER].
      apply ok_app; [eapply chunk_ok; exact ES|]. destruct (leaves_value s); repeat constructor.
  Qed.

  Lemma ok_removelast : forall c, ok_code c -> ok_code (removelast c).
  Proof.
    induction c as [|u c IH]; intros H; [constructor|]. inversion H; subst. cbn [removelast].
    destruct c; [constructor|]. constructor; [assumption|apply IH; assumption].
  Qed.

  Lemma compile_v_emits : forall pre_len pre prog code P,
    compile_v v pre_len pre prog = COk (code, P) -> Forall (fun u => emits v (fst u) = true) code.
  Proof.
    intros pre_len pre prog code P H. unfold compile_v in H.
    destruct (emit_stmts_v v pre_len pre prog) as [[c0 p0]|] eqn:ES; cbn [cbind] in H; [|discriminate].
    apply stmts_ok in ES.
    destruct (ends_with_pop_v c0).
    - inversion H; subst. apply ok_app; [apply ok_removelast; exact ES|]. repeat constructor.
    - destruct (emit_load_const_v p0 CNone) as [[cn pn]|] eqn:EN; cbn [cbind fst snd] in H; [|discriminate].
      inversion H; subst. apply ok_app; [exact ES|]. apply ok_app; [eapply load_const_ok; exact EN|]. repeat constructor.
  Qed.
End Emits.

(** ** the tables: every opcode in [emits v] has, in the erg table codegen.rs takes it from, the number CPython v gives it *)
Definition num_agree (v : pyver) (o : vop) : bool :=
  negb (emits v o) ||
  match erg_num v o, cpy_num v o with
  | Some a, Some b => a =? b
  | _, _ => false
  end.

Lemma numbers_agree_all : forallb (fun v => forallb (num_agree v) all_vops) all_versions = true.
Proof. vm_compute. reflexivity. Qed.

Lemma all_vops_complete : forall o, In o all_vops.
Proof. destruct o; cbn; tauto. Qed.
Lemma all_versions_complete : forall v, In v all_versions.
Proof. destruct v; cbn; tauto. Qed.

Lemma emitted_numbers_agree : forall v o, emits v o = true ->
  exists n, erg_num v o = Some n /\ cpy_num v o = Some n.
Proof.
  intros v o He. pose proof numbers_agree_all as H. rewrite forallb_forall in H.
  specialize (H v (all_versions_complete v)). rewrite forallb_forall in H. specialize (H o (all_vops_complete o)).
  unfold num_agree in H. rewrite He in H. cbn [negb orb] in H.
  destruct (erg_num v o) as [a|]; [|discriminate]. destruct (cpy_num v o) as [b|]; [|discriminate].
  apply Z.eqb_eq in H. subst. exists b. split; reflexivity.
Qed.

Definition static_agree (v : pyver) (o : vop) : bool :=
  negb (emits v o) || match erg_num v o with Some n => n =? op_byte_static v o | None => false end.

Lemma static_agree_all : forallb (fun v => forallb (static_agree v) all_vops) all_versions = true.
Proof. vm_compute. reflexivity. Qed.

Lemma static_bytes : forall v o, emits v o = true -> erg_num v o = Some (op_byte_static v o).
Proof.
  intros v o He. pose proof static_agree_all as H. rewrite forallb_forall in H.
  specialize (H v (all_versions_complete v)). rewrite forallb_forall in H. specialize (H o (all_vops_complete o)).
  unfold static_agree in H. rewrite He in H. cbn [negb orb] in H.
  destruct (erg_num v o) as [a|]; [|discriminate]. apply Z.eqb_eq in H. subst. reflexivity.
Qed.

(** the names are distinct per version, so the number determines the instruction: CPython v decodes the byte erg wrote
    as the instruction the model means *)
Definition decode_cpy (v : pyver) (n : Z) : option vop :=
  find (fun o => match cpy_num v o with Some m => m =? n | None => false end) all_vops.

Definition decode_agree (v : pyver) (o : vop) : bool :=
  negb (emits v o) ||
  match erg_num v o with
  | Some n => match decode_cpy v n with Some o' => String.eqb (op_name o') (op_name o) | None => false end
  | None => false
  end.

Lemma decode_agree_all : forallb (fun v => forallb (decode_agree v) all_vops) all_versions = true.
Proof. vm_compute. reflexivity. Qed.

(** the transcription of "which table" is the one codegen.rs uses: every (version, table, name) is a mention that the
    translator of C16 found reachable for that version in codegen.rs *)
Definition src_listed (v : pyver) (o : vop) : bool :=
  negb (emits v o) ||
  match op_src v o with
  | TRawZero => existsb (fun r => N.eqb (fst r) (Z.to_N (minor v)) && N.eqb (snd r) 0%N) erg_emitted_raw
  | t => existsb (fun r => N.eqb (fst (fst r)) (Z.to_N (minor v)) && N.eqb (snd (fst r)) (table_id t) && String.eqb (snd r) (op_name o))
                 erg_emitted
  end.

Lemma sources_listed_all : forallb (fun v => forallb (src_listed v) all_vops) all_versions = true.
Proof. vm_compute. reflexivity. Qed.

(** ** every target behaves like every other *)
Lemma targets_agree : forall v w prog fuel lv prev codev Pv lw prew codew Pw,
  forallb stmt_in_frag prog = true ->
  compile_v v lv prev prog = COk (codev, Pv) ->
  compile_v w lw prew prog = COk (codew, Pw) ->
  prog_wraps_ok [] prog ->
  snd (run_program fuel prog) <> FuelOut ->
  exec_v v (p_consts Pv) (p_names Pv) lv codev = exec_v w (p_consts Pw) (p_names Pw) lw codew.
Proof.
  intros v w prog fuel lv prev codev Pv lw prew codew Pw Hf Hv Hw Hwr Hfu.
  rewrite (compile_v_module_correct v lv prev prog codev Pv fuel Hf Hv Hwr Hfu).
  rewrite (compile_v_module_correct w lw prew prog codew Pw fuel Hf Hw Hwr Hfu). reflexivity.
Qed.

(** ** interpreter selection *)
Lemma run_selected : forall which cfg, run_command which cfg = selected which cfg.
Proof. intros which [c]. reflexivity. Qed.

Lemma run_version : forall which version_of cfg,
  version_of (run_command which cfg) = compile_target which version_of cfg.
Proof. intros. unfold compile_target. rewrite run_selected. reflexivity. Qed.
