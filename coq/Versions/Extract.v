(** extraction entry point for Versions (C13): per-target code generator model, per-target machine, judges.
    depends on: ErgV.Common.Sx ErgV.CoreErg.Syntax ErgV.CoreErg.Sem ErgV.CoreErg.Codegen ErgV.CoreErg.VM ErgV.CoreErg.Spec_C01
                ErgV.gen.Opcodes ErgV.gen.CPython ErgV.Versions.Model ErgV.Versions.Spec *)
From Coq Require Import ZArith List Bool.
From ErgV Require Import Common.Sx CoreErg.Syntax CoreErg.Sem CoreErg.Codegen CoreErg.VM CoreErg.Spec_C01.
From ErgV Require Import Versions.Model Versions.Spec.
Import ListNotations.
Close Scope string_scope.
Close Scope N_scope.
Open Scope list_scope.
Open Scope Z_scope.

Definition dec_ver (z : Z) : option pyver :=
  match z with 7 => Some V307 | 8 => Some V308 | 9 => Some V309 | 10 => Some V310 | 11 => Some V311 | _ => None end.

Definition enc_status (s : status) : sx :=
  match s with
  | Exit0 => SZ 0
  | Uncaught e => SZ (exn_code e)
  | FuelOut => SZ (-998)
  end.

(* constants: (0 n) Nat | (1 z) Int | (2 bits) Float | (3 (cp..)) Str | (4 b) Bool | (5) None | (6 k) opaque *)
Definition enc_const (c : constv) : sx :=
  match c with
  | CNat n => SL [SZ 0; SZ n]
  | CInt z => SL [SZ 1; SZ z]
  | CFloat b => SL [SZ 2; SZ b]
  | CStr s => SL [SZ 3; sx_of_zs s]
  | CBool b => SL [SZ 4; sx_bool b]
  | CNone => SL [SZ 5]
  | COpaque k => SL [SZ 6; SZ k]
  end.

Definition dec_const (x : sx) : constv :=
  let k := sx_z (sx_nth x 0) in
  if k =? 0 then CNat (sx_z (sx_nth x 1))
  else if k =? 1 then CInt (sx_z (sx_nth x 1))
  else if k =? 2 then CFloat (sx_z (sx_nth x 1))
  else if k =? 3 then CStr (sx_zs (sx_nth x 1))
  else if k =? 4 then CBool (sx_to_bool (sx_nth x 1))
  else if k =? 5 then CNone
  else COpaque (sx_z (sx_nth x 1)).

Definition wrap_code (w : wrapc) : Z :=
  match w with WNone => 0 | WNat => 1 | WInt => 2 | WFloat => 3 | WStr => 4 | WBool => 5 | WList => 6 end.

(* names: (0 k) prelude name | (1) print | (2 w) runtime class | (3 x) variable *)
Definition enc_name (n : name) : sx :=
  match n with
  | NPre k => SL [SZ 0; SZ k]
  | NPrint => SL [SZ 1]
  | NCls w => SL [SZ 2; SZ (wrap_code w)]
  | NVar x => SL [SZ 3; SZ x]
  end.

Definition dec_name (x : sx) : name :=
  let k := sx_z (sx_nth x 0) in
  if k =? 1 then NPrint
  else if k =? 2 then NCls (match dec_wrap (sx_z (sx_nth x 1)) with Some w => w | None => WNone end)
  else if k =? 3 then NVar (sx_z (sx_nth x 1))
  else NPre (sx_z (sx_nth x 1)).

Definition dec_pools (cs ns : sx) : pools := mkPools (map dec_const (sx_l cs)) (map dec_name (sx_l ns)).

(* the byte erg writes for the opcode: Spec.op_byte_static (= gen/Opcodes.v's number, theorem static_bytes_are_ergs);
   -1: not an opcode of [emits v] *)
Definition op_byte (v : pyver) (o : vop) : Z := op_byte_static v o.

Definition enc_compiled (v : pyver) (r : cres (list vunit * pools)) : sx :=
  match r with
  | COk (code, p) =>
    SL [SZ 0; SL (map (fun u => SL [SZ (op_byte v (fst u)); SZ (snd u)]) code);
        SL (map enc_const (p_consts p)); SL (map enc_name (p_names p))]
  | CPanic site => SL [SZ (-1000 - site)]
  end.

Definition enc_vm_outcome (o : vm_outcome) : sx :=
  SL [match snd o with Some s => enc_status s | None => SZ (-995) end; SL (map sx_of_zs (fst o))].

Definition dec_obs (x : sx) : observation := (map sx_zs (sx_l (sx_nth x 1)), sx_z (sx_nth x 0)).

(** modes (first element):
    (1 minor pre_len pre_consts pre_names program) -> (0 ((byte arg) ...) (const ...) (name ...)) | (-1000-site)   compile_v
    (2 minor pre_len pre_consts pre_names program) -> (status (line ...)) | (-1000-site)    exec_v of compile_v; -995 stuck
    (3 minor)                                      -> ((byte, emitted 0/1, target has it 0/1) ...) for all_vops
    (4 (status (line ...)) ((minor (status (line ...))) ...)) -> (ok (differing minor ...))   Spec.judge_targets
    (5 selected_minor reported_minor)              -> 0/1                                    Spec.judge_interpreter
    (6 minor pre_len pre_consts pre_names program) -> 0/1                                    Spec.known_far_jump
    -997: the program or the version does not decode *)
Definition run (x : sx) : sx :=
  let mode := sx_z (sx_nth x 0) in
  if (mode =? 1) || (mode =? 2) || (mode =? 6) then
    match dec_ver (sx_z (sx_nth x 1)), dec_program (sx_nth x 5) with
    | Some v, Some p =>
      let pre_len := sx_z (sx_nth x 2) in
      let pre := dec_pools (sx_nth x 3) (sx_nth x 4) in
      if mode =? 1 then enc_compiled v (compile_v v pre_len pre p)
      else if mode =? 6 then sx_bool (known_far_jump v pre_len pre p)
      else
        match compile_v v pre_len pre p with
        | COk (code, P) => enc_vm_outcome (exec_v v (p_consts P) (p_names P) pre_len code)
        | CPanic site => SL [SZ (-1000 - site)]
        end
    | _, _ => SL [SZ (-997)]
    end
  else if mode =? 3 then
    match dec_ver (sx_z (sx_nth x 1)) with
    | Some v => SL (map (fun o => SL [SZ (op_byte v o); sx_bool (emits v o); sx_bool (has_op v o)]) all_vops)
    | None => SL [SZ (-997)]
    end
  else if mode =? 4 then
    let d := dec_obs (sx_nth x 1) in
    let others := map (fun y => (sx_z (sx_nth y 0), dec_obs (sx_nth y 1))) (sx_l (sx_nth x 2)) in
    SL [sx_bool (judge_targets d others); sx_of_zs (differing_targets d others)]
  else if mode =? 5 then sx_bool (judge_interpreter (sx_z (sx_nth x 1)) (sx_z (sx_nth x 2)))
  else SL [SZ (-996)].

Require Extraction.
Require Import ExtrOcamlBasic.
Extraction Language OCaml.
Extraction "model.ml" run.
