(** * Proofs for C13, part 3: for the default target the version-indexed model IS the model of C01 (CoreErg/Codegen.v),
    opcode by opcode — so "behaves as under the default target" refers to the same object C01's theorems are about. *)
From Coq Require Import ZArith List Bool Lia.
From ErgV Require Import Common.Sx CoreErg.Syntax CoreErg.Sem CoreErg.Codegen CoreErg.VM.
From ErgV Require Import Versions.Model Versions.Proofs.
Import ListNotations.
Close Scope string_scope.
Close Scope N_scope.
Open Scope list_scope.
Open Scope Z_scope.

Definition inj (o : opcode) : vop :=
  match o with
  | CACHE => X_CACHE | POP_TOP => X_POP_TOP | PUSH_NULL => X_PUSH_NULL | NOP => X_NOP | UNARY_POSITIVE => X_UNARY_POSITIVE
  | UNARY_NEGATIVE => X_UNARY_NEGATIVE | UNARY_NOT => X_UNARY_NOT | UNARY_INVERT => X_UNARY_INVERT
  | RETURN_VALUE => X_RETURN_VALUE | STORE_NAME => X_STORE_NAME | LOAD_CONST => X_LOAD_CONST | LOAD_NAME => X_LOAD_NAME
  | COMPARE_OP => X_COMPARE_OP | JUMP_IF_FALSE_OR_POP => X_JUMP_IF_FALSE_OR_POP | JUMP_IF_TRUE_OR_POP => X_JUMP_IF_TRUE_OR_POP
  | BINARY_OP => X_BINARY_OP | EXTENDED_ARG => X_EXTENDED_ARG | RESUME => X_RESUME | PRECALL => X_PRECALL | CALL => X_CALL
  end.

Definition inju (u : cunit) : vunit := (inj (fst u), snd u).
Definition injc (c : list cunit) : list vunit := map inju c.
Definition injr (r : cres (list cunit * pools)) : cres (list vunit * pools) :=
  match r with COk (c, p) => COk (injc c, p) | CPanic s => CPanic s end.
Definition injo (r : cres (list cunit)) : cres (list vunit) :=
  match r with COk c => COk (injc c) | CPanic s => CPanic s end.

Lemma injc_app : forall a b, injc (a ++ b) = injc a ++ injc b.
Proof. intros. unfold injc. apply map_app. Qed.
Lemma len_injc : forall c, len (injc c) = len c.
Proof. intros. unfold len, injc. rewrite map_length. reflexivity. Qed.

Ltac fin := unfold injc; cbn [map]; rewrite ?map_app; cbn [map app inju inj fst snd]; rewrite <- ?app_assoc; cbn [app]; reflexivity.

Lemma write_op_311 : forall op arg, write_op_v (inj op) arg = injo (write_op op arg).
Proof.
  intros op arg. unfold write_op_v, write_op.
  destruct (arg <? 256); [reflexivity|]. destruct (arg <? 65536); [reflexivity|].
  destruct (arg <? 4294967296); reflexivity.
Qed.

Lemma load_const_311 : forall p c, emit_load_const_v p c = injr (emit_load_const const_same p c).
Proof.
  intros p c. unfold emit_load_const_v, emit_load_const. destruct (register_const const_same p c) as [i q].
  change X_LOAD_CONST with (inj LOAD_CONST). rewrite write_op_311. destruct (write_op LOAD_CONST i); reflexivity.
Qed.
Lemma load_name_311 : forall p n, emit_load_name_v p n = injr (emit_load_name p n).
Proof.
  intros p n. unfold emit_load_name_v, emit_load_name. destruct (register_name p n) as [i q].
  change X_LOAD_NAME with (inj LOAD_NAME). rewrite write_op_311. destruct (write_op LOAD_NAME i); reflexivity.
Qed.
Lemma store_name_311 : forall p n, emit_store_name_v p n = injr (emit_store_name p n).
Proof.
  intros p n. unfold emit_store_name_v, emit_store_name. destruct (register_name p n) as [i q].
  change X_STORE_NAME with (inj STORE_NAME). rewrite write_op_311. destruct (write_op STORE_NAME i); reflexivity.
Qed.

Lemma call_311 : forall argc, emit_call_v V311 argc = injo (emit_call argc).
Proof.
  intros argc. unfold emit_call_v, emit_call. change (is311 V311) with true. cbv iota.
  change X_PRECALL with (inj PRECALL). change X_CALL with (inj CALL). rewrite !write_op_311.
  destruct (write_op PRECALL argc) as [c1|]; [|reflexivity]. destruct (write_op CALL argc) as [c2|]; [|reflexivity].
  cbn [cbind injo]. fin.
Qed.

Lemma jump_arg_311 : forall jpos n, jump_arg_v V311 (2 * jpos) (2 * (jpos + 2 + n)) = n.
Proof.
  intros. change (jump_arg_v V311 (2 * jpos) (2 * (jpos + 2 + n))) with ((2 * (jpos + 2 + n) - 2 * jpos - 4) / 2).
  replace (2 * (jpos + 2 + n) - 2 * jpos - 4) with (n * 2) by lia. apply Z.div_mul. lia.
Qed.

Lemma wrapped_311 : forall w base p bodyv body,
  (forall b0 p0, bodyv b0 p0 = injr (body p0)) ->
  emit_wrapped_v V311 w base p bodyv = injr (emit_wrapped w p body).
Proof.
  intros w base p bodyv body Hb. unfold emit_wrapped_v, emit_wrapped. destruct (is_wrapped w); [|apply Hb].
  rewrite load_name_311. destruct (emit_load_name p (NCls w)) as [[cl pl]|]; [|reflexivity]. cbn [injr cbind fst snd].
  rewrite Hb. destruct (body pl) as [[cb pb]|]; [|reflexivity]. cbn [injr cbind fst snd].
  rewrite call_311. destruct (emit_call 1) as [cc|]; [|reflexivity]. cbn [injo cbind injr].
  unfold emit_push_null_v. change (is311 V311) with true. cbv iota. fin.
Qed.

Lemma expr_311 : forall e base p, emit_expr_v V311 base p e = injr (emit_expr const_same p e).
Proof.
  induction e using expr_ind'; intros base p; cbn [emit_expr_v emit_expr]; apply wrapped_311; intros b0 p0; try reflexivity.
  - apply load_const_311.
  - apply load_name_311.
  - rewrite IHe. destruct (emit_expr const_same p0 e) as [[ca pa]|]; [|reflexivity]. cbn [injr cbind fst snd].
    destruct o; fin.
  - rewrite IHe1. destruct (emit_expr const_same p0 e1) as [[ca pa]|]; [|reflexivity]. cbn [injr cbind fst snd].
    rewrite IHe2. destruct (emit_expr const_same pa e2) as [[cb pb]|]; [|reflexivity]. cbn [injr cbind fst snd].
    unfold emit_arith_v. change (is311 V311) with true. cbv iota. change X_BINARY_OP with (inj BINARY_OP). rewrite write_op_311.
    destruct (write_op BINARY_OP (binop_arg o)) as [co|]; [|reflexivity]. cbn [injo cbind injr]. fin.
  - rewrite IHe1. destruct (emit_expr const_same p0 e1) as [[ca pa]|]; [|reflexivity]. cbn [injr cbind fst snd].
    rewrite IHe2. destruct (emit_expr const_same pa e2) as [[cb pb]|]; [|reflexivity]. cbn [injr cbind fst snd].
    unfold emit_cmp_v. change (is311 V311) with true. cbv iota. change X_COMPARE_OP with (inj COMPARE_OP). rewrite write_op_311.
    destruct (write_op COMPARE_OP (cmp_arg o)) as [co|]; [|reflexivity]. cbn [injo cbind injr]. fin.
  - rewrite IHe1. destruct (emit_expr const_same p0 e1) as [[ca pa]|]; [|reflexivity]. cbn [injr cbind fst snd].
    rewrite IHe2. destruct (emit_expr const_same pa e2) as [[cb pb]|]; [|reflexivity]. cbn [injr cbind fst snd].
    rewrite (len_injc cb).
    rewrite jump_arg_311. fold (len cb).
    destruct (len cb <? 65536); [|reflexivity]. cbn [injr]. destruct k; fin.
Qed.

Lemma args_311 : forall es base p, emit_args_v V311 base p es = injr (emit_args const_same p es).
Proof.
  induction es as [|e es IH]; intros base p; cbn [emit_args_v emit_args]; [reflexivity|].
  rewrite expr_311. destruct (emit_expr const_same p e) as [[ce pe]|]; [|reflexivity]. cbn [injr cbind fst snd].
  rewrite IH. destruct (emit_args const_same pe es) as [[cr pr]|]; [|reflexivity]. cbn [injr cbind fst snd].
  fin.
Qed.

Lemma chunk_311 : forall s base p, emit_chunk_v V311 base p s = injr (emit_chunk const_same p s).
Proof.
  intros s base p. destruct s; cbn [emit_chunk_v emit_chunk]; try reflexivity.
  - rewrite load_name_311. destruct (emit_load_name p NPrint) as [[cl pl]|]; [|reflexivity]. cbn [injr cbind fst snd].
    rewrite args_311. destruct (emit_args const_same pl es) as [[ca pa]|]; [|reflexivity]. cbn [injr cbind fst snd].
    rewrite call_311. unfold len. destruct (emit_call (Z.of_nat (length es))) as [cc|]; [|reflexivity]. cbn [injo cbind injr].
    unfold emit_push_null_v. change (is311 V311) with true. cbv iota. fin.
  - rewrite expr_311. destruct (emit_expr const_same p e) as [[ce pe]|]; [|reflexivity]. cbn [injr cbind fst snd].
    rewrite store_name_311. destruct (emit_store_name pe (NVar x)) as [[cs ps]|]; [|reflexivity]. cbn [injr cbind fst snd].
    fin.
Qed.

Lemma stmts_311 : forall ss base p, emit_stmts_v V311 base p ss = injr (emit_stmts const_same p ss).
Proof.
  induction ss as [|s ss IH]; intros base p; cbn [emit_stmts_v emit_stmts]; [reflexivity|].
  rewrite chunk_311. destruct (emit_chunk const_same p s) as [[cs ps]|]; [|reflexivity]. cbn [injr cbind fst snd].
  rewrite IH. destruct (emit_stmts const_same ps ss) as [[cr pr]|]; [|reflexivity]. cbn [injr cbind fst snd].
  destruct (leaves_value s); fin.
Qed.

Lemma ends_with_pop_311 : forall c, ends_with_pop_v (injc c) = ends_with_pop c.
Proof.
  intros c. unfold ends_with_pop_v, ends_with_pop, injc. rewrite <- map_rev. destruct (rev c) as [|[o a] r]; [reflexivity|].
  destruct o; reflexivity.
Qed.

Lemma removelast_injc : forall c, removelast (injc c) = injc (removelast c).
Proof.
  induction c as [|u c IH]; [reflexivity|]. cbn [injc map removelast]. destruct c; [reflexivity|].
  cbn [map]. f_equal. exact IH.
Qed.

(** the version-indexed model at the default target is C01's model, whatever the prelude length *)
Lemma compile_311_is_c01 : forall pre_len pre prog, compile_v V311 pre_len pre prog = injr (compile pre prog).
Proof.
  intros pre_len pre prog. unfold compile_v, compile, compile_module. rewrite stmts_311.
  destruct (emit_stmts const_same pre prog) as [[c0 p0]|]; [|reflexivity]. cbn [injr cbind].
  rewrite ends_with_pop_311. destruct (ends_with_pop c0).
  - cbn [injr]. rewrite removelast_injc; fin.
  - rewrite load_const_311. destruct (emit_load_const const_same p0 CNone) as [[cn pn]|]; [|reflexivity]. cbn [injr cbind fst snd].
    fin.
Qed.
