(** * Versions.Spec — property C13 as a reference, with executable judges.

    "For every supported target version (Python 3.7 through 3.11), the bytecode compiled for that version loads and runs
    under that version's interpreter and behaves exactly as under the default target; `erg run` executes the bytecode
    with the interpreter selected by --py-command."

    Reference: a program has ONE meaning ([Sem.run_program], shared with C01); the behaviour under a target is what
    that target's interpreter shows when it runs the bytecode compiled for it: printed lines and exit status.
    Clause 1 ([judge_targets]): the observation under every target equals the observation under the default target.
    Clause 2 ([judge_interpreter]): the interpreter that executes the bytecode is the one the configured command starts
    (observed through the version the program itself reports: sys.version_info). *)
From Coq Require Import ZArith List Bool.
From ErgV Require Import Common.Sx CoreErg.Syntax CoreErg.Sem CoreErg.Codegen CoreErg.VM CoreErg.Spec_C01 Versions.Model.
Import ListNotations.
Close Scope string_scope.
Close Scope N_scope.
Open Scope list_scope.
Open Scope Z_scope.

(** an observation: the lines printed on stdout and the exit status (0, or the code of the uncaught exception class) *)
Definition observation := (list (list Z) * Z)%type.

Definition obs_eqb (a b : observation) : bool := zss_eqb (fst a) (fst b) && (snd a =? snd b).

(** clause 1, on observations: [others] = (minor version, observation) for each non-default target *)
Definition judge_targets (default : observation) (others : list (Z * observation)) : bool :=
  forallb (fun vo => obs_eqb (snd vo) default) others.

(** the targets that break clause 1 (for the report) *)
Definition differing_targets (default : observation) (others : list (Z * observation)) : list Z :=
  map fst (filter (fun vo => negb (obs_eqb (snd vo) default)) others).

(** clause 2: the program `print! sys.version_info.minor` run by `erg --py-command P run` must report the minor version
    of the interpreter P starts *)
Definition judge_interpreter (selected_minor reported_minor : Z) : bool := selected_minor =? reported_minor.

(** clause 1 on the model: what target v shows for a program (None: the code generator model stops) *)
Definition exec_target (v : pyver) (pre_len : Z) (pre : pools) (prog : program) : option vm_outcome :=
  match compile_v v pre_len pre prog with
  | COk (code, P) => Some (exec_v v (p_consts P) (p_names P) pre_len code)
  | CPanic _ => None
  end.

(** the opcodes the code generator model can emit for target v (finite table; see Props_C13 emitted_* theorems) *)
Definition emits (v : pyver) (o : vop) : bool :=
  match o with
  | X_NOP | X_RESUME => false          (* RESUME belongs to the prelude; NOP is never written in the fragment *)
  | _ => has_op v o
  end.

(** the byte the code generator writes for an opcode of [emits v] (0 otherwise): a static copy of [erg_num], used by the
    extracted model so that no table of strings is extracted; Props_C13 static_bytes_are_ergs proves it equal to the
    number found in the regenerated tables gen/Opcodes.v for every emitted opcode of every version *)
Definition op_byte_static (v : pyver) (o : vop) : Z :=
  if negb (emits v o) then -1 else
  match o with
  | X_CACHE => 0 | X_POP_TOP => 1 | X_PUSH_NULL => 2 | X_NOP => 9 | X_UNARY_POSITIVE => 10 | X_UNARY_NEGATIVE => 11
  | X_UNARY_NOT => 12 | X_UNARY_INVERT => 15 | X_BINARY_POWER => 19 | X_BINARY_MULTIPLY => 20 | X_BINARY_MODULO => 22
  | X_BINARY_ADD => 23 | X_BINARY_SUBTRACT => 24 | X_BINARY_FLOOR_DIVIDE => 26 | X_BINARY_TRUE_DIVIDE => 27
  | X_RETURN_VALUE => 83 | X_STORE_NAME => 90 | X_LOAD_CONST => 100 | X_LOAD_NAME => 101 | X_COMPARE_OP => 107
  | X_JUMP_IF_FALSE_OR_POP => 111 | X_JUMP_IF_TRUE_OR_POP => 112 | X_BINARY_OP => 122 | X_CALL_FUNCTION => 131
  | X_EXTENDED_ARG => 144 | X_RESUME => 151 | X_PRECALL => 166 | X_CALL => 171
  end.

(** the known class: fill_jump's u16::try_from(..).unwrap() — a short-circuit jump whose argument does not fit 16 bits
    (target <= 3.9: an `and`/`or` more than 65535 bytes into a code object; 3.10: 131071 bytes; 3.11: a right operand
    longer than 65535 instructions).  Decided by running the code generator model. *)
Definition known_far_jump (v : pyver) (pre_len : Z) (pre : pools) (prog : program) : bool :=
  match compile_v v pre_len pre prog with
  | CPanic 2 => true
  | _ => false
  end.
