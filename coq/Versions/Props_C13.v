(** * Property C13 — every supported Python target runs the program identically.

    Full statement (for the real compiler and interpreters): for every program p erg accepts and every supported target
    v in {3.7, 3.8, 3.9, 3.10, 3.11}, the bytecode `erg --py-command <python v> compile p` produces loads under
    interpreter v and prints the same lines / ends with the same status as the bytecode for the default target does
    under the default interpreter; and `erg --py-command P run p` executes the bytecode with P.

    What is proved here (level: proof, PARTIAL).
    (1) For the *model* of the version branches of codegen.rs ([compile_v], Versions/Model.v) executed by the model of
        the matching CPython evaluation loop ([exec_v]): for ALL FIVE targets, for the expression/statement fragment of
        CoreErg/Codegen.v (literals of every kind and value, variables, unary and binary arithmetic, comparisons,
        short-circuit and/or, not, definitions, print!; any expression depth, any program length), the bytecode for v
        run by machine v yields exactly the program's meaning [Sem.run] — hence the same for every pair of targets
        ([all_targets_agree_partial], [every_target_like_default_partial]).  Covered version differences: argument-less
        BINARY_x vs BINARY_OP + cache, COMPARE_OP with/without cache entries, CALL_FUNCTION vs PUSH_NULL/PRECALL/CALL,
        jump arguments absolute-in-bytes (<= 3.9) / absolute-in-instructions (3.10) / relative (3.11), EXTENDED_ARG.
        MISSING (tied to the real compiler only by the differential run of checks/c13.py over all targets): control
        flow (if/for!/while!), functions, procedures, lambdas, lists, patterns, classes, imports, with!, the prelude
        (its length and pools are inputs), marshalling (C15), the line table and stack size (C14).
        Hypotheses: the code generator model does not stop ([COk]; excludes the known class [known_far_jump]);
        [prog_wraps_ok]: values passed to the runtime classes fit them (decidable: [wraps_checked] of C01);
        enough fuel for the evaluator (irrelevant in the fragment).
    (2) The bytes: every opcode the model writes for target v exists in v ([compile_v_emits]) and the number erg's
        table gives it is the number CPython v's dis.opmap gives it, so interpreter v decodes it as the instruction the
        model means ([emitted_numbers_are_cpythons], [emitted_bytes_decode]); the table erg takes each number from is
        the one the translator found in codegen.rs ([table_sources_match_codegen]).  Finite tables
        (gen/Opcodes.v, gen/CPython.v: regenerated from opcode*.rs / codegen.rs / the installed interpreters).
        [default_target_is_c01_model]: at 3.11 the version-indexed model is, unit by unit, the model of property C01.
    (3) Interpreter selection: [run_uses_selected_interpreter]; the code before the repair is refuted
        ([run_uses_selected_interpreter_nofix_refuted]): with --py-command python3.8 it compiles for 3.8 and runs
        the default interpreter. *)
From Coq Require Import ZArith NArith List Bool.
From ErgV Require Import Common.Sx CoreErg.Syntax CoreErg.Sem CoreErg.Codegen CoreErg.VM CoreErg.Spec_C01 CoreErg.Proofs_C01.
From ErgV Require Import gen.Opcodes gen.CPython Versions.Model Versions.Spec Versions.Proofs Versions.ProofsTab Versions.ProofsC01.
Import ListNotations.
Close Scope string_scope.
Close Scope N_scope.
Open Scope list_scope.
Open Scope Z_scope.

(** expressions of any depth, any literal values, every target: the code emitted at position [base] pushes the value
    of the expression, or halts with the exception it raises *)
Theorem compile_v_expr_correct : forall v e, in_frag e = true ->
  forall base p code p', emit_expr_v v base p e = COk (code, p') ->
  forall P, extends p' P -> forall st, vext st = 0 -> wraps_ok (venv st) e ->
    match eval0 (venv st) e with
    | Ok x => run_v v (p_consts P) (p_names P) code base 0 st = Reached 0 (with_stack st (SV x :: stack st))
    | Raise ex => run_v v (p_consts P) (p_names P) code base 0 st = Halted (rev (vout st), Some (Uncaught ex))
    | OutOfFuel => True
    end.
Proof.
  intros v e Hf base p code p' H P HP st Hx Hw.
  destruct (emit_expr_v_correct v e Hf base p code p' H) as [_ Hc].
  exact (Hc P (venv st) HP Hw st Hx eq_refl).
Qed.

(** per version: the module compiled for target v, run by interpreter v, prints what the program means and ends the
    same way *)
Theorem compile_v_correct : forall v pre_len pre prog code P fuel,
  forallb stmt_in_frag prog = true ->
  compile_v v pre_len pre prog = COk (code, P) ->
  prog_wraps_ok [] prog ->
  snd (run fuel prog) <> FuelOut ->
  exec_v v (p_consts P) (p_names P) pre_len code = (fst (run fuel prog), Some (snd (run fuel prog))).
Proof.
  intros v pre_len pre prog code P fuel Hf H Hw Hfuel.
  exact (compile_v_module_correct v pre_len pre prog code P fuel Hf H Hw Hfuel).
Qed.

(** FULL statement wanted: forall v w p (any accepted program), behaviour_v p = behaviour_w p.
    PARTIAL: programs of the modelled fragment (see the header for what is missing). *)
Theorem all_targets_agree_partial : forall v w prog fuel lv prev codev Pv lw prew codew Pw,
  forallb stmt_in_frag prog = true ->
  compile_v v lv prev prog = COk (codev, Pv) ->
  compile_v w lw prew prog = COk (codew, Pw) ->
  prog_wraps_ok [] prog ->
  snd (run fuel prog) <> FuelOut ->
  exec_v v (p_consts Pv) (p_names Pv) lv codev = exec_v w (p_consts Pw) (p_names Pw) lw codew.
Proof.
  intros v w prog fuel lv prev codev Pv lw prew codew Pw Hf Hv Hw Hwr Hfu.
  exact (targets_agree v w prog fuel lv prev codev Pv lw prew codew Pw Hf Hv Hw Hwr Hfu).
Qed.

(** the property's wording: every target behaves exactly as the default target (3.11) *)
Theorem every_target_like_default_partial : forall v prog fuel lv prev codev Pv ld pred coded Pd,
  forallb stmt_in_frag prog = true ->
  compile_v v lv prev prog = COk (codev, Pv) ->
  compile_v default_target ld pred prog = COk (coded, Pd) ->
  prog_wraps_ok [] prog ->
  snd (run fuel prog) <> FuelOut ->
  exec_v v (p_consts Pv) (p_names Pv) lv codev = exec_v default_target (p_consts Pd) (p_names Pd) ld coded.
Proof.
  intros v prog fuel lv prev codev Pv ld pred coded Pd Hf Hv Hd Hwr Hfu.
  exact (targets_agree v default_target prog fuel lv prev codev Pv ld pred coded Pd Hf Hv Hd Hwr Hfu).
Qed.

(** "the default target" is the object of property C01: at 3.11 the version-indexed model of the code generator is, unit by
    unit, the model CoreErg/Codegen.v that C01's theorems and C01's bytecode tie are about ([inj] renames the opcodes) *)
Theorem default_target_is_c01_model : forall pre_len pre prog,
  compile_v default_target pre_len pre prog = injr (compile pre prog).
Proof. exact compile_311_is_c01. Qed.

(** the model writes only instructions the target has *)
Theorem compile_v_emits_target_instructions : forall v pre_len pre prog code P,
  compile_v v pre_len pre prog = COk (code, P) -> Forall (fun u => emits v (fst u) = true /\ has_op v (fst u) = true) code.
Proof.
  intros v pre_len pre prog code P H. pose proof (compile_v_emits v pre_len pre prog code P H) as Hc.
  eapply Forall_impl; [|exact Hc]. intros [o a] He. cbn [fst] in *. split; [exact He|].
  unfold emits in He. destruct o; try exact He; discriminate.
Qed.

(** ... and erg's number for each of them is CPython's number for that name in that version
    (bound: 5 versions x 28 opcodes, by computation over the regenerated tables) *)
Theorem emitted_numbers_are_cpythons : forall v o, emits v o = true ->
  exists n, erg_num v o = Some n /\ cpy_num v o = Some n.
Proof. exact emitted_numbers_agree. Qed.

(** the static copy of the numbers used by the extracted model (Spec.op_byte_static) is erg's table *)
Theorem static_bytes_are_ergs : forall v o, emits v o = true -> erg_num v o = Some (op_byte_static v o).
Proof. exact static_bytes. Qed.

(** ... so interpreter v decodes the byte as the instruction the model means *)
Theorem emitted_bytes_decode :
  forallb (fun v => forallb (decode_agree v) all_vops) all_versions = true.
Proof. exact decode_agree_all. Qed.

(** the transcription of which erg table each number is taken from ([op_src]) agrees with codegen.rs as read by the
    translator (gen/Opcodes.v erg_emitted / erg_emitted_raw) *)
Theorem table_sources_match_codegen :
  forallb (fun v => forallb (src_listed v) all_vops) all_versions = true.
Proof. exact sources_listed_all. Qed.

(** interpreter selection: the command that executes the bytecode is the configured one (or the default interpreter
    when none is configured), hence it is of the version the bytecode was generated for *)
Theorem run_uses_selected_interpreter : forall which_python version_of cfg,
  run_command which_python cfg = selected which_python cfg /\
  version_of (run_command which_python cfg) = compile_target which_python version_of cfg.
Proof. intros. split; [apply run_selected|apply run_version]. Qed.

(** before the repair (exec_pyc_code called exec_pyc(.., None, ..)): `erg --py-command python3.8 run f.er` generates
    code for 3.8 and executes it with the default interpreter (3.11) *)
Definition cmd_python3 : command := [112; 121; 116; 104; 111; 110; 51].                    (* "python3" *)
Definition cmd_python38 : command := [112; 121; 116; 104; 111; 110; 51; 46; 56].           (* "python3.8" *)
Definition example_version_of (c : command) : option pyver :=
  if zs_eqb c cmd_python3 then Some V311 else if zs_eqb c cmd_python38 then Some V308 else None.

Theorem run_uses_selected_interpreter_nofix_refuted : exists which_python version_of cfg,
  run_command_nofix which_python cfg <> selected which_python cfg /\
  version_of (run_command_nofix which_python cfg) <> compile_target which_python version_of cfg.
Proof.
  exists cmd_python3, example_version_of, (mkCfg (Some cmd_python38)).
  split; vm_compute; discriminate.
Qed.

Example selection_example :
  run_command cmd_python3 (mkCfg (Some cmd_python38)) = cmd_python38 /\
  compile_target cmd_python3 example_version_of (mkCfg (Some cmd_python38)) = Some V308 /\
  run_command cmd_python3 (mkCfg None) = cmd_python3.
Proof. repeat split. Qed.

(** ** non-vacuity: a program with a natural >= 2^63, signed zeros, nested short-circuit operators (whose jump targets are
    absolute for 3.7-3.10), a comparison chain and a run-time error, compiled after a prelude of realistic length for all
    five targets: every hypothesis holds, the five code sequences differ, the five behaviours are the program's meaning *)
Definition example_program : program :=
  [ SDef 1 None (ELit WNat (LNat 9223372036854775808));
    SDef 2 None (EBin WInt OSub (EVar WNat 1) (ELit WNat (LNat 18446744073709551615)));
    SPrint [EVar WNat 1; EVar WInt 2; ELit WInt (LNeg (-1)); ELit WFloat (LFloat 0); ELit WFloat (LFloat sign_bit)];
    SPrint [ELogic WBool true (ECmp WNone CLt (EVar WInt 2) (ELit WNat (LNat 0)))
                              (ELogic WBool false (ELit WBool (LBool true)) (ELit WBool (LBool false)));
            ELogic WBool false (ELogic WBool true (ELit WBool (LBool false)) (ECmp WNone CGe (EVar WNat 1) (ELit WNat (LNat 3))))
                               (EUn WBool UNot (ELit WBool (LBool false)));
            EBin WFloat ODiv (ELit WNat (LNat 7)) (ELit WNat (LNat 2)); ELit WStr (LStr [34; 233; 128512])];
    SPrint [EBin WNat OFloorDiv (EVar WNat 1) (ELit WNat (LNat 0))];
    SPrint [ELit WNat (LNat 1)] ].

Definition example_pre : pools := mkPools [CInt 0; COpaque 1] [NPre 0; NPre 1; NPre 2].
Definition example_pre_len (v : pyver) : Z := if is311 v then 70 else 62.

Definition behaves_as_meant (v : pyver) : bool :=
  match exec_target v (example_pre_len v) example_pre example_program with
  | Some (out, Some st) =>
    zss_eqb out (fst (run 1 example_program)) &&
    match st, snd (run 1 example_program) with
    | Uncaught a, Uncaught b => exn_code a =? exn_code b
    | Exit0, Exit0 => true
    | _, _ => false
    end
  | _ => false
  end.

Definition code_of (v : pyver) : list (Z * Z) :=
  match compile_v v (example_pre_len v) example_pre example_program with
  | COk (code, _) => map (fun u => (match erg_num v (fst u) with Some n => n | None => -1 end, snd u)) code
  | CPanic _ => []
  end.

Fixpoint zz_eqb (a b : list (Z * Z)) : bool :=
  match a, b with
  | [], [] => true
  | (x, y) :: r, (x', y') :: s => (x =? x') && (y =? y') && zz_eqb r s
  | _, _ => false
  end.

Example example_meets_hypotheses :
  forallb stmt_in_frag example_program = true /\
  prog_wraps_okb [] example_program = true /\
  snd (run 1 example_program) = Uncaught ZeroDivisionError /\
  List.length (fst (run 1 example_program)) = 2%nat /\
  forallb behaves_as_meant all_versions = true /\
  (* 3.7 = 3.8 = 3.9 as bytes; 3.9 / 3.10 / 3.11 pairwise different *)
  zz_eqb (code_of V307) (code_of V308) = true /\ zz_eqb (code_of V308) (code_of V309) = true /\
  zz_eqb (code_of V309) (code_of V310) = false /\ zz_eqb (code_of V310) (code_of V311) = false.
Proof. repeat split; vm_compute; reflexivity. Qed.

(** the machines really differ: the code for 3.10 (jump targets in instructions) run by the 3.9 machine (jump targets in
    bytes) does not behave as the program means — the version dimension of the theorems is not vacuous *)
Example machines_differ :
  match compile_v V310 62 example_pre example_program with
  | COk (code, P) => exec_v V309 (p_consts P) (p_names P) 62 code <> (fst (run 1 example_program), Some (snd (run 1 example_program)))
  | CPanic _ => False
  end.
Proof. vm_compute. discriminate. Qed.

(** ** the known class: fill_jump's 16-bit argument.  An `and` whose code starts 32768 code units (65536 bytes) into the
    code object — [base] counts the units already written: the prelude and the statements before it.  The model of the
    code generator for 3.11 (relative jump) and for 3.10 (target counted in instructions) succeeds, for 3.7-3.9 (target
    counted in bytes) it hits u16::try_from(arg).unwrap() in fill_jump.  So "what compiles for the default target
    compiles for every target" is false.  Replayed on the real compiler with a module of 4000 `print! i + j` statements
    followed by `print! a and b`: `erg --py-command python3.9 compile` panics at codegen.rs fill_jump, the 3.10 and 3.11
    targets compile and run.  Recorded as known finding far-jump; [compile_v_correct] excludes it by its hypothesis COk. *)
Definition far_jump_program : program :=
  [SPrint [ELogic WBool false (ELit WBool (LBool true)) (ELit WBool (LBool false))]].
Definition far_base : Z := 32768.

Theorem far_jump_refuted :
  (exists code P, compile_v V311 far_base example_pre far_jump_program = COk (code, P)) /\
  (exists code P, compile_v V310 far_base example_pre far_jump_program = COk (code, P)) /\
  compile_v V309 far_base example_pre far_jump_program = CPanic 2 /\
  compile_v V308 far_base example_pre far_jump_program = CPanic 2 /\
  compile_v V307 far_base example_pre far_jump_program = CPanic 2 /\
  known_far_jump V309 far_base example_pre far_jump_program = true /\
  known_far_jump V311 far_base example_pre far_jump_program = false.
Proof.
  split.
  { destruct (compile_v V311 far_base example_pre far_jump_program) as [[code P]|s] eqn:E; [eauto|].
    exfalso. vm_compute in E. discriminate. }
  split.
  { destruct (compile_v V310 far_base example_pre far_jump_program) as [[code P]|s] eqn:E; [eauto|].
    exfalso. vm_compute in E. discriminate. }
  repeat split; vm_compute; reflexivity.
Qed.

(** the class is decided by the position only for the byte-addressed targets: below the limit all targets compile *)
Example near_jump_compiles :
  forallb (fun v => negb (known_far_jump v 32000 example_pre far_jump_program)) all_versions = true.
Proof. vm_compute. reflexivity. Qed.
