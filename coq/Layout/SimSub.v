(** C10 — relational logic, part 2: primitives of the lexer and the sub-lexers (comments, numbers, symbols, strings,
    interpolation, raw identifiers, back-quoted operators) behave alike from similar states. *)
From Coq Require Import ZArith List Bool Arith Lia.
Require Import ErgV.Lexer.Model ErgV.Lexer.Spec ErgV.Lexer.Proofs ErgV.Layout.Sim .
Import ListNotations.
Open Scope Z_scope.

(* ------------------------------------------------------------------ primitives *)
Lemma R2_gets_eq {A} k (f : lstate -> A) :
  (forall a b, simk k a b -> f a = f b) -> R2 eq k k (gets f) (gets f).
Proof. intros H. apply R2_gets. exact H. Qed.

Lemma R2_gets_any {A} k (f1 f2 : lstate -> A) : R2 any k k (gets f1) (gets f2).
Proof. apply R2_gets. intros; exact I. Qed.

Lemma R2_fuel_of k : R2 eq k k (gets fuel_of) (gets fuel_of).
Proof. apply R2_gets_eq. intros a b (_ & _ & (P & _) & _). unfold fuel_of. rewrite P. reflexivity. Qed.
Lemma R2_prev_kind k : R2 eq k k (gets prev_kind) (gets prev_kind).
Proof. apply R2_gets_eq. intros a b (_ & _ & (_ & _ & _ & P & _) & _). exact P. Qed.
Lemma R2_interpol k : R2 eq k k (gets interpol) (gets interpol).
Proof. apply R2_gets_eq. intros a b (_ & _ & (_ & _ & _ & _ & P & _) & _). exact P. Qed.
Lemma R2_indent_stack k : R2 eq k k (gets indent_stack) (gets indent_stack).
Proof. apply R2_gets_eq. intros a b (_ & _ & (_ & P & _) & _). exact P. Qed.
Lemma R2_encl k : R2 eq k k (gets encl) (gets encl).
Proof. apply R2_gets_eq. intros a b (_ & _ & (_ & _ & P & _) & _). exact P. Qed.
Lemma R2_recv k : R2 eq k k (gets prev_can_be_receiver) (gets prev_can_be_receiver).
Proof. apply R2_gets_eq. intros a b (_ & _ & (_ & _ & _ & P & _) & _). unfold prev_can_be_receiver. rewrite P. reflexivity. Qed.
Lemma R2_ghost k : R2 any k k ghost_pos ghost_pos.
Proof. apply R2_gets_any. Qed.

Lemma R2_bind_panic {A B} (RB : B -> B -> Prop) k k' (f1 f2 : A -> M B) : R2 RB k k' (bind panic f1) (bind panic f2).
Proof. intros a b S. exact I. Qed.
Lemma R2_bind_fuel {A B} (RB : B -> B -> Prop) k k' (f1 f2 : A -> M B) : R2 RB k k' (bind out_of_fuel f1) (bind out_of_fuel f2).
Proof. intros a b S. exact I. Qed.

Lemma R2_emit k kd c g1 g2 : R2 tok_sim k k (emit_singleline_token kd c g1) (emit_singleline_token kd c g2).
Proof.
  intros a b S. unfold emit_singleline_token. split; [split; reflexivity|].
  revert a b S. sim_upd.
Qed.

Lemma R2_emit_multi k kd cb1 cb2 c g1 g2 :
  R2 tok_sim k k (emit_multiline_token true kd cb1 c g1) (emit_multiline_token true kd cb2 c g2).
Proof.
  intros a b S. unfold emit_multiline_token. split; [split; reflexivity|].
  revert a b S. sim_upd.
Qed.

Lemma R2_last_interpol k : R2 eq k k last_interpol last_interpol.
Proof.
  unfold last_interpol. eapply R2_bind; [apply R2_interpol|]. intros x y <-.
  destruct x; [apply R2_panic|apply R2_ret; reflexivity].
Qed.

Lemma min_cursor_len st : Lt st -> zlen (pre st) <= Z.min (cursor st) (len st).
Proof. intros [A B C D]. pose proof (zlen_nonneg (post st)). lia. Qed.

Lemma R2_sync k : R2 eq k k (sync_token_starts true) (sync_token_starts true).
Proof.
  intros a b S. pose proof S as (LA & LB & _). unfold sync_token_starts.
  pose proof (min_cursor_len a LA). pose proof (min_cursor_len b LB).
  pose proof (lt_head a LA). pose proof (lt_head b LB).
  replace (Z.min (cursor a) (len a) <? line_head a) with false by (symmetry; apply Z.ltb_ge; lia).
  replace (Z.min (cursor b) (len b) <? line_head b) with false by (symmetry; apply Z.ltb_ge; lia).
  split; [reflexivity|]. revert a b S H H0 H1 H2 LA LB. intros a b S _ _ _ _ _ _. revert a b S. sim_upd.
Qed.

Lemma R2_assoc {A B C} (RC : C -> C -> Prop) k k' (m1 m2 : M A) (f1 f2 : A -> M B) (g1 g2 : B -> M C) :
  R2 RC k k' (bind m1 (fun x => bind (f1 x) g1)) (bind m2 (fun x => bind (f2 x) g2)) ->
  R2 RC k k' (bind (bind m1 f1) g1) (bind (bind m2 f2) g2).
Proof.
  intros H a b S. specialize (H a b S). unfold bind in *.
  destruct (m1 a) as [[x a']| |], (m2 b) as [[y b']| |]; exact H.
Qed.

(* ------------------------------------------------------------------ the stepping tactic *)
Lemma item_sim_tok t1 t2 : tok_sim t1 t2 -> item_sim (ITok t1) (ITok t2).
Proof. intros [A B]. unfold item_sim. cbn. congruence. Qed.
Lemma item_sim_err e t1 t2 : tok_sim t1 t2 -> item_sim (IErr e t1) (IErr e t2).
Proof. intros [A B]. unfold item_sim. cbn. congruence. Qed.

Ltac rleaf :=
  first
    [ exact I
    | reflexivity
    | assumption
    | apply item_sim_tok; assumption
    | apply item_sim_err; assumption
    | cbn [oitem_sim step_sim]; first [ exact I | assumption | apply item_sim_tok; assumption | apply item_sim_err; assumption ] ].

Ltac rs1 :=
  cbv zeta;
  lazymatch goal with
  | |- R2 _ _ _ (bind (consume true) _) (bind (consume true) _) => eapply R2_bind; [apply R2_consume | intros ? ? <-]
  | |- R2 _ _ _ (bind peek_cur _) (bind peek_cur _) => eapply R2_bind; [apply R2_peek_cur | intros ? ? <-]
  | |- R2 _ _ _ (bind peek_next _) (bind peek_next _) => eapply R2_bind; [apply R2_peek_next | intros ? ? <-]
  | |- R2 _ _ _ (bind (gets fuel_of) _) (bind (gets fuel_of) _) => eapply R2_bind; [apply R2_fuel_of | intros ? ? <-]
  | |- R2 _ _ _ (bind (gets prev_kind) _) (bind (gets prev_kind) _) => eapply R2_bind; [apply R2_prev_kind | intros ? ? <-]
  | |- R2 _ _ _ (bind (gets interpol) _) (bind (gets interpol) _) => eapply R2_bind; [apply R2_interpol | intros ? ? <-]
  | |- R2 _ _ _ (bind (gets indent_stack) _) (bind (gets indent_stack) _) => eapply R2_bind; [apply R2_indent_stack | intros ? ? <-]
  | |- R2 _ _ _ (bind (gets encl) _) (bind (gets encl) _) => eapply R2_bind; [apply R2_encl | intros ? ? <-]
  | |- R2 _ _ _ (bind (gets prev_can_be_receiver) _) (bind (gets prev_can_be_receiver) _) => eapply R2_bind; [apply R2_recv | intros ? ? <-]
  | |- R2 _ _ _ (bind (gets col) _) (bind (gets col) _) => eapply R2_bind; [apply R2_gets_any | intros ? ? _]
  | |- R2 _ _ _ (bind ghost_pos _) (bind ghost_pos _) => eapply R2_bind; [apply R2_ghost | intros ? ? _]
  | |- R2 _ _ _ (bind (emit_singleline_token _ _ _) _) (bind (emit_singleline_token _ _ _) _) =>
    eapply R2_bind; [apply R2_emit | intros ? ? ?]
  | |- R2 _ _ _ (bind (emit_multiline_token _ _ _ _ _) _) (bind (emit_multiline_token _ _ _ _ _) _) =>
    eapply R2_bind; [apply R2_emit_multi | intros ? ? ?]
  | |- R2 _ _ _ (bind (modify _) _) (bind (modify _) _) => eapply R2_bind; [apply R2_modify; sim_upd | intros ? ? _]
  | |- R2 _ _ _ (bind (push_interpol _) _) (bind (push_interpol _) _) => unfold push_interpol
  | |- R2 _ _ _ (bind pop_interpol _) (bind pop_interpol _) => unfold pop_interpol
  | |- R2 _ _ _ (bind (bump_line_nofix true) _) (bind (bump_line_nofix true) _) => unfold bump_line_nofix; cbn [negb]
  | |- R2 _ _ _ (bind last_interpol _) (bind last_interpol _) => eapply R2_bind; [apply R2_last_interpol | intros ? ? <-]
  | |- R2 _ _ _ (bind (sync_token_starts true) _) (bind (sync_token_starts true) _) => eapply R2_bind; [apply R2_sync | intros ? ? _]
  | |- R2 _ _ _ (bind (unwrap ?o) _) (bind (unwrap ?o) _) => destruct o; cbn [unwrap]
  | |- R2 _ _ _ (bind (ret _) _) (bind (ret _) _) => eapply R2_bind; [apply R2_ret; reflexivity | intros ? ? <-]
  | |- R2 _ _ _ (bind panic _) (bind panic _) => apply R2_bind_panic
  | |- R2 _ _ _ (bind out_of_fuel _) (bind out_of_fuel _) => apply R2_bind_fuel
  | |- R2 _ _ _ (bind (bind _ _) _) (bind (bind _ _) _) => apply R2_assoc
  | |- R2 _ _ _ (bind (if ?b then _ else _) _) (bind (if ?b then _ else _) _) => destruct b
  | |- R2 _ _ _ (bind (match ?x with _ => _ end) _) (bind (match ?x with _ => _ end) _) => destruct x
  | |- R2 _ _ _ (if ?b then _ else _) (if ?b then _ else _) => destruct b
  | |- R2 _ _ _ (match ?x with _ => _ end) (match ?x with _ => _ end) => destruct x
  | |- R2 _ _ _ (ret _) (ret _) => apply R2_ret
  | |- R2 _ _ _ (ok_tok _) (ok_tok _) => apply R2_ret
  | |- R2 _ _ _ (err_tok _ _) (err_tok _ _) => apply R2_ret
  | |- R2 _ _ _ panic panic => apply R2_panic
  | |- R2 _ _ _ out_of_fuel out_of_fuel => apply R2_fuel
  | |- R2 _ _ _ (accept _ _ _) (accept _ _ _) => unfold accept
  | |- R2 _ _ _ (reject _ _ _ _) (reject _ _ _ _) => unfold reject
  | |- R2 _ _ _ (invalid_unicode_character _ _) (invalid_unicode_character _ _) => unfold invalid_unicode_character
  end.

Create HintDb rsim.
Ltac rs := repeat first [ rs1 | solve [rleaf] | solve [auto with rsim] ].

Section Sub.
Variable xc : Z -> bool.
Variable k : nat.

Lemma lex_comment_loop_sim g1 g2 : forall n s,
  R2 oitem_sim k k (lex_comment_loop true n s g1) (lex_comment_loop true n s g2).
Proof. induction n as [|n IH]; intros s; cbn [lex_comment_loop]; rs. Qed.

Lemma lex_multi_line_comment_loop_sim g1 g2 : forall n s nest,
  R2 oitem_sim k k (lex_multi_line_comment_loop true n s nest g1) (lex_multi_line_comment_loop true n s nest g2).
Proof. induction n as [|n IH]; intros s nest; cbn [lex_multi_line_comment_loop]; rs. Qed.

Lemma take_while_sim p : forall n acc, R2 eq k k (take_while true n p acc) (take_while true n p acc).
Proof. induction n as [|n IH]; intros acc; cbn [take_while]; rs. Qed.
Hint Resolve take_while_sim : rsim.

Ltac tw := eapply R2_bind; [apply take_while_sim | intros ? ? <-].

Lemma lex_exponent_sim m g1 g2 : R2 item_sim k k (lex_exponent true m g1) (lex_exponent true m g2).
Proof. unfold lex_exponent. rs; tw; rs. Qed.
Hint Resolve lex_exponent_sim : rsim.

Lemma lex_ratio_sim m g1 g2 : R2 item_sim k k (lex_ratio true m g1) (lex_ratio true m g2).
Proof. unfold lex_ratio. rs; tw; rs. Qed.
Hint Resolve lex_ratio_sim : rsim.

Lemma lex_radix_sim kd p m g1 g2 : R2 item_sim k k (lex_radix true kd p m g1) (lex_radix true kd p m g2).
Proof. unfold lex_radix. rs; tw; rs. Qed.
Hint Resolve lex_radix_sim : rsim.

Lemma lex_num_dot_sim m g1 g2 : R2 item_sim k k (lex_num_dot xc true m g1) (lex_num_dot xc true m g2).
Proof. unfold lex_num_dot. rs. Qed.
Hint Resolve lex_num_dot_sim : rsim.

Lemma lex_num_loop_sim g1 g2 : forall n m, R2 item_sim k k (lex_num_loop xc true n m g1) (lex_num_loop xc true n m g2).
Proof. induction n as [|n IH]; intros m; cbn [lex_num_loop]; rs. Qed.

Lemma lex_num_sim c g1 g2 : R2 item_sim k k (lex_num xc true c g1) (lex_num xc true c g2).
Proof. unfold lex_num. rs. apply lex_num_loop_sim. Qed.

Lemma lex_symbol_sim c g1 g2 : R2 item_sim k k (lex_symbol xc true c g1) (lex_symbol xc true c g2).
Proof. unfold lex_symbol. rs; tw; rs. Qed.

Lemma lex_single_str_loop_sim g1 g2 : forall n s,
  R2 item_sim k k (lex_single_str_loop true true n s g1) (lex_single_str_loop true true n s g2).
Proof. induction n as [|n IH]; intros s; cbn [lex_single_str_loop]; rs. Qed.

Lemma lex_multi_line_str_loop_sim g1 g2 q cb1 cb2 : forall n s,
  R2 item_sim k k (lex_multi_line_str_loop true true n q cb1 s g1) (lex_multi_line_str_loop true true n q cb2 s g2).
Proof. induction n as [|n IH]; intros s; cbn [lex_multi_line_str_loop]; rs. Qed.

Lemma lex_interpolation_mid_loop_sim g1 g2 : forall n s,
  R2 item_sim k k (lex_interpolation_mid_loop true true n s g1) (lex_interpolation_mid_loop true true n s g2).
Proof. induction n as [|n IH]; intros s; cbn [lex_interpolation_mid_loop]; rs. Qed.

Lemma lex_raw_ident_loop_sim g1 g2 : forall n s,
  R2 item_sim k k (lex_raw_ident_loop true n s g1) (lex_raw_ident_loop true n s g2).
Proof. induction n as [|n IH]; intros s; cbn [lex_raw_ident_loop]; rs. Qed.

Lemma lex_backquote_loop_sim g1 g2 : forall n op,
  R2 step_sim k k (lex_backquote_loop true n op g1) (lex_backquote_loop true n op g2).
Proof. induction n as [|n IH]; intros op; cbn [lex_backquote_loop]; rs. Qed.

Lemma lex_single_str_sim g1 g2 : R2 item_sim k k (lex_single_str true true g1) (lex_single_str true true g2).
Proof. unfold lex_single_str. rs. apply lex_single_str_loop_sim. Qed.
Lemma lex_multi_line_str_sim q g1 g2 : R2 item_sim k k (lex_multi_line_str true true q g1) (lex_multi_line_str true true q g2).
Proof. unfold lex_multi_line_str. rs. apply lex_multi_line_str_loop_sim. Qed.
Lemma lex_interpolation_mid_sim g1 g2 : R2 item_sim k k (lex_interpolation_mid true true g1) (lex_interpolation_mid true true g2).
Proof. unfold lex_interpolation_mid. rs. apply lex_interpolation_mid_loop_sim. Qed.
Lemma lex_raw_ident_sim g1 g2 : R2 item_sim k k (lex_raw_ident true g1) (lex_raw_ident true g2).
Proof. unfold lex_raw_ident. rs. apply lex_raw_ident_loop_sim. Qed.

Lemma lift_sim (m1 m2 : M item) : R2 item_sim k k m1 m2 -> R2 step_sim k k (lift m1) (lift m2).
Proof. intros H. unfold lift. eapply R2_bind; [exact H|]. intros i1 i2 Hi. apply R2_ret. exact Hi. Qed.
End Sub.
