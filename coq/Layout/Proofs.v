(** C10 — the lexer-level invariance theorems: a `#` comment, blanks, a blank line, a comment line or a `\`
    continuation inserted at a token boundary leave the rest of the token stream unchanged modulo positions
    (or add exactly one Newline token). *)
From Coq Require Import ZArith List Bool Arith Lia.
Require Import ErgV.Lexer.Model ErgV.Lexer.Spec ErgV.Lexer.Proofs ErgV.Lexer.ProofsNext .
Require Import ErgV.Layout.Sim ErgV.Layout.SimSub ErgV.Layout.SimNext ErgV.Layout.Model ErgV.Layout.Steps .
Import ListNotations.
Open Scope Z_scope.

(** the two states agree on the control state of the lexer (the remaining input is stated separately) *)
Definition same_ctl (a b : lstate) : Prop :=
  indent_stack a = indent_stack b /\ encl a = encl b /\ prev_kind a = prev_kind b /\ interpol a = interpol b.

(** the indentation logic would emit a Dedent here: the cursor is at the first column of a line inside an indented
    block, outside every enclosure, and the line is not empty *)
Definition toplevel_cond (s : lstate) : bool :=
  (0 <? cursor s) && negb (match indent_stack s with [] => true | _ => false end) && opt_is (peek_prev_ch s) 10
  && negb (opt_is (peek_cur_ch s) 32 || opt_is (peek_cur_ch s) 10) && (encl s =? 0).

Lemma no_over s : Lt s -> post s <> [] -> cursor s = zlen (pre s).
Proof.
  intros [A B C D] H. destruct (Z.eq_dec (cursor s) (zlen (pre s))); [assumption|]. exfalso. apply H, B. lia.
Qed.

Section T.
Variable xs xc : Z -> bool.

Notation next := (next xs xc true true).
Notation lex_loop := (lex_loop xs xc true true).

Lemma not_eof s : prev_kind s <> EOF -> kind_eqb (prev_kind s) EOF = false.
Proof. intros H. destruct (kind_eqb (prev_kind s) EOF) eqn:E; [apply kind_eqb_eq in E; contradiction|reflexivity]. Qed.

(** a call of next at a line break outside every enclosure yields the Newline token *)
Lemma next_newline s b :
  Lt s -> post s = 10 :: b -> encl s = 0 -> prev_kind s <> EOF ->
  exists t s', next s = Ok (SItem (ITok t), s') /\ tk_kind t = Newline /\ tk_content t = [10] /\ nl_after s s' b Newline.
Proof.
  intros L E EN PE. destruct (lsid_newline s b L E EN) as (t & s' & EL & K & C & NA).
  exists t, s'. split; [|split; [exact K|split; [exact C|exact NA]]].
  rewrite next_eq. unfold bind at 1, gets. cbv beta iota. rewrite (not_eof s PE).
  unfold bind at 1. rewrite EL. reflexivity.
Qed.

(** a call of next that starts with [j] blanks after a token that does not end a line: the blanks are skipped *)
Lemma next_blanks s j r :
  Lt s -> post s = repeat 32 j ++ r -> hd_error r <> Some 32 ->
  prev_kind s <> Newline -> prev_kind s <> Dedent -> (j <> 0%nat -> prev_kind s <> BOF) -> prev_kind s <> EOF ->
  toplevel_cond s = false -> opt_is (peek_cur_ch s) 10 && (encl s =? 0) = false ->
  exists s', adv_by s s' j /\ post s' = r /\ next s = next_rest xs xc s'.
Proof.
  intros L E HR PN PD PB PE T1 T2.
  destruct (lsid_none s j r L E HR PN PD PB T1 T2) as (s' & EL & A & P).
  exists s'. split; [exact A|]. split; [exact P|].
  rewrite next_eq. unfold bind at 1, gets. cbv beta iota. rewrite (not_eof s PE).
  unfold bind at 1. rewrite EL. reflexivity.
Qed.

Lemma next_rest_comment s text rest :
  post s = 35 :: text ++ rest -> comment_text text -> (rest = [] \/ hd_error rest = Some 10) ->
  exists s', adv_text s s' (35 :: text) /\ post s' = rest /\ next_rest xs xc s = nl_tail xs xc s'.
Proof.
  intros E CT R. destruct (comment_skip s text rest E CT R) as (s' & EC & A & P).
  exists s'. split; [exact A|]. split; [exact P|].
  rewrite next_rest_eq. unfold bind at 1, peek_cur, gets. cbv beta iota.
  unfold bind at 1, peek_next, gets. cbv beta iota. unfold bind at 1. rewrite EC. reflexivity.
Qed.

Lemma next_rest_plain s :
  opt_is (peek_cur_ch s) 35 = false -> next_rest xs xc s = nl_tail xs xc s.
Proof.
  intros H. rewrite next_rest_eq. unfold bind at 1, peek_cur, gets. cbv beta iota.
  unfold bind at 1, peek_next, gets. cbv beta iota. rewrite H. unfold bind at 1, ret. reflexivity.
Qed.

(** two runs whose next steps are related and whose states are similar afterwards give the same stream *)
Lemma loop_from_steps n1 n2 a b acc1 acc2 r1 r2 :
  erase acc1 = erase acc2 ->
  match next a, next b with
  | Ok (x, a'), Ok (y, b') => step_sim x y /\ simk 1 a' b'
  | Panic, Panic => True
  | Fuel, Fuel => True
  | _, _ => False
  end ->
  lex_loop n1 a acc1 = Ok r1 -> lex_loop n2 b acc2 = Ok r2 -> erase r1 = erase r2.
Proof.
  intros HA N E1 E2. destruct n1 as [|n1]; [discriminate|]. destruct n2 as [|n2]; [discriminate|].
  cbn [Model.lex_loop] in E1, E2.
  destruct (next a) as [[s1 a']| |], (next b) as [[s2 b']| |]; try contradiction; try discriminate.
  destruct N as [NS HS']. destruct s1 as [|i1|], s2 as [|i2|]; cbn [step_sim] in NS; try contradiction.
  - injection E1 as <-. injection E2 as <-. rewrite !erase_rev, HA. reflexivity.
  - eapply (lex_loop_sim xs xc n1 n2 a' b' (i1 :: acc1) (i2 :: acc2)); [exact HS'| |exact E1|exact E2].
    unfold erase in *. cbn [map]. rewrite HA. unfold item_sim in NS. rewrite NS. reflexivity.
  - eapply (lex_loop_sim xs xc n1 n2 a' b' acc1 acc2); eassumption.
Qed.

(** the states after a line break has been lexed on both sides *)
Lemma nl_after_sim a b a' b' r pk :
  same_ctl a b -> cursor a = zlen (pre a) -> cursor b = zlen (pre b) ->
  nl_after a a' r pk -> nl_after b b' r pk -> simk 1 a' b'.
Proof.
  intros (C1 & C2 & C3 & C4) OA OB (LA & PA & QA & CA & IA & EA & KA & TA) (LB & PB & QB & CB & IB & EB & KB & TB).
  split; [exact LA|]. split; [exact LB|]. split.
  - unfold ctl. rewrite PA, PB, QA, QB, CA, CB, IA, IB, EA, EB, KA, KB, TA, TB, !zlen_cons. repeat split; try assumption. lia.
  - rewrite PA, PB. reflexivity.
Qed.

Lemma adv_by_ctl s s' j : adv_by s s' j -> same_ctl s s'.
Proof. intros (_ & _ & _ & _ & _ & _ & A & B & C & D). repeat split; congruence. Qed.
Lemma adv_text_ctl s s' l : adv_text s s' l -> same_ctl s s'.
Proof. intros (_ & _ & _ & _ & _ & _ & A & B & C & D). repeat split; congruence. Qed.
Lemma same_ctl_trans a b c : same_ctl a b -> same_ctl b c -> same_ctl a c.
Proof. intros (A1 & A2 & A3 & A4) (B1 & B2 & B3 & B4). repeat split; congruence. Qed.
Lemma same_ctl_sym a b : same_ctl a b -> same_ctl b a.
Proof. intros (A1 & A2 & A3 & A4). repeat split; congruence. Qed.

(** two states standing at the same remaining input with the same control state are similar (nothing is known about
    the characters consumed before) *)
Lemma simk0_of a b :
  Lt a -> Lt b -> same_ctl a b -> post a = post b -> post a <> [] -> simk 0 a b.
Proof.
  intros LA LB (C1 & C2 & C3 & C4) P NE.
  split; [exact LA|]. split; [exact LB|]. split; [|reflexivity].
  unfold ctl. rewrite (no_over a LA NE), (no_over b LB ltac:(congruence)). repeat split; try assumption. lia.
Qed.

(** ... and if moreover the last character consumed is the same, one step of look-back agrees *)
Lemma simk1_of a b c :
  Lt a -> Lt b -> same_ctl a b -> post a = post b -> post a <> [] ->
  hd_error (pre a) = Some c -> hd_error (pre b) = Some c -> simk 1 a b.
Proof.
  intros LA LB SC P NE HA HB. destruct (simk0_of a b LA LB SC P NE) as (_ & _ & C & _).
  split; [exact LA|]. split; [exact LB|]. split; [exact C|].
  destruct (pre a), (pre b); cbn in *; try discriminate. congruence.
Qed.

(* ------------------------------------------------------------------ the theorems *)
(** TRAILING COMMENT.  [st1]: the lexer stands at a line break (after a token that is not itself a line start);
    [st2]: the same control state, but a `#` comment stands before the line break. *)
Lemma comment_invariant_lemma st1 st2 text b :
  Lt st1 -> Lt st2 -> same_ctl st1 st2 ->
  post st1 = 10 :: b -> post st2 = 35 :: text ++ 10 :: b -> comment_text text ->
  prev_kind st1 <> Newline -> prev_kind st1 <> Dedent -> prev_kind st1 <> EOF ->
  toplevel_cond st2 = false ->
  forall n1 n2 r1 r2, rest xs xc n1 st1 = Ok r1 -> rest xs xc n2 st2 = Ok r2 -> erase r1 = erase r2.
Proof.
  intros L1 L2 SC E1 E2 CT PN PD PE T2 n1 n2 r1 r2 R1 R2. unfold rest in *.
  pose proof SC as (C1 & C2 & C3 & C4).
  assert (O1 : cursor st1 = zlen (pre st1)) by (apply no_over; [exact L1|rewrite E1; discriminate]).
  assert (O2 : cursor st2 = zlen (pre st2)) by (apply no_over; [exact L2|rewrite E2; discriminate]).
  (* run 2: no blanks, the comment, then the rest of the call at the line break *)
  destruct (next_blanks st2 0 (35 :: text ++ 10 :: b) L2 E2 ltac:(discriminate)
              ltac:(congruence) ltac:(congruence) ltac:(intros H; congruence) ltac:(congruence) T2) as (s2a & A2 & P2 & N2).
  { unfold peek_cur_ch. rewrite E2. reflexivity. }
  destruct (next_rest_comment s2a text (10 :: b) P2 CT ltac:(right; reflexivity)) as (s2b & B2 & Q2 & M2).
  pose proof (Lt_adv_text _ _ _ (Lt_adv_by _ _ _ L2 A2) B2) as L2b.
  assert (SC2 : same_ctl st2 s2b) by (eapply same_ctl_trans; [eapply adv_by_ctl; exact A2|eapply adv_text_ctl; exact B2]).
  destruct (Z.eq_dec (encl st1) 0) as [EN|EN].
  - (* outside every enclosure: both runs yield the Newline token *)
    destruct (next_newline st1 b L1 E1 EN PE) as (t1 & s1' & N1 & K1 & CT1 & NA1).
    destruct (nl_tail_newline xs xc s2b b L2b Q2) as (t2 & s2c & N2c & K2 & CT2 & NA2).
    { destruct SC2 as (_ & X & _). congruence. }
    eapply (loop_from_steps n1 n2 st1 st2 [] [] r1 r2); [reflexivity| |exact R1|exact R2].
    rewrite N1, N2, M2, N2c. split.
    + unfold step_sim, item_sim. cbn. congruence.
    + eapply (nl_after_sim st1 s2b); [eapply same_ctl_trans; eassumption|exact O1| |exact NA1|exact NA2].
      apply no_over; [exact L2b|rewrite Q2; discriminate].
  - (* inside an enclosure: both runs skip the line break *)
    destruct (next_blanks st1 0 (10 :: b) L1 E1 ltac:(discriminate) PN PD ltac:(intros H; congruence) PE) as (s1a & A1 & P1 & N1).
    { unfold toplevel_cond, peek_cur_ch. rewrite E1. cbn [hd_error opt_is Z.eqb Pos.eqb orb negb]. rewrite !andb_false_r. reflexivity. }
    { apply andb_false_iff. right. apply Z.eqb_neq. exact EN. }
    eapply (loop_from_steps n1 n2 st1 st2 [] [] r1 r2); [reflexivity| |exact R1|exact R2].
    rewrite N1, N2, M2. rewrite (next_rest_plain s1a) by (unfold peek_cur_ch; rewrite P1; reflexivity).
    apply nl_tail_nl_sim; [|rewrite P1; reflexivity].
    apply simk0_of; [apply (Lt_adv_by _ _ _ L1 A1)|exact L2b| |congruence|rewrite P1; discriminate].
    eapply same_ctl_trans; [apply same_ctl_sym; eapply adv_by_ctl; exact A1|]. eapply same_ctl_trans; eassumption.
Qed.

(** TRAILING BLANKS before a line break, after a token that does not start a line. *)
Lemma trailing_space_invariant_lemma st1 st2 j b :
  Lt st1 -> Lt st2 -> same_ctl st1 st2 ->
  post st1 = 10 :: b -> post st2 = repeat 32 (S j) ++ 10 :: b ->
  prev_kind st1 <> Newline -> prev_kind st1 <> Dedent -> prev_kind st1 <> BOF -> prev_kind st1 <> EOF ->
  forall n1 n2 r1 r2, rest xs xc n1 st1 = Ok r1 -> rest xs xc n2 st2 = Ok r2 -> erase r1 = erase r2.
Proof.
  intros L1 L2 SC E1 E2 PN PD PB PE n1 n2 r1 r2 R1 R2. unfold rest in *.
  pose proof SC as (C1 & C2 & C3 & C4).
  assert (O1 : cursor st1 = zlen (pre st1)) by (apply no_over; [exact L1|rewrite E1; discriminate]).
  assert (PC2 : peek_cur_ch st2 = Some 32) by (unfold peek_cur_ch; rewrite E2; reflexivity).
  destruct (next_blanks st2 (S j) (10 :: b) L2 E2 ltac:(discriminate)
              ltac:(congruence) ltac:(congruence) ltac:(intros _; congruence) ltac:(congruence)) as (s2a & A2 & P2 & N2).
  { unfold toplevel_cond. rewrite PC2. cbn [opt_is Z.eqb Pos.eqb orb negb]. rewrite !andb_false_r. reflexivity. }
  { rewrite PC2. reflexivity. }
  pose proof (Lt_adv_by _ _ _ L2 A2) as L2a.
  assert (SC2 : same_ctl st2 s2a) by (eapply adv_by_ctl; exact A2).
  assert (M2 : next_rest xs xc s2a = nl_tail xs xc s2a)
    by (apply next_rest_plain; unfold peek_cur_ch; rewrite P2; reflexivity).
  destruct (Z.eq_dec (encl st1) 0) as [EN|EN].
  - destruct (next_newline st1 b L1 E1 EN PE) as (t1 & s1' & N1 & K1 & CT1 & NA1).
    destruct (nl_tail_newline xs xc s2a b L2a P2) as (t2 & s2c & N2c & K2 & CT2 & NA2).
    { destruct SC2 as (_ & X & _). congruence. }
    eapply (loop_from_steps n1 n2 st1 st2 [] [] r1 r2); [reflexivity| |exact R1|exact R2].
    rewrite N1, N2, M2, N2c. split.
    + unfold step_sim, item_sim. cbn. congruence.
    + eapply (nl_after_sim st1 s2a); [eapply same_ctl_trans; eassumption|exact O1| |exact NA1|exact NA2].
      apply no_over; [exact L2a|rewrite P2; discriminate].
  - destruct (next_blanks st1 0 (10 :: b) L1 E1 ltac:(discriminate) PN PD ltac:(intros H; congruence) PE) as (s1a & A1 & P1 & N1).
    { unfold toplevel_cond, peek_cur_ch. rewrite E1. cbn [hd_error opt_is Z.eqb Pos.eqb orb negb]. rewrite !andb_false_r. reflexivity. }
    { apply andb_false_iff. right. apply Z.eqb_neq. exact EN. }
    eapply (loop_from_steps n1 n2 st1 st2 [] [] r1 r2); [reflexivity| |exact R1|exact R2].
    rewrite N1, N2, M2. rewrite (next_rest_plain s1a) by (unfold peek_cur_ch; rewrite P1; reflexivity).
    apply nl_tail_nl_sim; [|rewrite P1; reflexivity].
    apply simk0_of; [apply (Lt_adv_by _ _ _ L1 A1)|exact L2a| |congruence|rewrite P1; discriminate].
    eapply same_ctl_trans; [apply same_ctl_sym; eapply adv_by_ctl; exact A1|]. eapply same_ctl_trans; eassumption.
Qed.

(** the accumulator of Lexer::lex only collects *)
Lemma lex_loop_acc : forall n st acc r,
  lex_loop n st acc = Ok r ->
  exists r', r = rev acc ++ r' /\ forall acc', lex_loop n st acc' = Ok (rev acc' ++ r').
Proof.
  induction n as [|n IH]; intros st acc r E; [discriminate|].
  cbn [Model.lex_loop] in *. destruct (next st) as [[s st']| |]; try discriminate.
  destruct s as [|it|].
  - injection E as <-. exists []. split; [rewrite app_nil_r; reflexivity|]. intros acc'. rewrite app_nil_r. reflexivity.
  - destruct (IH st' (it :: acc) r E) as (r1 & -> & H). exists (it :: r1). split.
    + cbn [rev]. rewrite <- app_assoc. reflexivity.
    + intros acc'. rewrite (H (it :: acc')). cbn [rev]. rewrite <- app_assoc. reflexivity.
  - apply IH. exact E.
Qed.

(** a run whose first call yields the item [it] *)
Lemma rest_item n st it st' r :
  next st = Ok (SItem it, st') -> rest xs xc n st = Ok r ->
  exists n' r', n = S n' /\ rest xs xc n' st' = Ok r' /\ r = it :: r'.
Proof.
  intros N R. unfold rest in *. destruct n as [|n]; [discriminate|]. cbn [Model.lex_loop] in R. rewrite N in R.
  destruct (lex_loop_acc n st' [it] r R) as (r' & -> & H). exists n, r'. split; [reflexivity|].
  split; [exact (H [])|reflexivity].
Qed.

Lemma rest_again n st st' r :
  next st = Ok (SAgain, st') -> rest xs xc n st = Ok r -> exists n', n = S n' /\ rest xs xc n' st' = Ok r.
Proof.
  intros N R. unfold rest in *. destruct n as [|n]; [discriminate|]. cbn [Model.lex_loop] in R. rewrite N in R.
  exists n. split; [reflexivity|exact R].
Qed.

(** A BLANK LINE.  [st1]: the lexer stands at the start of a line, right after a line break; [st2]: the same, with
    one more line break in front.  Outside every enclosure (after a Newline token) the blank line adds exactly one
    Newline token; inside an enclosure it adds nothing. *)
Lemma blank_line_newline_lemma st1 st2 :
  Lt st1 -> Lt st2 -> same_ctl st1 st2 -> post st2 = 10 :: post st1 ->
  cursor st1 = zlen (pre st1) -> hd_error (pre st1) = Some 10 ->
  prev_kind st1 = Newline -> encl st1 = 0 ->
  forall n1 n2 r1 r2, rest xs xc n1 st1 = Ok r1 -> rest xs xc n2 st2 = Ok r2 ->
  erase r2 = ETok Newline [10] :: erase r1.
Proof.
  intros L1 L2 SC E2 O1 H1 PK EN n1 n2 r1 r2 R1 R2.
  pose proof SC as (C1 & C2 & C3 & C4).
  destruct (next_newline st2 (post st1) L2 E2 ltac:(congruence) ltac:(congruence)) as (t & s2' & N2 & K & CT & NA).
  destruct (rest_item n2 st2 (ITok t) s2' r2 N2 R2) as (n2' & r2' & -> & R2' & ->).
  cbn [erase map erase_item]. rewrite K, CT. f_equal. symmetry.
  unfold rest in *. eapply (lex_loop_sim xs xc n1 n2' st1 s2' [] [] r1 r2'); [|reflexivity|exact R1|exact R2'].
  destruct NA as (LA & PA & QA & CA & IA & EA & KA & TA).
  assert (O2 : cursor st2 = zlen (pre st2)) by (apply no_over; [exact L2|rewrite E2; discriminate]).
  split; [exact L1|]. split; [exact LA|]. split.
  - unfold ctl. rewrite PA, QA, CA, IA, EA, KA, TA, zlen_cons. repeat split; try congruence. lia.
  - rewrite PA. destruct (pre st1) as [|c p]; [discriminate|]. cbn in H1. injection H1 as ->. reflexivity.
Qed.

Lemma blank_line_skipped_lemma st1 st2 :
  Lt st1 -> Lt st2 -> same_ctl st1 st2 -> post st2 = 10 :: post st1 ->
  cursor st1 = zlen (pre st1) -> hd_error (pre st1) = Some 10 ->
  prev_kind st1 <> Newline -> prev_kind st1 <> Dedent -> prev_kind st1 <> EOF -> 0 < encl st1 ->
  forall n1 n2 r1 r2, rest xs xc n1 st1 = Ok r1 -> rest xs xc n2 st2 = Ok r2 -> erase r2 = erase r1.
Proof.
  intros L1 L2 SC E2 O1 H1 PN PD PE EN n1 n2 r1 r2 R1 R2.
  pose proof SC as (C1 & C2 & C3 & C4).
  destruct (next_blanks st2 0 (10 :: post st1) L2 E2 ltac:(discriminate)
              ltac:(congruence) ltac:(congruence) ltac:(intros H; congruence) ltac:(congruence)) as (s2a & A2 & P2 & N2).
  { unfold toplevel_cond, peek_cur_ch. rewrite E2. cbn [hd_error opt_is Z.eqb Pos.eqb orb negb]. rewrite !andb_false_r. reflexivity. }
  { apply andb_false_iff. right. apply Z.eqb_neq. lia. }
  pose proof (Lt_adv_by _ _ _ L2 A2) as L2a.
  assert (SC2 : same_ctl st2 s2a) by (eapply adv_by_ctl; exact A2).
  destruct (nl_tail_skip xs xc s2a (post st1) L2a P2) as (s2c & N2c & NA).
  { destruct SC2 as (_ & X & _). lia. }
  assert (N2' : next st2 = Ok (SAgain, s2c)).
  { rewrite N2, (next_rest_plain s2a) by (unfold peek_cur_ch; rewrite P2; reflexivity). exact N2c. }
  destruct (rest_again n2 st2 s2c r2 N2' R2) as (n2' & -> & R2').
  symmetry. unfold rest in *. eapply (lex_loop_sim xs xc n1 n2' st1 s2c [] [] r1 r2); [|reflexivity|exact R1|exact R2'].
  destruct NA as (LA & PA & QA & CA & IA & EA & KA & TA).
  destruct SC2 as (D1 & D2 & D3 & D4).
  assert (O2 : cursor s2a = zlen (pre s2a)) by (apply no_over; [exact L2a|rewrite P2; discriminate]).
  split; [exact L1|]. split; [exact LA|]. split.
  - unfold ctl. rewrite PA, QA, CA, IA, EA, KA, TA, zlen_cons. repeat split; try congruence. lia.
  - rewrite PA. destruct (pre st1) as [|c p]; [discriminate|]. cbn in H1. injection H1 as ->. reflexivity.
Qed.

(** A COMMENT LINE at the indentation of the open block: exactly one more Newline token. *)
Lemma comment_line_invariant_lemma st1 st2 j text :
  Lt st1 -> Lt st2 -> same_ctl st1 st2 ->
  post st2 = repeat 32 j ++ 35 :: text ++ 10 :: post st1 -> comment_text text ->
  cursor st1 = zlen (pre st1) -> hd_error (pre st1) = Some 10 ->
  prev_kind st1 = Newline -> encl st1 = 0 ->
  Z.of_nat j = zsum (indent_stack st1) -> Z.of_nat j <= 100 -> (j = 0%nat -> indent_stack st1 = []) ->
  forall n1 n2 r1 r2, rest xs xc n1 st1 = Ok r1 -> rest xs xc n2 st2 = Ok r2 ->
  erase r2 = ETok Newline [10] :: erase r1.
Proof.
  intros L1 L2 SC E2 CT O1 H1 PK EN HJ H100 HJ0 n1 n2 r1 r2 R1 R2.
  pose proof SC as (C1 & C2 & C3 & C4).
  assert (T1 : toplevel_cond st2 = false).
  { unfold toplevel_cond. destruct j as [|j'].
    - rewrite <- C1, (HJ0 eq_refl). cbn [negb andb]. rewrite !andb_false_r. reflexivity.
    - unfold peek_cur_ch. rewrite E2. cbn [repeat app hd_error opt_is Z.eqb Pos.eqb orb negb]. rewrite !andb_false_r. reflexivity. }
  assert (T2 : opt_is (peek_cur_ch st2) 10 && (encl st2 =? 0) = false).
  { unfold peek_cur_ch. rewrite E2. destruct j; reflexivity. }
  destruct (lsid_equal st2 j (35 :: text ++ 10 :: post st1) L2 E2 ltac:(discriminate)
              ltac:(left; congruence) ltac:(congruence) H100 T1 T2) as (s2a & EL & A2 & P2).
  pose proof (Lt_adv_by _ _ _ L2 A2) as L2a.
  destruct (next_rest_comment s2a text (10 :: post st1) P2 CT ltac:(right; reflexivity)) as (s2b & B2 & Q2 & M2).
  pose proof (Lt_adv_text _ _ _ L2a B2) as L2b.
  assert (SC2 : same_ctl st2 s2b) by (eapply same_ctl_trans; [eapply adv_by_ctl; exact A2|eapply adv_text_ctl; exact B2]).
  destruct (nl_tail_newline xs xc s2b (post st1) L2b Q2) as (t & s2c & N2c & K & CTT & NA).
  { destruct SC2 as (_ & X & _). congruence. }
  assert (N2 : next st2 = Ok (SItem (ITok t), s2c)).
  { rewrite next_eq. unfold bind at 1, gets. cbv beta iota. rewrite (not_eof st2) by congruence.
    unfold bind at 1. rewrite EL. rewrite M2. exact N2c. }
  destruct (rest_item n2 st2 (ITok t) s2c r2 N2 R2) as (n2' & r2' & -> & R2' & ->).
  cbn [erase map erase_item]. rewrite K, CTT. f_equal. symmetry.
  unfold rest in *. eapply (lex_loop_sim xs xc n1 n2' st1 s2c [] [] r1 r2'); [|reflexivity|exact R1|exact R2'].
  destruct NA as (LA & PA & QA & CA & IA & EA & KA & TA).
  destruct SC2 as (D1 & D2 & D3 & D4).
  assert (O2 : cursor s2b = zlen (pre s2b)) by (apply no_over; [exact L2b|rewrite Q2; discriminate]).
  split; [exact L1|]. split; [exact LA|]. split.
  - unfold ctl. rewrite PA, QA, CA, IA, EA, KA, TA, zlen_cons. repeat split; try congruence. lia.
  - rewrite PA. destruct (pre st1) as [|c p]; [discriminate|]. cbn in H1. injection H1 as ->. reflexivity.
Qed.

(** A CONTINUATION: a backslash and a line break between two tokens that are separated by blanks, the next token
    keeping at least one blank in front of it. *)
Lemma continuation_invariant_lemma st1 st2 j j1 j2 r :
  Lt st1 -> Lt st2 -> same_ctl st1 st2 ->
  post st1 = repeat 32 (S j) ++ r -> post st2 = repeat 32 j1 ++ 92 :: 10 :: repeat 32 (S j2) ++ r ->
  hd_error r <> Some 32 -> r <> [] ->
  prev_kind st1 <> Newline -> prev_kind st1 <> Dedent -> prev_kind st1 <> BOF -> prev_kind st1 <> EOF ->
  toplevel_cond st2 = false ->
  forall n1 n2 r1 r2, rest xs xc n1 st1 = Ok r1 -> rest xs xc n2 st2 = Ok r2 -> erase r1 = erase r2.
Proof.
  intros L1 L2 SC E1 E2 HR RN PN PD PB PE T2 n1 n2 r1 r2 R1 R2.
  pose proof SC as (C1 & C2 & C3 & C4).
  (* run 2, first call: blanks, backslash, line break: nothing is emitted *)
  destruct (next_blanks st2 j1 (92 :: 10 :: repeat 32 (S j2) ++ r) L2 E2 ltac:(discriminate)
              ltac:(congruence) ltac:(congruence) ltac:(intros _; congruence) ltac:(congruence) T2) as (s2a & A2 & P2 & N2).
  { unfold peek_cur_ch. rewrite E2. destruct j1; reflexivity. }
  pose proof (Lt_adv_by _ _ _ L2 A2) as L2a.
  destruct (nl_tail_continuation xs xc s2a (repeat 32 (S j2) ++ r) L2a P2) as (s2c & N2c & CA).
  assert (N2' : next st2 = Ok (SAgain, s2c)).
  { rewrite N2, (next_rest_plain s2a) by (unfold peek_cur_ch; rewrite P2; reflexivity). exact N2c. }
  destruct (rest_again n2 st2 s2c r2 N2' R2) as (n2' & -> & R2').
  destruct CA as (LC & PC & QC & CC & IC & EC & KC & TC).
  assert (SC2 : same_ctl st1 s2c).
  { destruct (adv_by_ctl _ _ _ A2) as (D1 & D2 & D3 & D4). repeat split; congruence. }
  pose proof SC2 as (F1 & F2 & F3 & F4).
  (* both runs: blanks, then the same token *)
  assert (PC1 : peek_cur_ch st1 = Some 32) by (unfold peek_cur_ch; rewrite E1; reflexivity).
  assert (PCc : peek_cur_ch s2c = Some 32) by (unfold peek_cur_ch; rewrite QC; reflexivity).
  destruct (next_blanks st1 (S j) r L1 E1 HR PN PD ltac:(intros _; exact PB) PE) as (s1a & A1 & P1 & N1).
  { unfold toplevel_cond. rewrite PC1. cbn [opt_is Z.eqb Pos.eqb orb negb]. rewrite !andb_false_r. reflexivity. }
  { rewrite PC1. reflexivity. }
  destruct (next_blanks s2c (S j2) r LC QC HR ltac:(congruence) ltac:(congruence) ltac:(intros _; congruence) ltac:(congruence))
    as (s2d & A2d & P2d & N2d).
  { unfold toplevel_cond. rewrite PCc. cbn [opt_is Z.eqb Pos.eqb orb negb]. rewrite !andb_false_r. reflexivity. }
  { rewrite PCc. reflexivity. }
  unfold rest in *.
  eapply (loop_from_steps n1 n2' st1 s2c [] [] r1 r2); [reflexivity| |exact R1|exact R2'].
  rewrite N1, N2d. apply (next_rest_sim xs xc 0).
  apply (simk1_of s1a s2d 32).
  - apply (Lt_adv_by _ _ _ L1 A1).
  - apply (Lt_adv_by _ _ _ LC A2d).
  - eapply same_ctl_trans; [apply same_ctl_sym; eapply adv_by_ctl; exact A1|].
    eapply same_ctl_trans; [exact SC2|eapply adv_by_ctl; exact A2d].
  - congruence.
  - rewrite P1. exact RN.
  - destruct A1 as (X & _). rewrite X. reflexivity.
  - destruct A2d as (X & _). rewrite X. reflexivity.
Qed.
End T.
