(** C10 — the lexer does not depend on where it is: a relational (two-run) logic for the lexer model of C08.

    Two lexer states are similar ([simk k]) when they agree on everything the control flow of the lexer can look at:
    the remaining input, the indentation stack, the enclosure level, the kind of the previous token, the
    interpolation stack, how far the cursor has run past the end of the input, and the last [k] characters
    consumed ([Lexer::peek_prev_ch] / [peek_prev_prev_ch] look back one / two characters).  They may differ in
    everything else: the text consumed before, cursor, length, and all line / column bookkeeping.
    [R2 RA k k' m1 m2]: run from similar states, the two computations fail alike or return results related by
    [RA] in states that are similar again.  Tokens are related when they agree on kind and content
    (positions erased). *)
From Coq Require Import ZArith List Bool Arith Lia.
Require Import ErgV.Lexer.Model ErgV.Lexer.Spec ErgV.Lexer.Proofs .
Import ListNotations.
Open Scope Z_scope.

(* ------------------------------------------------------------------ erasure of positions *)
Inductive eitem :=
| ETok (k : tkind) (c : list Z)
| EErr (e : errclass) (k : tkind) (c : list Z).
Definition erase_item (i : item) : eitem :=
  match i with
  | ITok t => ETok (tk_kind t) (tk_content t)
  | IErr e t => EErr e (tk_kind t) (tk_content t)
  end.
Definition erase (l : list item) : list eitem := map erase_item l.

Definition tok_sim (t1 t2 : token) : Prop := tk_kind t1 = tk_kind t2 /\ tk_content t1 = tk_content t2.
Definition item_sim (i1 i2 : item) : Prop := erase_item i1 = erase_item i2.
Definition oitem_sim (o1 o2 : option item) : Prop :=
  match o1, o2 with
  | Some a, Some b => item_sim a b
  | None, None => True
  | _, _ => False
  end.
Definition step_sim (s1 s2 : step) : Prop :=
  match s1, s2 with
  | SNone, SNone => True
  | SAgain, SAgain => True
  | SItem a, SItem b => item_sim a b
  | _, _ => False
  end.
Definition any {A} (_ _ : A) : Prop := True.

(* ------------------------------------------------------------------ similar states *)
(** the part of the invariant of C08 that the control flow needs *)
Record Lt (st : lstate) : Prop := {
  lt_cur : zlen (pre st) <= cursor st;
  lt_over : zlen (pre st) < cursor st -> post st = [];
  lt_len : len st = zlen (pre st) + zlen (post st);
  lt_head : 0 <= line_head st <= zlen (pre st)
}.

Definition ctl (a b : lstate) : Prop :=
  post a = post b /\ indent_stack a = indent_stack b /\ encl a = encl b /\ prev_kind a = prev_kind b /\
  interpol a = interpol b /\ cursor a - zlen (pre a) = cursor b - zlen (pre b).

Definition simk (k : nat) (a b : lstate) : Prop :=
  Lt a /\ Lt b /\ ctl a b /\ firstn k (pre a) = firstn k (pre b).

Lemma Inv_Lt src st : Inv src st -> Lt st.
Proof.
  intros I. constructor.
  - apply (inv_cur _ _ I).
  - apply (inv_over _ _ I).
  - rewrite (inv_len _ _ I). symmetry. apply Inv_pre_le. exact I.
  - rewrite (inv_head _ _ I). pose proof (since_nl_bounds (pre st)). lia.
Qed.

Lemma firstn_less {A} (k : nat) : forall (l m : list A), firstn (S k) l = firstn (S k) m -> firstn k l = firstn k m.
Proof.
  induction k as [|k IH]; intros l m H; [reflexivity|].
  destruct l as [|x l], m as [|y m]; cbn in *; try discriminate; [reflexivity|].
  injection H as -> H. f_equal. apply IH. exact H.
Qed.

Lemma simk_weaken k a b : simk (S k) a b -> simk k a b.
Proof. intros (A & B & C & D). split; [exact A|]. split; [exact B|]. split; [exact C|]. apply firstn_less. exact D. Qed.

Lemma simk_le k k' a b : (k' <= k)%nat -> simk k a b -> simk k' a b.
Proof. induction 1 as [|m Hle IH]; [auto|]. intros HS. apply IH. apply simk_weaken. exact HS. Qed.

(* ------------------------------------------------------------------ the relational triple *)
Definition R2 {A} (RA : A -> A -> Prop) (k k' : nat) (m1 m2 : M A) : Prop :=
  forall a b, simk k a b ->
    match m1 a, m2 b with
    | Ok (x, a'), Ok (y, b') => RA x y /\ simk k' a' b'
    | Panic, Panic => True
    | Fuel, Fuel => True
    | _, _ => False
    end.

Lemma R2_bind {A B} (RA : A -> A -> Prop) (RB : B -> B -> Prop) k k1 k2 (m1 m2 : M A) (f1 f2 : A -> M B) :
  R2 RA k k1 m1 m2 -> (forall x y, RA x y -> R2 RB k1 k2 (f1 x) (f2 y)) -> R2 RB k k2 (bind m1 f1) (bind m2 f2).
Proof.
  intros H1 H2 a b S. specialize (H1 a b S). unfold bind.
  destruct (m1 a) as [[x a']| |], (m2 b) as [[y b']| |]; try contradiction; try exact I.
  destruct H1 as [HR HS]. exact (H2 x y HR a' b' HS).
Qed.

Lemma R2_ret {A} (RA : A -> A -> Prop) k (x y : A) : RA x y -> R2 RA k k (ret x) (ret y).
Proof. intros H a b S. cbn. split; assumption. Qed.

Lemma R2_post {A} (RA RA' : A -> A -> Prop) k k1 k2 (m1 m2 : M A) :
  R2 RA k k1 m1 m2 -> (forall x y, RA x y -> RA' x y) -> (k2 <= k1)%nat -> R2 RA' k k2 m1 m2.
Proof.
  intros H HR HK a b S. specialize (H a b S).
  destruct (m1 a) as [[x a']| |], (m2 b) as [[y b']| |]; try contradiction; try exact I.
  destruct H as [H1 H2]. split; [apply HR; exact H1|]. eapply simk_le; eassumption.
Qed.

Lemma R2_pre {A} (RA : A -> A -> Prop) k0 k k1 (m1 m2 : M A) :
  R2 RA k k1 m1 m2 -> (k <= k0)%nat -> R2 RA k0 k1 m1 m2.
Proof. intros H HK a b S. apply H. eapply simk_le; eassumption. Qed.

Lemma R2_panic {A} (RA : A -> A -> Prop) k k' : R2 RA k k' panic panic.
Proof. intros a b S. exact I. Qed.
Lemma R2_fuel {A} (RA : A -> A -> Prop) k k' : R2 RA k k' out_of_fuel out_of_fuel.
Proof. intros a b S. exact I. Qed.

(** reading: any function of the state that similar states agree on *)
Lemma R2_gets {A} (RA : A -> A -> Prop) k (f1 f2 : lstate -> A) :
  (forall a b, simk k a b -> RA (f1 a) (f2 b)) -> R2 RA k k (gets f1) (gets f2).
Proof. intros H a b S. cbn. split; [apply H; exact S|exact S]. Qed.

(** writing: any update that keeps similar states similar *)
Lemma R2_modify k (f1 f2 : lstate -> lstate) :
  (forall a b, simk k a b -> simk k (f1 a) (f2 b)) -> R2 eq k k (modify f1) (modify f2).
Proof. intros H a b S. cbn. split; [reflexivity|apply H; exact S]. Qed.

Ltac simk_fields :=
  cbn [pre post cursor len indent_stack encl prev_kind lineno col cur_line line_head interpol
       set_zip set_indent set_encl set_prev set_lineno set_col set_curline set_interpol] in *.

(** updates that do not touch the zipper, the cursor, the length or the line head keep [Lt] *)
Lemma Lt_same a a' :
  pre a' = pre a -> post a' = post a -> cursor a' = cursor a -> len a' = len a -> line_head a' = line_head a ->
  Lt a -> Lt a'.
Proof. intros H1 H2 H3 H4 H5 [A B C D]. constructor; rewrite ?H1, ?H2, ?H3, ?H4, ?H5; assumption. Qed.

(** the typical update: both sides set control fields to equal values, position fields to anything *)
Ltac sim_upd :=
  let a := fresh "a" in let b := fresh "b" in
  let A := fresh in let B := fresh in let C := fresh in let D := fresh in
  intros a b (A & B & C & D);
  split; [apply (Lt_same a); [reflexivity..|exact A]|];
  split; [apply (Lt_same b); [reflexivity..|exact B]|];
  split;
  [ destruct C as (? & ? & ? & ? & ? & ?); unfold ctl; simk_fields; repeat split; congruence
  | exact D ].

Lemma peek_sim k a b : simk k a b -> peek_cur_ch a = peek_cur_ch b /\ peek_next_ch a = peek_next_ch b.
Proof. intros (_ & _ & (P & _) & _). unfold peek_cur_ch, peek_next_ch. rewrite P. split; reflexivity. Qed.

Lemma R2_peek_cur k : R2 eq k k peek_cur peek_cur.
Proof. apply R2_gets. intros a b S. apply (peek_sim k a b S). Qed.
Lemma R2_peek_next k : R2 eq k k peek_next peek_next.
Proof. apply R2_gets. intros a b S. apply (peek_sim k a b S). Qed.

(* ------------------------------------------------------------------ consume *)
Lemma Lt_adv st c r : Lt st -> post st = c :: r -> Lt (adv st c r).
Proof.
  intros [A B C D] E.
  assert (HC : cursor st = zlen (pre st)).
  { destruct (Z.eq_dec (cursor st) (zlen (pre st))); [assumption|]. rewrite B in E by lia. discriminate. }
  constructor; autorewrite with st.
  - rewrite zlen_cons. lia.
  - rewrite zlen_cons. lia.
  - rewrite C, E, !zlen_cons. lia.
  - unfold adv. rewrite zlen_cons. destruct (c =? 10); cbn [line_head cursor set_curline set_zip]; lia.
Qed.

Lemma Lt_adv_eof st : Lt st -> post st = [] -> Lt (adv_eof st).
Proof.
  intros [A B C D] E. constructor; cbn [pre post cursor len line_head adv_eof set_zip].
  - lia.
  - reflexivity.
  - rewrite C, E. reflexivity.
  - exact D.
Qed.

Lemma consume_cons st c r : post st = c :: r -> consume true st = Ok (Some c, adv st c r).
Proof. intros E. unfold consume, adv. rewrite E. cbn [andb]. reflexivity. Qed.
Lemma consume_nil st : post st = [] -> consume true st = Ok (None, adv_eof st).
Proof. intros E. unfold consume, adv_eof. rewrite E. reflexivity. Qed.

(** consuming keeps the look-back agreement, and deepens it by one *)
Lemma simk_adv k a b c r :
  simk k a b -> post a = c :: r -> simk (S k) (adv a c r) (adv b c r).
Proof.
  intros (A & B & C & D) E. pose proof C as (P & I1 & I2 & I3 & I4 & I5).
  assert (E' : post b = c :: r) by congruence.
  split; [apply Lt_adv; assumption|]. split; [apply Lt_adv; assumption|]. split.
  - unfold ctl. autorewrite with st. rewrite !zlen_cons. repeat split; try assumption. lia.
  - autorewrite with st. cbn [firstn]. f_equal. exact D.
Qed.

Lemma simk_adv_eof k a b : simk k a b -> post a = [] -> simk k (adv_eof a) (adv_eof b).
Proof.
  intros (A & B & C & D) E. pose proof C as (P & I1 & I2 & I3 & I4 & I5).
  assert (E' : post b = []) by congruence.
  split; [apply Lt_adv_eof; assumption|]. split; [apply Lt_adv_eof; assumption|]. split.
  - unfold ctl. cbn [pre post cursor indent_stack encl prev_kind interpol adv_eof set_zip]. repeat split; try assumption. lia.
  - exact D.
Qed.

Lemma consume_cases k a b :
  simk k a b ->
  (exists c r, post a = c :: r /\ consume true a = Ok (Some c, adv a c r) /\ consume true b = Ok (Some c, adv b c r) /\
               simk (S k) (adv a c r) (adv b c r)) \/
  (post a = [] /\ consume true a = Ok (None, adv_eof a) /\ consume true b = Ok (None, adv_eof b) /\
   simk k (adv_eof a) (adv_eof b)).
Proof.
  intros S. pose proof S as (_ & _ & (P & _) & _).
  destruct (post a) as [|c r] eqn:E.
  - right. split; [reflexivity|]. split; [apply consume_nil; exact E|]. split; [apply consume_nil; congruence|].
    apply simk_adv_eof; assumption.
  - left. exists c, r. split; [reflexivity|]. split; [apply consume_cons; exact E|].
    split; [apply consume_cons; congruence|]. apply simk_adv; assumption.
Qed.

Lemma R2_consume k : R2 eq k k (consume true) (consume true).
Proof.
  intros a b S. pose proof S as (_ & _ & (P & _) & _).
  destruct (post a) as [|c r] eqn:E.
  - rewrite (consume_nil a E), (consume_nil b ltac:(congruence)). split; [reflexivity|].
    apply simk_adv_eof; assumption.
  - rewrite (consume_cons a c r E), (consume_cons b c r ltac:(congruence)). split; [reflexivity|].
    apply simk_weaken. apply simk_adv; assumption.
Qed.
