(** C10 — what single calls of Iterator::next do at a line end: blanks, a `#` comment, a line break, a `\`
    continuation.  Unary (one run) facts, used by the invariance theorems. *)
From Coq Require Import ZArith List Bool Arith Lia.
Require Import ErgV.Lexer.Model ErgV.Lexer.Spec ErgV.Lexer.Proofs ErgV.Lexer.ProofsNext .
Require Import ErgV.Layout.Sim ErgV.Layout.SimSub ErgV.Layout.SimNext ErgV.Layout.Model .
Import ListNotations.
Open Scope Z_scope.

(** [s'] is [s] with [j] blanks consumed; line / column bookkeeping may differ *)
Definition adv_by (s s' : lstate) (j : nat) : Prop :=
  pre s' = repeat 32 j ++ pre s /\ post s = repeat 32 j ++ post s' /\ cursor s' = cursor s + Z.of_nat j /\
  len s' = len s /\ line_head s' = line_head s /\ cur_line s' = cur_line s /\ indent_stack s' = indent_stack s /\
  encl s' = encl s /\ prev_kind s' = prev_kind s /\ interpol s' = interpol s.

Lemma Lt_adv_by s s' j : Lt s -> adv_by s s' j -> Lt s'.
Proof.
  intros [A B C D] (H1 & H2 & H3 & H4 & H5 & _).
  constructor; rewrite ?H1, ?H3, ?H4, ?H5, ?zlen_app, ?zlen_repeat.
  - lia.
  - intros H. assert (E : post s = []) by (apply B; lia). rewrite E in H2.
    destruct j; cbn in H2; [auto|discriminate].
  - rewrite C, H2, zlen_app, zlen_repeat. lia.
  - lia.
Qed.

Definition sy (s : lstate) : lstate :=
  set_col (set_lineno s (cur_line s)) (Z.min (cursor s) (len s) - line_head s).

Lemma sync_run s : Lt s -> sync_token_starts true s = Ok (tt, sy s).
Proof.
  intros L. unfold sync_token_starts. pose proof (min_cursor_len s L). pose proof (lt_head s L).
  replace (Z.min (cursor s) (len s) <? line_head s) with false by (symmetry; apply Z.ltb_ge; lia). reflexivity.
Qed.

Lemma consume_spaces_run r : forall j n j0 s0 s,
  spaces_from s0 s j0 -> post s = repeat 32 j ++ r -> hd_error r <> Some 32 -> (j < n)%nat ->
  exists s', consume_spaces true n (repeat 32 j0) s = Ok (repeat 32 (j0 + j), s') /\
             spaces_from s0 s' (j0 + j) /\ post s' = r.
Proof.
  induction j as [|j IH]; intros n j0 s0 s SP E HR Hn; (destruct n as [|n]; [lia|]); cbn [consume_spaces].
  - cbn [repeat app] in E. unfold bind at 1, peek_cur, gets. cbv beta iota. unfold peek_cur_ch. rewrite E.
    assert (F : opt_is (hd_error r) 32 = false).
    { destruct r as [|c r']; [reflexivity|]. cbn. destruct (c =? 32) eqn:EC; [|reflexivity].
      apply Z.eqb_eq in EC. subst. cbn in HR. congruence. }
    rewrite F. cbn [ret]. exists s. rewrite Nat.add_0_r. split; [reflexivity|]. split; assumption.
  - cbn [repeat app] in E. unfold bind at 1, peek_cur, gets. cbv beta iota. unfold peek_cur_ch. rewrite E.
    cbn [hd_error opt_is Z.eqb Pos.eqb].
    unfold bind at 1. rewrite (consume_cons s 32 _ E).
    replace (repeat 32 j0 ++ [32]) with (repeat 32 (S j0)) by (cbn [repeat]; apply repeat_cons).
    destruct (IH n (S j0) s0 (adv s 32 (repeat 32 j ++ r))) as (s' & E' & SP' & P').
    + apply spaces_from_adv; assumption.
    + autorewrite with st. reflexivity.
    + exact HR.
    + lia.
    + exists s'. replace (j0 + S j)%nat with (S j0 + j)%nat by lia. split; [exact E'|]. split; assumption.
Qed.

(** lex_space_indent_dedent after a token that is not a line start: the blanks are skipped *)
Lemma lsid_none s j r :
  Lt s -> post s = repeat 32 j ++ r -> hd_error r <> Some 32 ->
  prev_kind s <> Newline -> prev_kind s <> Dedent -> (j <> 0%nat -> prev_kind s <> BOF) ->
  (0 <? cursor s) && negb (match indent_stack s with [] => true | _ => false end) && opt_is (peek_prev_ch s) 10
    && negb (opt_is (peek_cur_ch s) 32 || opt_is (peek_cur_ch s) 10) && (encl s =? 0) = false ->
  opt_is (peek_cur_ch s) 10 && (encl s =? 0) = false ->
  exists s', lex_space_indent_dedent true s = Ok (None, s') /\ adv_by s s' j /\ post s' = r.
Proof.
  intros L E HR PN PD PB T1 T2. unfold lex_space_indent_dedent.
  unfold bind at 1. rewrite (sync_run s L). unfold bind at 1, gets at 1. cbv beta iota.
  unfold bind at 1, ghost_pos, gets at 1. cbv beta iota zeta.
  change (peek_prev_ch (sy s)) with (peek_prev_ch s). change (peek_cur_ch (sy s)) with (peek_cur_ch s).
  change (cursor (sy s)) with (cursor s). change (indent_stack (sy s)) with (indent_stack s).
  change (encl (sy s)) with (encl s).
  rewrite T1, T2.
  unfold bind at 1, gets at 1, fuel_of. cbv beta iota.
  destruct (consume_spaces_run r j (S (length (post (sy s)))) 0 (sy s) (sy s)) as (s' & CS & SP & PS).
  - apply spaces_from_refl.
  - exact E.
  - exact HR.
  - change (post (sy s)) with (post s). rewrite E, app_length, repeat_length. lia.
  - cbn [repeat] in CS. unfold bind at 1. rewrite CS. cbn [Nat.add].
    unfold bind at 1, gets at 1. cbv beta iota.
    destruct SP as (H1 & H2 & H3 & H4 & H5 & H6 & H7 & H8 & H9 & H10 & H11 & H12).
    rewrite H7. change (prev_kind (sy s)) with (prev_kind s).
    assert (B1 : negb (match repeat 32 j with [] => true | _ => false end) && kind_eqb (prev_kind s) BOF = false).
    { destruct j as [|j']; [reflexivity|]. cbn [repeat negb andb].
      destruct (kind_eqb (prev_kind s) BOF) eqn:EK; [|reflexivity]. apply kind_eqb_eq in EK.
      exfalso. apply PB; [discriminate|exact EK]. }
    rewrite B1.
    assert (B2 : kind_eqb (prev_kind s) Newline || kind_eqb (prev_kind s) Dedent = false).
    { destruct (kind_eqb (prev_kind s) Newline) eqn:E1; [apply kind_eqb_eq in E1; contradiction|].
      destruct (kind_eqb (prev_kind s) Dedent) eqn:E2; [apply kind_eqb_eq in E2; contradiction|]. reflexivity. }
    rewrite B2. cbn [bind modify ret]. unfold bind, modify, ret.
    eexists. split; [reflexivity|]. split; [|exact PS].
    unfold adv_by. cbn [pre post cursor len line_head cur_line indent_stack encl prev_kind interpol set_col].
    change (pre (sy s)) with (pre s) in H1. change (post (sy s)) with (post s) in H2.
    change (cursor (sy s)) with (cursor s) in H3. change (len (sy s)) with (len s) in H4.
    change (indent_stack (sy s)) with (indent_stack s) in H5. change (encl (sy s)) with (encl s) in H6.
    change (prev_kind (sy s)) with (prev_kind s) in H7. change (cur_line (sy s)) with (cur_line s) in H10.
    change (line_head (sy s)) with (line_head s) in H11. change (interpol (sy s)) with (interpol s) in H12.
    repeat split; assumption.
Qed.

(** [s'] is [s] after consuming the text [l] (no line break in it) *)
Definition adv_text (s s' : lstate) (l : list Z) : Prop :=
  pre s' = rev l ++ pre s /\ post s = l ++ post s' /\ cursor s' = cursor s + zlen l /\
  len s' = len s /\ line_head s' = line_head s /\ cur_line s' = cur_line s /\ indent_stack s' = indent_stack s /\
  encl s' = encl s /\ prev_kind s' = prev_kind s /\ interpol s' = interpol s.

Lemma Lt_adv_text s s' l : Lt s -> adv_text s s' l -> Lt s'.
Proof.
  intros [A B C D] (H1 & H2 & H3 & H4 & H5 & _).
  constructor; rewrite ?H1, ?H3, ?H4, ?H5, ?zlen_app, ?zlen_rev.
  - lia.
  - intros H. assert (E : post s = []) by (apply B; lia). rewrite E in H2.
    destruct l; cbn in H2; [auto|discriminate].
  - rewrite C, H2, zlen_app. lia.
  - pose proof (zlen_nonneg l). lia.
Qed.

Lemma adv_text_refl s : adv_text s s [].
Proof. unfold adv_text. cbn. repeat split; lia. Qed.

Lemma adv_not_nl s c r : c <> 10 -> adv s c r = set_zip s (c :: pre s) r (cursor s + 1).
Proof. intros C. unfold adv. apply Z.eqb_neq in C. rewrite C. reflexivity. Qed.

Lemma adv_text_step s s' l c r :
  adv_text s s' l -> post s' = c :: r -> c <> 10 -> adv_text s (adv s' c r) (l ++ [c]).
Proof.
  intros (H1 & H2 & H3 & H4 & H5 & H6 & H7 & H8 & H9 & H10) E C.
  rewrite (adv_not_nl s' c r C). unfold adv_text.
  cbn [pre post cursor len line_head cur_line indent_stack encl prev_kind interpol set_zip].
  rewrite rev_app_distr. cbn [rev app]. rewrite H1, H2, E, <- app_assoc. cbn [app].
  rewrite zlen_app. change (zlen [c]) with 1. repeat split; try assumption; try reflexivity; lia.
Qed.

(** a `#` comment is skipped up to the line break (or the end of the input) *)
Lemma lex_comment_loop_run g rest : forall text n acc s0 s l0,
  adv_text s0 s l0 -> post s = text ++ rest -> Forall (fun c => c <> 10 /\ is_bidi c = false) text ->
  (rest = [] \/ hd_error rest = Some 10) -> (length text < n)%nat ->
  exists s', lex_comment_loop true n acc g s = Ok (None, s') /\ adv_text s0 s' (l0 ++ text) /\ post s' = rest.
Proof.
  induction text as [|c text IH]; intros n acc s0 s l0 A E F R Hn; (destruct n as [|n]; [cbn in Hn; lia|]);
    cbn [lex_comment_loop]; unfold bind at 1, peek_cur, gets; cbv beta iota; unfold peek_cur_ch; rewrite E.
  - cbn [app] in *. rewrite app_nil_r. destruct R as [->|R].
    + cbn [hd_error ret]. exists s. split; [reflexivity|]. split; [exact A|exact E].
    + destruct rest as [|d rest']; [discriminate|]. cbn in R. injection R as ->.
      cbn [hd_error Z.eqb Pos.eqb ret]. exists s. split; [reflexivity|]. split; [exact A|exact E].
  - inversion F as [|? ? [C1 C2] F']; subst. cbn [app hd_error].
    pose proof C1 as C1'. apply Z.eqb_neq in C1'. rewrite C1', C2.
    unfold bind at 1. cbn [app] in E. rewrite (consume_cons s c _ E).
    destruct (IH n (acc ++ [c]) s0 (adv s c (text ++ rest)) (l0 ++ [c])) as (s' & E' & A' & P').
    + apply adv_text_step; assumption.
    + autorewrite with st. reflexivity.
    + exact F'.
    + exact R.
    + cbn in Hn. lia.
    + exists s'. rewrite <- app_assoc in A'. cbn [app] in A'. split; [exact E'|]. split; assumption.
Qed.

Lemma comment_skip s text rest :
  post s = 35 :: text ++ rest -> comment_text text -> (rest = [] \/ hd_error rest = Some 10) ->
  exists s',
    (if opt_is (peek_cur_ch s) 35
     then if opt_is (peek_next_ch s) 91 then lex_multi_line_comment true else lex_comment true
     else ret None) s = Ok (None, s') /\
    adv_text s s' (35 :: text) /\ post s' = rest.
Proof.
  intros E [F H91] R.
  assert (P0 : peek_cur_ch s = Some 35) by (unfold peek_cur_ch; rewrite E; reflexivity).
  assert (P1 : opt_is (peek_next_ch s) 91 = false).
  { unfold peek_next_ch. rewrite E. cbn [nth_error]. destruct text as [|c t]; cbn [app nth_error].
    - destruct R as [->|R]; [reflexivity|]. destruct rest as [|d r]; [discriminate|]. cbn in R. injection R as ->. reflexivity.
    - cbn [opt_is]. destruct (c =? 91) eqn:EC; [|reflexivity]. apply Z.eqb_eq in EC. subst. cbn in H91. congruence. }
  rewrite P0, P1. cbn [opt_is Z.eqb Pos.eqb].
  unfold lex_comment. unfold bind at 1, ghost_pos, gets at 1. cbv beta iota.
  unfold bind at 1, gets at 1. cbv beta iota. unfold fuel_of. rewrite E.
  destruct (lex_comment_loop_run (Z.min (cursor s) (len s)) rest (35 :: text)
              (S (length (35 :: text ++ rest))) [] s s []) as (s' & E' & A' & P').
  - apply adv_text_refl.
  - rewrite E. reflexivity.
  - constructor; [split; [discriminate|reflexivity]|exact F].
  - exact R.
  - cbn [length]. rewrite app_length. lia.
  - exists s'. cbn [app] in A'. split; [exact E'|]. split; assumption.
Qed.

(* ------------------------------------------------------------------ a line break *)
(** [s'] is [s] after the line break at the cursor has been lexed *)
Definition nl_after (s s' : lstate) (b : list Z) (pk : tkind) : Prop :=
  Lt s' /\ pre s' = 10 :: pre s /\ post s' = b /\ cursor s' = cursor s + 1 /\
  indent_stack s' = indent_stack s /\ encl s' = encl s /\ prev_kind s' = pk /\ interpol s' = interpol s.

Section NL.
Variable xs xc : Z -> bool.

Lemma next_eq :
  next xs xc true true =
  (prev <- gets prev_kind ;;
   if kind_eqb prev EOF then ret SNone
   else r <- lex_space_indent_dedent true ;;
        match r with Some it => ret (SItem it) | None => next_rest xs xc end).
Proof. reflexivity. Qed.

Lemma next_rest_eq :
  next_rest xs xc =
  (cur <- peek_cur ;; nx <- peek_next ;;
   cm <- (if opt_is cur 35 then if opt_is nx 91 then lex_multi_line_comment true else lex_comment true else ret None) ;;
   match cm with Some it => ret (SItem it) | None => nl_tail xs xc end).
Proof. reflexivity. Qed.

Ltac lit10 :=
  repeat match goal with
         | |- context [10 =? ?n] =>
           let v := eval compute in (10 =? n) in change (10 =? n) with v
         end; cbv iota.

Lemma dispatch_10 g :
  dispatch xs xc true true 10 g =
  (cur <- peek_cur ;; nx <- peek_next ;;
   e <- gets encl ;;
   if 0 <? e then modify (fun st => set_col (set_lineno st (lineno st + 1)) 0) ;;; ret SAgain
   else t <- emit_singleline_token Newline [10] g ;;
        modify (fun st => set_col (set_lineno st (lineno st + 1)) 0) ;;; ret (SItem (ITok t))).
Proof. unfold dispatch. lit10. reflexivity. Qed.

Lemma dispatch_10_sim k g1 g2 :
  R2 step_sim k k (dispatch xs xc true true 10 g1) (dispatch xs xc true true 10 g2).
Proof. rewrite !dispatch_10. rs. Qed.

Lemma Lt_sy s : Lt s -> Lt (sy s).
Proof. intros L. apply (Lt_same s); [reflexivity..|exact L]. Qed.

Lemma simk_sy k a b : simk k a b -> simk k (sy a) (sy b).
Proof. revert a b. unfold sy. sim_upd. Qed.

Lemma nl_tail_cons s c r :
  Lt s -> post s = c :: r ->
  nl_tail xs xc s = dispatch xs xc true true c (Z.min (cursor s) (len s)) (adv (sy s) c r).
Proof.
  intros L E. unfold nl_tail. unfold bind at 1. rewrite (sync_run s L).
  unfold bind at 1, ghost_pos, gets. cbv beta iota.
  unfold bind at 1. rewrite (consume_cons (sy s) c r E). reflexivity.
Qed.

(** from states that agree on the control state and both stand at a line break, the rest of the call is alike *)
Lemma nl_tail_nl_sim a b :
  simk 0 a b -> hd_error (post a) = Some 10 ->
  match nl_tail xs xc a, nl_tail xs xc b with
  | Ok (x, a'), Ok (y, b') => step_sim x y /\ simk 1 a' b'
  | Panic, Panic => True
  | Fuel, Fuel => True
  | _, _ => False
  end.
Proof.
  intros HS HP. pose proof HS as (LA & LB & (PP & _) & _).
  destruct (post a) as [|c r] eqn:EA; [discriminate|]. cbn in HP. injection HP as ->.
  assert (EB : post b = 10 :: r) by congruence.
  rewrite (nl_tail_cons a 10 r LA EA), (nl_tail_cons b 10 r LB EB).
  apply (dispatch_10_sim 1). apply simk_adv; [apply simk_sy; exact HS|exact EA].
Qed.

Lemma nl_tail_newline s b :
  Lt s -> post s = 10 :: b -> encl s = 0 ->
  exists t s', nl_tail xs xc s = Ok (SItem (ITok t), s') /\ tk_kind t = Newline /\ tk_content t = [10] /\
               nl_after s s' b Newline.
Proof.
  intros L E EN. rewrite (nl_tail_cons s 10 b L E), dispatch_10.
  unfold bind, peek_cur, peek_next, gets, emit_singleline_token, modify, ret. cbv beta iota.
  autorewrite with st. change (encl (sy s)) with (encl s). rewrite EN. cbn [Z.ltb Z.compare].
  eexists. eexists. split; [reflexivity|]. split; [reflexivity|]. split; [reflexivity|].
  pose proof (Lt_adv (sy s) 10 b (Lt_sy s L) E) as LA.
  split; [apply (Lt_same (adv (sy s) 10 b)); [reflexivity..|exact LA]|].
  cbn [pre post cursor indent_stack encl prev_kind interpol set_col set_lineno set_prev].
  autorewrite with st. repeat split; reflexivity.
Qed.

(** lex_space_indent_dedent at a line break outside every enclosure: the Newline token *)
Lemma lsid_newline s b :
  Lt s -> post s = 10 :: b -> encl s = 0 ->
  exists t s', lex_space_indent_dedent true s = Ok (Some (ITok t), s') /\ tk_kind t = Newline /\ tk_content t = [10] /\
               nl_after s s' b Newline.
Proof.
  intros L E EN. unfold lex_space_indent_dedent.
  unfold bind at 1. rewrite (sync_run s L). unfold bind at 1, gets at 1. cbv beta iota.
  unfold bind at 1, ghost_pos, gets at 1. cbv beta iota zeta.
  change (peek_cur_ch (sy s)) with (peek_cur_ch s). change (encl (sy s)) with (encl s).
  assert (PC : peek_cur_ch s = Some 10) by (unfold peek_cur_ch; rewrite E; reflexivity).
  rewrite PC, EN. cbn [opt_is Z.eqb Pos.eqb orb negb andb]. rewrite !andb_false_r. cbn [andb].
  unfold bind at 1. rewrite (consume_cons (sy s) 10 b E).
  unfold bind, emit_singleline_token, modify, ret. cbv beta iota.
  eexists. eexists. split; [reflexivity|]. split; [reflexivity|]. split; [reflexivity|].
  pose proof (Lt_adv (sy s) 10 b (Lt_sy s L) E) as LA.
  split; [apply (Lt_same (adv (sy s) 10 b)); [reflexivity..|exact LA]|].
  cbn [pre post cursor indent_stack encl prev_kind interpol set_col set_lineno set_prev].
  autorewrite with st. repeat split; reflexivity.
Qed.

(** the rest of a call of next after the indentation logic, from similar states *)
Lemma next_rest_sim k : R2 step_sim (S k) 1 (next_rest xs xc) (next_rest xs xc).
Proof.
  unfold next_rest.
  eapply R2_bind; [apply R2_peek_cur|]. intros cur ? <-.
  eapply R2_bind; [apply R2_peek_next|]. intros nx ? <-.
  eapply R2_bind with (RA := oitem_sim) (k1 := S k).
  { destruct (opt_is cur 35); [|apply R2_ret; exact I].
    destruct (opt_is nx 91).
    - unfold lex_multi_line_comment. rs. apply lex_multi_line_comment_loop_sim.
    - unfold lex_comment. rs. apply lex_comment_loop_sim. }
  intros c1 c2 HC. destruct c1 as [i1|], c2 as [i2|]; cbn [oitem_sim] in HC; try contradiction.
  { apply R2_post with (RA := step_sim) (k1 := S k); [apply R2_ret; exact HC|auto|lia]. }
  eapply R2_bind; [apply R2_sync|]. intros ? ? _.
  eapply R2_bind; [apply R2_ghost|]. intros g1 g2 _.
  apply R2_bind_consume.
  - intros c. cbv beta iota. apply R2_pre with (k := 2%nat); [|lia].
    apply R2_post with (RA := step_sim) (k1 := 2%nat); [apply dispatch_sim|auto|lia].
  - cbv beta iota. apply R2_post with (RA := step_sim) (k1 := S k); [rs|auto|lia].
Qed.

Lemma nl_tail_skip s b :
  Lt s -> post s = 10 :: b -> 0 < encl s ->
  exists s', nl_tail xs xc s = Ok (SAgain, s') /\ nl_after s s' b (prev_kind s).
Proof.
  intros L E EN. rewrite (nl_tail_cons s 10 b L E), dispatch_10.
  unfold bind, peek_cur, peek_next, gets, modify, ret. cbv beta iota.
  autorewrite with st. change (encl (sy s)) with (encl s).
  replace (0 <? encl s) with true by (symmetry; apply Z.ltb_lt; exact EN).
  eexists. split; [reflexivity|].
  pose proof (Lt_adv (sy s) 10 b (Lt_sy s L) E) as LA.
  split; [apply (Lt_same (adv (sy s) 10 b)); [reflexivity..|exact LA]|].
  cbn [pre post cursor indent_stack encl prev_kind interpol set_col set_lineno].
  autorewrite with st. repeat split; reflexivity.
Qed.

Ltac lit92 :=
  repeat match goal with
         | |- context [92 =? ?n] =>
           let v := eval compute in (92 =? n) in change (92 =? n) with v
         end; cbv iota.

Lemma dispatch_92 g :
  dispatch xs xc true true 92 g =
  (cur <- peek_cur ;; nx <- peek_next ;;
   match cur with
   | Some other =>
     if other =? 10 then
       consume true ;;; modify (fun st => set_col (set_lineno st (lineno st + 1)) 0) ;;; ret SAgain
     else reject E_BackslashNonNewline Illegal [92; other] g
   | None => reject E_SimpleSyntax Illegal [92] g
   end).
Proof. unfold dispatch. lit92. reflexivity. Qed.

(** a backslash followed by a line break: both are consumed, nothing is emitted *)
Definition cont_after (s s' : lstate) (b : list Z) : Prop :=
  Lt s' /\ pre s' = 10 :: 92 :: pre s /\ post s' = b /\ cursor s' = cursor s + 2 /\
  indent_stack s' = indent_stack s /\ encl s' = encl s /\ prev_kind s' = prev_kind s /\ interpol s' = interpol s.

Lemma nl_tail_continuation s b :
  Lt s -> post s = 92 :: 10 :: b ->
  exists s', nl_tail xs xc s = Ok (SAgain, s') /\ cont_after s s' b.
Proof.
  intros L E. rewrite (nl_tail_cons s 92 (10 :: b) L E), dispatch_92.
  unfold bind at 1, peek_cur, gets. cbv beta iota. unfold bind at 1, peek_next, gets. cbv beta iota.
  unfold peek_cur_ch. autorewrite with st. cbn [hd_error Z.eqb Pos.eqb].
  pose proof (Lt_adv (sy s) 92 (10 :: b) (Lt_sy s L) E) as LA.
  assert (E2 : post (adv (sy s) 92 (10 :: b)) = 10 :: b) by (autorewrite with st; reflexivity).
  unfold bind at 1. rewrite (consume_cons _ 10 b E2).
  unfold bind, modify, ret. cbv beta iota.
  eexists. split; [reflexivity|].
  pose proof (Lt_adv _ 10 b LA E2) as LB.
  split; [apply (Lt_same (adv (adv (sy s) 92 (10 :: b)) 10 b)); [reflexivity..|exact LB]|].
  cbn [pre post cursor indent_stack encl prev_kind interpol set_col set_lineno].
  autorewrite with st. repeat split; try reflexivity. change (cursor (sy s)) with (cursor s). lia.
Qed.
End NL.

(** lex_space_indent_dedent at the start of a line whose blanks are exactly the indentation of the open block:
    nothing is emitted *)
Lemma lsid_equal s j r :
  Lt s -> post s = repeat 32 j ++ r -> hd_error r <> Some 32 ->
  (prev_kind s = Newline \/ prev_kind s = Dedent) ->
  Z.of_nat j = zsum (indent_stack s) -> Z.of_nat j <= 100 ->
  (0 <? cursor s) && negb (match indent_stack s with [] => true | _ => false end) && opt_is (peek_prev_ch s) 10
    && negb (opt_is (peek_cur_ch s) 32 || opt_is (peek_cur_ch s) 10) && (encl s =? 0) = false ->
  opt_is (peek_cur_ch s) 10 && (encl s =? 0) = false ->
  exists s', lex_space_indent_dedent true s = Ok (None, s') /\ adv_by s s' j /\ post s' = r.
Proof.
  intros L E HR PK HJ H100 T1 T2. unfold lex_space_indent_dedent.
  unfold bind at 1. rewrite (sync_run s L). unfold bind at 1, gets at 1. cbv beta iota.
  unfold bind at 1, ghost_pos, gets at 1. cbv beta iota zeta.
  change (peek_prev_ch (sy s)) with (peek_prev_ch s). change (peek_cur_ch (sy s)) with (peek_cur_ch s).
  change (cursor (sy s)) with (cursor s). change (indent_stack (sy s)) with (indent_stack s).
  change (encl (sy s)) with (encl s).
  rewrite T1, T2.
  unfold bind at 1, gets at 1, fuel_of. cbv beta iota.
  destruct (consume_spaces_run r j (S (length (post (sy s)))) 0 (sy s) (sy s)) as (s' & CS & SP & PS).
  - apply spaces_from_refl.
  - exact E.
  - exact HR.
  - change (post (sy s)) with (post s). rewrite E, app_length, repeat_length. lia.
  - cbn [repeat] in CS. unfold bind at 1. rewrite CS. cbn [Nat.add].
    unfold bind at 1, gets at 1. cbv beta iota.
    destruct SP as (H1 & H2 & H3 & H4 & H5 & H6 & H7 & H8 & H9 & H10 & H11 & H12).
    rewrite H7. change (prev_kind (sy s)) with (prev_kind s).
    assert (B1 : negb (match repeat 32 j with [] => true | _ => false end) && kind_eqb (prev_kind s) BOF = false).
    { destruct PK as [-> | ->]; cbn [kind_eqb]; apply andb_false_r. }
    rewrite B1.
    assert (B2 : kind_eqb (prev_kind s) Newline || kind_eqb (prev_kind s) Dedent = true).
    { destruct PK as [-> | ->]; reflexivity. }
    rewrite B2.
    (* lex_indent_dedent: Ordering::Equal *)
    unfold lex_indent_dedent. rewrite zlen_repeat.
    unfold bind at 1, ghost_pos, gets at 1. cbv beta iota.
    replace (100 <? Z.of_nat j) with false by (symmetry; apply Z.ltb_ge; exact H100).
    unfold bind at 1, gets at 1. cbv beta iota. rewrite H5. change (indent_stack (sy s)) with (indent_stack s).
    pose proof (fold_indent_sum (rev (indent_stack s)) 0 false (Z.of_nat j)) as FS.
    rewrite zsum_rev in FS.
    destruct (fold_indent (rev (indent_stack s)) 0 false (Z.of_nat j)) as [sum_indent is_valid].
    cbn [fst] in FS. subst sum_indent. rewrite Z.add_0_l, <- HJ, Z.ltb_irrefl.
    unfold bind, modify, ret.
    eexists. split; [reflexivity|]. split; [|exact PS].
    unfold adv_by. cbn [pre post cursor len line_head cur_line indent_stack encl prev_kind interpol set_col].
    change (pre (sy s)) with (pre s) in H1. change (post (sy s)) with (post s) in H2.
    change (cursor (sy s)) with (cursor s) in H3. change (len (sy s)) with (len s) in H4.
    change (indent_stack (sy s)) with (indent_stack s) in H5. change (encl (sy s)) with (encl s) in H6.
    change (prev_kind (sy s)) with (prev_kind s) in H7. change (cur_line (sy s)) with (cur_line s) in H10.
    change (line_head (sy s)) with (line_head s) in H11. change (interpol (sy s)) with (interpol s) in H12.
    repeat split; assumption.
Qed.
