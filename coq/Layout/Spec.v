(** C10 — the property as an executable judge over what the real parser answers, and the classes of known findings.

    The parser answers, for a program text, a status and the dump of its syntax tree with every source position
    erased (harness/layout).  A layout-preserving rewrite must not change it; parsing twice must not either. *)
From Coq Require Import ZArith List Bool Arith.
Import ListNotations.
Open Scope Z_scope.

(** an observed parse: status (0 parsed, 1 errors with a partial tree, 2 errors without tree), number of errors,
    hash and length of the position-erased dump, and whether a second parse of the same text gave the same *)
Record parse_obs := { p_status : Z; p_nerr : Z; p_hash : Z; p_len : Z; p_det : bool }.

Definition same_tree (a b : parse_obs) : bool :=
  (p_status a =? p_status b) && (p_nerr a =? p_nerr b) && (p_hash a =? p_hash b) && (p_len a =? p_len b).

(** verdict on (original, rewritten): 0 passes; 1 parsing the same text twice gave different trees;
    2 the rewritten text no longer parses; 3 it parses to a different tree *)
Definition judge (orig rewritten : parse_obs) : Z :=
  if negb (p_det orig) || negb (p_det rewritten) then 1
  else if negb (p_status orig =? 0) then 0                   (* only programs that parse are judged *)
  else if negb (p_status rewritten =? 0) then 2
  else if negb (same_tree orig rewritten) then 3
  else 0.

(* ------------------------------------------------------------------ known findings *)
(** facts about the place of a rewrite, computed by the check from the REAL lexer's token stream *)
Record facts := {
  f_encl : Z;              (* enclosure level at the point, as the lexer counts it (the closing brace of a string
                              interpolation decrements it: a further finding, see known/C10.json) *)
  f_indent : Z;            (* indentation of the open block there (sum of the lexer's indentation stack) *)
  f_lead : Z;              (* if the line that results consists of blanks and at most a comment: its number of
                              leading blanks, otherwise -1 *)
  f_has_comment : bool;    (* ... and whether it has a comment *)
  f_fix_changed : bool;    (* the character directly before or after a `+ - * **` operator (or before the minus sign
                              of a negative literal) next to the point changes between blank and non-blank *)
  f_block_blank : bool;    (* a blank or a `#` comment now directly follows the end of a block comment *)
  f_cont_col0 : bool;      (* a continuation line that starts in column 0 *)
  f_after_operand : bool   (* the parenthesised operand directly follows another operand (juxtaposed call) *)
}.

(** class of the known finding a rewrite falls into (0: none).
    1  a line of blanks and/or a comment takes part in the indentation logic: it is lexed as Indent / Dedent
       (or an indentation error) unless its blanks equal the indentation of the open block
       (Lexer::lex_space_indent_dedent looks only at an immediate line break);
    2  Lexer::op_fix decides prefix / infix from ' ' exactly: a line break, a backslash or a comment next to
       `+ - * **` reads differently from a blank;
    3  after a block comment the lexer goes straight to its big match: a blank or a `#` comment directly after
       `]#` is "invalid character" (`#[ c ]# x`, `#[ c ]## d`);
    4  a continuation line that starts in column 0 inside an indented block is lexed as a Dedent;
    5  `f (x) + 1`: parentheses around the first operand of the argument of a juxtaposed call are read as the
       argument list. *)
Definition known_c10 (f : facts) : Z :=
  if (f_encl f =? 0) && (0 <=? f_lead f) && negb (f_lead f =? f_indent f)
     && negb ((f_lead f =? 0) && negb (f_has_comment f)) then 1
  else if f_fix_changed f then 2
  else if f_block_blank f then 3
  else if f_cont_col0 f && (f_encl f =? 0) && (0 <? f_indent f) then 4
  else if f_after_operand f then 5
  else 0.
