(** C10 — relational logic, part 3: Iterator::next and Lexer::lex behave alike from similar states. *)
From Coq Require Import ZArith List Bool Arith Lia.
Require Import ErgV.Lexer.Model ErgV.Lexer.Spec ErgV.Lexer.Proofs ErgV.Lexer.ProofsNext .
Require Import ErgV.Layout.Sim ErgV.Layout.SimSub .
Import ListNotations.
Open Scope Z_scope.

(* ------------------------------------------------------------------ looking back *)
Lemma zlen_0_nil (l : list Z) : zlen l = 0 -> l = [].
Proof. destruct l; [reflexivity|]. rewrite zlen_cons. pose proof (zlen_nonneg l). lia. Qed.

Lemma peek_prev_lt st : Lt st ->
  peek_prev_ch st = if cursor st =? zlen (pre st) then hd_error (pre st) else None.
Proof.
  intros [A B C D]. unfold peek_prev_ch. pose proof (zlen_nonneg (pre st)) as HP. pose proof (zlen_nonneg (post st)) as HQ.
  destruct (cursor st =? zlen (pre st)) eqn:E.
  - apply Z.eqb_eq in E. destruct (cursor st <? 1) eqn:E1.
    + apply Z.ltb_lt in E1. rewrite (zlen_0_nil (pre st)) by lia. reflexivity.
    + apply Z.ltb_ge in E1. replace (cursor st - 1 <? len st) with true by (symmetry; apply Z.ltb_lt; lia). reflexivity.
  - apply Z.eqb_neq in E. rewrite B in C by lia. rewrite zlen_nil in C.
    replace (cursor st <? 1) with false by (symmetry; apply Z.ltb_ge; lia).
    replace (cursor st - 1 <? len st) with false by (symmetry; apply Z.ltb_ge; lia). reflexivity.
Qed.

Lemma nth_error_1_short (l : list Z) : zlen l < 2 -> nth_error l 1 = None.
Proof. intros H. apply nth_error_None. unfold zlen in H. lia. Qed.

Lemma peek_prev_prev_lt st : Lt st ->
  peek_prev_prev_ch st =
    if cursor st =? zlen (pre st) then nth_error (pre st) 1
    else if cursor st =? zlen (pre st) + 1 then hd_error (pre st) else None.
Proof.
  intros [A B C D]. unfold peek_prev_prev_ch. pose proof (zlen_nonneg (pre st)) as HP. pose proof (zlen_nonneg (post st)) as HQ.
  destruct (cursor st =? zlen (pre st)) eqn:E.
  - apply Z.eqb_eq in E. destruct (cursor st <? 2) eqn:E1.
    + apply Z.ltb_lt in E1. symmetry. apply nth_error_1_short. lia.
    + apply Z.ltb_ge in E1. replace (cursor st - 2 <? len st) with true by (symmetry; apply Z.ltb_lt; lia).
      replace (cursor st <=? len st) with true by (symmetry; apply Z.leb_le; lia). reflexivity.
  - apply Z.eqb_neq in E. rewrite B in C by lia. rewrite zlen_nil in C.
    destruct (cursor st =? zlen (pre st) + 1) eqn:E2.
    + apply Z.eqb_eq in E2. destruct (cursor st <? 2) eqn:E1.
      * apply Z.ltb_lt in E1. rewrite (zlen_0_nil (pre st)) by lia. reflexivity.
      * apply Z.ltb_ge in E1. replace (cursor st - 2 <? len st) with true by (symmetry; apply Z.ltb_lt; lia).
        replace (cursor st <=? len st) with false by (symmetry; apply Z.leb_gt; lia). reflexivity.
    + apply Z.eqb_neq in E2.
      replace (cursor st <? 2) with false by (symmetry; apply Z.ltb_ge; lia).
      replace (cursor st - 2 <? len st) with false by (symmetry; apply Z.ltb_ge; lia). reflexivity.
Qed.

Lemma hd_firstn {A} (l m : list A) k : firstn (S k) l = firstn (S k) m -> hd_error l = hd_error m.
Proof. destruct l, m; cbn; intros H; try discriminate; [reflexivity|]. injection H as -> _. reflexivity. Qed.
Lemma nth1_firstn {A} (l m : list A) k : firstn (S (S k)) l = firstn (S (S k)) m -> nth_error l 1 = nth_error m 1.
Proof.
  destruct l as [|x [|y l]], m as [|x' [|y' m]]; cbn; intros H; try discriminate; try reflexivity.
  injection H as -> -> _. reflexivity.
Qed.

Lemma pp_sim k a b : simk (S k) a b -> peek_prev_ch a = peek_prev_ch b.
Proof.
  intros (A & B & (_ & _ & _ & _ & _ & O) & D). rewrite (peek_prev_lt a A), (peek_prev_lt b B).
  replace (cursor b =? zlen (pre b)) with (cursor a =? zlen (pre a)).
  - rewrite (hd_firstn _ _ _ D). reflexivity.
  - destruct (cursor a =? zlen (pre a)) eqn:E; symmetry; [apply Z.eqb_eq in E; apply Z.eqb_eq|apply Z.eqb_neq in E; apply Z.eqb_neq]; lia.
Qed.

Lemma ppp_sim k a b : simk (S (S k)) a b -> peek_prev_prev_ch a = peek_prev_prev_ch b.
Proof.
  intros (A & B & (_ & _ & _ & _ & _ & O) & D). rewrite (peek_prev_prev_lt a A), (peek_prev_prev_lt b B).
  replace (cursor b =? zlen (pre b)) with (cursor a =? zlen (pre a))
    by (destruct (cursor a =? zlen (pre a)) eqn:E; symmetry; [apply Z.eqb_eq in E; apply Z.eqb_eq|apply Z.eqb_neq in E; apply Z.eqb_neq]; lia).
  replace (cursor b =? zlen (pre b) + 1) with (cursor a =? zlen (pre a) + 1)
    by (destruct (cursor a =? zlen (pre a) + 1) eqn:E; symmetry; [apply Z.eqb_eq in E; apply Z.eqb_eq|apply Z.eqb_neq in E; apply Z.eqb_neq]; lia).
  rewrite (nth1_firstn _ _ _ D). rewrite (hd_firstn (pre a) (pre b) (S k) D). reflexivity.
Qed.

Lemma op_fix_sim : R2 eq 2 2 op_fix op_fix.
Proof.
  unfold op_fix. apply R2_gets_eq. intros a b S.
  pose proof (ppp_sim 0 a b S) as P2. destruct (peek_sim 2 a b S) as [P0 _].
  pose proof S as (_ & _ & (_ & _ & _ & PK & _) & _). rewrite PK, P2, P0. reflexivity.
Qed.

Ltac rs2 :=
  repeat first
    [ lazymatch goal with
      | |- R2 _ _ _ (bind op_fix _) (bind op_fix _) => eapply R2_bind; [apply op_fix_sim | intros ? ? <-]
      | |- R2 _ _ _ (lift _) (lift _) => apply lift_sim
      | |- R2 _ _ _ (by_fix _ _ _ _ _) (by_fix _ _ _ _ _) => unfold by_fix
      end
    | rs1 | solve [rleaf] | solve [auto with rsim] ].

Section Next.
Variable xs xc : Z -> bool.

Hint Resolve lex_num_sim lex_ratio_sim lex_symbol_sim lex_single_str_sim lex_multi_line_str_sim
     lex_interpolation_mid_sim lex_raw_ident_sim lex_backquote_loop_sim : rsim.

Lemma dispatch_sim c g1 g2 : R2 step_sim 2 2 (dispatch xs xc true true c g1) (dispatch xs xc true true c g2).
Proof. unfold dispatch. rs2. Qed.

(* ------------------------------------------------------------------ general pre / post relations *)
Definition R2G {A} (RA : A -> A -> Prop) (P Q : lstate -> lstate -> Prop) (m1 m2 : M A) : Prop :=
  forall a b, P a b ->
    match m1 a, m2 b with
    | Ok (x, a'), Ok (y, b') => RA x y /\ Q a' b'
    | Panic, Panic => True
    | Fuel, Fuel => True
    | _, _ => False
    end.

Lemma R2G_bind {A B} (RA : A -> A -> Prop) (RB : B -> B -> Prop) (P Q R : lstate -> lstate -> Prop) (m1 m2 : M A) (f1 f2 : A -> M B) :
  R2G RA P Q m1 m2 -> (forall x y, RA x y -> R2G RB Q R (f1 x) (f2 y)) -> R2G RB P R (bind m1 f1) (bind m2 f2).
Proof.
  intros H1 H2 a b S. specialize (H1 a b S). unfold bind.
  destruct (m1 a) as [[x a']| |], (m2 b) as [[y b']| |]; try contradiction; try exact I.
  destruct H1 as [HR HS]. exact (H2 x y HR a' b' HS).
Qed.
Lemma R2G_gets {A} (RA : A -> A -> Prop) (P : lstate -> lstate -> Prop) (f1 f2 : lstate -> A) :
  (forall a b, P a b -> RA (f1 a) (f2 b)) -> R2G RA P P (gets f1) (gets f2).
Proof. intros H a b S. cbn. split; [apply H; exact S|exact S]. Qed.
Lemma R2G_pre {A} (RA : A -> A -> Prop) (P P' Q : lstate -> lstate -> Prop) (m1 m2 : M A) :
  R2G RA P' Q m1 m2 -> (forall a b, P a b -> P' a b) -> R2G RA P Q m1 m2.
Proof. intros H HP a b S. apply H, HP, S. Qed.

(* ------------------------------------------------------------------ indentation *)
Lemma consume_spaces_sim k : forall n j a0 b0 a b,
  simk k a b -> spaces_from a0 a j -> spaces_from b0 b j ->
  match consume_spaces true n (repeat 32 j) a, consume_spaces true n (repeat 32 j) b with
  | Ok (s1, a'), Ok (s2, b') =>
    exists j', s1 = repeat 32 j' /\ s2 = repeat 32 j' /\ simk k a' b' /\ spaces_from a0 a' j' /\ spaces_from b0 b' j'
  | Fuel, Fuel => True
  | _, _ => False
  end.
Proof.
  induction n as [|n IH]; intros j a0 b0 a b HS SA SB; [exact I|].
  pose proof HS as (_ & _ & (PP & _) & _).
  cbn [consume_spaces]. unfold bind, peek_cur, gets, peek_cur_ch. cbv beta iota. rewrite <- PP.
  destruct (post a) as [|c r] eqn:EA; cbn [hd_error opt_is].
  - cbn [ret]. exists j. split; [reflexivity|]. split; [reflexivity|]. split; [assumption|]. split; assumption.
  - destruct (c =? 32) eqn:E.
    + apply Z.eqb_eq in E. subst c.
      assert (EB : post b = 32 :: r) by congruence.
      rewrite (consume_cons a 32 r EA), (consume_cons b 32 r EB).
      replace (repeat 32 j ++ [32]) with (repeat 32 (S j)) by (cbn [repeat]; apply repeat_cons).
      apply IH.
      * apply simk_weaken. apply simk_adv; assumption.
      * apply spaces_from_adv; assumption.
      * apply spaces_from_adv; assumption.
    + cbn [ret]. exists j. split; [reflexivity|]. split; [reflexivity|]. split; [assumption|]. split; assumption.
Qed.

Lemma rewind_spaces_lt st st' j :
  Lt st -> Lt st' -> spaces_from st st' j -> rewind (Z.of_nat j) st' = Ok (tt, st).
Proof.
  intros I I' (H1 & H2 & H3 & H4 & H5 & H6 & H7 & H8 & H9 & H10 & H11 & H12).
  unfold rewind.
  pose proof (lt_cur _ I) as Hc. pose proof (zlen_nonneg (pre st)) as Hp.
  replace (cursor st' <? Z.of_nat j) with false by (symmetry; apply Z.ltb_ge; lia).
  assert (Hk : Z.to_nat (Z.min (cursor st') (len st') - Z.min (cursor st' - Z.of_nat j) (len st')) = j).
  { destruct j as [|j]; [rewrite H3; replace (cursor st + Z.of_nat 0 - Z.of_nat 0) with (cursor st + Z.of_nat 0) by lia; lia|].
    assert (cursor st = zlen (pre st)) as Hcur.
    { destruct (Z.eq_dec (cursor st) (zlen (pre st))); [assumption|].
      rewrite (lt_over _ I) in H2 by lia. discriminate. }
    pose proof (lt_len _ I') as HL. rewrite H1, zlen_app, zlen_repeat in HL.
    pose proof (zlen_nonneg (post st')). lia. }
  rewrite Hk. rewrite H1.
  rewrite skipn_app, firstn_app, repeat_length, Nat.sub_diag. cbn [skipn firstn].
  rewrite skipn_all2 by (rewrite repeat_length; lia).
  rewrite firstn_all2 by (rewrite repeat_length; lia).
  rewrite app_nil_r, rev_repeat32. cbn [app]. rewrite <- H2.
  replace (cursor st' - Z.of_nat j) with (cursor st) by lia.
  destruct st, st'. cbn in *. subst. reflexivity.
Qed.

Definition spaced (k : nat) (a0 b0 : lstate) (j : nat) (a b : lstate) : Prop :=
  simk k a b /\ spaces_from a0 a j /\ spaces_from b0 b j.

Lemma R2_bind_spaces {B} (RB : B -> B -> Prop) k k' n (f1 f2 : list Z -> M B) :
  (forall j a0 b0, simk k a0 b0 -> R2G RB (spaced k a0 b0 j) (simk k') (f1 (repeat 32 j)) (f2 (repeat 32 j))) ->
  R2 RB k k' (bind (consume_spaces true n []) f1) (bind (consume_spaces true n []) f2).
Proof.
  intros H a b HAB. unfold bind.
  pose proof (consume_spaces_sim k n 0 a b a b HAB (spaces_from_refl a) (spaces_from_refl b)) as CS.
  cbn [repeat] in CS.
  destruct (consume_spaces true n [] a) as [[s1 a']| |], (consume_spaces true n [] b) as [[s2 b']| |];
    try contradiction; try exact I.
  destruct CS as (j & -> & -> & HS' & SA & SB).
  apply (H j a b HAB). split; [exact HS'|]. split; assumption.
Qed.

Lemma lex_indent_dedent_sim k a0 b0 j :
  simk k a0 b0 ->
  R2G oitem_sim (spaced k a0 b0 j) (simk k) (lex_indent_dedent (repeat 32 j)) (lex_indent_dedent (repeat 32 j)).
Proof.
  intros S0. unfold lex_indent_dedent. rewrite zlen_repeat.
  assert (W : forall (A : Type) (RA : A -> A -> Prop) (m1 m2 : M A), R2 RA k k m1 m2 -> R2G RA (spaced k a0 b0 j) (simk k) m1 m2).
  { intros A RA m1 m2 H a b (S & _). apply H. exact S. }
  eapply R2G_bind; [apply (R2G_gets any); intros; exact I|]. intros g1 g2 _.
  destruct (100 <? Z.of_nat j); [apply W; rs|].
  eapply R2G_bind; [apply (R2G_gets eq); intros a b ((_ & _ & (_ & P & _) & _) & _); exact P|]. intros stack ? <-.
  destruct (fold_indent (rev stack) 0 false (Z.of_nat j)) as [sum_indent is_valid].
  destruct (sum_indent <? Z.of_nat j); [apply W; rs|].
  destruct (Z.of_nat j <? sum_indent); [|apply W; rs].
  eapply R2G_bind with (RA := eq) (Q := simk k).
  - intros a b (S & SA & SB). pose proof S as (LA & LB & _). pose proof S0 as (LA0 & LB0 & _).
    rewrite (rewind_spaces_lt a0 a j LA0 LA SA), (rewind_spaces_lt b0 b j LB0 LB SB). split; [reflexivity|exact S0].
  - intros ? ? _. change (R2 oitem_sim k k
      (modify (fun st => set_indent st (tl (indent_stack st)));;;
       g' <- ghost_pos;; t <- emit_singleline_token Dedent [] g';;
       (if is_valid then ret (Some (ITok t)) else cur <- peek_cur;; ret (Some (IErr (E_InvalidIndent (opt_is cur 10)) t))))
      (modify (fun st => set_indent st (tl (indent_stack st)));;;
       g' <- ghost_pos;; t <- emit_singleline_token Dedent [] g';;
       (if is_valid then ret (Some (ITok t)) else cur <- peek_cur;; ret (Some (IErr (E_InvalidIndent (opt_is cur 10)) t))))).
    rs.
Qed.

Lemma is_empty_list_eq {A} (l : list A) : (match l with [] => true | _ => false end) = (match l with [] => true | _ :: _ => false end).
Proof. destruct l; reflexivity. Qed.

Lemma lex_space_indent_dedent_sim k :
  R2 oitem_sim (S k) (S k) (lex_space_indent_dedent true) (lex_space_indent_dedent true).
Proof.
  unfold lex_space_indent_dedent.
  eapply R2_bind; [apply R2_sync|]. intros ? ? _.
  eapply R2_bind with (RA := simk (S k)); [apply R2_gets; intros a b S; exact S|]. intros sa sb HS.
  eapply R2_bind; [apply R2_ghost|]. intros g1 g2 _.
  pose proof (pp_sim k sa sb HS) as PP. destruct (peek_sim _ sa sb HS) as [P0 _].
  pose proof HS as (LA & LB & (_ & IS & EN & _ & _ & OV) & FN).
  assert (C0 : (0 <? cursor sa) && opt_is (peek_prev_ch sa) 10 = (0 <? cursor sb) && opt_is (peek_prev_ch sb) 10).
  { rewrite <- PP. destruct (peek_prev_ch sa) as [c|] eqn:E; [|rewrite !andb_false_r; reflexivity].
    assert (HA : 0 < cursor sa).
    { unfold peek_prev_ch in E. destruct (cursor sa <? 1) eqn:E1; [discriminate|]. apply Z.ltb_ge in E1. lia. }
    assert (HB : 0 < cursor sb).
    { symmetry in PP. unfold peek_prev_ch in PP. destruct (cursor sb <? 1) eqn:E1; [discriminate|]. apply Z.ltb_ge in E1. lia. }
    replace (0 <? cursor sa) with true by (symmetry; apply Z.ltb_lt; lia).
    replace (0 <? cursor sb) with true by (symmetry; apply Z.ltb_lt; lia). reflexivity. }
  assert (C1 : (0 <? cursor sa) && negb (match indent_stack sa with [] => true | _ => false end) && opt_is (peek_prev_ch sa) 10
             = (0 <? cursor sb) && negb (match indent_stack sb with [] => true | _ => false end) && opt_is (peek_prev_ch sb) 10).
  { rewrite <- IS.
    destruct (0 <? cursor sa), (opt_is (peek_prev_ch sa) 10), (0 <? cursor sb), (opt_is (peek_prev_ch sb) 10),
             (match indent_stack sa with [] => true | _ => false end); cbn in *; congruence. }
  cbv zeta. rewrite <- C1, <- P0, <- EN.
  destruct ((0 <? cursor sa) && negb (match indent_stack sa with [] => true | _ => false end) && opt_is (peek_prev_ch sa) 10
            && negb (opt_is (peek_cur_ch sa) 32 || opt_is (peek_cur_ch sa) 10) && (encl sa =? 0)); [rs|].
  destruct (opt_is (peek_cur_ch sa) 10 && (encl sa =? 0)); [rs|].
  eapply R2_bind; [apply R2_fuel_of|]. intros n ? <-.
  (* the run of blanks, then the indentation logic *)
  apply R2_bind_spaces. intros j a b HAB. cbv beta.
  assert (W : forall (A : Type) (RA : A -> A -> Prop) (m1 m2 : M A),
             R2 RA (S k) (S k) m1 m2 -> R2G RA (spaced (S k) a b j) (simk (S k)) m1 m2).
  { intros A RA m1 m2 H u v (SS & _). apply H. exact SS. }
  eapply R2G_bind; [apply (R2G_gets eq); intros u v ((_ & _ & (_ & _ & _ & P & _) & _) & _); exact P|]. intros prev ? <-.
  destruct (negb (match repeat 32 j with [] => true | _ => false end) && kind_eqb prev BOF); [apply W; rs|].
  destruct (kind_eqb prev Newline || kind_eqb prev Dedent); [|apply W; rs].
  apply lex_indent_dedent_sim. exact HAB.
Qed.

(* ------------------------------------------------------------------ Iterator::next *)
Lemma R2_bind_consume {B} (RB : B -> B -> Prop) k k' (f1 f2 : option Z -> M B) :
  (forall c, R2 RB (S k) k' (f1 (Some c)) (f2 (Some c))) -> R2 RB k k' (f1 None) (f2 None) ->
  R2 RB k k' (bind (consume true) f1) (bind (consume true) f2).
Proof.
  intros H1 H2 a b HAB. unfold bind.
  destruct (consume_cases k a b HAB) as [(c & r & E & CA & CB & HS')|(E & CA & CB & HS')]; rewrite CA, CB.
  - apply H1. exact HS'.
  - apply H2. exact HS'.
Qed.

Lemma next_sim k :
  R2 step_sim (S k) 1 (next xs xc true true) (next xs xc true true).
Proof.
  unfold next.
  eapply R2_bind; [apply R2_prev_kind|]. intros prev ? <-.
  destruct (kind_eqb prev EOF); [apply R2_post with (RA := step_sim) (k1 := S k); [apply R2_ret; exact I|auto|lia]|].
  eapply R2_bind; [apply lex_space_indent_dedent_sim|]. intros r1 r2 HR.
  destruct r1 as [i1|], r2 as [i2|]; cbn [oitem_sim] in HR; try contradiction.
  { apply R2_post with (RA := step_sim) (k1 := S k); [apply R2_ret; exact HR|auto|lia]. }
  eapply R2_bind; [apply R2_peek_cur|]. intros cur ? <-.
  eapply R2_bind; [apply R2_peek_next|]. intros nx ? <-.
  eapply R2_bind with (RA := oitem_sim) (k1 := S k).
  { destruct (opt_is cur 35); [|apply R2_ret; exact I].
    destruct (opt_is nx 91).
    - unfold lex_multi_line_comment. rs. apply lex_multi_line_comment_loop_sim.
    - unfold lex_comment. rs. apply lex_comment_loop_sim. }
  intros c1 c2 HC. destruct c1 as [i1|], c2 as [i2|]; cbn [oitem_sim] in HC; try contradiction.
  { apply R2_post with (RA := step_sim) (k1 := S k); [apply R2_ret; exact HC|auto|lia]. }
  eapply R2_bind; [apply R2_sync|]. intros ? ? _.
  eapply R2_bind; [apply R2_ghost|]. intros g1 g2 _.
  (* the character consumed here is looked back at by op_fix *)
  apply R2_bind_consume.
  - intros c. cbv beta iota. apply R2_pre with (k := 2%nat); [|lia].
    apply R2_post with (RA := step_sim) (k1 := 2%nat); [apply dispatch_sim|auto|lia].
  - cbv beta iota. apply R2_post with (RA := step_sim) (k1 := S k); [rs|auto|lia].
Qed.

(* ------------------------------------------------------------------ Lexer::lex *)
Lemma erase_rev l : erase (rev l) = rev (erase l).
Proof. unfold erase. apply map_rev. Qed.

(** from similar states the two runs produce the same stream modulo positions, whatever fuel each of them got
    (provided it was enough) *)
Lemma lex_loop_sim : forall n1 n2 a b acc1 acc2 r1 r2,
  simk 1 a b -> erase acc1 = erase acc2 ->
  lex_loop xs xc true true n1 a acc1 = Ok r1 -> lex_loop xs xc true true n2 b acc2 = Ok r2 ->
  erase r1 = erase r2.
Proof.
  induction n1 as [|n1 IH]; intros n2 a b acc1 acc2 r1 r2 HS HA E1 E2; [discriminate|].
  destruct n2 as [|n2]; [discriminate|].
  cbn [lex_loop] in E1, E2. pose proof (next_sim 0 a b HS) as N.
  destruct (next xs xc true true a) as [[s1 a']| |], (next xs xc true true b) as [[s2 b']| |];
    try contradiction; try discriminate.
  destruct N as [NS HS']. destruct s1 as [|i1|], s2 as [|i2|]; cbn [step_sim] in NS; try contradiction.
  - injection E1 as <-. injection E2 as <-. rewrite !erase_rev, HA. reflexivity.
  - eapply (IH n2 a' b' (i1 :: acc1) (i2 :: acc2)); [exact HS'| |exact E1|exact E2].
    unfold erase in *. cbn [map]. rewrite HA. unfold item_sim in NS. rewrite NS. reflexivity.
  - eapply (IH n2 a' b' acc1 acc2); eassumption.
Qed.
End Next.
