(** C10 — definitions for the layout theorems: the part of Iterator::next after the indentation logic, the rest of
    the token stream from a lexer state, and the source rewrites of the property as functions on texts.
    (The lexer itself is the model of C08, Lexer/Model.v; the erasure of positions is in Layout/Sim.v.) *)
From Coq Require Import ZArith List Bool Arith.
Require Import ErgV.Lexer.Model .
Import ListNotations.
Open Scope Z_scope.

Section L.
Variable xs xc : Z -> bool.

(** Iterator::next after lex_space_indent_dedent returned None: comments, then the big match *)
Definition next_rest : M step :=
  cur <- peek_cur ;;
  nx <- peek_next ;;
  cm <- (if opt_is cur 35 then if opt_is nx 91 then lex_multi_line_comment true else lex_comment true
         else ret None) ;;
  match cm with
  | Some it => ret (SItem it)
  | None =>
    sync_token_starts true ;;;
    g <- ghost_pos ;;
    c <- consume true ;;
    match c with
    | Some c => dispatch xs xc true true c g
    | None =>
      stack <- gets indent_stack ;;
      match stack with
      | [] => accept EOF [0] g
      | _ :: r => modify (fun st => set_indent st r) ;;; accept Dedent [] g
      end
    end
  end.

(** the items the iterator still yields from a state (Lexer::lex from the middle of a run) *)
Definition rest (n : nat) (st : lstate) : res (list item) := lex_loop xs xc true true n st [].
End L.

(* ------------------------------------------------------------------ the rewrites of the property, on texts *)
Definition insert_at (src : list Z) (p : nat) (ins : list Z) : list Z := firstn p src ++ ins ++ skipn p src.

(** a `#` comment: no line break, no bidirectional override, not the opening of a block comment *)
Definition comment_text (t : list Z) : Prop :=
  Forall (fun c => c <> 10 /\ is_bidi c = false) t /\ hd_error t <> Some 91.
Definition comment_textb (t : list Z) : bool :=
  forallb (fun c => negb (c =? 10) && negb (is_bidi c)) t && negb (match t with c :: _ => c =? 91 | [] => false end).

Section L2.
Variable xs xc : Z -> bool.
(** the part of [next_rest] after the comments *)
Definition nl_tail : M step :=
  sync_token_starts true ;;;
  g <- ghost_pos ;;
  c <- consume true ;;
  match c with
  | Some c => dispatch xs xc true true c g
  | None =>
    stack <- gets indent_stack ;;
    match stack with
    | [] => accept EOF [0] g
    | _ :: r => modify (fun st => set_indent st r) ;;; accept Dedent [] g
    end
  end.
End L2.
