(** extraction entry point for the C10 judge and the known-finding classes *)
From Coq Require Import ZArith List Bool Arith.
Require Import ErgV.Common.Sx ErgV.Layout.Spec .
Import ListNotations.
Open Scope Z_scope.

Definition dec_obs (x : sx) : parse_obs :=
  {| p_status := sx_z (sx_nth x 0); p_nerr := sx_z (sx_nth x 1); p_hash := sx_z (sx_nth x 2);
     p_len := sx_z (sx_nth x 3); p_det := sx_to_bool (sx_nth x 4) |}.
Definition dec_facts (x : sx) : facts :=
  {| f_encl := sx_z (sx_nth x 0); f_indent := sx_z (sx_nth x 1); f_lead := sx_z (sx_nth x 2);
     f_has_comment := sx_to_bool (sx_nth x 3); f_fix_changed := sx_to_bool (sx_nth x 4);
     f_block_blank := sx_to_bool (sx_nth x 5); f_cont_col0 := sx_to_bool (sx_nth x 6);
     f_after_operand := sx_to_bool (sx_nth x 7) |}.

(** modes:
    (0 obs_original obs_rewritten) -> verdict of the judge;  obs = (status nerr hash len det)
    (1 facts)                      -> class of known finding;  facts = (encl indent lead has_comment fix_changed
                                                                        block_blank cont_col0 after_operand) *)
Definition run (x : sx) : sx :=
  let mode := sx_z (sx_nth x 0) in
  if mode =? 0 then SZ (judge (dec_obs (sx_nth x 1)) (dec_obs (sx_nth x 2)))
  else SZ (known_c10 (dec_facts (sx_nth x 1))).

Require Extraction.
Require Import ExtrOcamlBasic.
Extraction Language OCaml.
Extraction "model.ml" run.
