(** C10 — Parsing is deterministic and insensitive to comments and layout.

    Lexer level: the model of C08 (Lexer/Model.v, the current code = switches [true true]).  [rest xs xc n st] are the
    items Iterator::next still yields from the lexer state [st]; [erase] drops every source position (tokens are
    compared by kind and content, errors by class).  [Lt st] is the part of C08's state invariant the control flow
    depends on (every state of a run satisfies it: [reachable_Lt]).
    Parser level: the expression grammar of C11 (ExprParse/Spec.v), which ExprParse.Props_C11.parse_is_climb
    proves equal to the operator-stack parser of the implementation.

    Determinism: the models are functions.  For the implementation it is observed by the check (every text is
    parsed twice).

    PARTIAL.  The lexer theorems are stated for an insertion at a token boundary of a run (any lexer state there,
    with any history), for the WHOLE rest of the file.  What they do not cover: (i) that the at most two tokens
    BEFORE the insertion, whose look-ahead reaches the inserted text, are unchanged -- false in general, see
    [trailing_space_opfix_refuted]; (ii) the statement parser (blocks, definitions, ...), which is not modelled: its
    invariance is sampled by the check on the real parser.  Full statement, for the record:
      forall src p ins, layout_rewrite src p ins -> erase (lex (insert_at src p ins)) = erase (lex src)
      (plus one Newline token for a blank / comment line), and the same for the syntax tree of the real parser. *)
From Coq Require Import ZArith NArith List Bool Arith Lia.
Require Import ErgV.Lexer.Model ErgV.Lexer.Spec ErgV.Lexer.Proofs .
Require Import ErgV.Layout.Sim ErgV.Layout.SimSub ErgV.Layout.SimNext ErgV.Layout.Model ErgV.Layout.Steps ErgV.Layout.Proofs .
Require ErgV.ExprParse.Model ErgV.ExprParse.Spec ErgV.Layout.Paren .
Import ListNotations.
Open Scope Z_scope.

(** every state of a run satisfies the invariant of C08, hence [Lt] *)
Theorem reachable_Lt : forall (src : list Z) (st : lstate), Inv src st -> Lt st.
Proof. exact Inv_Lt. Qed.

(** THE LEXER DOES NOT DEPEND ON WHERE IT IS.  Two lexer states that agree on the remaining input, the indentation
    stack, the enclosure level, the kind of the previous token, the interpolation stack and the last character
    consumed ([simk 1]) yield the same items modulo positions -- whatever text, line and column came before. *)
Theorem lex_position_independent : forall (xs xc : Z -> bool) (n1 n2 : nat) (a b : lstate) (r1 r2 : list item),
  simk 1 a b -> rest xs xc n1 a = Ok r1 -> rest xs xc n2 b = Ok r2 -> erase r1 = erase r2.
Proof. intros xs xc n1 n2 a b r1 r2 S E1 E2. exact (lex_loop_sim xs xc n1 n2 a b [] [] r1 r2 S eq_refl E1 E2). Qed.

(* ------------------------------------------------------------------ states for the examples *)
(** a lexer state between two tokens: [p] consumed (last character first), [q] to come *)
Definition st_at (p q : list Z) (ind : list Z) (e : Z) (pk : tkind) : lstate :=
  mkst p q (zlen p) (zlen p + zlen q) ind e pk 0 0 0 0 [INot].
Lemma Lt_st_at p q ind e pk : Lt (st_at p q ind e pk).
Proof. constructor; cbn; pose proof (zlen_nonneg p); pose proof (zlen_nonneg q); lia. Qed.

(** COMMENT.  A `#` comment inserted before a line break, after a token that does not start its line
    ([toplevel_cond]: the comment does not stand in column 0 of a line inside an indented block -- that is the known
    finding [comment_line_indent_refuted]): the rest of the stream is unchanged. *)
Theorem comment_invariant_partial :
  forall (xs xc : Z -> bool) (st1 st2 : lstate) (text b : list Z),
  Lt st1 -> Lt st2 -> same_ctl st1 st2 ->
  post st1 = 10 :: b -> post st2 = 35 :: text ++ 10 :: b -> comment_text text ->
  prev_kind st1 <> Newline -> prev_kind st1 <> Dedent -> prev_kind st1 <> EOF ->
  toplevel_cond st2 = false ->
  forall n1 n2 r1 r2, rest xs xc n1 st1 = Ok r1 -> rest xs xc n2 st2 = Ok r2 -> erase r1 = erase r2.
Proof. exact comment_invariant_lemma. Qed.

Example comment_example :
  (* after `x = 1`: a line break, then `y`;  with ` c` as comment text *)
  let p := [49;32;61;32;120] in
  let st1 := st_at p (10 :: [121;10]) [] 0 NatLit in
  let st2 := st_at p (35 :: [32;99] ++ 10 :: [121;10]) [] 0 NatLit in
  Lt st1 /\ Lt st2 /\ same_ctl st1 st2 /\ comment_text [32;99] /\ toplevel_cond st2 = false /\
  prev_kind st1 <> Newline /\ prev_kind st1 <> Dedent /\ prev_kind st1 <> EOF.
Proof.
  cbv zeta. split; [apply Lt_st_at|]. split; [apply Lt_st_at|]. split; [repeat split|].
  split; [split; [repeat constructor; discriminate|discriminate]|]. split; [reflexivity|].
  repeat split; discriminate.
Qed.

(** TRAILING BLANKS before a line break, after a token that does not start its line. *)
Theorem trailing_space_invariant_partial :
  forall (xs xc : Z -> bool) (st1 st2 : lstate) (j : nat) (b : list Z),
  Lt st1 -> Lt st2 -> same_ctl st1 st2 ->
  post st1 = 10 :: b -> post st2 = repeat 32 (S j) ++ 10 :: b ->
  prev_kind st1 <> Newline -> prev_kind st1 <> Dedent -> prev_kind st1 <> BOF -> prev_kind st1 <> EOF ->
  forall n1 n2 r1 r2, rest xs xc n1 st1 = Ok r1 -> rest xs xc n2 st2 = Ok r2 -> erase r1 = erase r2.
Proof. exact trailing_space_invariant_lemma. Qed.

Example trailing_space_example :
  let p := [49;32;61;32;120] in
  let st1 := st_at p (10 :: [121;10]) [4] 1 NatLit in
  let st2 := st_at p (repeat 32 3 ++ 10 :: [121;10]) [4] 1 NatLit in
  Lt st1 /\ Lt st2 /\ same_ctl st1 st2 /\ prev_kind st1 <> Newline /\ prev_kind st1 <> BOF.
Proof. cbv zeta. split; [apply Lt_st_at|]. split; [apply Lt_st_at|]. split; [repeat split|]. split; discriminate. Qed.

(** A BLANK LINE.  What the lexer does with one more line break at the start of a line: outside every enclosure
    (after a Newline token) exactly one more Newline token is yielded, the rest is unchanged; inside an enclosure
    nothing is yielded. *)
Theorem blank_line_invariant_partial :
  forall (xs xc : Z -> bool) (st1 st2 : lstate),
  Lt st1 -> Lt st2 -> same_ctl st1 st2 -> post st2 = 10 :: post st1 ->
  cursor st1 = zlen (pre st1) -> hd_error (pre st1) = Some 10 ->
  prev_kind st1 = Newline -> encl st1 = 0 ->
  forall n1 n2 r1 r2, rest xs xc n1 st1 = Ok r1 -> rest xs xc n2 st2 = Ok r2 ->
  erase r2 = ETok Newline [10] :: erase r1.
Proof. exact blank_line_newline_lemma. Qed.

Theorem blank_line_in_enclosure_partial :
  forall (xs xc : Z -> bool) (st1 st2 : lstate),
  Lt st1 -> Lt st2 -> same_ctl st1 st2 -> post st2 = 10 :: post st1 ->
  cursor st1 = zlen (pre st1) -> hd_error (pre st1) = Some 10 ->
  prev_kind st1 <> Newline -> prev_kind st1 <> Dedent -> prev_kind st1 <> EOF -> 0 < encl st1 ->
  forall n1 n2 r1 r2, rest xs xc n1 st1 = Ok r1 -> rest xs xc n2 st2 = Ok r2 -> erase r2 = erase r1.
Proof. exact blank_line_skipped_lemma. Qed.

Example blank_line_example :
  let p := [10;49;32;61;32;120] in
  let st1 := st_at p [121;10] [] 0 Newline in
  let st2 := st_at p (10 :: [121;10]) [] 0 Newline in
  Lt st1 /\ Lt st2 /\ same_ctl st1 st2 /\ post st2 = 10 :: post st1 /\ cursor st1 = zlen (pre st1) /\
  hd_error (pre st1) = Some 10.
Proof. cbv zeta. split; [apply Lt_st_at|]. split; [apply Lt_st_at|]. repeat split. Qed.

(** A COMMENT LINE whose blanks are exactly the indentation of the open block ([zsum] of the indentation stack):
    exactly one more Newline token.  (With any other number of blanks: [comment_line_indent_refuted].) *)
Theorem comment_line_invariant_partial :
  forall (xs xc : Z -> bool) (st1 st2 : lstate) (j : nat) (text : list Z),
  Lt st1 -> Lt st2 -> same_ctl st1 st2 ->
  post st2 = repeat 32 j ++ 35 :: text ++ 10 :: post st1 -> comment_text text ->
  cursor st1 = zlen (pre st1) -> hd_error (pre st1) = Some 10 ->
  prev_kind st1 = Newline -> encl st1 = 0 ->
  Z.of_nat j = ProofsNext.zsum (indent_stack st1) -> Z.of_nat j <= 100 -> (j = 0%nat -> indent_stack st1 = []) ->
  forall n1 n2 r1 r2, rest xs xc n1 st1 = Ok r1 -> rest xs xc n2 st2 = Ok r2 ->
  erase r2 = ETok Newline [10] :: erase r1.
Proof. exact comment_line_invariant_lemma. Qed.

Example comment_line_example :
  let p := [10;121;32;32;32;32;10;61;32;120;32;102] in       (* f x = NL four blanks y NL *)
  let st1 := st_at p [32;32;32;32;122;10] [4] 0 Newline in
  let st2 := st_at p (repeat 32 4 ++ 35 :: [32;99] ++ 10 :: [32;32;32;32;122;10]) [4] 0 Newline in
  Lt st1 /\ Lt st2 /\ same_ctl st1 st2 /\ Z.of_nat 4 = ProofsNext.zsum (indent_stack st1) /\ comment_text [32;99].
Proof.
  cbv zeta. split; [apply Lt_st_at|]. split; [apply Lt_st_at|]. split; [repeat split|]. split; [reflexivity|].
  split; [repeat constructor; discriminate|discriminate].
Qed.

(** A CONTINUATION: a backslash and a line break between two tokens that are separated by blanks; the next token keeps
    at least one blank in front of it (otherwise: [continuation_col0_refuted], [trailing_space_opfix_refuted]). *)
Theorem continuation_invariant_partial :
  forall (xs xc : Z -> bool) (st1 st2 : lstate) (j j1 j2 : nat) (r : list Z),
  Lt st1 -> Lt st2 -> same_ctl st1 st2 ->
  post st1 = repeat 32 (S j) ++ r -> post st2 = repeat 32 j1 ++ 92 :: 10 :: repeat 32 (S j2) ++ r ->
  hd_error r <> Some 32 -> r <> [] ->
  prev_kind st1 <> Newline -> prev_kind st1 <> Dedent -> prev_kind st1 <> BOF -> prev_kind st1 <> EOF ->
  toplevel_cond st2 = false ->
  forall n1 n2 r1 r2, rest xs xc n1 st1 = Ok r1 -> rest xs xc n2 st2 = Ok r2 -> erase r1 = erase r2.
Proof. exact continuation_invariant_lemma. Qed.

Example continuation_example :
  let p := [49;32;61;32;120] in                                 (* x = 1 *)
  let st1 := st_at p (repeat 32 1 ++ [43;32;50;10]) [] 0 NatLit in
  let st2 := st_at p (repeat 32 1 ++ 92 :: 10 :: repeat 32 4 ++ [43;32;50;10]) [] 0 NatLit in
  Lt st1 /\ Lt st2 /\ same_ctl st1 st2 /\ toplevel_cond st2 = false /\ hd_error [43;32;50;10] <> Some 32.
Proof.
  cbv zeta. split; [apply Lt_st_at|]. split; [apply Lt_st_at|]. split; [repeat split|]. split; [reflexivity|discriminate].
Qed.

(* ------------------------------------------------------------------ on whole source texts *)
Definition ascii_letter (c : Z) : bool := ((97 <=? c) && (c <=? 122)) || ((65 <=? c) && (c <=? 90)).
Definition ascii_cont (c : Z) : bool := ascii_letter c || ((48 <=? c) && (c <=? 57)) || (c =? 95).
Definition elex (src : list Z) : option (list eitem) :=
  match lex ascii_letter ascii_cont true true src with Ok items => Some (erase items) | _ => None end.

(** the rewrites on concrete texts: `x = 1 NL y = 2 NL` with a trailing comment / trailing blanks (same stream), with a
    blank line (one more Newline); a block with a comment line at its indentation (one more Newline); a continuation *)
Example rewrites_on_texts :
  let a := [120;32;61;32;49;10;121;32;61;32;50;10] in
  elex [120;32;61;32;49;32;35;32;99;10;121;32;61;32;50;10] = elex a /\
  elex [120;32;61;32;49;32;32;32;10;121;32;61;32;50;10] = elex a /\
  (exists l1 l2, elex a = Some (l1 ++ ETok Newline [10] :: l2) /\
                 elex [120;32;61;32;49;10;10;121;32;61;32;50;10] = Some (l1 ++ ETok Newline [10] :: ETok Newline [10] :: l2)) /\
  (exists l1 l2, elex [102;32;120;32;61;10;32;32;32;32;121;10;32;32;32;32;122;10] = Some (l1 ++ l2) /\
                 elex [102;32;120;32;61;10;32;32;32;32;121;10;32;32;32;32;35;32;99;10;32;32;32;32;122;10]
                 = Some (l1 ++ ETok Newline [10] :: l2) /\ l1 <> [] /\ l2 <> []) /\
  elex [120;32;61;32;49;32;92;10;32;32;32;32;43;32;50;10] = elex [120;32;61;32;49;32;43;32;50;10].
Proof.
  cbv zeta. split; [vm_compute; reflexivity|]. split; [vm_compute; reflexivity|]. split.
  - exists [ETok Symbol [120]; ETok Assign [61]; ETok NatLit [49]],
           [ETok Symbol [121]; ETok Assign [61]; ETok NatLit [50]; ETok Newline [10]; ETok EOF [0]].
    split; vm_compute; reflexivity.
  - split; [|vm_compute; reflexivity].
    exists [ETok Symbol [102]; ETok Symbol [120]; ETok Assign [61]; ETok Newline [10]; ETok Indent [32;32;32;32];
            ETok Symbol [121]; ETok Newline [10]],
           [ETok Symbol [122]; ETok Newline [10]; ETok Dedent []; ETok EOF [0]].
    split; [vm_compute; reflexivity|]. split; [vm_compute; reflexivity|]. split; discriminate.
Qed.

(* ------------------------------------------------------------------ the known findings, on the lexer model *)
(** a comment line in column 0 inside an indented block closes the block (a Dedent is yielded) *)
Theorem comment_line_indent_refuted :
  exists src src', (exists a b, src = a ++ b /\ src' = a ++ [35;32;99;10] ++ b) /\
                   elex src <> None /\ elex src' <> None /\
                   (forall l1 l2, elex src = Some (l1 ++ l2) -> elex src' <> Some (l1 ++ ETok Newline [10] :: l2)).
Proof.
  exists [102;32;120;32;61;10;32;32;32;32;121;10;32;32;32;32;122;10],
         [102;32;120;32;61;10;32;32;32;32;121;10;35;32;99;10;32;32;32;32;122;10].
  split; [exists [102;32;120;32;61;10;32;32;32;32;121;10], [32;32;32;32;122;10]; split; reflexivity|].
  split; [vm_compute; discriminate|]. split; [vm_compute; discriminate|].
  intros l1 l2 H1 H2.
  apply (f_equal (option_map (@length eitem))) in H1, H2. cbn [option_map] in H1, H2.
  rewrite app_length in H1, H2. cbn [length] in H2.
  assert (L1 : option_map (@length eitem) (elex [102;32;120;32;61;10;32;32;32;32;121;10;32;32;32;32;122;10]) = Some 11%nat)
    by (vm_compute; reflexivity).
  assert (L2 : option_map (@length eitem) (elex [102;32;120;32;61;10;32;32;32;32;121;10;35;32;99;10;32;32;32;32;122;10]) = Some 14%nat)
    by (vm_compute; reflexivity).
  rewrite H1 in L1. rewrite H2 in L2. injection L1 as L1. injection L2 as L2. lia.
Qed.

(** `(x +` line break `1)` and the same with a blank after the `+`: prefix plus in one, infix plus in the other *)
Theorem trailing_space_opfix_refuted :
  exists src src', (exists a b, src = a ++ b /\ src' = a ++ [32] ++ b /\ hd_error b = Some 10) /\
                   elex src <> None /\ elex src' <> None /\ elex src <> elex src'.
Proof.
  exists [40;120;32;43;10;49;41], [40;120;32;43;32;10;49;41].
  split; [exists [40;120;32;43], [10;49;41]; repeat split|].
  split; [vm_compute; discriminate|]. split; [vm_compute; discriminate|]. vm_compute. discriminate.
Qed.

(** a block comment followed by a blank is a lexical error *)
Theorem block_comment_blank_refuted :
  exists src src', src' = [35;91;99;93;35;32] ++ src /\
                   (exists items, lex ascii_letter ascii_cont true true src = Ok items /\ errors_of items = []) /\
                   (exists items, lex ascii_letter ascii_cont true true src' = Ok items /\ errors_of items <> []).
Proof.
  exists [120;32;61;32;49;10]. eexists. split; [reflexivity|].
  split; eexists; (split; [vm_compute; reflexivity|]); [reflexivity|discriminate].
Qed.

(** a continuation line that starts in column 0 inside an indented block closes the block *)
Theorem continuation_col0_refuted :
  exists src src', (exists a b, src = a ++ [32] ++ b /\ src' = a ++ [32;92;10] ++ b) /\
                   elex src <> None /\ elex src' <> None /\ elex src <> elex src'.
Proof.
  exists [102;32;120;32;61;10;32;32;32;32;121;32;43;32;49;10],
         [102;32;120;32;61;10;32;32;32;32;121;32;92;10;43;32;49;10].
  split; [exists [102;32;120;32;61;10;32;32;32;32;121], [43;32;49;10]; split; reflexivity|].
  split; [vm_compute; discriminate|]. split; [vm_compute; discriminate|]. vm_compute. discriminate.
Qed.

(* ------------------------------------------------------------------ parser level *)
Import ErgV.ExprParse.Model ErgV.ExprParse.Spec ErgV.Layout.Paren.
Local Open Scope nat_scope.

(** Every function of the expression grammar reads a prefix of its input and is insensitive to what follows it,
    as long as the next token stays the same or becomes one on which the grammar stops anyway. *)
Theorem parse_prefix_stable : forall f,
  (forall m, stable (c_expr f m)) /\ (forall m l, stable (c_loop f m l)) /\ stable (c_operand f) /\
  (forall obj, stable (c_postfix f obj)) /\ stable (c_args f) /\ (forall acc, stable (c_args_tl f acc)).
Proof. exact c_stable. Qed.

(** REDUNDANT PARENTHESES around an operand: wherever the grammar reads an operand [o] (tree [e], continuing with
    [r], which -- as after every complete operand -- does not begin with a member access), it reads `(` [o] `)` as the
    same tree with the same continuation, whether or not the parenthesis touches the previous token ([b]). *)
Theorem paren_invariant : forall (f : nat) (ts : list tok) (e : expr) (r : list tok),
  c_operand f ts = Some (e, r) -> (match r with TDot _ :: _ => False | _ => True end) ->
  exists o, ts = o ++ r /\ forall b, c_operand (S (S f)) (TLP b :: o ++ TRP :: r) = Some (e, r).
Proof. exact paren_invariant_lemma. Qed.

(** a * (b.m(c)) + d   against   a * b.m(c) + d : the reference grammar and the operator-stack parser of the
    implementation (parse_is_climb) give the same tree *)
Example paren_example :
  let plain := [TSym 1; TBin Star; TSym 2; TDot true; TSym 20; TLP true; TSym 3; TRP; TBin Plus; TSym 4] in
  let wrapped := [TSym 1; TBin Star; TLP false; TSym 2; TDot true; TSym 20; TLP true; TSym 3; TRP; TRP; TBin Plus; TSym 4] in
  climb wrapped = climb plain /\ parse wrapped = parse plain /\
  climb plain = Some (EBin Plus (EBin Star (EId 1) (ECall (EId 2) (Some 20%Z) [EId 3])) (EId 4)) /\
  c_operand 10 (skipn 2 plain) = Some (ECall (EId 2) (Some 20%Z) [EId 3], [TBin Plus; TSym 4]).
Proof. vm_compute. repeat split; reflexivity. Qed.

(** the known finding at the parser level: `f x + 1` is the call f(x + 1), `f (x) + 1` is f(x) + 1 *)
Theorem paren_juxtaposed_refuted :
  exists t1 t2,
    parse_chunk false [TSym 9; TSym 1; TBin Plus; TLit NatLit [49%Z]] = Ok t1 /\
    parse_chunk false [TSym 9; TLP false; TSym 1; TRP; TBin Plus; TLit NatLit [49%Z]] = Ok t2 /\ t1 <> t2.
Proof. eexists. eexists. split; [vm_compute; reflexivity|]. split; [vm_compute; reflexivity|]. discriminate. Qed.
