(** C10, parser level — redundant parentheses around an operand, on the expression-parser model of C11
    (ExprParse/Spec.v: the precedence-climbing reference [c_expr] / [c_operand] / ..., which
    [ExprParse.Props_C11.parse_is_climb] proves equal to the operator-stack parser of the implementation). *)
From Coq Require Import ZArith NArith List Bool Arith Lia.
Require Import ErgV.ExprParse.Model ErgV.ExprParse.Spec ErgV.ExprParse.Proofs .
Import ListNotations.
Local Open Scope nat_scope.

(** what may stand after a complete piece of an expression without changing how the piece is read: the same next
    token, or a token on which every loop of the parser stops (anything but an operator, a dot or an opening paren) *)
Definition inert (l : list tok) : Prop :=
  match l with
  | [] => True
  | TBin _ :: _ | TDot _ :: _ | TLP _ :: _ => False
  | _ => True
  end.
Definition compat (rem rem2 : list tok) : Prop := hd_error rem2 = hd_error rem \/ inert rem2.

Lemma compat_app o rem rem2 : compat rem rem2 -> compat (o ++ rem) (o ++ rem2).
Proof. intros H. destruct o as [|t o]; [exact H|]. left. reflexivity. Qed.

Lemma compat_refl r : compat r r.
Proof. left. reflexivity. Qed.

(** every parsing function reads a prefix [o] of its input and is stable under replacing what follows *)
Definition stable {A} (g : list tok -> option (A * list tok)) : Prop :=
  forall ts v rem, g ts = Some (v, rem) ->
    exists o, ts = o ++ rem /\ forall rem2, compat rem rem2 -> g (o ++ rem2) = Some (v, rem2).

Lemma c_stable : forall f,
  (forall m, stable (c_expr f m)) /\
  (forall m l, stable (c_loop f m l)) /\
  stable (c_operand f) /\
  (forall obj, stable (c_postfix f obj)) /\
  stable (c_args f) /\
  (forall acc, stable (c_args_tl f acc)).
Proof.
  induction f as [|f IH]; [repeat split; intros; intros ts v rem H; discriminate|].
  destruct IH as (IHe & IHl & IHo & IHp & IHa & IHt).
  repeat split.
  - (* c_expr *)
    intros m ts v rem H. cbn [c_expr] in H.
    destruct (c_operand f ts) as [[l r1]|] eqn:E; [|discriminate].
    destruct (IHo ts l r1 E) as (o1 & -> & S1). destruct (IHl m l r1 v rem H) as (o2 & -> & S2).
    exists (o1 ++ o2). split; [rewrite app_assoc; reflexivity|]. intros rem2 C.
    cbn [c_expr]. rewrite <- app_assoc, (S1 (o2 ++ rem2)) by (apply compat_app; exact C). apply S2. exact C.
  - (* c_loop *)
    intros m l ts v rem H. cbn [c_loop] in H.
    assert (STOP : forall x, (match x with TBin o :: _ => lvl o < m | _ => True end) ->
                   c_loop (S f) m l x = Some (l, x)).
    { intros x Hx. cbn [c_loop]. destruct x as [|[] x']; try reflexivity.
      apply Nat.leb_gt in Hx. rewrite Hx. reflexivity. }
    assert (RET : Some (l, ts) = Some (v, rem) ->
                  (match ts with TBin o :: _ => lvl o < m | _ => True end) ->
                  exists o, ts = o ++ rem /\ forall rem2, compat rem rem2 -> c_loop (S f) m l (o ++ rem2) = Some (v, rem2)).
    { intros X Hts. injection X as <- <-. exists []. split; [reflexivity|]. intros rem2 [C|C]; cbn [app]; apply STOP.
      - destruct rem2 as [|t2 r2], ts as [|t1 r1]; cbn in C; try discriminate; [exact I|]. injection C as ->. exact Hts.
      - destruct rem2 as [|[] r2]; cbn in C; try contradiction; exact I. }
    destruct ts as [|t r0]; [apply RET; [exact H|exact I]|].
    destruct t; try (apply RET; [exact H|exact I]).
    destruct (m <=? lvl o) eqn:EL; [|apply RET; [exact H|apply Nat.leb_gt; exact EL]].
    destruct (c_expr f (S (lvl o)) r0) as [[rhs r']|] eqn:E; [|discriminate].
    destruct (IHe _ r0 rhs r' E) as (o1 & -> & S1). destruct (IHl m (EBin o l rhs) r' v rem H) as (o2 & -> & S2).
    exists (TBin o :: o1 ++ o2). split; [cbn [app]; rewrite app_assoc; reflexivity|]. intros rem2 C.
    cbn [app c_loop]. rewrite EL, <- app_assoc, (S1 (o2 ++ rem2)) by (apply compat_app; exact C). apply S2. exact C.
  - (* c_operand *)
    intros ts v rem H. cbn [c_operand] in H. destruct ts as [|t r0]; [discriminate|].
    destruct t; try discriminate.
    + destruct (IHp _ r0 v rem H) as (o1 & -> & S1). exists (TSym n :: o1). split; [reflexivity|].
      intros rem2 C. cbn [app c_operand]. apply S1. exact C.
    + destruct (IHp _ r0 v rem H) as (o1 & -> & S1). exists (TLit k s :: o1). split; [reflexivity|].
      intros rem2 C. cbn [app c_operand]. apply S1. exact C.
    + destruct (c_expr f (S pre_lvl) r0) as [[e1 r1]|] eqn:E; [|discriminate]. injection H as <- <-.
      destruct (IHe _ r0 e1 r1 E) as (o1 & -> & S1). exists (TPre p :: o1). split; [reflexivity|].
      intros rem2 C. cbn [app c_operand]. rewrite (S1 rem2 C). reflexivity.
    + destruct (c_expr f 0 r0) as [[e1 r1]|] eqn:E; [|discriminate].
      destruct r1 as [|t1 r1]; [discriminate|]. destruct t1; try discriminate.
      destruct (IHe _ r0 e1 _ E) as (o1 & -> & S1). destruct (IHp _ r1 v rem H) as (o2 & -> & S2).
      exists (TLP adj :: o1 ++ TRP :: o2). split; [cbn [app]; rewrite <- app_assoc; reflexivity|].
      intros rem2 C. cbn [app c_operand]. rewrite <- app_assoc. cbn [app].
      rewrite (S1 (TRP :: o2 ++ rem2)) by (left; reflexivity). apply S2. exact C.
  - (* c_postfix *)
    intros obj ts v rem H. cbn [c_postfix] in H.
    assert (RET : forall x, (match x with TDot _ :: _ => False | _ => True end) -> c_postfix (S f) obj x = Some (obj, x)).
    { intros x Hx. cbn [c_postfix]. destruct x as [|[] x']; try reflexivity. contradiction. }
    assert (STOP : Some (obj, ts) = Some (v, rem) -> (match ts with TDot _ :: _ => False | _ => True end) ->
                   exists o, ts = o ++ rem /\ forall rem2, compat rem rem2 -> c_postfix (S f) obj (o ++ rem2) = Some (v, rem2)).
    { intros X Hts. injection X as <- <-. exists []. split; [reflexivity|]. intros rem2 [C|C]; cbn [app]; apply RET.
      - destruct rem2 as [|t2 r2], ts as [|t1 r1]; cbn in C; try discriminate; [exact I|]. injection C as ->. exact Hts.
      - destruct rem2 as [|[] r2]; cbn in C; try contradiction; exact I. }
    destruct ts as [|t r0]; [apply STOP; [exact H|exact I]|].
    destruct t; try (apply STOP; [exact H|exact I]).
    destruct adj; [|discriminate].
    destruct r0 as [|t2 r1]; [discriminate|]. destruct t2; try discriminate.
    assert (ATTR : forall r1', c_postfix f (EAttr obj n) r1' = Some (v, rem) ->
                   (match r1' with TLP true :: _ => False | _ => True end) ->
                   exists o, TDot true :: TSym n :: r1' = o ++ rem /\
                             forall rem2, compat rem rem2 -> c_postfix (S f) obj (o ++ rem2) = Some (v, rem2)).
    { intros r1' H' NLP. destruct (IHp _ r1' v rem H') as (o1 & -> & S1).
      exists (TDot true :: TSym n :: o1). split; [reflexivity|]. intros rem2 C. cbn [app c_postfix].
      assert (X : c_postfix f (EAttr obj n) (o1 ++ rem2) = Some (v, rem2)) by (apply S1; exact C).
      destruct (o1 ++ rem2) as [|t3 r3] eqn:E3; [exact X|].
      destruct t3; try exact X. destruct adj; [|exact X].
      (* the next token is an adjacent `(`: it must already have been one before the replacement *)
      exfalso. destruct o1 as [|t o1'].
      - cbn [app] in E3, NLP. destruct C as [C|C].
        + rewrite E3 in C. cbn in C. destruct rem as [|t4 r4]; [discriminate|]. injection C as <-. exact NLP.
        + rewrite E3 in C. exact C.
      - cbn [app] in E3, NLP. injection E3 as -> _. exact NLP. }
    destruct r1 as [|t3 r2]; [apply (ATTR []); [exact H|exact I]|].
    destruct t3; try (apply ATTR; [exact H|exact I]).
    destruct adj; [|apply ATTR; [exact H|exact I]].
    destruct (c_args f r2) as [[args r3]|] eqn:E; [|discriminate].
    destruct (IHa r2 args r3 E) as (o1 & -> & S1). destruct (IHp _ r3 v rem H) as (o2 & -> & S2).
    exists (TDot true :: TSym n :: TLP true :: o1 ++ o2). split; [cbn [app]; rewrite app_assoc; reflexivity|].
    intros rem2 C. cbn [app c_postfix]. rewrite <- app_assoc, (S1 (o2 ++ rem2)) by (apply compat_app; exact C).
    apply S2. exact C.
  - (* c_args *)
    intros ts v rem H. cbn [c_args] in H.
    assert (ARG : forall x, (match x with TRP :: _ => False | _ => True end) ->
                  c_args (S f) x = match c_expr f 0 x with Some (a, r) => c_args_tl f [a] r | None => None end).
    { intros x Hx. cbn [c_args]. destruct x as [|[] x']; try reflexivity. contradiction. }
    assert (GEN : (match ts with TRP :: _ => False | _ => True end) ->
                  match c_expr f 0 ts with Some (a, r) => c_args_tl f [a] r | None => None end = Some (v, rem) ->
                  exists o, ts = o ++ rem /\ forall rem2, compat rem rem2 -> c_args (S f) (o ++ rem2) = Some (v, rem2)).
    { intros NRP H'. destruct (c_expr f 0 ts) as [[a r1]|] eqn:E; [|discriminate].
      destruct (IHe _ ts a r1 E) as (o1 & -> & S1). destruct (IHt _ r1 v rem H') as (o2 & -> & S2).
      exists (o1 ++ o2). split; [rewrite app_assoc; reflexivity|]. intros rem2 C.
      rewrite ARG.
      - rewrite <- app_assoc, (S1 (o2 ++ rem2)) by (apply compat_app; exact C). apply S2. exact C.
      - pose proof (c_expr_head _ _ _ _ _ E) as HH. destruct o1 as [|t o1'].
        + cbn [app] in *. destruct o2 as [|t o2'].
          * cbn [app] in *. pose proof (c_args_tl_follow _ _ _ _ H') as FO. destruct rem as [|[] r]; cbn in HH, FO; try contradiction; discriminate.
          * cbn [app] in *. destruct t; try exact I. contradiction.
        + cbn [app] in *. destruct t; try exact I. contradiction. }
    destruct ts as [|t r0]; [apply GEN; [exact I|exact H]|].
    destruct t; try (apply GEN; [exact I|exact H]).
    injection H as <- <-. exists [TRP]. split; [reflexivity|]. intros rem2 _. reflexivity.
  - (* c_args_tl *)
    intros acc ts v rem H. cbn [c_args_tl] in H. destruct ts as [|t r0]; [discriminate|].
    destruct t; try discriminate.
    + injection H as <- <-. exists [TRP]. split; [reflexivity|]. intros rem2 _. reflexivity.
    + destruct (c_expr f 0 r0) as [[a r1]|] eqn:E; [|discriminate].
      destruct (IHe _ r0 a r1 E) as (o1 & -> & S1). destruct (IHt _ r1 v rem H) as (o2 & -> & S2).
      exists (TComma :: o1 ++ o2). split; [cbn [app]; rewrite app_assoc; reflexivity|]. intros rem2 C.
      cbn [app c_args_tl]. rewrite <- app_assoc, (S1 (o2 ++ rem2)) by (apply compat_app; exact C). apply S2. exact C.
Qed.

(** wrapping an operand in parentheses: the same tree, the same continuation *)
Lemma paren_invariant_lemma f ts e r :
  c_operand f ts = Some (e, r) -> (match r with TDot _ :: _ => False | _ => True end) ->
  exists o, ts = o ++ r /\ forall b, c_operand (S (S f)) (TLP b :: o ++ TRP :: r) = Some (e, r).
Proof.
  intros H ND. destruct (c_stable f) as (_ & _ & SO & _).
  destruct (SO ts e r H) as (o & -> & S1). exists o. split; [reflexivity|]. intros b.
  assert (F1 : 1 <= f) by (destruct f; [discriminate|lia]).
  cbn [c_operand c_expr].
  rewrite (S1 (TRP :: r)) by (right; exact I).
  destruct f as [|f']; [lia|]. cbn [c_loop]. apply c_postfix_nodot; [lia|exact ND].
Qed.
