(** C04 — the evaluator as it was BEFORE the repairs ([*_nofix], transcribed arm by arm from /repo at e96cdbf1),
    and the witnesses showing that it violated the property.  Each [*_refuted] / [*_panics] lemma is a concrete
    input evaluated by [vm_compute]; the same inputs are in corpus/C04/.  Before the repairs were committed the
    [_nofix] model was run against that tree (check with C04_NOFIX=1: 2981 generated cases under a debug and a
    release harness build, 0 differences between model and implementation, 724 verdicts "violates" from the judge).
    Repairs in /repo: 8fda608f (+ typo), 78dd990a (exact integer + - * ** and unary -), f4bd88bc (zero divisors),
    8a9db201 (floor // %), 98d4a695 (Int/Nat comparison), efce320d (Nat/Float comparison), a8bdbefe (float // %),
    b15c7007 (~Bool), 6ec6dcd4 (int / int double rounding).  Model.v is the model of the repaired code;
    [repaired_on_witnesses] at the end shows its answers on the same inputs.
    Kept so that the regression is documented; nothing in Props_C04.v depends on this file. *)
From Coq Require Import ZArith List Bool.
From Coq Require Import Floats.SpecFloat.
From ErgV Require Import ConstEval.Model ConstEval.Spec.
Import ListNotations.
Open Scope Z_scope.

(** `impl From<i32> for ValueObj` *)
Definition from_i32 (i : Z) : value := if 0 <=? i then VNat i else VInt i.
Definition as_i32 (v : Z) : Z := cast I32 v.

Definition int_nofix (r : res Z) : res (option value) := bind r (fun v => Ok (Some (VInt v))).
Definition nat_nofix (r : res Z) : res (option value) := bind r (fun v => Ok (Some (VNat v))).
Definition from_nofix (r : res Z) : res (option value) := bind r (fun v => Ok (Some (from_i32 v))).

Definition try_add_nofix (debug : bool) (a b : value) : res (option value) :=
  match a, b with
  | VInt l, VInt r => int_nofix (arith debug I32 (l + r))
  | VNat l, VNat r => nat_nofix (arith debug U64 (l + r))
  | VFloat l, VFloat r => some_float (F_add l r)
  | VInt l, VNat r => from_nofix (arith debug I32 (l + as_i32 r))
  | VNat l, VInt r => int_nofix (arith debug I32 (as_i32 l + r))
  | VFloat l, VNat r => some_float (F_sub l (Z2F r))         (* `*l - r as f64` *)
  | VInt l, VFloat r => some_float (F_sub (Z2F l) r)
  | VNat l, VFloat r => some_float (F_sub (Z2F l) r)
  | VFloat l, VInt r => some_float (F_sub l (Z2F r))
  | _, _ => none
  end.

Definition try_sub_nofix (debug : bool) (a b : value) : res (option value) :=
  match a, b with
  | VInt l, VInt r => int_nofix (arith debug I32 (l - r))
  | VNat l, VNat r => int_nofix (arith debug I32 (as_i32 l - as_i32 r))
  | VFloat l, VFloat r => some_float (F_sub l r)
  | VInt l, VNat r => from_nofix (arith debug I32 (l - as_i32 r))
  | VNat l, VInt r => from_nofix (arith debug I32 (as_i32 l - r))
  | VFloat l, VNat r => some_float (F_sub l (Z2F r))
  | VNat l, VFloat r => some_float (F_sub (Z2F l) r)
  | VFloat l, VInt r => some_float (F_sub l (Z2F r))
  | VInt l, VFloat r => some_float (F_sub (Z2F l) r)
  | _, _ => none
  end.

Definition try_mul_nofix (debug : bool) (a b : value) : res (option value) :=
  match a, b with
  | VInt l, VInt r => from_nofix (arith debug I32 (l * r))
  | VNat l, VNat r => nat_nofix (arith debug U64 (l * r))
  | VFloat l, VFloat r => some_float (F_mul l r)
  | VInt l, VNat r => int_nofix (arith debug I32 (l * as_i32 r))
  | VNat l, VInt r => int_nofix (arith debug I32 (as_i32 l * r))
  | VFloat l, VNat r => some_float (F_mul l (Z2F r))
  | VNat l, VFloat r => some_float (F_mul (Z2F l) r)
  | VFloat l, VInt r => some_float (F_mul l (Z2F r))
  | VInt l, VFloat r => some_float (F_mul (Z2F l) r)
  | _, _ => none
  end.

Definition try_div_nofix (debug : bool) (a b : value) : res (option value) :=
  match a, b with
  | VInt l, VInt r | VNat l, VNat r | VInt l, VNat r | VNat l, VInt r => some_float (F_div (Z2F l) (Z2F r))
  | VFloat l, VFloat r => some_float (F_div l r)
  | VFloat l, VNat r | VFloat l, VInt r => some_float (F_div l (Z2F r))
  | VNat l, VFloat r | VInt l, VFloat r => some_float (F_div (Z2F l) r)
  | _, _ => none
  end.

(** Rust `/` and `%` on an integer type: zero divisor and MIN / -1 panic in every build *)
Definition idiv (t : ity) (l r : Z) : res Z :=
  if r =? 0 then Panic else if (l =? ity_lo t) && (r =? -1) then Panic else Ok (Z.quot l r).
Definition irem (t : ity) (l r : Z) : res Z :=
  if r =? 0 then Panic else if (l =? ity_lo t) && (r =? -1) then Panic else Ok (Z.rem l r).

Definition try_floordiv_nofix (debug : bool) (a b : value) : res (option value) :=
  match a, b with
  | VInt l, VInt r => int_nofix (idiv I32 l r)
  | VNat l, VNat r => nat_nofix (idiv U64 l r)
  | VFloat l, VFloat r => some_float (F_floor (F_div l r))
  | VInt l, VNat r => int_nofix (idiv I32 l (as_i32 r))
  | VNat l, VInt r => int_nofix (idiv I32 (as_i32 l) r)
  | VFloat l, VNat r | VFloat l, VInt r => some_float (F_floor (F_div l (Z2F r)))
  | VNat l, VFloat r | VInt l, VFloat r => some_float (F_floor (F_div (Z2F l) r))
  | _, _ => none
  end.

Definition try_mod_nofix (debug : bool) (a b : value) : res (option value) :=
  match a, b with
  | VInt l, VInt r => int_nofix (irem I32 l r)
  | VNat l, VNat r => nat_nofix (irem U64 l r)
  | VFloat l, VFloat r => some_float (F_fmod l r)
  | VInt l, VNat r => int_nofix (irem I32 l (as_i32 r))
  | VNat l, VInt r => int_nofix (irem I32 (as_i32 l) r)
  | VFloat l, VNat r | VFloat l, VInt r => some_float (F_fmod l (Z2F r))
  | VNat l, VFloat r | VInt l, VFloat r => some_float (F_fmod (Z2F l) r)
  | _, _ => none
  end.

(** `l.pow(r.try_into().ok()?)`: overflow of a product panics (debug) or wraps (release) *)
Definition pow_nofix (debug : bool) (t : ity) (l r : Z) (k : Z -> value) : res (option value) :=
  match try_from U32 r with
  | Some e => bind (arith debug t (l ^ e)) (fun v => Ok (Some (k v)))
  | None => none
  end.
Definition try_pow_nofix (debug : bool) (a b : value) : res (option value) :=
  match a, b with
  | VInt l, VInt r => pow_nofix debug I32 l r VInt
  | VNat l, VNat r => pow_nofix debug U64 l r VNat
  | VInt l, VNat r => pow_nofix debug I32 l r VInt
  | VNat l, VInt r => pow_nofix debug U64 l r VNat
  | VFloat _, VFloat _ | VFloat _, VNat _ | VNat _, VFloat _ | VFloat _, VInt _ | VInt _, VFloat _ =>
    Ok (Some VFloatUnk)
  | _, _ => none
  end.

Definition try_cmp_nofix (on_cmp : comparison -> bool) (on_nan : bool) (bool_ok : bool) (a b : value)
  : res (option value) :=
  match a, b with
  | VInt l, VInt r | VNat l, VNat r => some_bool (on_cmp (Z.compare l r))
  | VFloat l, VFloat r => some_bool (cmp_test on_cmp on_nan (F_cmp l r))
  | VInt l, VNat r => some_bool (on_cmp (Z.compare l (as_i32 r)))          (* `l > r as i32` *)
  | VNat l, VInt r => some_bool (on_cmp (Z.compare (as_i32 l) r))
  | VFloat l, VNat r | VFloat l, VInt r => some_bool (cmp_test on_cmp on_nan (F_cmp l (Z2F r)))
  | VNat l, VFloat r | VInt l, VFloat r => some_bool (cmp_test on_cmp on_nan (F_cmp (Z2F l) r))
  | VBool l, VBool r => if bool_ok then some_bool (on_cmp (Z.compare (Z.b2z l) (Z.b2z r))) else none
  | _, _ => none
  end.

Definition eval_bin_nofix (debug : bool) (op : binop) (a b : value) : res (option value) :=
  match op with
  | OAdd => try_add_nofix debug a b
  | OSub => try_sub_nofix debug a b
  | OMul => try_mul_nofix debug a b
  | ODiv => try_div_nofix debug a b
  | OFloorDiv => try_floordiv_nofix debug a b
  | OPow => try_pow_nofix debug a b
  | OMod => try_mod_nofix debug a b
  | OGt => try_cmp_nofix is_gt false false a b
  | OGe => try_cmp_nofix is_ge false false a b
  | OLt => try_cmp_nofix is_lt false false a b
  | OLe => try_cmp_nofix is_le false false a b
  | OEq => try_cmp_nofix is_eq false true a b
  | ONe => try_cmp_nofix is_ne true true a b
  | OOr | OBitOr => eval_or a b
  | OAnd | OBitAnd => eval_and a b
  | OBitXor => eval_xor a b
  | OShl | OShr => none
  end.
Definition try_binary_nofix (debug : bool) (op : binop) (a b : value) : res (option value) :=
  match op with
  | OAdd | OSub | OMul | ODiv | OLt | OGt | OLe | OGe | OEq | ONe => eval_bin_nofix debug op a b
  | _ => none
  end.
Definition try_direct_nofix (debug : bool) (op : binop) (a b : value) : res (option value) :=
  match op with
  | OOr => try_or a b
  | OAnd | OBitAnd | OBitOr | OBitXor | OShl | OShr => none
  | _ => eval_bin_nofix debug op a b
  end.

Definition eval_unary_nofix (debug : bool) (op : unop) (a : value) : res (option value) :=
  match op with
  | UPos => match a with VNat _ | VInt _ | VFloat _ => Ok (Some a) | _ => none end
  | UNeg => match a with
           | VNat n => int_nofix (arith debug I32 (- as_i32 n))      (* Int(-(n as i32)) *)
           | VInt i => int_nofix (arith debug I32 (- i))
           | VFloat f => some_float (F_neg f)
           | _ => none
           end
  | UInvert => match a with VBool b => some_bool (negb b) | _ => none end
  | UNot => match a with VBool b => some_bool (negb b) | _ => none end
  end.

(** * witnesses *)
Definition disagrees (r : res (option value)) (p : pyres) : Prop :=
  exists v, r = Ok (Some v) /\ (forall v', p = PyOk v' -> ~ same_value v v').
Definition f (num den : Z) : spec_float := F_div (Z2F num) (Z2F den).   (* the double nearest to num/den *)

Ltac refute v := exists v; split; [vm_compute; reflexivity | intros v' E; vm_compute in E; inversion E; subst; vm_compute; try discriminate; try congruence; auto].
Ltac refute_raise v := exists v; split; [vm_compute; reflexivity | intros v' E; vm_compute in E; discriminate E].

(** 1. `N = 1.5 + 2` is folded to -0.5 (try_add used `-` for Float/Int mixes) *)
Lemma add_float_nat_refuted : forall debug,
  disagrees (eval_bin_nofix debug OAdd (VFloat (f 3 2)) (VNat 2)) (py_eval OAdd (PFloat (f 3 2)) (PInt 2)).
Proof. intros []; refute (VFloat (f (-1) 2)). Qed.
Lemma add_int_float_refuted : forall debug,
  disagrees (eval_bin_nofix debug OAdd (VInt (-3)) (VFloat (f 1 2))) (py_eval OAdd (PInt (-3)) (PFloat (f 1 2))).
Proof. intros []; refute (VFloat (f (-7) 2)). Qed.

(** 2. `-7 // 2` is folded to -3 and `-7 % 2` to -1 (truncation instead of floor) *)
Lemma floordiv_trunc_refuted : forall debug,
  disagrees (eval_bin_nofix debug OFloorDiv (VInt (-7)) (VNat 2)) (py_eval OFloorDiv (PInt (-7)) (PInt 2)).
Proof. intros []; refute (VInt (-3)). Qed.
Lemma mod_trunc_refuted : forall debug,
  disagrees (eval_bin_nofix debug OMod (VInt (-7)) (VNat 2)) (py_eval OMod (PInt (-7)) (PInt 2)).
Proof. intros []; refute (VInt (-1)). Qed.

(** 3. i32 / u64 overflow: panic in a debug build, silent wrap in a release build *)
Lemma add_overflow_panics : eval_bin_nofix true OAdd (VInt (-2147483648)) (VInt (-1)) = Panic.
Proof. reflexivity. Qed.
Lemma add_overflow_wraps_refuted :
  disagrees (eval_bin_nofix false OAdd (VInt (-2147483648)) (VInt (-1))) (py_eval OAdd (PInt (-2147483648)) (PInt (-1))).
Proof. refute (VInt 2147483647). Qed.
Lemma mul_overflow_panics : eval_bin_nofix true OMul (VNat 4294967296) (VNat 4294967296) = Panic.
Proof. reflexivity. Qed.
Lemma pow_overflow_panics : eval_bin_nofix true OPow (VNat 2) (VNat 64) = Panic.
Proof. reflexivity. Qed.
Lemma neg_overflow_panics : eval_unary_nofix true UNeg (VNat 2147483648) = Panic.
Proof. reflexivity. Qed.

(** 4. zero divisors: `//` and `%` panic in every build; `/` folds to inf although run time raises *)
Lemma floordiv_zero_panics : forall debug, eval_bin_nofix debug OFloorDiv (VNat 7) (VNat 0) = Panic.
Proof. intros []; reflexivity. Qed.
Lemma mod_zero_panics : forall debug, eval_bin_nofix debug OMod (VInt (-7)) (VInt 0) = Panic.
Proof. intros []; reflexivity. Qed.
Lemma floordiv_min_panics : forall debug, eval_bin_nofix debug OFloorDiv (VInt (-2147483648)) (VInt (-1)) = Panic.
Proof. intros []; reflexivity. Qed.
Lemma div_zero_refuted : forall debug,
  disagrees (eval_bin_nofix debug ODiv (VNat 7) (VNat 0)) (py_eval ODiv (PInt 7) (PInt 0)).
Proof. intros []; refute_raise (VFloat (S754_infinity false)). Qed.

(** 5. `as i32` truncation of a u64: `3000000000 - 1` is folded to -1294967297; `-1 == 4294967295` to True *)
Lemma sub_truncation_refuted : forall debug,
  disagrees (eval_bin_nofix debug OSub (VNat 3000000000) (VNat 1)) (py_eval OSub (PInt 3000000000) (PInt 1)).
Proof. intros []; refute (VInt (-1294967297)). Qed.
Lemma eq_truncation_refuted : forall debug,
  disagrees (eval_bin_nofix debug OEq (VInt (-1)) (VNat 4294967295)) (py_eval OEq (PInt (-1)) (PInt 4294967295)).
Proof. intros []; refute (VBool true). Qed.

(** 6. comparison of a Nat above 2^53 with a Float goes through a rounding conversion *)
Lemma eq_nat_float_refuted : forall debug,
  disagrees (eval_bin_nofix debug OEq (VNat 9007199254740993) (VFloat (Z2F 9007199254740992)))
            (py_eval OEq (PInt 9007199254740993) (PFloat (Z2F 9007199254740992))).
Proof. intros []; refute (VBool true). Qed.

(** 7. float `//` is floor(l / r) and float `%` is C fmod: `1.0 // 0.1` folds to 10.0 (run time: 9.0),
       `-1.0 % 3.0` to -1.0 (run time: 2.0) *)
Lemma float_floordiv_refuted : forall debug,
  disagrees (eval_bin_nofix debug OFloorDiv (VFloat (Z2F 1)) (VFloat (f 1 10)))
            (py_eval OFloorDiv (PFloat (Z2F 1)) (PFloat (f 1 10))).
Proof. intros []; refute (VFloat (Z2F 10)). Qed.
Lemma float_mod_refuted : forall debug,
  disagrees (eval_bin_nofix debug OMod (VFloat (Z2F (-1))) (VFloat (Z2F 3)))
            (py_eval OMod (PFloat (Z2F (-1))) (PFloat (Z2F 3))).
Proof. intros []; refute (VFloat (Z2F (-1))). Qed.

(** 8. `~True` is folded to False; at run time it is -2 *)
Lemma invert_bool_refuted : forall debug,
  exists v, eval_unary_nofix debug UInvert (VBool true) = Ok (Some v) /\
            forall v', py_unary UInvert (PBool true) = PyOk v' -> ~ same_value v v'.
Proof. intros []; refute (VBool false). Qed.

(** 9. `/` on integers rounds twice when an operand above 2^53 is not exactly an f64 *)
Lemma div_double_rounding_refuted : forall debug,
  disagrees (eval_bin_nofix debug ODiv (VNat 14098162137463602736) (VNat 4705193143269049554))
            (py_eval ODiv (PInt 14098162137463602736) (PInt 4705193143269049554)).
Proof.
  intros []; (eexists; split; [vm_compute; reflexivity
                              | intros v' E; vm_compute in E; inversion E; subst; vm_compute; congruence]).
Qed.

(** the repaired evaluator (Model.v) on the same inputs: folded to the run-time value or not evaluated *)
Lemma repaired_on_witnesses :
  eval_bin true OAdd (VFloat (f 3 2)) (VNat 2) = Ok (Some (VFloat (f 7 2))) /\
  eval_bin true OFloorDiv (VInt (-7)) (VNat 2) = Ok (Some (VInt (-4))) /\
  eval_bin true OMod (VInt (-7)) (VNat 2) = Ok (Some (VInt 1)) /\
  eval_bin true OAdd (VInt (-2147483648)) (VInt (-1)) = Ok None /\
  eval_bin true OMul (VNat 4294967296) (VNat 4294967296) = Ok None /\
  eval_bin true OPow (VNat 2) (VNat 64) = Ok None /\
  eval_unary true UNeg (VNat 2147483648) = Ok (Some (VInt (-2147483648))) /\
  eval_bin true OFloorDiv (VNat 7) (VNat 0) = Ok None /\
  eval_bin true OFloorDiv (VInt (-2147483648)) (VInt (-1)) = Ok (Some (VNat 2147483648)) /\
  eval_bin true ODiv (VNat 7) (VNat 0) = Ok None /\
  eval_bin true OSub (VNat 3000000000) (VNat 1) = Ok (Some (VNat 2999999999)) /\
  eval_bin true OEq (VInt (-1)) (VNat 4294967295) = Ok (Some (VBool false)) /\
  eval_bin true OEq (VNat 9007199254740993) (VFloat (Z2F 9007199254740992)) = Ok (Some (VBool false)) /\
  eval_bin true OFloorDiv (VFloat (Z2F 1)) (VFloat (f 1 10)) = Ok (Some (VFloat (Z2F 9))) /\
  eval_bin true OMod (VFloat (Z2F (-1))) (VFloat (Z2F 3)) = Ok (Some (VFloat (Z2F 2))) /\
  eval_unary true UInvert (VBool true) = Ok (Some (VInt (-2))) /\
  eval_bin true ODiv (VNat 14098162137463602736) (VNat 4705193143269049554) = Ok None.
Proof. repeat split; vm_compute; reflexivity. Qed.
