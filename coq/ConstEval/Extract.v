(** extraction entry point for the C04 correspondence check and judge *)
From Coq Require Import ZArith List Bool.
From Coq Require Import Floats.SpecFloat.
From ErgV Require Import Common.Sx ConstEval.Model ConstEval.Spec ConstEval.Regress.
Import ListNotations.
Open Scope Z_scope.

(** f64::from_bits / to_bits (NaN canonical) *)
Definition two52 : Z := 4503599627370496.
Definition two63 : Z := 9223372036854775808.
Definition nan_bits : Z := 9221120237041090560.   (* 0x7ff8000000000000 *)
Definition F_of_bits (b : Z) : spec_float :=
  let s := two63 <=? b in
  let ex := (b / two52) mod 2048 in
  let fr := b mod two52 in
  if ex =? 0 then match fr with Zpos p => S754_finite s p (-1074) | _ => S754_zero s end
  else if ex =? 2047 then (if fr =? 0 then S754_infinity s else S754_nan)
  else match fr + two52 with Zpos p => S754_finite s p (ex - 1075) | _ => S754_nan end.
Definition bits_of_F (f : spec_float) : Z :=
  let sb (s : bool) := if s then two63 else 0 in
  match f with
  | S754_zero s => sb s
  | S754_infinity s => sb s + 2047 * two52
  | S754_nan => nan_bits
  | S754_finite s m e =>
    sb s + (if Zpos m <? two52 then Zpos m else (e + 1075) * two52 + (Zpos m - two52))
  end.

Definition dec_value (x : sx) : value :=
  let k := sx_z (sx_nth x 0) in
  let v := sx_z (sx_nth x 1) in
  if k =? 0 then VInt v else if k =? 1 then VNat v else if k =? 2 then VFloat (F_of_bits v)
  else if k =? 3 then VBool (negb (v =? 0)) else VFloatUnk.
Definition enc_value (v : value) : sx :=
  match v with
  | VInt i => SL [SZ 0; SZ i]
  | VNat n => SL [SZ 1; SZ n]
  | VFloat f => SL [SZ 2; SZ (bits_of_F f)]
  | VBool b => SL [SZ 3; sx_bool b]
  | VFloatUnk => SL [SZ 4; SZ 0]
  end.
Definition enc_res (r : res (option value)) : sx :=
  match r with
  | Panic => SL [SZ (-999)]
  | Ok None => SL [SZ 0]
  | Ok (Some v) => SL [SZ 1; enc_value v]
  end.
(** the implementation's answer: (0) | (1 value) | (2) some other object | (-999 msg) *)
Definition dec_res (x : sx) : res (option value) :=
  let k := sx_z (sx_nth x 0) in
  if k =? 0 then Ok None else if k =? 1 then Ok (Some (dec_value (sx_nth x 1)))
  else if k =? 2 then Ok (Some VFloatUnk) else Panic.

Definition dec_binop (k : Z) : binop :=
  nth (Z.to_nat k) [OAdd; OSub; OMul; ODiv; OFloorDiv; OPow; OMod; OGt; OGe; OLt; OLe; OEq; ONe; OAnd; OOr; OBitAnd; OBitOr; OBitXor; OShl; OShr] OShr.
Definition dec_unop (k : Z) : unop := nth (Z.to_nat k) [UPos; UNeg; UInvert; UNot] UNot.

Definition enc_pyval (p : pyval) : sx :=
  match p with
  | PInt z => SL [SZ 0; SZ z]
  | PFloat f => SL [SZ 2; SZ (bits_of_F f)]
  | PBool b => SL [SZ 3; sx_bool b]
  end.
Definition enc_pyresx (p : pyresx) : sx :=
  match p with
  | XOk v => SL [SZ 1; enc_pyval v]
  | XRaise ZeroDivisionError => SL [SZ 2; SZ 0]
  | XRaise TypeError => SL [SZ 2; SZ 1]
  | XUnmodelled => SL [SZ 3]
  | XHuge => SL [SZ 4]
  end.
Definition px (p : pyres) : pyresx :=
  match p with PyOk v => XOk v | PyRaise e => XRaise e | PyUnmodelled => XUnmodelled end.

(** modes
    (0 debug api op a b)  model of the binary evaluator; api 0 = try_<op>, 1 = eval_bin, 2 = try_binary
    (1 debug op a)        model of eval_unary_val
    (2 op a b r)          judge of the implementation's answer r on a op b: (verdict python-value known-class)
    (3 op a r)            judge, unary
    (4 op a b)            python value of a op b          (5 op a)   python value of the unary
    (10 debug api op a b) / (11 debug op a): the evaluator before the repairs (Regress.v)              *)
Definition run (x : sx) : sx :=
  let mode := sx_z (sx_nth x 0) in
  if (mode =? 0) || (mode =? 10) then
    let debug := sx_to_bool (sx_nth x 1) in
    let api := sx_z (sx_nth x 2) in
    let op := dec_binop (sx_z (sx_nth x 3)) in
    let a := dec_value (sx_nth x 4) in
    let b := dec_value (sx_nth x 5) in
    if mode =? 0 then
      enc_res (if api =? 0 then try_direct debug op a b else if api =? 1 then eval_bin debug op a b
               else try_binary debug op a b)
    else
      enc_res (if api =? 0 then try_direct_nofix debug op a b else if api =? 1 then eval_bin_nofix debug op a b
               else try_binary_nofix debug op a b)
  else if mode =? 1 then
    enc_res (eval_unary (sx_to_bool (sx_nth x 1)) (dec_unop (sx_z (sx_nth x 2))) (dec_value (sx_nth x 3)))
  else if mode =? 11 then
    enc_res (eval_unary_nofix (sx_to_bool (sx_nth x 1)) (dec_unop (sx_z (sx_nth x 2))) (dec_value (sx_nth x 3)))
  else if mode =? 2 then
    let op := dec_binop (sx_z (sx_nth x 1)) in
    let a := dec_value (sx_nth x 2) in
    let b := dec_value (sx_nth x 3) in
    SL [SZ (judge_bin op a b (dec_res (sx_nth x 4))); enc_pyresx (py_eval_x op (to_py a) (to_py b));
        sx_bool (Known_C04 op a b)]
  else if mode =? 3 then
    let op := dec_unop (sx_z (sx_nth x 1)) in
    let a := dec_value (sx_nth x 2) in
    SL [SZ (judge_un op a (dec_res (sx_nth x 3))); enc_pyresx (px (py_unary op (to_py a))); SZ 0]
  else if mode =? 4 then
    enc_pyresx (py_eval_x (dec_binop (sx_z (sx_nth x 1))) (to_py (dec_value (sx_nth x 2))) (to_py (dec_value (sx_nth x 3))))
  else
    enc_pyresx (px (py_unary (dec_unop (sx_z (sx_nth x 1))) (to_py (dec_value (sx_nth x 2))))).

Require Extraction.
Require Import ExtrOcamlBasic.
Extraction Language OCaml.
Extraction "model.ml" run.
