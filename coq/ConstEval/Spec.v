(** C04 — the run-time side: Python semantics of the operators on unbounded integers, bool and binary64,
    after the Python language reference (and CPython's Objects/floatobject.c for float // and %), and the
    executable judge that is applied to the implementation's behaviour.

    int: unbounded [Z]; [//] floors, [%] takes the sign of the divisor ([Z.div] / [Z.modulo] are exactly these);
    [/] on two ints is the correctly rounded quotient (one rounding of the exact value); a float operand promotes
    the other operand by int -> float (round to nearest even); comparisons between int and float are exact;
    a zero divisor (the int 0 or a float zero) raises.  [**] with a float operand or a negative int exponent is
    libm pow: [PyUnmodelled].  int -> float conversion raises OverflowError beyond 2^1024; that is outside the
    machine ranges considered here and not represented. *)
From Coq Require Import ZArith List Bool.
From Coq Require Import Floats.SpecFloat.
From ErgV Require Import ConstEval.Model.
Import ListNotations.
Open Scope Z_scope.

Inductive pyval := PInt (z : Z) | PFloat (f : spec_float) | PBool (b : bool).
Inductive pyerr := ZeroDivisionError | TypeError.
Inductive pyres := PyOk (v : pyval) | PyRaise (e : pyerr) | PyUnmodelled.

(** the run-time object denoted by a literal of each kind *)
Definition to_py (v : value) : pyval :=
  match v with
  | VInt i => PInt i
  | VNat n => PInt n
  | VFloat f => PFloat f
  | VBool b => PBool b
  | VFloatUnk => PFloat S754_nan
  end.

(** the compile-time value [v] and the run-time value [p] are the same object: same kind, same number *)
Definition same_value (v : value) (p : pyval) : Prop :=
  match v, p with
  | VInt i, PInt z => i = z
  | VNat n, PInt z => n = z
  | VFloat f, PFloat g => f = g
  | VBool b, PBool c => b = c
  | _, _ => False
  end.

Definition sf_eqb (f g : spec_float) : bool :=
  match f, g with
  | S754_zero s, S754_zero t => Bool.eqb s t
  | S754_infinity s, S754_infinity t => Bool.eqb s t
  | S754_nan, S754_nan => true
  | S754_finite s m e, S754_finite t n d => Bool.eqb s t && Pos.eqb m n && Z.eqb e d
  | _, _ => false
  end.
Definition same_valueb (v : value) (p : pyval) : bool :=
  match v, p with
  | VInt i, PInt z => i =? z
  | VNat n, PInt z => n =? z
  | VFloat f, PFloat g => sf_eqb f g
  | VBool b, PBool c => Bool.eqb b c
  | _, _ => false
  end.

(** numeric view: bool is a subclass of int *)
Inductive num := NI (z : Z) | NF (f : spec_float).
Definition as_num (p : pyval) : num :=
  match p with
  | PInt z => NI z
  | PBool b => NI (Z.b2z b)
  | PFloat f => NF f
  end.
Definition to_float (n : num) : spec_float := match n with NI z => Z2F z | NF f => f end.

(** an integer as an (unnormalised) exact float, for the single rounding of int / int *)
Definition exact_sf (z : Z) : spec_float :=
  match z with
  | Z0 => S754_zero false
  | Zpos p => S754_finite false p 0
  | Zneg p => S754_finite true p 0
  end.

(** exact ordering of an integer relative to a float; None for NaN *)
Definition cmp_Z_F (z : Z) (f : spec_float) : option comparison :=
  match f with
  | S754_nan => None
  | S754_infinity s => Some (if s then Gt else Lt)
  | S754_zero _ => Some (Z.compare z 0)
  | S754_finite s m e =>
    if 0 <=? e then Some (Z.compare z (cond_Zopp s (Z.shiftl (Zpos m) e)))
    else Some (Z.compare (Z.shiftl z (- e)) (cond_Zopp s (Zpos m)))
  end.
Definition py_cmp (a b : num) : option comparison :=
  match a, b with
  | NI x, NI y => Some (Z.compare x y)
  | NF f, NF g => SFcompare f g
  | NI x, NF g => cmp_Z_F x g
  | NF f, NI y => option_map CompOpp (cmp_Z_F y f)
  end.

(** float // and % (CPython float_divmod / float_rem); the divisor is not zero *)
Definition py_float_divmod (l r : spec_float) : spec_float * spec_float :=
  let m0 := F_fmod l r in
  let d0 := F_div (F_sub l m0) r in
  let '(m, d) :=
    if F_nonzero m0
    then if negb (Bool.eqb (F_lt r F_zero) (F_lt m0 F_zero)) then (F_add m0 r, F_sub d0 F_one) else (m0, d0)
    else (F_copysign F_zero r, d0) in
  let q :=
    if F_nonzero d
    then let f := F_floor d in if F_lt F_half (F_sub d f) then F_add f F_one else f
    else F_copysign F_zero (F_div l r) in
  (q, m).

Definition float_is_zero (f : spec_float) : bool := match f with S754_zero _ => true | _ => false end.
(** "division by zero": the divisor, before promotion, is the int 0 or a float zero *)
Definition num_is_zero (n : num) : bool := match n with NI z => z =? 0 | NF f => float_is_zero f end.

Definition py_arith (op : binop) (a b : num) : pyres :=
  match a, b with
  | NI x, NI y =>
    match op with
    | OAdd => PyOk (PInt (x + y))
    | OSub => PyOk (PInt (x - y))
    | OMul => PyOk (PInt (x * y))
    | ODiv => if y =? 0 then PyRaise ZeroDivisionError else PyOk (PFloat (F_div (exact_sf x) (exact_sf y)))
    | OFloorDiv => if y =? 0 then PyRaise ZeroDivisionError else PyOk (PInt (x / y))
    | OMod => if y =? 0 then PyRaise ZeroDivisionError else PyOk (PInt (x mod y))
    | OPow => if 0 <=? y then PyOk (PInt (x ^ y))
             else if x =? 0 then PyRaise ZeroDivisionError else PyUnmodelled
    | _ => PyRaise TypeError
    end
  | _, _ =>
    let f := to_float a in
    let g := to_float b in
    match op with
    | OAdd => PyOk (PFloat (F_add f g))
    | OSub => PyOk (PFloat (F_sub f g))
    | OMul => PyOk (PFloat (F_mul f g))
    | ODiv => if num_is_zero b then PyRaise ZeroDivisionError else PyOk (PFloat (F_div f g))
    | OFloorDiv => if num_is_zero b then PyRaise ZeroDivisionError else PyOk (PFloat (fst (py_float_divmod f g)))
    | OMod => if num_is_zero b then PyRaise ZeroDivisionError else PyOk (PFloat (snd (py_float_divmod f g)))
    | OPow => PyUnmodelled
    | _ => PyRaise TypeError
    end
  end.

Definition py_compare (test : comparison -> bool) (on_nan : bool) (a b : num) : pyres :=
  PyOk (PBool (match py_cmp a b with Some c => test c | None => on_nan end)).

(** [&], [|], [^]: bool x bool -> bool, int x int -> int (bool promoted), floats rejected.
    Erg's [and]/[or] are only typed on Bool, where they coincide with [&]/[|]. *)
Definition py_bitop (fb : bool -> bool -> bool) (fz : Z -> Z -> Z) (a b : pyval) : pyres :=
  match a, b with
  | PBool x, PBool y => PyOk (PBool (fb x y))
  | PFloat _, _ | _, PFloat _ => PyRaise TypeError
  | _, _ => match as_num a, as_num b with
            | NI x, NI y => PyOk (PInt (fz x y))
            | _, _ => PyRaise TypeError
            end
  end.

(** * the run-time value of [a op b] *)
Definition py_eval (op : binop) (a b : pyval) : pyres :=
  match op with
  | OAdd | OSub | OMul | ODiv | OFloorDiv | OPow | OMod => py_arith op (as_num a) (as_num b)
  | OGt => py_compare is_gt false (as_num a) (as_num b)
  | OGe => py_compare is_ge false (as_num a) (as_num b)
  | OLt => py_compare is_lt false (as_num a) (as_num b)
  | OLe => py_compare is_le false (as_num a) (as_num b)
  | OEq => py_compare is_eq false (as_num a) (as_num b)
  | ONe => py_compare is_ne true (as_num a) (as_num b)
  | OAnd | OBitAnd => py_bitop andb Z.land a b
  | OOr | OBitOr => py_bitop orb Z.lor a b
  | OBitXor => py_bitop xorb Z.lxor a b
  | OShl | OShr => PyUnmodelled
  end.

(** unary: [+x], [-x], [~x] (an int also for bool), [not x] (truth value; Erg types it on Bool only) *)
Definition py_unary (op : unop) (a : pyval) : pyres :=
  match op, a with
  | UPos, PInt z => PyOk (PInt z)
  | UPos, PFloat f => PyOk (PFloat f)
  | UPos, PBool b => PyOk (PInt (Z.b2z b))
  | UNeg, PInt z => PyOk (PInt (- z))
  | UNeg, PFloat f => PyOk (PFloat (F_neg f))
  | UNeg, PBool b => PyOk (PInt (- Z.b2z b))
  | UInvert, PInt z => PyOk (PInt (Z.lnot z))
  | UInvert, PBool b => PyOk (PInt (Z.lnot (Z.b2z b)))
  | UInvert, PFloat _ => PyRaise TypeError
  | UNot, PBool b => PyOk (PBool (negb b))
  | UNot, PInt z => PyOk (PBool (z =? 0))
  | UNot, PFloat f => PyOk (PBool (float_is_zero f))
  end.

(** * executable variant: [x ** y] on ints is only computed when it can matter (|result| < 2^128) *)
Inductive pyresx := XOk (v : pyval) | XRaise (e : pyerr) | XUnmodelled | XHuge.
Definition pow_limit : Z := 340282366920938463463374607431768211456.   (* 2^128 *)
Fixpoint pow_pos_lim (b : Z) (p : positive) : option Z :=   (* b^p if every partial power is below the limit *)
  let chk v := if Z.abs v <? pow_limit then Some v else None in
  match p with
  | xH => chk b
  | xO q => match pow_pos_lim b q with Some h => chk (h * h) | None => None end
  | xI q => match pow_pos_lim b q with Some h => chk (h * h * b) | None => None end
  end.
Definition py_eval_x (op : binop) (a b : pyval) : pyresx :=
  match op, as_num a, as_num b with
  | OPow, NI x, NI (Zpos p) =>
    match pow_pos_lim x p with Some v => XOk (PInt v) | None => XHuge end
  | _, _, _ => match py_eval op a b with
               | PyOk v => XOk v
               | PyRaise e => XRaise e
               | PyUnmodelled => XUnmodelled
               end
  end.

(** * the judge: is the behaviour [r] of the compile-time evaluator on [a op b] acceptable?
      crash: no; not evaluated: yes; evaluated: only to the run-time value.
      0 = violates the property, 1 = satisfies it, 2 = not decided by this specification (libm pow) *)
Definition verdict_of (r : res (option value)) (p : pyresx) : Z :=
  match r with
  | Panic => 0
  | Ok None => 1
  | Ok (Some v) =>
    match p with
    | XOk v' => if same_valueb v v' then 1 else 0
    | XRaise _ => 0
    | XHuge => 0
    | XUnmodelled => 2
    end
  end.
Definition judge_bin (op : binop) (a b : value) (r : res (option value)) : Z :=
  verdict_of r (py_eval_x op (to_py a) (to_py b)).
Definition judge_un (op : unop) (a : value) (r : res (option value)) : Z :=
  verdict_of r (match py_unary op (to_py a) with
                | PyOk v => XOk v
                | PyRaise e => XRaise e
                | PyUnmodelled => XUnmodelled
                end).

(** * the part of the domain on which agreement is proved in Coq (Props_C04.v); the rest of the float cases
      is carried by the correspondence check only.
      integer/bool fragment: no Float operand and the operator is not [/] (whose result is a Float);
      float fragment: [+ - * / // %] with at least one Float operand, comparisons of two Floats. *)
Definition is_int_like (v : value) : bool := match v with VInt _ | VNat _ | VBool _ => true | _ => false end.
Definition is_vfloat (v : value) : bool := match v with VFloat _ => true | _ => false end.
Definition int_fragment (op : binop) (a b : value) : bool :=
  is_int_like a && is_int_like b && match op with ODiv => false | _ => true end.
Definition float_fragment (op : binop) (a b : value) : bool :=
  match op with
  | OAdd | OSub | OMul | ODiv | OFloorDiv | OMod => is_vfloat a || is_vfloat b
  | OGt | OGe | OLt | OLe | OEq | ONe => is_vfloat a && is_vfloat b
  | _ => false
  end.

(** the cases whose agreement is NOT proved in Coq but carried by the correspondence check and the extracted judge:
    [/] on two integers (one rounding of the exact quotient vs. division of the converted operands) and the
    comparison of an integer with a Float (exact vs. through a conversion) *)
Definition By_correspondence_C04 (op : binop) (a b : value) : bool :=
  match op with
  | ODiv => is_int_like a && is_int_like b
  | OGt | OGe | OLt | OLe | OEq | ONe => negb (Bool.eqb (is_vfloat a) (is_vfloat b))
  | _ => false
  end.

(** * the class of inputs on which the evaluator is known not to be covered (known finding C04-float-pow):
      [**] with a Float operand is folded with libm powf/powi *)
Definition is_float (v : value) : bool := match v with VFloat _ | VFloatUnk => true | _ => false end.
Definition Known_C04 (op : binop) (a b : value) : bool :=
  match op with
  | OPow => is_float a || is_float b
  | _ => false
  end.
