(** C04 — property theorems (statements only; proofs are in Proofs.v).

    Model: ConstEval/Model.v ([eval_bin], [eval_unary]: the compile-time evaluator of erg on Int / Nat / Float /
    Bool values, machine integers and overflow behaviour explicit, [debug] = debug or release build).
    Run-time side: ConstEval/Spec.v ([py_eval], [py_unary]: Python semantics on unbounded integers and binary64).
    [Ok None] = the expression is not evaluated at compile time (left to run time / reported as a diagnostic). *)
From Coq Require Import ZArith List Bool.
From Coq Require Import Floats.SpecFloat.
From ErgV Require Import ConstEval.Model ConstEval.Spec ConstEval.Proofs.
Import ListNotations.
Open Scope Z_scope.

(** Constant evaluation never crashes: every operator, all operands in the machine ranges (including zero
    divisors, i32::MIN, u64::MAX, every float), debug and release build. *)
Theorem fold_total : forall debug op a b,
  wf_value a = true -> wf_value b = true -> eval_bin debug op a b <> Panic.
Proof. exact eval_bin_total. Qed.
Example fold_total_ex :
  wf_value (VInt (-2147483648)) = true /\ wf_value (VNat 0) = true /\
  eval_bin true OFloorDiv (VInt (-2147483648)) (VInt (-1)) = Ok (Some (VNat 2147483648)) /\
  eval_bin true OMod (VInt (-2147483648)) (VNat 0) = Ok None.
Proof. repeat split; reflexivity. Qed.

Theorem unary_total : forall debug op a, wf_value a = true -> eval_unary debug op a <> Panic.
Proof. exact eval_unary_total. Qed.
Example unary_total_ex : eval_unary true UNeg (VNat 2147483648) = Ok (Some (VInt (-2147483648))).
Proof. reflexivity. Qed.

(** A folded value is the run-time value — integer/bool fragment (no Float operand, operator other than [/]):
    fully proved, all operators, all operands in the machine ranges. *)
Theorem fold_agrees_int : forall debug op a b v,
  wf_value a = true -> wf_value b = true -> int_fragment op a b = true ->
  eval_bin debug op a b = Ok (Some v) ->
  exists v', py_eval op (to_py a) (to_py b) = PyOk v' /\ same_value v v'.
Proof. exact eval_bin_agrees_int. Qed.
Example fold_agrees_int_ex :
  int_fragment OFloorDiv (VInt (-7)) (VNat 2) = true /\
  eval_bin false OFloorDiv (VInt (-7)) (VNat 2) = Ok (Some (VInt (-4))) /\
  py_eval OFloorDiv (PInt (-7)) (PInt 2) = PyOk (PInt (-4)) /\
  eval_bin true OSub (VNat 3000000000) (VNat 1) = Ok (Some (VNat 2999999999)) /\
  eval_bin true OPow (VNat 2) (VNat 63) = Ok (Some (VNat 9223372036854775808)) /\
  eval_bin true OEq (VInt (-1)) (VNat 4294967295) = Ok (Some (VBool false)).
Proof. repeat split; reflexivity. Qed.

(** Full statement (NOT proved in this generality):
      forall debug op a b v, wf_value a = true -> wf_value b = true -> Known_C04 op a b = false ->
        eval_bin debug op a b = Ok (Some v) -> exists v', py_eval op (to_py a) (to_py b) = PyOk v' /\ same_value v v'.
    Proved with the additional guard [By_correspondence_C04 op a b = false], which excludes [/] on two integers
    (model: one IEEE division of the converted operands; Python: the exact quotient rounded once) and the
    comparison of an integer with a Float (model: through [Z2F] / the exact [cmp_nat_float]; Python: exact).  Both
    need rounding-error lemmas about SpecFloat that are not in Coq's standard library; these cases are carried by
    the correspondence check and the extracted judge only.  So the theorem covers: every operator on Int/Nat/Bool
    operands except [/]; [+ - * / // %] with a Float operand; comparisons of two Floats.
    [Known_C04] = [**] with a Float operand (libm pow: known finding C04-float-pow). *)
Theorem fold_agrees_partial : forall debug op a b v,
  wf_value a = true -> wf_value b = true -> Known_C04 op a b = false -> By_correspondence_C04 op a b = false ->
  eval_bin debug op a b = Ok (Some v) ->
  exists v', py_eval op (to_py a) (to_py b) = PyOk v' /\ same_value v v'.
Proof. exact eval_bin_agrees_guarded. Qed.
Example fold_agrees_partial_ex :
  Known_C04 OAdd (VFloat (F_div (Z2F 3) (Z2F 2))) (VNat 2) = false /\
  By_correspondence_C04 OAdd (VFloat (F_div (Z2F 3) (Z2F 2))) (VNat 2) = false /\
  eval_bin true OAdd (VFloat (F_div (Z2F 3) (Z2F 2))) (VNat 2) = Ok (Some (VFloat (F_div (Z2F 7) (Z2F 2)))) /\
  eval_bin true OFloorDiv (VFloat (Z2F 1)) (VFloat (F_div (Z2F 1) (Z2F 10))) = Ok (Some (VFloat (Z2F 9))).
Proof. repeat split; vm_compute; reflexivity. Qed.

(** The known class is not empty and not covered: the model folds [0.0 ** -1.0] to a Float that Spec.v cannot
    account for (the implementation folds it to inf; at run time it raises ZeroDivisionError: replayed by the check). *)
Theorem fold_agrees_known_refuted : exists op a b v,
  wf_value a = true /\ wf_value b = true /\ Known_C04 op a b = true /\
  eval_bin true op a b = Ok (Some v) /\ forall v', py_eval op (to_py a) (to_py b) <> PyOk v'.
Proof. exact known_class_refuted. Qed.

(** Unary operators: every operator, every operand kind (Floats included). *)
Theorem unary_agrees : forall debug op a v,
  wf_value a = true -> eval_unary debug op a = Ok (Some v) ->
  exists v', py_unary op (to_py a) = PyOk v' /\ same_value v v'.
Proof. exact eval_unary_agrees. Qed.
Example unary_agrees_ex :
  eval_unary true UInvert (VBool true) = Ok (Some (VInt (-2))) /\ py_unary UInvert (PBool true) = PyOk (PInt (-2)) /\
  eval_unary true UNeg (VInt (-2147483648)) = Ok (Some (VNat 2147483648)).
Proof. repeat split; reflexivity. Qed.

(** An integer result is a well-formed ValueObj: Int within i32, Nat within u64 (all operators, all operands). *)
Theorem fold_in_range : forall debug op a b v,
  wf_value a = true -> wf_value b = true -> eval_bin debug op a b = Ok (Some v) -> int_wf v.
Proof. exact eval_bin_int_wf. Qed.
Theorem unary_in_range : forall debug op a v,
  wf_value a = true -> eval_unary debug op a = Ok (Some v) -> int_wf v.
Proof. exact eval_unary_int_wf. Qed.
Example fold_in_range_ex : eval_bin true OAdd (VInt 2147483647) (VInt 2147483647) = Ok (Some (VNat 4294967294)).
Proof. reflexivity. Qed.

(** The public entry points ValueObj::try_<op> and ValueObj::try_binary answer like [eval_bin] or not at all,
    so the theorems above hold for them as well. *)
Theorem apis_refine_eval_bin : forall debug op a b,
  (try_direct debug op a b = Ok None \/ try_direct debug op a b = eval_bin debug op a b) /\
  (try_binary debug op a b = Ok None \/ try_binary debug op a b = eval_bin debug op a b).
Proof. exact apis_refine. Qed.

(** The executable judge applied to the implementation's answers (Spec.judge_bin, extracted) is sound for the
    property: verdict 1 means no crash and, if a value was folded, it is the run-time value. *)
Theorem judge_sound : forall op a b r, judge_bin op a b r = 1 ->
  r <> Panic /\
  (forall v, r = Ok (Some v) -> exists v', py_eval op (to_py a) (to_py b) = PyOk v' /\ same_value v v').
Proof. exact judge_bin_sound. Qed.
Example judge_ex :
  judge_bin OFloorDiv (VInt (-7)) (VNat 2) (Ok (Some (VInt (-4)))) = 1 /\
  judge_bin OFloorDiv (VInt (-7)) (VNat 2) (Ok (Some (VInt (-3)))) = 0 /\
  judge_bin OFloorDiv (VInt 7) (VNat 0) Panic = 0 /\ judge_bin OFloorDiv (VInt 7) (VNat 0) (Ok None) = 1.
Proof. repeat split; reflexivity. Qed.
