(** C04 — model of the compile-time evaluator of erg on plain values (definitions only).

    Transcribed arm by arm from (the repaired code of)
      crates/erg_compiler/ty/value.rs   ValueObj::{int_op, floor_divmod, float_divmod, cmp_nat_float, exact_f64, is_zero,
                                                   try_add, try_sub, try_mul, try_div, try_floordiv, try_pow, try_mod,
                                                   try_gt, try_ge, try_lt, try_le, try_eq, try_ne, try_or}
      crates/erg_compiler/context/eval.rs  Context::{eval_bin, eval_or, eval_and, eval_unary_val}
    The code before the repairs is kept in Regress.v ([*_nofix]).

    Machine integers are [Z] with explicit ranges.  Every Rust `+ - *` and unary `-` on an integer type is [arith]:
    in a debug build an out-of-range result is [Panic], in a release build it wraps; `as` casts are the explicit
    two's-complement truncation [cast]; `checked_*` return [None] on overflow.
    Floats are [spec_float] (Coq's IEEE-754 specification, binary64 = prec 53, emax 1024): pure Gallina over [Z],
    no primitive floats, extractable.  `f64::powf/powi` (libm) has no specification: its result is [VFloatUnk]. *)
From Coq Require Import ZArith List Bool.
From Coq Require Import Floats.SpecFloat.
Import ListNotations.
Open Scope Z_scope.

(** * outcomes *)
Inductive res (A : Type) : Type := Ok (a : A) | Panic.
Arguments Ok {A} a.
Arguments Panic {A}.

Definition bind {A B} (r : res A) (f : A -> res B) : res B :=
  match r with Ok a => f a | Panic => Panic end.

(** * machine integers *)
Inductive ity := I32 | U32 | U64 | I128.

Definition ity_lo (t : ity) : Z :=
  match t with
  | I32 => -2147483648
  | U32 => 0
  | U64 => 0
  | I128 => -170141183460469231731687303715884105728
  end.
Definition ity_hi (t : ity) : Z :=
  match t with
  | I32 => 2147483647
  | U32 => 4294967295
  | U64 => 18446744073709551615
  | I128 => 170141183460469231731687303715884105727
  end.
Definition in_range (t : ity) (v : Z) : bool := (ity_lo t <=? v) && (v <=? ity_hi t).
(** two's-complement wrap into the type *)
Definition wrap (t : ity) (v : Z) : Z := (v - ity_lo t) mod (ity_hi t - ity_lo t + 1) + ity_lo t.
(** result of a Rust arithmetic operator whose mathematical result is [v] *)
Definition arith (debug : bool) (t : ity) (v : Z) : res Z :=
  if in_range t v then Ok v else if debug then Panic else Ok (wrap t v).
(** `v as t` between integer types *)
Definition cast (t : ity) (v : Z) : Z := wrap t v.
(** `t::try_from(v).ok()` *)
Definition try_from (t : ity) (v : Z) : option Z := if in_range t v then Some v else None.

(** i128::checked_add / checked_sub / checked_mul / checked_div / checked_rem *)
Definition checked_add (a b : Z) : option Z := try_from I128 (a + b).
Definition checked_sub (a b : Z) : option Z := try_from I128 (a - b).
Definition checked_mul (a b : Z) : option Z := try_from I128 (a * b).
Definition checked_div (a b : Z) : option Z :=
  if b =? 0 then None else if (a =? ity_lo I128) && (b =? -1) then None else Some (Z.quot a b).
Definition checked_rem (a b : Z) : option Z :=
  if b =? 0 then None else if (a =? ity_lo I128) && (b =? -1) then None else Some (Z.rem a b).
(** i128::checked_pow(base, exp : u32): square-and-multiply, [None] as soon as a product leaves the type *)
Fixpoint checked_pow_pos (b : Z) (p : positive) : option Z :=
  match p with
  | xH => Some b
  | xO q => match checked_pow_pos b q with
            | Some h => checked_mul h h
            | None => None
            end
  | xI q => match checked_pow_pos b q with
            | Some h => match checked_mul h h with
                        | Some h2 => checked_mul h2 b
                        | None => None
                        end
            | None => None
            end
  end.
Definition checked_pow (b e : Z) : option Z :=
  match e with
  | Zpos p => checked_pow_pos b p
  | _ => Some 1
  end.

(** * floats: binary64 as [spec_float] *)
Definition prec : Z := 53.
Definition emax : Z := 1024.
Definition F_add := SFadd prec emax.
Definition F_sub := SFsub prec emax.
Definition F_mul := SFmul prec emax.
Definition F_div := SFdiv prec emax.
Definition F_neg := SFopp.
Definition F_lt (x y : spec_float) : bool := SFltb x y.
Definition F_le (x y : spec_float) : bool := SFleb x y.
Definition F_eq (x y : spec_float) : bool := SFeqb x y.
(** integer to f64, round to nearest even (`as f64`; also CPython's int -> float) *)
Definition Z2F (z : Z) : spec_float := binary_normalize prec emax z 0 false.
Definition F_zero : spec_float := S754_zero false.
Definition F_one : spec_float := Z2F 1.
Definition F_half : spec_float := S754_finite false 4503599627370496 (-53).

Definition F_sign (f : spec_float) : bool :=
  match f with
  | S754_zero s | S754_infinity s | S754_finite s _ _ => s
  | S754_nan => false
  end.
(** magnitude of [x] with the sign of [y] *)
Definition F_copysign (x y : spec_float) : spec_float :=
  match x with
  | S754_zero _ => S754_zero (F_sign y)
  | S754_infinity _ => S754_infinity (F_sign y)
  | S754_finite _ m e => S754_finite (F_sign y) m e
  | S754_nan => S754_nan
  end.
(** [f != 0.0] (true for NaN) *)
Definition F_nonzero (f : spec_float) : bool := negb (F_eq f F_zero).
(** f64::floor *)
Definition F_floor (f : spec_float) : spec_float :=
  match f with
  | S754_finite s m e =>
    if 0 <=? e then f
    else match Z.shiftr (cond_Zopp s (Zpos m)) (- e) with
         | Z0 => S754_zero s
         | z => Z2F z
         end
  | _ => f
  end.
(** `%` on f64 = C fmod: exact remainder, sign of the dividend *)
Definition F_fmod (x y : spec_float) : spec_float :=
  match x, y with
  | S754_nan, _ | _, S754_nan => S754_nan
  | S754_infinity _, _ => S754_nan
  | _, S754_zero _ => S754_nan
  | S754_zero _, _ => x
  | _, S754_infinity _ => x
  | S754_finite sx mx ex, S754_finite sy my ey =>
    let e := Z.min ex ey in
    let a := Z.shiftl (Zpos mx) (ex - e) in
    let b := Z.shiftl (Zpos my) (ey - e) in
    match Z.rem a b with
    | Z0 => S754_zero sx
    | r => binary_normalize prec emax (cond_Zopp sx r) e false
    end
  end.
(** `f as i128`: truncation toward zero, saturating, NaN -> 0 *)
Definition F2Z_sat (f : spec_float) : Z :=
  match f with
  | S754_zero _ | S754_nan => 0
  | S754_infinity s => if s then ity_lo I128 else ity_hi I128
  | S754_finite s m e =>
    let z := cond_Zopp s (if 0 <=? e then Z.shiftl (Zpos m) e else Z.shiftr (Zpos m) (- e)) in
    if z <? ity_lo I128 then ity_lo I128 else if ity_hi I128 <? z then ity_hi I128 else z
  end.
(** f64::partial_cmp *)
Definition F_cmp (x y : spec_float) : option comparison := SFcompare x y.

(** * values (ValueObj restricted to the kinds C04 talks about) *)
Inductive value : Type :=
| VInt (i : Z)            (* ValueObj::Int(i32) *)
| VNat (n : Z)            (* ValueObj::Nat(u64) *)
| VFloat (f : spec_float) (* ValueObj::Float(f64) *)
| VBool (b : bool)        (* ValueObj::Bool *)
| VFloatUnk.              (* a Float computed by libm pow / powi: not modelled; never an input *)

Definition wf_value (v : value) : bool :=
  match v with
  | VInt i => in_range I32 i
  | VNat n => in_range U64 n
  | VFloat f => valid_binary prec emax f
  | VBool _ => true
  | VFloatUnk => false
  end.

Inductive binop := OAdd | OSub | OMul | ODiv | OFloorDiv | OPow | OMod | OGt | OGe | OLt | OLe | OEq | ONe
                 | OAnd | OOr | OBitAnd | OBitOr | OBitXor | OShl | OShr.
Inductive unop := UPos | UNeg | UInvert | UNot.

(** * value.rs helpers *)
(** the tail of ValueObj::int_op: the exact result [v] as a value *)
Definition exact_int (v : Z) (int : bool) : option value :=
  match try_from I32 v, try_from U64 v with
  | Some i, o => if int || (i <? 0) then Some (VInt i) else option_map VNat o
  | None, o => option_map VNat o
  end.

(** an i32 / u64 operand widened to i128 (`.into()`) *)
Definition as_i128 (v : Z) : Z := cast I128 v.

Definition some_float (f : spec_float) : res (option value) := Ok (Some (VFloat f)).
Definition some_bool (b : bool) : res (option value) := Ok (Some (VBool b)).
Definition none : res (option value) := Ok None.

(** ValueObj::int_op(l, r, int, op) *)
Definition int_op (l r : Z) (int : bool) (op : Z -> Z -> res (option Z)) : res (option value) :=
  bind (op (as_i128 l) (as_i128 r)) (fun o =>
  match o with
  | Some v => Ok (exact_int v int)
  | None => none
  end).
Definition pure_op (f : Z -> Z -> option Z) (l r : Z) : res (option Z) := Ok (f l r).

(** ValueObj::floor_divmod(l: i128, r: i128) -> Option<(i128, i128)>; `q - 1` and `m + r` are plain i128 operators *)
Definition floor_divmod (debug : bool) (l r : Z) : res (option (Z * Z)) :=
  match checked_div l r, checked_rem l r with
  | Some q, Some m =>
    if negb (m =? 0) && negb (Bool.eqb (m <? 0) (r <? 0))
    then bind (arith debug I128 (q - 1)) (fun q' =>
         bind (arith debug I128 (m + r)) (fun m' => Ok (Some (q', m'))))
    else Ok (Some (q, m))
  | _, _ => Ok None
  end.

(** ValueObj::float_divmod(l: f64, r: f64) -> (f64, f64)   (CPython's float_divmod) *)
Definition float_divmod (l r : spec_float) : spec_float * spec_float :=
  let m0 := F_fmod l r in
  let d0 := F_div (F_sub l m0) r in
  let '(m, d) :=
    if F_nonzero m0
    then if negb (Bool.eqb (F_lt r F_zero) (F_lt m0 F_zero)) then (F_add m0 r, F_sub d0 F_one) else (m0, d0)
    else (F_copysign F_zero r, d0) in
  let q :=
    if F_eq d F_zero then F_copysign F_zero (F_div l r)
    else if F_lt F_half (F_sub d (F_floor d)) then F_add (F_floor d) F_one
    else F_floor d in
  (q, m).

(** the ordering computed by ValueObj::cmp_nat_float(n: u64, f: f64, ..): of [n] relative to [f], exact *)
Definition cmp_nat_float (n : Z) (f : spec_float) : option comparison :=
  let nf := Z2F n in
  match F_cmp nf f with
  | Some Eq => Some (Z.compare n (F2Z_sat nf))     (* (n as u128).cmp(&(nf as u128)) *)
  | o => o
  end.

(** ValueObj::exact_f64(n: u64) -> Option<f64>: the conversion when it is exact *)
Definition exact_f64 (n : Z) : option spec_float :=
  let f := Z2F n in if F2Z_sat f =? n then Some f else None.

(** ValueObj::is_zero *)
Definition is_zero (v : value) : bool :=
  match v with
  | VInt i => i =? 0
  | VNat n => n =? 0
  | VFloat f => F_eq f F_zero
  | _ => false
  end.

(** * ValueObj::try_add *)
Definition try_add (debug : bool) (a b : value) : res (option value) :=
  match a, b with
  | VInt l, VInt r => int_op l r true (pure_op checked_add)
  | VNat l, VNat r => int_op l r false (pure_op checked_add)
  | VFloat l, VFloat r => some_float (F_add l r)
  | VInt l, VNat r => int_op l r false (pure_op checked_add)
  | VNat l, VInt r => int_op l r true (pure_op checked_add)
  | VFloat l, VNat r => some_float (F_add l (Z2F r))
  | VInt l, VFloat r => some_float (F_add (Z2F l) r)
  | VNat l, VFloat r => some_float (F_add (Z2F l) r)
  | VFloat l, VInt r => some_float (F_add l (Z2F r))
  | _, _ => none
  end.

(** * ValueObj::try_sub *)
Definition try_sub (debug : bool) (a b : value) : res (option value) :=
  match a, b with
  | VInt l, VInt r => int_op l r true (pure_op checked_sub)
  | VNat l, VNat r => int_op l r true (pure_op checked_sub)
  | VFloat l, VFloat r => some_float (F_sub l r)
  | VInt l, VNat r => int_op l r false (pure_op checked_sub)
  | VNat l, VInt r => int_op l r false (pure_op checked_sub)
  | VFloat l, VNat r => some_float (F_sub l (Z2F r))
  | VNat l, VFloat r => some_float (F_sub (Z2F l) r)
  | VFloat l, VInt r => some_float (F_sub l (Z2F r))
  | VInt l, VFloat r => some_float (F_sub (Z2F l) r)
  | _, _ => none
  end.

(** * ValueObj::try_mul *)
Definition mul_result (l r : Z) (int : bool) : res (option value) := int_op l r int (pure_op checked_mul).
Definition try_mul (debug : bool) (a b : value) : res (option value) :=
  match a, b with
  | VInt l, VInt r => mul_result l r false
  | VNat l, VNat r => mul_result l r false
  | VFloat l, VFloat r => some_float (F_mul l r)
  | VInt l, VNat r => mul_result l r true
  | VNat l, VInt r => mul_result l r true
  | VFloat l, VNat r => some_float (F_mul l (Z2F r))
  | VNat l, VFloat r => some_float (F_mul (Z2F l) r)
  | VFloat l, VInt r => some_float (F_mul l (Z2F r))
  | VInt l, VFloat r => some_float (F_mul (Z2F l) r)
  | _, _ => none
  end.

(** * ValueObj::try_div *)
Definition div_nat (l r : option spec_float) : res (option value) :=
  match l, r with
  | Some x, Some y => some_float (F_div x y)
  | _, _ => none
  end.
Definition try_div (debug : bool) (a b : value) : res (option value) :=
  if is_zero b then none else
  match a, b with
  | VInt l, VInt r => some_float (F_div (Z2F l) (Z2F r))
  | VNat l, VNat r => div_nat (exact_f64 l) (exact_f64 r)
  | VFloat l, VFloat r => some_float (F_div l r)
  | VInt l, VNat r => div_nat (Some (Z2F l)) (exact_f64 r)
  | VNat l, VInt r => div_nat (exact_f64 l) (Some (Z2F r))
  | VFloat l, VNat r => some_float (F_div l (Z2F r))
  | VNat l, VFloat r => some_float (F_div (Z2F l) r)
  | VFloat l, VInt r => some_float (F_div l (Z2F r))
  | VInt l, VFloat r => some_float (F_div (Z2F l) r)
  | _, _ => none
  end.

(** * ValueObj::try_floordiv / try_mod *)
Definition divmod_result (debug : bool) (l r : Z) (int : bool) (pick : Z * Z -> Z) : res (option value) :=
  int_op l r int (fun l r => bind (floor_divmod debug l r) (fun o => Ok (option_map pick o))).
Definition try_floordiv (debug : bool) (a b : value) : res (option value) :=
  if is_zero b then none else
  match a, b with
  | VInt l, VInt r => divmod_result debug l r true fst
  | VNat l, VNat r => divmod_result debug l r false fst
  | VFloat l, VFloat r => some_float (fst (float_divmod l r))
  | VInt l, VNat r => divmod_result debug l r true fst
  | VNat l, VInt r => divmod_result debug l r true fst
  | VFloat l, VNat r => some_float (fst (float_divmod l (Z2F r)))
  | VNat l, VFloat r => some_float (fst (float_divmod (Z2F l) r))
  | VFloat l, VInt r => some_float (fst (float_divmod l (Z2F r)))
  | VInt l, VFloat r => some_float (fst (float_divmod (Z2F l) r))
  | _, _ => none
  end.
Definition try_mod (debug : bool) (a b : value) : res (option value) :=
  if is_zero b then none else
  match a, b with
  | VInt l, VInt r => divmod_result debug l r true snd
  | VNat l, VNat r => divmod_result debug l r false snd
  | VFloat l, VFloat r => some_float (snd (float_divmod l r))
  | VInt l, VNat r => divmod_result debug l r true snd
  | VNat l, VInt r => divmod_result debug l r true snd
  | VFloat l, VNat r => some_float (snd (float_divmod l (Z2F r)))
  | VNat l, VFloat r => some_float (snd (float_divmod (Z2F l) r))
  | VFloat l, VInt r => some_float (snd (float_divmod l (Z2F r)))
  | VInt l, VFloat r => some_float (snd (float_divmod (Z2F l) r))
  | _, _ => none
  end.

(** * ValueObj::try_pow *)
Definition pow_op (l r : Z) : option Z :=      (* |l, r| l.checked_pow(r.try_into().ok()?) *)
  match try_from U32 r with
  | Some e => checked_pow l e
  | None => None
  end.
Definition pow_result (l r : Z) (int : bool) : res (option value) := int_op l r int (pure_op pow_op).
Definition try_pow (debug : bool) (a b : value) : res (option value) :=
  match a, b with
  | VInt l, VInt r => pow_result l r true
  | VNat l, VNat r => pow_result l r false
  | VInt l, VNat r => pow_result l r true
  | VNat l, VInt r => pow_result l r false
  | VFloat _, VFloat _ | VFloat _, VNat _ | VNat _, VFloat _ | VFloat _, VInt _ | VInt _, VFloat _ =>
    Ok (Some VFloatUnk)        (* powf / powi *)
  | _, _ => none
  end.

(** * comparisons: one generic transcription, the six functions differ in the test applied to the ordering
      [on_cmp o]: the answer for an ordering; [on_nan]: the answer when a float operand is NaN *)
Definition flip (c : comparison) : comparison := CompOpp c.
Definition cmp_test (on_cmp : comparison -> bool) (on_nan : bool) (o : option comparison) : bool :=
  match o with Some c => on_cmp c | None => on_nan end.
Definition try_cmp_with (on_cmp : comparison -> bool) (on_nan : bool) (bool_ok : bool) (a b : value)
  : res (option value) :=
  match a, b with
  | VInt l, VInt r => some_bool (on_cmp (Z.compare l r))
  | VNat l, VNat r => some_bool (on_cmp (Z.compare l r))
  | VFloat l, VFloat r => some_bool (cmp_test on_cmp on_nan (F_cmp l r))
  | VInt l, VNat r => some_bool (on_cmp (Z.compare (as_i128 l) (as_i128 r)))
  | VNat l, VInt r => some_bool (on_cmp (Z.compare (as_i128 l) (as_i128 r)))
  | VFloat l, VNat r => some_bool (cmp_test on_cmp on_nan (option_map flip (cmp_nat_float r l)))
  | VNat l, VFloat r => some_bool (cmp_test on_cmp on_nan (cmp_nat_float l r))
  | VFloat l, VInt r => some_bool (cmp_test on_cmp on_nan (F_cmp l (Z2F r)))
  | VInt l, VFloat r => some_bool (cmp_test on_cmp on_nan (F_cmp (Z2F l) r))
  | VBool l, VBool r => if bool_ok then some_bool (on_cmp (Z.compare (Z.b2z l) (Z.b2z r))) else none
  | _, _ => none
  end.
Definition is_gt c := match c with Gt => true | _ => false end.
Definition is_ge c := match c with Lt => false | _ => true end.
Definition is_lt c := match c with Lt => true | _ => false end.
Definition is_le c := match c with Gt => false | _ => true end.
Definition is_eq c := match c with Eq => true | _ => false end.
Definition is_ne c := match c with Eq => false | _ => true end.
Definition try_gt := try_cmp_with is_gt false false.
Definition try_ge := try_cmp_with is_ge false false.
Definition try_lt := try_cmp_with is_lt false false.
Definition try_le := try_cmp_with is_le false false.
Definition try_eq := try_cmp_with is_eq false true.
Definition try_ne := try_cmp_with is_ne true true.

(** * ValueObj::try_or *)
Definition try_or (a b : value) : res (option value) :=
  match a, b with
  | VBool l, VBool r => some_bool (l || r)
  | _, _ => none
  end.

(** * eval.rs: Context::eval_or / eval_and (the fall-through converts both values into types, which fails for
      Int/Nat/Float/Bool), BitXor arm of eval_bin *)
Definition eval_or (a b : value) : res (option value) :=
  match a, b with
  | VBool l, VBool r => some_bool (l || r)
  | VInt l, VInt r => Ok (Some (VInt (Z.lor l r)))
  | _, _ => none
  end.
Definition eval_and (a b : value) : res (option value) :=
  match a, b with
  | VBool l, VBool r => some_bool (l && r)
  | VInt l, VInt r => Ok (Some (VInt (Z.land l r)))
  | _, _ => none
  end.
Definition eval_xor (a b : value) : res (option value) :=
  match a, b with
  | VBool l, VBool r => some_bool (xorb l r)
  | VInt l, VInt r => Ok (Some (VInt (Z.lxor l r)))
  | _, _ => none
  end.

(** * Context::eval_bin *)
Definition eval_bin (debug : bool) (op : binop) (a b : value) : res (option value) :=
  match op with
  | OAdd => try_add debug a b
  | OSub => try_sub debug a b
  | OMul => try_mul debug a b
  | ODiv => try_div debug a b
  | OFloorDiv => try_floordiv debug a b
  | OPow => try_pow debug a b
  | OMod => try_mod debug a b
  | OGt => try_gt a b
  | OGe => try_ge a b
  | OLt => try_lt a b
  | OLe => try_le a b
  | OEq => try_eq a b
  | ONe => try_ne a b
  | OOr | OBitOr => eval_or a b
  | OAnd | OBitAnd => eval_and a b
  | OBitXor => eval_xor a b
  | OShl | OShr => none
  end.

(** ValueObj::try_binary (a subset of the operators) *)
Definition try_binary (debug : bool) (op : binop) (a b : value) : res (option value) :=
  match op with
  | OAdd | OSub | OMul | ODiv | OLt | OGt | OLe | OGe | OEq | ONe => eval_bin debug op a b
  | _ => none
  end.

(** the try_<op> function called directly (no such function for And, Bit*, Shl, Shr) *)
Definition try_direct (debug : bool) (op : binop) (a b : value) : res (option value) :=
  match op with
  | OOr => try_or a b
  | OAnd | OBitAnd | OBitOr | OBitXor | OShl | OShr => none
  | _ => eval_bin debug op a b
  end.

(** * Context::eval_unary_val *)
Definition eval_unary (debug : bool) (op : unop) (a : value) : res (option value) :=
  match op with
  | UPos => match a with
           | VNat _ | VInt _ | VFloat _ => Ok (Some a)
           | _ => none
           end
  | UNeg => match a with
           | VNat n => int_op 0 n true (pure_op checked_sub)
           | VInt i => int_op 0 i true (pure_op checked_sub)
           | VFloat f => some_float (F_neg f)
           | _ => none
           end
  | UInvert => match a with
              | VBool b => Ok (Some (VInt (Z.lnot (Z.b2z b))))     (* Int(!(b as i32)) *)
              | VInt i => Ok (Some (VInt (Z.lnot i)))              (* Int(!i) *)
              | _ => none
              end
  | UNot => match a with
           | VBool b => some_bool (negb b)
           | _ => none
           end
  end.
