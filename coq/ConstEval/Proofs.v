(** C04 — lemmas and proofs about the model of the constant evaluator (ConstEval/Model.v) against the Python
    semantics of ConstEval/Spec.v.  The property theorems are restated in Props_C04.v. *)
From Coq Require Import ZArith List Bool Lia.
From Coq Require Import Floats.SpecFloat.
From ErgV Require Import ConstEval.Model ConstEval.Spec.
Import ListNotations.
Open Scope Z_scope.

(* keep [cbn] from unfolding float and big-integer operations *)
#[local] Arguments F2Z_sat : simpl never.
#[local] Arguments F_add : simpl never.
#[local] Arguments F_cmp : simpl never.
#[local] Arguments F_div : simpl never.
#[local] Arguments F_eq : simpl never.
#[local] Arguments F_floor : simpl never.
#[local] Arguments F_fmod : simpl never.
#[local] Arguments F_lt : simpl never.
#[local] Arguments F_mul : simpl never.
#[local] Arguments F_neg : simpl never.
#[local] Arguments F_sub : simpl never.
#[local] Arguments SFcompare : simpl never.
#[local] Arguments Z.add : simpl never.
#[local] Arguments Z.compare : simpl never.
#[local] Arguments Z.div : simpl never.
#[local] Arguments Z.eqb : simpl never.
#[local] Arguments Z.land : simpl never.
#[local] Arguments Z.leb : simpl never.
#[local] Arguments Z.lnot : simpl never.
#[local] Arguments Z.lor : simpl never.
#[local] Arguments Z.lxor : simpl never.
#[local] Arguments Z.modulo : simpl never.
#[local] Arguments Z.mul : simpl never.
#[local] Arguments Z.pow : simpl never.
#[local] Arguments Z.sub : simpl never.
#[local] Arguments Z2F : simpl never.
#[local] Arguments as_i128 : simpl never.
#[local] Arguments cmp_nat_float : simpl never.
#[local] Arguments divmod_result : simpl never.
#[local] Arguments exact_f64 : simpl never.
#[local] Arguments exact_int : simpl never.
#[local] Arguments float_divmod : simpl never.
#[local] Arguments in_range : simpl never.
#[local] Arguments int_op : simpl never.
#[local] Arguments py_float_divmod : simpl never.
#[local] Arguments valid_binary : simpl never.

(** * ranges *)
Definition opnd (v : Z) : Prop := -2147483648 <= v <= 18446744073709551615.

Lemma in_range_iff : forall t v, in_range t v = true <-> ity_lo t <= v <= ity_hi t.
Proof. intros t v. unfold in_range. rewrite andb_true_iff, !Z.leb_le. tauto. Qed.

Lemma i32_opnd : forall v, in_range I32 v = true -> opnd v.
Proof. intros v H. apply in_range_iff in H. cbn in H. unfold opnd. lia. Qed.
Lemma u64_opnd : forall v, in_range U64 v = true -> opnd v.
Proof. intros v H. apply in_range_iff in H. cbn in H. unfold opnd. lia. Qed.

Lemma as_i128_id : forall v, opnd v -> as_i128 v = v.
Proof.
  intros v H. unfold as_i128, cast, wrap, opnd in *. cbn [ity_lo ity_hi].
  rewrite Z.mod_small; lia.
Qed.

Lemma try_from_some : forall t v x, try_from t v = Some x -> x = v /\ in_range t v = true.
Proof. unfold try_from. intros t v x. destruct (in_range t v); intros H; inversion H; auto. Qed.

(** * exact_int *)
Lemma exact_int_sound : forall v int x, exact_int v int = Some x ->
  (x = VInt v \/ x = VNat v) /\ wf_value x = true.
Proof.
  intros v int x. unfold exact_int.
  destruct (try_from I32 v) as [i|] eqn:E1; destruct (try_from U64 v) as [n|] eqn:E2;
    try apply try_from_some in E1; try apply try_from_some in E2;
    repeat match goal with H : _ /\ _ |- _ => destruct H end; subst;
    try destruct (int || (v <? 0)); cbn; intros H; inversion H; subst; cbn; auto.
Qed.

Lemma exact_int_same : forall v int x, exact_int v int = Some x -> same_value x (PInt v).
Proof. intros v int x H. apply exact_int_sound in H. destruct H as [[->| ->] _]; reflexivity. Qed.

(** * checked operations *)
Lemma checked_add_some : forall a b v, checked_add a b = Some v -> v = a + b.
Proof. unfold checked_add. intros a b v H. apply try_from_some in H. tauto. Qed.
Lemma checked_sub_some : forall a b v, checked_sub a b = Some v -> v = a - b.
Proof. unfold checked_sub. intros a b v H. apply try_from_some in H. tauto. Qed.
Lemma checked_mul_some : forall a b v, checked_mul a b = Some v -> v = a * b.
Proof. unfold checked_mul. intros a b v H. apply try_from_some in H. tauto. Qed.
Lemma checked_div_some : forall a b q, checked_div a b = Some q -> b <> 0 /\ q = Z.quot a b.
Proof.
  unfold checked_div. intros a b q. destruct (b =? 0) eqn:E; [discriminate|].
  apply Z.eqb_neq in E. destruct ((a =? ity_lo I128) && (b =? -1)); [discriminate|].
  intros H; inversion H; auto.
Qed.
Lemma checked_rem_some : forall a b q, checked_rem a b = Some q -> b <> 0 /\ q = Z.rem a b.
Proof.
  unfold checked_rem. intros a b q. destruct (b =? 0) eqn:E; [discriminate|].
  apply Z.eqb_neq in E. destruct ((a =? ity_lo I128) && (b =? -1)); [discriminate|].
  intros H; inversion H; auto.
Qed.

Lemma checked_pow_pos_some : forall p b v, checked_pow_pos b p = Some v -> v = b ^ Zpos p.
Proof.
  induction p as [q IH|q IH|]; intros b v; cbn [checked_pow_pos].
  - destruct (checked_pow_pos b q) as [h|] eqn:E; [|discriminate].
    destruct (checked_mul h h) as [h2|] eqn:E2; [|discriminate].
    intros H. apply checked_mul_some in H. apply checked_mul_some in E2. apply IH in E. subst.
    rewrite Pos2Z.inj_xI. rewrite Z.pow_add_r by lia. rewrite Z.pow_1_r.
    replace (2 * Z.pos q) with (Z.pos q + Z.pos q) by lia. rewrite Z.pow_add_r by lia. reflexivity.
  - destruct (checked_pow_pos b q) as [h|] eqn:E; [|discriminate].
    intros H. apply checked_mul_some in H. apply IH in E. subst.
    rewrite Pos2Z.inj_xO. replace (2 * Z.pos q) with (Z.pos q + Z.pos q) by lia. rewrite Z.pow_add_r by lia. reflexivity.
  - intros H; inversion H. rewrite Z.pow_1_r. reflexivity.
Qed.

Lemma pow_op_some : forall l r v, pow_op l r = Some v -> 0 <= r /\ v = l ^ r.
Proof.
  unfold pow_op. intros l r v. destruct (try_from U32 r) as [e|] eqn:E; [|discriminate].
  apply try_from_some in E. destruct E as [-> E]. apply in_range_iff in E. cbn in E.
  unfold checked_pow. destruct r as [|p|p]; intros H.
  - inversion H. split; [lia|]. reflexivity.
  - apply checked_pow_pos_some in H. split; [lia|auto].
  - lia.
Qed.

(** * floor division *)
Lemma floor_adjust : forall l r, r <> 0 ->
  let q := Z.quot l r in let m := Z.rem l r in
  (if negb (m =? 0) && negb (Bool.eqb (m <? 0) (r <? 0)) then (q - 1, m + r) else (q, m)) = (l / r, l mod r).
Proof.
  intros l r Hr q m.
  assert (Hqr : l = r * q + m) by (apply Z.quot_rem'; auto).
  assert (Habs : Z.abs m < Z.abs r) by (apply Z.rem_bound_abs; auto).
  assert (Hsgn : 0 <= m * l) by (apply Z.rem_sign_mul; auto).
  destruct (m =? 0) eqn:E0; cbn [negb andb].
  - apply Z.eqb_eq in E0.
    assert (Hq : q = l / r) by (apply Z.div_unique with (r := m); [lia | lia]).
    assert (Hm : m = l mod r) by (apply Z.mod_unique with (q := q); [lia | lia]).
    congruence.
  - apply Z.eqb_neq in E0.
    destruct (m <? 0) eqn:Em; destruct (r <? 0) eqn:Er; cbn [Bool.eqb negb];
      try apply Z.ltb_lt in Em; try apply Z.ltb_lt in Er; try apply Z.ltb_ge in Em; try apply Z.ltb_ge in Er.
    + assert (Hq : q = l / r) by (apply Z.div_unique with (r := m); [lia | lia]).
      assert (Hm : m = l mod r) by (apply Z.mod_unique with (q := q); [lia | lia]). congruence.
    + assert (Hq : q - 1 = l / r) by (apply Z.div_unique with (r := m + r); [lia | lia]).
      assert (Hm : m + r = l mod r) by (apply Z.mod_unique with (q := q - 1); [lia | lia]). congruence.
    + assert (Hq : q - 1 = l / r) by (apply Z.div_unique with (r := m + r); [lia | lia]).
      assert (Hm : m + r = l mod r) by (apply Z.mod_unique with (q := q - 1); [lia | lia]). congruence.
    + assert (Hq : q = l / r) by (apply Z.div_unique with (r := m); [lia | lia]).
      assert (Hm : m = l mod r) by (apply Z.mod_unique with (q := q); [lia | lia]). congruence.
Qed.

Lemma quot_bound : forall l r, r <> 0 -> Z.abs (Z.quot l r) <= Z.abs l.
Proof.
  intros l r Hr. rewrite Z.quot_div by auto.
  assert (H0 : 0 <= Z.abs l / Z.abs r) by (apply Z.div_pos; lia).
  assert (H1 : Z.abs l / Z.abs r <= Z.abs l) by (apply Z.div_le_upper_bound; nia).
  destruct (Z.sgn_spec l) as [[? E]|[[? E]|[? E]]]; destruct (Z.sgn_spec r) as [[? F]|[[? F]|[? F]]]; rewrite E, F; lia.
Qed.

Lemma floor_divmod_ok : forall debug l r, opnd l -> opnd r ->
  floor_divmod debug l r = if r =? 0 then Ok None else Ok (Some (l / r, l mod r)).
Proof.
  intros debug l r Hl Hr. unfold floor_divmod, checked_div, checked_rem.
  destruct (r =? 0) eqn:E; [reflexivity|]. apply Z.eqb_neq in E.
  replace (l =? ity_lo I128) with false by (symmetry; apply Z.eqb_neq; unfold opnd in Hl; cbn; lia).
  cbn [andb].
  pose proof (floor_adjust l r E) as FA. cbv zeta in FA.
  pose proof (quot_bound l r E) as QB.
  pose proof (Z.rem_bound_abs l r E) as RB.
  destruct (negb (Z.rem l r =? 0) && negb (Bool.eqb (Z.rem l r <? 0) (r <? 0))).
  - inversion FA as [[F1 F2]].
    unfold arith. unfold opnd in *.
    replace (in_range I128 (Z.quot l r - 1)) with true by (symmetry; apply in_range_iff; cbn; lia).
    cbn [bind].
    replace (in_range I128 (Z.rem l r + r)) with true by (symmetry; apply in_range_iff; cbn; lia).
    cbn [bind]. rewrite F1, F2. reflexivity.
  - inversion FA as [[F1 F2]]. rewrite F1, F2. reflexivity.
Qed.

Lemma int_op_pure : forall l r int f x, opnd l -> opnd r ->
  int_op l r int (pure_op f) = Ok (Some x) -> exists v, f l r = Some v /\ same_value x (PInt v).
Proof.
  intros l r int f x Hl Hr. unfold int_op, pure_op. rewrite !as_i128_id by auto. cbn [bind].
  destruct (f l r) as [v|]; [|discriminate]. intros H. inversion H as [H1].
  exists v. split; [reflexivity|]. eapply exact_int_same; eauto.
Qed.

Lemma int_op_pure_total : forall l r int f, int_op l r int (pure_op f) <> Panic.
Proof. intros. unfold int_op, pure_op. cbn [bind]. destruct (f _ _); discriminate. Qed.

Lemma divmod_result_sound : forall debug l r int pick x, opnd l -> opnd r ->
  divmod_result debug l r int pick = Ok (Some x) -> r <> 0 /\ same_value x (PInt (pick (l / r, l mod r))).
Proof.
  intros debug l r int pick x Hl Hr. unfold divmod_result, int_op. rewrite !as_i128_id by auto.
  rewrite floor_divmod_ok by auto. destruct (r =? 0) eqn:E; cbn [bind option_map]; [discriminate|].
  apply Z.eqb_neq in E. intros H. inversion H as [H1]. split; [auto|]. eapply exact_int_same; eauto.
Qed.
Lemma divmod_result_total : forall debug l r int pick, opnd l -> opnd r -> divmod_result debug l r int pick <> Panic.
Proof.
  intros debug l r int pick Hl Hr. unfold divmod_result, int_op. rewrite !as_i128_id by auto.
  rewrite floor_divmod_ok by auto. destruct (r =? 0); cbn [bind option_map]; discriminate.
Qed.

Lemma F_eq_zero : forall f, F_eq f F_zero = float_is_zero f.
Proof. intros [[]|[]| |[] m e]; reflexivity. Qed.

Lemma float_divmod_eq : forall l r, float_divmod l r = py_float_divmod l r.
Proof.
  intros l r. unfold float_divmod, py_float_divmod.
  destruct (F_nonzero (F_fmod l r)); [destruct (negb _)|]; cbv zeta beta iota; unfold F_nonzero;
    match goal with |- context [F_eq ?d F_zero] => destruct (F_eq d F_zero) end; reflexivity.
Qed.

Definition agrees (r : res (option value)) (p : pyres) : Prop :=
  forall v, r = Ok (Some v) -> exists v', p = PyOk v' /\ same_value v v'.

Ltac opnds := auto using i32_opnd, u64_opnd.

Ltac finish H :=
  inversion H; subst; clear H; eexists; split; [reflexivity | cbn; auto].

Ltac pure_case H :=
  apply int_op_pure in H; [| opnds | opnds];
  let v0 := fresh "v0" in let Hf := fresh "Hf" in let Hs := fresh "Hs" in
  destruct H as (v0 & Hf & Hs);
  first [apply checked_add_some in Hf | apply checked_sub_some in Hf | apply checked_mul_some in Hf];
  subst; eexists; split; [reflexivity | exact Hs].

Ltac pow_case H :=
  apply int_op_pure in H; [| opnds | opnds];
  let v0 := fresh "v0" in let Hf := fresh "Hf" in let Hs := fresh "Hs" in
  destruct H as (v0 & Hf & Hs); apply pow_op_some in Hf; destruct Hf as [Hf0 Hf1]; subst;
  match goal with |- context [0 <=? ?r] => replace (0 <=? r) with true by (symmetry; apply Z.leb_le; auto) end;
  eexists; split; [reflexivity | exact Hs].

Ltac divmod_case H :=
  apply divmod_result_sound in H; [| opnds | opnds];
  let Hz := fresh "Hz" in let Hs := fresh "Hs" in destruct H as [Hz Hs];
  eexists; split; [reflexivity | exact Hs].

Lemma eval_bin_agrees : forall debug op a b,
  wf_value a = true -> wf_value b = true -> int_fragment op a b || float_fragment op a b = true ->
  agrees (eval_bin debug op a b) (py_eval op (to_py a) (to_py b)).
Proof.
  intros debug op a b Wa Wb Hfrag v H.
  destruct a as [l|l|l|l|]; [| | | |discriminate Wa];
  destruct b as [r|r|r|r|]; try discriminate Wb;
  cbn [wf_value] in Wa, Wb.
  all: destruct op; try discriminate Hfrag.
  all: cbn [eval_bin] in H; unfold try_div, try_floordiv, try_mod in H.
  all: cbn [eval_bin try_add try_sub try_mul try_div try_floordiv try_mod try_pow try_gt try_ge try_lt try_le try_eq try_ne
            try_cmp_with eval_or eval_and eval_xor mul_result pow_result some_float some_bool none is_zero cmp_test] in H.
  all: cbn [py_eval py_arith as_num to_py to_float py_compare py_cmp py_bitop num_is_zero].
  all: try discriminate H.
  all: try solve [pure_case H].
  all: try solve [pow_case H].
  all: try solve [finish H].
  all: try (rewrite ?as_i128_id in H by opnds; solve [finish H]).
  all: try (rewrite F_eq_zero in H).
  all: try match type of H with (if ?c then _ else _) = _ => destruct c eqn:E0; [discriminate H|] end.
  all: try discriminate H.
  all: try solve [divmod_case H].
  all: try solve [finish H; rewrite <- ?float_divmod_eq; reflexivity].
Qed.

Lemma eval_bin_total : forall debug op a b,
  wf_value a = true -> wf_value b = true -> eval_bin debug op a b <> Panic.
Proof.
  intros debug op a b Wa Wb.
  destruct a as [l|l|l|l|]; [| | | |discriminate Wa];
  destruct b as [r|r|r|r|]; try discriminate Wb;
  cbn [wf_value] in Wa, Wb.
  all: destruct op; cbn [eval_bin]; unfold try_div, try_floordiv, try_mod, div_nat.
  all: cbn [try_add try_sub try_mul try_pow try_gt try_ge try_lt try_le try_eq try_ne
            try_cmp_with eval_or eval_and eval_xor mul_result pow_result some_float some_bool none is_zero].
  all: try discriminate.
  all: try apply int_op_pure_total.
  all: try match goal with |- (if ?c then _ else _) <> _ => destruct c end.
  all: try discriminate.
  all: try (apply divmod_result_total; auto using i32_opnd, u64_opnd).
  all: repeat match goal with |- context [exact_f64 ?x] => destruct (exact_f64 x) end; discriminate.
Qed.

(** * unary *)
Lemma eval_unary_total : forall debug op a, wf_value a = true -> eval_unary debug op a <> Panic.
Proof.
  intros debug op a Wa. destruct a; try discriminate Wa; destruct op; cbn [eval_unary some_float some_bool none];
    try discriminate; apply int_op_pure_total.
Qed.

Lemma eval_unary_agrees : forall debug op a v,
  wf_value a = true -> eval_unary debug op a = Ok (Some v) ->
  exists v', py_unary op (to_py a) = PyOk v' /\ same_value v v'.
Proof.
  intros debug op a v Wa H.
  destruct a as [l|l|l|l|]; [| | | |discriminate Wa]; cbn [wf_value] in Wa;
  destruct op; cbn [eval_unary some_float some_bool none] in H; cbn [py_unary to_py]; try discriminate H.
  all: try solve [inversion H; subst; eexists; split; [reflexivity | cbn; auto]].
  all: apply int_op_pure in H; [| unfold opnd; lia | auto using i32_opnd, u64_opnd].
  all: destruct H as (v0 & Hf & Hs); apply checked_sub_some in Hf; subst;
       eexists; split; [reflexivity | replace (- l) with (0 - l) by lia; exact Hs].
Qed.

(** * integer results are within the machine ranges *)
Definition int_wf (v : value) : Prop :=
  match v with
  | VInt i => in_range I32 i = true
  | VNat n => in_range U64 n = true
  | _ => True
  end.

Lemma i32_shift : forall x, in_range I32 x = true <-> (Z.shiftr x 31 = 0 \/ Z.shiftr x 31 = -1).
Proof.
  intros x. rewrite in_range_iff. cbn [ity_lo ity_hi]. rewrite Z.shiftr_div_pow2 by lia.
  change (2 ^ 31) with 2147483648.
  pose proof (Z.div_mod x 2147483648 ltac:(lia)) as D.
  pose proof (Z.mod_pos_bound x 2147483648 ltac:(lia)) as B.
  split; intros H; lia.
Qed.

Lemma bits01 : forall f : Z -> Z -> Z,
  (forall a b n, Z.shiftr (f a b) n = f (Z.shiftr a n) (Z.shiftr b n)) ->
  f 0 0 = 0 \/ f 0 0 = -1 -> f 0 (-1) = 0 \/ f 0 (-1) = -1 -> f (-1) 0 = 0 \/ f (-1) 0 = -1 ->
  f (-1) (-1) = 0 \/ f (-1) (-1) = -1 ->
  forall l r, in_range I32 l = true -> in_range I32 r = true -> in_range I32 (f l r) = true.
Proof.
  intros f Hs H00 H01 H10 H11 l r Hl Hr. apply i32_shift in Hl. apply i32_shift in Hr. apply i32_shift.
  rewrite Hs. destruct Hl as [-> | ->]; destruct Hr as [-> | ->]; auto.
Qed.
Lemma land_i32 : forall l r, in_range I32 l = true -> in_range I32 r = true -> in_range I32 (Z.land l r) = true.
Proof. apply bits01; [intros; apply Z.shiftr_land | | | |]; vm_compute; auto. Qed.
Lemma lor_i32 : forall l r, in_range I32 l = true -> in_range I32 r = true -> in_range I32 (Z.lor l r) = true.
Proof. apply bits01; [intros; apply Z.shiftr_lor | | | |]; vm_compute; auto. Qed.
Lemma lxor_i32 : forall l r, in_range I32 l = true -> in_range I32 r = true -> in_range I32 (Z.lxor l r) = true.
Proof. apply bits01; [intros; apply Z.shiftr_lxor | | | |]; vm_compute; auto. Qed.
Lemma lnot_i32 : forall l, in_range I32 l = true -> in_range I32 (Z.lnot l) = true.
Proof. intros l H. apply in_range_iff in H. apply in_range_iff. unfold Z.lnot. cbn [ity_lo ity_hi] in *. lia. Qed.

Lemma int_op_wf : forall l r int op x, int_op l r int op = Ok (Some x) -> int_wf x.
Proof.
  intros l r int op x. unfold int_op. destruct (op _ _) as [[v|]|]; cbn [bind]; try discriminate.
  intros H. inversion H as [H1]. apply exact_int_sound in H1. destruct H1 as [[-> | ->] W]; exact W.
Qed.

Lemma eval_bin_int_wf : forall debug op a b v,
  wf_value a = true -> wf_value b = true -> eval_bin debug op a b = Ok (Some v) -> int_wf v.
Proof.
  intros debug op a b v Wa Wb H.
  destruct a as [l|l|l|l|]; [| | | |discriminate Wa];
  destruct b as [r|r|r|r|]; try discriminate Wb;
  cbn [wf_value] in Wa, Wb.
  all: destruct op; cbn [eval_bin] in H; unfold try_div, try_floordiv, try_mod, div_nat in H.
  all: cbn [try_add try_sub try_mul try_pow try_gt try_ge try_lt try_le try_eq try_ne
            try_cmp_with eval_or eval_and eval_xor mul_result pow_result some_float some_bool none is_zero] in H.
  all: try discriminate H.
  all: try solve [eapply int_op_wf; eauto | unfold divmod_result in H; eapply int_op_wf; eauto].
  all: try solve [inversion H; subst; exact I].
  all: try match type of H with (if ?c then _ else _) = _ => destruct c; [discriminate H|] end.
  all: try discriminate H.
  all: try solve [eapply int_op_wf; eauto | unfold divmod_result in H; eapply int_op_wf; eauto].
  all: try solve [inversion H; subst; exact I].
  all: repeat match type of H with context [exact_f64 ?x] => destruct (exact_f64 x) end; try discriminate H.
  all: try solve [inversion H; subst; exact I].
  all: inversion H; subst; cbn [int_wf]; auto using land_i32, lor_i32, lxor_i32.
Qed.

Lemma eval_unary_int_wf : forall debug op a v,
  wf_value a = true -> eval_unary debug op a = Ok (Some v) -> int_wf v.
Proof.
  intros debug op a v Wa H.
  destruct a as [l|l|l|l|]; [| | | |discriminate Wa]; cbn [wf_value] in Wa;
  destruct op; cbn [eval_unary some_float some_bool none] in H; try discriminate H.
  all: try solve [eapply int_op_wf; eauto | unfold divmod_result in H; eapply int_op_wf; eauto].
  all: inversion H; subst; cbn [int_wf]; auto using lnot_i32.
  all: destruct l; reflexivity.
Qed.

(** * the executable judge is sound for the property *)
Lemma sf_eqb_eq : forall f g, sf_eqb f g = true -> f = g.
Proof.
  intros [s|s| |s m e] [t|t| |t n d]; cbn; try discriminate; auto.
  - intros H. apply eqb_prop in H. congruence.
  - intros H. apply eqb_prop in H. congruence.
  - intros H. apply andb_true_iff in H. destruct H as [H H3]. apply andb_true_iff in H. destruct H as [H1 H2].
    apply eqb_prop in H1. apply Pos.eqb_eq in H2. apply Z.eqb_eq in H3. congruence.
Qed.
Lemma same_valueb_sound : forall v p, same_valueb v p = true -> same_value v p.
Proof.
  intros [i|n|f|b|] [z|g|c]; cbn; try discriminate.
  - apply Z.eqb_eq. - apply Z.eqb_eq. - apply sf_eqb_eq. - apply eqb_prop.
Qed.

Lemma pow_pos_lim_some : forall p b v, pow_pos_lim b p = Some v -> v = b ^ Zpos p.
Proof.
  induction p as [q IH|q IH|]; intros b v; cbn [pow_pos_lim].
  - destruct (pow_pos_lim b q) as [h|] eqn:E; [|discriminate]. apply IH in E. subst.
    destruct (Z.abs _ <? pow_limit); [|discriminate]. intros H; inversion H.
    rewrite Pos2Z.inj_xI. rewrite Z.pow_add_r by lia. rewrite Z.pow_1_r.
    replace (2 * Z.pos q) with (Z.pos q + Z.pos q) by lia. rewrite Z.pow_add_r by lia. reflexivity.
  - destruct (pow_pos_lim b q) as [h|] eqn:E; [|discriminate]. apply IH in E. subst.
    destruct (Z.abs _ <? pow_limit); [|discriminate]. intros H; inversion H.
    rewrite Pos2Z.inj_xO. replace (2 * Z.pos q) with (Z.pos q + Z.pos q) by lia. rewrite Z.pow_add_r by lia. reflexivity.
  - destruct (Z.abs _ <? pow_limit); [|discriminate]. intros H; inversion H. rewrite Z.pow_1_r. reflexivity.
Qed.

Lemma py_eval_x_ok : forall op a b v, py_eval_x op a b = XOk v -> py_eval op a b = PyOk v.
Proof.
  intros op a b v. unfold py_eval_x.
  assert (G : match py_eval op a b with PyOk v0 => XOk v0 | PyRaise e => XRaise e | PyUnmodelled => XUnmodelled end = XOk v
              -> py_eval op a b = PyOk v).
  { destruct (py_eval op a b); intros H; inversion H; reflexivity. }
  destruct op; try exact G.
  destruct (as_num a) as [x|f] eqn:Ea; try exact G.
  destruct (as_num b) as [y|g] eqn:Eb; try exact G.
  destruct y as [|p|p]; try exact G.
  destruct (pow_pos_lim x p) as [w|] eqn:E; [|discriminate].
  intros H; inversion H; subst. apply pow_pos_lim_some in E. subst.
  unfold py_eval. rewrite Ea, Eb. reflexivity.
Qed.

Lemma judge_bin_sound : forall op a b r, judge_bin op a b r = 1 ->
  r <> Panic /\ (forall v, r = Ok (Some v) -> exists v', py_eval op (to_py a) (to_py b) = PyOk v' /\ same_value v v').
Proof.
  intros op a b r. unfold judge_bin, verdict_of.
  destruct r as [[v|]|]; try discriminate.
  - destruct (py_eval_x op (to_py a) (to_py b)) as [v'| | |] eqn:E; try discriminate.
    destruct (same_valueb v v') eqn:S; [|discriminate]. intros _. split; [discriminate|].
    intros v0 H0. inversion H0; subst. exists v'. split; [apply py_eval_x_ok; auto | apply same_valueb_sound; auto].
  - intros _. split; [discriminate|]. intros v H; discriminate H.
Qed.

(** * the public entry points answer like [eval_bin] or not at all *)
Lemma apis_refine : forall debug op a b,
  (try_direct debug op a b = Ok None \/ try_direct debug op a b = eval_bin debug op a b) /\
  (try_binary debug op a b = Ok None \/ try_binary debug op a b = eval_bin debug op a b).
Proof.
  intros debug op a b. split.
  - destruct op; cbn [try_direct eval_bin]; auto.
    destruct a, b; cbn; auto.
  - destruct op; cbn [try_binary eval_bin]; auto.
Qed.

Lemma eval_bin_agrees_int : forall debug op a b v,
  wf_value a = true -> wf_value b = true -> int_fragment op a b = true ->
  eval_bin debug op a b = Ok (Some v) ->
  exists v', py_eval op (to_py a) (to_py b) = PyOk v' /\ same_value v v'.
Proof.
  intros debug op a b v Wa Wb F H.
  apply (eval_bin_agrees debug op a b Wa Wb); [rewrite F; reflexivity | exact H].
Qed.
Lemma eval_bin_agrees_float : forall debug op a b v,
  wf_value a = true -> wf_value b = true -> float_fragment op a b = true ->
  eval_bin debug op a b = Ok (Some v) ->
  exists v', py_eval op (to_py a) (to_py b) = PyOk v' /\ same_value v v'.
Proof.
  intros debug op a b v Wa Wb F H.
  apply (eval_bin_agrees debug op a b Wa Wb); [rewrite F; apply orb_true_r | exact H].
Qed.

(** agreement on everything outside the known-finding class and the class carried by correspondence *)
Lemma eval_bin_agrees_guarded : forall debug op a b v,
  wf_value a = true -> wf_value b = true -> Known_C04 op a b = false -> By_correspondence_C04 op a b = false ->
  eval_bin debug op a b = Ok (Some v) ->
  exists v', py_eval op (to_py a) (to_py b) = PyOk v' /\ same_value v v'.
Proof.
  intros debug op a b v Wa Wb K C H.
  destruct (int_fragment op a b || float_fragment op a b) eqn:F.
  - exact (eval_bin_agrees debug op a b Wa Wb F v H).
  - exfalso.
    destruct a as [l|l|l|l|]; [| | | |discriminate Wa];
    destruct b as [r|r|r|r|]; try discriminate Wb;
    destruct op; try discriminate F; try discriminate K; try discriminate C;
    cbn [eval_bin eval_or eval_and eval_xor none] in H; discriminate H.
Qed.

Lemma known_class_refuted : exists op a b v,
  wf_value a = true /\ wf_value b = true /\ Known_C04 op a b = true /\
  eval_bin true op a b = Ok (Some v) /\ forall v', py_eval op (to_py a) (to_py b) <> PyOk v'.
Proof.
  exists OPow, (VFloat (S754_zero false)), (VFloat (Z2F (-1))), VFloatUnk.
  repeat split; try reflexivity. intros v' E. discriminate E.
Qed.
