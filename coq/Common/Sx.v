(** Wire format between the python harness and extracted models: integers and nested lists. *)
From Coq Require Import ZArith List.
Import ListNotations.
Open Scope Z_scope.

Inductive sx : Type :=
| SZ (z : Z)
| SL (l : list sx).

Definition sx_z (x : sx) : Z := match x with SZ z => z | SL _ => 0 end.
Definition sx_l (x : sx) : list sx := match x with SL l => l | SZ _ => [] end.
Definition sx_zs (x : sx) : list Z := map sx_z (sx_l x).
Definition sx_nth (x : sx) (n : nat) : sx := nth n (sx_l x) (SL []).
Definition sx_bool (b : bool) : sx := SZ (if b then 1 else 0).
Definition sx_of_zs (l : list Z) : sx := SL (map SZ l).
Definition sx_nat (n : nat) : sx := SZ (Z.of_nat n).
Definition sx_to_nat (x : sx) : nat := Z.to_nat (sx_z x).
Definition sx_to_bool (x : sx) : bool := negb (Z.eqb (sx_z x) 0).
