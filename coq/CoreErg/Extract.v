(** extraction entry point for CoreErg: evaluator (and, for C01, the codegen model) on the sx wire format *)
From Coq Require Import ZArith List Bool.
From ErgV Require Import Common.Sx CoreErg.Syntax CoreErg.Sem.
Import ListNotations.
Open Scope Z_scope.

Definition enc_status (s : status) : sx :=
  match s with
  | Exit0 => SZ 0
  | Uncaught e => SZ (exn_code e)
  | FuelOut => SZ (-998)
  end.

Definition enc_outcome (o : outcome) : sx :=
  SL [enc_status (snd o); SL (map sx_of_zs (fst o))].

(** modes:
    (0 fuel program)   -> (status (line ...))   status 0 = normal exit, 1.. = exception class (Sem.exn_code),
                                               -998 out of fuel;  (-997) = the program does not decode *)
Definition run (x : sx) : sx :=
  let mode := sx_z (sx_nth x 0) in
  if mode =? 0 then
    match dec_program (sx_nth x 2) with
    | Some p => enc_outcome (Sem.run_program (sx_to_nat (sx_nth x 1)) p)
    | None => SL [SZ (-997)]
    end
  else SL [SZ (-996)].

Require Extraction.
Require Import ExtrOcamlBasic.
Extraction Language OCaml.
Extraction "model.ml" run.
