(** extraction entry point for CoreErg: evaluator, codegen model, VM model, C01 judge/classifiers on the sx wire format *)
From Coq Require Import ZArith List Bool.
From ErgV Require Import Common.Sx CoreErg.Syntax CoreErg.Sem CoreErg.Codegen CoreErg.VM CoreErg.Spec_C01.
Import ListNotations.
Open Scope Z_scope.

Definition enc_status (s : status) : sx :=
  match s with
  | Exit0 => SZ 0
  | Uncaught e => SZ (exn_code e)
  | FuelOut => SZ (-998)
  end.

Definition enc_outcome (o : outcome) : sx :=
  SL [enc_status (snd o); SL (map sx_of_zs (fst o))].

(* constants: (0 n) Nat | (1 z) Int | (2 bits) Float | (3 (cp..)) Str | (4 b) Bool | (5) None | (6 k) opaque *)
Definition enc_const (c : constv) : sx :=
  match c with
  | CNat n => SL [SZ 0; SZ n]
  | CInt z => SL [SZ 1; SZ z]
  | CFloat b => SL [SZ 2; SZ b]
  | CStr s => SL [SZ 3; sx_of_zs s]
  | CBool b => SL [SZ 4; sx_bool b]
  | CNone => SL [SZ 5]
  | COpaque k => SL [SZ 6; SZ k]
  end.

Definition dec_const (x : sx) : constv :=
  let k := sx_z (sx_nth x 0) in
  if k =? 0 then CNat (sx_z (sx_nth x 1))
  else if k =? 1 then CInt (sx_z (sx_nth x 1))
  else if k =? 2 then CFloat (sx_z (sx_nth x 1))
  else if k =? 3 then CStr (sx_zs (sx_nth x 1))
  else if k =? 4 then CBool (sx_to_bool (sx_nth x 1))
  else if k =? 5 then CNone
  else COpaque (sx_z (sx_nth x 1)).

Definition wrap_code (w : wrapc) : Z :=
  match w with WNone => 0 | WNat => 1 | WInt => 2 | WFloat => 3 | WStr => 4 | WBool => 5 | WList => 6 end.

(* names: (0 k) prelude name | (1) print | (2 w) runtime class | (3 x) variable *)
Definition enc_name (n : name) : sx :=
  match n with
  | NPre k => SL [SZ 0; SZ k]
  | NPrint => SL [SZ 1]
  | NCls w => SL [SZ 2; SZ (wrap_code w)]
  | NVar x => SL [SZ 3; SZ x]
  end.

Definition dec_name (x : sx) : name :=
  let k := sx_z (sx_nth x 0) in
  if k =? 1 then NPrint
  else if k =? 2 then NCls (match dec_wrap (sx_z (sx_nth x 1)) with Some w => w | None => WNone end)
  else if k =? 3 then NVar (sx_z (sx_nth x 1))
  else NPre (sx_z (sx_nth x 1)).

Definition dec_pools (cs ns : sx) : pools := mkPools (map dec_const (sx_l cs)) (map dec_name (sx_l ns)).

Definition enc_compiled (r : cres (list cunit * pools)) : sx :=
  match r with
  | COk (code, p) =>
    SL [SZ 0; SL (map (fun u => SL [SZ (opcode_num (fst u)); SZ (snd u)]) code);
        SL (map enc_const (p_consts p)); SL (map enc_name (p_names p))]
  | CPanic site => SL [SZ (-1000 - site)]
  end.

Definition enc_vm_outcome (o : vm_outcome) : sx :=
  SL [match snd o with Some s => enc_status s | None => SZ (-995) end; SL (map sx_of_zs (fst o))].

(** modes (first element):
    (0 fuel program)                      -> (status (line ...))   Sem.run: status 0 = normal exit, 1.. = exception class
                                             (Sem.exn_code), -998 out of fuel
    (1 pre_consts pre_names program old?) -> (0 ((opcode arg) ...) (const ...) (name ...)) | (-1000-site)  Codegen.compile
                                             after a prelude with the given pools; old? = 1 selects ValueObj's == pool lookup
    (2 pre_consts pre_names program)      -> (status (line ...))   VM.exec of the model's code; -995 = stuck
    (3 program)                           -> (all_in_fragment wraps_ok known_marshal_nat known_nat_cast known_enum_arith known_quote_ambiguity known_float_unify known_enum_guard known_expr_guard_cast)
    (4 fuel program status (line ...))    -> 0/1                   Spec_C01.judge
    any mode: (-997) when the program does not decode *)
Definition run (x : sx) : sx :=
  let mode := sx_z (sx_nth x 0) in
  if mode =? 0 then
    match dec_program (sx_nth x 2) with
    | Some p => enc_outcome (Sem.run_program (sx_to_nat (sx_nth x 1)) p)
    | None => SL [SZ (-997)]
    end
  else if mode =? 1 then
    match dec_program (sx_nth x 3) with
    | Some p =>
      let pre := dec_pools (sx_nth x 1) (sx_nth x 2) in
      enc_compiled (if sx_z (sx_nth x 4) =? 1 then compile_old pre p else compile pre p)
    | None => SL [SZ (-997)]
    end
  else if mode =? 2 then
    match dec_program (sx_nth x 3) with
    | Some p =>
      match compile (dec_pools (sx_nth x 1) (sx_nth x 2)) p with
      | COk (code, P) => enc_vm_outcome (VM.exec (p_consts P) (p_names P) code)
      | CPanic site => SL [SZ (-1000 - site)]
      end
    | None => SL [SZ (-997)]
    end
  else if mode =? 3 then
    match dec_program (sx_nth x 1) with
    | Some p =>
      SL [sx_bool (forallb (stmt_in_frag) p); sx_bool (prog_wraps_okb [] p);
          sx_bool (known_marshal_nat p); sx_bool (known_nat_cast p); sx_bool (known_enum_arith p);
          sx_bool (known_quote_ambiguity p); sx_bool (known_float_unify p); sx_bool (known_enum_guard p); sx_bool (known_expr_guard_cast p)]
    | None => SL [SZ (-997)]
    end
  else if mode =? 4 then
    match dec_program (sx_nth x 2) with
    | Some p => sx_bool (judge (sx_to_nat (sx_nth x 1)) p (map sx_zs (sx_l (sx_nth x 4))) (sx_z (sx_nth x 3)))
    | None => SL [SZ (-997)]
    end
  else SL [SZ (-996)].

Require Extraction.
Require Import ExtrOcamlBasic.
Extraction Language OCaml.
Extraction "model.ml" run.
