(** * CoreErg.Codegen — model of crates/erg_compiler/codegen.rs for the expression/statement fragment,
    default target (Python 3.11).

    Transcribed functions (file codegen.rs unless said otherwise):
      emit (module level: chunk loop, POP_TOP after a chunk that leaves a value, cancel_if_pop_top, final
      LOAD_CONST None / RETURN_VALUE), emit_chunk, emit_expr (wrapping of Literal/Accessor/Call/BinOp/UnaryOp values in
      the runtime classes Nat/Int/Float/Str/Bool: PUSH_NULL; LOAD_NAME cls; ...; PRECALL 1; CALL 1),
      emit_load_const / register_const (constant pool with de-duplication), emit_load_name_instr / emit_store_instr /
      local_search / register_name (module level: one [names] vector, LOAD_NAME / STORE_NAME), write_arg + extend_arg
      (EXTENDED_ARG prefixes for arguments above 255), emit_unaryop, emit_binop (BINARY_OP / COMPARE_OP with their inline
      cache entries, short-circuit and/or: EXTENDED_ARG 0; JUMP_IF_x_OR_POP 0 patched by fill_jump), emit_not_instr,
      emit_call_local for print! (PUSH_NULL; LOAD_NAME print; args; PRECALL n; CALL n), emit_precall_and_call,
      emit_var_def.
    Output: code units (opcode, one argument byte), i.e. the bytes of co_code two by two, inline cache entries included,
    plus the constant pool and the name table.  The prelude (imports emitted by load_prelude) is not modelled: its
    constant pool and name table are *inputs* (read from the real .pyc by the check).

    Explicit [CPanic]: write_arg's u32::try_from(arg).unwrap() and fill_jump's u16::try_from(arg).unwrap().
    Not modelled: stack-size bookkeeping (stack_inc/stack_dec, debug_assert on stack_len: co_stacksize is C14's), line
    table, the unary operators' ignored argument byte (TypeCode), other targets than 3.11.

    The constant pool equality is a parameter ([same]): [const_same] is the repaired lookup (same variant and same
    bits), [const_eq_old] is ValueObj's == as used before the repair (0.0 == -0.0, Int i == Nat n when i as u64 == n). *)
From Coq Require Import ZArith List Bool Lia.
From ErgV Require Import Common.Sx CoreErg.Syntax CoreErg.Sem.
Import ListNotations.
Open Scope Z_scope.

Inductive opcode :=
| CACHE | POP_TOP | PUSH_NULL | NOP | UNARY_POSITIVE | UNARY_NEGATIVE | UNARY_NOT | UNARY_INVERT | RETURN_VALUE
| STORE_NAME | LOAD_CONST | LOAD_NAME | COMPARE_OP | JUMP_IF_FALSE_OR_POP | JUMP_IF_TRUE_OR_POP | BINARY_OP
| EXTENDED_ARG | RESUME | PRECALL | CALL.

(* opcode numbers of CPython 3.11 (crates/erg_common/opcode311.rs); cross-checked against dis.opmap by the check *)
Definition opcode_num (o : opcode) : Z :=
  match o with
  | CACHE => 0 | POP_TOP => 1 | PUSH_NULL => 2 | NOP => 9 | UNARY_POSITIVE => 10 | UNARY_NEGATIVE => 11 | UNARY_NOT => 12
  | UNARY_INVERT => 15 | RETURN_VALUE => 83 | STORE_NAME => 90 | LOAD_CONST => 100 | LOAD_NAME => 101 | COMPARE_OP => 107
  | JUMP_IF_FALSE_OR_POP => 111 | JUMP_IF_TRUE_OR_POP => 112 | BINARY_OP => 122 | EXTENDED_ARG => 144 | RESUME => 151
  | PRECALL => 166 | CALL => 171
  end.

Definition cunit := (opcode * Z)%type.

(** constants as ValueObj variants *)
Inductive constv :=
| CNat (n : Z) | CInt (z : Z) | CFloat (bits : Z) | CStr (s : list Z) | CBool (b : bool) | CNone
| COpaque (k : Z).     (* prelude constants other than ints and strings (tuples of names) *)

Fixpoint zs_eqb (a b : list Z) : bool :=
  match a, b with
  | [], [] => true
  | x :: r, y :: s => (x =? y) && zs_eqb r s
  | _, _ => false
  end.

(* the repaired pool lookup: same variant and same representation *)
Definition const_same (a b : constv) : bool :=
  match a, b with
  | CNat x, CNat y => x =? y
  | CInt x, CInt y => x =? y
  | CFloat x, CFloat y => x =? y
  | CStr x, CStr y => zs_eqb x y
  | CBool x, CBool y => Bool.eqb x y
  | CNone, CNone => true
  | COpaque x, COpaque y => x =? y
  | _, _ => false
  end.

(* ValueObj::eq (ty/value.rs) restricted to these variants: f1 == f2 on f64 (so 0.0 == -0.0, nan != nan),
   Int(i) == Nat(n) iff (i as u64) == n *)
Definition const_eq_old (a b : constv) : bool :=
  match a, b with
  | CNat x, CNat y => x =? y
  | CInt x, CInt y => x =? y
  | CInt i, CNat n | CNat n, CInt i => (i mod 18446744073709551616) =? n
  | CFloat x, CFloat y =>
    match cmp_float x y with Some Eq => true | _ => false end
  | CStr x, CStr y => zs_eqb x y
  | CBool x, CBool y => Bool.eqb x y
  | CNone, CNone => true
  | COpaque x, COpaque y => x =? y
  | _, _ => false
  end.

Definition const_of_lit (l : lit) : constv :=
  match l with
  | LNat n => CNat n
  | LNeg z => CInt z
  | LFloat b => CFloat b
  | LStr s => CStr s
  | LBool b => CBool b
  | LNone => CNone
  end.

(** what LOAD_CONST pushes, assuming the constant is marshalled faithfully (that is property C15) *)
Definition cval (c : constv) : value :=
  match c with
  | CNat n => VInt n
  | CInt z => VInt z
  | CFloat b => VFloat b
  | CStr s => VStr s
  | CBool b => VBool b
  | CNone => VNone
  | COpaque _ => VNone
  end.

Inductive name :=
| NPre (k : Z)            (* names registered by the prelude *)
| NPrint
| NCls (c : wrapc)        (* Nat Int Float Str Bool (List) *)
| NVar (x : Z).           (* ::v<x>_L<line> *)

Definition wrapc_eqb (a b : wrapc) : bool :=
  match a, b with
  | WNone, WNone | WNat, WNat | WInt, WInt | WFloat, WFloat | WStr, WStr | WBool, WBool | WList, WList => true
  | _, _ => false
  end.

Definition name_eqb (a b : name) : bool :=
  match a, b with
  | NPre x, NPre y => x =? y
  | NPrint, NPrint => true
  | NCls x, NCls y => wrapc_eqb x y
  | NVar x, NVar y => x =? y
  | _, _ => false
  end.

Inductive cres (A : Type) :=
| COk (a : A)
| CPanic (site : Z).      (* 1 write_arg: u32::try_from, 2 fill_jump: u16::try_from *)
Arguments COk {A} a.
Arguments CPanic {A} site.

Definition cbind {A B} (r : cres A) (f : A -> cres B) : cres B :=
  match r with COk a => f a | CPanic s => CPanic s end.

Record pools := mkPools { p_consts : list constv; p_names : list name }.

Fixpoint position {A} (f : A -> bool) (l : list A) (i : Z) : option Z :=
  match l with
  | [] => None
  | x :: r => if f x then Some i else position f r (i + 1)
  end.

Section Codegen.
  Variable same : constv -> constv -> bool.

  (* register_const / the lookup of emit_load_const: .iter().position(|c| c == &value).unwrap_or_else(push) *)
  Definition register_const (p : pools) (c : constv) : Z * pools :=
    match position (fun c' => same c' c) (p_consts p) 0 with
    | Some i => (i, p)
    | None => (Z.of_nat (length (p_consts p)), mkPools (p_consts p ++ [c]) (p_names p))
    end.

  (* local_search + register_name at module level *)
  Definition register_name (p : pools) (n : name) : Z * pools :=
    match position (name_eqb n) (p_names p) 0 with
    | Some i => (i, p)
    | None => (Z.of_nat (length (p_names p)), mkPools (p_consts p) (p_names p ++ [n]))
    end.

  (* write_instr + write_arg (with extend_arg) for a non-jump instruction *)
  Definition write_op (op : opcode) (arg : Z) : cres (list cunit) :=
    if arg <? 256 then COk [(op, arg)]
    else if arg <? 65536 then COk [(EXTENDED_ARG, arg / 256); (op, arg mod 256)]
    else if arg <? 4294967296 then
      COk [(EXTENDED_ARG, arg / 16777216); (EXTENDED_ARG, (arg / 65536) mod 256); (EXTENDED_ARG, (arg / 256) mod 256);
           (op, arg mod 256)]
    else CPanic 1.

  Definition emit_load_const (p : pools) (c : constv) : cres (list cunit * pools) :=
    let '(i, p') := register_const p c in
    cbind (write_op LOAD_CONST i) (fun code => COk (code, p')).

  Definition emit_load_name (p : pools) (n : name) : cres (list cunit * pools) :=
    let '(i, p') := register_name p n in
    cbind (write_op LOAD_NAME i) (fun code => COk (code, p')).

  Definition emit_store_name (p : pools) (n : name) : cres (list cunit * pools) :=
    let '(i, p') := register_name p n in
    cbind (write_op STORE_NAME i) (fun code => COk (code, p')).

  (* emit_precall_and_call: PRECALL argc + 1 cache entry, CALL argc + 4 cache entries *)
  Definition emit_call (argc : Z) : cres (list cunit) :=
    cbind (write_op PRECALL argc) (fun c1 =>
    cbind (write_op CALL argc) (fun c2 =>
      COk (c1 ++ [(CACHE, 0)] ++ c2 ++ [(CACHE, 0); (CACHE, 0); (CACHE, 0); (CACHE, 0)]))).

  Definition binop_arg (op : arith) : Z :=
    match op with
    | OAdd => 0 | OFloorDiv => 2 | OMul => 5 | OMod => 6 | OPow => 8 | OSub => 10 | ODiv => 11
    end.
  Definition cmp_arg (op : cmpop) : Z :=
    match op with CLt => 0 | CLe => 1 | CEq => 2 | CNe => 3 | CGt => 4 | CGe => 5 end.
  Definition unary_opcode (op : unop) : opcode :=
    match op with UNeg => UNARY_NEGATIVE | UPos => UNARY_POSITIVE | UNot => UNARY_NOT | UInv => UNARY_INVERT end.

  (** the fragment of Codegen.v / the theorems *)
  Fixpoint in_frag (e : expr) : bool :=
    match e with
    | ELit _ _ | EVar _ _ => true
    | EUn _ _ a => in_frag a
    | EBin _ _ a b | ECmp _ _ a b | ELogic _ _ a b => in_frag a && in_frag b
    | _ => false
    end.

  (* emit_expr's wrapping: if expr.should_wrap() and the type is Bool/Nat/Int/Float/Str then
     PUSH_NULL; LOAD_NAME cls; <body>; PRECALL 1; CALL 1 *)
  Definition is_wrapped (w : wrapc) : bool := match w with WNone | WList => false | _ => true end.

  Definition emit_wrapped (w : wrapc) (p : pools) (body : pools -> cres (list cunit * pools)) : cres (list cunit * pools) :=
    if is_wrapped w then
      cbind (emit_load_name p (NCls w)) (fun cl =>
      cbind (body (snd cl)) (fun cb =>
      cbind (emit_call 1) (fun cc => COk ((PUSH_NULL, 0) :: fst cl ++ fst cb ++ cc, snd cb))))
    else body p.

  (* emit_expr; outside the fragment the model has nothing to say: CPanic 0 *)
  Fixpoint emit_expr (p : pools) (e : expr) : cres (list cunit * pools) :=
    emit_wrapped (wrap_of e) p (fun p0 =>
      match e with
      | ELit _ l => emit_load_const p0 (const_of_lit l)
      | EVar _ x => emit_load_name p0 (NVar x)
      | EUn _ op a =>
        cbind (emit_expr p0 a) (fun ca => COk (fst ca ++ [(unary_opcode op, 0)], snd ca))
      | EBin _ op a b =>
        cbind (emit_expr p0 a) (fun ca =>
        cbind (emit_expr (snd ca) b) (fun cb =>
        cbind (write_op BINARY_OP (binop_arg op)) (fun co =>
          COk (fst ca ++ fst cb ++ co ++ [(CACHE, 0)], snd cb))))
      | ECmp _ op a b =>
        cbind (emit_expr p0 a) (fun ca =>
        cbind (emit_expr (snd ca) b) (fun cb =>
        cbind (write_op COMPARE_OP (cmp_arg op)) (fun co =>
          COk (fst ca ++ fst cb ++ co ++ [(CACHE, 0); (CACHE, 0)], snd cb))))
      | ELogic _ is_or a b =>
        cbind (emit_expr p0 a) (fun ca =>
        cbind (emit_expr (snd ca) b) (fun cb =>
          (* idx = lasti; EXTENDED_ARG 0; JUMP 0; rhs; fill_jump(idx + 1, (lasti - idx - 4) / 2) *)
          let arg := Z.of_nat (length (fst cb)) in
          if arg <? 65536 then
            COk (fst ca ++ [(EXTENDED_ARG, arg / 256);
                            ((if is_or then JUMP_IF_TRUE_OR_POP else JUMP_IF_FALSE_OR_POP), arg mod 256)] ++ fst cb,
                 snd cb)
          else CPanic 2))
      | _ => CPanic 0
      end).

  Fixpoint emit_args (p : pools) (es : list expr) : cres (list cunit * pools) :=
    match es with
    | [] => COk ([], p)
    | e :: r =>
      cbind (emit_expr p e) (fun ce =>
      cbind (emit_args (snd ce) r) (fun cr => COk (fst ce ++ fst cr, snd cr)))
    end.

  Definition stmt_in_frag (s : stmt) : bool :=
    match s with
    | SDef _ _ e => in_frag e
    | SPrint es => forallb in_frag es
    | _ => false
    end.

  (* emit_chunk for a definition (emit_def -> emit_var_def) / a print! call (emit_call -> emit_call_local) *)
  Definition emit_chunk (p : pools) (s : stmt) : cres (list cunit * pools) :=
    match s with
    | SDef x _ e =>
      cbind (emit_expr p e) (fun ce =>
      cbind (emit_store_name (snd ce) (NVar x)) (fun cs => COk (fst ce ++ fst cs, snd cs)))
    | SPrint es =>
      cbind (emit_load_name p NPrint) (fun cp =>
      cbind (emit_args (snd cp) es) (fun ca =>
      cbind (emit_call (Z.of_nat (length es))) (fun cc =>
        COk ([(PUSH_NULL, 0)] ++ fst cp ++ fst ca ++ cc, snd ca))))
    | _ => CPanic 0
    end.

  (* does the chunk leave a value on the stack (stack_len == 1 after emit_chunk)? *)
  Definition leaves_value (s : stmt) : bool := match s with SPrint _ => true | _ => false end.

  (* the module loop of emit: for chunk in hir.module { emit_chunk(chunk); if stack_len == 1 { emit_pop_top() } } *)
  Fixpoint emit_stmts (p : pools) (ss : list stmt) : cres (list cunit * pools) :=
    match ss with
    | [] => COk ([], p)
    | s :: r =>
      cbind (emit_chunk p s) (fun cs =>
      cbind (emit_stmts (snd cs) r) (fun cr =>
        COk (fst cs ++ (if leaves_value s then [(POP_TOP, 0)] else []) ++ fst cr, snd cr)))
    end.

  Definition ends_with_pop (code : list cunit) : bool :=
    match rev code with
    | (POP_TOP, _) :: _ => true
    | _ => false
    end.

  (* PyCodeGenerator::emit after the prelude: chunks; cancel_if_pop_top; LOAD_CONST None unless a value is left; RETURN_VALUE *)
  Definition compile_module (pre : pools) (prog : program) : cres (list cunit * pools) :=
    cbind (emit_stmts pre prog) (fun cs =>
      let '(code, p) := cs in
      if ends_with_pop code then
        COk (removelast code ++ [(RETURN_VALUE, 0)], p)
      else
        cbind (emit_load_const p CNone) (fun cn => COk (code ++ fst cn ++ [(RETURN_VALUE, 0)], snd cn))).
End Codegen.

Definition compile := compile_module const_same.
Definition compile_old := compile_module const_eq_old.
