(** * Property C01 — compiled bytecode computes what the source program means.

    Full statement (for the real compiler): for every program p of the checked fragment that erg accepts,
    running the bytecode erg produces prints exactly [fst (Sem.run fuel p)] and ends with status [snd (Sem.run fuel p)],
    for every literal value (naturals >= 2^31, signed zeros included).

    What is proved here (level: proof, PARTIAL): the statement for the *model* of codegen.rs (Codegen.v) executed by the
    model of the CPython 3.11 loop (VM.v), for the expression/statement fragment: literals of every kind and value,
    variables, unary and binary arithmetic, comparisons, short-circuit and/or, not, definitions, print! — programs of any
    length and expressions of any depth.  Control flow, functions, lists and the rest of the fragment are tied to the
    real compiler by the three-way differential of checks/c01.py only; the model itself is tied to the real compiler
    by comparing, program by program, its output with the decoded .pyc (code units, constant pool, names).
    Hypotheses: (1) the compiler model does not hit an unwrap ([COk]); (2) [prog_wraps_ok]: every value that the
    generated code passes to a runtime class Nat/Int/Float/Str/Bool fits that class — decided by evaluation
    ([prog_wraps_okb], theorem [wraps_checked]) for each tested program; (3) constants are unmarshalled faithfully
    ([cval]; that is property C15); (4) the evaluator is given enough fuel (irrelevant inside the fragment). *)
From Coq Require Import ZArith List Bool.
From ErgV Require Import Common.Sx CoreErg.Syntax CoreErg.Sem CoreErg.Codegen CoreErg.VM CoreErg.Spec_C01 CoreErg.Proofs_C01.
Import ListNotations.
Open Scope Z_scope.

(** expressions of any depth, any literal values: the emitted code pushes the value of the expression, or halts with the
    exception the expression raises; whatever code follows, whatever pools the rest of the module adds *)
Theorem compile_correct : forall e, in_frag e = true ->
  forall p code p', emit_expr const_same p e = COk (code, p') ->
  forall P, extends p' P -> forall st, vext st = 0 -> wraps_ok (venv st) e ->
    match eval0 (venv st) e with
    | Ok v => run_prefix (p_consts P) (p_names P) code 0 st = Reached 0 (with_stack st (SV v :: stack st))
    | Raise ex => run_prefix (p_consts P) (p_names P) code 0 st = Halted (rev (vout st), Some (Uncaught ex))
    | OutOfFuel => True
    end.
Proof.
  intros e Hf p code p' H P HP st Hx Hw.
  destruct (emit_expr_correct const_same const_same_sound e Hf p code p' H) as [_ Hc].
  exact (Hc P (venv st) HP Hw st Hx eq_refl).
Qed.

(** whole modules of definitions and print! statements: executing the compiled module prints what the program means
    and ends the same way *)
Theorem compile_stmt_correct : forall pre prog code P fuel,
  forallb stmt_in_frag prog = true ->
  compile pre prog = COk (code, P) ->
  prog_wraps_ok [] prog ->
  snd (run fuel prog) <> FuelOut ->
  VM.exec (p_consts P) (p_names P) code = (fst (run fuel prog), Some (snd (run fuel prog))).
Proof.
  intros pre prog code P fuel Hf H Hw Hfuel.
  exact (compile_module_correct const_same const_same_sound pre prog code P fuel Hf H Hw Hfuel).
Qed.

(** hypothesis (2) is decidable by evaluation: the check runs the extracted [prog_wraps_okb] on every program *)
Theorem wraps_checked : forall prog, prog_wraps_okb [] prog = true -> prog_wraps_ok [] prog.
Proof. intros prog H. exact (prog_wraps_okb_sound prog [] H). Qed.

(** the constant pool lookup as it was before the repair (ValueObj's ==) is NOT correct: -0.0 reuses the slot of 0.0.
    Witness: print! 0.0 ; print! -0.0  (the same program replayed on the real compiler is the C01 finding that was fixed) *)
Definition signed_zero_program : program :=
  [SPrint [ELit WFloat (LFloat 0)]; SPrint [ELit WFloat (LFloat sign_bit)]].

Theorem old_pool_refuted : exists code P,
  compile_old (mkPools [] []) signed_zero_program = COk (code, P) /\
  prog_wraps_okb [] signed_zero_program = true /\
  VM.exec (p_consts P) (p_names P) code <> (fst (run 1 signed_zero_program), Some (snd (run 1 signed_zero_program))).
Proof.
  destruct (compile_old (mkPools [] []) signed_zero_program) as [[code P]|] eqn:E; [|vm_compute in E; discriminate].
  exists code, P. split; [reflexivity|]. split; [vm_compute; reflexivity|].
  vm_compute in E. inversion E; subst. vm_compute. discriminate.
Qed.

(** non-vacuity: a program with a natural >= 2^63, signed zeros, an Int/Nat pair that ValueObj's == identifies,
    short-circuit operators and a run-time error meets all hypotheses, compiles in the model, and the two sides agree *)
Definition example_program : program :=
  [ SDef 1 None (ELit WNat (LNat 9223372036854775808));
    SDef 2 None (EBin WInt OSub (EVar WNat 1) (ELit WNat (LNat 18446744073709551615)));
    SPrint [EVar WNat 1; EVar WInt 2; ELit WInt (LNeg (-1)); ELit WFloat (LFloat 0); ELit WFloat (LFloat sign_bit)];
    SPrint [ELogic WBool true (ECmp WNone CLt (EVar WInt 2) (ELit WNat (LNat 0))) (ELit WBool (LBool false));
            EBin WFloat ODiv (ELit WNat (LNat 7)) (ELit WNat (LNat 2)); ELit WStr (LStr [34; 233; 128512])];
    SPrint [EBin WNat OFloorDiv (EVar WNat 1) (ELit WNat (LNat 0))];
    SPrint [ELit WNat (LNat 1)] ].

Example example_meets_hypotheses :
  forallb stmt_in_frag example_program = true /\
  prog_wraps_okb [] example_program = true /\
  snd (run 1 example_program) = Uncaught ZeroDivisionError /\
  length (fst (run 1 example_program)) = 2%nat /\
  exists code P, compile (mkPools [CInt 0] [NPre 0]) example_program = COk (code, P) /\
                 VM.exec (p_consts P) (p_names P) code = (fst (run 1 example_program), Some (snd (run 1 example_program))).
Proof.
  split; [reflexivity|]. split; [vm_compute; reflexivity|]. split; [vm_compute; reflexivity|].
  split; [vm_compute; reflexivity|].
  destruct (compile (mkPools [CInt 0] [NPre 0]) example_program) as [[code P]|] eqn:E; [|vm_compute in E; discriminate].
  exists code, P. split; [reflexivity|]. vm_compute in E. inversion E; subst. vm_compute. reflexivity.
Qed.
