(** * CoreErg.Syntax — abstract syntax of the Erg fragment the whole-compiler properties talk about,
    and its decoder from the wire format [ErgV.Common.Sx].

    Shared infrastructure (C01 and, later, typing / optimisation / transpiler / version properties).
    The generator and the three printers (Erg source, Python oracle, this wire format) live in
    /verif/pylib/coreerg_gen.py; the tag numbers below are the ones documented at the top of that file.

    A program is a list of top-level statements.  Identifiers are integers (the printers write [v<id>],
    procedures [p<id>!]).  Every expression node carries a *wrap code* [w]: the runtime class codegen.rs
    (emit_expr) wraps the value in, as predicted by the generator's static typing
    (0 none, 1 Nat, 2 Int, 3 Float, 4 Str, 5 Bool, 6 List).  The dynamic semantics (Sem.v) ignores it;
    the codegen model (Codegen.v) consumes it.

    Milestones: M1 literals/variables/unary/binary/comparison/and/or, definitions, print!, assert;
    M2 if-expression, if!, for!, while! with a mutable counter; M3 functions, procedures, lambdas, calls;
    M4 lists, len, abs, index, ranges, tuple/list pattern definitions (flat [SPat]; nested with discards [SNPat]). *)
From Coq Require Import ZArith List Bool.
From ErgV Require Import Common.Sx.
Import ListNotations.
Open Scope Z_scope.

Inductive lit : Type :=
| LNat (n : Z)            (* natural literal token, 0 <= n < 2^64 *)
| LNeg (z : Z)            (* negative integer literal token (the lexer folds the prefix minus), -2^31 <= z < 0 *)
| LFloat (bits : Z)       (* float literal token, IEEE-754 binary64 bit pattern (sign included: -0.0 is one token) *)
| LStr (s : list Z)       (* code points *)
| LBool (b : bool)
| LNone.

Inductive unop := UNeg | UPos | UNot | UInv.
Inductive arith := OAdd | OSub | OMul | ODiv | OFloorDiv | OMod | OPow.
Inductive cmpop := CLt | CLe | CEq | CNe | CGt | CGe.
Inductive wrapc := WNone | WNat | WInt | WFloat | WStr | WBool | WList.

Inductive ty := TyNone | TyNat | TyInt | TyFloat | TyStr | TyBool | TyList (t : ty).

Inductive expr : Type :=
| ELit (w : wrapc) (l : lit)
| EVar (w : wrapc) (x : Z)
| EUn (w : wrapc) (op : unop) (e : expr)
| EBin (w : wrapc) (op : arith) (a b : expr)
| ECmp (w : wrapc) (op : cmpop) (a b : expr)
| ELogic (w : wrapc) (is_or : bool) (a b : expr)
| EList (w : wrapc) (es : list expr)
| EIndex (w : wrapc) (a i : expr)
| EIf (w : wrapc) (c a b : expr)                              (* if c, (do: a), (do: b) *)
| ECall (w : wrapc) (f : Z) (args : list expr) (kw : list (Z * expr))
| ELen (w : wrapc) (e : expr)
| EAbs (w : wrapc) (e : expr)
| ERange (w : wrapc) (lo hi : expr)                           (* lo..<hi, only as a for! iterable *)
| ETuple (w : wrapc) (es : list expr).                        (* only as rhs of a tuple pattern *)

(* nested destructuring pattern: variable, discard `_`, tuple pattern, list pattern *)
Inductive pat : Type :=
| PVar (x : Z)
| PDiscard
| PTuple (ps : list pat)
| PList (ps : list pat).

Inductive stmt : Type :=
| SExpr (e : expr)                                            (* value of a function body *)
| SPrint (es : list expr)
| SAssert (e : expr)
| SDef (x : Z) (ann : option ty) (e : expr)
| SIf (c : expr) (th : list stmt) (has_else : bool) (el : list stmt)
| SFor (x : Z) (it : expr) (body : list stmt)
| SWhile (c : expr) (body : list stmt)
| SMutDef (x : Z) (e : expr)                                  (* c = !e *)
| SInc (x : Z)                                                (* c.inc!() *)
| SUpdate (x p : Z) (e : expr)                                (* c.update!(p -> e) *)
| SFun (f : Z) (is_proc : bool) (params : list (Z * ty * option expr)) (ret : ty) (body : list stmt)
| SLam (f : Z) (params : list (Z * ty)) (e : expr)
| SPat (is_list : bool) (ids : list Z) (e : expr)
| SPCall (f : Z) (args : list expr)
| SNPat (p : pat) (e : expr).                                  (* (a, (_, c)) = e ;  [p, [_, q]] = e *)

Definition program := list stmt.

Definition wrap_of (e : expr) : wrapc :=
  match e with
  | ELit w _ | EVar w _ | EUn w _ _ | EBin w _ _ _ | ECmp w _ _ _ | ELogic w _ _ _ | EList w _ | EIndex w _ _
  | EIf w _ _ _ | ECall w _ _ _ | ELen w _ | EAbs w _ | ERange w _ _ | ETuple w _ => w
  end.

(** ** Decoder.  [None] = malformed wire term (never a totalised default). Fuel = size of the term. *)
Fixpoint sx_size (x : sx) : nat :=
  match x with
  | SZ _ => 1%nat
  | SL l => S (fold_right (fun y n => (sx_size y + n)%nat) 0%nat l)
  end.

Definition dec_wrap (z : Z) : option wrapc :=
  match z with
  | 0 => Some WNone | 1 => Some WNat | 2 => Some WInt | 3 => Some WFloat | 4 => Some WStr | 5 => Some WBool | 6 => Some WList
  | _ => None
  end.

Fixpoint dec_ty (fuel : nat) (x : sx) : option ty :=
  match fuel with
  | O => None
  | S f =>
    match x with
    | SZ 0 => Some TyNone | SZ 1 => Some TyNat | SZ 2 => Some TyInt | SZ 3 => Some TyFloat | SZ 4 => Some TyStr
    | SZ 5 => Some TyBool
    | SL [SZ 6; t] => option_map TyList (dec_ty f t)
    | _ => None
    end
  end.

Definition dec_unop (z : Z) : option unop :=
  match z with 0 => Some UNeg | 1 => Some UPos | 2 => Some UNot | 3 => Some UInv | _ => None end.
Definition dec_arith (z : Z) : option arith :=
  match z with 0 => Some OAdd | 1 => Some OSub | 2 => Some OMul | 3 => Some ODiv | 4 => Some OFloorDiv | 5 => Some OMod
             | 6 => Some OPow | _ => None end.
Definition dec_cmp (z : Z) : option cmpop :=
  match z with 0 => Some CLt | 1 => Some CLe | 2 => Some CEq | 3 => Some CNe | 4 => Some CGt | 5 => Some CGe | _ => None end.

Definition dec_zs (l : list sx) : option (list Z) :=
  fold_right (fun x acc => match x, acc with SZ z, Some r => Some (z :: r) | _, _ => None end) (Some []) l.

Definition dec_lit (kind : Z) (p : sx) : option lit :=
  match kind, p with
  | 0, SZ n => Some (LNat n)
  | 1, SZ z => Some (LNeg z)
  | 2, SZ b => Some (LFloat b)
  | 3, SL cps => option_map LStr (dec_zs cps)
  | 4, SZ b => Some (LBool (negb (b =? 0)))
  | 5, SZ _ => Some LNone
  | _, _ => None
  end.

Definition opt_bind {A B} (o : option A) (f : A -> option B) : option B :=
  match o with Some a => f a | None => None end.
Notation "'do*' x <- o ; k" := (opt_bind o (fun x => k)) (at level 200, x pattern, o at level 100, k at level 200).

Definition all_some {A} (l : list (option A)) : option (list A) :=
  fold_right (fun x acc => match x, acc with Some a, Some r => Some (a :: r) | _, _ => None end) (Some []) l.

Fixpoint dec_expr (fuel : nat) (x : sx) : option expr :=
  match fuel with
  | O => None
  | S f =>
    match x with
    | SL (SZ tag :: SZ wz :: rest) =>
      do* w <- dec_wrap wz;
      match tag, rest with
      | 0, [SZ k; p] => option_map (ELit w) (dec_lit k p)
      | 1, [SZ id] => Some (EVar w id)
      | 2, [SZ op; e] => do* o <- dec_unop op; do* e' <- dec_expr f e; Some (EUn w o e')
      | 3, [SZ op; a; b] => do* o <- dec_arith op; do* a' <- dec_expr f a; do* b' <- dec_expr f b; Some (EBin w o a' b')
      | 4, [SZ op; a; b] => do* o <- dec_cmp op; do* a' <- dec_expr f a; do* b' <- dec_expr f b; Some (ECmp w o a' b')
      | 5, [SZ k; a; b] => do* a' <- dec_expr f a; do* b' <- dec_expr f b; Some (ELogic w (negb (k =? 0)) a' b')
      | 6, [SL es] => option_map (EList w) (all_some (map (dec_expr f) es))
      | 7, [a; i] => do* a' <- dec_expr f a; do* i' <- dec_expr f i; Some (EIndex w a' i')
      | 8, [c; a; b] => do* c' <- dec_expr f c; do* a' <- dec_expr f a; do* b' <- dec_expr f b; Some (EIf w c' a' b')
      | 9, [SZ fid; SL args; SL kws] =>
        do* args' <- all_some (map (dec_expr f) args);
        do* kws' <- all_some (map (fun kv => match kv with
                                             | SL [SZ p; e] => option_map (fun e' => (p, e')) (dec_expr f e)
                                             | _ => None end) kws);
        Some (ECall w fid args' kws')
      | 10, [e] => option_map (ELen w) (dec_expr f e)
      | 11, [e] => option_map (EAbs w) (dec_expr f e)
      | 12, [a; b] => do* a' <- dec_expr f a; do* b' <- dec_expr f b; Some (ERange w a' b')
      | 13, [SL es] => option_map (ETuple w) (all_some (map (dec_expr f) es))
      | _, _ => None
      end
    | _ => None
    end
  end.

Fixpoint dec_pat (fuel : nat) (x : sx) : option pat :=
  match fuel with
  | O => None
  | S f =>
    match x with
    | SL [SZ 0; SZ id] => Some (PVar id)
    | SL [SZ 1] => Some PDiscard
    | SL [SZ 2; SL ps] => option_map PTuple (all_some (map (dec_pat f) ps))
    | SL [SZ 3; SL ps] => option_map PList (all_some (map (dec_pat f) ps))
    | _ => None
    end
  end.

Definition dec_param (f : nat) (p : sx) : option (Z * ty * option expr) :=
  match p with
  | SL [SZ id; t; SL []] => do* t' <- dec_ty f t; Some (id, t', None)
  | SL [SZ id; t; SL [d]] => do* t' <- dec_ty f t; do* d' <- dec_expr f d; Some (id, t', Some d')
  | _ => None
  end.

Fixpoint dec_stmt (fuel : nat) (x : sx) : option stmt :=
  match fuel with
  | O => None
  | S f =>
    let blk := fun ss => all_some (map (dec_stmt f) ss) in
    match x with
    | SL (SZ tag :: rest) =>
      match tag, rest with
      | 0, [e] => option_map SExpr (dec_expr f e)
      | 1, [SL es] => option_map SPrint (all_some (map (dec_expr f) es))
      | 2, [e] => option_map SAssert (dec_expr f e)
      | 3, [SZ id; SZ 0; e] => option_map (SDef id None) (dec_expr f e)
      | 3, [SZ id; ann; e] => do* t <- dec_ty f ann; option_map (SDef id (Some t)) (dec_expr f e)
      | 4, [c; SL th; SZ he; SL el] =>
        do* c' <- dec_expr f c; do* th' <- blk th; do* el' <- blk el; Some (SIf c' th' (negb (he =? 0)) el')
      | 5, [SZ id; it; SL body] => do* it' <- dec_expr f it; do* b' <- blk body; Some (SFor id it' b')
      | 6, [c; SL body] => do* c' <- dec_expr f c; do* b' <- blk body; Some (SWhile c' b')
      | 7, [SZ id; e] => option_map (SMutDef id) (dec_expr f e)
      | 8, [SZ id] => Some (SInc id)
      | 9, [SZ id; SZ p; e] => option_map (SUpdate id p) (dec_expr f e)
      | 10, [SZ id; SZ isp; SL ps; ret; SL body] =>
        do* ps' <- all_some (map (dec_param f) ps); do* r <- dec_ty f ret; do* b' <- blk body;
        Some (SFun id (negb (isp =? 0)) ps' r b')
      | 11, [SZ id; SL ps; e] =>
        do* ps' <- all_some (map (fun p => match p with SL [SZ pid; t] => option_map (fun t' => (pid, t')) (dec_ty f t) | _ => None end) ps);
        option_map (SLam id ps') (dec_expr f e)
      | 12, [SZ k; SL ids; e] => do* ids' <- dec_zs ids; option_map (SPat (negb (k =? 0)) ids') (dec_expr f e)
      | 13, [SZ id; SL args] => option_map (SPCall id) (all_some (map (dec_expr f) args))
      | 14, [p; e] => do* p' <- dec_pat f p; option_map (SNPat p') (dec_expr f e)
      | _, _ => None
      end
    | _ => None
    end
  end.

Definition dec_program (x : sx) : option program :=
  match x with
  | SL ss => all_some (map (dec_stmt (sx_size x)) ss)
  | SZ _ => None
  end.

(** ** Induction principle for [expr] (nested lists): P holds for the elements of argument lists. *)
Section ExprInd.
  Variable P : expr -> Prop.
  Hypothesis HLit : forall w l, P (ELit w l).
  Hypothesis HVar : forall w x, P (EVar w x).
  Hypothesis HUn : forall w o e, P e -> P (EUn w o e).
  Hypothesis HBin : forall w o a b, P a -> P b -> P (EBin w o a b).
  Hypothesis HCmp : forall w o a b, P a -> P b -> P (ECmp w o a b).
  Hypothesis HLogic : forall w k a b, P a -> P b -> P (ELogic w k a b).
  Hypothesis HList : forall w es, Forall P es -> P (EList w es).
  Hypothesis HIndex : forall w a i, P a -> P i -> P (EIndex w a i).
  Hypothesis HIf : forall w c a b, P c -> P a -> P b -> P (EIf w c a b).
  Hypothesis HCall : forall w f args kw, Forall P args -> Forall (fun pe => P (snd pe)) kw -> P (ECall w f args kw).
  Hypothesis HLen : forall w e, P e -> P (ELen w e).
  Hypothesis HAbs : forall w e, P e -> P (EAbs w e).
  Hypothesis HRange : forall w a b, P a -> P b -> P (ERange w a b).
  Hypothesis HTuple : forall w es, Forall P es -> P (ETuple w es).

  Fixpoint expr_ind' (e : expr) : P e :=
    let fix go (es : list expr) : Forall P es :=
      match es with [] => Forall_nil _ | x :: r => Forall_cons _ (expr_ind' x) (go r) end in
    let fix gokw (kw : list (Z * expr)) : Forall (fun pe => P (snd pe)) kw :=
      match kw with [] => Forall_nil _ | x :: r => Forall_cons _ (expr_ind' (snd x)) (gokw r) end in
    match e with
    | ELit w l => HLit w l
    | EVar w x => HVar w x
    | EUn w o a => HUn w o a (expr_ind' a)
    | EBin w o a b => HBin w o a b (expr_ind' a) (expr_ind' b)
    | ECmp w o a b => HCmp w o a b (expr_ind' a) (expr_ind' b)
    | ELogic w k a b => HLogic w k a b (expr_ind' a) (expr_ind' b)
    | EList w es => HList w es (go es)
    | EIndex w a i => HIndex w a i (expr_ind' a) (expr_ind' i)
    | EIf w c a b => HIf w c a b (expr_ind' c) (expr_ind' a) (expr_ind' b)
    | ECall w f args kw => HCall w f args kw (go args) (gokw kw)
    | ELen w a => HLen w a (expr_ind' a)
    | EAbs w a => HAbs w a (expr_ind' a)
    | ERange w a b => HRange w a b (expr_ind' a) (expr_ind' b)
    | ETuple w es => HTuple w es (go es)
    end.
End ExprInd.
