(** * Proofs for C01: the codegen model is correct w.r.t. the VM model and Sem.v on the expression/statement fragment *)
From Coq Require Import ZArith List Bool Lia.
From ErgV Require Import Common.Sx CoreErg.Syntax CoreErg.Sem CoreErg.Codegen CoreErg.VM.
Import ListNotations.
Open Scope Z_scope.

(** ** the machine *)
Lemma run_prefix_app : forall cs ns l1 l2 k st,
  run_prefix cs ns (l1 ++ l2) k st =
  match run_prefix cs ns l1 k st with
  | Halted o => Halted o
  | Reached k' st' => run_prefix cs ns l2 k' st'
  end.
Proof.
  intros cs ns l1; induction l1 as [|[op a] l1 IH]; intros l2 k st; cbn [app run_prefix]; [reflexivity|].
  destruct k as [|k]; [|apply IH].
  destruct (step cs ns op (vext st * 256 + a) st); [apply IH|reflexivity].
Qed.

Lemma run_prefix_skip : forall cs ns l k st,
  run_prefix cs ns l (length l + k) st = Reached k st.
Proof.
  intros cs ns l; induction l as [|[op a] l IH]; intros k st; cbn [length run_prefix Nat.add]; [reflexivity|apply IH].
Qed.

Lemma step_ext_irrel : forall cs ns op arg s e o x y,
  step cs ns op arg (mkVm s e o x) = step cs ns op arg (mkVm s e o y).
Proof.
  intros; destruct op; reflexivity.
Qed.

Definition run1 cs ns (op : opcode) (arg : Z) (st : vm) : pref_res :=
  match step cs ns op arg st with Next k st' => Reached k st' | Halt o => Halted o end.

Lemma run_write_op : forall cs ns op arg c st,
  write_op op arg = COk c -> 0 <= arg -> vext st = 0 ->
  run_prefix cs ns c 0 st = run1 cs ns op arg st.
Proof.
  intros cs ns op arg c st H Hpos Hext. unfold write_op in H.
  destruct st as [s e o x]; cbn [vext] in Hext; subst x.
  destruct (arg <? 256) eqn:E1.
  { inversion H; subst c; clear H. unfold run1; cbn [run_prefix vext]. rewrite Z.mul_0_l, Z.add_0_l.
    destruct (step cs ns op arg (mkVm s e o 0)); reflexivity. }
  destruct (arg <? 65536) eqn:E2.
  { inversion H; subst c; clear H. unfold run1; cbn [run_prefix vext step stack venv vout].
    rewrite Z.mul_0_l, Z.add_0_l. cbn [vext].
    replace (arg / 256 * 256 + arg mod 256) with arg by (rewrite (Z.div_mod arg 256) at 1; lia).
    rewrite (step_ext_irrel cs ns op arg s e o (arg / 256) 0).
    destruct (step cs ns op arg (mkVm s e o 0)); reflexivity. }
  destruct (arg <? 4294967296) eqn:E3; [|discriminate].
  inversion H; subst c; clear H. unfold run1; cbn [run_prefix vext step stack venv vout].
  rewrite Z.mul_0_l, Z.add_0_l. cbn [vext].
  replace (((arg / 16777216 * 256 + arg / 65536 mod 256) * 256 + arg / 256 mod 256) * 256 + arg mod 256) with arg.
  2:{ apply Z.ltb_ge in E1. apply Z.ltb_ge in E2. apply Z.ltb_lt in E3. Z.div_mod_to_equations. lia. }
  rewrite (step_ext_irrel cs ns op arg s e o _ 0).
  destruct (step cs ns op arg (mkVm s e o 0)); reflexivity.
Qed.

(** ** pools only grow; registered entries stay where they are *)
Definition extends (p p' : pools) : Prop :=
  (exists l, p_consts p' = p_consts p ++ l) /\ (exists l, p_names p' = p_names p ++ l).

Lemma extends_refl : forall p, extends p p.
Proof. intros p; split; exists []; rewrite app_nil_r; reflexivity. Qed.

Lemma extends_trans : forall p q r, extends p q -> extends q r -> extends p r.
Proof.
  intros p q r [[l1 H1] [l2 H2]] [[l3 H3] [l4 H4]]; split.
  - exists (l1 ++ l3). rewrite H3, H1, app_assoc; reflexivity.
  - exists (l2 ++ l4). rewrite H4, H2, app_assoc; reflexivity.
Qed.

Lemma position_spec : forall A (f : A -> bool) l i j,
  position f l i = Some j ->
  i <= j /\ exists x, nth_error l (Z.to_nat (j - i)) = Some x /\ f x = true.
Proof.
  intros A f l; induction l as [|x l IH]; intros i j H; cbn [position] in H; [discriminate|].
  destruct (f x) eqn:Fx.
  - inversion H; subst j. split; [lia|]. exists x. rewrite Z.sub_diag. cbn. auto.
  - apply IH in H. destruct H as [Hle [y [Hn Hf]]]. split; [lia|]. exists y. split; [|exact Hf].
    replace (Z.to_nat (j - i)) with (S (Z.to_nat (j - (i + 1)))) by lia. exact Hn.
Qed.

Lemma nth_error_extends_consts : forall p P i c,
  extends p P -> nth_error (p_consts p) i = Some c -> nth_error (p_consts P) i = Some c.
Proof.
  intros p P i c [[l H] _] Hn. rewrite H. rewrite nth_error_app1; [exact Hn|].
  apply nth_error_Some. rewrite Hn; discriminate.
Qed.

Lemma nth_error_extends_names : forall p P i c,
  extends p P -> nth_error (p_names p) i = Some c -> nth_error (p_names P) i = Some c.
Proof.
  intros p P i c [_ [l H]] Hn. rewrite H. rewrite nth_error_app1; [exact Hn|].
  apply nth_error_Some. rewrite Hn; discriminate.
Qed.

Lemma name_eqb_eq : forall a b, name_eqb a b = true -> a = b.
Proof.
  intros [x| |x|x] [y| |y|y] H; cbn in H; try discriminate; try reflexivity.
  - apply Z.eqb_eq in H; subst; reflexivity.
  - destruct x, y; cbn in H; try discriminate; reflexivity.
  - apply Z.eqb_eq in H; subst; reflexivity.
Qed.

Section WithSame.
  Variable same : constv -> constv -> bool.
  Hypothesis same_sound : forall a b, same a b = true -> cval a = cval b.

  Lemma register_const_spec : forall p c i p',
    register_const same p c = (i, p') ->
    extends p p' /\ 0 <= i /\ exists c', nth_error (p_consts p') (Z.to_nat i) = Some c' /\ cval c' = cval c.
  Proof.
    intros p c i p' H. unfold register_const in H.
    destruct (position (fun c' => same c' c) (p_consts p) 0) as [j|] eqn:E.
    - inversion H; subst i p'. apply position_spec in E. destruct E as [Hle [x [Hn Hs]]].
      split; [apply extends_refl|]. split; [exact Hle|]. exists x. rewrite Z.sub_0_r in Hn. split; [exact Hn|].
      apply same_sound; exact Hs.
    - inversion H; subst i p'. split.
      + split; cbn; [exists [c]|exists []; rewrite app_nil_r]; reflexivity.
      + split; [lia|]. exists c. cbn [p_consts]. rewrite Nat2Z.id.
        rewrite nth_error_app2 by lia. rewrite Nat.sub_diag. cbn. auto.
  Qed.

  Lemma register_name_spec : forall p n i p',
    register_name p n = (i, p') ->
    extends p p' /\ 0 <= i /\ nth_error (p_names p') (Z.to_nat i) = Some n.
  Proof.
    intros p n i p' H. unfold register_name in H.
    destruct (position (name_eqb n) (p_names p) 0) as [j|] eqn:E.
    - inversion H; subst i p'. apply position_spec in E. destruct E as [Hle [x [Hn Hs]]].
      split; [apply extends_refl|]. split; [exact Hle|]. rewrite Z.sub_0_r in Hn.
      apply name_eqb_eq in Hs; subst x; exact Hn.
    - inversion H; subst i p'. split.
      + split; cbn; [exists []; rewrite app_nil_r|exists [n]]; reflexivity.
      + split; [lia|]. cbn [p_names]. rewrite Nat2Z.id.
        rewrite nth_error_app2 by lia. rewrite Nat.sub_diag. reflexivity.
  Qed.

  (** loading a constant / a name *)
  Lemma emit_load_const_correct : forall p c code p',
    emit_load_const same p c = COk (code, p') ->
    extends p p' /\
    forall P, extends p' P -> forall st, vext st = 0 ->
      run_prefix (p_consts P) (p_names P) code 0 st = Reached 0 (with_stack st (SV (cval c) :: stack st)).
  Proof.
    intros p c code p' H. unfold emit_load_const in H.
    destruct (register_const same p c) as [i p1] eqn:R.
    apply register_const_spec in R. destruct R as [Hext [Hi [c' [Hn Hv]]]].
    destruct (write_op LOAD_CONST i) as [co|] eqn:W; cbn [cbind] in H; [|discriminate].
    inversion H; subst code p'; clear H. split; [exact Hext|].
    intros P HP st Hx. rewrite (run_write_op _ _ _ _ _ _ W Hi Hx). unfold run1; cbn [step].
    rewrite (nth_error_extends_consts _ _ _ _ HP Hn). rewrite Hv. reflexivity.
  Qed.

  Lemma emit_load_name_run : forall p n code p',
    emit_load_name p n = COk (code, p') ->
    extends p p' /\ exists i, 0 <= i /\ nth_error (p_names p') (Z.to_nat i) = Some n /\
    forall P st, vext st = 0 -> run_prefix (p_consts P) (p_names P) code 0 st = run1 (p_consts P) (p_names P) LOAD_NAME i st.
  Proof.
    intros p n code p' H. unfold emit_load_name in H.
    destruct (register_name p n) as [i p1] eqn:R.
    apply register_name_spec in R. destruct R as [Hext [Hi Hn]].
    destruct (write_op LOAD_NAME i) as [co|] eqn:W; cbn [cbind] in H; [|discriminate].
    inversion H; subst code p'; clear H. split; [exact Hext|]. exists i. split; [exact Hi|]. split; [exact Hn|].
    intros P st Hx. apply (run_write_op _ _ _ _ _ _ W Hi Hx).
  Qed.

  Lemma emit_store_name_run : forall p n code p',
    emit_store_name p n = COk (code, p') ->
    extends p p' /\ exists i, 0 <= i /\ nth_error (p_names p') (Z.to_nat i) = Some n /\
    forall P st, vext st = 0 -> run_prefix (p_consts P) (p_names P) code 0 st = run1 (p_consts P) (p_names P) STORE_NAME i st.
  Proof.
    intros p n code p' H. unfold emit_store_name in H.
    destruct (register_name p n) as [i p1] eqn:R.
    apply register_name_spec in R. destruct R as [Hext [Hi Hn]].
    destruct (write_op STORE_NAME i) as [co|] eqn:W; cbn [cbind] in H; [|discriminate].
    inversion H; subst code p'; clear H. split; [exact Hext|]. exists i. split; [exact Hi|]. split; [exact Hn|].
    intros P st Hx. apply (run_write_op _ _ _ _ _ _ W Hi Hx).
  Qed.
End WithSame.

(** ** expressions *)
Fixpoint wraps_ok (en : env) (e : expr) : Prop :=
  (forall v, eval0 en e = Ok v -> fits (wrap_of e) v) /\
  match e with
  | EUn _ _ a => wraps_ok en a
  | EBin _ _ a b | ECmp _ _ a b | ELogic _ _ a b => wraps_ok en a /\ wraps_ok en b
  | _ => True
  end.

(** the code [c] computes the result [R] in environment [en]: pushes the value, or halts with the exception *)
Definition computes (P : pools) (c : list cunit) (en : env) (R : res value) : Prop :=
  forall st, vext st = 0 -> venv st = en ->
    match R with
    | Ok v => run_prefix (p_consts P) (p_names P) c 0 st = Reached 0 (with_stack st (SV v :: stack st))
    | Raise ex => run_prefix (p_consts P) (p_names P) c 0 st = Halted (rev (vout st), Some (Uncaught ex))
    | OutOfFuel => True
    end.

Lemma wrap_call_fits : forall w v, is_wrapped w = true -> fits w v -> wrap_call w v = Ok v.
Proof.
  intros w v Hw Hf. destruct w, v; cbn in *; try discriminate; try contradiction; try reflexivity.
  destruct (z <? 0) eqn:E; [apply Z.ltb_lt in E; lia|reflexivity].
Qed.

Lemma emit_call_1 : emit_call 1 = COk [(PRECALL, 1); (CACHE, 0); (CALL, 1); (CACHE, 0); (CACHE, 0); (CACHE, 0); (CACHE, 0)].
Proof. reflexivity. Qed.

Lemma arith_of_binop_arg : forall op, arith_of_arg (binop_arg op) = Some op.
Proof. destruct op; reflexivity. Qed.
Lemma cmp_of_cmp_arg : forall op, cmp_of_arg (cmp_arg op) = Some op.
Proof. destruct op; reflexivity. Qed.
Lemma binop_arg_nonneg : forall op, 0 <= binop_arg op.
Proof. destruct op; cbn; lia. Qed.
Lemma cmp_arg_nonneg : forall op, 0 <= cmp_arg op.
Proof. destruct op; cbn; lia. Qed.

Local Arguments wrap_call : simpl never.
Local Arguments print_line : simpl never.

Definition call1_code : list cunit := [(PRECALL, 1); (CACHE, 0); (CALL, 1); (CACHE, 0); (CACHE, 0); (CACHE, 0); (CACHE, 0)].

Lemma run_call1 : forall cs ns w v v' below en out,
  wrap_call w v = Ok v' ->
  run_prefix cs ns call1_code 0 (mkVm (SV v :: SCallable (NCls w) :: SNull :: below) en out 0)
  = Reached 0 (mkVm (SV v' :: below) en out 0).
Proof.
  intros cs ns w v v' below en out H.
  unfold call1_code. cbn [run_prefix vext step Z.mul Z.add]. unfold call. rewrite ?Z2Nat.inj_pos, ?Pos2Nat.inj_1. cbn. rewrite ?Pos2Nat.inj_1. cbn.
  rewrite H. reflexivity.
Qed.

Lemma run_call1_raise : forall cs ns w v ex below en out,
  wrap_call w v = Raise ex ->
  run_prefix cs ns call1_code 0 (mkVm (SV v :: SCallable (NCls w) :: SNull :: below) en out 0)
  = Halted (rev out, Some (Uncaught ex)).
Proof.
  intros cs ns w v ex below en out H.
  unfold call1_code. cbn [run_prefix vext step Z.mul Z.add]. unfold call. rewrite ?Z2Nat.inj_pos, ?Pos2Nat.inj_1. cbn. rewrite ?Pos2Nat.inj_1. cbn.
  rewrite H. reflexivity.
Qed.

Section ExprCorrect.
  Variable same : constv -> constv -> bool.
  Hypothesis same_sound : forall a b, same a b = true -> cval a = cval b.

  Lemma emit_wrapped_correct : forall w p body c p',
    emit_wrapped w p body = COk (c, p') ->
    (forall p0 c1 p1, body p0 = COk (c1, p1) -> extends p0 p1) ->
    extends p p' /\
    forall P en R, extends p' P ->
      (forall p0 c1 p1, body p0 = COk (c1, p1) -> extends p1 P -> computes P c1 en R) ->
      (forall v, R = Ok v -> fits w v) ->
      computes P c en R.
  Proof.
    intros w p body c p' H Hext. unfold emit_wrapped in H.
    destruct (is_wrapped w) eqn:Hw.
    2:{ split; [eapply Hext; exact H|]. intros P en R HP Hb _. eapply Hb; [exact H|exact HP]. }
    destruct (emit_load_name p (NCls w)) as [[cl pl]|] eqn:EL; cbn [cbind fst snd] in H; [|discriminate].
    destruct (body pl) as [[cb pb]|] eqn:EB; cbn [cbind fst snd] in H; [|discriminate].
    rewrite emit_call_1 in H; cbn [cbind] in H. inversion H; subst c p'; clear H.
    apply emit_load_name_run in EL. destruct EL as [E1 [i [Hi [Hn Hrun]]]].
    pose proof (Hext _ _ _ EB) as E2.
    split; [eapply extends_trans; eassumption|].
    intros P en R HP Hb Hfit st Hx Hen.
    assert (HnP : nth_error (p_names P) (Z.to_nat i) = Some (NCls w)).
    { eapply nth_error_extends_names; [|exact Hn]. eapply extends_trans; eassumption. }
    specialize (Hb _ _ _ EB HP).
    set (st1 := with_stack st (SCallable (NCls w) :: SNull :: stack st)).
    assert (Hpre : run_prefix (p_consts P) (p_names P) ((PUSH_NULL, 0) :: cl) 0 st = Reached 0 st1).
    { cbn [run_prefix]. rewrite Hx. cbn [step Z.mul Z.add].
      rewrite Hrun by reflexivity. unfold run1. cbn [step]. cbn [with_stack stack venv vout]. rewrite HnP. reflexivity. }
    specialize (Hb st1 eq_refl Hen).
    change ((PUSH_NULL, 0) :: cl ++ cb ++ [(PRECALL, 1); (CACHE, 0); (CALL, 1); (CACHE, 0); (CACHE, 0); (CACHE, 0); (CACHE, 0)])
      with (((PUSH_NULL, 0) :: cl) ++ cb ++ call1_code).
    destruct R as [v|ex|]; [| |exact I].
    - rewrite run_prefix_app, Hpre, run_prefix_app, Hb.
      destruct st as [s e o x]. cbn [vext] in Hx. subst x. subst st1.
      cbn [with_stack stack venv vout].
      apply run_call1. apply wrap_call_fits; [exact Hw|]. apply Hfit; reflexivity.
    - rewrite run_prefix_app, Hpre, run_prefix_app, Hb. reflexivity.
  Qed.

  (** single instructions on explicit states *)
  Lemma run_binop : forall cs ns op va vb s en out co,
    write_op BINARY_OP (binop_arg op) = COk co ->
    run_prefix cs ns (co ++ [(CACHE, 0)]) 0 (mkVm (SV vb :: SV va :: s) en out 0) =
    match bin_op op va vb with
    | Ok v => Reached 0 (mkVm (SV v :: s) en out 0)
    | Raise ex => Halted (rev out, Some (Uncaught ex))
    | OutOfFuel => Halted (rev out, None)
    end.
  Proof.
    intros cs ns op va vb s en out co W.
    rewrite run_prefix_app, (run_write_op cs ns _ _ _ (mkVm (SV vb :: SV va :: s) en out 0) W (binop_arg_nonneg op) eq_refl).
    unfold run1; cbn [step stack]. rewrite arith_of_binop_arg.
    destruct (bin_op op va vb); reflexivity.
  Qed.

  Lemma run_cmpop : forall cs ns op va vb s en out co,
    write_op COMPARE_OP (cmp_arg op) = COk co ->
    run_prefix cs ns (co ++ [(CACHE, 0); (CACHE, 0)]) 0 (mkVm (SV vb :: SV va :: s) en out 0) =
    match cmp_op op va vb with
    | Ok v => Reached 0 (mkVm (SV v :: s) en out 0)
    | Raise ex => Halted (rev out, Some (Uncaught ex))
    | OutOfFuel => Halted (rev out, None)
    end.
  Proof.
    intros cs ns op va vb s en out co W.
    rewrite run_prefix_app, (run_write_op cs ns _ _ _ (mkVm (SV vb :: SV va :: s) en out 0) W (cmp_arg_nonneg op) eq_refl).
    unfold run1; cbn [step stack]. rewrite cmp_of_cmp_arg.
    destruct (cmp_op op va vb); reflexivity.
  Qed.

  Lemma run_unary : forall cs ns op va s en out,
    run_prefix cs ns [(unary_opcode op, 0)] 0 (mkVm (SV va :: s) en out 0) =
    match un_op op va with
    | Ok v => Reached 0 (mkVm (SV v :: s) en out 0)
    | Raise ex => Halted (rev out, Some (Uncaught ex))
    | OutOfFuel => Halted (rev out, None)
    end.
  Proof.
    intros cs ns op va s en out. cbn [run_prefix vext Z.mul Z.add].
    destruct op; cbn [unary_opcode step]; unfold unary; cbn [stack];
      match goal with |- context [un_op ?o ?v] => destruct (un_op o v) end; reflexivity.
  Qed.

  Lemma eval0_un : forall en w op a, eval0 en (EUn w op a) = bind (eval0 en a) (un_op op).
  Proof. reflexivity. Qed.
  Lemma eval0_bin : forall en w op a b,
    eval0 en (EBin w op a b) = bind (eval0 en a) (fun va => bind (eval0 en b) (fun vb => bin_op op va vb)).
  Proof. reflexivity. Qed.
  Lemma eval0_cmp : forall en w op a b,
    eval0 en (ECmp w op a b) = bind (eval0 en a) (fun va => bind (eval0 en b) (fun vb => cmp_op op va vb)).
  Proof. reflexivity. Qed.
  Lemma eval0_logic : forall en w k a b,
    eval0 en (ELogic w k a b) =
    bind (eval0 en a) (fun va => if k then (if truthy va then Ok va else eval0 en b)
                                 else (if truthy va then eval0 en b else Ok va)).
  Proof. reflexivity. Qed.

  Definition expr_spec (e : expr) : Prop :=
    forall p c p', emit_expr same p e = COk (c, p') ->
      extends p p' /\ forall P en, extends p' P -> wraps_ok en e -> computes P c en (eval0 en e).

  Lemma emit_expr_correct : forall e, in_frag e = true -> expr_spec e.
  Proof.
    induction e using expr_ind'; intros Hfrag; cbn [in_frag] in Hfrag; try discriminate.
    - (* literal *)
      intros p c p' H. cbn [emit_expr] in H.
      apply emit_wrapped_correct in H.
      2:{ intros p0 c1 p1 Hb. apply (emit_load_const_correct same same_sound) in Hb. tauto. }
      destruct H as [E Hc]. split; [exact E|]. intros P en HP [Hfit _].
      apply Hc; [exact HP| |intros v Hv; apply Hfit; exact Hv].
      intros p0 c1 p1 Hb HP1. apply (emit_load_const_correct same same_sound) in Hb. destruct Hb as [_ Hb].
      intros st Hx Hen. cbn [eval0 eval]. rewrite (Hb P HP1 st Hx).
      destruct l; reflexivity.
    - (* variable *)
      intros p c p' H. cbn [emit_expr] in H.
      apply emit_wrapped_correct in H.
      2:{ intros p0 c1 p1 Hb. apply emit_load_name_run in Hb. tauto. }
      destruct H as [E Hc]. split; [exact E|]. intros P en HP [Hfit _].
      apply Hc; [exact HP| |intros v Hv; apply Hfit; exact Hv].
      intros p0 c1 p1 Hb HP1. apply emit_load_name_run in Hb. destruct Hb as [_ [i [Hi [Hn Hrun]]]].
      intros st Hx Hen. rewrite (Hrun P st Hx). unfold run1; cbn [step].
      rewrite (nth_error_extends_names _ _ _ _ HP1 Hn). cbn [eval0 eval]. rewrite Hen.
      destruct (lookup x en); reflexivity.
    - (* unary *)
      specialize (IHe Hfrag).
      intros p c p' H. cbn [emit_expr] in H.
      apply emit_wrapped_correct in H.
      2:{ intros p0 c1 p1 Hb. destruct (emit_expr same p0 e) as [[ca pa]|] eqn:Ea; cbn [cbind fst snd] in Hb; [|discriminate].
          inversion Hb; subst. apply IHe in Ea. tauto. }
      destruct H as [E Hc]. split; [exact E|]. intros P en HP [Hfit Hwa].
      apply Hc; [exact HP| |intros v Hv; apply Hfit; exact Hv].
      intros p0 c1 p1 Hb HP1.
      destruct (emit_expr same p0 e) as [[ca pa]|] eqn:Ea; cbn [cbind fst snd] in Hb; [|discriminate].
      inversion Hb; subst c1 p1; clear Hb. apply IHe in Ea. destruct Ea as [_ Ha].
      specialize (Ha P en HP1 Hwa).
      intros [s e0 ot x] Hx Hen. cbn [vext venv] in Hx, Hen. subst x e0.
      rewrite eval0_un. specialize (Ha (mkVm s en ot 0) eq_refl eq_refl).
      destruct (eval0 en e) as [va|ex|]; cbn [bind]; [| |exact I].
      + destruct (un_op o va) as [v|ex|] eqn:U; [| |exact I];
          rewrite run_prefix_app, Ha; unfold with_stack; cbn [stack venv vout]; rewrite run_unary, U; reflexivity.
      + rewrite run_prefix_app, Ha. reflexivity.
    - (* arithmetic *)
      apply andb_true_iff in Hfrag. destruct Hfrag as [Fa Fb]. specialize (IHe1 Fa). specialize (IHe2 Fb).
      intros p c p' H. cbn [emit_expr] in H.
      apply emit_wrapped_correct in H.
      2:{ intros p0 c1 p1 Hb.
          destruct (emit_expr same p0 e1) as [[ca pa]|] eqn:Ea; cbn [cbind fst snd] in Hb; [|discriminate].
          destruct (emit_expr same pa e2) as [[cb pb]|] eqn:Eb; cbn [cbind fst snd] in Hb; [|discriminate].
          destruct (write_op BINARY_OP (binop_arg o)) as [co|]; cbn [cbind] in Hb; [|discriminate].
          inversion Hb; subst. apply IHe1 in Ea. apply IHe2 in Eb. eapply extends_trans; [apply Ea|apply Eb]. }
      destruct H as [E Hc]. split; [exact E|]. intros P en HP [Hfit [Hwa Hwb]].
      apply Hc; [exact HP| |intros v Hv; apply Hfit; exact Hv].
      intros p0 c1 p1 Hb HP1.
      destruct (emit_expr same p0 e1) as [[ca pa]|] eqn:Ea; cbn [cbind fst snd] in Hb; [|discriminate].
      destruct (emit_expr same pa e2) as [[cb pb]|] eqn:Eb; cbn [cbind fst snd] in Hb; [|discriminate].
      destruct (write_op BINARY_OP (binop_arg o)) as [co|] eqn:W; cbn [cbind] in Hb; [|discriminate].
      inversion Hb; subst c1 p1; clear Hb.
      apply IHe1 in Ea. apply IHe2 in Eb. destruct Ea as [_ Ha]. destruct Eb as [Eb' Hb].
      specialize (Ha P en (extends_trans _ _ _ Eb' HP1) Hwa). specialize (Hb P en HP1 Hwb).
      intros [s e0 ot x] Hx Hen. cbn [vext venv] in Hx, Hen. subst x e0.
      rewrite eval0_bin. specialize (Ha (mkVm s en ot 0) eq_refl eq_refl).
      destruct (eval0 en e1) as [va|ex|]; cbn [bind]; [| |exact I].
      2:{ rewrite run_prefix_app, Ha. reflexivity. }
      specialize (Hb (mkVm (SV va :: s) en ot 0) eq_refl eq_refl).
      destruct (eval0 en e2) as [vb|ex|]; cbn [bind]; [| |exact I].
      2:{ unfold with_stack in *; cbn [stack venv vout] in *. rewrite run_prefix_app, Ha, run_prefix_app, Hb. reflexivity. }
      unfold with_stack in *; cbn [stack venv vout] in *.
      destruct (bin_op o va vb) as [v|ex|] eqn:U; [| |exact I];
        rewrite run_prefix_app, Ha, run_prefix_app, Hb, (run_binop _ _ _ _ _ _ _ _ _ W), U; reflexivity.
    - (* comparison *)
      apply andb_true_iff in Hfrag. destruct Hfrag as [Fa Fb]. specialize (IHe1 Fa). specialize (IHe2 Fb).
      intros p c p' H. cbn [emit_expr] in H.
      apply emit_wrapped_correct in H.
      2:{ intros p0 c1 p1 Hb.
          destruct (emit_expr same p0 e1) as [[ca pa]|] eqn:Ea; cbn [cbind fst snd] in Hb; [|discriminate].
          destruct (emit_expr same pa e2) as [[cb pb]|] eqn:Eb; cbn [cbind fst snd] in Hb; [|discriminate].
          destruct (write_op COMPARE_OP (cmp_arg o)) as [co|]; cbn [cbind] in Hb; [|discriminate].
          inversion Hb; subst. apply IHe1 in Ea. apply IHe2 in Eb. eapply extends_trans; [apply Ea|apply Eb]. }
      destruct H as [E Hc]. split; [exact E|]. intros P en HP [Hfit [Hwa Hwb]].
      apply Hc; [exact HP| |intros v Hv; apply Hfit; exact Hv].
      intros p0 c1 p1 Hb HP1.
      destruct (emit_expr same p0 e1) as [[ca pa]|] eqn:Ea; cbn [cbind fst snd] in Hb; [|discriminate].
      destruct (emit_expr same pa e2) as [[cb pb]|] eqn:Eb; cbn [cbind fst snd] in Hb; [|discriminate].
      destruct (write_op COMPARE_OP (cmp_arg o)) as [co|] eqn:W; cbn [cbind] in Hb; [|discriminate].
      inversion Hb; subst c1 p1; clear Hb.
      apply IHe1 in Ea. apply IHe2 in Eb. destruct Ea as [_ Ha]. destruct Eb as [Eb' Hb].
      specialize (Ha P en (extends_trans _ _ _ Eb' HP1) Hwa). specialize (Hb P en HP1 Hwb).
      intros [s e0 ot x] Hx Hen. cbn [vext venv] in Hx, Hen. subst x e0.
      rewrite eval0_cmp. specialize (Ha (mkVm s en ot 0) eq_refl eq_refl).
      destruct (eval0 en e1) as [va|ex|]; cbn [bind]; [| |exact I].
      2:{ rewrite run_prefix_app, Ha. reflexivity. }
      specialize (Hb (mkVm (SV va :: s) en ot 0) eq_refl eq_refl).
      destruct (eval0 en e2) as [vb|ex|]; cbn [bind]; [| |exact I].
      2:{ unfold with_stack in *; cbn [stack venv vout] in *. rewrite run_prefix_app, Ha, run_prefix_app, Hb. reflexivity. }
      unfold with_stack in *; cbn [stack venv vout] in *.
      destruct (cmp_op o va vb) as [v|ex|] eqn:U; [| |exact I];
        rewrite run_prefix_app, Ha, run_prefix_app, Hb, (run_cmpop _ _ _ _ _ _ _ _ _ W), U; reflexivity.
    - (* and / or *)
      apply andb_true_iff in Hfrag. destruct Hfrag as [Fa Fb]. specialize (IHe1 Fa). specialize (IHe2 Fb).
      intros p c p' H. cbn [emit_expr] in H.
      apply emit_wrapped_correct in H.
      2:{ intros p0 c1 p1 Hb.
          destruct (emit_expr same p0 e1) as [[ca pa]|] eqn:Ea; cbn [cbind fst snd] in Hb; [|discriminate].
          destruct (emit_expr same pa e2) as [[cb pb]|] eqn:Eb; cbn [cbind fst snd] in Hb; [|discriminate].
          destruct (Z.of_nat (length cb) <? 65536); [|discriminate].
          inversion Hb; subst. apply IHe1 in Ea. apply IHe2 in Eb. eapply extends_trans; [apply Ea|apply Eb]. }
      destruct H as [E Hc]. split; [exact E|]. intros P en HP [Hfit [Hwa Hwb]].
      apply Hc; [exact HP| |intros v Hv; apply Hfit; exact Hv].
      intros p0 c1 p1 Hb HP1.
      destruct (emit_expr same p0 e1) as [[ca pa]|] eqn:Ea; cbn [cbind fst snd] in Hb; [|discriminate].
      destruct (emit_expr same pa e2) as [[cb pb]|] eqn:Eb; cbn [cbind fst snd] in Hb; [|discriminate].
      destruct (Z.of_nat (length cb) <? 65536) eqn:Hlen; [|discriminate].
      inversion Hb; subst c1 p1; clear Hb.
      apply IHe1 in Ea. apply IHe2 in Eb. destruct Ea as [_ Ha]. destruct Eb as [Eb' Hb].
      specialize (Ha P en (extends_trans _ _ _ Eb' HP1) Hwa). specialize (Hb P en HP1 Hwb).
      intros [s e0 ot x] Hx Hen. cbn [vext venv] in Hx, Hen. subst x e0.
      rewrite eval0_logic. specialize (Ha (mkVm s en ot 0) eq_refl eq_refl).
      destruct (eval0 en e1) as [va|ex|]; cbn [bind]; [| |exact I].
      2:{ rewrite run_prefix_app, Ha. reflexivity. }
      rewrite run_prefix_app, Ha. unfold with_stack; cbn [stack venv vout].
      set (n := Z.of_nat (length cb)) in *.
      assert (Hn : n / 256 * 256 + n mod 256 = n) by (rewrite (Z.div_mod n 256) at 3; lia).
      cbn [app run_prefix vext Z.mul Z.add step stack venv vout]. rewrite Hn.
      specialize (Hb (mkVm s en ot 0) eq_refl eq_refl).
      destruct k; cbn [step]; unfold jump_if, with_stack in *; cbn [stack venv vout] in *; destruct (truthy va) eqn:Tv; cbn [Bool.eqb].
      + (* or, lhs true: jump over rhs *)
        unfold n. rewrite Nat2Z.id. rewrite <- (Nat.add_0_r (length cb)). apply run_prefix_skip.
      + (* or, lhs false: pop, evaluate rhs *)
        destruct (eval0 en e2); [exact Hb|exact Hb|exact I].
      + (* and, lhs true: pop, evaluate rhs *)
        destruct (eval0 en e2); [exact Hb|exact Hb|exact I].
      + (* and, lhs false: jump over rhs *)
        unfold n. rewrite Nat2Z.id. rewrite <- (Nat.add_0_r (length cb)). apply run_prefix_skip.
  Qed.
End ExprCorrect.

(** ** the evaluator does not depend on the call level for fragment expressions *)
Lemma eval_frag_indep : forall e, in_frag e = true ->
  forall cf1 cf2 en, eval cf1 en e = eval cf2 en e.
Proof.
  induction e using expr_ind'; intros Hf cf1 cf2 en; cbn [in_frag] in Hf; try discriminate; try reflexivity.
  - cbn [eval]. rewrite (IHe Hf cf1 cf2). reflexivity.
  - apply andb_true_iff in Hf; destruct Hf as [Fa Fb]. cbn [eval].
    rewrite (IHe1 Fa cf1 cf2). destruct (eval cf2 en e1); cbn [bind]; [|reflexivity|reflexivity].
    rewrite (IHe2 Fb cf1 cf2). reflexivity.
  - apply andb_true_iff in Hf; destruct Hf as [Fa Fb]. cbn [eval].
    rewrite (IHe1 Fa cf1 cf2). destruct (eval cf2 en e1); cbn [bind]; [|reflexivity|reflexivity].
    rewrite (IHe2 Fb cf1 cf2). reflexivity.
  - apply andb_true_iff in Hf; destruct Hf as [Fa Fb]. cbn [eval].
    rewrite (IHe1 Fa cf1 cf2). destruct (eval cf2 en e1); cbn [bind]; [|reflexivity|reflexivity].
    rewrite (IHe2 Fb cf1 cf2). reflexivity.
Qed.

Definition evals0 (en : env) (es : list expr) : res (list value) := evals (fun _ _ _ => OutOfFuel) en es.

Lemma evals_frag_indep : forall es, forallb in_frag es = true ->
  forall cf en, evals cf en es = evals0 en es.
Proof.
  induction es as [|e es IH]; intros Hf cf en; [reflexivity|].
  cbn [forallb] in Hf. apply andb_true_iff in Hf; destruct Hf as [Fe Fr].
  unfold evals0. cbn [evals]. rewrite (eval_frag_indep e Fe cf (fun _ _ _ => OutOfFuel)).
  destruct (eval _ en e); cbn [bind]; [|reflexivity|reflexivity].
  rewrite (IH Fr cf en). reflexivity.
Qed.

Lemma all_values_map_SV : forall vs, all_values (map SV vs) = Some vs.
Proof. induction vs as [|v vs IH]; [reflexivity|]. cbn. rewrite IH. reflexivity. Qed.

Lemma firstn_length_app : forall A (l r : list A), firstn (length l) (l ++ r) = l.
Proof. intros. rewrite firstn_app, Nat.sub_diag, firstn_all. cbn. apply app_nil_r. Qed.

Lemma skipn_length_app : forall A (l r : list A), skipn (length l) (l ++ r) = r.
Proof. intros. rewrite skipn_app, Nat.sub_diag, skipn_all. reflexivity. Qed.

(* rewrite with an equation whose left-hand side occurs only up to conversion as the scrutinee of a match on pref_res *)
Ltac rw_conv H :=
  match type of H with
  | ?l = _ =>
    match goal with
    | |- context [match ?x with Halted _ => _ | Reached _ _ => _ end] => change x with l
    end
  end; rewrite H.

Section StmtCorrect.
  Variable same : constv -> constv -> bool.
  Hypothesis same_sound : forall a b, same a b = true -> cval a = cval b.

  Lemma emit_args_correct : forall es, forallb in_frag es = true ->
    forall p c p', emit_args same p es = COk (c, p') ->
    extends p p' /\
    forall P en, extends p' P -> Forall (wraps_ok en) es ->
      forall st, vext st = 0 -> venv st = en ->
        match evals0 en es with
        | Ok vs => run_prefix (p_consts P) (p_names P) c 0 st = Reached 0 (with_stack st (rev (map SV vs) ++ stack st))
        | Raise ex => run_prefix (p_consts P) (p_names P) c 0 st = Halted (rev (vout st), Some (Uncaught ex))
        | OutOfFuel => True
        end.
  Proof.
    induction es as [|e es IH]; intros Hf p c p' H.
    - cbn in H. inversion H; subst. split; [apply extends_refl|].
      intros P en _ _ [s e0 o x] Hx Hen. cbn in Hx; subst x. reflexivity.
    - cbn [forallb] in Hf. apply andb_true_iff in Hf; destruct Hf as [Fe Fr].
      cbn [emit_args] in H.
      destruct (emit_expr same p e) as [[ce pe]|] eqn:Ee; cbn [cbind fst snd] in H; [|discriminate].
      destruct (emit_args same pe es) as [[cr pr]|] eqn:Er; cbn [cbind fst snd] in H; [|discriminate].
      inversion H; subst c p'; clear H.
      apply (emit_expr_correct same same_sound e Fe) in Ee. destruct Ee as [E1 He].
      apply (IH Fr) in Er. destruct Er as [E2 Hr].
      split; [eapply extends_trans; eassumption|].
      intros P en HP Hw [s e0 o x] Hx Hen. cbn [vext venv] in Hx, Hen; subst x e0.
      inversion Hw as [|? ? Hwe Hwr]; subst.
      specialize (He P en (extends_trans _ _ _ E2 HP) Hwe (mkVm s en o 0) eq_refl eq_refl).
      unfold evals0. cbn [evals]. fold (eval0 en e). fold (evals0 en es).
      destruct (eval0 en e) as [v|ex|]; cbn [bind]; [| |exact I].
      2:{ rewrite run_prefix_app, He. reflexivity. }
      specialize (Hr P en HP Hwr (mkVm (SV v :: s) en o 0) eq_refl eq_refl).
      unfold with_stack in *; cbn [stack venv vout] in *.
      destruct (evals0 en es) as [vs|ex|]; cbn [bind]; [| |exact I].
      + rewrite run_prefix_app, He, Hr. cbn [map rev]. rewrite <- app_assoc. reflexivity.
      + rewrite run_prefix_app, He, Hr. reflexivity.
  Qed.

  Lemma run_call_print : forall cs ns vs s en out cc,
    emit_call (Z.of_nat (length vs)) = COk cc ->
    run_prefix cs ns cc 0 (mkVm (rev (map SV vs) ++ SCallable NPrint :: SNull :: s) en out 0) =
    Reached 0 (mkVm (SV VNone :: s) en (print_line vs :: out) 0).
  Proof.
    intros cs ns vs s en out cc H. unfold emit_call in H.
    destruct (write_op PRECALL (Z.of_nat (length vs))) as [c1|] eqn:W1; cbn [cbind] in H; [|discriminate].
    destruct (write_op CALL (Z.of_nat (length vs))) as [c2|] eqn:W2; cbn [cbind] in H; [|discriminate].
    inversion H; subst cc; clear H.
    set (st := mkVm (rev (map SV vs) ++ SCallable NPrint :: SNull :: s) en out 0).
    rewrite run_prefix_app, (run_write_op cs ns _ _ _ st W1 (Nat2Z.is_nonneg _) eq_refl).
    unfold run1; cbn [step]. unfold with_stack.
    change (mkVm (stack st) (venv st) (vout st) 0) with st.
    cbn [app run_prefix].
    rewrite run_prefix_app, (run_write_op cs ns _ _ _ st W2 (Nat2Z.is_nonneg _) eq_refl).
    unfold run1; cbn [step]. unfold call. rewrite Nat2Z.id. unfold st; cbn [stack venv vout].
    assert (Hl : length (rev (map SV vs)) = length vs) by (rewrite rev_length, map_length; reflexivity).
    assert (Hf : firstn (length vs) (rev (map SV vs) ++ SCallable NPrint :: SNull :: s) = rev (map SV vs))
      by (rewrite <- Hl; apply firstn_length_app).
    assert (Hs : skipn (length vs) (rev (map SV vs) ++ SCallable NPrint :: SNull :: s) = SCallable NPrint :: SNull :: s)
      by (rewrite <- Hl; apply skipn_length_app).
    rewrite Hf, Hs, Hl, Nat.eqb_refl. cbn [negb].
    rewrite rev_involutive, all_values_map_SV. reflexivity.
  Qed.

  (** *** statements *)
  Definition stmt_wraps_ok (en : env) (s : stmt) : Prop :=
    match s with
    | SDef _ _ e => wraps_ok en e
    | SPrint es => Forall (wraps_ok en) es
    | _ => False
    end.

  Fixpoint prog_wraps_ok (en : env) (ss : list stmt) : Prop :=
    match ss with
    | [] => True
    | s :: r =>
      stmt_wraps_ok en s /\
      match s with
      | SDef x _ e => forall v, eval0 en e = Ok v -> prog_wraps_ok ((x, v) :: en) r
      | _ => prog_wraps_ok en r
      end
    end.

  Lemma write_op_last : forall op arg co, write_op op arg = COk co -> exists pre a, co = pre ++ [(op, a)].
  Proof.
    intros op arg co H. unfold write_op in H.
    destruct (arg <? 256); [inversion H; exists [], arg; reflexivity|].
    destruct (arg <? 65536); [inversion H; exists [(EXTENDED_ARG, arg / 256)], (arg mod 256); reflexivity|].
    destruct (arg <? 4294967296); [|discriminate].
    inversion H. eexists [_; _; _], _. reflexivity.
  Qed.

  Section Sem.
    Variable cf : value -> list value -> list (Z * value) -> res value.
    Variable cp : value -> list value -> list (list Z) -> pres.
    Variable lf : nat.

    Lemma chunk_correct : forall s, stmt_in_frag s = true ->
      forall p c p', emit_chunk same p s = COk (c, p') ->
      extends p p' /\
      forall P, extends p' P -> forall st, vext st = 0 -> stmt_wraps_ok (venv st) s -> forall r,
        match Sem.exec cf cp lf s (mkState (venv st) (vout st) r) with
        | SOk st' =>
          run_prefix (p_consts P) (p_names P) c 0 st =
            Reached 0 (mkVm ((if leaves_value s then [SV VNone] else []) ++ stack st) (s_env st') (s_out st') 0)
          /\ s_ret st' = r
          /\ match s with
             | SDef x _ e => exists v, eval0 (venv st) e = Ok v /\ s_env st' = (x, v) :: venv st
             | _ => s_env st' = venv st
             end
        | SErr ex out => run_prefix (p_consts P) (p_names P) c 0 st = Halted (rev out, Some (Uncaught ex))
        | SFuel _ => True
        end.
    Proof.
      intros s Hf p c p' H. destruct s; cbn [stmt_in_frag] in Hf; try discriminate.
      - (* print *)
        cbn [emit_chunk] in H.
        destruct (emit_load_name p NPrint) as [[cl pl]|] eqn:EL; cbn [cbind fst snd] in H; [|discriminate].
        destruct (emit_args same pl es) as [[ca pa]|] eqn:EA; cbn [cbind fst snd] in H; [|discriminate].
        destruct (emit_call (Z.of_nat (length es))) as [cc|] eqn:EC; cbn [cbind] in H; [|discriminate].
        inversion H; subst c p'; clear H.
        apply emit_load_name_run in EL. destruct EL as [E1 [i [Hi [Hn Hrun]]]].
        apply (emit_args_correct es Hf) in EA. destruct EA as [E2 Ha].
        split; [eapply extends_trans; eassumption|].
        intros P HP [sk en o x] Hx Hw r. cbn [vext venv vout] in *. subst x.
        cbn [Sem.exec s_env s_out s_ret]. rewrite (evals_frag_indep es Hf cf en).
        assert (HnP : nth_error (p_names P) (Z.to_nat i) = Some NPrint).
        { eapply nth_error_extends_names; [|exact Hn]. eapply extends_trans; eassumption. }
        specialize (Ha P en HP Hw (mkVm (SCallable NPrint :: SNull :: sk) en o 0) eq_refl eq_refl).
        assert (Hpre : run_prefix (p_consts P) (p_names P) ((PUSH_NULL, 0) :: cl) 0 (mkVm sk en o 0)
                       = Reached 0 (mkVm (SCallable NPrint :: SNull :: sk) en o 0)).
        { cbn [run_prefix vext step Z.mul Z.add]. unfold with_stack; cbn [stack venv vout].
          rewrite Hrun by reflexivity. unfold run1; cbn [step]. rewrite HnP. reflexivity. }
        unfold with_stack in Ha; cbn [stack venv vout] in Ha.
        cbn [app].
        change ((PUSH_NULL, 0) :: cl ++ ca ++ cc) with (((PUSH_NULL, 0) :: cl) ++ ca ++ cc).
        destruct (evals0 en es) as [vs|ex|] eqn:EV; [| |exact I].
        + split; [|split; reflexivity]. rewrite run_prefix_app, Hpre, run_prefix_app, Ha.
          cbn [leaves_value app s_env s_out stack].
          assert (Hlen : length es = length vs).
          { clear - EV. unfold evals0 in EV. revert vs EV. induction es as [|e es IH]; intros vs EV; cbn [evals] in EV.
            - inversion EV; reflexivity.
            - destruct (eval _ en e); cbn [bind] in EV; try discriminate.
              destruct (evals _ en es) as [vs'| |] eqn:E'; cbn [bind] in EV; try discriminate.
              inversion EV; subst. cbn [length]. f_equal. apply IH; reflexivity. }
          rewrite Hlen in EC. apply (run_call_print _ _ _ _ _ _ _ EC).
        + rewrite run_prefix_app, Hpre, run_prefix_app, Ha. reflexivity.
      - (* definition *)
        cbn [emit_chunk] in H.
        destruct (emit_expr same p e) as [[ce pe]|] eqn:EE; cbn [cbind fst snd] in H; [|discriminate].
        destruct (emit_store_name pe (NVar x)) as [[cs ps]|] eqn:ES; cbn [cbind fst snd] in H; [|discriminate].
        inversion H; subst c p'; clear H.
        apply (emit_expr_correct same same_sound e Hf) in EE. destruct EE as [E1 He].
        apply emit_store_name_run in ES. destruct ES as [E2 [i [Hi [Hn Hrun]]]].
        split; [eapply extends_trans; eassumption|].
        intros P HP [sk en o y] Hx Hw r. cbn [vext venv vout] in *. subst y.
        cbn [Sem.exec s_env s_out s_ret]. rewrite (eval_frag_indep e Hf cf (fun _ _ _ => OutOfFuel)). fold (eval0 en e).
        specialize (He P en (extends_trans _ _ _ E2 HP) Hw (mkVm sk en o 0) eq_refl eq_refl).
        unfold with_stack in He; cbn [stack venv vout] in He.
        unfold with_val. cbn [s_out].
        destruct (eval0 en e) as [v|ex|]; [| |exact I].
        + rewrite run_prefix_app, He, (Hrun P (mkVm (SV v :: sk) en o 0) eq_refl). unfold run1; cbn [step stack venv vout].
          rewrite (nth_error_extends_names _ _ _ _ HP Hn). split; [reflexivity|]. split; [reflexivity|].
          exists v. split; reflexivity.
        + rewrite run_prefix_app, He. reflexivity.
    Qed.

    Lemma stmts_correct : forall ss, forallb stmt_in_frag ss = true ->
      forall p c p', emit_stmts same p ss = COk (c, p') ->
      extends p p' /\
      forall P, extends p' P -> forall st, vext st = 0 -> prog_wraps_ok (venv st) ss -> forall r,
        match exec_block cf cp lf ss (mkState (venv st) (vout st) r) with
        | SOk st' =>
          run_prefix (p_consts P) (p_names P) c 0 st = Reached 0 (mkVm (stack st) (s_env st') (s_out st') 0)
          /\ s_ret st' = r
        | SErr ex out => run_prefix (p_consts P) (p_names P) c 0 st = Halted (rev out, Some (Uncaught ex))
        | SFuel _ => True
        end.
    Proof.
      induction ss as [|s ss IH]; intros Hf p c p' H.
      - cbn in H. inversion H; subst. split; [apply extends_refl|].
        intros P _ [sk en o x] Hx _ r. cbn in Hx; subst x. cbn. split; reflexivity.
      - cbn [forallb] in Hf. apply andb_true_iff in Hf; destruct Hf as [Fs Fr].
        cbn [emit_stmts] in H.
        destruct (emit_chunk same p s) as [[cs ps]|] eqn:ES; cbn [cbind fst snd] in H; [|discriminate].
        destruct (emit_stmts same ps ss) as [[cr pr]|] eqn:ER; cbn [cbind fst snd] in H; [|discriminate].
        inversion H; subst c p'; clear H.
        apply (chunk_correct s Fs) in ES. destruct ES as [E1 Hs].
        apply (IH Fr) in ER. destruct ER as [E2 Hr].
        split; [eapply extends_trans; eassumption|].
        intros P HP [sk en o x] Hx Hw r. cbn [vext venv vout stack] in *. subst x.
        destruct Hw as [Hws Hwr].
        specialize (Hs P (extends_trans _ _ _ E2 HP) (mkVm sk en o 0) eq_refl Hws r).
        cbn [venv vout stack] in Hs. cbn [exec_block].
        destruct (Sem.exec cf cp lf s (mkState en o r)) as [st'|ex out|out]; [| |exact I].
        2:{ rewrite run_prefix_app, Hs. reflexivity. }
        destruct Hs as [Hrun [Hret Henv]].
        assert (Hwr' : prog_wraps_ok (s_env st') ss).
        { destruct s; try (rewrite Henv; exact Hwr).
          destruct Henv as [v [Hv He]]. rewrite He. apply Hwr. exact Hv. }
        assert (Hpop : run_prefix (p_consts P) (p_names P) (cs ++ (if leaves_value s then [(POP_TOP, 0)] else [])) 0 (mkVm sk en o 0)
                       = Reached 0 (mkVm sk (s_env st') (s_out st') 0)).
        { rewrite run_prefix_app, Hrun. destruct (leaves_value s); reflexivity. }
        specialize (Hr P HP (mkVm sk (s_env st') (s_out st') 0) eq_refl Hwr' r).
        cbn [venv vout stack] in Hr.
        destruct st' as [en' o' r']. cbn [s_env s_out s_ret] in *. subst r'.
        rewrite app_assoc.
        destruct (exec_block cf cp lf ss (mkState en' o' r)) as [st''|ex out|out]; [| |exact I].
        + destruct Hr as [Hr1 Hr2]. split; [|exact Hr2]. rewrite run_prefix_app. rw_conv Hpop. exact Hr1.
        + rewrite run_prefix_app. rw_conv Hpop. exact Hr.
    Qed.

    Lemma exec_block_app : forall r t st,
      exec_block cf cp lf (r ++ t) st =
      match exec_block cf cp lf r st with SOk st' => exec_block cf cp lf t st' | err => err end.
    Proof.
      induction r as [|s r IH]; intros t st; [reflexivity|].
      cbn [app exec_block]. destruct (Sem.exec cf cp lf s st); [apply IH|reflexivity|reflexivity].
    Qed.
  End Sem.

  Lemma emit_stmts_app : forall r t p,
    emit_stmts same p (r ++ t) =
    cbind (emit_stmts same p r) (fun cr =>
    cbind (emit_stmts same (snd cr) t) (fun ct => COk (fst cr ++ fst ct, snd ct))).
  Proof.
    induction r as [|s r IH]; intros t p.
    - cbn. destruct (emit_stmts same p t) as [[c q]|]; reflexivity.
    - cbn [app emit_stmts]. destruct (emit_chunk same p s) as [[cs ps]|]; cbn [cbind fst snd]; [|reflexivity].
      rewrite IH. destruct (emit_stmts same ps r) as [[cr pr]|]; cbn [cbind fst snd]; [|reflexivity].
      destruct (emit_stmts same pr t) as [[ct pt]|]; cbn [cbind fst snd]; [|reflexivity].
      rewrite <- !app_assoc. reflexivity.
  Qed.

  Lemma last_case : forall A (l : list A), l = [] \/ exists r s, l = r ++ [s].
  Proof. intros A l; induction l using rev_ind; [left; reflexivity|right; eauto]. Qed.

  Lemma ends_with_pop_last : forall l a, ends_with_pop (l ++ [(POP_TOP, a)]) = true.
  Proof. intros. unfold ends_with_pop. rewrite rev_app_distr. reflexivity. Qed.

  Lemma ends_with_pop_store : forall l a, ends_with_pop (l ++ [(STORE_NAME, a)]) = false.
  Proof. intros. unfold ends_with_pop. rewrite rev_app_distr. reflexivity. Qed.

  (* wrapped-ness of a program splits along the execution of its prefix *)
  Lemma prog_wraps_ok_app : forall cf cp lf r t, forallb stmt_in_frag r = true ->
    forall en o ret, prog_wraps_ok en (r ++ t) ->
    prog_wraps_ok en r /\
    forall st', exec_block cf cp lf r (mkState en o ret) = SOk st' -> prog_wraps_ok (s_env st') t.
  Proof.
    induction r as [|s r IH]; intros t Hf en o ret Hw.
    - split; [exact I|]. intros st' H. cbn in H. inversion H; subst. exact Hw.
    - cbn [forallb] in Hf. apply andb_true_iff in Hf; destruct Hf as [Fs Fr].
      cbn [app prog_wraps_ok] in Hw. destruct Hw as [Hs Hr].
      destruct s; cbn [stmt_in_frag] in Fs; try discriminate.
      + (* print *)
        destruct (IH t Fr en o ret Hr) as [H1 _]. split; [split; assumption|].
        intros st' H. cbn [exec_block Sem.exec s_env s_out s_ret] in H.
        destruct (evals cf en es) as [vs|ex|]; try discriminate.
        destruct (IH t Fr en (print_line vs :: o) ret Hr) as [_ H2]. apply H2. exact H.
      + (* definition *)
        split.
        * split; [exact Hs|]. intros v Hv. destruct (IH t Fr ((x, v) :: en) o ret (Hr v Hv)) as [H1 _]. exact H1.
        * intros st' H. cbn [exec_block Sem.exec s_env s_out s_ret] in H. unfold with_val in H.
          rewrite (eval_frag_indep e Fs cf (fun _ _ _ => OutOfFuel)) in H. fold (eval0 en e) in H.
          destruct (eval0 en e) as [v|ex|] eqn:Ev; try discriminate.
          destruct (IH t Fr ((x, v) :: en) o ret (Hr v eq_refl)) as [_ H2]. apply H2. exact H.
  Qed.

  Theorem compile_module_correct : forall pre prog code P fuel,
    forallb stmt_in_frag prog = true ->
    compile_module same pre prog = COk (code, P) ->
    prog_wraps_ok [] prog ->
    snd (run_program fuel prog) <> FuelOut ->
    VM.exec (p_consts P) (p_names P) code = (fst (run_program fuel prog), Some (snd (run_program fuel prog))).
  Proof.
    intros pre prog code P fuel Hf H Hw Hfuel.
    unfold compile_module in H.
    destruct (emit_stmts same pre prog) as [[c0 p0]|] eqn:ES; cbn [cbind] in H; [|discriminate].
    unfold run_program in *. unfold VM.exec.
    set (cf := callf_n fuel fuel) in *. set (cp := callp_n fuel fuel) in *.
    destruct (ends_with_pop c0) eqn:EP.
    - (* the last chunk left a value: its POP_TOP is cancelled *)
      inversion H; subst code P; clear H.
      destruct (last_case _ prog) as [Hnil|[r [s Hlast]]].
      { subst prog. cbn in ES. inversion ES; subst. cbn in EP. discriminate. }
      subst prog. rewrite emit_stmts_app in ES.
      destruct (emit_stmts same pre r) as [[cr pr]|] eqn:ER; cbn [cbind fst snd] in ES; [|discriminate].
      cbn [emit_stmts] in ES.
      destruct (emit_chunk same pr s) as [[cs ps]|] eqn:EC; cbn [cbind fst snd] in ES; [|discriminate].
      inversion ES; subst c0 p0; clear ES.
      rewrite forallb_app in Hf. apply andb_true_iff in Hf. destruct Hf as [Fr Fs].
      cbn [forallb] in Fs. rewrite andb_true_r in Fs.
      destruct s; cbn [stmt_in_frag] in Fs; try discriminate.
      2:{ (* a definition ends with STORE_NAME: no cancellation *)
          exfalso. cbn [emit_chunk] in EC.
          destruct (emit_expr same pr e) as [[ce pe]|]; cbn [cbind fst snd] in EC; [|discriminate].
          destruct (emit_store_name pe (NVar x)) as [[cst pst]|] eqn:EST; cbn [cbind fst snd] in EC; [|discriminate].
          inversion EC; subst cs ps; clear EC. unfold emit_store_name in EST.
          destruct (register_name pe (NVar x)) as [i pn]. destruct (write_op STORE_NAME i) as [co|] eqn:W; cbn [cbind] in EST; [|discriminate].
          inversion EST; subst cst pst. apply write_op_last in W. destruct W as [pre' [a Hco]]. subst co.
          cbn [leaves_value] in EP. rewrite !app_nil_r in EP. rewrite !app_assoc in EP.
          rewrite ends_with_pop_store in EP. discriminate. }
      cbn [leaves_value] in *. rewrite app_nil_r in *.
      replace (cr ++ cs ++ [(POP_TOP, 0)]) with ((cr ++ cs) ++ [(POP_TOP, 0)]) by (rewrite app_assoc; reflexivity).
      rewrite removelast_last.
      apply (stmts_correct cf cp fuel r Fr) in ER. destruct ER as [E1 Hr].
      apply (chunk_correct cf cp fuel (SPrint es) Fs) in EC. destruct EC as [E2 Hc].
      destruct (prog_wraps_ok_app cf cp fuel r [SPrint es] Fr [] [] None Hw) as [Hwr Hwt].
      specialize (Hr ps E2 init_vm eq_refl Hwr None). cbn [init_vm venv vout stack] in Hr.
      rewrite exec_block_app in *.
      destruct (exec_block cf cp fuel r (mkState [] [] None)) as [st1|ex out|out] eqn:X1.
      3:{ cbn in Hfuel. contradiction. }
      2:{ rewrite <- app_assoc, run_prefix_app. rw_conv Hr. reflexivity. }
      destruct Hr as [Hr1 Hr2]. destruct st1 as [en1 o1 r1]. cbn [s_env s_out s_ret] in *. subst r1.
      specialize (Hwt _ eq_refl). cbn [s_env] in Hwt. destruct Hwt as [Hws _].
      specialize (Hc ps (extends_refl _) (mkVm [] en1 o1 0) eq_refl Hws None). cbn [venv vout stack] in Hc.
      cbn [exec_block] in *.
      destruct (Sem.exec cf cp fuel (SPrint es) (mkState en1 o1 None)) as [st2|ex out|out] eqn:X2.
      3:{ cbn in Hfuel. contradiction. }
      2:{ rewrite <- app_assoc, run_prefix_app. rw_conv Hr1. rewrite run_prefix_app. rw_conv Hc. reflexivity. }
      destruct Hc as [Hc1 _].
      rewrite <- app_assoc, run_prefix_app. rw_conv Hr1. rewrite run_prefix_app. rw_conv Hc1.
      reflexivity.
    - (* nothing to cancel: LOAD_CONST None; RETURN_VALUE *)
      destruct (emit_load_const same p0 CNone) as [[cn pn]|] eqn:EN; cbn [cbind fst snd] in H; [|discriminate].
      inversion H; subst code P; clear H.
      apply (stmts_correct cf cp fuel prog Hf) in ES. destruct ES as [E1 Hr].
      apply (emit_load_const_correct same same_sound) in EN. destruct EN as [E2 Hn].
      specialize (Hr pn E2 init_vm eq_refl Hw None). cbn [init_vm venv vout stack] in Hr.
      destruct (exec_block cf cp fuel prog (mkState [] [] None)) as [st1|ex out|out] eqn:X1.
      3:{ cbn in Hfuel. contradiction. }
      2:{ rewrite run_prefix_app. rw_conv Hr. reflexivity. }
      destruct Hr as [Hr1 _].
      rewrite run_prefix_app. rw_conv Hr1. rewrite run_prefix_app.
      rewrite (Hn pn (extends_refl _) (mkVm [] (s_env st1) (s_out st1) 0) eq_refl). reflexivity.
  Qed.
End StmtCorrect.

(** ** the repaired pool equality is sound; the computable side condition implies the semantic one *)
Lemma zs_eqb_eq : forall a b, zs_eqb a b = true -> a = b.
Proof.
  induction a as [|x a IH]; intros [|y b] H; cbn in H; try discriminate; [reflexivity|].
  apply andb_true_iff in H. destruct H as [H1 H2]. apply Z.eqb_eq in H1. subst. f_equal. apply IH; exact H2.
Qed.

Lemma const_same_sound : forall a b, const_same a b = true -> cval a = cval b.
Proof.
  intros a b H. destruct a, b; cbn in H; try discriminate; try reflexivity; cbn [cval].
  - apply Z.eqb_eq in H; subst; reflexivity.
  - apply Z.eqb_eq in H; subst; reflexivity.
  - apply Z.eqb_eq in H; subst; reflexivity.
  - apply zs_eqb_eq in H; subst; reflexivity.
  - apply Bool.eqb_prop in H; subst; reflexivity.
Qed.

From ErgV Require Import CoreErg.Spec_C01.

Lemma fitsb_fits : forall w v, fitsb w v = true -> fits w v.
Proof.
  intros w v H. destruct w, v; cbn in *; try discriminate; try exact I. apply Z.leb_le; exact H.
Qed.

Lemma wraps_okb_sound : forall en e, wraps_okb en e = true -> wraps_ok en e.
Proof.
  intros en e; induction e using expr_ind'; intros Hb; cbn [wraps_okb wraps_ok] in *;
    apply andb_true_iff in Hb; destruct Hb as [H1 H2];
    (split; [intros v Hv; rewrite Hv in H1; apply fitsb_fits; exact H1|]); try exact I.
  - apply IHe; exact H2.
  - apply andb_true_iff in H2; destruct H2; split; auto.
  - apply andb_true_iff in H2; destruct H2; split; auto.
  - apply andb_true_iff in H2; destruct H2; split; auto.
Qed.

Lemma prog_wraps_okb_sound : forall ss en, prog_wraps_okb en ss = true -> prog_wraps_ok en ss.
Proof.
  induction ss as [|s ss IH]; intros en H; [exact I|].
  destruct s; cbn [prog_wraps_okb] in H; try discriminate; cbn [prog_wraps_ok stmt_wraps_ok].
  - apply andb_true_iff in H. destruct H as [H1 H2]. split; [|apply IH; exact H2].
    apply Forall_forall. intros e He. apply wraps_okb_sound. rewrite forallb_forall in H1. apply H1; exact He.
  - apply andb_true_iff in H. destruct H as [H1 H2]. split; [apply wraps_okb_sound; exact H1|].
    intros v Hv. rewrite Hv in H2. apply IH; exact H2.
Qed.
