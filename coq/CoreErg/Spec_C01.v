(** * Spec for C01: executable judge, the computable side condition of the theorems, known-finding classes.

    Property C01: for every program of the fragment that the compiler accepts, running the produced bytecode prints
    exactly what the program's Python-semantics reading ([Sem.run]) prints and ends with the same exit status.
    [judge] is that statement for one program and one observed behaviour of the implementation. *)
From Coq Require Import ZArith List Bool.
From ErgV Require Import Common.Sx CoreErg.Syntax CoreErg.Sem CoreErg.Codegen CoreErg.VM.
Import ListNotations.
Open Scope Z_scope.

Fixpoint zss_eqb (a b : list (list Z)) : bool :=
  match a, b with
  | [], [] => true
  | x :: r, y :: s => zs_eqb x y && zss_eqb r s
  | _, _ => false
  end.

(** observed: printed lines and status code (0 normal exit, otherwise [exn_code] of the uncaught exception class) *)
Definition judge (fuel : nat) (p : program) (obs_lines : list (list Z)) (obs_status : Z) : bool :=
  match run_program fuel p with
  | (lines, Exit0) => zss_eqb lines obs_lines && (obs_status =? 0)
  | (lines, Uncaught e) => zss_eqb lines obs_lines && (obs_status =? exn_code e)
  | (_, FuelOut) => false
  end.

(** ** the side condition of compile_correct, decided by evaluation *)
Fixpoint wraps_okb (en : env) (e : expr) : bool :=
  (match eval0 en e with Ok v => fitsb (wrap_of e) v | _ => true end) &&
  match e with
  | EUn _ _ a => wraps_okb en a
  | EBin _ _ a b | ECmp _ _ a b | ELogic _ _ a b => wraps_okb en a && wraps_okb en b
  | _ => true
  end.

Fixpoint prog_wraps_okb (en : env) (ss : list stmt) : bool :=
  match ss with
  | [] => true
  | SDef x _ e :: r =>
    wraps_okb en e && match eval0 en e with Ok v => prog_wraps_okb ((x, v) :: en) r | _ => true end
  | SPrint es :: r => forallb (wraps_okb en) es && prog_wraps_okb en r
  | _ :: _ => false
  end.

(** ** generic search in programs *)
Section Exists.
  Variable f : expr -> bool.
  Fixpoint expr_exists (e : expr) : bool :=
    f e ||
    let any := fix any (es : list expr) : bool := match es with [] => false | x :: r => expr_exists x || any r end in
    let anykw := fix anykw (kw : list (Z * expr)) : bool := match kw with [] => false | x :: r => expr_exists (snd x) || anykw r end in
    match e with
    | ELit _ _ | EVar _ _ => false
    | EUn _ _ a | ELen _ a | EAbs _ a => expr_exists a
    | EBin _ _ a b | ECmp _ _ a b | ELogic _ _ a b | EIndex _ a b | ERange _ a b => expr_exists a || expr_exists b
    | EIf _ c a b => expr_exists c || expr_exists a || expr_exists b
    | EList _ es | ETuple _ es => any es
    | ECall _ _ args kw => any args || anykw kw
    end.

  Fixpoint stmt_exists (s : stmt) : bool :=
    let blk := fix blk (ss : list stmt) : bool := match ss with [] => false | x :: r => stmt_exists x || blk r end in
    match s with
    | SExpr e | SAssert e | SDef _ _ e | SMutDef _ e | SUpdate _ _ e | SLam _ _ e | SPat _ _ e | SNPat _ e => expr_exists e
    | SPrint es | SPCall _ es => existsb expr_exists es
    | SIf c th _ el => expr_exists c || blk th || blk el
    | SFor _ it body => expr_exists it || blk body
    | SWhile c body => expr_exists c || blk body
    | SInc _ => false
    | SFun _ _ params _ body =>
      existsb (fun p => match snd p with Some d => expr_exists d | None => false end) params || blk body
    end.

  Definition prog_exists (p : program) : bool := existsb stmt_exists p.
End Exists.

(** ** known-finding classes (defects outside C01's anchors that make accepted programs misbehave) *)

(* marshal: a Nat constant >= 2^31 is written as a 32-bit int (ty/value.rs ValueObj::into_bytes; property C15) *)
Definition known_marshal_nat : program -> bool :=
  prog_exists (fun e => match e with ELit _ (LNat n) => 2147483648 <=? n | _ => false end).

(* runtime: Nat.__add__/__mul__ cast every result to Nat (lib/core/_erg_nat.py; property C26/C02):
   Nat-classed left operand, Int-classed right operand of + or * *)
Definition known_nat_cast : program -> bool :=
  prog_exists (fun e => match e with
                        | EBin _ (OAdd | OMul) a b =>
                          match wrap_of a, wrap_of b with WNat, WInt => true | _, _ => false end
                        | _ => false end).

(* type checker: arithmetic whose operand has a multi-valued enum type (an if-expression of literals, or a variable
   bound to one) is typed Nat: {256, 3} - 300 : Nat, -({256, 3}) : Nat, {256, 3} / 2 : Nat  (properties C02/C34) *)
Fixpoint enum_vars_stmt (s : stmt) : list Z :=
  let blk := fix blk (ss : list stmt) : list Z := match ss with [] => [] | x :: r => enum_vars_stmt x ++ blk r end in
  match s with
  | SDef x None (EIf _ _ _ _) => [x]
  | SFor x (ERange _ _ _) body => x :: blk body        (* the variable of a loop over lo..<hi has the interval type *)
  | SFor _ _ body | SWhile _ body | SFun _ _ _ _ body => blk body
  | SIf _ th _ el => blk th ++ blk el
  | _ => []
  end.

Definition enum_vars (p : program) : list Z := flat_map enum_vars_stmt p.

Definition is_enum (vars : list Z) (e : expr) : bool :=
  match e with
  | EIf _ _ _ _ => true
  | EVar _ x => existsb (Z.eqb x) vars
  | _ => false
  end.

Definition known_enum_arith (p : program) : bool :=
  let vars := enum_vars p in
  prog_exists (fun e => match e with
                        | EBin _ _ a b => is_enum vars a || is_enum vars b
                        | EUn _ (UNeg | UPos | UInv) a | EAbs _ a => is_enum vars a
                        | _ => false end) p.

(* literals: ValueObj::from_str (ty/value.rs) removes the delimiters of a string literal from the token text, in which
   the lexer has already replaced escape sequences; the parser rebuilds interpolation parts with mixed delimiters.
   A text that begins or ends with two quote characters (written with escapes), or consists of one quote character, is
   indistinguishable from a triple-quoted delimiter and loses its quotes.  Repairing it needs the lexer/parser to keep
   the kind of the literal (a local repair in from_str breaks string interpolation: tried, exec_interpolation fails). *)
Definition starts_2q (s : list Z) : bool := match s with 34 :: 34 :: _ => true | _ => false end.
Definition known_quote_ambiguity : program -> bool :=
  prog_exists (fun e => match e with
                        | ELit _ (LStr s) => starts_2q s || starts_2q (rev s) || zs_eqb s [34]
                        | _ => false end).

(* type inference: the variable of a for! loop or of a list pattern has no fixed type; arithmetic or a comparison with a
   Float operand unifies it with Float, and every later use is wrapped in Float: `for! 3..<4, v => print!(1.5 + v, v)`
   prints 4.5 3.0 where the program means 4.5 3  (lower.rs / context: properties C02/C34) *)
Fixpoint pat_vars (p : pat) : list Z :=
  match p with
  | PVar x => [x]
  | PDiscard => []
  | PTuple ps | PList ps => (fix go (ps : list pat) : list Z := match ps with [] => [] | q :: r => pat_vars q ++ go r end) ps
  end.

Fixpoint free_typed_vars (s : stmt) : list Z :=
  let blk := fix blk (ss : list stmt) : list Z := match ss with [] => [] | x :: r => free_typed_vars x ++ blk r end in
  match s with
  | SFor x _ body => x :: blk body
  | SPat true ids _ => ids
  | SNPat p _ => pat_vars p
  | SIf _ th _ el => blk th ++ blk el
  | SWhile _ body => blk body
  | SFun _ _ _ _ body => blk body
  | _ => []
  end.

Definition known_float_unify (p : program) : bool :=
  let vars := flat_map free_typed_vars p in
  let is_free := fun e => match e with EVar _ x => existsb (Z.eqb x) vars | _ => false end in
  let is_float := fun e => match wrap_of e with WFloat => true | _ => false end in
  prog_exists (fun e => match e with
                        | EBin _ _ a b | ECmp _ _ a b => (is_free a && is_float b) || (is_free b && is_float a)
                        | _ => false end) p.

(* type checker: an ordering guard on a variable with a multi-valued enum / interval type (`v = if(c, (do: 2), (do: 51168))`,
   `if! v >= 0`) casts it to the Float refinement of the guard inside the branch (the intersection with the enum type is
   not computed): its uses are wrapped in Float and print 51168.0 *)
Definition known_enum_guard (p : program) : bool :=
  let vars := enum_vars p in
  prog_exists (fun e => match e with
                        | ECmp _ (CLt | CLe | CGt | CGe) a _ => is_enum vars a
                        | _ => false end) p.

(* type checker: `==` / `!=` with a compound Bool expression on the left (`(True and False) != (4 == 0)`) registers a
   guard whose target is that *expression*; inside the guarded branch a syntactically equal expression is given the
   guard's type and is no longer wrapped in Bool: `print!(True and False)` prints 0 instead of False *)
Definition known_expr_guard_cast : program -> bool :=
  prog_exists (fun e => match e with
                        | ECmp _ (CEq | CNe) (ELogic _ _ _ _ | ECmp _ _ _ _ | EUn _ UNot _) _ => true
                        | _ => false end).
