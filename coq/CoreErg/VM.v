(** * CoreErg.VM — a model of the CPython 3.11 evaluation loop for exactly the instructions Codegen.v emits.

    Code is a list of code units (opcode, argument byte); inline cache entries are units too and are skipped the way
    the interpreter skips them (the instruction's cache size).  All jumps of the fragment are forward and relative
    (JUMP_IF_FALSE_OR_POP / JUMP_IF_TRUE_OR_POP: JUMPBY(oparg) from the next instruction), so the machine is written
    with a *skip counter* instead of a program counter: jumping forward by n units = skipping n units.  This makes
    [run_prefix] structurally recursive on the code (no fuel) and compositional ([run_prefix_app]).
    EXTENDED_ARG accumulates into [vext] (oparg = vext << 8 | arg).

    Values are Sem.v's values; operations are Sem.v's [un_op], [bin_op], [cmp_op], [truthy], [print_line].
    Runtime classes: calling Nat/Int/Float/Str/Bool on a value ([wrap_call]) models lib/core/_erg_nat.py etc. on values
    that fit the class (identity; Nat raises ValueError on a negative int; Float converts an int); on other values the
    machine is stuck ([Unmodelled]): the theorems carry the hypothesis that wrapped values fit ([fits]). *)
From Coq Require Import ZArith List Bool Lia.
From ErgV Require Import Common.Sx CoreErg.Syntax CoreErg.Sem CoreErg.Codegen.
Import ListNotations.
Open Scope Z_scope.

Inductive sval :=
| SV (v : value)
| SNull
| SCallable (n : name).     (* print, or a runtime class *)

Record vm := mkVm { stack : list sval; venv : env; vout : list (list Z); vext : Z }.

Definition vm_outcome := (list (list Z) * option status)%type.   (* None = stuck / ran off the code *)

Inductive pref_res :=
| Halted (o : vm_outcome)
| Reached (skip : nat) (st : vm).

Inductive step_res :=
| Next (skip : nat) (st : vm)
| Halt (o : vm_outcome).

Definition fits (w : wrapc) (v : value) : Prop :=
  match w, v with
  | WNone, _ | WList, _ => True
  | WNat, VInt z => 0 <= z
  | WInt, VInt _ => True
  | WFloat, VFloat _ => True
  | WStr, VStr _ => True
  | WBool, VBool _ => True
  | _, _ => False
  end.

Definition fitsb (w : wrapc) (v : value) : bool :=
  match w, v with
  | WNone, _ | WList, _ => true
  | WNat, VInt z => 0 <=? z
  | WInt, VInt _ => true
  | WFloat, VFloat _ => true
  | WStr, VStr _ => true
  | WBool, VBool _ => true
  | _, _ => false
  end.

(* cls(v) for the runtime classes of lib/core *)
Definition wrap_call (w : wrapc) (v : value) : res value :=
  match w, v with
  | WNat, VInt z => if z <? 0 then Raise ValueError else Ok (VInt z)      (* Nat.__init__ *)
  | WNat, VBool b => Ok (VInt (if b then 1 else 0))
  | WInt, VInt z => Ok (VInt z)
  | WInt, VBool b => Ok (VInt (if b then 1 else 0))
  | WFloat, VFloat b => Ok (VFloat b)
  | WFloat, VInt z => bind (int_to_float z) (fun f => Ok (VFloat f))
  | WStr, VStr s => Ok (VStr s)
  | WBool, VBool b => Ok (VBool b)
  | _, _ => Raise Unmodelled
  end.

Definition arith_of_arg (a : Z) : option arith :=
  match a with
  | 0 => Some OAdd | 2 => Some OFloorDiv | 5 => Some OMul | 6 => Some OMod | 8 => Some OPow | 10 => Some OSub | 11 => Some ODiv
  | _ => None
  end.
Definition cmp_of_arg (a : Z) : option cmpop :=
  match a with 0 => Some CLt | 1 => Some CLe | 2 => Some CEq | 3 => Some CNe | 4 => Some CGt | 5 => Some CGe | _ => None end.

Fixpoint all_values (l : list sval) : option (list value) :=
  match l with
  | [] => Some []
  | SV v :: r => option_map (cons v) (all_values r)
  | _ :: _ => None
  end.

Section VM.
  Variable consts : list constv.
  Variable names : list name.

  Definition stuck (st : vm) : step_res := Halt (rev (vout st), None).
  Definition raise (st : vm) (e : exn) : step_res := Halt (rev (vout st), Some (Uncaught e)).
  Definition with_stack (st : vm) (s : list sval) : vm := mkVm s (venv st) (vout st) 0.

  Definition unary (st : vm) (op : unop) : step_res :=
    match stack st with
    | SV v :: s => match un_op op v with Ok v' => Next 0 (with_stack st (SV v' :: s)) | Raise e => raise st e | OutOfFuel => stuck st end
    | _ => stuck st
    end.

  Definition jump_if (st : vm) (on_true : bool) (arg : Z) : step_res :=
    match stack st with
    | SV v :: s =>
      if Bool.eqb (truthy v) on_true then Next (Z.to_nat arg) (with_stack st (SV v :: s))
      else Next 0 (with_stack st s)
    | _ => stuck st
    end.

  Definition call (st : vm) (argc : Z) : step_res :=
    let n := Z.to_nat argc in
    let args_rev := firstn n (stack st) in
    if negb (Nat.eqb (length args_rev) n) then stuck st else
    match skipn n (stack st) with
    | SCallable f :: SNull :: below =>
      match all_values (rev args_rev) with
      | None => stuck st
      | Some vs =>
        match f with
        | NPrint => Next 4 (mkVm (SV VNone :: below) (venv st) (print_line vs :: vout st) 0)
        | NCls w =>
          match vs with
          | [v] => match wrap_call w v with
                   | Ok v' => Next 4 (with_stack st (SV v' :: below))
                   | Raise e => raise st e
                   | OutOfFuel => stuck st
                   end
          | _ => stuck st
          end
        | _ => stuck st
        end
      end
    | _ => stuck st
    end.

  (* one instruction with its full argument (EXTENDED_ARG already folded in); [vext] is reset *)
  Definition step (op : opcode) (arg : Z) (st : vm) : step_res :=
    match op with
    | CACHE | NOP | RESUME => Next 0 (with_stack st (stack st))
    | EXTENDED_ARG => Next 0 (mkVm (stack st) (venv st) (vout st) arg)
    | PUSH_NULL => Next 0 (with_stack st (SNull :: stack st))
    | POP_TOP => match stack st with _ :: s => Next 0 (with_stack st s) | [] => stuck st end
    | LOAD_CONST =>
      match nth_error consts (Z.to_nat arg) with
      | Some c => Next 0 (with_stack st (SV (cval c) :: stack st))
      | None => stuck st
      end
    | LOAD_NAME =>
      match nth_error names (Z.to_nat arg) with
      | Some (NVar x) =>
        match lookup x (venv st) with
        | Some v => Next 0 (with_stack st (SV v :: stack st))
        | None => raise st NameError
        end
      | Some NPrint => Next 0 (with_stack st (SCallable NPrint :: stack st))
      | Some (NCls w) => Next 0 (with_stack st (SCallable (NCls w) :: stack st))
      | _ => stuck st
      end
    | STORE_NAME =>
      match nth_error names (Z.to_nat arg), stack st with
      | Some (NVar x), SV v :: s => Next 0 (mkVm s ((x, v) :: venv st) (vout st) 0)
      | _, _ => stuck st
      end
    | UNARY_POSITIVE => unary st UPos
    | UNARY_NEGATIVE => unary st UNeg
    | UNARY_NOT => unary st UNot
    | UNARY_INVERT => unary st UInv
    | BINARY_OP =>
      match arith_of_arg arg, stack st with
      | Some op, SV r :: SV l :: s =>
        match bin_op op l r with Ok v => Next 1 (with_stack st (SV v :: s)) | Raise e => raise st e | OutOfFuel => stuck st end
      | _, _ => stuck st
      end
    | COMPARE_OP =>
      match cmp_of_arg arg, stack st with
      | Some op, SV r :: SV l :: s =>
        match cmp_op op l r with Ok v => Next 2 (with_stack st (SV v :: s)) | Raise e => raise st e | OutOfFuel => stuck st end
      | _, _ => stuck st
      end
    | JUMP_IF_FALSE_OR_POP => jump_if st false arg
    | JUMP_IF_TRUE_OR_POP => jump_if st true arg
    | PRECALL => Next 1 (with_stack st (stack st))
    | CALL => call st arg
    | RETURN_VALUE => Halt (rev (vout st), Some Exit0)
    end.

  Fixpoint run_prefix (code : list cunit) (skip : nat) (st : vm) : pref_res :=
    match code with
    | [] => Reached skip st
    | (op, a) :: rest =>
      match skip with
      | S k => run_prefix rest k st
      | O =>
        match step op (vext st * 256 + a) st with
        | Next k st' => run_prefix rest k st'
        | Halt o => Halted o
        end
      end
    end.

  Definition init_vm : vm := mkVm [] [] [] 0.

  Definition exec (code : list cunit) : vm_outcome :=
    match run_prefix code 0 init_vm with
    | Halted o => o
    | Reached _ st => (rev (vout st), None)
    end.
End VM.
