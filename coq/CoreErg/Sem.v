(** * CoreErg.Sem — the "Python-semantics reading" of CoreErg programs.

    [run : nat -> program -> outcome]: a fuelled big-step evaluator producing the printed lines (each a list of
    code points, without the trailing newline) and the exit status (normal / uncaught exception class / out of fuel).
    Values are plain Python values (no Erg wrapper classes): that the wrappers are transparent is exactly what
    property C01 checks against the real compiler and what Codegen.v/VM.v prove for the model.

    What is modelled exactly
      - int arithmetic on Z with Python semantics: floor division and modulo with the sign of the divisor
        (= Coq's Z.div / Z.modulo), ZeroDivisionError, [**] with a non-negative exponent, bool as a subclass of int;
      - float arithmetic + - * / unary minus, int->float conversion, int/int true division (correctly rounded) through
        the standard library's executable IEEE-754 specification [Coq.Floats.SpecFloat] (binary64 = prec 53, emax 1024,
        round to nearest even) on bit patterns: everything is plain Gallina over Z and is *extracted*; no primitive
        floats are used.  Mixed int/float comparisons are exact (as in CPython);
      - repr/str of floats (shortest round-tripping digit string, CPython's format rules: exponent form iff
        decpt <= -4 or decpt > 16), of ints, bools, None, strings (quote selection and escapes), lists, tuples;
      - short-circuit and/or returning the deciding operand, truthiness, print's space separator.
    Not modelled (explicit outcome [Unmodelled], never produced by the generator): float [**] [//] [%], int [**] with a
    negative exponent, ordering of lists, repr of non-printable code points outside ASCII/Latin-1 controls.

    Structure: expressions and statements are evaluated by structural recursion; the fuel only bounds the call depth
    (functions, procedures) and the number of iterations of each while! loop.  Hence for call-free expressions the
    result does not depend on the fuel (used by Props_C01). *)
From Coq Require Import ZArith List Bool SpecFloat.
From ErgV Require Import Common.Sx CoreErg.Syntax.
Import ListNotations.
Open Scope Z_scope.

Inductive exn := ZeroDivisionError | AssertionError | IndexError | TypeError | ValueError | OverflowError | NameError | Unmodelled.

Inductive res (A : Type) : Type :=
| Ok (a : A)
| Raise (e : exn)
| OutOfFuel.
Arguments Ok {A} a.
Arguments Raise {A} e.
Arguments OutOfFuel {A}.

Definition bind {A B} (r : res A) (f : A -> res B) : res B :=
  match r with Ok a => f a | Raise e => Raise e | OutOfFuel => OutOfFuel end.

Inductive value : Type :=
| VInt (z : Z)
| VBool (b : bool)
| VFloat (bits : Z)                 (* IEEE-754 binary64 bit pattern, 0 <= bits < 2^64 *)
| VStr (s : list Z)
| VNone
| VList (vs : list value)
| VTuple (vs : list value)
| VClos (is_proc : bool) (params : list (Z * option value)) (body : list stmt) (cenv : list (Z * value)).

Definition env := list (Z * value).

Fixpoint lookup (x : Z) (en : env) : option value :=
  match en with
  | [] => None
  | (y, v) :: r => if x =? y then Some v else lookup x r
  end.

(** ** Floats: bit patterns <-> SpecFloat *)
Definition prec := 53.
Definition emax := 1024.
Definition nan_bits := 9221120237041090560.   (* 0x7ff8000000000000 *)
Definition inf_bits := 9218868437227405312.   (* 0x7ff0000000000000 *)
Definition sign_bit := 9223372036854775808.   (* 2^63 *)
Definition two52 := 4503599627370496.

Definition b2sf (bits : Z) : spec_float :=
  let s := negb (bits / sign_bit =? 0) in
  let ex := (bits / two52) mod 2048 in
  let m := bits mod two52 in
  if ex =? 0 then
    match m with Zpos p => S754_finite s p (-1074) | _ => S754_zero s end
  else if ex =? 2047 then
    (if m =? 0 then S754_infinity s else S754_nan)
  else
    match m + two52 with Zpos p => S754_finite s p (ex - 1075) | _ => S754_nan end.

Definition sf2b (f : spec_float) : Z :=
  match f with
  | S754_zero s => if s then sign_bit else 0
  | S754_infinity s => if s then sign_bit + inf_bits else inf_bits
  | S754_nan => nan_bits
  | S754_finite s m e =>
    let sb := if s then sign_bit else 0 in
    if Zpos m <? two52 then sb + Zpos m
    else sb + (e + 1075) * two52 + (Zpos m - two52)
  end.

Definition f_is_zero (bits : Z) : bool := (bits =? 0) || (bits =? sign_bit).
Definition f_is_nan (bits : Z) : bool := match b2sf bits with S754_nan => true | _ => false end.
Definition f_neg (bits : Z) : Z := if bits <? sign_bit then bits + sign_bit else bits - sign_bit.
Definition f_abs (bits : Z) : Z := if bits <? sign_bit then bits else bits - sign_bit.
Definition f_add (a b : Z) : Z := sf2b (SFadd prec emax (b2sf a) (b2sf b)).
Definition f_sub (a b : Z) : Z := sf2b (SFsub prec emax (b2sf a) (b2sf b)).
Definition f_mul (a b : Z) : Z := sf2b (SFmul prec emax (b2sf a) (b2sf b)).
Definition f_div (a b : Z) : Z := sf2b (SFdiv prec emax (b2sf a) (b2sf b)).

(** int -> float as CPython's PyLong_AsDouble: correctly rounded, OverflowError when it does not fit *)
Definition int_to_float (z : Z) : res Z :=
  match binary_normalize prec emax z 0 false with
  | S754_infinity _ => Raise OverflowError
  | f => Ok (sf2b f)
  end.

(** int / int as CPython's long_true_divide: the correctly rounded quotient *)
Definition int_true_div (a b : Z) : res Z :=
  match a, b with
  | _, Z0 => Raise ZeroDivisionError
  | Z0, _ => Ok (if b <? 0 then sign_bit else 0)
  | _, _ =>
    let sa := a <? 0 in let sb := b <? 0 in
    match Z.abs a, Z.abs b with
    | Zpos pa, Zpos pb =>
      match SFdiv prec emax (S754_finite sa pa 0) (S754_finite sb pb 0) with
      | S754_infinity _ => Raise OverflowError
      | f => Ok (sf2b f)
      end
    | _, _ => Raise Unmodelled
    end
  end.

(** exact comparison of an integer with a float; None = unordered (nan) *)
Definition cmp_int_float (z : Z) (bits : Z) : option comparison :=
  match b2sf bits with
  | S754_nan => None
  | S754_infinity s => Some (if s then Gt else Lt)
  | S754_zero _ => Some (z ?= 0)
  | S754_finite s m e =>
    let fm := if s then Zneg m else Zpos m in
    if 0 <=? e then Some (z ?= fm * 2 ^ e) else Some (z * 2 ^ (- e) ?= fm)
  end.

Definition cmp_float (a b : Z) : option comparison := SFcompare (b2sf a) (b2sf b).

(** ** Decimal output *)
Fixpoint digits_fuel (fuel : nat) (n : Z) (acc : list Z) : list Z :=
  match fuel with
  | O => acc
  | S f => if n <? 10 then (48 + n) :: acc else digits_fuel f (n / 10) ((48 + n mod 10) :: acc)
  end.
Definition dec_nonneg (n : Z) : list Z := digits_fuel (S (Z.to_nat (Z.log2 n))) n [].
Definition str_int (z : Z) : list Z := if z <? 0 then 45 :: dec_nonneg (- z) else dec_nonneg z.

(** a * 10^k  ?=  b * 2^j   (a, b >= 0; k, j any sign) *)
Definition cmp_scaled (a k b j : Z) : comparison :=
  (a * 10 ^ (Z.max k 0) * 2 ^ (Z.max (- j) 0)) ?= (b * 10 ^ (Z.max (- k) 0) * 2 ^ (Z.max j 0)).

(** shortest digits: for a finite positive float m * 2^e returns (d, k) with value ~ d * 10^k, d without trailing zeros *)
Section Shortest.
  Variables (m e : Z).
  Let j := e - 2.
  Let nv := 4 * m.
  Let nhi := 4 * m + 2.
  Let nlo := if (m =? two52) && (-1074 <? e) then 4 * m - 1 else 4 * m - 2.
  Let incl := Z.even m.

  Definition in_interval (d k : Z) : bool :=
    let clo := cmp_scaled d k nlo j in
    let chi := cmp_scaled d k nhi j in
    (match clo with Gt => true | Eq => incl | Lt => false end) &&
    (match chi with Lt => true | Eq => incl | Gt => false end).

  (* p with 10^(p-1) <= v < 10^p *)
  Fixpoint adjust_up (fuel : nat) (p : Z) : Z :=
    match fuel with
    | O => p
    | S f => match cmp_scaled 1 p nv j with Gt => p | _ => adjust_up f (p + 1) end   (* 10^p <= v : go up *)
    end.
  Fixpoint adjust_down (fuel : nat) (p : Z) : Z :=
    match fuel with
    | O => p
    | S f => match cmp_scaled 1 (p - 1) nv j with Gt => adjust_down f (p - 1) | _ => p end  (* 10^(p-1) > v : go down *)
    end.
  Definition dec_exponent : Z :=
    let bl := Z.log2 m + 1 + e in
    let p0 := (bl * 30103) / 100000 in
    adjust_down 4 (adjust_up 4 p0).

  Definition candidate (n : Z) (p : Z) : option (Z * Z) :=
    let k := p - n in
    let num := nv * 2 ^ (Z.max j 0) * 10 ^ (Z.max (- k) 0) in
    let den := 2 ^ (Z.max (- j) 0) * 10 ^ (Z.max k 0) in
    let dlo := num / den in
    let r := num mod den in
    let dhi := dlo + 1 in
    let ilo := in_interval dlo k in
    let ihi := in_interval dhi k in
    if ilo && ihi then
      (match 2 * r ?= den with Lt => Some (dlo, k) | Gt => Some (dhi, k) | Eq => Some (if Z.even dlo then dlo else dhi, k) end)
    else if ilo then Some (dlo, k)
    else if ihi then Some (dhi, k)
    else None.

  Fixpoint first_candidate (ns : list Z) (p : Z) : option (Z * Z) :=
    match ns with
    | [] => None
    | n :: r => match candidate n p with Some dk => Some dk | None => first_candidate r p end
    end.

  Fixpoint strip_zeros (fuel : nat) (d k : Z) : Z * Z :=
    match fuel with
    | O => (d, k)
    | S f => if (d mod 10 =? 0) && (0 <? d) then strip_zeros f (d / 10) (k + 1) else (d, k)
    end.

  Definition shortest : option (Z * Z) :=
    match first_candidate [1;2;3;4;5;6;7;8;9;10;11;12;13;14;15;16;17] dec_exponent with
    | Some (d, k) => Some (strip_zeros 20 d k)
    | None => None
    end.
End Shortest.

Fixpoint repeat_z (c : Z) (n : nat) : list Z := match n with O => [] | S n' => c :: repeat_z c n' end.

(** CPython float_repr_style 'short', format code 'r' *)
Definition repr_float (bits : Z) : list Z :=
  match b2sf bits with
  | S754_nan => [110; 97; 110]                                   (* nan *)
  | S754_infinity s => (if s then [45] else []) ++ [105; 110; 102] (* inf *)
  | S754_zero s => (if s then [45] else []) ++ [48; 46; 48]       (* 0.0 *)
  | S754_finite s m e =>
    let sign := if s then [45] else [] in
    match shortest (Zpos m) e with
    | None => sign ++ [63]                                         (* unreachable: 17 digits always suffice *)
    | Some (d, k) =>
      let ds := dec_nonneg d in
      let n := Z.of_nat (length ds) in
      let decpt := k + n in
      if (decpt <=? -4) || (16 <? decpt) then
        let ex := decpt - 1 in
        let mant := match ds with [] => [] | [c] => [c] | c :: r => c :: 46 :: r end in
        let exs := dec_nonneg (Z.abs ex) in
        let exs := match exs with [c] => [48; c] | _ => exs end in
        sign ++ mant ++ [101] ++ [if ex <? 0 then 45 else 43] ++ exs
      else if decpt <=? 0 then
        sign ++ [48; 46] ++ repeat_z 48 (Z.to_nat (- decpt)) ++ ds
      else if n <=? decpt then
        sign ++ ds ++ repeat_z 48 (Z.to_nat (decpt - n)) ++ [46; 48]
      else
        sign ++ firstn (Z.to_nat decpt) ds ++ [46] ++ skipn (Z.to_nat decpt) ds
    end
  end.

(** ** str / repr *)
Definition hex_digit (d : Z) : Z := if d <? 10 then 48 + d else 87 + d.

Definition str_has (c : Z) (s : list Z) : bool := existsb (Z.eqb c) s.

Definition repr_str (s : list Z) : list Z :=
  let q := if str_has 39 s && negb (str_has 34 s) then 34 else 39 in
  let esc := fun c =>
    if c =? 92 then [92; 92]
    else if c =? q then [92; q]
    else if c =? 10 then [92; 110]
    else if c =? 13 then [92; 114]
    else if c =? 9 then [92; 116]
    else if (c <? 32) || (c =? 127) || ((128 <=? c) && (c <? 161)) || (c =? 173)
      then [92; 120; hex_digit (c / 16); hex_digit (c mod 16)]
    else [c] in
  q :: flat_map esc s ++ [q].

Fixpoint join_with (sep : list Z) (l : list (list Z)) : list Z :=
  match l with
  | [] => []
  | [x] => x
  | x :: r => x ++ sep ++ join_with sep r
  end.

Fixpoint repr_value (v : value) : list Z :=
  match v with
  | VInt z => str_int z
  | VBool b => if b then [84; 114; 117; 101] else [70; 97; 108; 115; 101]
  | VFloat b => repr_float b
  | VStr s => repr_str s
  | VNone => [78; 111; 110; 101]
  | VList vs => [91] ++ join_with [44; 32] (map repr_value vs) ++ [93]
  | VTuple vs =>
    match vs with
    | [x] => [40] ++ repr_value x ++ [44; 41]
    | _ => [40] ++ join_with [44; 32] (map repr_value vs) ++ [41]
    end
  | VClos _ _ _ _ => [60; 102; 62]      (* <f> : functions are never printed in the fragment *)
  end.

Definition str_value (v : value) : list Z :=
  match v with
  | VStr s => s
  | _ => repr_value v
  end.

(** ** Operations on values (shared by the evaluator and by the VM model) *)
Definition lit_value (l : lit) : value :=
  match l with
  | LNat n => VInt n
  | LNeg z => VInt z
  | LFloat b => VFloat b
  | LStr s => VStr s
  | LBool b => VBool b
  | LNone => VNone
  end.

Definition truthy (v : value) : bool :=
  match v with
  | VInt z => negb (z =? 0)
  | VBool b => b
  | VFloat b => negb (f_is_zero b)
  | VStr s => match s with [] => false | _ => true end
  | VNone => false
  | VList vs | VTuple vs => match vs with [] => false | _ => true end
  | VClos _ _ _ _ => true
  end.

(* int view of int/bool *)
Definition as_int (v : value) : option Z :=
  match v with VInt z => Some z | VBool b => Some (if b then 1 else 0) | _ => None end.

Inductive num := NInt (z : Z) | NFloat (b : Z).
Definition as_num (v : value) : option num :=
  match v with VInt z => Some (NInt z) | VBool b => Some (NInt (if b then 1 else 0)) | VFloat b => Some (NFloat b) | _ => None end.

Definition un_op (op : unop) (v : value) : res value :=
  match op with
  | UNot => Ok (VBool (negb (truthy v)))
  | UNeg => match as_num v with Some (NInt z) => Ok (VInt (- z)) | Some (NFloat b) => Ok (VFloat (f_neg b)) | None => Raise TypeError end
  | UPos => match as_num v with Some (NInt z) => Ok (VInt z) | Some (NFloat b) => Ok (VFloat b) | None => Raise TypeError end
  | UInv => match as_int v with Some z => Ok (VInt (- z - 1)) | None => Raise TypeError end
  end.

Fixpoint repeat_list {A} (l : list A) (n : nat) : list A := match n with O => [] | S n' => l ++ repeat_list l n' end.

Definition float_op (op : arith) (a b : Z) : res value :=
  match op with
  | OAdd => Ok (VFloat (f_add a b))
  | OSub => Ok (VFloat (f_sub a b))
  | OMul => Ok (VFloat (f_mul a b))
  | ODiv => if f_is_zero b then Raise ZeroDivisionError else Ok (VFloat (f_div a b))
  | OFloorDiv | OMod => if f_is_zero b then Raise ZeroDivisionError else Raise Unmodelled
  | OPow => Raise Unmodelled
  end.

Definition int_op (op : arith) (a b : Z) : res value :=
  match op with
  | OAdd => Ok (VInt (a + b))
  | OSub => Ok (VInt (a - b))
  | OMul => Ok (VInt (a * b))
  | ODiv => bind (int_true_div a b) (fun f => Ok (VFloat f))
  | OFloorDiv => if b =? 0 then Raise ZeroDivisionError else Ok (VInt (a / b))
  | OMod => if b =? 0 then Raise ZeroDivisionError else Ok (VInt (a mod b))
  | OPow => if b <? 0 then (if a =? 0 then Raise ZeroDivisionError else Raise Unmodelled) else Ok (VInt (a ^ b))
  end.

Definition bin_op (op : arith) (x y : value) : res value :=
  match as_num x, as_num y with
  | Some (NInt a), Some (NInt b) => int_op op a b
  | Some (NFloat a), Some (NFloat b) => float_op op a b
  | Some (NInt a), Some (NFloat b) => bind (int_to_float a) (fun fa => float_op op fa b)
  | Some (NFloat a), Some (NInt b) => bind (int_to_float b) (fun fb => float_op op a fb)
  | _, _ =>
    match op, x, y with
    | OAdd, VStr a, VStr b => Ok (VStr (a ++ b))
    | OAdd, VList a, VList b => Ok (VList (a ++ b))
    | OAdd, VTuple a, VTuple b => Ok (VTuple (a ++ b))
    | OMul, VStr a, _ => match as_int y with Some n => Ok (VStr (repeat_list a (Z.to_nat n))) | None => Raise TypeError end
    | OMul, _, VStr b => match as_int x with Some n => Ok (VStr (repeat_list b (Z.to_nat n))) | None => Raise TypeError end
    | OMul, VList a, _ => match as_int y with Some n => Ok (VList (repeat_list a (Z.to_nat n))) | None => Raise TypeError end
    | OMul, _, VList b => match as_int x with Some n => Ok (VList (repeat_list b (Z.to_nat n))) | None => Raise TypeError end
    | _, _, _ => Raise TypeError
    end
  end.

Fixpoint cmp_str (a b : list Z) : comparison :=
  match a, b with
  | [], [] => Eq
  | [], _ => Lt
  | _, [] => Gt
  | x :: r, y :: s => match x ?= y with Eq => cmp_str r s | c => c end
  end.

Definition flip_cmp (c : comparison) : comparison := match c with Lt => Gt | Gt => Lt | Eq => Eq end.

Definition test_cmp (op : cmpop) (c : option comparison) : bool :=
  match c with
  | None => match op with CNe => true | _ => false end
  | Some c =>
    match op, c with
    | CLt, Lt | CLe, Lt | CLe, Eq | CEq, Eq | CNe, Lt | CNe, Gt | CGt, Gt | CGe, Gt | CGe, Eq => true
    | _, _ => false
    end
  end.

Definition is_eq_op (op : cmpop) : bool := match op with CEq | CNe => true | _ => false end.

Definition cmp_op (op : cmpop) (x y : value) : res value :=
  match as_num x, as_num y with
  | Some (NInt a), Some (NInt b) => Ok (VBool (test_cmp op (Some (a ?= b))))
  | Some (NFloat a), Some (NFloat b) => Ok (VBool (test_cmp op (cmp_float a b)))
  | Some (NInt a), Some (NFloat b) => Ok (VBool (test_cmp op (cmp_int_float a b)))
  | Some (NFloat a), Some (NInt b) => Ok (VBool (test_cmp op (option_map flip_cmp (cmp_int_float b a))))
  | _, _ =>
    match x, y with
    | VStr a, VStr b => Ok (VBool (test_cmp op (Some (cmp_str a b))))
    | VNone, VNone => if is_eq_op op then Ok (VBool (test_cmp op (Some Eq))) else Raise TypeError
    | VList _, VList _ | VTuple _, VTuple _ => Raise Unmodelled
    | _, _ => if is_eq_op op then Ok (VBool (test_cmp op None)) else Raise TypeError
    end
  end.

Definition get_item {A} (l : list A) (z : Z) : res A :=
  let n := Z.of_nat (length l) in
  let z' := if z <? 0 then z + n else z in
  if (z' <? 0) || (n <=? z') then Raise IndexError
  else match nth_error l (Z.to_nat z') with Some x => Ok x | None => Raise IndexError end.

Definition index_op (a i : value) : res value :=
  match as_int i with
  | None => Raise TypeError
  | Some z =>
    match a with
    | VList l | VTuple l => get_item l z
    | VStr s => bind (get_item s z) (fun c => Ok (VStr [c]))
    | _ => Raise TypeError
    end
  end.

Definition len_op (v : value) : res value :=
  match v with
  | VList l | VTuple l => Ok (VInt (Z.of_nat (length l)))
  | VStr s => Ok (VInt (Z.of_nat (length s)))
  | _ => Raise TypeError
  end.

Definition abs_op (v : value) : res value :=
  match as_num v with
  | Some (NInt z) => Ok (VInt (Z.abs z))
  | Some (NFloat b) => Ok (VFloat (f_abs b))
  | None => Raise TypeError
  end.

Fixpoint range_list (lo : Z) (n : nat) : list value :=
  match n with O => [] | S n' => VInt lo :: range_list (lo + 1) n' end.

Definition print_line (vs : list value) : list Z := join_with [32] (map str_value vs).

(** parameter binding: positional, then keyword, then default *)
Fixpoint bind_params (params : list (Z * option value)) (args : list value) (kws : list (Z * value)) : option env :=
  match params with
  | [] => match args with [] => Some [] | _ => None end
  | (p, d) :: r =>
    match args with
    | a :: args' => option_map (cons (p, a)) (bind_params r args' kws)
    | [] =>
      match lookup p kws with
      | Some v => option_map (cons (p, v)) (bind_params r [] kws)
      | None => match d with Some v => option_map (cons (p, v)) (bind_params r [] kws) | None => None end
      end
    end
  end.

(** ** Evaluation *)
Record state := mkState { s_env : env; s_out : list (list Z) (* newest first *); s_ret : option value }.

Inductive sres :=
| SOk (st : state)
| SErr (e : exn) (out : list (list Z))
| SFuel (out : list (list Z)).

Inductive pres :=
| POk (out : list (list Z))
| PErr (e : exn) (out : list (list Z))
| PFuel (out : list (list Z)).

Section Level.
  (* how calls are performed: provided by the next lower fuel level *)
  Variable callf : value -> list value -> list (Z * value) -> res value.
  Variable callp : value -> list value -> list (list Z) -> pres.
  Variable loopfuel : nat.

  Fixpoint eval (en : env) (e : expr) {struct e} : res value :=
    let evals := fix evals (es : list expr) : res (list value) :=
      match es with
      | [] => Ok []
      | x :: r => bind (eval en x) (fun v => bind (evals r) (fun vs => Ok (v :: vs)))
      end in
    let evalkw := fix evalkw (kw : list (Z * expr)) : res (list (Z * value)) :=
      match kw with
      | [] => Ok []
      | (p, x) :: r => bind (eval en x) (fun v => bind (evalkw r) (fun vs => Ok ((p, v) :: vs)))
      end in
    match e with
    | ELit _ l => Ok (lit_value l)
    | EVar _ x => match lookup x en with Some v => Ok v | None => Raise NameError end
    | EUn _ op a => bind (eval en a) (un_op op)
    | EBin _ op a b => bind (eval en a) (fun va => bind (eval en b) (fun vb => bin_op op va vb))
    | ECmp _ op a b => bind (eval en a) (fun va => bind (eval en b) (fun vb => cmp_op op va vb))
    | ELogic _ is_or a b =>
      bind (eval en a) (fun va =>
        if is_or then (if truthy va then Ok va else eval en b)
        else (if truthy va then eval en b else Ok va))
    | EList _ es => bind (evals es) (fun vs => Ok (VList vs))
    | ETuple _ es => bind (evals es) (fun vs => Ok (VTuple vs))
    | EIndex _ a i => bind (eval en a) (fun va => bind (eval en i) (fun vi => index_op va vi))
    | EIf _ c a b => bind (eval en c) (fun vc => if truthy vc then eval en a else eval en b)
    | ECall _ f args kw =>
      match lookup f en with
      | None => Raise NameError
      | Some clos => bind (evals args) (fun vs => bind (evalkw kw) (fun kvs => callf clos vs kvs))
      end
    | ELen _ a => bind (eval en a) len_op
    | EAbs _ a => bind (eval en a) abs_op
    | ERange _ lo hi =>
      bind (eval en lo) (fun vlo => bind (eval en hi) (fun vhi =>
        match as_int vlo, as_int vhi with
        | Some l, Some h => Ok (VList (range_list l (Z.to_nat (h - l))))
        | _, _ => Raise TypeError
        end))
    end.

  Fixpoint evals (en : env) (es : list expr) : res (list value) :=
    match es with
    | [] => Ok []
    | x :: r => bind (eval en x) (fun v => bind (evals en r) (fun vs => Ok (v :: vs)))
    end.

  Definition set_env (st : state) (en : env) : state := mkState en (s_out st) (s_ret st).
  Definition def_var (st : state) (x : Z) (v : value) : state := set_env st ((x, v) :: s_env st).

  Fixpoint bind_ids (ids : list Z) (vs : list value) (en : env) : option env :=
    match ids, vs with
    | [], [] => Some en
    | i :: ir, v :: vr => bind_ids ir vr ((i, v) :: en)
    | _, _ => None
    end.

  (* destructuring: a tuple or list pattern takes a sequence of exactly as many items (ValueError otherwise, TypeError
     on a non-sequence, as Python's unpacking); `_` binds nothing *)
  Fixpoint bind_pat (p : pat) (v : value) (en : env) {struct p} : res env :=
    match p with
    | PVar x => Ok ((x, v) :: en)
    | PDiscard => Ok en
    | PTuple ps | PList ps =>
      match v with
      | VList vs | VTuple vs =>
        (fix go (ps : list pat) (vs : list value) (en : env) : res env :=
           match ps, vs with
           | [], [] => Ok en
           | q :: pr, w :: vr => bind (bind_pat q w en) (fun en' => go pr vr en')
           | _, _ => Raise ValueError
           end) ps vs en
      | _ => Raise TypeError
      end
    end.

  (* lift an expression result into a statement result *)
  Definition with_val (st : state) (r : res value) (k : value -> sres) : sres :=
    match r with Ok v => k v | Raise e => SErr e (s_out st) | OutOfFuel => SFuel (s_out st) end.

  Fixpoint exec (s : stmt) (st : state) {struct s} : sres :=
    let block := fix block (ss : list stmt) (st : state) : sres :=
      match ss with
      | [] => SOk st
      | x :: r => match exec x st with SOk st' => block r st' | err => err end
      end in
    match s with
    | SExpr e => with_val st (eval (s_env st) e) (fun v => SOk (mkState (s_env st) (s_out st) (Some v)))
    | SPrint es =>
      match evals (s_env st) es with
      | Ok vs => SOk (mkState (s_env st) (print_line vs :: s_out st) (s_ret st))
      | Raise e => SErr e (s_out st)
      | OutOfFuel => SFuel (s_out st)
      end
    | SAssert e => with_val st (eval (s_env st) e) (fun v => if truthy v then SOk st else SErr AssertionError (s_out st))
    | SDef x _ e => with_val st (eval (s_env st) e) (fun v => SOk (def_var st x v))
    | SIf c th has_else el =>
      with_val st (eval (s_env st) c) (fun v => if truthy v then block th st else if has_else then block el st else SOk st)
    | SFor x it body =>
      with_val st (eval (s_env st) it) (fun v =>
        match v with
        | VList items | VTuple items =>
          (fix loop (items : list value) (st : state) : sres :=
             match items with
             | [] => SOk st
             | i :: r => match block body (def_var st x i) with SOk st' => loop r st' | err => err end
             end) items st
        | _ => SErr TypeError (s_out st)
        end)
    | SWhile c body =>
      (fix loop (n : nat) (st : state) : sres :=
         match n with
         | O => SFuel (s_out st)
         | S n' =>
           with_val st (eval (s_env st) c) (fun v =>
             if truthy v then match block body st with SOk st' => loop n' st' | err => err end
             else SOk st)
         end) loopfuel st
    | SMutDef x e => with_val st (eval (s_env st) e) (fun v => SOk (def_var st x v))
    | SInc x =>
      match lookup x (s_env st) with
      | Some v => with_val st (bin_op OAdd v (VInt 1)) (fun v' => SOk (def_var st x v'))
      | None => SErr NameError (s_out st)
      end
    | SUpdate x p e =>
      match lookup x (s_env st) with
      | Some v => with_val st (eval ((p, v) :: s_env st) e) (fun v' => SOk (def_var st x v'))
      | None => SErr NameError (s_out st)
      end
    | SFun f is_proc params _ body =>
      let defaults := fix defaults (ps : list (Z * ty * option expr)) : res (list (Z * option value)) :=
        match ps with
        | [] => Ok []
        | (p, _, None) :: r => bind (defaults r) (fun ds => Ok ((p, None) :: ds))
        | (p, _, Some d) :: r => bind (eval (s_env st) d) (fun v => bind (defaults r) (fun ds => Ok ((p, Some v) :: ds)))
        end in
      match defaults params with
      | Ok ds => SOk (def_var st f (VClos is_proc ds body (s_env st)))
      | Raise e => SErr e (s_out st)
      | OutOfFuel => SFuel (s_out st)
      end
    | SLam f params e =>
      SOk (def_var st f (VClos false (map (fun pt => (fst pt, None)) params) [SExpr e] (s_env st)))
    | SPat _ ids e =>
      with_val st (eval (s_env st) e) (fun v =>
        match v with
        | VList vs | VTuple vs =>
          match bind_ids ids vs (s_env st) with
          | Some en => SOk (set_env st en)
          | None => SErr ValueError (s_out st)
          end
        | _ => SErr TypeError (s_out st)
        end)
    | SNPat p e =>
      with_val st (eval (s_env st) e) (fun v =>
        match bind_pat p v (s_env st) with
        | Ok en => SOk (set_env st en)
        | Raise ex => SErr ex (s_out st)
        | OutOfFuel => SFuel (s_out st)
        end)
    | SPCall f args =>
      match lookup f (s_env st) with
      | None => SErr NameError (s_out st)
      | Some clos =>
        match evals (s_env st) args with
        | Ok vs =>
          match callp clos vs (s_out st) with
          | POk out => SOk (mkState (s_env st) out (s_ret st))
          | PErr e out => SErr e out
          | PFuel out => SFuel out
          end
        | Raise e => SErr e (s_out st)
        | OutOfFuel => SFuel (s_out st)
        end
      end
    end.

  Fixpoint exec_block (ss : list stmt) (st : state) : sres :=
    match ss with
    | [] => SOk st
    | x :: r => match exec x st with SOk st' => exec_block r st' | err => err end
    end.
End Level.

(** call depth levels *)
Fixpoint callf_n (loopfuel : nat) (n : nat) (clos : value) (args : list value) (kws : list (Z * value)) : res value :=
  match n with
  | O => OutOfFuel
  | S n' =>
    match clos with
    | VClos false params body cenv =>
      match bind_params params args kws with
      | None => Raise TypeError
      | Some bound =>
        match exec_block (callf_n loopfuel n') (fun _ _ out => PErr TypeError out) loopfuel body (mkState (bound ++ cenv) [] None) with
        | SOk st => match s_ret st with Some v => Ok v | None => Ok VNone end
        | SErr e _ => Raise e
        | SFuel _ => OutOfFuel
        end
      end
    | _ => Raise TypeError
    end
  end.

Fixpoint callp_n (loopfuel : nat) (n : nat) (clos : value) (args : list value) (out : list (list Z)) : pres :=
  match n with
  | O => PFuel out
  | S n' =>
    match clos with
    | VClos true params body cenv =>
      match bind_params params args [] with
      | None => PErr TypeError out
      | Some bound =>
        match exec_block (callf_n loopfuel n') (callp_n loopfuel n') loopfuel body (mkState (bound ++ cenv) out None) with
        | SOk st => POk (s_out st)
        | SErr e o => PErr e o
        | SFuel o => PFuel o
        end
      end
    | _ => PErr TypeError out
    end
  end.

Inductive status := Exit0 | Uncaught (e : exn) | FuelOut.
Definition outcome := (list (list Z) * status)%type.

Definition run_program (fuel : nat) (p : program) : outcome :=
  match exec_block (callf_n fuel fuel) (callp_n fuel fuel) fuel p (mkState [] [] None) with
  | SOk st => (rev (s_out st), Exit0)
  | SErr e out => (rev out, Uncaught e)
  | SFuel out => (rev out, FuelOut)
  end.

(* [run] is the documented name; Extract.v uses [run_program] because the extraction entry point must itself be
   called [run] and extraction would rename one of the two *)
Definition run : nat -> program -> outcome := run_program.

(** expression evaluation without calls and loops: what the compiler-correctness theorem talks about *)
Definition eval0 (en : env) (e : expr) : res value := eval (fun _ _ _ => OutOfFuel) en e.

Definition exn_code (e : exn) : Z :=
  match e with
  | ZeroDivisionError => 1 | AssertionError => 2 | IndexError => 3 | TypeError => 4 | ValueError => 5 | OverflowError => 6
  | NameError => 7 | Unmodelled => 99
  end.
