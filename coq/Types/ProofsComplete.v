(** C06 — completeness of the judgement on the chain fragment, hence transitivity there *)
From Coq Require Import ZArith List Bool Arith Lia.
From ErgV Require Import gen.Classes Types.Model Types.Spec Types.ProofsBasic Types.ProofsLaws Types.ProofsInv Types.ProofsDen Types.ProofsSound.
Import ListNotations.
Open Scope Z_scope.

(* a value of the class that belongs to no class of the chain fragment that is not above it *)
Definition wit (c : Z) : value :=
  if c =? id_Bool then VBool true
  else if c =? id_Nat then VInt 5
  else if c =? id_Int then VInt (-5)
  else if c =? id_Float then VFloat 15
  else if c =? id_Str then VStr []
  else VNone.

Lemma wit_table :
  forallb (fun c => forallb (fun c' => Bool.eqb (den (TMono c') (wit c)) (sub (TMono c) (TMono c'))) chain_classes)
          chain_classes = true.
Proof. vm_compute. reflexivity. Qed.

Lemma list_not_chain : forallb (fun c => negb (den (TMono c) (VList []))) chain_classes = true.
Proof. vm_compute. reflexivity. Qed.

Lemma chain_registered : forallb registered_mono chain_classes = true.
Proof. vm_compute. reflexivity. Qed.

Lemma is_chain_inv t : is_chain t = true -> exists c, t = TMono c /\ In c chain_classes.
Proof.
  destruct t; try discriminate. cbn [is_chain]. intros H. apply existsb_exists in H. destruct H as [k [Hk He]].
  apply Z.eqb_eq in He. subst. eauto.
Qed.

Lemma wit_den c c' : In c chain_classes -> In c' chain_classes -> den (TMono c') (wit c) = sub (TMono c) (TMono c').
Proof.
  intros Hc Hc'. pose proof wit_table as H. rewrite forallb_forall in H. specialize (H c Hc).
  rewrite forallb_forall in H. specialize (H c' Hc'). now apply eqb_prop in H.
Qed.

Lemma wit_self c : In c chain_classes -> den (TMono c) (wit c) = true.
Proof. intros Hc. rewrite (wit_den c c Hc Hc). apply sub_refl_l. Qed.

Lemma chain_frag c : In c chain_classes -> frag (TMono c) = true.
Proof. intros Hc. pose proof chain_registered as H. rewrite forallb_forall in H. exact (H c Hc). Qed.

Lemma cfrag_frag t : cfrag t = true -> frag t = true.
Proof.
  destruct t; try discriminate; try reflexivity.
  - cbn [cfrag]. intros H. destruct (is_chain_inv _ H) as [c' [E Hc]]. injection E as <-. now apply chain_frag.
  - cbn [cfrag]. intros H. rewrite frag_or. apply forallb_forall. intros x Hx. rewrite forallb_forall in H.
    destruct (is_chain_inv _ (H x Hx)) as [c [-> Hc]]. now apply chain_frag.
Qed.

(* (A or B) :> T if A :> T *)
Lemma supb_or_any l s t : In t l -> supb t s = true -> supb (TOr l) s = true.
Proof.
  intros Hin Ht. pose proof (supb_unfold (TOr l) s) as H.
  destruct (cheap (TOr l) s) as [b|] eqn:Hc.
  - apply cheap_or_l in Hc. subst. now inversion H.
  - assert (Hs : structural recb (TOr l) s = Some true).
    { unfold structural.
      assert (H1 : exists b, (match s with TAnd rs => anyM (fun a => recb (TOr l) a) rs | _ => Some false end) = Some b).
      { destruct s; eauto. destruct (anyM (fun a => recb (TOr l) a) l0) eqn:E; eauto.
        exfalso. revert E. apply anyM_some. intros; apply recb_some. }
      destruct H1 as [[|] ->]; [reflexivity|]. cbn [orM].
      rewrite (anyM_recb_true (fun o => recb o s) l t Hin); [reflexivity| |intros; apply recb_some].
      unfold recb. now rewrite Ht. }
    rewrite Hs in H. now inversion H.
Qed.

Lemma cheap_or_r l rs b : cheap l (TOr rs) = Some b -> b = true.
Proof.
  unfold cheap. destruct (ty_eqb l (TOr rs)); [now inversion 1|].
  destruct l; cbn; rewrite ?andb_false_r; cbn; try congruence;
    repeat match goal with |- context [if ?c then _ else _] => destruct c; cbn; try congruence end.
Qed.

Lemma allM_all_true {A} (g : A -> option bool) l : (forall x, In x l -> g x = Some true) -> allM g l = Some true.
Proof. induction l as [|x t IH]; cbn; [auto|]. intros H. rewrite (H x) by auto. cbn. apply IH. auto. Qed.

(* what den-inclusion of a chain class gives: the judgement, through a member when the right side is a union *)
Definition strong (T s : ty) : Prop :=
  supb T s = true /\ (forall ts, T = TOr ts -> exists k, In k ts /\ supb k s = true).

Lemma complete_mono c T :
  In c chain_classes -> cfrag T = true -> (forall v, den (TMono c) v = true -> den T v = true) -> strong T (TMono c).
Proof.
  intros Hc HT Hi. specialize (Hi (wit c) (wit_self c Hc)). destruct T; try discriminate HT.
  - discriminate Hi.
  - split; [apply (obj_top_l (TMono c))|intros ts E; discriminate E].
  - cbn [cfrag] in HT. destruct (is_chain_inv _ HT) as [c' [E Hc']]. injection E as <-.
    rewrite (wit_den c c0 Hc Hc') in Hi. split; [exact Hi|intros ts E; discriminate E].
  - cbn [cfrag] in HT. rewrite den_or in Hi. apply existsb_exists in Hi. destruct Hi as [t [Ht Hd]].
    rewrite forallb_forall in HT. destruct (is_chain_inv _ (HT t Ht)) as [c' [-> Hc']].
    rewrite (wit_den c c' Hc Hc') in Hd. split.
    + now apply (supb_or_any l (TMono c) (TMono c')).
    + intros ts E. injection E as <-. exists (TMono c'). auto.
Qed.

Lemma supb_all_or T ss :
  cfrag T = true -> (forall s, In s ss -> strong T s) -> supb T (TOr ss) = true.
Proof.
  intros HT Hs. pose proof (supb_unfold T (TOr ss)) as H.
  destruct (cheap T (TOr ss)) as [b|] eqn:Hc.
  - apply cheap_or_r in Hc. subst. now inversion H.
  - assert (Hst : structural recb T (TOr ss) = Some true); [|rewrite Hst in H; now inversion H].
    unfold structural. cbn [orM].
    destruct T; try discriminate HT.
    + cbn [orM]. apply allM_all_true. intros o Ho. unfold recb. now rewrite (proj1 (Hs o Ho)).
    + exfalso. revert Hc. unfold cheap. destruct (ty_eqb TObj (TOr ss)); cbn; discriminate.
    + cbn [orM]. apply allM_all_true. intros o Ho. unfold recb. now rewrite (proj1 (Hs o Ho)).
    + destruct (anyM (fun o => recb o (TOr ss)) l) as [[|]|] eqn:E; [reflexivity| |exfalso; revert E; apply anyM_some; intros; apply recb_some].
      cbn [orM]. apply allM_all_true. intros o Ho. destruct (proj2 (Hs o Ho) l eq_refl) as [k [Hk Hko]].
      apply (anyM_recb_true (fun k => recb k o) l k Hk); [unfold recb; now rewrite Hko|intros; apply recb_some].
Qed.

Lemma sub_complete_l S T :
  cfrag S = true -> cfrag T = true -> (forall v, den S v = true -> den T v = true) -> sub S T = true.
Proof.
  intros HS HT Hi. destruct S; try discriminate HS.
  - apply never_bot_l.
  - (* Obj: only Obj admits a list *)
    specialize (Hi (VList []) eq_refl). destruct T; try discriminate HT.
    + discriminate Hi.
    + apply obj_top_l.
    + exfalso. cbn [cfrag] in HT. destruct (is_chain_inv _ HT) as [c' [E Hc']]. injection E as <-.
      pose proof list_not_chain as L. rewrite forallb_forall in L. specialize (L c Hc'). rewrite Hi in L. discriminate.
    + exfalso. cbn [cfrag] in HT. rewrite den_or in Hi. apply existsb_exists in Hi. destruct Hi as [t [Ht Hd]].
      rewrite forallb_forall in HT. destruct (is_chain_inv _ (HT t Ht)) as [c' [-> Hc']].
      pose proof list_not_chain as L. rewrite forallb_forall in L. specialize (L c' Hc'). rewrite Hd in L. discriminate.
  - cbn [cfrag] in HS. destruct (is_chain_inv _ HS) as [c' [E Hc]]. injection E as <-.
    exact (proj1 (complete_mono c T Hc HT Hi)).
  - cbn [cfrag] in HS. rewrite forallb_forall in HS. change (supb T (TOr l) = true). apply supb_all_or; [exact HT|].
    intros s Hs. destruct (is_chain_inv _ (HS s Hs)) as [c [-> Hc]]. apply complete_mono; auto.
    intros v Hv. apply Hi. rewrite den_or. apply existsb_exists. eauto.
Qed.

(* transitivity follows from set inclusion *)
Lemma sub_trans_l S T U :
  cfrag S = true -> cfrag T = true -> cfrag U = true -> sub S T = true -> sub T U = true -> sub S U = true.
Proof.
  intros HS HT HU H1 H2. apply sub_complete_l; auto. intros v Hv.
  apply (sub_sound_l T U); auto using cfrag_frag. apply (sub_sound_l S T); auto using cfrag_frag.
Qed.
