(** C06 — property theorems (statements only; proofs are in Proofs*.v).
    [sub s t] is the model of Context::subtype_of(s, t) (Types/Model.v), [den] the set-theoretic reading of a type
    (Types/Spec.v), [wf] the types the constructors build. *)
From Coq Require Import ZArith List Bool.
From ErgV Require Import gen.Classes Types.Model Types.Spec Types.ProofsBasic Types.ProofsLaws Types.ProofsSound
  Types.ProofsComplete Types.ProofsTrans Types.ProofsRefute.
Import ListNotations.
Open Scope Z_scope.

(** 0. the judgement terminates: the fuel Model.fuel_of (size of the two types) is enough for every pair of types *)
Theorem sub_total : forall s t, sub_res s t <> None.
Proof. exact sub_res_some. Qed.

(** 1. reflexivity, for every type of the fragment *)
Theorem sub_refl : forall t, sub t t = true.
Proof. exact sub_refl_l. Qed.

(** 2. Never is below, Obj above every type *)
Theorem never_bot : forall t, sub TNever t = true.
Proof. exact never_bot_l. Qed.
Theorem obj_top : forall t, sub t TObj = true.
Proof. exact obj_top_l. Qed.

(** 3. the numeric tower Bool <: Nat <: Int <: Ratio <: Float <: Complex, all 15 pairs *)
Theorem tower : forall a b, In (a, b) (tower_pairs Spec.tower) -> sub a b = true.
Proof. exact tower_l. Qed.
Example tower_nonvacuous : In (TMono id_Bool, TMono id_Complex) (tower_pairs Spec.tower).
Proof. cbn. auto 20. Qed.

(** 4. T <: (T or U) and U <: (T or U), for all types T and U *)
Theorem sub_or_intro : forall t u, sub t (TOr [t; u]) = true.
Proof. exact sub_or_intro_l. Qed.
Theorem sub_or_intro_r : forall t u, sub u (TOr [t; u]) = true.
Proof. exact sub_or_intro_r_l. Qed.

(** 5. (T and U) <: T and (T and U) <: U, for all types T and U *)
Theorem and_elim : forall t u, sub (TAnd [t; u]) t = true.
Proof. exact and_elim_l. Qed.
Theorem and_elim_r : forall t u, sub (TAnd [t; u]) u = true.
Proof. exact and_elim_r_l. Qed.

(** 6. an enum of literals is below the class of those literals *)
Theorem singleton_below_class : forall ls,
  wf (enum_ty ls) = true -> sub (fst (q_singleton ls)) (snd (q_singleton ls)) = true.
Proof. exact singleton_below_class_l. Qed.
Example singleton_nonvacuous : wf (enum_ty [LInt 1; LInt 2]) = true /\ snd (q_singleton [LInt 1; LInt 2]) = TMono id_Nat.
Proof. split; reflexivity. Qed.

(** 7. soundness for the set-theoretic reading [den] (Types/Spec.v): if S <: T is judged, every value of S is a value of T.
    On the fragment [frag]: Never, Obj, every builtin class and trait, literal enum and interval refinements, unions and
    intersections of them at any depth.  (Negation and List are outside: see 9.)
    This is also what C33 uses: an accepted match covers the values of the scrutinee type. *)
Theorem sub_sound : forall S T, frag S = true -> frag T = true -> sub S T = true ->
  forall v, den S v = true -> den T v = true.
Proof. exact sub_sound_l. Qed.
Example sub_sound_nonvacuous :
  let S := interval_ty (TMono id_Nat) IClosed 1 10 in let T := TOr [TMono id_Str; TMono id_Nat] in
  frag S = true /\ frag T = true /\ sub S T = true /\ den S (VInt 3) = true.
Proof. vm_compute. repeat split; reflexivity. Qed.

(** 8. transitivity.
    (a) On the fragment where the judgement is also complete for [den] (Never, Obj, the classes Bool Nat Int Float Str
        NoneType and unions of them) it follows from set inclusion. *)
Theorem sub_complete : forall S T, cfrag S = true -> cfrag T = true ->
  (forall v, den S v = true -> den T v = true) -> sub S T = true.
Proof. exact sub_complete_l. Qed.
Theorem sub_trans : forall S T U, cfrag S = true -> cfrag T = true -> cfrag U = true ->
  sub S T = true -> sub T U = true -> sub S U = true.
Proof. exact sub_trans_l. Qed.
Example sub_trans_nonvacuous :
  let S := TMono id_Bool in let T := TOr [TMono id_Nat; TMono id_Str] in let U := TOr [TMono id_NoneType; TMono id_Float; TMono id_Str] in
  cfrag S = true /\ cfrag T = true /\ cfrag U = true /\ sub S T = true /\ sub T U = true.
Proof. vm_compute. repeat split; reflexivity. Qed.

(** (b) On ALL builtin classes and traits (whatever coq/gen/Classes.v contains), outside the class [mono_gap]: c is declared
        above a through a chain of super-type lists, but the judgement - which scans the direct lists only - denies a <: c. *)
Theorem sub_trans_nominal : forall a b c,
  registered_mono a = true -> registered_mono b = true -> registered_mono c = true -> mono_gap a c = false ->
  sub (TMono a) (TMono b) = true -> sub (TMono b) (TMono c) = true -> sub (TMono a) (TMono c) = true.
Proof. exact sub_trans_nominal_l. Qed.
Example sub_trans_nominal_nonvacuous :
  registered_mono id_Bool = true /\ mono_gap id_Bool id_Named = false /\ sub (TMono id_Bool) (TMono id_Int) = true.
Proof. vm_compute. repeat split; reflexivity. Qed.

(** 9. where transitivity is FALSE of the faithful model (known findings, known/C06.json; each triple is replayed on the
    real Context::subtype_of by checks/c06.py).  [refutes s m t k]: s <: m, m <: t, not s <: t, and the triple is in the
    known class k of Spec.known_trans. *)
(* the super-type lists are not transitively closed (first such triple of the current table; none left: trivially true) *)
Theorem sub_trans_refuted_nominal_gap :
  match gap_witnesses with
  | (a, b, c) :: _ => refutes (TMono a) (TMono b) (TMono c) 4
  | [] => True
  end.
Proof. exact sub_trans_refuted_gap_l. Qed.
(* List(Nat, 2) <: List(Nat, _) <: List(Nat, 3): an erased length compares as Any *)
Theorem sub_trans_refuted_list_length :
  refutes (TList (TMono id_Nat) (Some 2)) (TList (TMono id_Nat) None) (TList (TMono id_Nat) (Some 3)) 2.
Proof. exact sub_trans_refuted_list_length_l. Qed.
(* List(Never, _) <: ClassType <: Named: a list of types is a type *)
Theorem sub_trans_refuted_list_metatype :
  refutes (TList TNever None) (TMono id_ClassType) (TMono id_Named) 3.
Proof. exact sub_trans_refuted_list_metatype_l. Qed.
(* Ratio <: Complex <: (not Float) *)
Theorem sub_trans_refuted_negation :
  refutes (TMono id_Ratio) (TMono id_Complex) (TNot (TMono id_Float)) 1.
Proof. exact sub_trans_refuted_negation_l. Qed.
