(** C06 — facts about the denotation: the closure behind den_nom, the value classes, refinements of Nat and Bool *)
From Coq Require Import ZArith List Bool Arith Lia.
From ErgV Require Import gen.Classes Types.Model Types.Spec.
Import ListNotations.
Open Scope Z_scope.

(* ------------------------------------------------------------------ the closure is closed (by computation on the table) *)
Definition closed (l : list node) : bool := forallb (fun n => forallb (fun m => node_mem m l) (succs n)) l.

Lemma ups_closed : forallb (fun ku => closed (snd ku)) ups = true.
Proof. vm_compute. reflexivity. Qed.

Lemma node_eqb_eq a b : node_eqb a b = true -> a = b.
Proof.
  destruct a as [x p], b as [y q]. unfold node_eqb. cbn. intros H. apply andb_prop in H. destruct H as [H1 H2].
  apply Z.eqb_eq in H1. apply eqb_prop in H2. now subst.
Qed.
Lemma node_eqb_refl a : node_eqb a a = true.
Proof. destruct a. unfold node_eqb. cbn. now rewrite Z.eqb_refl, eqb_reflx. Qed.
Lemma node_mem_In n l : node_mem n l = true <-> In n l.
Proof.
  unfold node_mem. rewrite existsb_exists. split.
  - intros [m [Hm He]]. apply node_eqb_eq in He. now subst.
  - intros H. exists n. split; auto using node_eqb_refl.
Qed.

Lemma up_step ku n m :
  In ku ups -> node_mem n (snd ku) = true -> In m (succs n) -> node_mem m (snd ku) = true.
Proof.
  intros Hku Hn Hm. pose proof ups_closed as H. rewrite forallb_forall in H. specialize (H ku Hku).
  unfold closed in H. rewrite forallb_forall in H. apply node_mem_In in Hn. specialize (H n Hn).
  rewrite forallb_forall in H. exact (H m Hm).
Qed.

(* den_nom goes up along an edge *)
Lemma den_nom_step s t n m v :
  node_of s = Some n -> node_of t = Some m -> In m (succs n) -> den_nom s v = true -> den_nom t v = true.
Proof.
  intros Hs Ht Hm. unfold den_nom. rewrite Hs, Ht. intros H. apply existsb_exists in H. destruct H as [ku [Hku H]].
  apply andb_prop in H. destruct H as [Hp Hn]. apply existsb_exists. exists ku. split; [exact Hku|].
  rewrite Hp. cbn. now apply (up_step ku n m).
Qed.

Lemma lookup_in c r : lookup c = Some r -> In r classes /\ row_id r = c.
Proof.
  unfold lookup. intros H. apply find_some in H. destruct H as [H1 H2]. apply Z.eqb_eq in H2. auto.
Qed.

Definition sups_of (r : row) : list (Z * bool) := row_sc r ++ row_st r.

Lemma no_never_sup :
  forallb (fun r => forallb (fun s => negb ((fst s =? id_Never) && negb (snd s))) (sups_of r)) classes = true.
Proof. vm_compute. reflexivity. Qed.

Lemma sup_not_never r s : In r classes -> In s (sups_of r) -> (fst s =? id_Never) && negb (snd s) = false.
Proof.
  intros Hr Hs. pose proof no_never_sup as H. rewrite forallb_forall in H. specialize (H r Hr).
  rewrite forallb_forall in H. specialize (H s Hs). now apply negb_true_iff in H.
Qed.

(* ------------------------------------------------------------------ reachability in the super-type graph *)
Lemma node_add_incl l n C : incl l C -> In n C -> incl (node_add l n) C.
Proof.
  intros Hl Hn. unfold node_add. destruct (node_mem n l); [exact Hl|]. intros x Hx. apply in_app_or in Hx.
  destruct Hx as [Hx|[<-|[]]]; auto.
Qed.
Lemma fold_node_add_incl ns acc C : incl acc C -> incl ns C -> incl (fold_left node_add ns acc) C.
Proof.
  revert acc. induction ns as [|n ns IH]; intros acc Ha Hn; [exact Ha|]. cbn [fold_left]. apply IH.
  - apply node_add_incl; [exact Ha|]. apply Hn. cbn. auto.
  - intros x Hx. apply Hn. cbn. auto.
Qed.
Lemma closed_succs C n : closed C = true -> In n C -> incl (succs n) C.
Proof.
  unfold closed. rewrite forallb_forall. intros H Hn m Hm. specialize (H n Hn). rewrite forallb_forall in H.
  apply node_mem_In. exact (H m Hm).
Qed.
Lemma round_incl seen acc C : closed C = true -> incl seen C -> incl acc C ->
  incl (fold_left (fun acc n => fold_left node_add (succs n) acc) seen acc) C.
Proof.
  intros HC. revert acc. induction seen as [|n ns IH]; intros acc Hs Ha; [exact Ha|]. cbn [fold_left]. apply IH.
  - intros x Hx. apply Hs. cbn. auto.
  - apply fold_node_add_incl; [exact Ha|]. apply closed_succs; [exact HC|]. apply Hs. cbn. auto.
Qed.
Lemma up_iter_incl f seen C : closed C = true -> incl seen C -> incl (up_iter f seen) C.
Proof.
  intros HC. revert seen. induction f as [|f IH]; intros seen Hs; [exact Hs|]. cbn [up_iter]. apply IH.
  now apply round_incl.
Qed.

Lemma reach_den a c v : reach a c = true -> den (TMono a) v = true -> den (TMono c) v = true.
Proof.
  unfold reach. intros Hr. cbn [den]. unfold den_nom. cbn [node_of]. intros H. apply existsb_exists in H.
  destruct H as [ku [Hku H]]. apply andb_prop in H. destruct H as [Hp Hn]. apply existsb_exists. exists ku.
  split; [exact Hku|]. rewrite Hp. cbn [andb]. apply node_mem_In.
  assert (Hc : closed (snd ku) = true).
  { pose proof ups_closed as Hc. rewrite forallb_forall in Hc. exact (Hc ku Hku). }
  apply (up_iter_incl 12 [(a, false)] (snd ku) Hc).
  - intros x [<-|[]]. now apply node_mem_In.
  - now apply node_mem_In.
Qed.

(* ------------------------------------------------------------------ value classes: den is prim *)
Lemma den_vc c v : In c value_classes -> den (TMono c) v = prim c v.
Proof.
  intros Hc. cbn [den]. unfold den_nom, node_of.
  cbn in Hc.
  repeat (destruct Hc as [<-|Hc];
          [ destruct v as [b|z|q|s| |l]; [destruct b| | | | |]; vm_compute; try reflexivity;
            destruct z as [|p|p]; try reflexivity; destruct p; reflexivity | ]).
  contradiction.
Qed.

(* ------------------------------------------------------------------ refinements of Nat and Bool stay inside them *)
Lemma val_int_num v z : val_int v = Some z -> val_num v = Some (10 * z).
Proof. destruct v; cbn; try discriminate; [destruct b|]; intros H; inversion H; reflexivity. Qed.

Lemma prim_int v : prim id_Int v = true -> exists z, val_int v = Some z.
Proof. vm_compute. destruct v; try discriminate; eauto. Qed.
Lemma prim_nat_intro v z : val_int v = Some z -> 0 <= z -> prim id_Nat v = true.
Proof.
  intros H Hz. replace (prim id_Nat v) with (match val_int v with Some z => 0 <=? z | None => false end) by reflexivity.
  rewrite H. now apply Z.leb_le.
Qed.
Lemma prim_bool_intro v z : val_int v = Some z -> z = 0 \/ z = 1 -> prim id_Bool v = true.
Proof.
  intros H Hz.
  replace (prim id_Bool v) with (match val_int v with Some z => (z =? 0) || (z =? 1) | None => false end) by reflexivity.
  rewrite H. destruct Hz; subst; reflexivity.
Qed.

Lemma in_vc_Int : In id_Int value_classes. Proof. cbn. auto. Qed.
Lemma in_vc_Nat : In id_Nat value_classes. Proof. cbn. auto. Qed.
Lemma in_vc_Bool : In id_Bool value_classes. Proof. cbn. auto. Qed.
Lemma in_vc_None : In id_NoneType value_classes. Proof. cbn. auto 10. Qed.

Lemma int_bound_num b a : int_bound b = Some a -> bound_num b = Some (10 * a).
Proof.
  destruct b as [l|z|z]; cbn.
  - destruct l; try discriminate. intros H. now inversion H.
  - intros H. now inversion H.
  - intros H. now inversion H.
Qed.

Lemma lit_class_nat' l : lit_class l = id_Nat -> exists z, l = LInt z /\ 0 <= z.
Proof.
  destruct l; cbn; try (vm_compute; discriminate).
  destruct (0 <=? z) eqn:E; [|vm_compute; discriminate]. intros _. exists z. split; auto. lia.
Qed.
Lemma lit_class_bool' l : lit_class l = id_Bool -> exists b, l = LBool b.
Proof.
  destruct l; cbn; try (vm_compute; discriminate); [|eauto].
  destruct (0 <=? z); vm_compute; discriminate.
Qed.

Lemma nat_ref_ok p v :
  wf_ref id_Nat p = true -> den (TMono id_Int) v = true -> den_pred p v = true -> den (TMono id_Nat) v = true.
Proof.
  intros Hwf Hi Hp. rewrite (den_vc _ v in_vc_Int) in Hi. rewrite (den_vc _ v in_vc_Nat).
  destruct (prim_int v Hi) as [z Hz]. apply (prim_nat_intro v z Hz). pose proof (val_int_num v z Hz) as Hn.
  destruct p as [|b|ls|lo hi]; try discriminate.
  - cbn in Hwf, Hp. apply andb_prop in Hwf. destruct Hwf as [Hwf _]. apply andb_prop in Hwf. destruct Hwf as [_ Hwf].
    apply existsb_exists in Hp. destruct Hp as [l [Hl Hm]]. rewrite forallb_forall in Hwf. specialize (Hwf l Hl).
    apply andb_prop in Hwf. destruct Hwf as [Hc _]. apply Z.eqb_eq in Hc.
    destruct (lit_class_nat' l Hc) as [n [-> Hn0]]. unfold lit_matches in Hm. cbn [lit_num] in Hm. rewrite Hn in Hm.
    apply Z.eqb_eq in Hm. lia.
  - unfold wf_ref in Hwf. destruct (int_bound lo) as [a|] eqn:Ha; [|discriminate]. destruct (int_bound hi) as [b|] eqn:Hb; [|discriminate].
    apply andb_prop in Hwf. destruct Hwf as [_ Hwf].
    change (id_Nat =? id_Int) with false in Hwf. change (id_Nat =? id_Nat) with true in Hwf. cbn [orb andb] in Hwf.
    apply Z.leb_le in Hwf. cbn [den_pred] in Hp. rewrite (int_bound_num lo a Ha), (int_bound_num hi b Hb), Hn in Hp.
    apply andb_prop in Hp. destruct Hp as [Hp _]. apply Z.leb_le in Hp. lia.
Qed.

Lemma bool_ref_ok p v :
  wf_ref id_Bool p = true -> den (TMono id_Int) v = true -> den_pred p v = true -> den (TMono id_Bool) v = true.
Proof.
  intros Hwf Hi Hp. rewrite (den_vc _ v in_vc_Int) in Hi. rewrite (den_vc _ v in_vc_Bool).
  destruct (prim_int v Hi) as [z Hz]. apply (prim_bool_intro v z Hz). pose proof (val_int_num v z Hz) as Hn.
  destruct p as [|b|ls|lo hi]; try discriminate.
  - cbn in Hwf, Hp. apply andb_prop in Hwf. destruct Hwf as [Hwf _]. apply andb_prop in Hwf. destruct Hwf as [_ Hwf].
    apply existsb_exists in Hp. destruct Hp as [l [Hl Hm]]. rewrite forallb_forall in Hwf. specialize (Hwf l Hl).
    apply andb_prop in Hwf. destruct Hwf as [Hc _]. apply Z.eqb_eq in Hc.
    destruct (lit_class_bool' l Hc) as [b ->]. unfold lit_matches in Hm. cbn [lit_num] in Hm. rewrite Hn in Hm.
    apply Z.eqb_eq in Hm. destruct b; lia.
  - exfalso. unfold wf_ref in Hwf. destruct (int_bound lo); [|discriminate]. destruct (int_bound hi); [|discriminate].
    change (id_Bool =? id_Int) with false in Hwf. change (id_Bool =? id_Nat) with false in Hwf.
    cbn [orb andb] in Hwf. rewrite andb_false_r in Hwf. discriminate.
Qed.

(* the predicates of a well-formed refinement have numeric bounds *)
Lemma wf_ref_bounds c p : wf_ref c p = true ->
  match p with
  | PGe b => False
  | PIval lo hi => bound_num lo <> None /\ bound_num hi <> None
  | _ => True
  end.
Proof.
  destruct p as [|b|ls|lo hi]; cbn; try discriminate; auto.
  destruct (int_bound lo) as [a|] eqn:Ha; [|discriminate]. destruct (int_bound hi) as [b|] eqn:Hb; [|discriminate].
  intros _. rewrite (int_bound_num lo a Ha), (int_bound_num hi b Hb). split; congruence.
Qed.

(* Nat and Bool as refinements of Int (Type::into_refinement) *)
Lemma leb_iff a b c d : (a <= b <-> c <= d) -> (a <=? b) = (c <=? d).
Proof. intros H. destruct (a <=? b) eqn:E1, (c <=? d) eqn:E2; auto; [apply Z.leb_le in E1; apply Z.leb_gt in E2|apply Z.leb_gt in E1; apply Z.leb_le in E2]; lia. Qed.

Lemma den_nat_ref v : den (TRef (TMono id_Int) pred_nat) v = den (TMono id_Nat) v.
Proof.
  cbn [den]. change (den_nom (TMono id_Int) v) with (den (TMono id_Int) v). change (den_nom (TMono id_Nat) v) with (den (TMono id_Nat) v).
  rewrite (den_vc _ v in_vc_Int), (den_vc _ v in_vc_Nat).
  destruct v as [b|z|q|s| |l]; try reflexivity.
  - destruct b; reflexivity.
  - change (prim id_Int (VInt z)) with true. change (prim id_Nat (VInt z)) with (0 <=? z).
    change (den_pred pred_nat (VInt z)) with (10 * 0 <=? 10 * z). cbn [andb]. apply leb_iff. lia.
Qed.
Lemma den_bool_ref v : den (TRef (TMono id_Int) pred_bool) v = den (TMono id_Bool) v.
Proof.
  cbn [den]. change (den_nom (TMono id_Int) v) with (den (TMono id_Int) v). change (den_nom (TMono id_Bool) v) with (den (TMono id_Bool) v).
  rewrite (den_vc _ v in_vc_Int), (den_vc _ v in_vc_Bool).
  destruct v as [b|z|q|s| |l]; try reflexivity.
  - destruct b; reflexivity.
  - change (prim id_Int (VInt z)) with true. change (prim id_Bool (VInt z)) with ((z =? 0) || (z =? 1)).
    change (den_pred pred_bool (VInt z)) with ((0 <=? 10 * z) && (10 * z <=? 10)). cbn [andb].
    destruct (0 <=? 10 * z) eqn:E1, (10 * z <=? 10) eqn:E2, (z =? 0) eqn:E3, (z =? 1) eqn:E4; cbn; try reflexivity;
      rewrite ?Z.leb_le, ?Z.leb_gt, ?Z.eqb_eq, ?Z.eqb_neq in *; lia.
Qed.
