(** C33 — model of `match`: acceptance by the checker and the run-time arm tests.  (first version: refined below) *)
From Coq Require Import ZArith List Bool Arith.
From ErgV Require Import gen.Classes Types.Model Types.Spec.
Import ListNotations.
Open Scope Z_scope.

Inductive arm :=
| ALit (l : lit)        (* literal pattern `1 -> ...` == `_: {1}` *)
| ATy (t : ty)          (* type pattern `_: T -> ...` *)
| AWild.                (* `_ -> ...` *)

Definition arm_ty (a : arm) : ty :=
  match a with ALit l => enum_ty [l] | ATy t => t | AWild => TObj end.

Definition union_arms (arms : list arm) : ty := fold_left or_ty (map arm_ty arms) TNever.

Definition accepted (t : ty) (arms : list arm) : bool := sub t (union_arms arms).

Definition arm_matches (a : arm) (v : value) : bool :=
  match a with ALit l => lit_matches l v | ATy t => den t v | AWild => true end.

Fixpoint first_match_from (i : Z) (arms : list arm) (v : value) : Z :=
  match arms with
  | [] => -1
  | a :: r => if arm_matches a v then i else first_match_from (i + 1) r v
  end.
Definition first_match (arms : list arm) (v : value) : Z := first_match_from 0 arms v.
