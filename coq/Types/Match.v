(** C33 — model of `match`: acceptance by the checker and the arm tests at run time.

    Transcribed from
      crates/erg_parser/desugar.rs                 a literal pattern `1 -> e` is `%p: {1} -> e` with the guard `%p == 1`,
                                                   a type pattern `_: T -> e` has the guard `T contains %p`
      crates/erg_compiler/context/inquire.rs       get_match_call_t: the pattern types are folded with Context::union and the
                                                   scrutinee type must be a subtype of the result (sub_unify)
      crates/erg_compiler/context/compare.rs       Context::{union, union_refinement, union_pred, union_add, simple_union}
      crates/erg_compiler/codegen.rs               emit_match_instr / emit_match_pattern: the arms are tried in order; the
                                                   guard of the LAST arm is evaluated and dropped (the last arm always runs)
      crates/erg_compiler/lib/core/_erg_contains_operator.py, _erg_nat.py, _erg_bool.py, _erg_range.py
    Not modelled: tuple / record / list patterns, guards, bindings used in the arm bodies. *)
From Coq Require Import ZArith List Bool Arith.
From ErgV Require Import gen.Classes Types.Model Types.Spec.
Import ListNotations.
Open Scope Z_scope.

Inductive arm :=
| ALit (l : lit)        (* literal pattern `1 -> ...` *)
| ATy (t : ty)          (* type pattern `_: T -> ...` *)
| AWild.                (* `_ -> ...` (the parameter type is Obj) *)

Definition arm_ty (a : arm) : ty :=
  match a with ALit l => enum_ty [l] | ATy t => t | AWild => TObj end.

(* ------------------------------------------------------------------ Context::union on the fragment *)
(* simple_union: the larger one if the two are related, otherwise `lhs or rhs` *)
Definition simple_union (a b : ty) : ty := if sub b a then a else if sub a b then b else or_ty a b.

(* union_pred: the weaker predicate if one implies the other, otherwise `lhs | rhs` (representable for two enums) *)
Definition union_pred (p q : rpred) : option rpred :=
  if is_super_pred p q then Some p
  else if is_super_pred q p then Some q
  else match p, q with
       | PEnum a, PEnum b => Some (PEnum (a ++ filter (fun x => negb (existsb (lit_eqb x) a)) b))
       | _, _ => None
       end.

Definition is_plain (t : ty) : bool := match t with TNever | TObj | TMono _ => true | _ => false end.

(* union_add(union, elem) *)
Definition union_add (l : list ty) (e : ty) : ty :=
  if existsb (fun t => sub e t) l then TOr l else or_ty (TOr l) e.

(* None: the result is outside the modelled fragment (an intersection, a container, a predicate that is not an enum or an
   interval): the check does not generate such matches *)
Definition union_ty (a b : ty) : option ty :=
  if ty_eqb a b then Some a
  else match a, b with
       | TRef ab ap, TRef bb bp =>
         (* union_refinement: union of the two classes, union_pred of the predicates; modelled for the same class *)
         if ty_eqb ab bb && is_plain ab && is_plain bb
         then match union_pred ap bp with Some p => Some (TRef ab p) | None => None end
         else None
       | _, _ =>
         (* (Refinement(refine), other) if other is the class that is refined: union(other, refine.t) == other *)
         match a, b with
         | TRef (TMono c) _, TMono d => if c =? d then Some b else Some (simple_union a b)
         | TMono d, TRef (TMono c) _ => if c =? d then Some a else Some (simple_union a b)
         | TAnd _, _ | _, TAnd _ | TList _ _, _ | _, TList _ _ | TNot _, _ | _, TNot _ | TPoly _, _ | _, TPoly _ => None
         | o, TOr l => Some (union_add l o)          (* (other, or @ Or(_)) *)
         | TOr l, o => Some (union_add l o)          (* (or @ Or(_), other) *)
         | t, TNever => Some t
         | TNever, t => Some t
         | _, _ => Some (simple_union a b)
         end
       end.

(* union_pat_t: Never, then union(union_pat_t, arm type) for every arm in order *)
Fixpoint union_arms_from (acc : ty) (arms : list arm) : option ty :=
  match arms with
  | [] => Some acc
  | a :: r => match union_ty acc (arm_ty a) with Some u => union_arms_from u r | None => None end
  end.
Definition union_arms (arms : list arm) : option ty := union_arms_from TNever arms.

(* the match is accepted iff the scrutinee type is a subtype of the union of the pattern types *)
Definition accepted (t : ty) (arms : list arm) : option bool :=
  match union_arms arms with Some u => Some (sub t u) | None => None end.

(* ------------------------------------------------------------------ run time *)
(* contains_operator(C, v) for a builtin class C and a literal value v: isinstance (Bool < Nat < Int), then C.try_new(v) *)
Definition rt_class (c : Z) (v : value) : bool :=
  if c =? id_Bool then match v with VBool _ => true | _ => false end
  else if c =? id_Nat then match v with VBool _ => true | VInt z => 0 <=? z | _ => false end
  else if c =? id_Int then match v with VBool _ | VInt _ => true | _ => false end
  else if c =? id_Float then match v with VFloat _ => true | _ => false end
  else if c =? id_Str then match v with VStr _ => true | _ => false end
  else if c =? id_NoneType then match v with VNone => true | _ => false end
  else false.

(* contains_operator(T, v) for the value of the type expression T: a class, a set `{1, 2}` (`v in set`), a Range
   (`lo <= v <= hi`), a UnionType (any) *)
Fixpoint rt_in (t : ty) (v : value) : bool :=
  match t with
  | TObj => true
  | TMono c => rt_class c v
  | TRef _ (PEnum ls) => existsb (fun l => lit_matches l v) ls
  | TRef _ (PIval lo hi) => den_pred (PIval lo hi) v
  | TOr l => (fix any (l : list ty) : bool := match l with [] => false | x :: r => rt_in x v || any r end) l
  | _ => false
  end.

Definition rt_test (a : arm) (v : value) : bool :=
  match a with ALit l => lit_matches l v | ATy t => rt_in t v | AWild => true end.

(* every use of the scrutinee variable is wrapped as the class of its static type (codegen.rs emit_expr: an accessor of type
   Bool | Nat | Int | Float | Str after derefine is emitted as `C(x)`): a Bool used as a Nat / Int is the integer, the integers
   0 and 1 used as a Bool are the booleans *)
Definition rt_wrap (t : ty) (v : value) : value :=
  match derefine t with
  | TMono c =>
    if (c =? id_Nat) || (c =? id_Int) then match v with VBool b => VInt (if b then 1 else 0) | _ => v end
    else if c =? id_Bool then match v with VInt z => VBool (negb (z =? 0)) | _ => v end
    else v
  | _ => v
  end.

(* the arm whose body runs: the first one whose test succeeds; the test of the last arm is not consulted *)
Fixpoint rt_select_from (i : Z) (arms : list arm) (v : value) : Z :=
  match arms with
  | [] => -1
  | [_] => i
  | a :: r => if rt_test a v then i else rt_select_from (i + 1) r v
  end.
Definition rt_select (arms : list arm) (v : value) : Z := rt_select_from 0 arms v.

(* the property on one observation: the arm that ran matches the value *)
Definition judge_arm (arms : list arm) (i : Z) (v : value) : bool :=
  match nth_error arms (Z.to_nat i) with
  | Some a => (0 <=? i) && den (arm_ty a) v
  | None => false
  end.

(* known finding (known/C33.json): the checker reads Bool as {0, 1} (True == 1), the run-time class test does not:
   a Bool arm is not taken for the integers 0 and 1 *)
Fixpoint mentions_bool (t : ty) : bool :=
  match t with
  | TMono c => c =? id_Bool
  | TRef b _ => mentions_bool b
  | TOr l => (fix any (l : list ty) : bool := match l with [] => false | x :: r => mentions_bool x || any r end) l
  | _ => false
  end.
Definition known_bool_int (arms : list arm) (v : value) : bool :=
  match val_int v with
  | Some z => ((z =? 0) || (z =? 1)) && existsb (fun a => match a with ATy t => mentions_bool t | _ => false end) arms
  | None => false
  end.
