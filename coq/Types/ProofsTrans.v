(** C06 — transitivity: on all builtin nominal types outside the gap class, and the refuting triples of the known classes *)
From Coq Require Import ZArith List Bool Arith Lia.
From ErgV Require Import gen.Classes Types.Model Types.Spec Types.ProofsBasic Types.ProofsLaws Types.ProofsDen Types.ProofsInv.
Import ListNotations.
Open Scope Z_scope.

(* every closure is closed (by computation on the table) *)
Lemma ups_all_closed : forallb (fun r => closed (up_iter 12 [(row_id r, false)])) classes = true.
Proof. vm_compute. reflexivity. Qed.

Lemma registered_in c : registered_mono c = true -> exists r, In r classes /\ row_id r = c.
Proof.
  unfold registered_mono. destruct (lookup c) as [r|] eqn:E; [|discriminate]. intros _.
  destruct (lookup_in c r E) as [H1 H2]. eauto.
Qed.

(* the closure contains its seed and one step of successors *)
Lemma node_add_keeps l n x : In x l -> In x (node_add l n).
Proof. unfold node_add. destruct (node_mem n l); [auto|]. intros H. apply in_or_app. auto. Qed.
Lemma node_add_adds l n : In n (node_add l n).
Proof.
  unfold node_add. destruct (node_mem n l) eqn:E; [now apply node_mem_In|]. apply in_or_app. right. cbn. auto.
Qed.
Lemma fold_add_keeps ns acc x : In x acc -> In x (fold_left node_add ns acc).
Proof. revert acc. induction ns as [|n ns IH]; intros acc H; [exact H|]. cbn. apply IH. now apply node_add_keeps. Qed.
Lemma fold_add_adds ns acc n : In n ns -> In n (fold_left node_add ns acc).
Proof.
  revert acc. induction ns as [|m ns IH]; intros acc H; [contradiction|]. cbn. destruct H as [<-|H].
  - apply fold_add_keeps. apply node_add_adds.
  - now apply IH.
Qed.
Lemma round_keeps seen acc x : In x acc -> In x (fold_left (fun acc n => fold_left node_add (succs n) acc) seen acc).
Proof. revert acc. induction seen as [|n ns IH]; intros acc H; [exact H|]. cbn. apply IH. now apply fold_add_keeps. Qed.
Lemma round_adds seen acc n m :
  In n seen -> In m (succs n) -> In m (fold_left (fun acc n => fold_left node_add (succs n) acc) seen acc).
Proof.
  revert acc. induction seen as [|k ns IH]; intros acc Hn Hm; [contradiction|]. cbn. destruct Hn as [<-|Hn].
  - apply round_keeps. now apply fold_add_adds.
  - now apply IH.
Qed.
Lemma up_iter_keeps f seen x : In x seen -> In x (up_iter f seen).
Proof. revert seen. induction f as [|f IH]; intros seen H; [exact H|]. cbn. apply IH. now apply round_keeps. Qed.
Lemma up_iter_step f seen n m : In n seen -> In m (succs n) -> In m (up_iter (S f) seen).
Proof. intros Hn Hm. cbn. apply up_iter_keeps. now apply (round_adds seen seen n m). Qed.

Lemma reach_refl a : reach a a = true.
Proof. unfold reach. apply node_mem_In. apply up_iter_keeps. cbn. auto. Qed.
Lemma reach_step a b : In (b, false) (succs (a, false)) -> reach a b = true.
Proof. intros H. unfold reach. apply node_mem_In. apply (up_iter_step 11 [(a, false)] (a, false)); cbn; auto. Qed.

Lemma incl_reach (C : list node) b c : closed C = true -> In (b, false) C -> reach b c = true -> In (c, false) C.
Proof.
  intros HC Hb H. unfold reach in H. apply node_mem_In in H. apply (up_iter_incl 12 [(b, false)] C HC); [|exact H].
  intros x [<-|[]]. exact Hb.
Qed.

Lemma reach_trans a b c : registered_mono a = true -> reach a b = true -> reach b c = true -> reach a c = true.
Proof.
  intros Ha Hab Hbc. destruct (registered_in a Ha) as [ra [Hra Hid]].
  pose proof ups_all_closed as C. rewrite forallb_forall in C. specialize (C ra Hra). cbv beta in C. rewrite Hid in C.
  unfold reach in Hab |- *. apply node_mem_In. apply node_mem_In in Hab. exact (incl_reach _ b c C Hab Hbc).
Qed.

(* cheap_supertype_of on two nominal types answers true only along an edge of the graph *)
Definition cheap_edges : list (Z * Z) :=
  [(id_Bool, id_Complex); (id_Bool, id_Float); (id_Bool, id_Ratio); (id_Bool, id_Int); (id_Bool, id_Nat);
   (id_Nat, id_Complex); (id_Nat, id_Float); (id_Nat, id_Ratio); (id_Nat, id_Int);
   (id_Int, id_Complex); (id_Int, id_Float); (id_Int, id_Ratio);
   (id_Ratio, id_Complex); (id_Ratio, id_Float); (id_Float, id_Complex);
   (id_ClassType, id_Type); (id_TraitType, id_Type)].

Lemma cheap_edges_reach : forallb (fun e => reach (fst e) (snd e)) cheap_edges = true.
Proof. vm_compute. reflexivity. Qed.

Ltac in_list H :=
  cbn [existsb] in H;
  repeat (apply orb_prop in H; destruct H as [H|H]); try discriminate; apply Z.eqb_eq in H; subst.

Lemma cheap_mono_edge x y :
  cheap (TMono x) (TMono y) = Some true -> x = y \/ In (y, x) cheap_edges.
Proof.
  unfold cheap. cbn [ty_eqb]. destruct (x =? y) eqn:E; [apply Z.eqb_eq in E; auto|].
  cbn [is_mvc in_cs is_c andb orb]. rewrite ?andb_false_r. cbn [andb orb].
  destruct (existsb (Z.eqb x) [id_Complex; id_Float; id_Ratio; id_Int; id_Nat; id_Bool] && (y =? id_Bool)
            || existsb (Z.eqb x) [id_Complex; id_Float; id_Ratio; id_Int; id_Nat] && (y =? id_Nat)
            || existsb (Z.eqb x) [id_Complex; id_Float; id_Ratio; id_Int] && (y =? id_Int)
            || existsb (Z.eqb x) [id_Complex; id_Float; id_Ratio] && (y =? id_Ratio)
            || existsb (Z.eqb x) [id_Complex; id_Float] && (y =? id_Float)) eqn:Et.
  { intros _. right.
    repeat (apply orb_prop in Et; destruct Et as [Et|Et]);
      apply andb_prop in Et; destruct Et as [Hx Hy]; apply Z.eqb_eq in Hy; subst y; in_list Hx;
        try (rewrite Z.eqb_refl in E; discriminate); unfold cheap_edges; cbn [In]; auto 30. }
  destruct ((x =? id_Type) && existsb (Z.eqb y) [id_ClassType; id_TraitType]) eqn:Ety.
  { intros _. right. apply andb_prop in Ety. destruct Ety as [H1 H2]. apply Z.eqb_eq in H1. subst x.
    in_list H2; unfold cheap_edges; cbn [In]; auto 30. }
  destruct (existsb (Z.eqb x) mono_value_classes && existsb (Z.eqb y) mono_value_classes); discriminate.
Qed.

Lemma cheap_edge_reach lo hi : In (lo, hi) cheap_edges -> reach lo hi = true.
Proof.
  intros Hin. pose proof cheap_edges_reach as H. rewrite forallb_forall in H. exact (H (lo, hi) Hin).
Qed.

Lemma structural_mono_false b t :
  match t with TObj | TNever | TMono _ | TPoly _ => True | _ => False end -> structural recb (TMono b) t = Some false.
Proof. destruct t; try contradiction; reflexivity. Qed.

Lemma cheap_mono_poly b h : cheap (TMono b) (TPoly h) <> Some true.
Proof.
  unfold cheap. cbn [ty_eqb is_mvc in_cs is_c andb orb]. rewrite ?andb_false_r. cbn [andb orb]. discriminate.
Qed.
Lemma cheap_mono_obj b : cheap (TMono b) TObj <> Some true.
Proof.
  unfold cheap. cbn [ty_eqb is_mvc in_cs is_c andb orb]. rewrite ?andb_false_r. cbn [andb orb].
  destruct (existsb (Z.eqb b) mono_value_classes); discriminate.
Qed.

Lemma sub_reach a b : registered_mono a = true -> registered_mono b = true ->
  sub (TMono a) (TMono b) = true -> reach a b = true.
Proof.
  intros Ha Hb H. change (supb (TMono b) (TMono a) = true) in H.
  pose proof (supb_unfold (TMono b) (TMono a)) as Hu. rewrite H in Hu.
  destruct (cheap (TMono b) (TMono a)) as [c|] eqn:Hc.
  - injection Hu as <-. destruct (cheap_mono_edge b a Hc) as [->|He]; [apply reach_refl|now apply cheap_edge_reach].
  - rewrite structural_mono_false in Hu by exact I. cbn [orM] in Hu. symmetry in Hu.
    unfold nominal in Hu. cbn [ctx_of] in Hu. destruct (lookup a) as [row|] eqn:El; [|discriminate].
    destruct (lookup_in a row El) as [Hrow _].
    assert (Hscan : forall l, (forall s, In s l -> In s (sups_of row)) -> scan recb (TMono b) l = Some true -> reach a b = true).
    { intros l Hl Hs. unfold scan in Hs. apply anyM_true_inv in Hs. destruct Hs as [s [Hs Hcs]].
      pose proof (sup_not_never row s Hrow (Hl s Hs)) as Hnn.
      assert (Hsucc : In s (succs (a, false))).
      { unfold succs. cbn [fst]. rewrite El. apply in_or_app. left. now apply Hl. }
      unfold ty_of_sup, ty_of_id in Hcs. destruct s as [i p]. cbn [fst snd] in *. destruct p.
      - (* a super type with arguments: never above a nominal type *)
        exfalso. destruct (cheap (TMono b) (TPoly i)) as [c|] eqn:Hci.
        + apply (cheap_mono_poly b i). now rewrite Hci, Hcs.
        + rewrite structural_mono_false in Hcs by exact I. discriminate.
      - rewrite andb_true_r in Hnn. rewrite Hnn in Hcs. destruct (i =? id_Obj) eqn:Eo.
        + exfalso. destruct (cheap (TMono b) TObj) as [c|] eqn:Hci.
          * apply (cheap_mono_obj b). now rewrite Hci, Hcs.
          * rewrite structural_mono_false in Hcs by exact I. discriminate.
        + destruct (cheap (TMono b) (TMono i)) as [c|] eqn:Hci; [|rewrite structural_mono_false in Hcs by exact I; discriminate].
          injection Hcs as ->. apply (reach_trans a i b Ha); [now apply reach_step|].
          destruct (cheap_mono_edge b i Hci) as [->|He]; [apply reach_refl|now apply cheap_edge_reach]. }
    apply orM_true_inv in Hu. destruct Hu as [Hu|[_ Hu]].
    + destruct (is_class (TMono b) && is_class (TMono a)); [|discriminate].
      apply (Hscan (row_sc row)); auto. intros s Hs. unfold sups_of. apply in_or_app. auto.
    + destruct (is_trait (TMono b)); [|discriminate]. apply orM_true_inv in Hu. destruct Hu as [Hu|[_ Hu]].
      * apply (Hscan (row_st row)); auto. intros s Hs. unfold sups_of. apply in_or_app. auto.
      * apply (Hscan (row_sc row)); auto. intros s Hs. unfold sups_of. apply in_or_app. auto.
Qed.

Lemma registered_ty_of_id c : registered_mono c = true -> ty_of_id c = TMono c.
Proof.
  unfold registered_mono, ty_of_id. destruct (lookup c) as [[[[[i nm] [[p cl] tr]] sc] st]|]; [|discriminate].
  intros H. apply andb_prop in H. destruct H as [H H2]. apply andb_prop in H. destruct H as [_ H1].
  apply negb_true_iff in H1. apply negb_true_iff in H2. now rewrite H1, H2.
Qed.

(* transitivity on the builtin classes and traits, outside the gap class *)
Lemma sub_trans_nominal_l a b c :
  registered_mono a = true -> registered_mono b = true -> registered_mono c = true -> mono_gap a c = false ->
  sub (TMono a) (TMono b) = true -> sub (TMono b) (TMono c) = true -> sub (TMono a) (TMono c) = true.
Proof.
  intros Ha Hb Hc Hg Hab Hbc. pose proof (reach_trans a b c Ha (sub_reach a b Ha Hb Hab) (sub_reach b c Hb Hc Hbc)) as Hr.
  unfold mono_gap in Hg. rewrite Hr, (registered_ty_of_id c Hc) in Hg. cbn [andb] in Hg.
  now apply negb_false_iff in Hg.
Qed.

