(** C06 — soundness of the subtype judgement for the set-theoretic reading, on the fragment [frag] *)
From Coq Require Import ZArith List Bool Arith Lia.
From ErgV Require Import gen.Classes Types.Model Types.Spec Types.ProofsBasic Types.ProofsLaws Types.ProofsPred Types.ProofsDen Types.ProofsInv.
Import ListNotations.
Open Scope Z_scope.

(* ------------------------------------------------------------------ den on lists *)
Lemma den_or l v : den (TOr l) v = existsb (fun x => den x v) l.
Proof. cbn [den]. induction l as [|x r IH]; [reflexivity|]. cbn [existsb]. now rewrite <- IH. Qed.
Lemma den_and l v : den (TAnd l) v = forallb (fun x => den x v) l.
Proof. cbn [den]. induction l as [|x r IH]; [reflexivity|]. cbn [forallb]. now rewrite <- IH. Qed.
Lemma frag_or l : frag (TOr l) = forallb frag l.
Proof. cbn [frag]. induction l as [|x r IH]; [reflexivity|]. cbn [forallb]. now rewrite <- IH. Qed.
Lemma frag_and l : frag (TAnd l) = forallb frag l.
Proof. cbn [frag]. induction l as [|x r IH]; [reflexivity|]. cbn [forallb]. now rewrite <- IH. Qed.

Lemma frag_in_or l x : frag (TOr l) = true -> In x l -> frag x = true.
Proof. rewrite frag_or, forallb_forall. auto. Qed.
Lemma frag_in_and l x : frag (TAnd l) = true -> In x l -> frag x = true.
Proof. rewrite frag_and, forallb_forall. auto. Qed.

Definition fragR (t : ty) : Prop := frag t = true \/ exists h, t = TPoly h.

Lemma frag_ref_inv b p : frag (TRef b p) = true ->
  exists c, b = TMono c /\ In c value_classes /\ c <> id_GenericList /\ wf_ref c p = true.
Proof.
  destruct b; try discriminate. cbn [frag]. intros H. apply andb_prop in H. destruct H as [H Hw].
  apply andb_prop in H. destruct H as [Hc Hg]. exists c. split; [reflexivity|]. split; [|split; [|exact Hw]].
  - apply existsb_exists in Hc. destruct Hc as [k [Hk He]]. apply Z.eqb_eq in He. now subst.
  - apply negb_true_iff in Hg. now apply Z.eqb_neq in Hg.
Qed.

Lemma vc_registered c : In c value_classes -> registered_mono c = true.
Proof.
  assert (H : forallb registered_mono value_classes = true) by (vm_compute; reflexivity).
  rewrite forallb_forall in H. exact (H c).
Qed.
Lemma frag_vc c : In c value_classes -> frag (TMono c) = true.
Proof. exact (vc_registered c). Qed.

(* ------------------------------------------------------------------ the table: supers are above (Lemma A) *)

Lemma den_sup_node n s t v :
  node_of t = Some n -> In s (succs n) -> (fst s =? id_Never) && negb (snd s) = false ->
  den t v = true -> den (ty_of_sup s) v = true.
Proof.
  intros Hn Hs Hnv Hd. unfold ty_of_sup, ty_of_id. destruct s as [i p]. cbn [fst snd] in *. destruct p.
  - cbn [den]. apply (den_nom_step t (TPoly i) n (i, true) v Hn eq_refl Hs).
    destruct t; try discriminate; exact Hd.
  - destruct (i =? id_Obj); [reflexivity|]. rewrite andb_true_r in Hnv. rewrite Hnv. cbn [den].
    apply (den_nom_step t (TMono i) n (i, false) v Hn eq_refl Hs). destruct t; try discriminate; exact Hd.
Qed.

Lemma sups_in_succs n r : lookup (fst n) = Some r -> forall s, In s (sups_of r) -> In s (succs n).
Proof. intros H s Hs. unfold succs. rewrite H. apply in_or_app. left. exact Hs. Qed.

Lemma or_row_obj : forall r, lookup id_Or = Some r -> forall s, In s (sups_of r) -> ty_of_sup s = TObj.
Proof.
  intros r Hr. assert (H : forallb (fun s => match ty_of_sup s with TObj => true | _ => false end)
                             (match lookup id_Or with Some r => sups_of r | None => [] end) = true) by (vm_compute; reflexivity).
  rewrite Hr in H. rewrite forallb_forall in H. intros s Hs. specialize (H s Hs). now destruct (ty_of_sup s).
Qed.
Lemma obj_row_empty : forall r, lookup id_Obj = Some r -> sups_of r = [].
Proof.
  intros r Hr. assert (H : match lookup id_Obj with Some r => sups_of r | None => [] end = []) by (vm_compute; reflexivity).
  now rewrite Hr in H.
Qed.


Lemma lemma_A S r s v :
  fragR S -> ctx_of S = Some r -> In s (sups_of r) -> den S v = true -> den (ty_of_sup s) v = true.
Proof.
  intros HS Hctx Hs Hd. destruct HS as [HS|[h ->]].
  - destruct S; try discriminate.
    + cbn in Hctx. rewrite (obj_row_empty r Hctx) in Hs. contradiction.
    + cbn in Hctx. destruct (lookup_in _ _ Hctx) as [Hin _].
      apply (den_sup_node (c, false) s (TMono c) v eq_refl);
        [now apply (sups_in_succs (c, false) r)|now apply (sup_not_never r)|exact Hd].
    + destruct (frag_ref_inv _ _ HS) as [c [-> [Hc [_ _]]]]. cbn in Hctx. destruct (lookup_in _ _ Hctx) as [Hin _].
      cbn [den] in Hd. apply andb_prop in Hd. destruct Hd as [Hd _].
      apply (den_sup_node (c, false) s (TMono c) v eq_refl);
        [now apply (sups_in_succs (c, false) r)|now apply (sup_not_never r)|exact Hd].
    + cbn in Hctx. now rewrite (or_row_obj r Hctx s Hs).
  - cbn in Hctx. destruct (lookup_in _ _ Hctx) as [Hin _].
    apply (den_sup_node (h, true) s (TPoly h) v eq_refl);
      [now apply (sups_in_succs (h, true) r)|now apply (sup_not_never r)|exact Hd].
Qed.

(* ------------------------------------------------------------------ equal types have equal denotations *)
Lemma bound_eqb_eq a b : bound_eqb a b = true -> a = b.
Proof. destruct a, b; cbn; try discriminate; intros H; f_equal; auto using lit_eqb_eq; now apply Z.eqb_eq. Qed.

Lemma existsb_incl_eq {A} (f g : A -> bool) l1 l2 :
  (forall x, In x l1 -> f x = true -> exists y, In y l2 /\ g y = true) ->
  (forall y, In y l2 -> g y = true -> exists x, In x l1 /\ f x = true) ->
  existsb f l1 = existsb g l2.
Proof.
  intros H1 H2. destruct (existsb f l1) eqn:E1, (existsb g l2) eqn:E2; auto.
  - apply existsb_exists in E1. destruct E1 as [x [Hx Hf]]. destruct (H1 x Hx Hf) as [y [Hy Hg]].
    assert (existsb g l2 = true) by (apply existsb_exists; eauto). congruence.
  - apply existsb_exists in E2. destruct E2 as [y [Hy Hg]]. destruct (H2 y Hy Hg) as [x [Hx Hf]].
    assert (existsb f l1 = true) by (apply existsb_exists; eauto). congruence.
Qed.
Lemma forallb_incl_eq {A} (f g : A -> bool) l1 l2 :
  (forall y, In y l2 -> exists x, In x l1 /\ (f x = true -> g y = true)) ->
  (forall x, In x l1 -> exists y, In y l2 /\ (g y = true -> f x = true)) ->
  forallb f l1 = forallb g l2.
Proof.
  intros H1 H2. destruct (forallb f l1) eqn:E1, (forallb g l2) eqn:E2; auto.
  - exfalso. assert (forallb g l2 = true); [|congruence]. apply forallb_forall. intros y Hy.
    destruct (H1 y Hy) as [x [Hx Hi]]. apply Hi. rewrite forallb_forall in E1. auto.
  - exfalso. assert (forallb f l1 = true); [|congruence]. apply forallb_forall. intros x Hx.
    destruct (H2 x Hx) as [y [Hy Hi]]. apply Hi. rewrite forallb_forall in E2. auto.
Qed.

Lemma rpred_eqb_den p q v : rpred_eqb p q = true -> den_pred p v = den_pred q v.
Proof.
  destruct p, q; cbn [rpred_eqb]; try discriminate; auto.
  - intros H. apply bound_eqb_eq in H. now subst.
  - intros H. apply andb_prop in H. destruct H as [H H2]. apply andb_prop in H. destruct H as [_ H1].
    rewrite forallb_forall in H1, H2. cbn [den_pred]. apply existsb_incl_eq.
    + intros x Hx Hm. specialize (H1 x Hx). apply existsb_exists in H1. destruct H1 as [y [Hy He]].
      apply lit_eqb_eq in He. subst. eauto.
    + intros y Hy Hm. specialize (H2 y Hy). apply existsb_exists in H2. destruct H2 as [x [Hx He]].
      apply lit_eqb_eq in He. subst. eauto.
  - intros H. apply andb_prop in H. destruct H as [H1 H2]. apply bound_eqb_eq in H1. apply bound_eqb_eq in H2. now subst.
Qed.

Lemma none_ref_den b p v : frag (TRef b p) = true -> is_none_enum p = true -> den (TRef b p) v = den (TMono id_NoneType) v.
Proof.
  intros Hf Hn. destruct (frag_ref_inv _ _ Hf) as [c [-> [Hc [_ Hw]]]].
  unfold is_none_enum in Hn. destruct p as [| |ls|]; try discriminate. destruct ls as [|l0 tl]; [discriminate|].
  destruct l0; try discriminate. destruct tl; [|discriminate]. unfold wf_ref in Hw. apply andb_prop in Hw. destruct Hw as [Hw _].
  apply andb_prop in Hw. destruct Hw as [_ Hw]. cbn [forallb] in Hw. apply andb_prop in Hw. destruct Hw as [Hw _].
  apply andb_prop in Hw. destruct Hw as [Hw _]. change (lit_class LNone) with id_NoneType in Hw.
  apply Z.eqb_eq in Hw. subst c.
  cbn [den den_pred existsb]. change (den_nom (TMono id_NoneType) v) with (den (TMono id_NoneType) v).
  rewrite (den_vc _ v in_vc_None). destruct v; reflexivity.
Qed.

Lemma ty_eqb_den : forall a b, frag a = true -> fragR b -> ty_eqb a b = true -> forall v, den a v = den b v.
Proof.
  induction a using ty_ind'; intros b Ha Hb He v; destruct Hb as [Hb|[h ->]]; try discriminate;
    destruct b; try discriminate; try reflexivity.
  - cbn in He. apply Z.eqb_eq in He. now subst.
  - cbn [ty_eqb] in He. apply andb_prop in He. destruct He as [He1 He2]. apply Z.eqb_eq in He1. subst c.
    symmetry. now apply none_ref_den.
  - cbn [ty_eqb] in He. apply andb_prop in He. destruct He as [He1 He2]. apply Z.eqb_eq in He1. subst c.
    now apply none_ref_den.
  - cbn [ty_eqb] in He. apply andb_prop in He. destruct He as [He1 He2].
    destruct (frag_ref_inv _ _ Ha) as [c [-> [Hc _]]]. destruct (frag_ref_inv _ _ Hb) as [c' [-> [Hc' _]]].
    cbn [den]. f_equal.
    + apply (IHa (TMono c')); auto. apply frag_vc; auto. left. now apply frag_vc.
    + now apply rpred_eqb_den.
  - rewrite ty_eqb_or in He. apply andb_prop in He. destruct He as [H1 H2]. rewrite forallb_forall in H1, H2.
    rewrite Forall_forall in H. rewrite !den_or. apply existsb_incl_eq.
    + intros x Hx Hd. specialize (H1 x Hx). apply existsb_exists in H1. destruct H1 as [y [Hy Hxy]].
      exists y. split; [exact Hy|]. rewrite <- (H x Hx y); auto. now apply (frag_in_or l). left. now apply (frag_in_or l0).
    + intros y Hy Hd. specialize (H2 y Hy). apply existsb_exists in H2. destruct H2 as [x [Hx Hxy]].
      exists x. split; [exact Hx|]. rewrite (H x Hx y); auto. now apply (frag_in_or l). left. now apply (frag_in_or l0).
  - rewrite ty_eqb_and in He. apply andb_prop in He. destruct He as [H1 H2]. rewrite forallb_forall in H1, H2.
    rewrite Forall_forall in H. rewrite !den_and. apply forallb_incl_eq.
    + intros y Hy. specialize (H2 y Hy). apply existsb_exists in H2. destruct H2 as [x [Hx Hxy]].
      exists x. split; [exact Hx|]. rewrite (H x Hx y); auto. now apply (frag_in_and l). left. now apply (frag_in_and l0).
    + intros x Hx. specialize (H1 x Hx). apply existsb_exists in H1. destruct H1 as [y [Hy Hxy]].
      exists y. split; [exact Hy|]. rewrite (H x Hx y); auto. now apply (frag_in_and l). left. now apply (frag_in_and l0).
Qed.


(* ------------------------------------------------------------------ cheap_supertype_of is sound *)
Definition cheap_edges : list (Z * Z) :=
  [(id_Bool, id_Complex); (id_Bool, id_Float); (id_Bool, id_Ratio); (id_Bool, id_Int); (id_Bool, id_Nat);
   (id_Nat, id_Complex); (id_Nat, id_Float); (id_Nat, id_Ratio); (id_Nat, id_Int);
   (id_Int, id_Complex); (id_Int, id_Float); (id_Int, id_Ratio);
   (id_Ratio, id_Complex); (id_Ratio, id_Float); (id_Float, id_Complex);
   (id_ClassType, id_Type); (id_TraitType, id_Type)].

Lemma cheap_edges_reach : forallb (fun e => reach (fst e) (snd e)) cheap_edges = true.
Proof. vm_compute. reflexivity. Qed.

Lemma cheap_edge_den lo hi v : In (lo, hi) cheap_edges -> den (TMono lo) v = true -> den (TMono hi) v = true.
Proof.
  intros Hin. pose proof cheap_edges_reach as H. rewrite forallb_forall in H. specialize (H (lo, hi) Hin).
  exact (reach_den lo hi v H).
Qed.

Ltac in_list H :=
  cbn [existsb] in H;
  repeat (apply orb_prop in H; destruct H as [H|H]); try discriminate; apply Z.eqb_eq in H; subst.

Lemma tower_den x y v :
  (in_cs [id_Complex; id_Float; id_Ratio; id_Int; id_Nat; id_Bool] (TMono x) && is_c id_Bool (TMono y))
  || (in_cs [id_Complex; id_Float; id_Ratio; id_Int; id_Nat] (TMono x) && is_c id_Nat (TMono y))
  || (in_cs [id_Complex; id_Float; id_Ratio; id_Int] (TMono x) && is_c id_Int (TMono y))
  || (in_cs [id_Complex; id_Float; id_Ratio] (TMono x) && is_c id_Ratio (TMono y))
  || (in_cs [id_Complex; id_Float] (TMono x) && is_c id_Float (TMono y)) = true ->
  den (TMono y) v = true -> den (TMono x) v = true.
Proof.
  intros H Hd. unfold in_cs, is_c in H.
  repeat (apply orb_prop in H; destruct H as [H|H]);
    apply andb_prop in H; destruct H as [Hx Hy]; apply Z.eqb_eq in Hy; subst y; in_list Hx;
      try exact Hd;
      (eapply cheap_edge_den; [|exact Hd]); unfold cheap_edges; cbn [In]; auto 30.
Qed.

Local Opaque ups.

Lemma cheap_sound T S v :
  frag T = true -> fragR S -> cheap T S = Some true -> den S v = true -> den T v = true.
Proof.
  intros HT HS Hc Hd. unfold cheap in Hc. destruct (ty_eqb T S) eqn:E.
  { now rewrite (ty_eqb_den T S HT HS E v). }
  destruct T; try discriminate; try reflexivity;
    destruct S; try discriminate; try reflexivity;
      try (destruct HS as [HS|[h HS]]; discriminate);
      cbn [is_mvc in_cs is_c andb orb] in Hc; rewrite ?andb_false_r in Hc; cbn [andb orb] in Hc; try discriminate.
  all: try (destruct (existsb (Z.eqb c) mono_value_classes); discriminate).
  (* Mono / Mono *)
  destruct (existsb (Z.eqb c) [id_Complex; id_Float; id_Ratio; id_Int; id_Nat; id_Bool] && (c0 =? id_Bool)
            || existsb (Z.eqb c) [id_Complex; id_Float; id_Ratio; id_Int; id_Nat] && (c0 =? id_Nat)
            || existsb (Z.eqb c) [id_Complex; id_Float; id_Ratio; id_Int] && (c0 =? id_Int)
            || existsb (Z.eqb c) [id_Complex; id_Float; id_Ratio] && (c0 =? id_Ratio)
            || existsb (Z.eqb c) [id_Complex; id_Float] && (c0 =? id_Float)) eqn:Et.
  { now apply (tower_den c c0 v). }
  destruct ((c =? id_Type) && existsb (Z.eqb c0) [id_ClassType; id_TraitType]) eqn:Ety.
  { apply andb_prop in Ety. destruct Ety as [H1 H2]. apply Z.eqb_eq in H1. subst c.
    in_list H2; (eapply cheap_edge_den; [|exact Hd]); unfold cheap_edges; cbn [In]; auto 30. }
  destruct (existsb (Z.eqb c) mono_value_classes && existsb (Z.eqb c0) mono_value_classes); discriminate.
Qed.

(* ------------------------------------------------------------------ structural_supertype_of is sound *)
Lemma den_into_ref c v :
  den (TRef (fst (into_refinement (TMono c))) (snd (into_refinement (TMono c)))) v = den (TMono c) v.
Proof.
  unfold into_refinement. destruct (c =? id_Nat) eqn:E1.
  { apply Z.eqb_eq in E1. subst. apply den_nat_ref. }
  destruct (c =? id_Bool) eqn:E2.
  { apply Z.eqb_eq in E2. subst. apply den_bool_ref. }
  cbn [fst snd den den_pred]. apply andb_true_r.
Qed.

Lemma into_ref_pred_ok c : pred_ok (snd (into_refinement (TMono c))).
Proof.
  unfold into_refinement. destruct (c =? id_Nat); [cbn; unfold bound_numeric; cbn; congruence|].
  destruct (c =? id_Bool); [cbn; unfold bound_numeric; cbn; split; congruence|]. exact I.
Qed.

Lemma into_ref_frag c : frag (TMono c) = true -> frag (fst (into_refinement (TMono c))) = true.
Proof.
  intros H. unfold into_refinement. destruct (c =? id_Nat); [apply frag_vc; cbn; auto|].
  destruct (c =? id_Bool); [apply frag_vc; cbn; auto|]. exact H.
Qed.

Lemma wf_ref_pred_ok c p : wf_ref c p = true -> pred_ok p.
Proof.
  intros H. pose proof (wf_ref_bounds c p H) as Hb. destruct p; cbn; auto. contradiction.
Qed.

Lemma frag_ref_can_be_false b p : frag (TRef b p) = true -> pred_can_be_false p = true.
Proof.
  intros H. destruct (frag_ref_inv _ _ H) as [c [_ [_ [_ Hw]]]]. destruct p; try reflexivity. discriminate.
Qed.

Lemma den_ref_intro b p v : den b v = true -> den_pred p v = true -> den (TRef b p) v = true.
Proof. intros H1 H2. cbn [den]. fold (den b v). now rewrite H1, H2. Qed.

Lemma den_ref_base b p v : den (TRef b p) v = true -> den b v = true.
Proof. cbn [den]. intros H. apply andb_prop in H. tauto. Qed.

Lemma den_none_enum b p v : is_none_enum p = true -> den (TRef b p) v = true -> den (TMono id_NoneType) v = true.
Proof.
  unfold is_none_enum. destruct p as [| |ls|]; try discriminate. destruct ls as [|l0 tl]; [discriminate|].
  destruct l0; try discriminate. destruct tl; [|discriminate]. intros _. cbn [den den_pred existsb]. intros H.
  apply andb_prop in H. destruct H as [_ H]. rewrite orb_false_r in H.
  change (den_nom (TMono id_NoneType) v) with (den (TMono id_NoneType) v). rewrite (den_vc _ v in_vc_None).
  destruct v; try discriminate. reflexivity.
Qed.

Section Main.
  Variable n : nat.
  Hypothesis IH : forall T S, (size T + size S < n)%nat -> frag T = true -> fragR S -> supb T S = true ->
                  forall v, den S v = true -> den T v = true.

  Lemma IHr T S v : (size T + size S < n)%nat -> frag T = true -> fragR S -> recb T S = Some true ->
    den S v = true -> den T v = true.
  Proof. intros Hs HT HS Hr. apply (IH T S Hs HT HS). now apply recb_true. Qed.

  Lemma ref_ref_sound c lp rb rp v :
    (1 + size rb < n)%nat -> frag (TMono c) = true -> fragR rb -> pred_ok lp ->
    ref_ref recb (TMono c) lp rb rp = Some true ->
    den (TRef rb rp) v = true -> den (TRef (TMono c) lp) v = true.
  Proof.
    intros Hs Hc Hrb Hok H Hd. unfold ref_ref in H. cbn [den] in Hd. apply andb_prop in Hd. destruct Hd as [Hdb Hdp].
    destruct (recb (TMono c) rb) as [[|]|] eqn:E; try discriminate.
    - injection H as Hp. apply den_ref_intro.
      + apply (IHr (TMono c) rb v); auto.
      + now apply (is_super_pred_sound lp rp v).
    - pose proof (den_into_ref c v) as Hir. pose proof (into_ref_pred_ok c) as Hq. pose proof (into_ref_frag c Hc) as Hf.
      pose proof (size_into_refinement (TMono c)) as Hsz.
      destruct (into_refinement (TMono c)) as [b q]. cbn [fst snd] in *. apply andM_true_inv in H. destruct H as [H1 H2].
      injection H2 as Hp. apply andb_prop in Hp. destruct Hp as [Hp1 Hp2].
      apply den_ref_intro.
      + rewrite <- Hir. apply den_ref_intro.
        * apply (IHr b rb v); auto. cbn [size] in Hsz. lia.
        * now apply (is_super_pred_sound q rp v).
      + now apply (is_super_pred_sound lp rp v).
  Qed.

  (* members of a union / intersection *)
  Lemma any_l_sound ls S v :
    (size (TOr ls) + size S <= n)%nat -> frag (TOr ls) = true -> fragR S ->
    anyM (fun o => recb o S) ls = Some true -> den S v = true -> den (TOr ls) v = true.
  Proof.
    intros Hs Hf HS H Hd. apply anyM_true_inv in H. destruct H as [o [Ho Hr]]. rewrite den_or. apply existsb_exists.
    exists o. split; [exact Ho|]. apply (IHr o S v); auto; [pose proof (size_in_or o ls Ho); lia|now apply (frag_in_or ls)].
  Qed.
  Lemma all_l_sound ls S v :
    (size (TAnd ls) + size S <= n)%nat -> frag (TAnd ls) = true -> fragR S ->
    allM (fun a => recb a S) ls = Some true -> den S v = true -> den (TAnd ls) v = true.
  Proof.
    intros Hs Hf HS H Hd. rewrite den_and. apply forallb_forall. intros a Ha.
    apply (IHr a S v); auto; [pose proof (size_in_and a ls Ha); lia|now apply (frag_in_and ls)|].
    exact (allM_true_inv _ _ H a Ha).
  Qed.
  Lemma any_r_sound T rs v :
    (size T + size (TAnd rs) <= n)%nat -> frag T = true -> frag (TAnd rs) = true ->
    anyM (fun a => recb T a) rs = Some true -> den (TAnd rs) v = true -> den T v = true.
  Proof.
    intros Hs HT Hf H Hd. apply anyM_true_inv in H. destruct H as [a [Ha Hr]]. rewrite den_and, forallb_forall in Hd.
    apply (IHr T a v); auto; [pose proof (size_in_and a rs Ha); lia|left; now apply (frag_in_and rs)].
  Qed.
  Lemma all_r_sound T rs v :
    (size T + size (TOr rs) <= n)%nat -> frag T = true -> frag (TOr rs) = true ->
    allM (fun o => recb T o) rs = Some true -> den (TOr rs) v = true -> den T v = true.
  Proof.
    intros Hs HT Hf H Hd. rewrite den_or in Hd. apply existsb_exists in Hd. destruct Hd as [o [Ho Hd]].
    apply (IHr T o v); auto; [pose proof (size_in_or o rs Ho); lia|left; now apply (frag_in_or rs)|].
    exact (allM_true_inv _ _ H o Ho).
  Qed.

  (* the (l, Refinement(r)) arm for l that is not Nat / Bool / a refinement *)
  Lemma l_ref_sound T rb rp v :
    (size T + size (TRef rb rp) <= n)%nat -> frag T = true -> frag (TRef rb rp) = true ->
    (if is_none_enum rp then recb T (TMono id_NoneType)
     else orM (recb T rb) (fun _ => andM (negM (recb rb T)) (fun _ => recb (derefine T) rb))) = Some true ->
    derefine T = T -> den (TRef rb rp) v = true -> den T v = true.
  Proof.
    intros Hs HT Hf H Hder Hd. cbn [size] in Hs. pose proof (size_pos rb).
    destruct (frag_ref_inv _ _ Hf) as [c [-> [Hc _]]].
    destruct (is_none_enum rp) eqn:Hn.
    - apply (IHr T (TMono id_NoneType) v); auto; [cbn [size]; lia|left; apply frag_vc; cbn; auto 10|].
      now apply (den_none_enum (TMono c) rp v).
    - rewrite Hder in H. assert (Hr : recb T (TMono c) = Some true).
      { apply orM_true_inv in H. destruct H as [H|[_ H]]; [exact H|]. apply andM_true_inv in H. tauto. }
      apply (IHr T (TMono c) v); auto; [cbn [size]; lia|left; now apply frag_vc|]. now apply (den_ref_base _ rp).
  Qed.

  Lemma structural_sound T S v :
    (size T + size S <= n)%nat -> frag T = true -> fragR S ->
    structural recb T S = Some true -> den S v = true -> den T v = true.
  Proof.
    intros Hs HT HS H Hd. unfold structural in H.
    apply orM_true_inv in H. destruct H as [H|[_ H]].
    { destruct S as [| |c0|h0|rb rp|rs|rs|x|e len]; try discriminate. destruct HS as [HS|[h HS]]; [|discriminate].
      now apply (any_r_sound T rs v). }
    apply orM_true_inv in H. destruct H as [H|[_ H]].
    { destruct T as [| |c|h|lb lp|ls|ls|x|e len]; try discriminate. now apply (any_l_sound ls S v). }
    destruct T as [| |c|h|lb lp|ls|ls|x|e len]; try discriminate; try reflexivity.
    - (* TNever *)
      destruct S as [| |c0|h0|rb rp|rs|rs|x|e len]; try discriminate; destruct HS as [HS|[h HS]]; try discriminate.
      + apply (l_ref_sound TNever rb rp v); auto.
      + now apply (all_r_sound TNever rs v).
      + now apply (any_r_sound TNever rs v).
    - (* TMono c *)
      destruct S as [| |c0|h0|rb rp|rs|rs|x|e len]; try discriminate; destruct HS as [HS|[h HS]]; try discriminate.
      + (* refinement on the right *)
        destruct (is_natbool (TMono c)) eqn:Hnb.
        * pose proof (den_into_ref c v) as Hir. pose proof (into_ref_pred_ok c) as Hq. pose proof (into_ref_frag c HT) as Hf.
          pose proof (size_into_refinement (TMono c)) as Hsz.
          destruct (into_refinement (TMono c)) as [b q] eqn:Eir. cbn [fst snd] in *.
          assert (Hb : exists c', b = TMono c').
          { unfold into_refinement in Eir. destruct (c =? id_Nat); [inversion Eir; eauto|].
            destruct (c =? id_Bool); inversion Eir; eauto. }
          destruct Hb as [c' ->]. rewrite <- Hir.
          destruct (frag_ref_inv _ _ HS) as [cr [-> [Hcr _]]].
          apply (ref_ref_sound c' q (TMono cr) rp v); auto; try (cbn [size] in *; lia); try (left; now apply (frag_vc cr)).
        * apply (l_ref_sound (TMono c) rb rp v); auto.
      + now apply (all_r_sound (TMono c) rs v).
      + now apply (any_r_sound (TMono c) rs v).
    - (* TRef *)
      destruct (frag_ref_inv _ _ HT) as [c [-> [Hc [_ Hw]]]]. pose proof (frag_ref_can_be_false _ _ HT) as Hcf.
      pose proof (wf_ref_pred_ok c lp Hw) as Hok.
      destruct S as [| |c0|h0|rb rp|rs|rs|x|e len]; try discriminate; destruct HS as [HS|[h HS]]; try discriminate;
        try (rewrite Hcf in H; discriminate).
      + (* Refinement / Nat | Bool *)
        destruct (is_natbool (TMono c0)) eqn:Hnb; [|rewrite Hcf in H; discriminate].
        rewrite <- (den_into_ref c0 v) in Hd. pose proof (size_into_refinement (TMono c0)) as Hsz.
        pose proof (into_ref_frag c0 HS) as Hf.
        destruct (into_refinement (TMono c0)) as [b q]. cbn [fst snd] in *.
        apply (ref_ref_sound c lp b q v); auto; try (cbn [size] in *; lia); try (now apply frag_vc); try (left; exact Hf).
      + (* Refinement / Refinement *)
        destruct (frag_ref_inv _ _ HS) as [cr [-> [Hcr _]]].
        apply (ref_ref_sound c lp (TMono cr) rp v); auto; try (cbn [size] in *; lia); try (now apply frag_vc); try (left; now apply frag_vc).
      + now apply (all_r_sound (TRef (TMono c) lp) rs v).
    - (* TOr *)
      destruct S as [| |c0|h0|rb rp|rs|rs|x|e len]; try discriminate; destruct HS as [HS|[h HS]]; try discriminate.
      + apply (any_l_sound ls TObj v); auto. left. reflexivity.
      + apply (any_l_sound ls (TMono c0) v); auto. left. exact HS.
      + apply (any_l_sound ls (TPoly h0) v); auto. right. eauto.
      + (* (l, Refinement) for a union: the derefine step is skipped *)
        cbn [size] in Hs. pose proof (size_pos rb). destruct (frag_ref_inv _ _ HS) as [c [-> [Hc _]]].
        destruct (is_none_enum rp) eqn:Hn.
        * apply (IHr (TOr ls) (TMono id_NoneType) v); auto; [cbn [size]; lia|left; apply frag_vc; cbn; auto 10|].
          now apply (den_none_enum (TMono c) rp v).
        * assert (Hr : recb (TOr ls) (TMono c) = Some true).
          { apply orM_true_inv in H. destruct H as [H|[_ H]]; [exact H|]. apply andM_true_inv in H. destruct H; discriminate. }
          apply (IHr (TOr ls) (TMono c) v); auto; [cbn [size]; lia|left; now apply frag_vc|]. now apply (den_ref_base _ rp).
      + (* Or / Or *)
        rewrite den_or in Hd. apply existsb_exists in Hd. destruct Hd as [o [Ho Hd]].
        pose proof (allM_true_inv _ _ H o Ho) as Ho'. cbn beta in Ho'.
        apply (any_l_sound ls o v); auto; [pose proof (size_in_or o rs Ho); lia|left; now apply (frag_in_or rs)].
      + apply (any_l_sound ls (TAnd rs) v); auto. left. exact HS.
    - (* TAnd *)
      destruct S as [| |c0|h0|rb rp|rs|rs|x|e len]; try discriminate; destruct HS as [HS|[h HS]]; try discriminate.
      + apply (all_l_sound ls TObj v); auto. left. reflexivity.
      + apply (all_l_sound ls (TMono c0) v); auto. left. exact HS.
      + apply (all_l_sound ls (TPoly h0) v); auto. right. eauto.
      + apply (all_l_sound ls (TRef rb rp) v); auto. left. exact HS.
      + now apply (all_r_sound (TAnd ls) rs v).
      + (* And / And: three alternatives *)
        rewrite den_and. apply forallb_forall. intros k Hk. rewrite den_and, forallb_forall in Hd.
        apply orM_true_inv in H. destruct H as [H|[_ H]].
        { apply anyM_true_inv in H. destruct H as [a [Ha Hall]]. pose proof (allM_true_inv _ _ Hall k Hk) as Hka.
          apply (IHr k a v); auto; [pose proof (size_in_and k ls Hk); pose proof (size_in_and a rs Ha); lia
                                   |now apply (frag_in_and ls)|left; now apply (frag_in_and rs)]. }
        apply orM_true_inv in H. destruct H as [H|[_ H]].
        { destruct (Nat.eqb (length ls) (length rs)) eqn:El; [|discriminate]. apply Nat.eqb_eq in El.
          apply anyM_true_inv in H. destruct H as [r [_ Hz]].
          destruct (zipallM_true_inv recb ls (rotl r rs) Hz ltac:(rewrite length_rotl; lia) k Hk) as [y [Hy Hky]].
          apply In_rotl in Hy.
          apply (IHr k y v); auto; [pose proof (size_in_and k ls Hk); pose proof (size_in_and y rs Hy); lia
                                   |now apply (frag_in_and ls)|left; now apply (frag_in_and rs)]. }
        pose proof (allM_true_inv _ _ H k Hk) as Hk'. cbn beta in Hk'.
        apply (IHr k (TAnd rs) v); auto; [pose proof (size_in_and k ls Hk); lia|now apply (frag_in_and ls)|left; exact HS|].
        rewrite den_and. now apply forallb_forall.
  Qed.
End Main.

(* ------------------------------------------------------------------ the nominal scan, and the theorem *)
Lemma scan_inv rec l sups :
  scan rec l sups = Some true ->
  exists s, In s sups /\ (cheap l (ty_of_sup s) = Some true \/
                          (cheap l (ty_of_sup s) = None /\ structural rec l (ty_of_sup s) = Some true)).
Proof.
  unfold scan. intros H. apply anyM_true_inv in H. destruct H as [s [Hs H]]. exists s. split; [exact Hs|].
  destruct (cheap l (ty_of_sup s)) as [b|]; [left; exact H|right; auto].
Qed.

Lemma sups_fragR_tab :
  forallb (fun r => forallb (fun s => snd s || match ty_of_id (fst s) with
                                               | TMono c => registered_mono c
                                               | _ => true
                                               end) (sups_of r)) classes = true.
Proof. vm_compute. reflexivity. Qed.

Lemma sups_fragR r s : In r classes -> In s (sups_of r) -> fragR (ty_of_sup s).
Proof.
  intros Hr Hs. pose proof sups_fragR_tab as H. rewrite forallb_forall in H. specialize (H r Hr).
  rewrite forallb_forall in H. specialize (H s Hs). unfold ty_of_sup. destruct (snd s); [right; eauto|].
  cbn [orb] in H. left. unfold ty_of_id in *. destruct (fst s =? id_Obj); [reflexivity|].
  destruct (fst s =? id_Never); [reflexivity|]. exact H.
Qed.

Lemma nominal_inv rec l r :
  nominal rec l r = Some true ->
  exists row s, ctx_of r = Some row /\ In s (sups_of row) /\
    (cheap l (ty_of_sup s) = Some true \/ (cheap l (ty_of_sup s) = None /\ structural rec l (ty_of_sup s) = Some true)).
Proof.
  unfold nominal. destruct (ctx_of r) as [row|]; [|discriminate]. intros H. exists row.
  apply orM_true_inv in H. destruct H as [H|[_ H]].
  - destruct (is_class l && is_class r); [|discriminate]. destruct (scan_inv _ _ _ H) as [s [Hs Hc]].
    exists s. split; [reflexivity|]. split; [unfold sups_of; apply in_or_app; auto|exact Hc].
  - destruct (is_trait l); [|discriminate]. apply orM_true_inv in H. destruct H as [H|[_ H]];
      destruct (scan_inv _ _ _ H) as [s [Hs Hc]]; exists s; (split; [reflexivity|]);
        (split; [unfold sups_of; apply in_or_app; auto|exact Hc]).
Qed.

Lemma ctx_of_in r row : ctx_of r = Some row -> In row classes.
Proof.
  destruct r as [| |c|h|b p|l|l|x|e len]; cbn [ctx_of]; try discriminate; intros H;
    try (destruct b; try discriminate); apply lookup_in in H; tauto.
Qed.

Lemma sound_n : forall n T S, (size T + size S < n)%nat -> frag T = true -> fragR S -> supb T S = true ->
  forall v, den S v = true -> den T v = true.
Proof.
  induction n as [|n IHn]; intros T S Hs HT HS Hsup v Hd; [lia|].
  pose proof (supb_unfold T S) as Hu. rewrite Hsup in Hu.
  destruct (cheap T S) as [b|] eqn:Hc.
  - injection Hu as <-. now apply (cheap_sound T S v).
  - symmetry in Hu. apply orM_true_inv in Hu. destruct Hu as [Hst|[_ Hno]].
    + apply (structural_sound n IHn T S v); auto. lia.
    + destruct (nominal_inv _ _ _ Hno) as [row [s [Hctx [Hs' Hcs]]]].
      pose proof (ctx_of_in S row Hctx) as Hrow. pose proof (sups_fragR row s Hrow Hs') as HfR.
      pose proof (lemma_A S row s v HS Hctx Hs' Hd) as Hds.
      destruct Hcs as [Hcs|[_ Hcs]].
      * now apply (cheap_sound T (ty_of_sup s) v).
      * apply (structural_sound n IHn T (ty_of_sup s) v); auto. rewrite size_ty_of_sup. pose proof (size_pos S). lia.
Qed.

(* subtyping is sound for the set-theoretic reading, on the fragment *)
Lemma sub_sound_l S T : frag S = true -> frag T = true -> sub S T = true -> forall v, den S v = true -> den T v = true.
Proof.
  intros HS HT H v. apply (sound_n (Datatypes.S (size T + size S)) T S); auto. left. exact HS.
Qed.
