(** C06 — inversion lemmas for the option-bool combinators of the model *)
From Coq Require Import ZArith List Bool Arith Lia.
From ErgV Require Import gen.Classes Types.Model Types.ProofsBasic.
Import ListNotations.
Open Scope Z_scope.

(* ------------------------------------------------------------------ inversion of the combinators *)
Lemma orM_true_inv a b : orM a b = Some true -> a = Some true \/ (a = Some false /\ b tt = Some true).
Proof. destruct a as [[|]|]; cbn; auto; discriminate. Qed.
Lemma andM_true_inv a b : andM a b = Some true -> a = Some true /\ b tt = Some true.
Proof. destruct a as [[|]|]; cbn; auto; discriminate. Qed.
Lemma negM_true_inv a : negM a = Some true -> a = Some false.
Proof. destruct a as [[|]|]; cbn; auto; discriminate. Qed.
Lemma anyM_true_inv {A} (g : A -> option bool) l : anyM g l = Some true -> exists x, In x l /\ g x = Some true.
Proof.
  induction l as [|x t IH]; cbn; [discriminate|]. intros H. apply orM_true_inv in H. destruct H as [H|[_ H]].
  - exists x. auto.
  - destruct (IH H) as [y [Hy Hg]]. exists y. auto.
Qed.
Lemma allM_true_inv {A} (g : A -> option bool) l : allM g l = Some true -> forall x, In x l -> g x = Some true.
Proof.
  induction l as [|x t IH]; cbn; [tauto|]. intros H. apply andM_true_inv in H. destruct H as [H1 H2].
  intros y [<-|Hy]; auto.
Qed.
Lemma zipallM_true_inv {A} (g : A -> A -> option bool) l r :
  zipallM g l r = Some true -> (length l <= length r)%nat -> forall x, In x l -> exists y, In y r /\ g x y = Some true.
Proof.
  revert r. induction l as [|x t IH]; intros r H Hlen y Hy; [contradiction|].
  destruct r as [|z r]; [cbn in Hlen; lia|]. cbn in H. apply andM_true_inv in H. destruct H as [H1 H2].
  destruct Hy as [<-|Hy].
  - exists z. cbn. auto.
  - destruct (IH r H2 ltac:(cbn in Hlen; lia) y Hy) as [w [Hw Hg]]. exists w. cbn. auto.
Qed.
Lemma length_rotl {A} k (l : list A) : length (rotl k l) = length l.
Proof.
  revert l. induction k as [|k IH]; intros l; [destruct l; reflexivity|]. destruct l as [|x t]; [reflexivity|].
  cbn [rotl]. rewrite IH, app_length. cbn. lia.
Qed.

Lemma recb_true l r : recb l r = Some true -> supb l r = true.
Proof. unfold recb. now inversion 1. Qed.

