(** C06 — the refuting triples of the known classes of failing transitivity (known/C06.json) *)
From Coq Require Import ZArith List Bool Arith Lia.
From ErgV Require Import gen.Classes Types.Model Types.Spec.
Import ListNotations.
Open Scope Z_scope.

(* ------------------------------------------------------------------ the refuting triples *)
(* a triple through two super-type lists whose composition is missing from the first *)
Definition gap_witnesses : list (Z * Z * Z) :=
  flat_map (fun r : row =>
    let a := row_id r in
    if registered_mono a then
      flat_map (fun sb : Z * bool =>
        if snd sb then ([] : list (Z * Z * Z)) else
          match lookup (fst sb) with
          | Some rb =>
            flat_map (fun sc : Z * bool =>
              if snd sc then ([] : list (Z * Z * Z))
              else if registered_mono (fst sb) && registered_mono (fst sc)
                      && negb (sub (TMono a) (TMono (fst sc)))
                      && sub (TMono a) (TMono (fst sb)) && sub (TMono (fst sb)) (TMono (fst sc))
                   then [(a, fst sb, fst sc)] else []) (row_sc rb ++ row_st rb)
          | None => []
          end) (row_sc r ++ row_st r)
    else []) classes.

Definition refutes (s m t : ty) (k : Z) : Prop :=
  sub s m = true /\ sub m t = true /\ sub s t = false /\ known_trans s m t = k.

Lemma sub_trans_refuted_gap_l :
  match gap_witnesses with
  | (a, b, c) :: _ => refutes (TMono a) (TMono b) (TMono c) 4
  | [] => True
  end.
Proof. vm_compute. repeat split; reflexivity. Qed.

Lemma sub_trans_refuted_list_length_l :
  refutes (TList (TMono id_Nat) (Some 2)) (TList (TMono id_Nat) None) (TList (TMono id_Nat) (Some 3)) 2.
Proof. vm_compute. repeat split; reflexivity. Qed.

Lemma sub_trans_refuted_list_metatype_l :
  refutes (TList TNever None) (TMono id_ClassType) (TMono id_Named) 3.
Proof. vm_compute. repeat split; reflexivity. Qed.

Lemma sub_trans_refuted_negation_l :
  refutes (TMono id_Ratio) (TMono id_Complex) (TNot (TMono id_Float)) 1.
Proof. vm_compute. repeat split; reflexivity. Qed.
