(** C06 — refinement predicates: is_super_pred is sound for the set-theoretic reading *)
From Coq Require Import ZArith List Bool Arith Lia.
From ErgV Require Import gen.Classes Types.Model Types.Spec.
Import ListNotations.
Open Scope Z_scope.

Lemma zs_eqb_eq a b : zs_eqb a b = true -> a = b.
Proof.
  revert b. induction a as [|x a IH]; intros [|y b]; cbn; try discriminate; auto.
  intros H. apply andb_prop in H. destruct H as [H1 H2]. apply Z.eqb_eq in H1. f_equal; auto.
Qed.
Lemma zs_eqb_refl' a : zs_eqb a a = true.
Proof. induction a; cbn; auto. now rewrite Z.eqb_refl. Qed.
Lemma zs_cmp_eq a b : zs_cmp a b = Eq -> a = b.
Proof.
  revert b. induction a as [|x a IH]; intros [|y b]; cbn; try discriminate; auto.
  destruct (x ?= y) eqn:E; try discriminate. apply Z.compare_eq in E. intros H. f_equal; auto.
Qed.

Lemma lit_eqb_eq a b : lit_eqb a b = true -> a = b.
Proof.
  destruct a, b; cbn; try discriminate; intros H; try reflexivity; f_equal.
  - now apply Z.eqb_eq.
  - now apply zs_eqb_eq.
  - now apply eqb_prop.
  - now apply Z.eqb_eq.
Qed.

(* numeric literals are compared by value *)
Lemma lit_cmp_num a b x y :
  lit_num a = Some x -> lit_num b = Some y -> lit_cmp a b = Some (x ?= y).
Proof.
  intros Ha Hb. unfold lit_cmp. destruct (lit_eqb a b) eqn:E.
  - apply lit_eqb_eq in E. subst. rewrite Ha in Hb. inversion Hb. now rewrite Z.compare_refl.
  - now rewrite Ha, Hb.
Qed.

Lemma lit_cmp_nonnum a b : lit_num a <> None -> lit_num b = None -> lit_cmp a b = None.
Proof.
  intros Ha Hb. unfold lit_cmp. destruct (lit_eqb a b) eqn:E.
  - apply lit_eqb_eq in E. subst. contradiction.
  - rewrite Hb. destruct a; cbn in *; try congruence; reflexivity.
Qed.

(* literals that compare equal match the same values *)
Lemma lit_cmp_eq_matches k l v : lit_cmp k l = Some Eq -> lit_matches l v = lit_matches k v.
Proof.
  unfold lit_cmp. destruct (lit_eqb k l) eqn:E; [apply lit_eqb_eq in E; now subst|].
  unfold lit_matches.
  destruct (lit_num k) as [x|] eqn:Hk, (lit_num l) as [y|] eqn:Hl.
  - intros H. inversion H as [H1]. apply Z.compare_eq in H1. subst.
    destruct (val_num v); [reflexivity|]. destruct k, l; cbn in *; try congruence; destruct v; reflexivity.
  - destruct k; cbn in *; congruence.
  - destruct k, l; cbn in *; congruence.
  - destruct k, l; cbn in *; try congruence. intros H. inversion H as [H1]. apply zs_cmp_eq in H1. now subst.
Qed.

Lemma eq_eq_matches k l v : eq_eq k l = true -> lit_matches l v = true -> lit_matches k v = true.
Proof.
  unfold eq_eq. intros H Hm. apply orb_prop in H. destruct H as [H|H].
  - apply lit_eqb_eq in H. now subst.
  - destruct (lit_cmp k l) as [[| |]|] eqn:E; try discriminate. now rewrite <- (lit_cmp_eq_matches k l v E).
Qed.

Definition bound_numeric (b : bound) : Prop := bound_num b <> None.

Lemma bound_cmp_num a b x y :
  bound_num a = Some x -> bound_num b = Some y -> bound_cmp a b = Some (x ?= y).
Proof.
  intros Ha Hb. unfold bound_cmp. destruct (bound_eqb a b) eqn:E.
  - assert (a = b).
    { destruct a, b; cbn in E; try discriminate; f_equal; auto using lit_eqb_eq; now apply Z.eqb_eq. }
    subst. rewrite Ha in Hb. inversion Hb. now rewrite Z.compare_refl.
  - now apply lit_cmp_num.
Qed.

Lemma canbe_le_num a b x y :
  bound_num a = Some x -> bound_num b = Some y -> canbe_le (bound_cmp a b) = true -> x <= y.
Proof.
  intros Ha Hb. rewrite (bound_cmp_num a b x y Ha Hb). unfold canbe_le.
  destruct (x ?= y) eqn:E; try discriminate; intros _.
  - apply Z.compare_eq in E. rewrite E. apply Z.le_refl.
  - apply Z.compare_lt_iff in E. now apply Z.lt_le_incl.
Qed.
Lemma canbe_ge_num a b x y :
  bound_num a = Some x -> bound_num b = Some y -> canbe_ge (bound_cmp a b) = true -> y <= x.
Proof.
  intros Ha Hb. rewrite (bound_cmp_num a b x y Ha Hb). unfold canbe_ge.
  destruct (x ?= y) eqn:E; try discriminate; intros _.
  - apply Z.compare_eq in E. rewrite E. apply Z.le_refl.
  - apply Z.compare_gt_iff in E. now apply Z.lt_le_incl.
Qed.

(* a numeric bound compared with a literal that matches v *)
Lemma ge_eq_sound a l v x :
  bound_num a = Some x -> ge_eq a l = true -> lit_matches l v = true ->
  exists y, val_num v = Some y /\ x <= y.
Proof.
  intros Ha Hge Hm. unfold ge_eq in Hge.
  destruct (lit_num l) as [n|] eqn:Hl.
  - pose proof (canbe_le_num a (BVal l) x n Ha Hl Hge). unfold lit_matches in Hm. rewrite Hl in Hm.
    destruct (val_num v) as [y|] eqn:Hv; [|exfalso; clear H; destruct l, v; cbn in *; congruence].
    apply Z.eqb_eq in Hm. subst. eauto.
  - exfalso. unfold bound_cmp in Hge.
    assert (Hne : bound_eqb a (BVal l) = false).
    { destruct (bound_eqb a (BVal l)) eqn:E; [|reflexivity]. destruct a; cbn in E; try discriminate.
      apply lit_eqb_eq in E. subst. unfold bound_num, bound_lit in Ha. congruence. }
    rewrite Hne in Hge. cbn [bound_lit] in Hge. rewrite lit_cmp_nonnum in Hge; [discriminate| |exact Hl].
    unfold bound_num in Ha. congruence.
Qed.
Lemma le_eq_sound a l v x :
  bound_num a = Some x -> le_eq a l = true -> lit_matches l v = true ->
  exists y, val_num v = Some y /\ y <= x.
Proof.
  intros Ha Hle Hm. unfold le_eq in Hle.
  destruct (lit_num l) as [n|] eqn:Hl.
  - pose proof (canbe_ge_num a (BVal l) x n Ha Hl Hle). unfold lit_matches in Hm. rewrite Hl in Hm.
    destruct (val_num v) as [y|] eqn:Hv; [|exfalso; clear H; destruct l, v; cbn in *; congruence].
    apply Z.eqb_eq in Hm. subst. eauto.
  - exfalso. unfold bound_cmp in Hle.
    assert (Hne : bound_eqb a (BVal l) = false).
    { destruct (bound_eqb a (BVal l)) eqn:E; [|reflexivity]. destruct a; cbn in E; try discriminate.
      apply lit_eqb_eq in E. subst. unfold bound_num, bound_lit in Ha. congruence. }
    rewrite Hne in Hle. cbn [bound_lit] in Hle. rewrite lit_cmp_nonnum in Hle; [discriminate| |exact Hl].
    unfold bound_num in Ha. congruence.
Qed.

(* the bounds of the predicate are numbers (what interval and into_refinement build) *)
Definition pred_ok (p : rpred) : Prop :=
  match p with
  | PGe b => bound_numeric b
  | PIval lo hi => bound_numeric lo /\ bound_numeric hi
  | _ => True
  end.

Lemma is_super_pred_sound lp rp v :
  pred_ok lp -> is_super_pred lp rp = true -> den_pred rp v = true -> den_pred lp v = true.
Proof.
  intros Hok Hs Hr. destruct lp as [|a|ks|lo hi]; [reflexivity| | |].
  - (* x >= a *)
    cbn in Hok. unfold bound_numeric in Hok. destruct (bound_num a) as [x|] eqn:Ha; [|contradiction]. clear Hok.
    destruct rp as [|b|ls|lo2 hi2]; cbn in Hs; try discriminate.
    + cbn in Hr |- *. rewrite Ha. destruct (bound_num b) as [y|] eqn:Hb; [|discriminate].
      destruct (val_num v) as [n|]; [|discriminate]. apply Z.leb_le in Hr. apply Z.leb_le.
      pose proof (canbe_le_num a b x y Ha Hb Hs). lia.
    + cbn in Hr. apply existsb_exists in Hr. destruct Hr as [l [Hl Hm]]. rewrite forallb_forall in Hs.
      destruct (ge_eq_sound a l v x Ha (Hs l Hl) Hm) as [y [Hv Hxy]]. cbn. rewrite Ha, Hv. now apply Z.leb_le.
    + cbn in Hr |- *. rewrite Ha. destruct (bound_num lo2) as [y|] eqn:Hb; [|discriminate].
      destruct (bound_num hi2); [|discriminate]. destruct (val_num v) as [n|]; [|discriminate].
      apply andb_prop in Hr. destruct Hr as [Hr _]. apply Z.leb_le in Hr. apply Z.leb_le.
      pose proof (canbe_le_num a lo2 x y Ha Hb Hs). lia.
  - (* enum *)
    destruct rp as [|b|ls|lo2 hi2]; cbn in Hs; try discriminate.
    cbn in Hr |- *. apply existsb_exists in Hr. destruct Hr as [l [Hl Hm]]. rewrite forallb_forall in Hs.
    specialize (Hs l Hl). apply existsb_exists in Hs. destruct Hs as [k [Hk Hkl]].
    apply existsb_exists. exists k. split; [exact Hk|]. now apply (eq_eq_matches k l v).
  - (* interval *)
    cbn in Hok. destruct Hok as [Hlo Hhi]. unfold bound_numeric in *.
    destruct (bound_num lo) as [x|] eqn:Ha; [|contradiction]. destruct (bound_num hi) as [z|] eqn:Hz; [|contradiction].
    destruct rp as [|b|ls|lo2 hi2]; cbn in Hs; try discriminate.
    + cbn in Hr. apply existsb_exists in Hr. destruct Hr as [l [Hl Hm]]. rewrite forallb_forall in Hs.
      specialize (Hs l Hl). apply andb_prop in Hs. destruct Hs as [H1 H2].
      destruct (ge_eq_sound lo l v x Ha H1 Hm) as [y [Hv Hxy]].
      destruct (le_eq_sound hi l v z Hz H2 Hm) as [y' [Hv' Hyz]]. rewrite Hv in Hv'. inversion Hv'. subst y'.
      cbn. rewrite Ha, Hz, Hv. apply andb_true_intro. split; now apply Z.leb_le.
    + apply andb_prop in Hs. destruct Hs as [H1 H2]. cbn in Hr |- *. rewrite Ha, Hz.
      destruct (bound_num lo2) as [y|] eqn:Hb; [|discriminate].
      destruct (bound_num hi2) as [w|] eqn:Hw; [|discriminate]. destruct (val_num v) as [n|]; [|discriminate].
      apply andb_prop in Hr. destruct Hr as [Hr1 Hr2]. apply Z.leb_le in Hr1. apply Z.leb_le in Hr2.
      pose proof (canbe_le_num lo lo2 x y Ha Hb H1). pose proof (canbe_ge_num hi hi2 z w Hz Hw H2).
      apply andb_true_intro. split; apply Z.leb_le; lia.
Qed.
