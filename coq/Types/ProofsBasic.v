(** C06 — basic lemmas: induction principle, equality test, the fuel is enough, the syntactic laws *)
From Coq Require Import ZArith List Bool Arith Lia.
From ErgV Require Import gen.Classes Types.Model Types.Spec.
Import ListNotations.
Open Scope Z_scope.

(* ------------------------------------------------------------------ induction principle for nested lists *)
Section TyInd.
  Variable P : ty -> Prop.
  Hypothesis HNever : P TNever.
  Hypothesis HObj : P TObj.
  Hypothesis HMono : forall c, P (TMono c).
  Hypothesis HPoly : forall c, P (TPoly c).
  Hypothesis HRef : forall b p, P b -> P (TRef b p).
  Hypothesis HOr : forall l, Forall P l -> P (TOr l).
  Hypothesis HAnd : forall l, Forall P l -> P (TAnd l).
  Hypothesis HNot : forall t, P t -> P (TNot t).
  Hypothesis HList : forall e n, P e -> P (TList e n).
  Fixpoint ty_ind' (t : ty) : P t :=
    match t with
    | TNever => HNever
    | TObj => HObj
    | TMono c => HMono c
    | TPoly c => HPoly c
    | TRef b p => HRef b p (ty_ind' b)
    | TOr l => HOr l ((fix go (l : list ty) : Forall P l :=
                         match l with [] => Forall_nil P | x :: r => Forall_cons x (ty_ind' x) (go r) end) l)
    | TAnd l => HAnd l ((fix go (l : list ty) : Forall P l :=
                           match l with [] => Forall_nil P | x :: r => Forall_cons x (ty_ind' x) (go r) end) l)
    | TNot x => HNot x (ty_ind' x)
    | TList e n => HList e n (ty_ind' e)
    end.
End TyInd.

(* ------------------------------------------------------------------ ty_eqb *)
Lemma ty_eqb_ex x l2 :
  (fix ex (m : list ty) : bool := match m with [] => false | y :: m' => ty_eqb x y || ex m' end) l2 = existsb (ty_eqb x) l2.
Proof. induction l2 as [|y m IHm]; [reflexivity|]. cbn [existsb]. now rewrite <- IHm. Qed.

Lemma ty_eqb_ex2 y l1 :
  (fix ex2 (l : list ty) : bool := match l with [] => false | x :: t => ty_eqb x y || ex2 t end) l1
  = existsb (fun x => ty_eqb x y) l1.
Proof. induction l1 as [|x t IH]; [reflexivity|]. cbn [existsb]. now rewrite <- IH. Qed.

Lemma ty_eqb_set l1 l2 :
  (fix all (l : list ty) : bool :=
     match l with
     | [] => true
     | x :: t => (fix ex (m : list ty) : bool := match m with [] => false | y :: m' => ty_eqb x y || ex m' end) l2 && all t
     end) l1 = forallb (fun x => existsb (ty_eqb x) l2) l1.
Proof.
  induction l1 as [|x t IH]; [reflexivity|]. cbn [forallb]. rewrite <- IH, <- ty_eqb_ex. reflexivity.
Qed.

Lemma ty_eqb_set2 l1 l2 :
  (fix all2 (m : list ty) : bool :=
     match m with
     | [] => true
     | y :: m' => (fix ex2 (l : list ty) : bool := match l with [] => false | x :: t => ty_eqb x y || ex2 t end) l1 && all2 m'
     end) l2 = forallb (fun y => existsb (fun x => ty_eqb x y) l1) l2.
Proof.
  induction l2 as [|y m IH]; [reflexivity|]. cbn [forallb]. rewrite <- IH, <- ty_eqb_ex2. reflexivity.
Qed.

Lemma ty_eqb_or l1 l2 :
  ty_eqb (TOr l1) (TOr l2) = forallb (fun x => existsb (ty_eqb x) l2) l1 && forallb (fun y => existsb (fun x => ty_eqb x y) l1) l2.
Proof. cbn [ty_eqb]. now rewrite ty_eqb_set, ty_eqb_set2. Qed.
Lemma ty_eqb_and l1 l2 :
  ty_eqb (TAnd l1) (TAnd l2) = forallb (fun x => existsb (ty_eqb x) l2) l1 && forallb (fun y => existsb (fun x => ty_eqb x y) l1) l2.
Proof. cbn [ty_eqb]. now rewrite ty_eqb_set, ty_eqb_set2. Qed.

Lemma zs_eqb_refl s : zs_eqb s s = true.
Proof. induction s; cbn; [reflexivity|]. now rewrite Z.eqb_refl. Qed.
Lemma lit_eqb_refl l : lit_eqb l l = true.
Proof. destruct l; cbn; auto using Z.eqb_refl, zs_eqb_refl, Bool.eqb_reflx. Qed.
Lemma bound_eqb_refl b : bound_eqb b b = true.
Proof. destruct b; cbn; auto using Z.eqb_refl, lit_eqb_refl. Qed.
Lemma forallb_existsb_refl {A} (eqb : A -> A -> bool) l :
  (forall x, In x l -> eqb x x = true) -> forallb (fun k => existsb (eqb k) l) l = true.
Proof.
  intros H. apply forallb_forall. intros x Hx. apply existsb_exists. exists x. split; auto.
Qed.
Lemma rpred_eqb_refl p : rpred_eqb p p = true.
Proof.
  destruct p; cbn; auto using bound_eqb_refl.
  - rewrite Nat.eqb_refl. cbn. rewrite forallb_existsb_refl; auto using lit_eqb_refl.
  - now rewrite !bound_eqb_refl.
Qed.
Lemma oz_eqb_refl n : oz_eqb n n = true.
Proof. destruct n; cbn; auto using Z.eqb_refl. Qed.

Lemma ty_eqb_refl : forall t, ty_eqb t t = true.
Proof.
  induction t using ty_ind'; try reflexivity.
  - cbn. apply Z.eqb_refl.
  - cbn. apply Z.eqb_refl.
  - cbn [ty_eqb]. now rewrite IHt, rpred_eqb_refl.
  - rewrite ty_eqb_or. rewrite Forall_forall in H.
    rewrite forallb_existsb_refl by auto. apply forallb_forall. intros y Hy. apply existsb_exists. exists y. auto.
  - rewrite ty_eqb_and. rewrite Forall_forall in H.
    rewrite forallb_existsb_refl by auto. apply forallb_forall. intros y Hy. apply existsb_exists. exists y. auto.
  - cbn. exact IHt.
  - cbn [ty_eqb]. now rewrite IHt, oz_eqb_refl.
Qed.

(* ------------------------------------------------------------------ sizes *)
Lemma size_pos t : (1 <= size t)%nat.
Proof. destruct t; cbn; lia. Qed.

Lemma size_sum_in x l :
  In x l -> (size x <= (fix sum (l : list ty) : nat := match l with [] => O | x :: r => (size x + sum r)%nat end) l)%nat.
Proof. induction l as [|y r IH]; cbn; [tauto|]. intros [->|H]; [lia|]. specialize (IH H). lia. Qed.
Lemma size_in_or x l : In x l -> (size x < size (TOr l))%nat.
Proof. intros H. apply size_sum_in in H. cbn [size]. lia. Qed.
Lemma size_in_and x l : In x l -> (size x < size (TAnd l))%nat.
Proof. intros H. apply size_sum_in in H. cbn [size]. lia. Qed.

Lemma size_sum_map_derefine (f : ty -> ty) l :
  Forall (fun x => (size (f x) <= size x)%nat) l ->
  ((fix sum (l : list ty) : nat := match l with [] => O | x :: r => (size x + sum r)%nat end) (map f l)
   <= (fix sum (l : list ty) : nat := match l with [] => O | x :: r => (size x + sum r)%nat end) l)%nat.
Proof. induction 1; cbn; lia. Qed.

Lemma size_derefine : forall t, (size (derefine t) <= size t)%nat.
Proof.
  induction t using ty_ind'; cbn [derefine]; try lia.
  - cbn [size]. lia.
  - cbn [size]. apply size_sum_map_derefine in H. lia.
  - cbn [size]. apply size_sum_map_derefine in H. lia.
  - cbn [size]. lia.
  - cbn [size]. lia.
Qed.

Lemma size_into_refinement t : (size (fst (into_refinement t)) <= size t)%nat.
Proof.
  destruct t; cbn; try lia.
  destruct (c =? id_Nat); [cbn; lia|]. destruct (c =? id_Bool); cbn; lia.
Qed.

Lemma size_ty_of_sup s : size (ty_of_sup s) = 1%nat.
Proof. unfold ty_of_sup, ty_of_id. destruct (snd s); [reflexivity|]. destruct (_ =? _); [reflexivity|]. now destruct (_ =? _). Qed.

(* ------------------------------------------------------------------ the combinators never lose an answer *)
Lemma orM_some a b : a <> None -> (forall u, b u <> None) -> orM a b <> None.
Proof. destruct a as [[|]|]; cbn; auto; congruence. Qed.
Lemma andM_some a b : a <> None -> (forall u, b u <> None) -> andM a b <> None.
Proof. destruct a as [[|]|]; cbn; auto; congruence. Qed.
Lemma negM_some a : a <> None -> negM a <> None.
Proof. destruct a; cbn; congruence. Qed.
Lemma anyM_some {A} (g : A -> option bool) l : (forall x, In x l -> g x <> None) -> anyM g l <> None.
Proof.
  induction l as [|x t IH]; cbn; [congruence|]. intros H. apply orM_some; [apply H; auto|]. intros _. apply IH. auto.
Qed.
Lemma allM_some {A} (g : A -> option bool) l : (forall x, In x l -> g x <> None) -> allM g l <> None.
Proof.
  induction l as [|x t IH]; cbn; [congruence|]. intros H. apply andM_some; [apply H; auto|]. intros _. apply IH. auto.
Qed.
Lemma zipallM_some {A} (g : A -> A -> option bool) l r :
  (forall x y, In x l -> In y r -> g x y <> None) -> zipallM g l r <> None.
Proof.
  revert r. induction l as [|x t IH]; intros [|y r] H; cbn; try congruence.
  apply andM_some; [apply H; cbn; auto|]. intros _. apply IH. intros; apply H; cbn; auto.
Qed.
Lemma In_rotl {A} k (l : list A) y : In y (rotl k l) -> In y l.
Proof.
  revert l. induction k as [|k IH]; intros l; [destruct l; auto|]. destruct l as [|x t]; [auto|]. cbn [rotl].
  intros H. apply IH in H. apply in_app_or in H. cbn in *. tauto.
Qed.

Ltac sz :=
  repeat match goal with
         | H : In _ (rotl _ _) |- _ => apply In_rotl in H
         end;
  repeat match goal with
         | t : ty |- _ => lazymatch goal with | _ : (1 <= size t)%nat |- _ => fail | _ => pose proof (size_pos t) end
         end;
  repeat match goal with
         | H : In ?x ?l |- _ => pose proof (size_in_or x l H); pose proof (size_in_and x l H); clear H
         end;
  repeat match goal with
         | |- context [size (derefine ?t)] => lazymatch goal with | _ : (size (derefine t) <= size t)%nat |- _ => fail | _ => pose proof (size_derefine t) end
         | |- context [size (fst (into_refinement ?t))] =>
           lazymatch goal with | _ : (size (fst (into_refinement t)) <= size t)%nat |- _ => fail | _ => pose proof (size_into_refinement t) end
         end;
  cbn [size] in *; try lia.

Section Fuel.
  Variable rec : ty -> ty -> option bool.

  Ltac step :=
    first [ apply orM_some | apply andM_some | apply negM_some
          | apply anyM_some; intros ? ? | apply allM_some; intros ? ?
          | apply zipallM_some; intros ? ? ? ? ];
    intros.

  Lemma ref_ref_some lb lp rb rp :
    (forall l' r', (size l' + size r' <= size lb + size rb)%nat -> rec l' r' <> None) ->
    ref_ref rec lb lp rb rp <> None.
  Proof.
    intros H. unfold ref_ref. pose proof (H lb rb ltac:(lia)) as H0. destruct (rec lb rb) as [[|]|]; try congruence.
    pose proof (size_into_refinement lb) as Hs. destruct (into_refinement lb) as [b q]. cbn [fst] in Hs.
    apply andM_some; [apply H; lia|intros; congruence].
  Qed.

  Lemma structural_some l r :
    (forall l' r', (size l' + size r' < size l + size r)%nat -> rec l' r' <> None) ->
    structural rec l r <> None.
  Proof.
    intros H. unfold structural.
    apply orM_some.
    { destruct r; try congruence. apply anyM_some. intros x Hx. apply H. sz. }
    intros _. apply orM_some.
    { destruct l; try congruence. apply anyM_some. intros x Hx. apply H. sz. }
    intros _.
    assert (Hsome : forall b : bool, Some b <> None) by congruence.
    pose proof (size_pos l) as Hl. pose proof (size_pos r) as Hr.
    destruct l, r; try apply Hsome;
      repeat match goal with
             | |- (if ?c then _ else _) <> None => destruct c
             | |- (let (_, _) := into_refinement ?t in _) <> None =>
               let Hir := fresh "Hir" in
               pose proof (size_into_refinement t) as Hir; destruct (into_refinement t); cbn [fst] in Hir
             | |- ref_ref _ _ _ _ _ <> None => apply ref_ref_some; intros; apply H; sz
             | |- Some _ <> None => apply Hsome
             | |- rec _ _ <> None => apply H; sz
             | |- _ => step
             | H0 : In _ (rotl _ _) |- _ => apply In_rotl in H0
             end.
  Qed.


  Lemma scan_some l sups :
    (forall l' r', (size l' + size r' < size l + 1)%nat -> rec l' r' <> None) ->
    scan rec l sups <> None.
  Proof.
    intros H. unfold scan. apply anyM_some. intros s _. destruct (cheap l (ty_of_sup s)); [congruence|].
    apply structural_some. rewrite size_ty_of_sup. exact H.
  Qed.

  Lemma nominal_some l r :
    (forall l' r', (size l' + size r' < size l + size r)%nat -> rec l' r' <> None) ->
    nominal rec l r <> None.
  Proof.
    intros H. unfold nominal. pose proof (size_pos r).
    assert (H1 : forall l' r', (size l' + size r' < size l + 1)%nat -> rec l' r' <> None) by (intros; apply H; lia).
    destruct (ctx_of r); [|congruence].
    apply orM_some; [destruct (_ && _); [now apply scan_some|congruence]|]. intros _.
    destruct (is_trait l); [|congruence]. apply orM_some; [now apply scan_some|]. intros _. now apply scan_some.
  Qed.
End Fuel.

Lemma sup_some : forall n l r, (size l + size r < n)%nat -> sup n l r <> None.
Proof.
  induction n as [|n IH]; intros l r Hn; [lia|]. cbn [sup]. destruct (cheap l r); [congruence|].
  apply orM_some; [apply structural_some|intros _; apply nominal_some]; intros; apply IH; lia.
Qed.

Lemma sub_res_some s t : sub_res s t <> None.
Proof. unfold sub_res, fuel_of. apply sup_some. lia. Qed.

Lemma sub_res_sub s t : sub_res s t = Some (sub s t).
Proof. unfold sub. pose proof (sub_res_some s t). now destruct (sub_res s t). Qed.

(* the answer does not depend on the fuel once it is enough *)
Lemma orM_ext a a' b b' : a = a' -> (forall u, b u = b' u) -> orM a b = orM a' b'.
Proof. intros -> H. destruct a' as [[|]|]; cbn; auto. Qed.
Lemma andM_ext a a' b b' : a = a' -> (forall u, b u = b' u) -> andM a b = andM a' b'.
Proof. intros -> H. destruct a' as [[|]|]; cbn; auto. Qed.
Lemma anyM_ext {A} (g g' : A -> option bool) l : (forall x, In x l -> g x = g' x) -> anyM g l = anyM g' l.
Proof. induction l as [|x t IH]; cbn; [auto|]. intros H. apply orM_ext; [apply H; auto|]. intros _. apply IH. auto. Qed.
Lemma allM_ext {A} (g g' : A -> option bool) l : (forall x, In x l -> g x = g' x) -> allM g l = allM g' l.
Proof. induction l as [|x t IH]; cbn; [auto|]. intros H. apply andM_ext; [apply H; auto|]. intros _. apply IH. auto. Qed.
Lemma zipallM_ext {A} (g g' : A -> A -> option bool) l r :
  (forall x y, In x l -> In y r -> g x y = g' x y) -> zipallM g l r = zipallM g' l r.
Proof.
  revert r. induction l as [|x t IH]; intros [|y r] H; cbn; auto.
  apply andM_ext; [apply H; cbn; auto|]. intros _. apply IH. intros; apply H; cbn; auto.
Qed.

Section Ext.
  Variables rec rec' : ty -> ty -> option bool.

  Lemma ref_ref_ext lb lp rb rp :
    (forall l' r', (size l' + size r' <= size lb + size rb)%nat -> rec l' r' = rec' l' r') ->
    ref_ref rec lb lp rb rp = ref_ref rec' lb lp rb rp.
  Proof.
    intros H. unfold ref_ref. rewrite (H lb rb) by lia. destruct (rec' lb rb) as [[|]|]; try reflexivity.
    pose proof (size_into_refinement lb) as Hs. destruct (into_refinement lb) as [b q]. cbn [fst] in Hs.
    apply andM_ext; [apply H; lia|auto].
  Qed.

  Lemma structural_ext l r :
    (forall l' r', (size l' + size r' < size l + size r)%nat -> rec l' r' = rec' l' r') ->
    structural rec l r = structural rec' l r.
  Proof.
    intros H. unfold structural.
    apply orM_ext.
    { destruct r; try reflexivity. apply anyM_ext. intros x Hx. apply H. sz. }
    intros _. apply orM_ext.
    { destruct l; try reflexivity. apply anyM_ext. intros x Hx. apply H. sz. }
    intros _.
    pose proof (size_pos l) as Hl. pose proof (size_pos r) as Hr.
    destruct l, r; try reflexivity;
      repeat match goal with
             | |- (if ?c then _ else _) = (if ?c then _ else _) => destruct c
             | |- (let (_, _) := into_refinement ?t in _) = _ =>
               let Hir := fresh "Hir" in
               pose proof (size_into_refinement t) as Hir; destruct (into_refinement t); cbn [fst] in Hir
             | |- ref_ref _ _ _ _ _ = ref_ref _ _ _ _ _ => apply ref_ref_ext; intros; apply H; sz
             | |- Some _ = Some _ => reflexivity
             | |- rec _ _ = rec' _ _ => apply H; sz
             | |- negM _ = negM _ => f_equal
             | |- orM _ _ = orM _ _ => apply orM_ext; intros
             | |- andM _ _ = andM _ _ => apply andM_ext; intros
             | |- anyM _ _ = anyM _ _ => apply anyM_ext; intros ? ?
             | |- allM _ _ = allM _ _ => apply allM_ext; intros ? ?
             | |- zipallM _ _ _ = zipallM _ _ _ => apply zipallM_ext; intros ? ? ? ?
             end.
  Qed.

  Lemma scan_ext l sups :
    (forall l' r', (size l' + size r' < size l + 1)%nat -> rec l' r' = rec' l' r') ->
    scan rec l sups = scan rec' l sups.
  Proof.
    intros H. unfold scan. apply anyM_ext. intros s _. destruct (cheap l (ty_of_sup s)); [reflexivity|].
    apply structural_ext. rewrite size_ty_of_sup. exact H.
  Qed.

  Lemma nominal_ext l r :
    (forall l' r', (size l' + size r' < size l + size r)%nat -> rec l' r' = rec' l' r') ->
    nominal rec l r = nominal rec' l r.
  Proof.
    intros H. unfold nominal. pose proof (size_pos r).
    assert (H1 : forall l' r', (size l' + size r' < size l + 1)%nat -> rec l' r' = rec' l' r') by (intros; apply H; lia).
    destruct (ctx_of r); [|reflexivity].
    apply orM_ext; [destruct (_ && _); [now apply scan_ext|reflexivity]|]. intros _.
    destruct (is_trait l); [|reflexivity]. apply orM_ext; [now apply scan_ext|]. intros _. now apply scan_ext.
  Qed.
End Ext.

Lemma sup_fuel : forall n m l r, (size l + size r < n)%nat -> (size l + size r < m)%nat -> sup n l r = sup m l r.
Proof.
  induction n as [|n IH]; intros m l r Hn Hm; [lia|]. destruct m as [|m]; [lia|]. cbn [sup].
  destruct (cheap l r); [reflexivity|].
  apply orM_ext; [apply structural_ext|intros _; apply nominal_ext]; intros; apply IH; lia.
Qed.

(* supertype_of(l, r) as a total function *)
Definition supb (l r : ty) : bool := sub r l.

Lemma sup_supb n l r : (size l + size r < n)%nat -> sup n l r = Some (supb l r).
Proof.
  intros H. unfold supb. rewrite <- sub_res_sub. unfold sub_res, fuel_of. apply sup_fuel; lia.
Qed.

(* one unfolding of supertype_of with total recursive calls *)
Definition recb (l r : ty) : option bool := Some (supb l r).

Lemma supb_unfold l r :
  Some (supb l r) = match cheap l r with
                    | Some b => Some b
                    | None => orM (structural recb l r) (fun _ => nominal recb l r)
                    end.
Proof.
  rewrite <- (sup_supb (S (size l + size r))) by lia. cbn [sup]. destruct (cheap l r); [reflexivity|].
  apply orM_ext; [apply structural_ext|intros _; apply nominal_ext]; intros; apply sup_supb; lia.
Qed.
