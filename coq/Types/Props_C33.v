(** C33 — property theorems (statements only; proofs are in ProofsMatch.v).
    [accepted T arms]: the checker's acceptance of `match x: arms` for x: T (Types/Match.v): T <: Context::union of the pattern
    types; [den]: the set-theoretic reading of a type (Types/Spec.v); [rt_test]: the arm test that runs (codegen.rs +
    _erg_contains_operator.py). *)
From Coq Require Import ZArith List Bool.
From ErgV Require Import gen.Classes Types.Model Types.Spec Types.Match Types.ProofsMatch.
Import ListNotations.
Open Scope Z_scope.

(** 1. an accepted match is exhaustive: every value of the scrutinee type is a value of the pattern type of some arm
    (from the soundness of the subtype judgement, C06 sub_sound; the union of the pattern types adds no value) *)
Theorem match_exhaustive : forall T arms u,
  frag T = true -> union_arms arms = Some u -> frag u = true -> sub T u = true ->
  forall v, den T v = true -> exists a, In a arms /\ den (arm_ty a) v = true.
Proof. exact match_exhaustive_l. Qed.
Example match_exhaustive_nonvacuous :
  let T := TOr [TMono id_Int; TMono id_Str] in
  let arms := [ALit (LInt 1); ATy (TMono id_Nat); ATy (TMono id_Str); AWild] in
  frag T = true /\ (exists u, union_arms arms = Some u /\ frag u = true /\ sub T u = true) /\ den T (VInt (-5)) = true.
Proof. split; [reflexivity|]. split; [|reflexivity]. eexists. split; [vm_compute; reflexivity|]. split; reflexivity. Qed.

(** 2. the arm test that runs decides membership in the arm's pattern type, on the Int / Str / Bool fragment (classes Bool Nat
    Int Str NoneType, enums and intervals of them, unions; values without floats and lists), outside the known class:
    a pattern type that mentions Bool, at the integers 0 and 1 (the checker reads Bool as {0, 1}, the class test does not) *)
Theorem arm_test_exact : forall a v,
  c33_arm a = true -> c33_val v = true -> arm_bool_int a v = false -> rt_test a v = den (arm_ty a) v.
Proof. exact arm_test_exact_l. Qed.
Example arm_test_exact_nonvacuous :
  let a := ATy (TOr [interval_ty (TMono id_Nat) IClosed 1 10; TMono id_Str]) in
  c33_arm a = true /\ c33_val (VInt 10) = true /\ arm_bool_int a (VInt 10) = false /\ rt_test a (VInt 10) = true.
Proof. vm_compute. repeat split; reflexivity. Qed.

(** 3. known finding (known/C33.json): x: {1} with the arms `_: Bool`, `_: Str` is accepted; for x = 1 the Bool test fails at run
    time and the last arm, Str, runs: the value is matched by no arm that runs *)
Theorem match_bool_refuted :
  let arms := [ATy (TMono id_Bool); ATy (TMono id_Str)] in
  accepted (enum_ty [LInt 1]) arms = Some true /\ den (enum_ty [LInt 1]) (VInt 1) = true /\
  rt_select arms (VInt 1) = 1 /\ judge_arm arms 1 (VInt 1) = false /\ known_bool_int arms (VInt 1) = true.
Proof. exact match_bool_refuted_l. Qed.
