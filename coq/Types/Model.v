(** C06 / C33 — model of the subtype judgement on a fragment of Erg types.

    Transcribed from crates/erg_compiler/context/compare.rs
      Context::{supertype_of, subtype_of, cheap_supertype_of, structural_supertype_of, nominal_supertype_of,
                classes_supertype_of, traits_supertype_of, _nominal_supertype_of, is_super_pred_of, try_cmp}
    with  context/inquire.rs  Context::{is_class, is_trait, get_nominal_type_ctx},
          ty/mod.rs           Type::{eq, is_mono_value_class, into_refinement, derefine}, ty/value.rs ValueObj::try_cmp,
          ty/constructors.rs  v_enum, interval.
    The class hierarchy is not transcribed: it is coq/gen/Classes.v, dumped from the live builtin context on every run.

    Fragment.  Never | Obj | a builtin nominal type without type arguments | a refinement {x: B | p} of one of them whose
    predicate is an enum of literals or an interval (what v_enum / interval build, plus the predicates that
    Type::into_refinement gives Nat and Bool) | Or | And | Not | List(T, n) / List(T, _).
    [TPoly h] stands for a super type with type arguments (Sequence(Str), Output(T), ...) met in a super-type list; it
    only occurs on the right of the nominal scan and its arguments are ignored.
    Not modelled (stated in the check's REGISTRY): free type variables, quantified/subroutine/structural/record types,
    projection types, mutable containers, traits with type arguments as such.

    Definitions only; proofs are in Proofs*.v. *)
From Coq Require Import ZArith List Bool Arith.
From ErgV Require Import gen.Classes.
Import ListNotations.
Open Scope Z_scope.

(* ------------------------------------------------------------------ literals *)
Inductive lit :=
| LInt (z : Z)            (* ValueObj::Nat z for z >= 0, ValueObj::Int z for z < 0 (what literal evaluation produces) *)
| LStr (s : list Z)       (* ValueObj::Str, code points *)
| LBool (b : bool)
| LNone
| LFloat (q : Z).         (* ValueObj::Float q/10 *)

Fixpoint zs_eqb (a b : list Z) : bool :=
  match a, b with
  | [], [] => true
  | x :: a', y :: b' => (x =? y) && zs_eqb a' b'
  | _, _ => false
  end.

Fixpoint zs_cmp (a b : list Z) : comparison :=
  match a, b with
  | [], [] => Eq
  | [], _ => Lt
  | _, [] => Gt
  | x :: a', y :: b' => match x ?= y with Eq => zs_cmp a' b' | c => c end
  end.

(* ValueObj::eq (derived-like): Int/Nat compare by value, the other variants only with themselves *)
Definition lit_eqb (a b : lit) : bool :=
  match a, b with
  | LInt x, LInt y => x =? y
  | LStr x, LStr y => zs_eqb x y
  | LBool x, LBool y => Bool.eqb x y
  | LNone, LNone => true
  | LFloat x, LFloat y => x =? y
  | _, _ => false
  end.

(* ValueObj::is_num and the f64 it converts to, in tenths (exact for the small literals of the fragment) *)
Definition lit_num (a : lit) : option Z :=
  match a with
  | LInt z => Some (10 * z)
  | LBool b => Some (if b then 10 else 0)
  | LFloat q => Some q
  | _ => None
  end.

(* ValueObj::try_cmp *)
Definition lit_cmp (a b : lit) : option comparison :=
  if lit_eqb a b then Some Eq
  else match lit_num a, lit_num b with
       | Some x, Some y => Some (x ?= y)
       | _, _ => match a, b with
                 | LStr x, LStr y => Some (zs_cmp x y)
                 | _, _ => None        (* try_eq of values of different classes: not Bool(true) *)
                 end
       end.

(* ValueObj::class *)
Definition lit_class (a : lit) : Z :=
  match a with
  | LInt z => if 0 <=? z then id_Nat else id_Int
  | LStr _ => id_Str
  | LBool _ => id_Bool
  | LNone => id_NoneType
  | LFloat _ => id_Float
  end.

(* ------------------------------------------------------------------ refinement predicates (normal forms) *)
(* interval bounds: TyParam::Value z, or the TyParam::App succ / pred of the open-interval sugar *)
Inductive bound := BVal (l : lit) | BSucc (z : Z) | BPred (z : Z).

(* what try_cmp compares after eval_app (const_func.rs succ_func / pred_func) *)
Definition bound_lit (b : bound) : lit :=
  match b with BVal l => l | BSucc z => LInt (z + 1) | BPred z => LInt (z - 1) end.

Definition bound_eqb (a b : bound) : bool :=
  match a, b with
  | BVal x, BVal y => lit_eqb x y
  | BSucc x, BSucc y | BPred x, BPred y => x =? y
  | _, _ => false
  end.

(* Context::try_cmp: `l == r` first, then the values *)
Definition bound_cmp (a b : bound) : option comparison :=
  if bound_eqb a b then Some Eq else lit_cmp (bound_lit a) (bound_lit b).

Inductive rpred :=
| PTrue                          (* Predicate::Value(true): Type::into_refinement of any other type *)
| PGe (b : bound)                (* x >= b: Nat.into_refinement() == {I: Int | I >= 0} *)
| PEnum (l : list lit)           (* Equal for one literal, Or of Equal for several (v_enum) *)
| PIval (lo hi : bound).         (* x >= lo and x <= hi (interval; Bool.into_refinement()) *)

Definition canbe_le (c : option comparison) : bool := match c with Some Gt | None => false | _ => true end.
Definition canbe_ge (c : option comparison) : bool := match c with Some Lt | None => false | _ => true end.
Definition canbe_eq (c : option comparison) : bool := match c with Some Eq => true | _ => false end.

(* is_super_pred_of(x >= a, x == l) / (x <= a, x == l) / (x == k, x == l) *)
Definition ge_eq (a : bound) (l : lit) : bool := canbe_le (bound_cmp a (BVal l)).
Definition le_eq (a : bound) (l : lit) : bool := canbe_ge (bound_cmp a (BVal l)).
Definition eq_eq (k l : lit) : bool := lit_eqb k l || canbe_eq (lit_cmp k l).

(* is_super_pred_of(lhs, rhs) on the normal forms.  Which arms of the Rust function each case goes through:
   PTrue, _            (Value(true), _) => true
   _, PTrue            (_, Value(true)) => false
   PGe/PGe             (GreaterEqual, GreaterEqual) try_cmp canbe_le
   PGe/PEnum           (GreaterEqual, Equal) per literal; several literals: (lhs, Or) => all
   PGe/PIval           (lhs, And(l, r)) => lhs :> l || lhs :> r; lhs :> (x <= hi) is the (GreaterEqual, LessEqual) arm: false
   PEnum/PEnum         one/one (Equal, Equal); (Or, Or): reduce_preds leaves Equal atoms alone, then all-any;
                       (Or(ors), rhs) any; (lhs, Or(ors)) all
   PEnum/PGe, PIval    (Equal, GreaterEqual | LessEqual) => false, through (Or(ors), rhs) / (lhs, And)
   PIval/PEnum         (And(l, r), rhs) => l :> rhs && r :> rhs per literal; several: (lhs, Or) => all
   PIval/PGe           (And(l, r), rhs): (x <= hi) :> (x >= b) is false
   PIval/PIval         (And, And): reduce_preds("and") leaves {>=, <=} alone; every conjunct of one side is matched
                       with a conjunct of the other: >= with >=, <= with <= (the two loop orders agree on this shape) *)
Definition is_super_pred (l r : rpred) : bool :=
  match l, r with
  | PTrue, _ => true
  | _, PTrue => false
  | PGe a, PGe b => canbe_le (bound_cmp a b)
  | PGe a, PEnum ls => forallb (ge_eq a) ls
  | PGe a, PIval lo _ => canbe_le (bound_cmp a lo)
  | PEnum ks, PEnum ls => forallb (fun x => existsb (fun k => eq_eq k x) ks) ls
  | PEnum _, _ => false
  | PIval lo hi, PEnum ls => forallb (fun x => ge_eq lo x && le_eq hi x) ls
  | PIval _ _, PGe _ => false
  | PIval lo hi, PIval lo2 hi2 => canbe_le (bound_cmp lo lo2) && canbe_ge (bound_cmp hi hi2)
  end.

(* Predicate::eq up to the subject name; an Or of Equal is a Set: same size and mutual membership *)
Definition rpred_eqb (a b : rpred) : bool :=
  match a, b with
  | PTrue, PTrue => true
  | PGe x, PGe y => bound_eqb x y
  | PEnum x, PEnum y =>
    Nat.eqb (length x) (length y) && forallb (fun k => existsb (lit_eqb k) y) x && forallb (fun k => existsb (lit_eqb k) x) y
  | PIval a1 b1, PIval a2 b2 => bound_eqb a1 a2 && bound_eqb b1 b2
  | _, _ => false
  end.

(* ------------------------------------------------------------------ types *)
Inductive ty :=
| TNever
| TObj
| TMono (c : Z)                       (* builtin nominal type, id in gen/Classes.v (never id_Obj / id_Never) *)
| TPoly (h : Z)                       (* a super type with arguments, head id h *)
| TRef (b : ty) (p : rpred)
| TOr (l : list ty)
| TAnd (l : list ty)
| TNot (t : ty)
| TList (e : ty) (n : option Z).      (* List(e, n); None: the length is erased (List(e, _)) *)

Fixpoint size (t : ty) : nat :=
  match t with
  | TRef b _ => S (size b)
  | TOr l | TAnd l => S ((fix sum (l : list ty) : nat := match l with [] => O | x :: r => (size x + sum r)%nat end) l)
  | TNot x => S (size x)
  | TList e _ => S (size e)
  | _ => 1%nat
  end.

Definition oz_eqb (a b : option Z) : bool :=
  match a, b with Some x, Some y => x =? y | None, None => true | _, _ => false end.

Definition is_none_enum (p : rpred) : bool := match p with PEnum [LNone] => true | _ => false end.

(* Type::eq: Or is a Set (linear_eq), And is compared as a set, NoneType == {None}, the rest structurally *)
Fixpoint ty_eqb (a b : ty) {struct a} : bool :=
  match a, b with
  | TNever, TNever | TObj, TObj => true
  | TMono x, TMono y | TPoly x, TPoly y => x =? y
  | TRef x p, TRef y q => ty_eqb x y && rpred_eqb p q
  | TOr l1, TOr l2 | TAnd l1, TAnd l2 =>
    (* linear_eq of the two sets (an And is collected into a Set first): mutual inclusion *)
    (fix all (l : list ty) : bool :=
       match l with
       | [] => true
       | x :: t => (fix ex (m : list ty) : bool := match m with [] => false | y :: m' => ty_eqb x y || ex m' end) l2 && all t
       end) l1 &&
    (fix all2 (m : list ty) : bool :=
       match m with
       | [] => true
       | y :: m' => (fix ex2 (l : list ty) : bool := match l with [] => false | x :: t => ty_eqb x y || ex2 t end) l1 && all2 m'
       end) l2
  | TNot x, TNot y => ty_eqb x y
  | TList x n, TList y m => ty_eqb x y && oz_eqb n m
  | TMono c, TRef _ p | TRef _ p, TMono c => (c =? id_NoneType) && is_none_enum p
  | _, _ => false
  end.

(* ------------------------------------------------------------------ the class table *)
Definition row := (Z * list Z * (bool * bool * bool) * list (Z * bool) * list (Z * bool))%type.
Definition row_id (r : row) : Z := match r with (i, _, _, _, _) => i end.
Definition row_class (r : row) : bool := match r with (_, _, (_, c, _), _, _) => c end.
Definition row_trait (r : row) : bool := match r with (_, _, (_, _, t), _, _) => t end.
Definition row_sc (r : row) : list (Z * bool) := match r with (_, _, _, sc, _) => sc end.
Definition row_st (r : row) : list (Z * bool) := match r with (_, _, _, _, st) => st end.

Definition lookup (c : Z) : option row := find (fun r => row_id r =? c) classes.

(* constructors::from_str: the names of the builtin enum variants are those variants *)
Definition ty_of_id (c : Z) : ty := if c =? id_Obj then TObj else if c =? id_Never then TNever else TMono c.
Definition ty_of_sup (s : Z * bool) : ty := if snd s then TPoly (fst s) else ty_of_id (fst s).

(* Type::is_mono_value_class *)
Definition is_mvc (t : ty) : bool :=
  match t with
  | TObj | TNever => true
  | TMono c => existsb (Z.eqb c) mono_value_classes
  | _ => false
  end.

(* Context::get_nominal_type_ctx *)
Definition ctx_of (t : ty) : option row :=
  match t with
  | TNever => lookup id_Never
  | TObj => lookup id_Obj
  | TMono c | TPoly c => lookup c
  | TRef (TMono c) _ => lookup c
  | TRef TObj _ => lookup id_Obj
  | TRef TNever _ => lookup id_Never
  | TOr _ => lookup id_Or
  | TList _ _ => lookup id_List
  | _ => None
  end.

(* Context::is_class / is_trait *)
Fixpoint is_class (t : ty) : bool :=
  match t with
  | TNever => true
  | TAnd _ => false
  | TOr l => (fix all (l : list ty) : bool := match l with [] => true | x :: r => is_class x && all r end) l
  | TNot x => is_class x
  | TRef b _ => is_class b
  | _ => match ctx_of t with Some r => row_class r | None => false end
  end.

Fixpoint is_trait (t : ty) : bool :=
  match t with
  | TNever => false
  | TAnd l => (fix any (l : list ty) : bool := match l with [] => false | x :: r => is_trait x || any r end) l
  | TOr l => (fix all (l : list ty) : bool := match l with [] => true | x :: r => is_trait x && all r end) l
  | TNot x => is_trait x
  | TRef b _ => is_trait b
  | _ => match ctx_of t with Some r => row_trait r | None => false end
  end.

(* ------------------------------------------------------------------ cheap_supertype_of *)
Definition is_c (c : Z) (t : ty) : bool := match t with TMono x => x =? c | _ => false end.
Definition in_cs (cs : list Z) (t : ty) : bool := match t with TMono x => existsb (Z.eqb x) cs | _ => false end.

(* Some b: (Absolutely, b); None: (Maybe, false) *)
Definition cheap (l r : ty) : option bool :=
  if ty_eqb l r then Some true
  else match l, r with
       | TObj, _ | _, TNever => Some true
       | _, _ =>
         if (match r with TObj => true | _ => false end) && is_mvc l then Some false
         else if (match l with TNever => true | _ => false end) && is_mvc r then Some false
         else if (in_cs [id_Complex; id_Float; id_Ratio; id_Int; id_Nat; id_Bool] l && is_c id_Bool r)
                 || (in_cs [id_Complex; id_Float; id_Ratio; id_Int; id_Nat] l && is_c id_Nat r)
                 || (in_cs [id_Complex; id_Float; id_Ratio; id_Int] l && is_c id_Int r)
                 || (in_cs [id_Complex; id_Float; id_Ratio] l && is_c id_Ratio r)
                 || (in_cs [id_Complex; id_Float] l && is_c id_Float r) then Some true
         else if is_c id_Type l && in_cs [id_ClassType; id_TraitType] r then Some true
         else if is_c id_GenericList l && (match r with TList _ _ => true | _ => false end) then Some true
         else if is_mvc l && is_mvc r then Some false
         else None
       end.

(* ------------------------------------------------------------------ pieces of structural_supertype_of *)
Definition pred_nat : rpred := PGe (BVal (LInt 0)).                                   (* Nat.into_refinement() *)
Definition pred_bool : rpred := PIval (BVal (LBool false)) (BVal (LBool true)).      (* Bool.into_refinement() *)

(* Type::into_refinement: (base, predicate) *)
Definition into_refinement (t : ty) : ty * rpred :=
  match t with
  | TRef b p => (b, p)
  | TMono c => if c =? id_Nat then (TMono id_Int, pred_nat)
               else if c =? id_Bool then (TMono id_Int, pred_bool)
               else (t, PTrue)
  | _ => (t, PTrue)
  end.

(* Type::derefine *)
Fixpoint derefine (t : ty) : ty :=
  match t with
  | TRef b _ => b
  | TOr l => TOr (map derefine l)
  | TAnd l => TAnd (map derefine l)
  | TNot x => TNot (derefine x)
  | TList e n => TList (derefine e) n
  | _ => t
  end.

(* Predicate::mentions(var) && can_be_false() == Some(true): every comparison can be false *)
Definition pred_can_be_false (p : rpred) : bool := match p with PTrue => false | _ => true end.

(* the length test of the (Poly List, Poly List) arm: try_cmp(llen, rlen) canbe_eq || canbe_lt; an erased length
   compares as Any with everything *)
Definition len_ok (ln rn : option Z) : bool :=
  match ln, rn with Some a, Some b => a <=? b | _, _ => true end.

Definition is_natbool (t : ty) : bool := is_c id_Nat t || is_c id_Bool t.
Definition is_meta (t : ty) : bool := in_cs [id_Type; id_ClassType; id_TraitType] t.

(* option bool: None = out of fuel *)
Definition orM (a : option bool) (b : unit -> option bool) : option bool :=
  match a with Some true => Some true | Some false => b tt | None => None end.
Definition andM (a : option bool) (b : unit -> option bool) : option bool :=
  match a with Some true => b tt | Some false => Some false | None => None end.
Definition negM (a : option bool) : option bool := match a with Some b => Some (negb b) | None => None end.
Fixpoint anyM {A} (g : A -> option bool) (l : list A) : option bool :=
  match l with [] => Some false | x :: t => orM (g x) (fun _ => anyM g t) end.
Fixpoint allM {A} (g : A -> option bool) (l : list A) : option bool :=
  match l with [] => Some true | x :: t => andM (g x) (fun _ => allM g t) end.
Fixpoint rotl {A} (k : nat) (l : list A) : list A :=
  match k, l with S k', x :: t => rotl k' (t ++ [x]) | _, _ => l end.
Fixpoint zipallM {A} (g : A -> A -> option bool) (l r : list A) : option bool :=
  match l, r with
  | x :: l', y :: r' => andM (g x y) (fun _ => zipallM g l' r')
  | _, _ => Some true
  end.

Section Structural.
  (* rec l r = supertype_of(l, r) with less fuel *)
  Variable rec : ty -> ty -> option bool.

  (* (Refinement(l), Refinement(r)).  When the class of l is not above the class of r but what it refines is
     (Nat == {I: Int | I >= 0}, Bool), l is rewritten to a refinement of that class whose predicate is the conjunction
     `refined.pred & l.pred` and the arm is entered again.  Then the possible_tps shortcut (fires only for a predicate
     that is literally True, where is_super_pred_of is true as well) and is_super_pred_of.  On the normal forms
     is_super_pred_of(q & p, r) == is_super_pred_of(q, r) && is_super_pred_of(p, r) for q the predicate of Nat or Bool:
     against an Equal / Or of Equal every conjunct is tested ((And(l, r), rhs), (lhs, Or)); against an interval the
     (And, And) arm first reduces comparable conjuncts to the strongest one, then matches >= with >=, <= with <=. *)
  Definition ref_ref (lb : ty) (lp : rpred) (rb : ty) (rp : rpred) : option bool :=
    match rec lb rb with
    | None => None
    | Some true => Some (is_super_pred lp rp)
    | Some false =>
      let (b, q) := into_refinement lb in
      andM (rec b rb) (fun _ => Some (is_super_pred q rp && is_super_pred lp rp))
    end.

  Definition structural (l r : ty) : option bool :=
    (* the two rules tried first: T :> (A and B) if T :> A or T :> B; (A or B) :> T if A :> T or B :> T *)
    orM (match r with TAnd rs => anyM (fun a => rec l a) rs | _ => Some false end) (fun _ =>
    orM (match l with TOr ls => anyM (fun o => rec o r) ls | _ => Some false end) (fun _ =>
    match l, r with
    (* (Type | ClassType | TraitType, Poly List): Type :> List(T) == Type :> T *)
    | TMono _, TList e _ => if is_meta l then rec l e else Some false
    | TRef lb lp, TRef rb rp => ref_ref lb lp rb rp
    (* (Nat | Bool, Refinement) *)
    | TMono _, TRef rb rp =>
      if is_natbool l then let (b, p) := into_refinement l in ref_ref b p rb rp
      else
        (* (l, Refinement(r)) *)
        if is_none_enum rp then rec l (TMono id_NoneType)
        else orM (rec l rb) (fun _ =>
             andM (negM (rec rb l)) (fun _ =>
             rec (derefine l) rb))          (* then {_: l | True} :> r, which asks l :> r.t again: false *)
    (* (Refinement, Nat | Bool) *)
    | TRef lb lp, TMono _ =>
      if is_natbool r then let (b, p) := into_refinement r in ref_ref lb lp b p
      else if pred_can_be_false lp then Some false else rec lb r
    | TAnd ls, TRef _ _ => allM (fun a => rec a r) ls
    (* (l, Refinement(r)) for a union: its members were tried by the first rule; the derefine step is skipped *)
    | TOr _, TRef rb rp =>
      if is_none_enum rp then rec l (TMono id_NoneType)
      else orM (rec l rb) (fun _ => andM (negM (rec rb l)) (fun _ => Some false))
    | _, TRef rb rp =>
      if is_none_enum rp then rec l (TMono id_NoneType)
      else orM (rec l rb) (fun _ =>
           andM (negM (rec rb l)) (fun _ =>
           rec (derefine l) rb))
    | TRef _ _, TOr rs => allM (fun o => rec l o) rs
    | TRef lb lp, _ => if pred_can_be_false lp then Some false else rec lb r
    | TOr ls, TOr rs => allM (fun o => anyM (fun k => rec k o) ls) rs
    | TNot x, TNot y => rec y x
    | TOr ls, _ => anyM (fun o => rec o r) ls
    | _, TOr rs => allM (fun o => rec l o) rs
    | TAnd ls, TAnd rs =>
      orM (anyM (fun a => allM (fun k => rec k a) ls) rs) (fun _ =>
      orM (if Nat.eqb (length ls) (length rs)
           then anyM (fun k => zipallM rec ls (rotl k rs)) (seq 0 (length rs))
           else Some false) (fun _ =>
      allM (fun k => rec k r) ls))
    | TAnd ls, _ => allM (fun a => rec a r) ls
    | _, TAnd rs => anyM (fun a => rec l a) rs
    | TNot _, TObj => Some false
    | TNot x, _ => negM (rec x r)
    | TList le ln, TList re rn => andM (rec le re) (fun _ => Some (len_ok ln rn))
    | _, _ => Some false
    end)).

  (* _nominal_supertype_of over one list of super types: cheap first, structural when cheap is (Maybe, _) *)
  Definition scan (l : ty) (sups : list (Z * bool)) : option bool :=
    anyM (fun s => let t := ty_of_sup s in
                   match cheap l t with
                   | Some b => Some b
                   | None => structural l t
                   end) sups.

  (* nominal_supertype_of = classes_supertype_of, then traits_supertype_of *)
  Definition nominal (l r : ty) : option bool :=
    match ctx_of r with
    | None => Some false
    | Some row =>
      orM (if is_class l && is_class r then scan l (row_sc row) else Some false) (fun _ =>
      if is_trait l then orM (scan l (row_st row)) (fun _ => scan l (row_sc row)) else Some false)
    end.
End Structural.

(* Context::supertype_of *)
Fixpoint sup (n : nat) (l r : ty) {struct n} : option bool :=
  match n with
  | O => None
  | S n' =>
    match cheap l r with
    | Some b => Some b
    | None => orM (structural (sup n') l r) (fun _ => nominal (sup n') l r)
    end
  end.

Definition fuel_of (l r : ty) : nat := S (size l + size r).

(* Context::subtype_of(s, t) = supertype_of(t, s) (cheap_subtype_of, structural_subtype_of, nominal_subtype_of swap) *)
Definition sub_res (s t : ty) : option bool := sup (fuel_of t s) t s.
Definition sub (s t : ty) : bool := match sub_res s t with Some b => b | None => false end.

(* ------------------------------------------------------------------ constructors (ty/constructors.rs, ty/mod.rs) *)
(* v_enum: the class is the class of the first literal (inner_class) *)
Definition enum_ty (ls : list lit) : ty :=
  TRef (match ls with [] => TNever | l :: _ => ty_of_id (lit_class l) end) (PEnum ls).

Inductive iop := IClosed | ILeftOpen | IRightOpen | IOpen.
(* interval(op, base, lo, hi) with integer bounds *)
Definition interval_ty (base : ty) (op : iop) (lo hi : Z) : ty :=
  TRef base (match op with
             | IClosed => PIval (BVal (LInt lo)) (BVal (LInt hi))
             | ILeftOpen => PIval (BSucc lo) (BVal (LInt hi))
             | IRightOpen => PIval (BVal (LInt lo)) (BPred hi)
             | IOpen => PIval (BSucc lo) (BPred hi)
             end).

Definition mem_ty (x : ty) (l : list ty) : bool := existsb (ty_eqb x) l.
Definition set_add (x : ty) (l : list ty) : list ty := if mem_ty x l then l else l ++ [x].

(* Type::bitor (constructors::or) *)
Definition or_ty (a b : ty) : ty :=
  match a, b with
  | TOr l, TOr r => TOr (fold_left (fun acc x => set_add x acc) r l)
  | TObj, _ | _, TObj => TObj
  | TNever, o | o, TNever => o
  | TOr l, r => TOr (set_add r l)
  | l, TOr r => TOr (set_add l r)
  | l, r => if ty_eqb l r then l else TOr [l; r]
  end.

(* Type::bitand (constructors::and) *)
Definition and_ty (a b : ty) : ty :=
  match a, b with
  | TAnd l, TAnd r => TAnd (l ++ r)
  | TObj, o | o, TObj => o
  | TNever, _ | _, TNever => TNever
  | TAnd l, r => TAnd (if mem_ty r l then l else l ++ [r])
  | l, TAnd r => TAnd (if mem_ty l r then r else r ++ [l])
  | l, r => TAnd [l; r]
  end.
