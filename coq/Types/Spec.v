(** C06 — the property: a set-theoretic reading of the types (what values a type admits), the laws the property
    names, and the executable judge that is applied to the implementation's answers.

    Values: booleans, integers, floats (in tenths), strings, None and lists of them.
    Reading of the builtin classes (the "tower inclusions by definition", as ty/mod.rs into_refinement documents them:
    Nat == {x: Int | x >= 0}, Bool == {x: Int | x >= False and x <= True}, True == 1):
      Bool  = the integers 0 and 1 (as booleans or as integers)
      Nat   = the integers >= 0           Int = Ratio = the integers (there are no ratio literals)
      Float = Complex = the integers and the floats
      Str, NoneType = strings, None
    Any other nominal type (a trait such as Eq, a class such as Exception) admits the values of the value classes that
    are declared below it in the builtin context (coq/gen/Classes.v): that is what nominal typing means. *)
From Coq Require Import ZArith List Bool Arith.
From ErgV Require Import gen.Classes Types.Model.
Import ListNotations.
Open Scope Z_scope.

Inductive value :=
| VBool (b : bool)
| VInt (z : Z)
| VFloat (q : Z)            (* q/10 *)
| VStr (s : list Z)
| VNone
| VList (l : list value).

(* the number a value is, in tenths *)
Definition val_num (v : value) : option Z :=
  match v with
  | VBool b => Some (if b then 10 else 0)
  | VInt z => Some (10 * z)
  | VFloat q => Some q
  | _ => None
  end.
Definition val_int (v : value) : option Z :=
  match v with
  | VBool b => Some (if b then 1 else 0)
  | VInt z => Some z
  | _ => None
  end.

(* v == l: numbers by value (True == 1 == 1.0), strings and None with themselves *)
Definition lit_matches (l : lit) (v : value) : bool :=
  match lit_num l, val_num v with
  | Some a, Some b => a =? b
  | _, _ => match l, v with
            | LStr a, VStr b => zs_eqb a b
            | LNone, VNone => true
            | _, _ => false
            end
  end.

Definition value_classes : list Z :=
  [id_Bool; id_Nat; id_Int; id_Ratio; id_Float; id_Complex; id_Str; id_NoneType; id_GenericList].

(* the values of a value class *)
Definition prim (c : Z) (v : value) : bool :=
  if c =? id_Bool then match val_int v with Some z => (z =? 0) || (z =? 1) | None => false end
  else if c =? id_Nat then match val_int v with Some z => 0 <=? z | None => false end
  else if (c =? id_Int) || (c =? id_Ratio) then match val_int v with Some _ => true | None => false end
  else if (c =? id_Float) || (c =? id_Complex) then match val_num v with Some _ => true | None => false end
  else if c =? id_Str then match v with VStr _ => true | _ => false end
  else if c =? id_NoneType then match v with VNone => true | _ => false end
  else if c =? id_GenericList then match v with VList _ => true | _ => false end
  else false.

(* A nominal type (also a super type with arguments, TPoly) admits the values of the value classes that are declared
   below it: the upward closure of a value class along the super-type lists of coq/gen/Classes.v and the tower
   Bool < Nat < Int < Ratio < Float < Complex (and ClassType, TraitType < Type) that cheap_supertype_of hard-wires.
   A node is (id of the head, has type arguments). *)
Definition node := (Z * bool)%type.
Definition node_eqb (a b : node) : bool := (fst a =? fst b) && Bool.eqb (snd a) (snd b).
Definition tower_edges : list (Z * Z) :=
  [(id_Bool, id_Nat); (id_Nat, id_Int); (id_Int, id_Ratio); (id_Ratio, id_Float); (id_Float, id_Complex);
   (id_ClassType, id_Type); (id_TraitType, id_Type)].
Definition succs (n : node) : list node :=
  match lookup (fst n) with Some r => row_sc r ++ row_st r | None => [] end ++
  (if snd n then [] else map (fun e => (snd e, false)) (filter (fun e => fst e =? fst n) tower_edges)).
Definition node_mem (n : node) (l : list node) : bool := existsb (node_eqb n) l.
Definition node_add (l : list node) (n : node) : list node := if node_mem n l then l else l ++ [n].
Fixpoint up_iter (fuel : nat) (seen : list node) : list node :=
  match fuel with
  | O => seen
  | S f => up_iter f (fold_left (fun acc n => fold_left node_add (succs n) acc) seen seen)
  end.
(* 12 rounds are enough for the table (checked: Proofs, up_closed) *)
Definition ups : list (Z * list node) := map (fun k => (k, up_iter 12 [(k, false)])) value_classes.
Definition node_of (t : ty) : option node :=
  match t with TMono c => Some (c, false) | TPoly h => Some (h, true) | _ => None end.
Definition den_nom (t : ty) (v : value) : bool :=
  match node_of t with
  | Some n => existsb (fun ku => prim (fst ku) v && node_mem n (snd ku)) ups
  | None => false
  end.

Definition bound_num (b : bound) : option Z := lit_num (bound_lit b).

Definition den_pred (p : rpred) (v : value) : bool :=
  match p with
  | PTrue => true
  | PGe b => match bound_num b, val_num v with Some a, Some x => a <=? x | _, _ => false end
  | PEnum ls => existsb (fun l => lit_matches l v) ls
  | PIval lo hi => match bound_num lo, bound_num hi, val_num v with
                   | Some a, Some b, Some x => (a <=? x) && (x <=? b)
                   | _, _, _ => false
                   end
  end.

Fixpoint den (t : ty) (v : value) {struct t} : bool :=
  match t with
  | TNever => false
  | TObj => true
  | TMono _ | TPoly _ => den_nom t v
  | TRef b p => den b v && den_pred p v
  | TOr l => (fix any (l : list ty) : bool := match l with [] => false | x :: r => den x v || any r end) l
  | TAnd l => (fix all (l : list ty) : bool := match l with [] => true | x :: r => den x v && all r end) l
  | TNot x => negb (den x v)
  | TList e n => match v with
                 | VList vs => forallb (den e) vs &&
                               match n with Some k => Z.of_nat (length vs) =? k | None => true end
                 | _ => false
                 end
  end.

(* ------------------------------------------------------------------ well-formed types: what the constructors build *)
Definition i32_ok (z : Z) : bool := (-2147483648 <=? z) && (z <=? 2147483647).
Definition lit_ok (l : lit) : bool :=
  match l with LInt z => i32_ok z | LFloat q => i32_ok q | _ => true end.

Fixpoint nodup_lits (ls : list lit) : bool :=
  match ls with [] => true | x :: r => negb (existsb (lit_eqb x) r) && nodup_lits r end.

Definition int_bound (b : bound) : option Z :=
  match b with
  | BVal (LInt z) => Some z
  | BSucc z => Some (z + 1)
  | BPred z => Some (z - 1)
  | _ => None
  end.

(* a refinement as v_enum / interval build it: the class is the class of the literals; Nat only for bounds >= 0 *)
Definition wf_ref (c : Z) (p : rpred) : bool :=
  match p with
  | PEnum ls => negb (match ls with [] => true | _ => false end) && forallb (fun l => (lit_class l =? c) && lit_ok l) ls
                && nodup_lits ls
  | PIval lo hi => match int_bound lo, int_bound hi with
                   | Some a, Some b => i32_ok a && i32_ok b && ((c =? id_Int) || ((c =? id_Nat) && (0 <=? a)))
                   | _, _ => false
                   end
  | _ => false
  end.

Definition registered_mono (c : Z) : bool :=
  match lookup c with
  | Some (_, _, (p, _, _), _, _) => negb p && negb (c =? id_Obj) && negb (c =? id_Never)
  | None => false
  end.

Definition is_or (t : ty) := match t with TOr _ => true | _ => false end.
Definition is_and (t : ty) := match t with TAnd _ => true | _ => false end.
Definition is_top_bot (t : ty) := match t with TObj | TNever => true | _ => false end.

Fixpoint nodup_tys (l : list ty) : bool :=
  match l with [] => true | x :: r => negb (existsb (ty_eqb x) r) && nodup_tys r end.

Fixpoint wf (t : ty) : bool :=
  match t with
  | TNever | TObj => true
  | TMono c => registered_mono c
  | TPoly _ => false
  | TRef (TMono c) p => existsb (Z.eqb c) value_classes && negb (c =? id_GenericList) && wf_ref c p
  | TRef _ _ => false
  | TOr l => (2 <=? length l)%nat && nodup_tys l &&
             (fix all (l : list ty) : bool :=
                match l with [] => true | x :: r => wf x && negb (is_or x) && negb (is_top_bot x) && all r end) l
  | TAnd l => (2 <=? length l)%nat &&
              (fix all (l : list ty) : bool :=
                 match l with [] => true | x :: r => wf x && negb (is_and x) && negb (is_top_bot x) && all r end) l
  | TNot x => wf x
  | TList e n => wf e && match n with Some k => 0 <=? k | None => true end
  end.

(* the fragment for which soundness w.r.t. [den] is proved: classes and traits, refinements, unions, intersections
   (no negation, no containers; these are covered by the correspondence and by the laws) *)
Fixpoint frag (t : ty) : bool :=
  match t with
  | TNever | TObj => true
  | TMono c => registered_mono c
  | TPoly _ => false
  | TRef (TMono c) p => existsb (Z.eqb c) value_classes && negb (c =? id_GenericList) && wf_ref c p
  | TRef _ _ => false
  | TOr l | TAnd l => (fix all (l : list ty) : bool := match l with [] => true | x :: r => frag x && all r end) l
  | TNot _ | TList _ _ => false
  end.

(* the sub-fragment on which the judgement is also complete for [den] (so that transitivity follows from set
   inclusion): Never, Obj, the value classes that have a value of their own, and unions of them *)
Definition chain_classes : list Z := [id_Bool; id_Nat; id_Int; id_Float; id_Str; id_NoneType].
Definition is_chain (t : ty) : bool := match t with TMono c => existsb (Z.eqb c) chain_classes | _ => false end.
Definition cfrag (t : ty) : bool :=
  match t with
  | TNever | TObj => true
  | TMono _ => is_chain t
  | TOr l => forallb is_chain l
  | _ => false
  end.

(* ------------------------------------------------------------------ the laws, as queries on a subtype oracle *)
Definition tower : list Z := [id_Bool; id_Nat; id_Int; id_Ratio; id_Float; id_Complex].

(* all pairs (lower, higher) of the tower *)
Fixpoint tower_pairs (l : list Z) : list (ty * ty) :=
  match l with
  | [] => []
  | x :: r => map (fun y => (TMono x, TMono y)) r ++ tower_pairs r
  end.

(* the query whose answer must be true *)
Definition q_refl (t : ty) : ty * ty := (t, t).
Definition q_never (t : ty) : ty * ty := (TNever, t).
Definition q_obj (t : ty) : ty * ty := (t, TObj).
Definition q_or_intro (t u : ty) : ty * ty := (t, or_ty t u).
Definition q_and_elim (t u : ty) : ty * ty := (and_ty t u, t).
Definition q_singleton (ls : list lit) : ty * ty :=
  (enum_ty ls, match ls with [] => TNever | l :: _ => ty_of_id (lit_class l) end).

(* transitivity on three answers *)
Definition judge_trans (st tu su : bool) : bool := implb (st && tu) su.

(* ------------------------------------------------------------------ known classes of failing transitivity instances
   (known/C06.json).  0: not a known class. *)
Fixpoint has_not (t : ty) : bool :=
  match t with
  | TNot _ => true
  | TRef b _ => has_not b
  | TOr l | TAnd l => (fix any (l : list ty) : bool := match l with [] => false | x :: r => has_not x || any r end) l
  | TList e _ => has_not e
  | _ => false
  end.
(* a List whose length is erased / given *)
Fixpoint has_list (erased : bool) (t : ty) : bool :=
  match t with
  | TList e n => (match n with None => erased | Some _ => negb erased end) || has_list erased e
  | TRef b _ => has_list erased b
  | TOr l | TAnd l => (fix any (l : list ty) : bool := match l with [] => false | x :: r => has_list erased x || any r end) l
  | TNot x => has_list erased x
  | _ => false
  end.
(* the nominal types a type mentions *)
Fixpoint leaves (t : ty) : list Z :=
  match t with
  | TMono c => [c]
  | TRef b _ => leaves b
  | TOr l | TAnd l => (fix go (l : list ty) : list Z := match l with [] => [] | x :: r => leaves x ++ go r end) l
  | TNot x => leaves x
  | TList e _ => leaves e
  | _ => []
  end.
(* c is declared above a through a chain of super-type lists (and the tower) *)
Definition reach (a c : Z) : bool := node_mem (c, false) (up_iter 12 [(a, false)]).
(* ... but the judgement does not see it: the super-type lists of a are not transitively closed *)
Definition mono_gap (a c : Z) : bool := reach a c && negb (sub (TMono a) (ty_of_id c)).

Definition known_trans (s m t : ty) : Z :=
  if has_not s || has_not m || has_not t then 1                                   (* negation types *)
  else if has_list true m && (has_list false s || has_list false t) then 2       (* List(T, _) between List(T, n), List(T, k) *)
  else if (has_list true s || has_list false s) && existsb (fun c => existsb (Z.eqb c) [id_Type; id_ClassType; id_TraitType]) (leaves m)
       then 3                                                                     (* a list of types is a Type *)
  else if existsb (fun a => existsb (fun c => mono_gap a c) (leaves t)) (leaves s) then 4   (* super-type lists not closed *)
  else 0.
