(** extraction entry point for the C06 / C33 correspondence checks and judges *)
(* built before extraction (lib/vplib.py Model reads these names): ErgV.Common.Sx ErgV.gen.Classes ErgV.Types.Model ErgV.Types.Spec ErgV.Types.Match *)
From Coq Require Import ZArith List Bool Arith.
From ErgV Require Import Common.Sx gen.Classes Types.Model Types.Spec Types.Match.
Import ListNotations.
Open Scope Z_scope.

(** wire format (pylib/types_gen.py; the harness takes names where the model takes class ids)
    type   T ::= (0) Never | (1) Obj | (2 id) builtin by id | (3 lit ...) enum (v_enum) | (4 op lo hi) int_interval
               | (5 T ...) fold with or | (6 T ...) fold with and | (7 T) not | (8 T) List(T, _) | (9 T n) List(T, n)
               | (10 T op lo hi) interval(op, T, lo, hi)
    lit    l ::= (0 z) | (1 code points) | (2 b) | (3) None | (4 q) Float q/10 *)
Definition dec_lit (x : sx) : lit :=
  let k := sx_z (sx_nth x 0) in
  if k =? 0 then LInt (sx_z (sx_nth x 1))
  else if k =? 1 then LStr (sx_zs (sx_nth x 1))
  else if k =? 2 then LBool (negb (sx_z (sx_nth x 1) =? 0))
  else if k =? 3 then LNone
  else LFloat (sx_z (sx_nth x 1)).

Definition dec_iop (k : Z) : iop :=
  if k =? 0 then IClosed else if k =? 1 then ILeftOpen else if k =? 2 then IRightOpen else IOpen.

Fixpoint dec_ty (x : sx) : ty :=
  match x with
  | SL (SZ k :: args) =>
    let ts := (fix go (l : list sx) : list ty := match l with [] => [] | a :: r => dec_ty a :: go r end) args in
    if k =? 0 then TNever
    else if k =? 1 then TObj
    else if k =? 2 then ty_of_id (sx_z (nth 0 args (SZ 0)))
    else if k =? 3 then enum_ty (map dec_lit args)
    else if k =? 4 then interval_ty (TMono id_Int) (dec_iop (sx_z (nth 0 args (SZ 0)))) (sx_z (nth 1 args (SZ 0))) (sx_z (nth 2 args (SZ 0)))
    else if k =? 5 then match ts with [] => TNever | t :: r => fold_left or_ty r t end
    else if k =? 6 then match ts with [] => TObj | t :: r => fold_left and_ty r t end
    else if k =? 7 then TNot (nth 0 ts TNever)
    else if k =? 8 then TList (nth 0 ts TNever) None
    else if k =? 9 then TList (nth 0 ts TNever) (Some (sx_z (nth 1 args (SZ 0))))
    else if k =? 10 then interval_ty (nth 0 ts TNever) (dec_iop (sx_z (nth 1 args (SZ 0)))) (sx_z (nth 2 args (SZ 0))) (sx_z (nth 3 args (SZ 0)))
    else TNever
  | _ => TNever
  end.

Definition enc_ob (o : option bool) : sx := match o with Some b => sx_bool b | None => SZ (-998) end.

Definition dec_val_flat (x : sx) : value :=
  let k := sx_z (sx_nth x 0) in
  if k =? 0 then VInt (sx_z (sx_nth x 1))
  else if k =? 1 then VStr (sx_zs (sx_nth x 1))
  else if k =? 2 then VBool (negb (sx_z (sx_nth x 1) =? 0))
  else if k =? 3 then VNone
  else VFloat (sx_z (sx_nth x 1)).

(** value  v ::= (0 z) | (1 code points) | (2 b) | (3) | (4 q) | (5 v ...) list (one level of nesting is enough here) *)
Definition dec_val (x : sx) : value :=
  if sx_z (sx_nth x 0) =? 5 then VList (map dec_val_flat (tl (sx_l x))) else dec_val_flat x.

(** arm  a ::= (0 lit) literal pattern | (1 T) type pattern `_: T` | (2) wildcard *)
Definition dec_arm (x : sx) : arm :=
  let k := sx_z (sx_nth x 0) in
  if k =? 0 then ALit (dec_lit (sx_nth x 1))
  else if k =? 1 then ATy (dec_ty (sx_nth x 1))
  else AWild.

(** modes
    (0 (T ...))            -> ((b ...) ...)  row i, column j: sub T_i T_j     (1 true, 0 false, -998 out of fuel)
    (1 (S ...) (T ...))    -> ((b ...) ...)  row i, column j: sub S_i T_j
    (2 T (v ...))          -> (b ...)        den T v
    (3 T (arm ...) (v ...))-> (acc (d ...) (i ...))   C33: acc = accepted T arms (1, 0, -1: union outside the model),
                                                        d = den T v, i = rt_select arms (rt_wrap T v) (the arm the model runs for v)
    (4 (arm ...) ((i v) ...)) -> ((j k) ...)  C33: j = judge_arm arms i v (the arm that ran matches v), k = known_bool_int
    (5 (T ...))            -> ((w f) ...)    wf T (what the constructors build), frag T (the fragment of sub_sound)
    (6 (S M T) ...)        -> (k ...)        known_trans S M T: the known class of a failing transitivity instance, 0 none *)
Definition run (x : sx) : sx :=
  let mode := sx_z (sx_nth x 0) in
  if mode =? 0 then
    let ts := map dec_ty (sx_l (sx_nth x 1)) in
    SL (map (fun s => SL (map (fun t => enc_ob (sub_res s t)) ts)) ts)
  else if mode =? 1 then
    let ss := map dec_ty (sx_l (sx_nth x 1)) in
    let ts := map dec_ty (sx_l (sx_nth x 2)) in
    SL (map (fun s => SL (map (fun t => enc_ob (sub_res s t)) ts)) ss)
  else if mode =? 2 then
    let t := dec_ty (sx_nth x 1) in
    SL (map (fun v => sx_bool (den t (dec_val v))) (sx_l (sx_nth x 2)))
  else if mode =? 3 then
    let t := dec_ty (sx_nth x 1) in
    let arms := map dec_arm (sx_l (sx_nth x 2)) in
    let vs := map dec_val (sx_l (sx_nth x 3)) in
    SL [match accepted t arms with Some b => sx_bool b | None => SZ (-1) end;
        SL (map (fun v => sx_bool (den t v)) vs);
        SL (map (fun v => SZ (rt_select arms (rt_wrap t v))) vs)]
  else if mode =? 4 then
    let arms := map dec_arm (sx_l (sx_nth x 1)) in
    SL (map (fun q => let i := sx_z (sx_nth q 0) in let v := dec_val (sx_nth q 1) in
                      SL [sx_bool (judge_arm arms i v); sx_bool (known_bool_int arms v)]) (sx_l (sx_nth x 2)))
  else if mode =? 5 then
    SL (map (fun t => SL [sx_bool (wf (dec_ty t)); sx_bool (frag (dec_ty t))]) (sx_l (sx_nth x 1)))
  else
    SL (map (fun q => SZ (known_trans (dec_ty (sx_nth q 0)) (dec_ty (sx_nth q 1)) (dec_ty (sx_nth q 2)))) (tl (sx_l x))).

Require Extraction.
Require Import ExtrOcamlBasic.
Extraction Language OCaml.
Extraction "model.ml" run.
