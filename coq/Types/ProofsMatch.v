(** C33 — an accepted match covers the scrutinee type; the run-time arm test decides the pattern type *)
From Coq Require Import ZArith List Bool Arith Lia.
From ErgV Require Import gen.Classes Types.Model Types.Spec Types.Match Types.ProofsBasic Types.ProofsLaws Types.ProofsPred
  Types.ProofsDen Types.ProofsInv Types.ProofsSound.
Import ListNotations.
Open Scope Z_scope.

(* ------------------------------------------------------------------ the union of the pattern types adds no value *)
Lemma den_or_in l v : den (TOr l) v = true -> exists x, In x l /\ den x v = true.
Proof. rewrite den_or. intros H. apply existsb_exists in H. exact H. Qed.
Lemma den_or_intro l x v : In x l -> den x v = true -> den (TOr l) v = true.
Proof. intros Hx Hd. rewrite den_or. apply existsb_exists. eauto. Qed.

Lemma in_set_add x y l : In x (set_add y l) -> In x l \/ x = y.
Proof.
  unfold set_add. destruct (mem_ty y l); [auto|]. intros H. apply in_app_or in H. destruct H as [H|[H|[]]]; auto.
Qed.
Lemma in_fold_set_add r l x : In x (fold_left (fun acc y => set_add y acc) r l) -> In x l \/ In x r.
Proof.
  revert l. induction r as [|y r IH]; intros l H; [auto|]. cbn in H. apply IH in H. destruct H as [H|H].
  - apply in_set_add in H. destruct H as [H| ->]; cbn; auto.
  - cbn. auto.
Qed.

Ltac t_in v :=
  repeat match goal with
         | Hi : In _ (set_add _ _) |- _ => apply in_set_add in Hi; destruct Hi as [Hi|Hi]; [|subst]
         | Hi : In _ (fold_left _ _ _) |- _ => apply in_fold_set_add in Hi; destruct Hi as [Hi|Hi]
         | Hi : In _ [_; _] |- _ => destruct Hi as [Hi|[Hi|[]]]; subst
         end;
  match goal with
  | Hd : den ?x v = true |- den ?x v = true \/ _ => left; exact Hd
  | Hd : den ?x v = true |- _ \/ den ?x v = true => right; exact Hd
  | Hi : In ?x ?l, Hd : den ?x v = true |- den (TOr ?l) v = true \/ _ => left; exact (den_or_intro l x v Hi Hd)
  | Hi : In ?x ?l, Hd : den ?x v = true |- _ \/ den (TOr ?l) v = true => right; exact (den_or_intro l x v Hi Hd)
  end.

Ltac t_or v :=
  match goal with
  | |- den (if ?c then _ else _) v = true -> _ => destruct c; t_or v
  | |- den ?a v = true -> den ?a v = true \/ _ => intros H; left; exact H
  | |- den ?b v = true -> _ \/ den ?b v = true => intros H; right; exact H
  | |- _ -> den TObj v = true \/ _ => intros _; left; reflexivity
  | |- _ -> _ \/ den TObj v = true => intros _; right; reflexivity
  | |- den (TOr _) v = true -> _ =>
    let H := fresh "H" in let x := fresh "x" in let Hin := fresh "Hin" in let Hd := fresh "Hd" in
    intros H; apply den_or_in in H; destruct H as [x [Hin Hd]]; t_in v
  end.

Lemma den_or_ty a b v : den (or_ty a b) v = true -> den a v = true \/ den b v = true.
Proof. destruct a, b; cbn [or_ty]; t_or v. Qed.

Lemma simple_union_den a b v : den (simple_union a b) v = true -> den a v = true \/ den b v = true.
Proof. unfold simple_union. destruct (sub b a); [auto|]. destruct (sub a b); [auto|]. apply den_or_ty. Qed.

Lemma union_add_den l e v : den (union_add l e) v = true -> den (TOr l) v = true \/ den e v = true.
Proof. unfold union_add. destruct (existsb _ l); [auto|]. apply den_or_ty. Qed.

Lemma union_pred_den p q r v : union_pred p q = Some r -> den_pred r v = true -> den_pred p v = true \/ den_pred q v = true.
Proof.
  unfold union_pred. destruct (is_super_pred p q); [intros H; injection H as <-; auto|].
  destruct (is_super_pred q p); [intros H; injection H as <-; auto|].
  destruct p, q; try discriminate. intros H. injection H as <-. cbn [den_pred]. rewrite existsb_app. intros H.
  apply orb_prop in H. destruct H as [H|H]; [auto|]. right. apply existsb_exists in H. destruct H as [x [Hx Hm]].
  apply filter_In in Hx. apply existsb_exists. exists x. tauto.
Qed.

Lemma union_ty_den a b u v : union_ty a b = Some u -> den u v = true -> den a v = true \/ den b v = true.
Proof.
  unfold union_ty. destruct (ty_eqb a b); [intros H; injection H as <-; auto|].
  destruct a, b; intros H Hd;
    repeat match type of H with
           | Some _ = Some _ => injection H as <-
           | None = Some _ => discriminate H
           | (if ?c then _ else _) = Some _ => destruct c eqn:?
           | match ?x with _ => _ end = Some _ => destruct x eqn:?
           end;
    try (now auto);
    try (apply simple_union_den in Hd; tauto);
    try (apply union_add_den in Hd; tauto);
    try (apply union_add_den in Hd; destruct Hd; auto).
  (* refinement / refinement on the same class *)
  cbn [den] in Hd |- *. apply andb_prop in Hd. destruct Hd as [Hb Hp].
  match goal with E : union_pred _ _ = Some _ |- _ => destruct (union_pred_den _ _ _ v E Hp) as [Hq|Hq] end.
  - left. now rewrite Hb, Hq.
  - right.
    match goal with E : ty_eqb ?x ?y && is_plain ?x && is_plain ?y = true |- _ =>
      apply andb_prop in E; destruct E as [E P2]; apply andb_prop in E; destruct E as [E P1];
      assert (Heq : x = y) by (destruct x; try discriminate P1; destruct y; cbn in E; try discriminate P2; try discriminate E;
                               auto; apply Z.eqb_eq in E; now subst);
      rewrite <- Heq
    end.
    now rewrite Hb, Hq.
Qed.

Lemma union_arms_from_den acc arms u v :
  union_arms_from acc arms = Some u -> den u v = true ->
  den acc v = true \/ exists a, In a arms /\ den (arm_ty a) v = true.
Proof.
  revert acc. induction arms as [|a r IH]; intros acc H Hd; cbn in H.
  - injection H as <-. auto.
  - destruct (union_ty acc (arm_ty a)) as [w|] eqn:E; [|discriminate].
    destruct (IH w H Hd) as [Hw|[a' [Ha' Hd']]].
    + destruct (union_ty_den _ _ _ v E Hw) as [Hacc|Harm]; [auto|]. right. exists a. cbn. auto.
    + right. exists a'. cbn. auto.
Qed.

(* an accepted match covers every value of the scrutinee type *)
Lemma match_exhaustive_l T arms u :
  frag T = true -> union_arms arms = Some u -> frag u = true -> sub T u = true ->
  forall v, den T v = true -> exists a, In a arms /\ den (arm_ty a) v = true.
Proof.
  intros HT Hu Hfu Hs v Hd. pose proof (sub_sound_l T u HT Hfu Hs v Hd) as Hdu.
  destruct (union_arms_from_den TNever arms u v Hu Hdu) as [H|H]; [discriminate H|exact H].
Qed.

(* ------------------------------------------------------------------ the run-time arm test decides the pattern type *)
(* the Int / Str / Bool fragment of C33 *)
Definition c33_classes : list Z := [id_Bool; id_Nat; id_Int; id_Str; id_NoneType].
Fixpoint c33_ty (t : ty) : bool :=
  match t with
  | TObj => true
  | TMono c => existsb (Z.eqb c) c33_classes
  | TRef (TMono c) p => existsb (Z.eqb c) c33_classes && wf_ref c p
  | TOr l => (fix all (l : list ty) : bool := match l with [] => true | x :: r => c33_ty x && all r end) l
  | _ => false
  end.
Definition c33_val (v : value) : bool := match v with VFloat _ | VList _ => false | _ => true end.
Definition c33_lit (l : lit) : bool := match l with LFloat _ => false | l => lit_ok l end.

(* the known class: a type that mentions Bool, at the integers 0 and 1 *)
Definition bool_int (t : ty) (v : value) : bool :=
  match v with VInt z => ((z =? 0) || (z =? 1)) && mentions_bool t | _ => false end.

Lemma c33_or l : c33_ty (TOr l) = forallb c33_ty l.
Proof. cbn [c33_ty]. induction l as [|x r IH]; [reflexivity|]. cbn [forallb]. now rewrite <- IH. Qed.
Lemma rt_in_or l v : rt_in (TOr l) v = existsb (fun x => rt_in x v) l.
Proof. cbn [rt_in]. induction l as [|x r IH]; [reflexivity|]. cbn [existsb]. now rewrite <- IH. Qed.
Lemma mentions_bool_or l : mentions_bool (TOr l) = existsb mentions_bool l.
Proof. cbn [mentions_bool]. induction l as [|x r IH]; [reflexivity|]. cbn [existsb]. now rewrite <- IH. Qed.

Lemma in_c33_vc c : In c c33_classes -> In c value_classes.
Proof. cbn. intuition. Qed.

(* a value that equals a literal of class c is a value of class c (no floats) *)
Lemma lit_class_den l v : c33_lit l = true -> c33_val v = true -> lit_matches l v = true -> den (TMono (lit_class l)) v = true.
Proof.
  intros Hl Hv Hm.
  assert (Hc : In (lit_class l) value_classes).
  { destruct l; cbn; try destruct (0 <=? z); cbn; auto 10. }
  rewrite (den_vc _ v Hc). destruct l as [z|s|b| |q]; try discriminate Hl.
  - unfold lit_matches in Hm. cbn [lit_num] in Hm. destruct v as [b|z'|q|s'| |l']; try discriminate Hv; try discriminate Hm.
    + cbn [val_num] in Hm. apply Z.eqb_eq in Hm.
      destruct b; [assert (z = 1) by lia|assert (z = 0) by lia]; subst z; reflexivity.
    + cbn [val_num] in Hm. apply Z.eqb_eq in Hm. assert (z = z') by lia. subst z'. cbn [lit_class].
      destruct (0 <=? z) eqn:E; [change (prim id_Nat (VInt z)) with (0 <=? z); exact E|reflexivity].
  - unfold lit_matches in Hm. cbn [lit_num] in Hm. destruct v; try discriminate Hv; try discriminate Hm; reflexivity.
  - unfold lit_matches in Hm. cbn [lit_num] in Hm. destruct v as [b'|z'|q|s'| |l']; try discriminate Hv; try discriminate Hm.
    + destruct b'; reflexivity.
    + cbn [val_num] in Hm. apply Z.eqb_eq in Hm. cbn [lit_class]. change (prim id_Bool (VInt z')) with ((z' =? 0) || (z' =? 1)).
      destruct b; [assert (z' = 1) by lia|assert (z' = 0) by lia]; subst; reflexivity.
  - unfold lit_matches in Hm. cbn [lit_num] in Hm. destruct v; try discriminate Hv; try discriminate Hm; reflexivity.
Qed.

Lemma rt_class_prim c v : In c c33_classes -> c33_val v = true -> bool_int (TMono c) v = false -> rt_class c v = prim c v.
Proof.
  intros Hc Hv Hk. cbn in Hc.
  repeat (destruct Hc as [<-|Hc]; [destruct v as [b|z|q|s| |l]; try discriminate Hv; try reflexivity; try (destruct b; reflexivity)|]);
    try contradiction.
  (* Bool at an integer *)
  unfold bool_int in Hk. change (mentions_bool (TMono id_Bool)) with true in Hk. rewrite andb_true_r in Hk.
  change (rt_class id_Bool (VInt z)) with false. change (prim id_Bool (VInt z)) with ((z =? 0) || (z =? 1)). now rewrite Hk.
Qed.

Lemma enum_rt_den c ls v :
  In c c33_classes -> wf_ref c (PEnum ls) = true -> c33_val v = true ->
  existsb (fun l => lit_matches l v) ls = den (TRef (TMono c) (PEnum ls)) v.
Proof.
  intros Hc Hw Hv. cbn [den den_pred]. destruct (existsb (fun l => lit_matches l v) ls) eqn:E; [|now rewrite andb_false_r].
  rewrite andb_true_r. symmetry. apply existsb_exists in E. destruct E as [l [Hl Hm]].
  unfold wf_ref in Hw. apply andb_prop in Hw. destruct Hw as [Hw _]. apply andb_prop in Hw. destruct Hw as [_ Hw].
  rewrite forallb_forall in Hw. specialize (Hw l Hl). apply andb_prop in Hw. destruct Hw as [Hcl Hok].
  apply Z.eqb_eq in Hcl. subst c. change (den_nom (TMono (lit_class l)) v) with (den (TMono (lit_class l)) v).
  apply lit_class_den; auto. destruct l; auto. exfalso. cbn in Hc. revert Hc. vm_compute. intuition discriminate.
Qed.

Lemma ival_rt_den c lo hi v :
  In c c33_classes -> wf_ref c (PIval lo hi) = true -> c33_val v = true ->
  den_pred (PIval lo hi) v = den (TRef (TMono c) (PIval lo hi)) v.
Proof.
  intros Hc Hw Hv. cbn [den]. destruct (den_pred (PIval lo hi) v) eqn:E; [|now rewrite andb_false_r].
  rewrite andb_true_r. symmetry. change (den_nom (TMono c) v) with (den (TMono c) v).
  (* the value is a number, hence (no floats) an integer; the class is Int, or Nat with a bound >= 0 *)
  assert (Hint : den (TMono id_Int) v = true).
  { rewrite (den_vc _ v in_vc_Int). cbn [den_pred] in E. destruct (bound_num lo); [|discriminate]. destruct (bound_num hi); [|discriminate].
    destruct v; try discriminate Hv; try discriminate E; reflexivity. }
  assert (Hc2 : c = id_Int \/ c = id_Nat).
  { unfold wf_ref in Hw. destruct (int_bound lo); [|discriminate]. destruct (int_bound hi); [|discriminate].
    apply andb_prop in Hw. destruct Hw as [_ Hw]. apply orb_prop in Hw. destruct Hw as [Hw|Hw].
    - apply Z.eqb_eq in Hw. auto.
    - apply andb_prop in Hw. destruct Hw as [Hn _]. apply Z.eqb_eq in Hn. auto. }
  destruct Hc2 as [-> | ->]; [exact Hint|]. now apply (nat_ref_ok (PIval lo hi) v).
Qed.

Lemma rt_in_den : forall t v, c33_ty t = true -> c33_val v = true -> bool_int t v = false -> rt_in t v = den t v.
Proof.
  induction t using ty_ind'; intros v Ht Hv Hk; try discriminate Ht.
  - reflexivity.
  - cbn [c33_ty] in Ht. apply existsb_exists in Ht. destruct Ht as [k [Hk1 Hk2]]. apply Z.eqb_eq in Hk2. subst k.
    cbn [rt_in]. rewrite (den_vc _ v (in_c33_vc c Hk1)). now apply rt_class_prim.
  - destruct t; try discriminate Ht. cbn [c33_ty] in Ht. apply andb_prop in Ht. destruct Ht as [Hc Hw].
    apply existsb_exists in Hc. destruct Hc as [k [Hk1 Hk2]]. apply Z.eqb_eq in Hk2. subst k.
    destruct p as [| |ls|lo hi]; try discriminate Hw.
    + cbn [rt_in]. now apply enum_rt_den.
    + cbn [rt_in]. now apply ival_rt_den.
  - rewrite c33_or in Ht. rewrite forallb_forall in Ht. rewrite Forall_forall in H. rewrite rt_in_or, den_or.
    assert (Hk' : forall x, In x l -> bool_int x v = false).
    { intros x Hx. unfold bool_int in *. destruct v; auto. rewrite mentions_bool_or in Hk.
      destruct ((z =? 0) || (z =? 1)); [|reflexivity]. cbn [andb] in *.
      destruct (mentions_bool x) eqn:E; [|reflexivity]. assert (existsb mentions_bool l = true) by (apply existsb_exists; eauto).
      congruence. }
    clear Hk. induction l as [|x r IHr]; [reflexivity|]. cbn [existsb].
    rewrite (H x (or_introl eq_refl) v (Ht x (or_introl eq_refl)) Hv (Hk' x (or_introl eq_refl))). f_equal.
    apply IHr; intros; [apply H|apply Ht|apply Hk']; cbn; auto.
Qed.

(* the run-time arm test decides the pattern type *)
Definition c33_arm (a : arm) : bool :=
  match a with ALit l => c33_lit l | ATy t => c33_ty t | AWild => true end.
Definition arm_bool_int (a : arm) (v : value) : bool := match a with ATy t => bool_int t v | _ => false end.

Lemma arm_test_exact_l a v :
  c33_arm a = true -> c33_val v = true -> arm_bool_int a v = false -> rt_test a v = den (arm_ty a) v.
Proof.
  destruct a as [l|t|]; cbn [c33_arm arm_bool_int rt_test arm_ty]; intros Ha Hv Hk.
  - unfold enum_ty. rewrite lit_class_mono. cbn [den den_pred existsb]. rewrite orb_false_r.
    destruct (lit_matches l v) eqn:E; [|now rewrite andb_false_r]. rewrite andb_true_r. symmetry.
    change (den_nom (TMono (lit_class l)) v) with (den (TMono (lit_class l)) v). now apply lit_class_den.
  - now apply rt_in_den.
  - reflexivity.
Qed.

(* ------------------------------------------------------------------ the known finding, in the model *)
(* x: {1} with the arms `_: Bool` and `_: Str` is accepted (Bool is read as {0, 1}); at run time the Bool test fails
   for the integer 1 and the last arm, Str, runs *)
Lemma match_bool_refuted_l :
  let arms := [ATy (TMono id_Bool); ATy (TMono id_Str)] in
  accepted (enum_ty [LInt 1]) arms = Some true /\ den (enum_ty [LInt 1]) (VInt 1) = true /\
  rt_select arms (VInt 1) = 1 /\ judge_arm arms 1 (VInt 1) = false /\ known_bool_int arms (VInt 1) = true.
Proof. vm_compute. repeat split; reflexivity. Qed.
