(** C06 — the syntactic laws: reflexivity, bottom, top, tower, or-introduction, and-elimination, singleton below class *)
From Coq Require Import ZArith List Bool Arith Lia.
From ErgV Require Import gen.Classes Types.Model Types.Spec.
From ErgV Require Import Types.ProofsBasic.
Import ListNotations.
Open Scope Z_scope.

Lemma supb_refl t : supb t t = true.
Proof.
  pose proof (supb_unfold t t) as H. unfold cheap in H. rewrite ty_eqb_refl in H. now inversion H.
Qed.

Lemma sub_refl_l t : sub t t = true.
Proof. exact (supb_refl t). Qed.

Lemma never_bot_l t : sub TNever t = true.
Proof.
  change (supb t TNever = true). pose proof (supb_unfold t TNever) as H. unfold cheap in H.
  destruct (ty_eqb t TNever); [now inversion H|]. destruct t; now inversion H.
Qed.

Lemma obj_top_l t : sub t TObj = true.
Proof.
  change (supb TObj t = true). pose proof (supb_unfold TObj t) as H. unfold cheap in H.
  destruct (ty_eqb TObj t); now inversion H.
Qed.

Lemma tower_l : forall a b, In (a, b) (tower_pairs tower) -> sub a b = true.
Proof.
  assert (H : forallb (fun ab => sub (fst ab) (snd ab)) (tower_pairs tower) = true) by (vm_compute; reflexivity).
  intros a b Hin. rewrite forallb_forall in H. exact (H (a, b) Hin).
Qed.

(* ------------------------------------------------------------------ or-introduction, and-elimination *)
Lemma cheap_or_l l r b : cheap (TOr l) r = Some b -> b = true.
Proof.
  unfold cheap. destruct (ty_eqb (TOr l) r); [now inversion 1|].
  destruct r; cbn; try congruence.
Qed.

Lemma cheap_and_r l rs b : cheap l (TAnd rs) = Some b -> b = true.
Proof.
  unfold cheap. destruct (ty_eqb l (TAnd rs)); [now inversion 1|].
  destruct l; cbn; rewrite ?andb_false_r; cbn; try congruence;
    repeat match goal with |- context [if ?c then _ else _] => destruct c; cbn; try congruence end.
Qed.

Lemma anyM_recb_true (f : ty -> option bool) l x :
  In x l -> f x = Some true -> (forall y, f y <> None) -> anyM f l = Some true.
Proof.
  intros Hin Hx Hn. induction l as [|y t IH]; [contradiction|]. cbn [anyM].
  destruct Hin as [->|Hin]; [now rewrite Hx|]. specialize (Hn y). destruct (f y) as [[|]|]; cbn; auto. congruence.
Qed.

Lemma recb_some l r : recb l r <> None.
Proof. unfold recb. congruence. Qed.

Lemma supb_or_mem l t : In t l -> supb (TOr l) t = true.
Proof.
  intros Hin. pose proof (supb_unfold (TOr l) t) as H.
  destruct (cheap (TOr l) t) as [b|] eqn:Hc.
  - apply cheap_or_l in Hc. subst. now inversion H.
  - assert (Hs : structural recb (TOr l) t = Some true).
    { unfold structural.
      assert (H1 : exists b, (match t with TAnd rs => anyM (fun a => recb (TOr l) a) rs | _ => Some false end) = Some b).
      { destruct t; eauto. destruct (anyM (fun a => recb (TOr l) a) l0) eqn:E; eauto.
        exfalso. revert E. apply anyM_some. intros; apply recb_some. }
      destruct H1 as [[|] ->]; [reflexivity|]. cbn [orM].
      rewrite (anyM_recb_true (fun o => recb o t) l t Hin); [reflexivity| |intros; apply recb_some].
      unfold recb. now rewrite supb_refl. }
    rewrite Hs in H. now inversion H.
Qed.

Lemma supb_and_mem l t : In t l -> supb t (TAnd l) = true.
Proof.
  intros Hin. pose proof (supb_unfold t (TAnd l)) as H.
  destruct (cheap t (TAnd l)) as [b|] eqn:Hc.
  - apply cheap_and_r in Hc. subst. now inversion H.
  - assert (Hs : structural recb t (TAnd l) = Some true).
    { unfold structural.
      rewrite (anyM_recb_true (fun a => recb t a) l t Hin); [reflexivity| |intros; apply recb_some].
      unfold recb. now rewrite supb_refl. }
    rewrite Hs in H. now inversion H.
Qed.

Lemma sub_or_intro_l t u : sub t (TOr [t; u]) = true.
Proof. apply supb_or_mem. cbn. auto. Qed.

Lemma sub_or_intro_r_l t u : sub u (TOr [t; u]) = true.
Proof. apply supb_or_mem. cbn. auto. Qed.

Lemma and_elim_l t u : sub (TAnd [t; u]) t = true.
Proof. apply supb_and_mem. cbn. auto. Qed.

Lemma and_elim_r_l t u : sub (TAnd [t; u]) u = true.
Proof. apply supb_and_mem. cbn. auto. Qed.

(* ------------------------------------------------------------------ singleton / enum below its class *)
Lemma supb_of_cheap l r b : cheap l r = Some b -> supb l r = b.
Proof. intros Hc. pose proof (supb_unfold l r) as H. rewrite Hc in H. now inversion H. Qed.

Lemma supb_of_structural l r : cheap l r = None -> structural recb l r = Some true -> supb l r = true.
Proof. intros Hc Hs. pose proof (supb_unfold l r) as H. rewrite Hc, Hs in H. now inversion H. Qed.

Lemma lit_class_mono l : ty_of_id (lit_class l) = TMono (lit_class l).
Proof. destruct l; cbn; try destruct (0 <=? z); reflexivity. Qed.

Lemma lit_class_nat l : lit_class l = id_Nat -> exists z, l = LInt z /\ 0 <= z.
Proof.
  destruct l; cbn; try (vm_compute; discriminate).
  destruct (0 <=? z) eqn:E; [|vm_compute; discriminate]. intros _. exists z. split; auto. lia.
Qed.
Lemma lit_class_bool l : lit_class l = id_Bool -> exists b, l = LBool b.
Proof.
  destruct l; cbn; try (vm_compute; discriminate); [|eauto].
  destruct (0 <=? z); vm_compute; discriminate.
Qed.
Lemma lit_class_none l : lit_class l = id_NoneType -> l = LNone.
Proof.
  destruct l; cbn; try (vm_compute; discriminate); [|auto].
  destruct (0 <=? z); vm_compute; discriminate.
Qed.

Lemma ge0_enum ls :
  (forall l, In l ls -> lit_class l = id_Nat) -> forallb (ge_eq (BVal (LInt 0))) ls = true.
Proof.
  intros H. apply forallb_forall. intros l Hl. destruct (lit_class_nat l (H l Hl)) as [z [-> Hz]].
  unfold ge_eq, bound_cmp, bound_eqb, lit_eqb. destruct (0 =? z) eqn:E; [reflexivity|].
  unfold bound_lit, lit_cmp, lit_eqb. rewrite E. cbn [lit_num]. apply Z.eqb_neq in E.
  assert (H0 : (10 * 0 ?= 10 * z) = Lt) by (apply Z.compare_lt_iff; lia). now rewrite H0.
Qed.

Lemma bool_enum ls :
  (forall l, In l ls -> lit_class l = id_Bool) ->
  forallb (fun x => ge_eq (BVal (LBool false)) x && le_eq (BVal (LBool true)) x) ls = true.
Proof.
  intros H. apply forallb_forall. intros l Hl. destruct (lit_class_bool l (H l Hl)) as [[|] ->]; reflexivity.
Qed.

Lemma wf_enum_inv ls :
  wf (enum_ty ls) = true ->
  exists l0 r, ls = l0 :: r /\ (forall l, In l ls -> lit_class l = lit_class l0).
Proof.
  unfold enum_ty. destruct ls as [|l0 r]; [discriminate|]. rewrite lit_class_mono. cbn [wf]. intros H.
  apply andb_prop in H. destruct H as [_ H]. unfold wf_ref in H. apply andb_prop in H. destruct H as [H _].
  apply andb_prop in H. destruct H as [_ H]. exists l0, r. split; [reflexivity|].
  intros l Hl. rewrite forallb_forall in H. specialize (H l Hl). apply andb_prop in H. destruct H as [H _].
  now apply Z.eqb_eq in H.
Qed.

Lemma singleton_below_class_l ls :
  wf (enum_ty ls) = true -> sub (fst (q_singleton ls)) (snd (q_singleton ls)) = true.
Proof.
  intros Hwf. destruct (wf_enum_inv ls Hwf) as [l0 [r [-> Hall]]].
  unfold q_singleton, enum_ty. cbn [fst snd]. rewrite lit_class_mono.
  change (supb (TMono (lit_class l0)) (TRef (TMono (lit_class l0)) (PEnum (l0 :: r))) = true).
  set (ls := l0 :: r) in *.
  destruct (is_natbool (TMono (lit_class l0))) eqn:Hnb.
  - (* Nat or Bool: the class is turned into a refinement of Int *)
    unfold is_natbool, is_c in Hnb. apply orb_prop in Hnb. destruct Hnb as [Hn|Hb].
    + apply Z.eqb_eq in Hn. rewrite Hn in *. apply supb_of_structural; [reflexivity|].
      unfold structural. cbn [orM]. change (is_natbool (TMono id_Nat)) with true. cbv iota.
      change (into_refinement (TMono id_Nat)) with (TMono id_Int, pred_nat). cbv iota beta.
      unfold ref_ref. replace (recb (TMono id_Int) (TMono id_Nat)) with (Some true) by (vm_compute; reflexivity).
      unfold pred_nat, is_super_pred. now rewrite ge0_enum.
    + apply Z.eqb_eq in Hb. rewrite Hb in *. apply supb_of_structural; [reflexivity|].
      unfold structural. cbn [orM]. change (is_natbool (TMono id_Bool)) with true. cbv iota.
      change (into_refinement (TMono id_Bool)) with (TMono id_Int, pred_bool). cbv iota beta.
      unfold ref_ref. replace (recb (TMono id_Int) (TMono id_Bool)) with (Some true) by (vm_compute; reflexivity).
      unfold pred_bool, is_super_pred. now rewrite bool_enum.
  - destruct (cheap (TMono (lit_class l0)) (TRef (TMono (lit_class l0)) (PEnum ls))) as [b|] eqn:Hc.
    + (* NoneType == {None} *)
      rewrite (supb_of_cheap _ _ _ Hc). revert Hc. unfold cheap. cbn [ty_eqb].
      destruct ((lit_class l0 =? id_NoneType) && is_none_enum (PEnum ls)); [now inversion 1|].
      cbn. rewrite ?andb_false_r. cbn. congruence.
    + apply supb_of_structural; [exact Hc|]. unfold structural. cbn [orM]. rewrite Hnb.
      destruct (is_none_enum (PEnum ls)) eqn:Hne.
      * unfold is_none_enum in Hne. subst ls. destruct l0; try discriminate. destruct r; [|discriminate].
        unfold recb. now rewrite supb_refl.
      * unfold recb at 1. now rewrite supb_refl.
Qed.
