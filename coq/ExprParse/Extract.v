(** extraction entry point for the C11 correspondence check and judge *)
From Coq Require Import ZArith NArith List Bool Arith.
From ErgV Require Import gen.Prec Common.Sx ExprParse.Model ExprParse.Spec.
Import ListNotations.
Open Scope Z_scope.

Definition binop_of_code (z : Z) : binop := nth (Z.to_nat z) all_binops OrOp.
Definition preop_of_code (z : Z) : preop := nth (Z.to_nat z) all_preops PreBitNot.
Definition litkind_of_code (z : Z) : litkind := if z =? 0 then NatLit else if z =? 1 then IntLit else RatioLit.

(** tokens: (0 n) | (1 kind text) | (2 op) | (3 op) | (4 adj) | (5 adj) | (6) | (7) *)
Definition dec_tok (x : sx) : tok :=
  let k := sx_z (sx_nth x 0) in
  if k =? 0 then TSym (sx_z (sx_nth x 1))
  else if k =? 1 then TLit (litkind_of_code (sx_z (sx_nth x 1))) (sx_zs (sx_nth x 2))
  else if k =? 2 then TBin (binop_of_code (sx_z (sx_nth x 1)))
  else if k =? 3 then TPre (preop_of_code (sx_z (sx_nth x 1)))
  else if k =? 4 then TDot (sx_to_bool (sx_nth x 1))
  else if k =? 5 then TLP (sx_to_bool (sx_nth x 1))
  else if k =? 6 then TRP
  else TComma.
Definition enc_tok (t : tok) : sx :=
  match t with
  | TSym n => SL [SZ 0; SZ n]
  | TLit k s => SL [SZ 1; SZ (litkind_code k); sx_of_zs s]
  | TBin o => SL [SZ 2; SZ (binop_code o)]
  | TPre p => SL [SZ 3; SZ (preop_code p)]
  | TDot a => SL [SZ 4; sx_bool a]
  | TLP a => SL [SZ 5; sx_bool a]
  | TRP => SL [SZ 6]
  | TComma => SL [SZ 7]
  end.

(** lexemes: (sp lexeme), lexeme = (0 n) | (1 ratio digits) | (2 opsym) | (3) dot | (4) `(` | (5) `)` | (6) `,`;
    opsym: 100 + | 101 - | 102 ~ | 103 * | 104 ** | otherwise the code of a binary operator *)
Definition dec_opsym (z : Z) : opsym :=
  if z =? 100 then SPlus else if z =? 101 then SMinus else if z =? 102 then STilde
  else if z =? 103 then SStar else if z =? 104 then SDblStar else SBin (binop_of_code z).
Definition dec_lexeme (x : sx) : bool * lexeme :=
  let l := sx_nth x 1 in
  let k := sx_z (sx_nth l 0) in
  (sx_to_bool (sx_nth x 0),
   if k =? 0 then LIdent (sx_z (sx_nth l 1))
   else if k =? 1 then LNum (sx_to_bool (sx_nth l 1)) (sx_zs (sx_nth l 2))
   else if k =? 2 then LOp (dec_opsym (sx_z (sx_nth l 1)))
   else if k =? 3 then LDot
   else if k =? 4 then LLP
   else if k =? 5 then LRP
   else LComma).

Definition enc_res (r : res expr) : sx :=
  match r with
  | Ok e => SL [SZ 0; enc_expr e]
  | Err => SL [SZ 1]
  | Panic => SL [SZ 2]
  | Unmodelled => SL [SZ 3]
  | Fuel => SL [SZ 4]
  end.
Definition enc_opt (r : option expr) : sx :=
  match r with Some e => SL [SZ 0; enc_expr e] | None => SL [SZ 1] end.
Definition enc_lex (r : lexres) : sx :=
  match r with
  | LexOk ts => SL [SZ 0; SL (map enc_tok ts)]
  | LexErr => SL [SZ 1]
  | LexUnmodelled => SL [SZ 2]
  end.

Definition start_cat (z : Z) : N := if z =? 0 then cat_BOF else cat_DefOp.
Definition run_parse (legacy : bool) (entry : Z) (ts : list tok) : res expr :=
  if entry =? 0 then parse_rhs legacy ts else parse_chunk legacy ts.

Definition enc_optN (o : option N) : sx := match o with Some n => SZ (Z.of_N n) | None => SZ (-1) end.

(** modes:
    (0 start lexemes)            -> lexer model: (0 tokens) | (1) error | (2) unmodelled
    (1 legacy entry tokens)      -> parser model: (0 tree) | (1) Err | (2) Panic | (3) Unmodelled | (4) Fuel
    (2 tokens)                   -> reference: (0 tree) | (1) not in the grammar
    (3 tokens impl)              -> judge; impl = (0 tree) | (1)
    (4 entry lexemes)            -> (lex parse climb legacy-parse) in one call (start category follows entry)
    (5)                          -> precedence numbers the model reads: binops, then prefix operators, then Dot *)
Definition run (x : sx) : sx :=
  let mode := sx_z (sx_nth x 0) in
  if mode =? 0 then enc_lex (lex (start_cat (sx_z (sx_nth x 1))) (map dec_lexeme (sx_l (sx_nth x 2))))
  else if mode =? 1 then
    enc_res (run_parse (sx_to_bool (sx_nth x 1)) (sx_z (sx_nth x 2)) (map dec_tok (sx_l (sx_nth x 3))))
  else if mode =? 2 then enc_opt (climb (map dec_tok (sx_l (sx_nth x 1))))
  else if mode =? 3 then
    let impl := sx_nth x 2 in
    sx_bool (judge (map dec_tok (sx_l (sx_nth x 1)))
                   (if sx_z (sx_nth impl 0) =? 0 then Some (sx_nth impl 1) else None))
  else if mode =? 4 then
    let entry := sx_z (sx_nth x 1) in
    let lr := lex (start_cat (if entry =? 0 then 1 else 0)) (map dec_lexeme (sx_l (sx_nth x 2))) in
    match lr with
    | LexOk ts => SL [enc_lex lr; enc_res (run_parse false entry ts); enc_opt (climb ts); enc_res (run_parse true entry ts)]
    | _ => SL [enc_lex lr]
    end
  else
    SL [SL (map (fun o => enc_optN (prec_b o)) all_binops); SL (map (fun p => enc_optN (prec_p p)) all_preops);
        enc_optN (precedence kind_Dot)].

Require Extraction.
Require Import ExtrOcamlBasic.
Extraction Language OCaml.
Extraction "model.ml" run.
