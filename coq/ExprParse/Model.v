(** C11 — model of the operator-expression part of crates/erg_parser:
      token.rs   TokenKind::{category, precedence}           (tables come from gen/Prec.v, regenerated every run)
      lex.rs     Lexer::op_fix, the `-`/`+` arms of Lexer::next (prefix / infix decision, negative literal rule),
                 lex_num / lex_num_dot as far as the kind of a numeric literal is concerned
      parse.rs   Parser::try_reduce_expr(_above), try_reduce_chunk (operator-stack loops), collect_last_binop_on_stack,
                 try_reduce_bin_lhs, try_reduce_unary, try_reduce_call_or_acc, try_reduce_acc_chain,
                 opt_reduce_args, try_reduce_args, try_reduce_arg
    Definitions only (computable); proofs are in Tables.v and Proofs.v.

    Token vocabulary: identifiers, Nat/Int/Ratio literals, the 29 binary operators the lexer can produce,
    the prefix operators + - ~, `.`, `(`, `)`, `,`.  Whenever the real parser would leave this vocabulary's
    fragment (tuples, `*`-less multiplication, `.x` as an argument, ...) the model answers [Unmodelled]; every
    enum_unwrap!/unwrap on the modelled path is [Panic]; a syntax error reported by the parser is [Err]. *)
From Coq Require Import ZArith NArith List Bool Arith.
From ErgV Require Import gen.Prec.
Import ListNotations.
Open Scope Z_scope.

Inductive res (A : Type) : Type :=
| Ok (a : A)
| Err              (* ParseResult Err(()): the parser reports a syntax error *)
| Panic            (* enum_unwrap! / unwrap() / switch_unreachable! would panic (debug build) *)
| Unmodelled       (* the real parser continues with a construct outside the modelled fragment *)
| Fuel.            (* model ran out of fuel (excluded for well-formed input by parse_is_climb) *)
Arguments Ok {A} a.
Arguments Err {A}.
Arguments Panic {A}.
Arguments Unmodelled {A}.
Arguments Fuel {A}.

Definition bind {A B} (r : res A) (f : A -> res B) : res B :=
  match r with Ok a => f a | Err => Err | Panic => Panic | Unmodelled => Unmodelled | Fuel => Fuel end.
Notation "'do' x <- r ; k" := (bind r (fun x => k)) (at level 200, x pattern, r at level 100, k at level 200).

(* ------------------------------------------------------------------ token kinds *)
(** binary operators (TokenCategory::BinOp kinds the lexer produces; SubOp is never lexed) *)
Inductive binop :=
| Pow | Star | Slash | FloorDiv | Mod | Plus | Minus | Shl | Shr | BitAnd | BitXor | BitOr
| Closed | RightOpen | LeftOpen | Open
| Less | Gre | LessEq | GreEq | DblEq | NotEq | InOp | NotInOp | ContainsOp | IsOp | IsNotOp
| AndOp | OrOp.
Definition all_binops : list binop :=
  [Pow; Star; Slash; FloorDiv; Mod; Plus; Minus; Shl; Shr; BitAnd; BitXor; BitOr; Closed; RightOpen; LeftOpen; Open;
   Less; Gre; LessEq; GreEq; DblEq; NotEq; InOp; NotInOp; ContainsOp; IsOp; IsNotOp; AndOp; OrOp].
Inductive preop := PrePlus | PreMinus | PreBitNot.
Definition all_preops : list preop := [PrePlus; PreMinus; PreBitNot].
Inductive litkind := NatLit | IntLit | RatioLit.

(** the TokenKind of an operator / literal (numbers generated from the Rust enum: gen/Prec.v) *)
Definition binop_kind (o : binop) : N :=
  match o with
  | Pow => kind_Pow | Star => kind_Star | Slash => kind_Slash | FloorDiv => kind_FloorDiv | Mod => kind_Mod
  | Plus => kind_Plus | Minus => kind_Minus | Shl => kind_Shl | Shr => kind_Shr
  | BitAnd => kind_BitAnd | BitXor => kind_BitXor | BitOr => kind_BitOr
  | Closed => kind_Closed | RightOpen => kind_RightOpen | LeftOpen => kind_LeftOpen | Open => kind_Open
  | Less => kind_Less | Gre => kind_Gre | LessEq => kind_LessEq | GreEq => kind_GreEq | DblEq => kind_DblEq
  | NotEq => kind_NotEq | InOp => kind_InOp | NotInOp => kind_NotInOp | ContainsOp => kind_ContainsOp
  | IsOp => kind_IsOp | IsNotOp => kind_IsNotOp | AndOp => kind_AndOp | OrOp => kind_OrOp
  end.
Definition preop_kind (p : preop) : N :=
  match p with PrePlus => kind_PrePlus | PreMinus => kind_PreMinus | PreBitNot => kind_PreBitNot end.
Definition litkind_kind (k : litkind) : N :=
  match k with NatLit => kind_NatLit | IntLit => kind_IntLit | RatioLit => kind_RatioLit end.

Fixpoint assoc {B} (k : N) (l : list (N * B)) : option B :=
  match l with
  | [] => None
  | (k', v) :: r => if N.eqb k k' then Some v else assoc k r
  end.

(** TokenKind::precedence (Option<usize>) and TokenKind::category, read from the generated tables *)
Definition precedence (kind : N) : option N := assoc kind prec_table.
Definition category (kind : N) : N :=
  match assoc kind category_table with Some c => c | None => 999%N end.
Definition prec_b (o : binop) : option N := precedence (binop_kind o).
Definition prec_p (p : preop) : option N := precedence (preop_kind p).
Definition is_binop_cat (o : binop) : bool := N.eqb (category (binop_kind o)) cat_BinOp.
Definition is_unary_cat (p : preop) : bool := N.eqb (category (preop_kind p)) cat_UnaryOp.

(** Rust's derived PartialOrd on Option<usize>: None < Some _ *)
Definition opt_ge (a b : option N) : bool :=
  match a, b with
  | _, None => true
  | None, Some _ => false
  | Some x, Some y => N.leb y x
  end.
Definition opt_gt (a b : option N) : bool :=
  match a, b with
  | None, _ => false
  | Some _, None => true
  | Some x, Some y => N.ltb y x
  end.

(* ------------------------------------------------------------------ lexer level *)
(** Input of the lexer model: lexemes with the information whether white space precedes them.
    [SPlus] [SMinus] [SStar] [SDblStar] are the spellings whose token kind depends on op_fix. *)
Inductive opsym := SPlus | SMinus | STilde | SStar | SDblStar | SBin (o : binop).
Inductive lexeme :=
| LIdent (n : Z)
| LNum (ratio : bool) (s : list Z)     (* digits, or digits '.' digits when ratio; code points *)
| LOp (o : opsym)
| LDot | LLP | LRP | LComma.

(** parser-level tokens. [adj]: no white space between the previous token and this one
    (the parser tests `obj.col_end() == t.col_begin()`) *)
Inductive tok :=
| TSym (n : Z)
| TLit (k : litkind) (s : list Z)
| TBin (o : binop)
| TPre (p : preop)
| TDot (adj : bool)
| TLP (adj : bool)
| TRP
| TComma.

Definition tok_kind (t : tok) : N :=
  match t with
  | TSym _ => kind_Symbol | TLit k _ => litkind_kind k | TBin o => binop_kind o | TPre p => preop_kind p
  | TDot _ => kind_Dot | TLP _ => kind_LParen | TRP => kind_RParen | TComma => kind_Comma
  end.

Inductive opfix := Prefix | Infix.

(** lex.rs Lexer::op_fix.  [prev_cat]: category of prev_token; [sp_before]: the character before the
    operator is ' '; [sp_after]: Some true when the character after the operator is ' ', None at end of input *)
Definition op_fix (prev_cat : N) (sp_before : bool) (sp_after : option bool) : option opfix :=
  if existsb (N.eqb prev_cat)
       [cat_LEnclosure; cat_BinOp; cat_UnaryOp; cat_Separator; cat_SpecialBinOp; cat_DefOp; cat_LambdaOp;
        cat_StrInterpLeft; cat_StrInterpMid; cat_BOF]
  then Some Prefix
  else if existsb (N.eqb prev_cat) [cat_REnclosure; cat_Literal; cat_StrInterpRight; cat_Symbol]
  then match sp_before, sp_after with
       | true, Some true => Some Infix      (* x + 1 *)
       | true, Some false => Some Prefix    (* x +1  *)
       | false, Some _ => Some Infix        (* x+ 1, x+1 *)
       | _, None => None
       end
  else None.

(** Lexer::is_zero on the text of a literal: s.replace("-0","").replace('0',"").is_empty().
    For texts of the shape '-'? digits this is: all digits are '0'. *)
Definition is_zero_digits (s : list Z) : bool := forallb (Z.eqb 48) s.
(** lex_num / lex_num_dot / lex_ratio: kind of '-'? s *)
Definition num_kind (neg ratio : bool) (digits : list Z) : litkind :=
  if ratio then RatioLit else if neg && negb (is_zero_digits digits) then IntLit else NatLit.
Definition minus_cp : Z := 45.

Inductive lexres := LexOk (ts : list tok) | LexErr | LexUnmodelled.

(** adjacent lexeme pairs (no white space in between) that the real lexer would read as something else: one
    symbol `ab`, `a!` `=`, `<-`, `<..`, `...`, `//`, `**`, `->`, `>>`, exponent/radix literals, `1.` ratio ...
    Those inputs are outside the lexer model.  Lexemes are classified by a small code first. *)
Definition lx_code (l : lexeme) : nat :=
  match l with
  | LIdent _ => 0
  | LNum _ _ => 1
  | LOp (SBin o) =>
    match o with
    | InOp | NotInOp | ContainsOp | IsOp | IsNotOp | AndOp | OrOp => 2     (* alphabetic operators *)
    | NotEq => 3 | Less => 4 | Closed => 5 | RightOpen => 6 | LessEq => 7 | LeftOpen => 8 | Open => 9 | Shl => 10
    | Slash => 11 | FloorDiv => 12 | Gre => 13 | GreEq => 14 | Shr => 15 | DblEq => 16
    | _ => 17
    end
  | LOp SMinus => 18
  | LOp SStar => 19
  | LOp SDblStar => 20
  | LOp SPlus | LOp STilde => 21
  | LDot => 22
  | LLP | LRP | LComma => 23
  end%nat.
Definition glue_table : list (nat * nat) :=
  [ (0,0); (0,1); (0,2); (1,0); (1,1); (1,2); (2,0); (2,1); (2,2);     (* identifier characters run together *)
    (0,3);                                                              (* a!= is a! = *)
    (4,18); (4,22); (4,5); (4,6); (4,4); (4,7); (4,8); (4,9); (4,10); (4,16);   (* <- <. <.. << <= ... *)
    (5,4); (5,7); (5,8); (5,9); (5,10); (5,22); (5,5); (5,6);           (* ..< ... *)
    (22,22); (22,5); (22,6); (22,1); (1,22); (1,5); (1,6);              (* .. ... .5 1. 1.. *)
    (19,19); (19,20); (20,19); (20,20); (11,11); (11,12); (12,11); (12,12);     (* ** // *)
    (18,13); (18,14); (18,15); (13,13); (13,14); (13,15); (13,16); (16,13); (16,14); (16,15); (16,16);  (* -> >> >= == => *)
    (3,16); (7,16); (14,16); (7,13); (4,13) ]%nat.
Definition glued (a b : lexeme) : bool :=
  existsb (fun p => Nat.eqb (fst p) (lx_code a) && Nat.eqb (snd p) (lx_code b)) glue_table.

Definition next_glued (l : lexeme) (r : list (bool * lexeme)) : bool :=
  match r with (false, l') :: _ => glued l l' | _ => false end.
Definition sp_after (r : list (bool * lexeme)) : option bool :=
  match r with [] => None | (sp, _) :: _ => Some sp end.
Definition lex_cons (t : tok) (r : lexres) : lexres :=
  match r with LexOk ts => LexOk (t :: ts) | e => e end.

(** lex_num / lex_num_dot / lex_ratio: the token of '-'? s *)
Definition num_tok (neg ratio : bool) (s : list Z) : tok :=
  TLit (num_kind neg ratio s) (if neg then minus_cp :: s else s).
Definition num_cat (neg ratio : bool) (s : list Z) : N := category (litkind_kind (num_kind neg ratio s)).
(** what may follow a number: `1.name` (lex_num_dot leaves the '.' when a symbol character follows it);
    otherwise the number must not run into the next lexeme *)
Definition num_follow_ok (ratio : bool) (s : list Z) (r : list (bool * lexeme)) : bool :=
  match r with
  | (false, LDot) :: (false, LIdent _) :: _ => true
  | _ => negb (next_glued (LNum ratio s) r)
  end.

(** one pass over the lexemes; [prev_cat] is the category of the previously emitted token.
    Each lexeme comes with [sp] = white space before it. *)
Fixpoint lex_from (prev_cat : N) (ls : list (bool * lexeme)) : lexres :=
  match ls with
  | [] => LexOk []
  | (sp, l) :: r =>
    match l with
    | LNum ratio s =>
      if num_follow_ok ratio s r then lex_cons (num_tok false ratio s) (lex_from (num_cat false ratio s) r) else LexUnmodelled
    | _ =>
    if next_glued l r then LexUnmodelled else
    match l with
    | LIdent n => lex_cons (TSym n) (lex_from (category kind_Symbol) r)
    | LNum _ _ => LexUnmodelled (* not reached *)
    | LDot =>
      match r with
      | (_, LNum _ _) :: _ => LexUnmodelled    (* after a `.` token lex_num_dot reads `2.5` as `2` `.5` (tuple index) *)
      | (_, LOp SMinus) :: (false, LNum _ _) :: _ => LexUnmodelled     (* the same for `. -2.5` *)
      | _ => lex_cons (TDot (negb sp)) (lex_from (category kind_Dot) r)
      end
    | LLP => lex_cons (TLP (negb sp)) (lex_from (category kind_LParen) r)
    | LRP => lex_cons TRP (lex_from (category kind_RParen) r)
    | LComma => lex_cons TComma (lex_from (category kind_Comma) r)
    | LOp (SBin o) => lex_cons (TBin o) (lex_from (category (binop_kind o)) r)
    | LOp STilde => lex_cons (TPre PreBitNot) (lex_from (category kind_PreBitNot) r)   (* Some('~') => accept(PreBitNot) *)
    | LOp SPlus =>
      match op_fix prev_cat sp (sp_after r) with
      | Some Infix => lex_cons (TBin Plus) (lex_from (category kind_Plus) r)
      | Some Prefix => lex_cons (TPre PrePlus) (lex_from (category kind_PrePlus) r)
      | None => LexErr
      end
    | LOp SMinus =>
      match op_fix prev_cat sp (sp_after r) with
      | Some Infix => lex_cons (TBin Minus) (lex_from (category kind_Minus) r)
      | Some Prefix =>
        (* IntLit (negative number): the next character is a digit => lex_num('-') *)
        match r with
        | (false, LNum ratio s) :: r' =>
          if num_follow_ok ratio s r' then lex_cons (num_tok true ratio s) (lex_from (num_cat true ratio s) r') else LexUnmodelled
        | _ => lex_cons (TPre PreMinus) (lex_from (category kind_PreMinus) r)
        end
      | None => LexErr
      end
    | LOp SStar =>
      match op_fix prev_cat sp (sp_after r) with
      | Some Infix => lex_cons (TBin Star) (lex_from (category kind_Star) r)
      | Some Prefix => LexUnmodelled   (* PreStar *)
      | None => LexErr
      end
    | LOp SDblStar =>
      (* op_fix is consulted after both '*' are consumed: the "previous" character is the first '*' *)
      match op_fix prev_cat false (sp_after r) with
      | Some Infix => lex_cons (TBin Pow) (lex_from (category kind_Pow) r)
      | Some Prefix => LexUnmodelled   (* PreDblStar *)
      | None => LexErr
      end
    end
    end
  end.

(** [start_cat]: cat_BOF for a bare expression, cat_DefOp after `x =` *)
Definition lex (start_cat : N) (ls : list (bool * lexeme)) : lexres := lex_from start_cat ls.

(* ------------------------------------------------------------------ syntax trees *)
(** observable shape of erg_parser::ast::Expr for this fragment (locations dropped; parentheses leave no node) *)
Inductive expr :=
| EId (n : Z)                                   (* Accessor::Ident *)
| ELit (k : litkind) (s : list Z)               (* Literal *)
| EBin (o : binop) (l r : expr)                 (* BinOp *)
| EUn (p : preop) (e : expr)                    (* UnaryOp *)
| EAttr (obj : expr) (name : Z)                 (* Accessor::Attr *)
| ECall (obj : expr) (name : option Z) (args : list expr).   (* Call { obj, attr_name, args (positional) } *)

(** Expr::call: a call on an attribute access is a method call *)
Definition mk_call (obj : expr) (args : list expr) : expr :=
  match obj with
  | EAttr o m => ECall o (Some m) args
  | other => ECall other None args
  end.

(* ------------------------------------------------------------------ operator stack *)
(** enum ExprOrOp; the Vec is modelled with its last element (top) at the head *)
Inductive item := IExpr (e : expr) | IOp (o : binop).

(** parse.rs collect_last_binop_on_stack *)
Definition collect_last (st : list item) : res (list item) :=
  match st with
  | IExpr rhs :: IOp op :: IExpr lhs :: rest => Ok (IExpr (EBin op lhs rhs) :: rest)
  | _ => Panic
  end.

(** the reduction loop of the BinOp arm:
      while let Some(ExprOrOp::Op(prev_op)) = stack.get(stack.len() - 2) {
          if prev_op.category_is(TC::BinOp) && prev_op.kind.precedence() >= op_prec { pop rhs, op, lhs; push BinOp }
          else { break }
          if stack.len() <= 1 { break }
      }
    fuel: the stack shrinks by two per iteration *)
Fixpoint reduce_while (n : nat) (op_prec : option N) (st : list item) : res (list item) :=
  match n with
  | O => Fuel
  | S n' =>
    match st with
    | _ :: IOp prev :: _ =>
      if is_binop_cat prev && opt_ge (prec_b prev) op_prec then
        do st' <- collect_last st;
        if (List.length st' <=? 1)%nat then Ok st' else reduce_while n' op_prec st'
      else Ok st
    | _ => Ok st
    end
  end.

(** `while stack.len() >= 3 { collect_last_binop_on_stack(&mut stack) }` *)
Fixpoint collect_all (n : nat) (st : list item) : res (list item) :=
  match n with
  | O => Fuel
  | S n' => if (3 <=? List.length st)%nat then do st' <- collect_last st; collect_all n' st' else Ok st
  end.

(** after the loop: `match stack.pop()` *)
Definition loop_exit (st : list item) (ts : list tok) : res (expr * list tok) :=
  match st with
  | IExpr e :: _ => Ok (e, ts)          (* a non-empty rest only adds a compiler-bug warning *)
  | IOp _ :: _ => Err
  | [] => Panic
  end.

(** the guard added to the BinOp arm of try_reduce_expr_above:
      min_prec.map_or(true, |min| op.kind.precedence() > Some(min))
    [min]: None = no restriction; Some p = the precedence() of the prefix operator whose operand is parsed.
    try_reduce_unary passes op.kind.precedence() (an Option) as min_prec. *)
Definition min_ok (min : option N) (o : binop) : bool :=
  match min with
  | None => true
  | Some m => opt_gt (prec_b o) (Some m)
  end.

(** opt_reduce_args: does the next token start an argument list? 0 = no, 1 = yes, 2 = `.`/`::` argument *)
Definition starts_args (ts : list tok) : nat :=
  match ts with
  | TLit _ _ :: _ | TSym _ :: _ | TLP _ :: _ => 1
  | TPre p :: _ => if is_unary_cat p then 1 else 0
  | TDot _ :: _ => 2
  | _ => 0
  end.

(* ------------------------------------------------------------------ the parser *)
(** [legacy] = true reproduces try_reduce_unary before the repair (operand parsed by try_reduce_expr without
    min_prec, and the `.name` arms not looking at a following adjacent `.`); the current code is [legacy = false]. *)
Section Parser.
Variable legacy : bool.

Fixpoint p_expr (f : nat) (min : option N) (winding : bool) (ts : list tok) {struct f} : res (expr * list tok) :=
  (* try_reduce_expr_above(min_prec, winding, ..) *)
  match f with
  | O => Fuel
  | S f =>
    do (e, r) <- p_lhs f ts;
    p_loop f false min winding [IExpr e] r
  end

with p_loop (f : nat) (chunk : bool) (min : option N) (winding : bool) (st : list item) (ts : list tok) {struct f}
  : res (expr * list tok) :=
  (* the `loop { match self.peek() { .. } }` of try_reduce_expr_above ([chunk] = false) and of
     try_reduce_chunk ([chunk] = true); the two are textual copies except where marked *)
  match f with
  | O => Fuel
  | S f =>
    let finish :=
        (* `_ =>` arm *)
        if (List.length st <=? 1)%nat then loop_exit st ts
        else do st' <- collect_all (List.length st) st; p_loop f chunk min winding st' ts in
    let juxtaposed :=
        (* try_reduce_chunk only: `Some(arg) if arg.is(Symbol) || arg.category_is(TC::Literal)` *)
        do (args, r) <- p_args f ts;
        match st with
        | IExpr obj :: st' => p_loop f chunk min winding (IExpr (mk_call obj args) :: st') r
        | _ => Panic
        end in
    match ts with
    | TSym _ :: _ | TLit _ _ :: _ => if chunk then juxtaposed else finish
    | TBin o :: r =>
      if negb (is_binop_cat o) then Unmodelled
      else if (if chunk then true else min_ok min o) then
        let op_prec := prec_b o in
        do st1 <- (if (2 <=? List.length st)%nat then reduce_while (List.length st) op_prec st else Ok st);
        do (e, r') <- p_lhs f r;
        p_loop f chunk min winding (IExpr e :: IOp o :: st1) r'
      else finish
    | TDot _ :: t2 :: r =>
      match t2 with
      | TSym m =>
        match st with
        | IExpr obj :: st' =>
          let next_is_adjacent_dot := match r with TDot true :: _ => true | _ => false end in
          if negb legacy && next_is_adjacent_dot then
            p_loop f chunk min winding (IExpr (EAttr obj m) :: st') r
          else
          match starts_args r with
          | 1%nat => do (args, r') <- p_args f r;
                     p_loop f chunk min winding (IExpr (ECall obj (Some m) args) :: st') r'
          | 2%nat => Unmodelled
          | _ => p_loop f chunk min winding (IExpr (EAttr obj m) :: st') r
          end
        | _ => Err
        end
      | _ => Err
      end
    | TDot _ :: [] => Err
    | TComma :: _ => if winding then Unmodelled (* tuple *) else finish
    | _ => finish
    end
  end

with p_lhs (f : nat) (ts : list tok) {struct f} : res (expr * list tok) :=
  (* try_reduce_bin_lhs *)
  match f with
  | O => Fuel
  | S f =>
    match ts with
    | TLit k s :: r =>
      match r with
      | TSym _ :: _ | TLP _ :: _ => Unmodelled     (* `*`-less multiplication 3x, 3(4+1) *)
      | _ => Ok (ELit k s, r)
      end
    | TSym n :: r => p_chain f (EId n) r           (* try_reduce_call_or_acc *)
    | TDot _ :: _ => Unmodelled                    (* `.x` *)
    | TPre p :: r =>
      if is_unary_cat p then
        (* try_reduce_unary *)
        do (e, r') <- p_expr f (if legacy then None else prec_p p) false r;
        Ok (EUn p e, r')
      else Unmodelled
    | TLP _ :: r =>
      match r with
      | TRP :: _ => Unmodelled                     (* unit tuple *)
      | _ =>
        do (e, r') <- p_expr f None true r;
        match r' with
        | TRP :: r'' => Ok (e, r'')
        | _ => Err
        end
      end
    | TBin _ :: _ | TRP :: _ | TComma :: _ => Err
    | [] => Err
    end
  end

with p_chain (f : nat) (obj : expr) (ts : list tok) {struct f} : res (expr * list tok) :=
  (* try_reduce_acc_chain followed by the `while let Some(res) = self.opt_reduce_args(..)` of try_reduce_call_or_acc *)
  match f with
  | O => Fuel
  | S f =>
    match ts with
    | TDot true :: t2 :: r =>
      match t2 with
      | TSym m => p_chain f (EAttr obj m) r
      | TLit NatLit _ => Unmodelled                (* tuple attribute t.0 *)
      | _ => Err
      end
    | TDot true :: [] => Err
    | TLP true :: _ =>
      do (args, r) <- p_args f ts;
      p_chain f (mk_call obj args) r
    | _ => p_juxt f obj ts
    end
  end

with p_juxt (f : nat) (obj : expr) (ts : list tok) {struct f} : res (expr * list tok) :=
  match f with
  | O => Fuel
  | S f =>
    match starts_args ts with
    | 1%nat => do (args, r) <- p_args f ts; p_juxt f (mk_call obj args) r
    | 2%nat => Unmodelled
    | _ => Ok (obj, ts)
    end
  end

with p_args (f : nat) (ts : list tok) {struct f} : res (list expr * list tok) :=
  (* try_reduce_args (positional arguments only; each argument is try_reduce_arg => try_reduce_expr(false,..)) *)
  match f with
  | O => Fuel
  | S f =>
    let '(lp, r0) := match ts with TLP _ :: r => (true, r) | _ => (false, ts) end in
    match r0 with
    | TRP :: r1 => if lp then Ok ([], r1) else Panic      (* lp.unwrap() *)
    | _ =>
      do (a, r1) <- p_expr f None false r0;
      p_args_loop f lp [a] r1
    end
  end

with p_args_loop (f : nat) (lp : bool) (acc : list expr) (ts : list tok) {struct f} : res (list expr * list tok) :=
  match f with
  | O => Fuel
  | S f =>
    match ts with
    | TComma :: r =>
      match r with
      | TComma :: _ => Err
      | TRP :: r' => if lp then Ok (acc, r') else Err
      | _ => do (a, r1) <- p_expr f None false r; p_args_loop f lp (acc ++ [a]) r1
      end
    | TRP :: r => if lp then Ok (acc, r) else Ok (acc, ts)
    | _ => Ok (acc, ts)
    end
  end.

(** fuel used by the entry points (sufficient for every well-formed input: Proofs.parse_is_climb) *)
Definition fuel_of (ts : list tok) : nat := 8 * List.length ts + 8.

(** `x = <expr>`: the DefOp arm of try_reduce_chunk calls try_reduce_expr(true, false, false, false); the
    chunk must then end (Newline/EOF), otherwise "semicolon or newline should be added" *)
Definition parse_rhs (ts : list tok) : res expr :=
  do (e, r) <- p_expr (fuel_of ts) None true ts;
  match r with [] => Ok e | _ => Err end.

(** a bare expression statement: try_reduce_module calls try_reduce_chunk(true, false) *)
Definition parse_chunk (ts : list tok) : res expr :=
  do (e, r) <- p_lhs (fuel_of ts) ts;
  do (e', r') <- p_loop (fuel_of ts) true None true [IExpr e] r;
  match r' with [] => Ok e' | _ => Err end.

End Parser.

(** the parser as it is *)
Definition parse (ts : list tok) : res expr := parse_rhs false ts.
